/-
C01 — SimpleDB reads like a map, whatever flushes, compactions and restarts happen.
Proved at the layer abstraction (L6); the byte-level tables, merge heap, skip list, memstore and WAL refine
the layer operations used here through the theorems of C03/C08/C14/C16/C07 (interface lemmas, see DESIGN.md).
-/
import SST.Proofs.DB
namespace SST.C01
open SST SST.DBM

/-- a read of an open database returns exactly what the abstraction map holds -/
theorem get_refines (s : State) (k : Key) (ho : s.isOpen = true) (hc : s.closed = false)
    (hne : ∀ k v, memGet s k = some (some v) → v ≠ []) :
    get s k = (match abs s k with | some v => .value v | none => .notFound) :=
  Proofs.DB.get_refines s k ho hc hne

/-- MAIN THEOREM — programs × schedules × configurations at once: for EVERY list of steps, i.e. every client
program of Put/Delete/Get/Close/re-Open (both API flavours, valid and rejected calls) interleaved with ANY
placement of rotations, flush completions and compaction cycles, with ANY table sizes reported to the
compaction selection and ANY options (threshold, max size, ratio) per session, every client call returns
exactly what the reference map returns. -/
theorem db_refines_map (steps : List Step) :
    (run {} steps).map (·.1) = specRun {} steps :=
  Proofs.DB.db_refines_map steps

/-- table numbers stay strictly increasing along the live list, so re-loading the directories in name order
after a restart stacks them in the same order -/
theorem gens_ok (steps : List Step) : GensOk (runState {} steps) :=
  Proofs.DB.gens_ok steps

/-- rotation, flush completion and compaction never change what any key reads as -/
theorem reads_stable (steps : List Step) (st : Step) (k : Key)
    (hint : match st with | .rotate | .flush | .compact _ => True | _ => False) :
    abs (step (runState {} steps) st).1 k = abs (runState {} steps) k :=
  Proofs.DB.reads_stable steps st k hint

/-- a clean close followed by a re-open with any options changes no key's value -/
theorem reads_stable_close_reopen (steps : List Step) (o : Opts) (k : Key)
    (hu : (runState {} steps).isOpen = true ∧ (runState {} steps).closed = false) :
    abs (runState {} (steps ++ [.close, .reopen o])) k = abs (runState {} steps) k :=
  Proofs.DB.reads_stable_close_reopen steps o k hu

/-- non-vacuity: a concrete session (put, rotate, flush, delete, compaction excluding nothing, reopen) -/
example : (run {} [.reopen {threshold := 0, maxSize := 10}, .putS [1] [2] false, .rotate, .flush, .delS [1],
    .rotate, .flush, .compact [5, 5], .get [1], .close, .reopen {}, .get [1]]).map (·.1)
    = [none, some .ok, none, none, some .ok, none, none, none, some .notFound, some .ok, none, some .notFound] := by
  decide

end SST.C01
