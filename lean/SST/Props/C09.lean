/-
C09 — A damaged SSTable data file is detected, never served as different data.
Property theorems only; lemmas live in SST/Proofs/SSTableDamage.lean (and the CRC-64 single-byte law in
SST/Proofs/Crc.lean).  The checksum stored in the index for a value is `valueSum v` = CRC-64/ISO of its
bytes; nil and empty values have checksum 0, which is also the reader's "legacy" bypass value.
-/
import SST.Proofs.SSTableDamage
namespace SST.C09
open SST Generated

/-- The decision logic of a verified read, as coded (swallowed bare `io.EOF` and zero-checksum bypass
included), for ANY data file bytes and ANY index entry: a `Get` / scan step that returns a value without
error returns one whose CRC-64 equals the stored checksum, unless the stored checksum is 0.
Three forms: `getValueAtOffset` (Get, ScanStartingAt, ScanRange, validation on load), the index scan loop,
and the full scan paired with the sequential reader. -/
theorem verified_read_sound (dc : Compression) (data : Bytes) :
    (∀ iv v', getValueAtOffset dc data iv false = .ok v' → valueSum v' = iv.sum ∨ iv.sum = 0) ∧
    (∀ es fin, ∀ p ∈ (scanWith dc data false es fin).1,
      ∃ e ∈ es, p.1 = e.1 ∧ (valueSum p.2 = e.2.sum ∨ e.2.sum = 0)) ∧
    (∀ es fin s, ∀ p ∈ (fullScanS dc false es fin s).1,
      ∃ e ∈ es, p.1 = e.1 ∧ (valueSum p.2 = e.2.sum ∨ e.2.sum = 0)) :=
  ⟨fun iv v' h => Proofs.Sst.verified_get_sound dc data iv v' h,
   fun es fin => Proofs.Sst.scanWith_sound dc data es fin,
   fun es fin s => Proofs.Sst.fullScanS_sound dc es fin s⟩

/-- Default options (verify on load, no check on reads): whatever the three files contain, if
`NewSSTableReader` succeeds then every indexed entry is served with a value whose CRC-64 is the stored one
(or the stored one is 0). -/
theorem load_verified_sound (comps : Nat → Compression) (k : LoaderKind) (o : ReadOpts) (t : Table)
    (bloom : Option (Bytes → Bool)) (r : Reader) (idx : Index) (hv : o.skipHashOnLoad = false)
    (h : openTable comps k o t bloom = .ok (r, idx)) :
    ∀ e ∈ idx.all.1, ∃ v, r.getWith (.ok e.2) = .ok v ∧ (valueSum v = e.2.sum ∨ e.2.sum = 0) :=
  Proofs.Sst.load_verified_sound comps k o t bloom r idx hv h

/-- Compression none, a value `v` whose checksum is not 0, its record anywhere in the data file
(`pre ++ record ++ rest`): ANY single-byte change inside the payload makes the verified read of that key
fail with a checksum error. -/
theorem payload_alteration_detected (pre rest v : Bytes) (j : Nat) (hj : j < v.length) (x : UInt8)
    (hx : x ≠ v[j]) (hfit : v.length < 2 ^ 64) (hz : valueSum (some v) ≠ 0) :
    getValueAtOffset none
      ((pre ++ encRecord none (some v) ++ rest).set (pre.length + (encHeader false v.length 0).length + j) x)
      ⟨pre.length, valueSum (some v)⟩ false = .error .checksum :=
  Proofs.Sst.payload_alteration_detected pre rest v j hj x hx hfit hz

/-- ANY shortening of `data.rio` of the table of `kvs` (cut at any length `n`, any lawful compressor):
the verified read of key `i` returns the original value or an error, provided its stored checksum is not 0.
(With checksum 0 a cut exactly at the start of the record returns nil without error: the swallowed EOF.) -/
theorem truncation_detected (cfg : SstCfg) (kvs : List KV) (hl : LawfulC cfg.dc)
    (hf : ∀ p ∈ kvs, FitsRec cfg.dc p.2) (i : Nat) (hi : i < kvs.length) (hz : valueSum kvs[i].2 ≠ 0) (n : Nat) :
    let iv : IndexVal := ⟨offsetOf cfg.dc (kvs.map (·.2)) i, valueSum kvs[i].2⟩
    getValueAtOffset cfg.dc ((dataFileOf cfg kvs).take n) iv false = .ok kvs[i].2 ∨
    ∃ e, getValueAtOffset cfg.dc ((dataFileOf cfg kvs).take n) iv false = .error e :=
  Proofs.Sst.truncation_detected cfg kvs hl hf i hi hz n

/-- the index entry used above is the one the table holds for key `i` -/
theorem entry_of_key (dc : Compression) (kvs : List KV) (i : Nat) (hi : i < kvs.length) :
    ((entriesOf dc kvs)[i]'(by unfold entriesOf; rw [Proofs.Sst.entriesFrom_length]; exact hi)).2 =
      ⟨offsetOf dc (kvs.map (·.2)) i, valueSum kvs[i].2⟩ := by
  have := Proofs.Sst.entriesFrom_getElem dc kvs fileHeaderSize i hi
  simpa [entriesOf, offsetOf, List.map_take] using this

/-- a different value with the same CRC-64: the residual no checksum can exclude -/
def Crc64Coincides (v' v : GoBytes) : Prop := v' ≠ v ∧ valueSum v' = valueSum v

/-- General damage (ANY replacement `data'` of the data file, any compression): a verified read of a key
whose stored checksum is not 0 yields an error, the original value, or a value whose CRC-64 coincides with
the original's.  The last disjunct is the honest residual of a 64-bit checksum; header damage and damage
inside compressed payloads fall under it. -/
theorem damage_sound (dc : Compression) (data' : Bytes) (v : GoBytes) (off : Nat) (hz : valueSum v ≠ 0) :
    (∃ e, getValueAtOffset dc data' ⟨off, valueSum v⟩ false = .error e) ∨
    getValueAtOffset dc data' ⟨off, valueSum v⟩ false = .ok v ∨
    ∃ v', getValueAtOffset dc data' ⟨off, valueSum v⟩ false = .ok v' ∧ Crc64Coincides v' v := by
  cases h : getValueAtOffset dc data' ⟨off, valueSum v⟩ false with
  | error e => exact Or.inl ⟨e, rfl⟩
  | ok v' =>
    rcases Proofs.Sst.damage_sound dc data' v off v' hz h with h1 | h1
    · exact Or.inr (Or.inl (by rw [h1]))
    · exact Or.inr (Or.inr ⟨v', rfl, h1⟩)

/-- FINDING (the "legacy" bypass reaches non-empty values): a value whose CRC-64 is 0 is not protected at
all — ANY bytes of the same length found in its payload are returned by the verified read without error. -/
theorem zero_checksum_unprotected (pre rest v v' : Bytes) (hlen : v'.length = v.length) (hfit : v.length < 2 ^ 64)
    (hz : valueSum (some v) = 0) :
    getValueAtOffset none (pre ++ encRecord none (some v') ++ rest) ⟨pre.length, valueSum (some v)⟩ false = .ok (some v') :=
  Proofs.Sst.zero_checksum_unprotected pre rest v v' hlen hfit hz

/-- such values exist: these eight bytes are non-empty and their CRC-64/ISO is 0 -/
theorem zero_checksum_value : valueSum (some [0xf4, 0x42, 0x2f, 0xf4, 0x42, 0x2f, 0xf4, 0x12]) = 0 := by
  decide +kernel

/-- non-vacuity of the `valueSum ≠ 0` hypotheses: an ordinary value -/
example : valueSum (some [1, 2, 3]) ≠ 0 := by decide +kernel

end SST.C09
