/-
C18 — Documented concurrent use is data-race free and gives single-threaded answers.

FULL PROPERTY (about the real goroutines, under the Go memory model): concurrent calls on one SimpleDB handle,
concurrent Get/Contains/range scans on one table reader (default index loader) and concurrent
ReadNextAt/SeekNext on one memory-mapped RecordIO reader never constitute a data race, never panic, and each
call returns what it would return if executed alone.

WHAT IS PROVED HERE (`partial`, by nature — Lean carries the lock and ownership bookkeeping, not the runtime):
 (a) `race_free`: in the access table REGENERATED from /repo/simpledb on every run (tools/lockfacts →
     SST/Generated/Access.lean: every access of every function to a field of DB / SSTableManager / RWMemstore
     or to the content of a memstore / WAL / table reader, with the locks held there — own acquisitions plus
     the locks all callers hold, as a fixed point over the package call graph — and the thread kind executing
     it), any two conflicting accesses that can overlap in time hold a common lock in a compatible mode or are
     ordered by one of the two stated hand-off edges.  The quantifier IS the table, so `decide` is a proof of
     the statement about the table; that the table is what the source says is the extractor's job (syntactic,
     stdlib go/parser; trusted), that locks/channels/`go` statements order memory accesses is the Go memory
     model (modelled, not verified).
 (b) `documented_reads_write_nothing` over the regenerated purity facts (SST/Generated/Purity.lean), and
     `reads_are_pure` for the Lean models: the documented read operations return the handle unchanged, so in
     any sequence of them each returns what it returns alone.
 (c) "same result as alone" for the database with writers is linearizability = C05; for concurrent readers it is
     `concurrent_gets_return_the_sequential_answer` below.
MODELLED, NOT VERIFIED: the Go memory model, `sync.RWMutex`, channels, the buffer pool behind
`MMapReader.bufferPool` (capnp `bufferpool.Pool`, internally synchronised; the reader copies out of pooled
buffers before returning them), `x/exp/mmap.ReaderAt` (read-only mapping), the bloom filter's `Contains`, slice
aliasing below field granularity (`append` in `addReader` writes beyond the length of every published slice),
and the race detector's own coverage.  The `race` stream (a `-race` build hammering the three handles and
comparing every answer with the single-threaded one) validates the extracted table and these assumptions
against the code on every run; it is not part of the theorems.
-/
import SST.Spec.Access
import SST.Generated.Purity
import SST.Proofs.Conc
import SST.Model.SSTable
namespace SST.C18
open SST SST.Generated SST.AccessSpec

/-! ## (a) the regenerated access table -/

/-- the indices the hand-written rules use denote the objects they are meant to denote -/
theorem names_consistent :
    objNames[objMemStore]? = some "MemStoreI→" ∧ objNames[objRwLock]? = some "DB.rwLock" ∧
    objNames[objDatabaseLock]? = some "SSTableManager.databaseLock" ∧
    objNames[objManagerLock]? = some "SSTableManager.managerLock" ∧
    viaNames[viaHanded]? = some "handed" ∧ viaNames[viaWriteStore]? = some "writeStore" := by decide

/-- the order facts the `ordered` table and the hand-off edges rest on are what the source says today
(a mismatch means Open/Close/the flush hand-off were restructured: re-examine the rules).
Since edfc7e7 `Open` registers, right after its `open` check, a deferred clean-up — `defer:` events: close the stacked
reader, forget the readers — that gives the loaded tables back when `Open` FAILS.  It runs at frame exit, still under the
db write lock (the unlock was deferred earlier), and — re-examined for the rules: — the extractor keeps its accesses in
thread kind `opener 0` only because the literal is `if err != nil { … }` on the named result and `Open` returns an error
only before its first `go` statement (tools/lockfacts `errorOnlyDefer`; an unguarded clean-up is classified `opener 2`,
concurrent with both goroutines, and `table_ok` fails): the clean-up never runs in a process that has a flusher or a
compactor.  The conjunct after `openOrder` says so on the table: `clearReaders` — called from the clean-up only — is executed
by `opener 0` alone, and everything it writes is written under the db write lock. -/
theorem order_facts_as_expected :
    spawns = [("DB.Open", "flushMemstoreContinuously"), ("DB.Open", "backgroundCompaction")] ∧
    openOrder = ["lock:dbW", "check:open",
      "defer:call:SSTableManager.currentSSTable", "defer:content:currentReader.Close", "defer:call:SSTableManager.clearReaders",
      "call:DB.repairCompactions", "call:DB.reconstructSSTables",
      "call:DB.replayAndSetupWriteAheadLog", "go:flushMemstoreContinuously", "write:DB.compactionTicker",
      "go:backgroundCompaction", "write:DB.open"] ∧
    (accesses.filter (fun a => a.fn == "SSTableManager.clearReaders")).all
      (fun a => a.thread == .opener 0 && (a.locks.contains .dbW || a.kind == .read)) = true ∧
    closeOrder = ["lock:dbW", "check:open", "check:closed", "write:DB.closed", "call:DB.rotateWalAndFlushMemstore",
      "close:storeFlushChannel", "recv:doneFlushChannel", "unlock:db", "send:compactionTickerStopChannel",
      "recv:doneCompactionChannel", "content:wal.Close", "call:SSTableManager.currentSSTable",
      "content:currentReader.Close"] ∧
    flushSends = [("DB.VerifWaitFlushIdle", "&v0"), ("DB.rotateWalAndFlushMemstore", "swapMemstore(r)")] ∧
    swapMemstoreBody = "{ v0 := p0.memStore.writeStore p0.memStore = &RWMemstore{ readStore: v0, writeStore: memstore.NewMemStore(), } return &v0 }" ∧
    dbLockShared = true ∧
    dbChannels = [("compactionTickerStopChannel", "make(chan interface{}, 1)"), ("doneCompactionChannel", "make(chan bool)"),
      ("doneFlushChannel", "make(chan bool)"), ("storeFlushChannel", "make(chan memStoreFlushAction)")] ∧
    clientPrologues = [
      ("DB.Close", ["DB.rwLock", "DB.rwLock", "DB.open", "DB.closed"], [.dbW]),
      ("DB.Delete", [], []),
      ("DB.DeleteBytes", ["DB.rwLock", "DB.rwLock", "DB.open", "DB.closed"], [.dbW]),
      ("DB.Get", [], []),
      ("DB.GetBytes", ["DB.rwLock", "DB.rwLock", "DB.open", "DB.closed"], [.dbR]),
      ("DB.Put", [], []),
      ("DB.PutBytes", ["DB.rwLock", "DB.rwLock", "DB.open", "DB.closed"], [.dbW])] := by decide +kernel

/-- a memstore is written only while it is the write store: nothing is ever written through `readStore` or
through the flusher's hand-over (H2's last step) -/
theorem readstore_never_written (a : Access) (ha : a ∈ accesses) (ho : a.obj = objMemStore)
    (hk : a.kind ≠ .read) : a.via = viaWriteStore := by
  have h : (accesses.all fun a => !(a.obj == objMemStore) || a.kind == .read || a.via == viaWriteStore) = true := by
    decide +kernel
  rw [List.all_eq_true] at h
  have := h a ha
  simp only [ho, beq_self_eq_true, Bool.not_true, Bool.false_or, Bool.or_eq_true, beq_iff_eq] at this
  rcases this with (h1 | h1)
  · exact absurd h1 hk
  · exact h1

theorem table_ok : tableOk accesses = true := by decide +kernel

/-- RACE FREEDOM of the documented concurrent use of a SimpleDB handle, over the regenerated table: any two
accesses to the same object, not both reads (and not both atomic), from thread kinds that can run at the same
time, hold a common lock in a compatible mode, or are ordered by hand-off edge H2 (memstore ownership) or H3
(closed flag) of SST/Spec/Access.lean. -/
theorem race_free (a b : Access) (ha : a ∈ accesses) (hb : b ∈ accesses)
    (hc : conflicting a b = true) (ho : concurrent a.thread b.thread = true) :
    commonLock a b = true ∨ handoff a b = true := by
  have h := table_ok
  unfold tableOk at h
  rw [List.all_eq_true] at h
  have h1 := h a ha
  rw [List.all_eq_true] at h1
  have h2 := h1 b hb
  unfold pairOk at h2
  simp only [hc, ho, Bool.and_self, Bool.not_true, Bool.false_or, Bool.or_eq_true] at h2
  exact h2

/-- non-vacuity: the table has conflicting pairs that can overlap, and some of them rely on a hand-off edge -/
example : (contested accesses).length > 100 ∧
    ((contested accesses).filter fun p => !commonLock p.1 p.2).length > 0 := by decide +kernel

/-- the check can fail: `GetBytes` reading `DB.memStore` without the read lock would race with `swapMemstore` -/
example : pairOk ⟨"DB.GetBytes", .client, 19, 0, .read, [], "mutant"⟩
    ⟨"swapMemstore", .client, 19, 0, .write, [.dbW, .guard], "flush.go:103"⟩ = false := by decide
/-- … and so would a reflection that took only the manager lock against a reader's table lookup -/
example : pairOk ⟨"SSTableManager.reflectCompactionResult", .compactor, 18, 6, .write, [.mgrW], "mutant"⟩
    ⟨"DB.GetBytes", .client, 18, 2, .read, [.dbR, .guard], "db.go:214"⟩ = false := by decide

/-! ## (b) the documented read paths write nothing -/

/-- regenerated purity facts: on the paths of `ReadNextAt`, `SeekNext`, `(*SSTableReader).Get / Contains /
ScanStartingAt / ScanRange / getValueAtOffset`, the `(*SliceKeyIndex)` methods and `(SuperSSTableReader).Get /
Contains / ScanStartingAt / ScanRange` there is no assignment to a receiver field or a package-level variable,
and every entry point exists -/
theorem documented_reads_write_nothing :
    ∀ p ∈ documentedReads, p.found = true ∧ p.writes = [] := by decide

/-- callees on the documented read paths that are NOT followed (methods of objects held in receiver fields): each is
a read of an immutable object or an internally synchronised one — a runtime fact, modelled, not verified:
`bufferPool.Get/Put` (capnp `bufferpool.Pool`: `sync.Pool`-backed, safe for concurrent use; the readers copy out of the
pooled buffer before `Put`), `mmapReader.ReadAt` (read-only mapping), `header.Decompress*` (the compressor objects are
stateless), `bloomFilter.Contains` (reads the bit set loaded at open), `v0DataReader.ReadNextAt` (legacy v0 tables: the
proto mmap reader, same contract). -/
def allowedCallees : List String :=
  ["MMapReader.bufferPool.Get", "MMapReader.bufferPool.Put", "MMapReader.header.Decompress",
   "MMapReader.header.DecompressWithBuf", "MMapReader.mmapReader.ReadAt", "SSTableReader.bloomFilter.Contains",
   "SSTableReader.v0DataReader.ReadNextAt"]

/-- … and nothing else is called on an object reachable from the shared handle: a new stateful helper on a read
path (a cached hasher, a scratch buffer, a statistics counter behind a method) shows up here -/
theorem documented_reads_call_only_known_readers :
    ∀ p ∈ documentedReads, ∀ c ∈ p.notFollowed, c ∈ allowedCallees := by decide

/-- the extraction does see writes where there are some: `Scan` appends to `miscClosers` (it is outside the
documented set), `Close` flips the flags -/
theorem scan_is_outside_the_documented_set :
    (undocumented.map fun p => (p.root, p.writes)) =
      [("SSTableReader.Scan", ["SSTableReader.Scan: SSTableReader.miscClosers"]),
       ("SuperSSTableReader.Scan", ["SSTableReader.Scan: SSTableReader.miscClosers"]),
       ("MMapReader.Close", ["MMapReader.Close: MMapReader.closed", "MMapReader.Close: MMapReader.open"]),
       ("SSTableReader.Close", ["MMapReader.Close: MMapReader.closed", "MMapReader.Close: MMapReader.open"])] := by
  decide

/-- an operation on a shared handle: new handle state and a result -/
abbrev HOp (σ ρ : Type) := σ → σ × ρ

def runOps {σ ρ : Type} : σ → List (HOp σ ρ) → σ × List ρ
  | s, [] => (s, [])
  | s, op :: ops => let (s', r) := op s; let (s'', rs) := runOps s' ops; (s'', r :: rs)

/-- a read: leaves the handle as it is -/
def IsRead {σ ρ : Type} (op : HOp σ ρ) : Prop := ∀ s, (op s).1 = s

/-- in ANY sequence of reads on one handle (any interleaving of any number of callers at call granularity) the
handle never changes and each call returns what it returns when executed alone on the handle -/
theorem reads_alone {σ ρ : Type} (s : σ) (ops : List (HOp σ ρ)) (h : ∀ op ∈ ops, IsRead op) :
    (runOps s ops).1 = s ∧ (runOps s ops).2 = ops.map fun op => (op s).2 := by
  induction ops generalizing s with
  | nil => exact ⟨rfl, rfl⟩
  | cons op ops ih =>
    have h1 : (op s).1 = s := h op (List.mem_cons_self) s
    obtain ⟨i1, i2⟩ := ih s (fun o ho => h o (List.mem_cons_of_mem _ ho))
    simp only [runOps, List.map_cons]
    rw [h1]
    exact ⟨i1, by rw [i2]⟩

/-- the mmap reader's handle is the mapped file; `ReadNextAt` / `SeekNext` as handle operations -/
def mmapReadAt (c : Compression) (off : Nat) : HOp Bytes (Except Err GoBytes) := fun f => (f, readAt c f off)
def mmapSeekNext (c : Compression) (off : Nat) : HOp Bytes (Except Err (Nat × GoBytes)) :=
  fun f => (f, seekNext c f off)

/-- `reads_are_pure`: the documented read operations of the three handles are reads in the models —
`ReadNextAt`/`SeekNext` of the mmap reader; `Get`/`Contains`/`ScanStartingAt`/`ScanRange` of a table reader
with the DEFAULT (slice) index loader, whose model threads the index as state precisely because the disk
loader's cache is NOT a read; the database's `GetBytes` (`DBM.step` on a `get`). -/
theorem reads_are_pure :
    (∀ c off, IsRead (mmapReadAt c off)) ∧ (∀ c off, IsRead (mmapSeekNext c off)) ∧
    (∀ (r : Reader) es k, (r.get (.slice es) k).1 = .slice es) ∧
    (∀ (r : Reader) es k, (r.contains (.slice es) k).1 = .slice es) ∧
    (∀ (r : Reader) es k, (r.scanFrom (.slice es) k).1 = .slice es) ∧
    (∀ (r : Reader) es lo hi, (r.scanRange (.slice es) lo hi).1 = .slice es) ∧
    (∀ (s : DBM.State) k, (DBM.step s (.get k)).1 = s) := by
  refine ⟨fun _ _ _ => rfl, fun _ _ _ => rfl, fun _ _ _ => rfl, ?_, fun _ _ _ => rfl, fun _ _ _ _ => rfl,
    fun _ _ => rfl⟩
  intro r es k
  unfold Reader.contains
  cases r.bloom with
  | none => rfl
  | some bf => by_cases h : bf k = true <;> simp [h, Index.contains]

/-! ## (c) concurrent readers of the database get the single-threaded answer -/

open SST.Conc SST.DBM in
/-- any number of client threads issuing ONLY Get calls against a reachable database state, interleaved in any
way the locks admit with the flusher's `addReader`, compaction `select`/`reflect` and forced rotations: every
completed call returns exactly what a single `GetBytes` on the initial state returns -/
theorem concurrent_gets_return_the_sequential_answer (steps : List Step) (sched : Sched)
    (calls : List Conc.Call) (hist : List Conc.HEntry)
    (h : exec (runState {} steps) sched = some (calls, hist))
    (hg : ∀ c ∈ calls, ∃ k, c.op = Conc.Op.get k) :
    ∀ e ∈ hist, ∃ k, e.op = Conc.Op.get k ∧ e.res = DBM.get (runState {} steps) k :=
  Proofs.Conc.gets_only steps sched calls hist h hg

end SST.C18
