/-
C04, direct-I/O factory — the writer path through `DirectIOFactory` (block-aligned buffer, aligned
flushes) produces the same records, followed by zero padding that every reader treats as end of file.
Model: SST/Model/RecordIODirect.lean (the buffered writer is the `BufW` of SST/Model/Wal.lean in aligned
mode; see also `C07.bufw_aligned`).  Property theorems only; lemmas live in
SST/Proofs/RecordIODirect.lean.

Size precondition (explicit in every theorem): the buffer holds the 8-byte file header
(`fileHeaderSize ≤ n`) and every single `bufWriter.Write` of a record — its header, and its stored
payload — is at most the buffer size `n` (`RecFitsBuf c n r`).  A longer single write arriving at an
empty buffer bypasses the buffer and is handed to the file unaligned (`C07.bufw_aligned_bypass`), which
O_DIRECT rejects; such programs are outside these theorems.
-/
import SST.Proofs.RecordIODirect
namespace SST.C04.Direct
open SST Generated Proofs.Direct

/-- Writer, no seeks: the closed direct-I/O file is the file header and the records followed by zeros up
to the next multiple of the buffer size — and NO padding block when the logical length already is a
multiple (the full buffer is flushed as it is).  `Size()` is the logical length, every `Write` returned
the offset of its record, and every write system call was one whole block at a block-aligned offset. -/
theorem direct_close_exact (c : Compression) (ct n : Nat) (rs : List GoBytes)
    (hn : fileHeaderSize ≤ n) (hfit : ∀ r ∈ rs, RecFitsBuf c n r) :
    let run := runDirect c (DWState.open n ct) (rs.map WOp.write)
    let len := fileHeaderSize + (encAll c rs).length
    run.1.close = fileHeader currentVersion ct ++ encAll c rs ++ List.replicate ((n - len % n) % n) 0 ∧
    run.1.cur = len ∧
    run.2 = (List.range rs.length).map (offsetOf c rs) ∧
    EventsAligned n run.1.closeEvents :=
  Proofs.Direct.direct_close_exact c ct n rs hn hfit

/-- Sequential reader on the closed direct-I/O file: exactly the records, then end-of-file (the zero
padding reads as EOF, `C04.zero_tail_is_eof`). -/
theorem direct_seq_roundtrip (c : Compression) (ct n : Nat) (rs : List GoBytes)
    (hn : fileHeaderSize ≤ n) (hfit : ∀ r ∈ rs, RecFitsBuf c n r)
    (hl : LawfulC c) (hf : ∀ r ∈ rs, FitsRec c r) :
    readAll c (runDirect c (DWState.open n ct) (rs.map WOp.write)).1.close = (rs, .eof) := by
  rw [(Proofs.Direct.direct_close_exact c ct n rs hn hfit).1]
  exact readAll_zero_tail c ct rs _ hl hf

/-- Random access on the closed direct-I/O file: record `k` is returned at the offset `Write` returned
for it. -/
theorem direct_readAt_offset (c : Compression) (ct n : Nat) (rs : List GoBytes)
    (hn : fileHeaderSize ≤ n) (hfit : ∀ r ∈ rs, RecFitsBuf c n r)
    (hl : LawfulC c) (hf : ∀ r ∈ rs, FitsRec c r) (k : Nat) (hk : k < rs.length) :
    readAt c (runDirect c (DWState.open n ct) (rs.map WOp.write)).1.close (offsetOf c rs k) = .ok rs[k] := by
  rw [(Proofs.Direct.direct_close_exact c ct n rs hn hfit).1]
  exact readAt_zero_tail c ct rs _ k hk hl hf

/-- `WriteSync` on a direct-I/O writer fails (`DirectIOSyncWriteErr`) before anything is written. -/
theorem direct_writesync_rejected (c : Compression) (d : DWState) (r : GoBytes) :
    d.writeSync c r = .error .rejected := rfl

/-- Seeks in aligned mode, bytes: `Seek` flushes a zero-padded block and then positions the file at the
LOGICAL offset, so the padding lies behind everything that is kept and is overwritten by what follows.
After any program of writes and cuts back to record boundaries the closed file is still the header and
the surviving records followed by zeros only (none if `Close` truncated), `Size()` is the logical
length, and both readers return exactly the survivors. -/
theorem direct_close_exact_seeks (c : Compression) (ct n : Nat) (ops : List AOp)
    (hn : fileHeaderSize ≤ n) (hc : CutsOk [] ops) (hfit : ∀ op ∈ ops, AOpFitsBuf c n op) :
    let d := (runDirect c (DWState.open n ct) (concretize c [] ops)).1
    (∃ k, d.close = fileHeader currentVersion ct ++ encAll c (survivors [] ops) ++ List.replicate k 0) ∧
    d.cur = fileHeaderSize + (encAll c (survivors [] ops)).length :=
  Proofs.Direct.direct_close_exact_seeks c ct n ops hn hc hfit

theorem direct_seq_roundtrip_seeks (c : Compression) (ct n : Nat) (ops : List AOp)
    (hn : fileHeaderSize ≤ n) (hc : CutsOk [] ops) (hfit : ∀ op ∈ ops, AOpFitsBuf c n op)
    (hl : LawfulC c) (hf : ∀ r ∈ survivors [] ops, FitsRec c r) :
    readAll c (runDirect c (DWState.open n ct) (concretize c [] ops)).1.close = (survivors [] ops, .eof) := by
  obtain ⟨⟨k, hk⟩, _⟩ := Proofs.Direct.direct_close_exact_seeks c ct n ops hn hc hfit
  rw [hk]
  exact readAll_zero_tail c ct _ k hl hf

/-- FINDING (experimental DirectIO option; recorded, not fixed): the offsets do NOT break — but after a
`Seek` to a record boundary that is not a multiple of the block size, every later write system call is
issued at an UNALIGNED file offset (here 21, with 16-byte blocks), which O_DIRECT file systems reject
with EINVAL; and the closed file is no longer a whole number of blocks.  Seek and direct I/O only work
together when the record boundary happens to be block aligned. -/
theorem direct_seek_breaks_alignment :
    let d := (runDirect none (DWState.open 16 0)
      [.write (some [1, 2, 3]), .seek 21, .write (some [4, 5])]).1
    d.closeEvents = [(0, 16), (16, 16), (21, 16)] ∧ ¬ EventsAligned 16 d.closeEvents ∧
    d.close.length = 37 := by
  refine ⟨by decide +kernel, ?_, by decide +kernel⟩
  intro h
  have := (h (21, 16) (by decide +kernel)).1
  exact absurd this (by decide)

/-- the same program at the byte level: nothing is lost, the offsets returned stay valid -/
example :
    let run := runDirect none (DWState.open 16 0) [.write (some [1, 2, 3]), .seek 21, .write (some [4, 5])]
    run.2 = [8, 0, 21] ∧
    run.1.close = fileHeader currentVersion 0 ++ encAll none [some [1, 2, 3], some [4, 5]] ++
      List.replicate 3 0 := by
  decide +kernel

/-- The size precondition follows from a bound on the stored payloads alone once the buffer holds a
whole record header (36 bytes): e.g. every real configuration (the default buffer is 4 MiB) with payloads
up to the buffer size. -/
theorem size_precondition_of_payloads (c : Compression) (n : Nat) (rs : List GoBytes)
    (hn : recordHeaderMax ≤ n) (hf : ∀ r ∈ rs, FitsRec c r)
    (hp : ∀ p, some p ∈ rs → (stored c p).length ≤ n) :
    fileHeaderSize ≤ n ∧ ∀ r ∈ rs, RecFitsBuf c n r :=
  ⟨Nat.le_trans (by decide) hn,
   fun r hr => recFitsBuf_of_fits c n r (hf r hr) hn (fun p hp' => hp p (hp' ▸ hr))⟩

/-- non-vacuity of the size precondition -/
example : fileHeaderSize ≤ 64 ∧ ∀ r ∈ [some [1, 2, 3], none, some []], RecFitsBuf none 64 r := by
  apply size_precondition_of_payloads none 64 _ (by decide)
  · intro r hr
    simp only [List.mem_cons, List.not_mem_nil, or_false] at hr
    rcases hr with rfl | rfl | rfl <;> simp [FitsRec, clenOf]
  · intro p hp
    simp only [List.mem_cons, List.not_mem_nil, or_false, Option.some.injEq] at hp
    rcases hp with rfl | h | rfl
    · simp [stored]
    · cases h
    · simp [stored]

/-- the padding rule at work: 8 + 13 + 11 = 32 bytes are two whole 16-byte blocks, no padding block -/
example :
    (runDirect none (DWState.open 16 0) [.write (some [1, 2, 3]), .write none]).1.close =
      fileHeader currentVersion 0 ++ encAll none [some [1, 2, 3], none] := by
  decide +kernel

end SST.C04.Direct
