/-
C13, interleaved — asynchronous WAL with the client thread, the flusher and the compactor running concurrently.
Same transition system as C02_Interleave (SST/Model/FSInterleave.lean) with `async = true`: an append returns as
soon as the record is in the appender's buffer (`Mv.done` is enabled with a non-empty `queue`); buffer flushes
(`Mv.torn` / `Mv.append`) happen inside later appends and when a rotation closes the file.
-/
import SST.Proofs.FSInterleaveTies
namespace SST.C13.Interleave
open SST SST.FS SST.DBM SST.FSI SST.Proofs.FS SST.Proofs.FSI

/-- MAIN THEOREM — for every well-formed disk `d0`, after `Open`, EVERY client program, EVERY schedule of the three
threads (any admissible interleaving, any buffer-flush points, cut anywhere): the disk is well-formed, `Open`
succeeds, and the opened database is the reference after a PREFIX `hist.take p` of the mutations of the calls begun
so far (all acknowledged except possibly the last) — no holes, no reordering —, and the prefix contains every
mutation issued up to the last completed rotation (`mark`). -/
theorem async_crash_prefix_interleaved (d0 : Disk) (h0 : DiskOk d0) (o0 : Opts) (d1 : Disk) (s1 : State)
    (hr0 : recover d0 o0 = .ok (d1, s1)) (prog : List Op) (sched : List Mv) (o : Opts) :
    let c := FSI.run true (start d1 (openedVol s1) prog) sched
    DiskOk c.d ∧ c.acked ≤ c.hist.length ∧ c.hist.length ≤ c.acked + 1 ∧
      (∃ pre, prog = pre ++ c.prog ∧ c.hist = pre.filterMap Op.accepted) ∧
      ∃ d' s p, recover c.d o = .ok (d', s) ∧ c.mark ≤ p ∧ p ≤ c.hist.length ∧
        abs s = applySpec (logical d0) (c.hist.take p) := by
  intro c
  obtain ⟨h1, h2, h3, d', s, p, hr, hp1, hp2, _, hp4⟩ := interleaved_good d0 h0 o0 d1 s1 hr0 prog true sched o
  exact ⟨h1, h2, h3, hist_is_program true sched (start d1 (openedVol s1) prog) prog [] rfl rfl, d', s, p, hr, hp1, hp2, hp4⟩

/-! ### non-vacuity -/

def d1 : Disk := { walDir := true, wal := [{ num := 0 }] }
def c0 (prog : List Op) : Cfg := start d1 { s := { isOpen := true } } prog

/-- three acknowledged writes of which one has reached the file and the next is cut; then a rotation starts
writing out the buffer while nothing else is durable yet -/
def prog1 : List Op := [.put [1] [1] false, .put [2] [2] false, .put [1] [3] false, .rotate]
def sched1 : List Mv := [.begin, .done, .begin, .done, .begin, .append, .torn, .done, .begin, .append]

example :
    let c := FSI.run true (c0 prog1) sched1
    c.acked = 3 ∧ c.hist.length = 3 ∧ c.queue.length = 1 ∧ c.mark = 0 ∧ DiskOk c.d ∧
      [[1], [2]].map (logical c.d) = [some [1], some [2]] := by
  decide

end SST.C13.Interleave
