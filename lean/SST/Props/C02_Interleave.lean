/-
C02, interleaved — acknowledged writes survive a process kill at any instant while the client thread, the flusher
and the compactor run CONCURRENTLY (synchronous WAL).  Removes the restriction "background steps only at
operation boundaries" of `C02.crash_safe_sync`.

Model: SST/Model/FSInterleave.lean — one transition system whose moves (`Mv`) are single steps of the three threads
(at most one file-system call each); a schedule is ANY list of moves, moves that are not enabled are skipped, so the
configurations `run … sched` are exactly the prefixes of all admissible interleavings.  Admissibility = per-thread
program order + db write lock (a whole Put/Delete/rotation vs. the whole of reflectCompactionResult) + hand-off
channel (a rotation completes only when the flusher is idle) + manager lock (addReader not during reflect; the
flusher's FILE calls are free) + a compaction works on the table list it selected from.  The per-thread call
sequences are those of `flushEvs` / `rotateEvs` / `logEvs` / `compactEvs` (`flushCalls_eq`, `rotateCalls_eq`,
`logCalls_eq`, `compactCalls_eq`), the selected run is `compactStep`'s (`kstart_run`).
-/
import SST.Proofs.FSInterleaveTies
namespace SST.C02.Interleave
open SST SST.FS SST.DBM SST.FSI SST.Proofs.FS SST.Proofs.FSI

/-- MAIN THEOREM — for EVERY well-formed disk `d0` (the empty directory, any crash image, …), after `Open`, EVERY
client program, EVERY schedule of the three threads (any admissible interleaving, cut anywhere) and every choice of
compaction parameters / unlink orders: the disk is well-formed, `Open` succeeds on it, at most one client call is in
flight, and the opened database is the reference after the mutations of all ACKNOWLEDGED calls, or after those plus
the one in flight.  `hist` = the mutations of the calls begun so far = those of a prefix `pre` of the program;
`acked` = how many of them belong to calls that have returned. -/
theorem crash_safe_sync_interleaved (d0 : Disk) (h0 : DiskOk d0) (o0 : Opts) (d1 : Disk) (s1 : State)
    (hr0 : recover d0 o0 = .ok (d1, s1)) (prog : List Op) (sched : List Mv) (o : Opts) :
    let c := FSI.run false (start d1 (openedVol s1) prog) sched
    DiskOk c.d ∧ c.acked ≤ c.hist.length ∧ c.hist.length ≤ c.acked + 1 ∧
      (∃ pre, prog = pre ++ c.prog ∧ c.hist = pre.filterMap Op.accepted) ∧
      ∃ d' s, recover c.d o = .ok (d', s) ∧
        (abs s = applySpec (logical d0) (c.hist.take c.acked) ∨ abs s = applySpec (logical d0) c.hist) := by
  intro c
  obtain ⟨h1, h2, h3, d', s, p, hr, _, hp2, hp3, hp4⟩ := interleaved_good d0 h0 o0 d1 s1 hr0 prog false sched o
  refine ⟨h1, h2, h3, ?_, d', s, hr, ?_⟩
  · exact hist_is_program false sched (start d1 (openedVol s1) prog) prog [] rfl rfl
  · have ha := hp3 rfl
    by_cases hpa : p = c.acked
    · left; rw [hp4, hpa]
    · right
      have : p = c.hist.length := by
        have : c.acked ≤ p := ha
        have : p ≤ c.hist.length := hp2
        have : c.hist.length ≤ c.acked + 1 := h3
        omega
      rw [hp4, this, List.take_length]

/-- the same from the empty directory: the reference starts from the empty map -/
theorem crash_safe_sync_interleaved_fresh (o0 : Opts) (prog : List Op) (sched : List Mv) (o : Opts) :
    ∃ d1 s1, recover {} o0 = .ok (d1, s1) ∧
      let c := FSI.run false (start d1 (openedVol s1) prog) sched
      DiskOk c.d ∧ ∃ d' s, recover c.d o = .ok (d', s) ∧
        (abs s = applySpec (fun _ => none) (c.hist.take c.acked) ∨ abs s = applySpec (fun _ => none) c.hist) := by
  have h0 : DiskOk ({} : Disk) := by decide
  obtain ⟨d1, s1, hr0⟩ := recover_ok {} h0 o0
  refine ⟨d1, s1, hr0, ?_⟩
  obtain ⟨g1, _, _, _, d', s, hr, hor⟩ := crash_safe_sync_interleaved {} h0 o0 d1 s1 hr0 prog sched o
  exact ⟨g1, d', s, hr, hor⟩

/-- what ties the moves to the sequential model's call lists -/
theorem flusher_calls (v : Vol) (on : Nat) (ro : List Mutation) (hp : v.s.flushPending = true) (hr : v.s.r ≠ [])
    (ho : v.walOld = some on) :
    (flushEvs v).1 = flushCalls { r := v.s.r, ro := ro, on := on, g := v.s.gen + 1, stage := 0 } :=
  flushCalls_eq v on ro hp hr ho

/-! ### non-vacuity -/

def d1 : Disk := { walDir := true, wal := [{ num := 0 }] }
def c0 (prog : List Op) : Cfg := start d1 { s := { isOpen := true } } prog
def put1 : List Mv := [.begin, .torn, .append, .done, .close, .create, .header, .handoff]
def fl7 : List Mv := [.fstep, .fstep, .fstep, .fstep, .fstep, .fstep, .fadd]

/-- a flush whose table files are written BETWEEN (and inside) two client puts, the crash in the middle: table 1 is
unfinished, its WAL file is still there, Put 2 is acknowledged, Put 3 is in flight (a piece of its record written) -/
def prog1 : List Op := [.put [1] [1] true, .put [2] [2] false, .put [3] [3] false]
def sched1 : List Mv := put1 ++ [.begin, .fstep, .torn, .fstep, .append, .fstep, .done, .begin, .fstep, .torn]

example : trace false (c0 prog1) sched1 =
    [.walTorn 0, .walAppend 0 (.put [1] [1]), .walClose 0, .walCreate 1, .walHeader 1, .tblMkdir 1, .walTorn 1,
     .tblLoadable 1 [], .walAppend 1 (.put [2] [2]), .tblMetaCreate 1, .tblProgress 1, .walTorn 1] := by decide

example :
    let c := FSI.run false (c0 prog1) sched1
    c.d.tables = [(1, .part false)] ∧ c.d.wal.map (fun f => (f.num, f.recs.length, f.torn)) = [(0, 1, false), (1, 1, true)] ∧
      c.hist.length = 3 ∧ c.acked = 2 ∧ DiskOk c.d ∧ [[1], [2], [3]].map (logical c.d) = [some [1], some [2], none] := by
  decide

/-- reflect's deletions interleaved with a flush: tables 1 and 2 are being replaced by their merge (table 1 gone,
table 2 half deleted after having been seen as a legacy table) while the flusher writes table 3 -/
def prog2 : List Op := [.put [1] [1] true, .put [2] [2] true, .del [1], .put [3] [3] true]
def sched2 : List Mv := put1 ++ fl7 ++ put1 ++ fl7 ++ [.begin, .torn, .append, .done] ++ put1 ++
  [.kstart [1, 1] 0 { maxSize := 100 }, .kstep none, .kstep none, .kstep none, .kstep none, .kstep none, .kreflect,
   .kstep none, .fstep, .kstep none, .fstep, .kstep none, .fstep, .kstep (some [([2], some [9])]), .fstep, .kstep none]

example : (trace false (c0 prog2) sched2).drop 33 =
    [.compFlag 1 { inputs := [1, 2], replacement := 1 }, .tblUnlinkPart 1 true, .tblMkdir 3, .tblUnlinkPart 1 false,
     .tblLoadable 3 [], .tblRmdir 1, .tblMetaCreate 3, .tblLoadable 2 [([2], some [9])], .tblProgress 3,
     .tblUnlinkPart 2 true] := by decide

example :
    let c := FSI.run false (c0 prog2) sched2
    c.d.tables = [(2, .part true), (3, .part false)] ∧ c.d.comps.length = 1 ∧ c.acked = 4 ∧ DiskOk c.d ∧
      [[1], [2], [3]].map (logical c.d) = [none, some [2], some [3]] := by
  decide

end SST.C02.Interleave
