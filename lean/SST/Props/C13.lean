/-
C13 — Asynchronous WAL: a kill loses only a suffix of recent writes, not the database.
Abstract-disk model L6-fs.  With the asynchronous WAL a Put/Delete is acknowledged when its record sits in the
appender's write buffer (volatile queue `Vol.queue`); a buffer flush writes a prefix of the queue record by
record — possibly cutting one (`walTorn`) —, and closing the file at a rotation writes the whole queue before the
next file is created.  The per-step scheduling parameters `drain` / `torn` of `AStep` say how many buffered
records leave the buffer during the step: the theorem quantifies over all of them.
-/
import SST.Proofs.FSAsync
namespace SST.C13
open SST SST.FS SST.DBM SST.Proofs.FS

/-- MAIN THEOREM — crash points × programs × buffer-flush schedules × configurations: for EVERY list of steps with
EVERY buffer-flush schedule and EVERY number `n` of completed file-system calls, the directory image after `n` calls
is a well-formed disk, `Open` succeeds on it, and the opened database equals the reference map after a PREFIX
(`issued.take p`) of the mutations issued so far — the accepted Put/Delete calls in program order, all of them
acknowledged except possibly the last one, which is in flight —; no holes, no reordering; and the prefix contains at
least every mutation issued up to the last completed rotating step (`mark`: forced rotation, size-triggered
rotation inside a Put, Close). -/
theorem async_crash_prefix (asteps : List AStep) (n : Nat) (o : Opts) :
    let evs := sessionFrom true {} {} asteps
    let d := applyEvs {} (evs.flatten.take n)
    let a := ackedCount evs n
    let info := sessionInfo true {} {} asteps
    let issued := (info.take (a + 1)).filterMap (·.1)
    let mark := rotMark (info.take a)
    DiskOk d ∧ ∃ d' s p, recover d o = .ok (d', s) ∧ mark ≤ p ∧ p ≤ issued.length ∧
      abs s = applySpec (fun _ => none) (issued.take p) := by
  intro evs d a info issued mark
  obtain ⟨h1, p, hp1, hp2, hp3⟩ := async_run asteps (fun _ => none) [] {} {} 0 QA_init (Nat.le_refl _) n
  obtain ⟨d', s, hr⟩ := recover_ok d h1 o
  refine ⟨h1, d', s, p, hr, ?_, ?_, ?_⟩
  · exact hp1
  · exact hp2
  · rw [recover_abs d o d' s hr, hp3]
    rfl

/-- the issued mutations are the reference's: applying the mutations of the first `j` steps to the empty map gives
the reference map (`DBM.Spec`, the one of C01) after those `j` steps — accepted and rejected calls, rotations,
flushes, compactions, close and re-open included -/
theorem issued_is_reference (asteps : List AStep) (j : Nat) :
    applySpec (fun _ => none) (((sessionInfo true {} {} asteps).take j).filterMap (·.1)) =
      (specFold {} ((asteps.take j).map (·.st))).m := by
  rw [sessionInfo_take]
  obtain ⟨h, _⟩ := QS_init
  exact (Proofs.FS.issued_is_reference (asteps.take j) {} {} {} h Proofs.DB.rel_init).symm

/-- … and the same from ANY well-formed disk (e.g. a crash image): `Open`, then any asynchronous session, killed
anywhere.  `E` = the content the first `Open` recovered. -/
theorem async_crash_prefix_after_recovery (d0 : Disk) (h0 : DiskOk d0) (o0 : Opts) (d1 : Disk) (s1 : State)
    (hr0 : recover d0 o0 = .ok (d1, s1)) (asteps : List AStep) (n : Nat) (o : Opts) :
    let evs := sessionFrom true d1 (openedVol s1) asteps
    let d := applyEvs d1 (evs.flatten.take n)
    let a := ackedCount evs n
    let info := sessionInfo true d1 (openedVol s1) asteps
    let issued := (info.take (a + 1)).filterMap (·.1)
    let mark := rotMark (info.take a)
    DiskOk d ∧ ∃ d' s p, recover d o = .ok (d', s) ∧ mark ≤ p ∧ p ≤ issued.length ∧
      abs s = applySpec (logical d0) (issued.take p) := by
  intro evs d a info issued mark
  have hq := recover_QW d0 h0 o0 d1 s1 hr0
  have hqa : QA (logical d0) [] d1 (openedVol s1) :=
    ⟨⟨[], [], [], false, hq⟩, (recover_diskOk d0 h0 o0 d1 s1 hr0).2⟩
  obtain ⟨h1, p, hp1, hp2, hp3⟩ := async_run asteps (logical d0) [] d1 (openedVol s1) 0 hqa (Nat.le_refl _) n
  obtain ⟨d', s, hr⟩ := recover_ok d h1 o
  refine ⟨h1, d', s, p, hr, ?_, ?_, ?_⟩
  · exact hp1
  · exact hp2
  · rw [recover_abs d o d' s hr, hp3]
    rfl

/-! ### non-vacuity and sanity -/

/-- three buffered writes of which one is written and the next cut, a rotation, one more write: the crash images
after 3 calls (one record plus a cut piece in the file) and after 11 calls (inside the rotation) -/
def prog : List AStep :=
  [{ st := .reopen {} }, { st := .putS [1] [1] false }, { st := .putS [2] [2] false },
   { st := .putS [1] [3] false, drain := 1, torn := true }, { st := .rotate }, { st := .delS [2] }]

example : (sessionFrom true {} {} prog).map (·.length) = [5, 0, 0, 3, 7, 0] := by decide

example :
    let d := applyEvs {} ((sessionFrom true {} {} prog).flatten.take 8)
    (d.wal.map (fun f => (f.num, f.recs.length, f.torn)), logical d [1], logical d [2]) =
      ([(0, 1, true)], some [1], none) := by decide

example : rotMark ((sessionInfo true {} {} prog).take 5) = 3 := by decide

/-- pre-fix D13: a cut final record is tolerated in the LAST file only; were it not the last, `Open` would fail -/
theorem torn_nonlast_wal_fails :
    errOf (recover { walDir := true, wal := [{ num := 0, recs := [.put [1] [1]], torn := true }, { num := 1 }] }) =
      some .walReplay := by decide

end SST.C13
