/-
L0: the protobuf wire encoding of the two messages the sstable files contain
(`sstables/proto/sstable.proto`), exactly as google.golang.org/protobuf (v1.36) marshals and
unmarshals them:

  IndexEntry { bytes key = 1; uint64 valueOffset = 2; uint64 checksum = 3; }
  MetaData   { uint64 numRecords = 1; bytes minKey = 2; bytes maxKey = 3; uint64 dataBytes = 4;
               uint64 indexBytes = 5; uint64 totalBytes = 6; uint32 version = 7;
               uint64 skippedRecords = 8; uint64 nullValues = 9; }

Marshal (proto3, implicit presence): fields in field-number order, a zero / empty field is omitted,
`bytes` = tag, uvarint length, bytes; `uint64`/`uint32` = tag, uvarint.
Unmarshal (`impl.unmarshalPointerEager`): loop over tags; a known field with the matching wire type is
stored (last occurrence wins), everything else is skipped by `protowire.ConsumeFieldValue` (groups
included); an absent or empty `bytes` field is `nil` (`append([]byte(nil), v...)`); on a malformed
input the message keeps the fields decoded so far and an error is returned.
Core Lean only (linked into the driver executable).
-/
import SST.Model.Bytes
namespace SST

/-! ## encoder -/

/-- tag of field `num` with wire type `wt` (`protowire.EncodeTag`), as a varint -/
def pbTag (num wt : Nat) : Bytes := uvarintEnc (num * 8 + wt)

/-- `appendBytesNoZero`: omitted when empty (nil and empty are the same on the wire) -/
def pbBytesField (num : Nat) (b : Bytes) : Bytes :=
  if b.length = 0 then [] else pbTag num 2 ++ uvarintEnc b.length ++ b

/-- `appendUint64NoZero` / `appendUint32NoZero`: omitted when zero -/
def pbVarintField (num : Nat) (v : Nat) : Bytes :=
  if v = 0 then [] else pbTag num 0 ++ uvarintEnc v

/-! ## decoder -/

/-- `protowire.ConsumeVarint`: accepts exactly what `binary.ReadUvarint` accepts (up to ten bytes, the
tenth below 2, non-minimal encodings included); every failure is "cannot parse invalid wire-format data" -/
def pbVarint (b : Bytes) : Except Err (Nat × Nat) :=
  match uvarintDec b with
  | .ok r => .ok r
  | .error _ => .error .other

/-- `protowire.DefaultRecursionLimit`: a group may be nested this deep inside an unknown group -/
def pbRecursionLimit : Nat := 10000

mutual
/-- `protowire.consumeFieldValueD`: length of the value of a field that is skipped.
`depth` = Go's `depth + 1` (so `0` means Go's `depth < 0`). -/
def pbSkipValue : (fuel depth num wt : Nat) → Bytes → Except Err Nat
  | 0, _, _, _, _ => .error .other
  | fuel + 1, depth, num, wt, b =>
    if wt = 0 then (pbVarint b).map (·.2)
    else if wt = 5 then (if b.length < 4 then .error .other else .ok 4)
    else if wt = 1 then (if b.length < 8 then .error .other else .ok 8)
    else if wt = 2 then
      match pbVarint b with
      | .error e => .error e
      | .ok (m, n) => if m > b.length - n then .error .other else .ok (n + m)
    else if wt = 3 then
      match depth with
      | 0 => .error .other
      | d + 1 => pbSkipGroup fuel d num b 0
    else .error .other          -- 4: end group without a start; 6, 7: reserved
/-- the loop of the `StartGroupType` case: `acc` = bytes of the group consumed so far -/
def pbSkipGroup : (fuel depth num : Nat) → Bytes → Nat → Except Err Nat
  | 0, _, _, _, _ => .error .other
  | fuel + 1, depth, num, b, acc =>
    match pbVarint b with
    | .error e => .error e
    | .ok (tag, n) =>
      -- `DecodeTag` / `ConsumeTag`: numbers above MaxInt32 and number 0 are invalid
      if tag / 8 > 2147483647 ∨ tag / 8 < 1 then .error .other
      else if tag % 8 = 4 then (if num ≠ tag / 8 then .error .other else .ok (acc + n))
      else
        match pbSkipValue fuel depth (tag / 8) (tag % 8) (b.drop n) with
        | .error e => .error e
        | .ok m => pbSkipGroup fuel depth num (b.drop (n + m)) (acc + n + m)
end

/-- kinds of the known fields of the two messages -/
inductive PbKind where
  | u64 | u32 | bytes
  deriving DecidableEq, Repr

inductive PbVal where
  | varint (v : Nat)
  | bytes (b : Bytes)
  deriving DecidableEq, Repr

/-- decoded known fields in wire order (a later occurrence overrides an earlier one) -/
abbrev PbFields := List (Nat × PbVal)

/-- `unmarshalPointerEager` for a message without sub-messages.  Returns the fields stored so far and
whether the input was well formed. -/
def pbDecodeAux (schema : Nat → Option PbKind) : Nat → Bytes → PbFields → PbFields × Option Err
  | 0, _, acc => (acc, some .other)
  | fuel + 1, b, acc =>
    if b.length = 0 then (acc, none) else
    match pbVarint b with
    | .error e => (acc, some e)
    | .ok (tag, n) =>
      let num := tag / 8
      let wt := tag % 8
      if num < 1 ∨ num > 536870911 then (acc, some .other)      -- Min/MaxValidNumber
      else if wt = 4 then (acc, some .other)                      -- end group at top level
      else
        let b' := b.drop n
        match schema num, wt with
        | some .u64, 0 =>
          match pbVarint b' with
          | .error e => (acc, some e)
          | .ok (v, m) => pbDecodeAux schema fuel (b'.drop m) (acc ++ [(num, .varint v)])
        | some .u32, 0 =>
          match pbVarint b' with
          | .error e => (acc, some e)
          | .ok (v, m) => pbDecodeAux schema fuel (b'.drop m) (acc ++ [(num, .varint (v % 4294967296))])
        | some .bytes, 2 =>
          match pbVarint b' with
          | .error e => (acc, some e)
          | .ok (len, m) =>
            if len > b'.length - m then (acc, some .other)
            else pbDecodeAux schema fuel (b'.drop (m + len)) (acc ++ [(num, .bytes ((b'.drop m).take len))])
        | _, _ =>
          match pbSkipValue (b'.length + 1) (pbRecursionLimit + 1) num wt b' with
          | .error e => (acc, some e)
          | .ok m => pbDecodeAux schema fuel (b'.drop m) acc

def pbDecode (schema : Nat → Option PbKind) (b : Bytes) : PbFields × Option Err :=
  pbDecodeAux schema (b.length + 1) b []

/-- value of a varint field (0 when absent) -/
def pbGetVarint (fs : PbFields) (num : Nat) : Nat :=
  match fs.reverse.find? (·.1 == num) with
  | some (_, .varint v) => v
  | _ => 0

/-- value of a bytes field: `nil` when absent or empty -/
def pbGetBytes (fs : PbFields) (num : Nat) : GoBytes :=
  match fs.reverse.find? (·.1 == num) with
  | some (_, .bytes b) => if b.length = 0 then none else some b
  | _ => none

/-! ## IndexEntry -/

structure IndexEntry where
  key : GoBytes
  valueOffset : Nat
  checksum : Nat
  deriving DecidableEq, Repr, Inhabited

def indexEntrySchema : Nat → Option PbKind
  | 1 => some .bytes
  | 2 => some .u64
  | 3 => some .u64
  | _ => none

/-- `proto.Marshal(&IndexEntry{Key: key, ValueOffset: off, Checksum: sum})` -/
def encIndexEntry (key : Bytes) (off sum : Nat) : Bytes :=
  pbBytesField 1 key ++ pbVarintField 2 off ++ pbVarintField 3 sum

def indexEntryOf (fs : PbFields) : IndexEntry :=
  { key := pbGetBytes fs 1, valueOffset := pbGetVarint fs 2, checksum := pbGetVarint fs 3 }

/-- `proto.Unmarshal(b, &IndexEntry{})`: the message as left behind, and the error if any -/
def decIndexEntry (b : Bytes) : IndexEntry × Option Err :=
  let (fs, e) := pbDecode indexEntrySchema b
  (indexEntryOf fs, e)

/-! ## MetaData -/

structure Meta where
  numRecords : Nat := 0
  minKey : GoBytes := none
  maxKey : GoBytes := none
  dataBytes : Nat := 0
  indexBytes : Nat := 0
  totalBytes : Nat := 0
  version : Nat := 0
  skippedRecords : Nat := 0
  nullValues : Nat := 0
  deriving DecidableEq, Repr, Inhabited

def metaSchema : Nat → Option PbKind
  | 1 => some .u64
  | 2 => some .bytes
  | 3 => some .bytes
  | 4 => some .u64
  | 5 => some .u64
  | 6 => some .u64
  | 7 => some .u32
  | 8 => some .u64
  | 9 => some .u64
  | _ => none

/-- `proto.Marshal(metaData)` -/
def encMeta (m : Meta) : Bytes :=
  pbVarintField 1 m.numRecords ++ pbBytesField 2 (m.minKey.getD []) ++ pbBytesField 3 (m.maxKey.getD []) ++
  pbVarintField 4 m.dataBytes ++ pbVarintField 5 m.indexBytes ++ pbVarintField 6 m.totalBytes ++
  pbVarintField 7 m.version ++ pbVarintField 8 m.skippedRecords ++ pbVarintField 9 m.nullValues

def metaOfFields (fs : PbFields) : Meta :=
  { numRecords := pbGetVarint fs 1, minKey := pbGetBytes fs 2, maxKey := pbGetBytes fs 3,
    dataBytes := pbGetVarint fs 4, indexBytes := pbGetVarint fs 5, totalBytes := pbGetVarint fs 6,
    version := pbGetVarint fs 7, skippedRecords := pbGetVarint fs 8, nullValues := pbGetVarint fs 9 }

/-- `proto.Unmarshal(content, &MetaData{})` -/
def decMeta (b : Bytes) : Except Err Meta :=
  match pbDecode metaSchema b with
  | (fs, none) => .ok (metaOfFields fs)
  | (_, some e) => .error e

/-- what a key looks like after a trip through a `bytes` field: empty becomes nil -/
def normKey (k : Bytes) : GoBytes := if k.length = 0 then none else some k

def normGo (k : GoBytes) : GoBytes := normKey (k.getD [])

/-- the metadata as a reader sees it -/
def Meta.norm (m : Meta) : Meta := { m with minKey := normGo m.minKey, maxKey := normGo m.maxKey }

end SST
