/-
L2/L6 bridge: the BYTES of one table directory (`sstable_%015d/{index.rio, data.rio, bloom.bf.gz, meta.pb.bin}`) under
the file-system calls of the table writer and of recovery's clean-up, and how `reconstructSSTables` classifies every
directory image — the refinement step between the byte-level table model (SST/Model/SSTable.lean) and the abstract
disk of L6-fs (SST/Model/FS.lean: `TableDir = part hasMeta | complete cells`).

Code modelled as it is now:
* sstables/sstable_writer.go
  - `Open`: `rProto.NewWriter(index.rio)` (= `recordio.NewFileWriter`: `open(O_WRONLY|O_CREATE)`), `indexWriter.Open`
    (the 8 header bytes go into the buffered writer and are FLUSHED at once: one `write` of 8 bytes, whatever the
    buffer size — recordio/file_writer.go `Open`), the same for data.rio, then `open(O_WRONLY|O_CREATE)` of
    meta.pb.bin, which stays EMPTY until `Close`;
  - `WriteNext`: `dataWriter.Write(value)` (record header, then payload, into the buffered writer), then
    `indexWriter.Write(IndexEntry)`.  recordio/bufio_vendor.go `Writer.Write`: a call reaches the file only when
    the buffer is full (fill-and-flush, or the direct write of a large slice into an empty buffer), i.e. during
    `dataWriter.Write` some bytes of the data stream up to the END OF THIS RECORD may be written, during
    `indexWriter.Write` some bytes of the index stream up to the end of this index record — nothing else;
  - `Close`: `indexWriter.Close` (flush = one `write` of everything still buffered, `close`), `dataWriter.Close`
    (the same), `bloomFilter.WriteFile` (`os.Create`, the gzip writer's `write`s, `close`), then ONE `write` of the
    marshalled metadata into meta.pb.bin, `close`.
* simpledb/flush.go `executeFlush`: `MkdirAll` of the directory, then that writer.
* simpledb/recovery.go `reconstructSSTables`: `hasEmptyMetadata` ⇒ discard; else `NewSSTableReader`; if that fails:
  `isUnfinishedTable` ⇒ discard, otherwise `Open` fails.  `removeUnfinishedTable`: index.rio first, then `RemoveAll`.
* sstables/sstable_reader.go `NewSSTableReader` with SimpleDB's options (default slice index loader, hash check on
  load, none on read): `readMetaDataIfExists` (a missing file is the default message: version 0), index load,
  `readFilterIfExists`, version 0 ⇒ `MMapProtoReader` on data.rio and NO validation (legacy tables hold
  `DataEntry` protobufs), otherwise `openTable` of SST/Model/SSTable.lean.

The flush points of the buffered writers are a PARAMETER (`Chunking`): per `WriteNext` the sizes of the `write`
calls on data.rio and on index.rio; a size is clipped to what the code has handed to the buffered writer so far
(`FileWriter.Size()`), so every value of the parameter is admissible and every buffer size is covered.
Kill-9 model: each call is atomic, a completed call is retained.  External code = parameters: the compressors and
`bloomfilter.ReadFile` (`Params`), the bytes the gzip writer emits for bloom.bf.gz (`Chunking.bloom`).
Core Lean only.
-/
import SST.Model.SSTable
import SST.Model.FS
namespace SST
namespace TblDir
open Generated

/-! ## directory images and file-system calls -/

inductive File where
  | index | data | metaf | bloom
  deriving DecidableEq, Repr

/-- a table directory: does it exist, and per file `none` (absent) or its bytes -/
structure DirImage where
  dir : Bool := false
  index : Option Bytes := none
  data : Option Bytes := none
  metaf : Option Bytes := none
  bloom : Option Bytes := none
  deriving DecidableEq, Repr

def DirImage.get (img : DirImage) : File → Option Bytes
  | .index => img.index
  | .data => img.data
  | .metaf => img.metaf
  | .bloom => img.bloom

def DirImage.set (img : DirImage) (f : File) (o : Option Bytes) : DirImage :=
  match f with
  | .index => { img with index := o }
  | .data => { img with data := o }
  | .metaf => { img with metaf := o }
  | .bloom => { img with bloom := o }

inductive FsCall where
  | mkdir                              -- `MkdirAll`
  | create (f : File) (trunc : Bool)   -- `open(O_CREATE[|O_TRUNC])`
  | write (f : File) (bs : Bytes)      -- one `write` at the descriptor's offset (the writers only append)
  | close (f : File)
  | unlink (f : File)
  | rmdir                              -- fails (changes nothing) unless the directory is empty
  deriving DecidableEq, Repr

def applyCall (img : DirImage) : FsCall → DirImage
  | .mkdir => if img.dir then img else { dir := true }
  | .create f trunc =>
    if !img.dir then img else
    match img.get f with
    | none => img.set f (some [])
    | some _ => if trunc then img.set f (some []) else img
  | .write f bs =>
    if !img.dir then img else
    match img.get f with
    | none => img
    | some old => img.set f (some (old ++ bs))
  | .close _ => img
  | .unlink f => if img.dir then img.set f none else img
  | .rmdir =>
    if img.dir && img.index.isNone && img.data.isNone && img.metaf.isNone && img.bloom.isNone then {} else img

def applyCalls (img : DirImage) (cs : List FsCall) : DirImage := cs.foldl applyCall img

/-! ## the table writer's calls -/

/-- flush points: per `WriteNext` the sizes of the `write` calls on data.rio / index.rio issued during that call,
and the pieces in which the gzip writer emits bloom.bf.gz -/
structure Chunking where
  recs : List (List Nat × List Nat) := []
  bloom : List Bytes := []
  deriving Repr

/-- `write` calls on file `f` whose logical content is `stream`: `w` bytes are in the file, `avail` bytes have been
handed to the buffered writer; each requested size is clipped to what is buffered (an empty write is no call) -/
def emit (f : File) (stream : Bytes) (avail : Nat) : List Nat → Nat → List FsCall × Nat
  | [], w => ([], w)
  | n :: ns, w =>
    let m := min n (avail - w)
    let r := emit f stream avail ns (w + m)
    (if m = 0 then r.1 else .write f ((stream.drop w).take m) :: r.1, r.2)

/-- the `WriteNext` calls: `w` is the stream writer model (its `data.cur` / `index.cur` are `FileWriter.Size()` of
the two recordio writers), `T` the files the run ends with, `dw`/`iw` the bytes already in data.rio / index.rio -/
def bodyCalls (cfg : SstCfg) (T : Table) :
    SstW → List (Bytes × GoBytes) → List (List Nat × List Nat) → Nat → Nat → List FsCall × Nat × Nat
  | _, [], _, dw, iw => ([], dw, iw)
  | w, (k, v) :: rest, chs, dw, iw =>
    let w' := (w.writeNext cfg k v .none).1
    let ch := chs.head?.getD ([], [])
    let r1 := emit .data T.data w'.data.cur ch.1 dw
    let r2 := emit .index T.index w'.index.cur ch.2 iw
    let r3 := bodyCalls cfg T w' rest chs.tail r1.2 r2.2
    (r1.1 ++ r2.1 ++ r3.1, r3.2)

/-- `SSTableStreamWriter.Open` -/
def openCalls (cfg : SstCfg) : List FsCall :=
  [.create .index false, .write .index (fileHeader currentVersion cfg.ict),
   .create .data false, .write .data (fileHeader currentVersion cfg.dct),
   .create .metaf false]

/-- one `write` of whatever is still buffered (none when the buffer is empty) -/
def flushCall (f : File) (stream : Bytes) (w : Nat) : List FsCall :=
  if (stream.drop w).isEmpty then [] else [.write f (stream.drop w)]

/-- `Close` up to and including the close of bloom.bf.gz -/
def closeCalls (T : Table) (bloom : List Bytes) (dw iw : Nat) : List FsCall :=
  flushCall .index T.index iw ++ [.close .index] ++ flushCall .data T.data dw ++ [.close .data] ++
  [.create .bloom true] ++ bloom.map (.write .bloom) ++ [.close .bloom]

/-- the last two calls of `Close`: the metadata -/
def metaCalls (T : Table) : List FsCall := [.write .metaf T.metaf, .close .metaf]

/-- everything of a run before the metadata write -/
def writerInit (cfg : SstCfg) (ch : Chunking) (kvs : List (Bytes × GoBytes)) : List FsCall :=
  let T := writeTable cfg kvs
  let b := bodyCalls cfg T (SstW.open cfg) kvs ch.recs fileHeaderSize fileHeaderSize
  openCalls cfg ++ b.1 ++ closeCalls T ch.bloom b.2.1 b.2.2

/-- one table-writer run: `Open`, a `WriteNext` per pair (a pair the order check rejects writes nothing), `Close` -/
def writerCalls (cfg : SstCfg) (ch : Chunking) (kvs : List (Bytes × GoBytes)) : List FsCall :=
  writerInit cfg ch kvs ++ metaCalls (writeTable cfg kvs)

/-- `executeFlush` (and the recovery flush): the directory, then the writer -/
def flushCalls (cfg : SstCfg) (ch : Chunking) (kvs : List (Bytes × GoBytes)) : List FsCall :=
  .mkdir :: writerCalls cfg ch kvs

/-! ## clean-up -/

/-- `os.RemoveAll(dir)`: the files in the order given (any order, repetitions are harmless), then the directory -/
def removeAllCalls (order : List File) : List FsCall := order.map .unlink ++ [.rmdir]

/-- `removeUnfinishedTable`: index.rio first -/
def removeUnfinishedCalls (order : List File) : List FsCall := .unlink .index :: removeAllCalls order

/-- what recovery did before commit d2bdde6: plain `RemoveAll` -/
def removeUnfinishedCallsPreFix (order : List File) : List FsCall := removeAllCalls order

/-! ## `NewSSTableReader` as SimpleDB calls it, and what the loaded table serves -/

structure Params where
  /-- the compressor behind each compression code of a recordio file header -/
  comps : Nat → Compression
  /-- `bloomfilter.ReadFile` on the bytes of bloom.bf.gz: `none` = it fails -/
  readBloom : Bytes → Option (Bytes → Bool)

/-- what `Get(key)` of the loaded table answers for one of its keys -/
inductive Cell where
  | val (v : GoBytes)
  | err (e : Err)
  deriving DecidableEq, Repr

abbrev Served := List (Bytes × Cell)

/-- `sstables/proto/sstable.proto`: `DataEntry { bytes value = 1; }` — what a version-0 table stores per record -/
def dataEntrySchema : Nat → Option PbKind
  | 1 => some .bytes
  | _ => none

/-- `proto.Unmarshal(b, &DataEntry{})`: the value and the error, if any -/
def decDataEntry (b : Bytes) : GoBytes × Option Err :=
  let r := pbDecode dataEntrySchema b
  (pbGetBytes r.1 1, r.2)

/-- `getValueAtOffset` of a version-0 reader (no hash check on read): `MMapProtoReader.ReadNextAt`; only the bare
`io.EOF` (offset = file size) is swallowed and leaves the default message -/
def v0Value (dc : Compression) (data : Bytes) (iv : IndexVal) : Except Err GoBytes :=
  if iv.off = data.length then .ok none else
  match readAt dc data iv.off with
  | .error e => .error e
  | .ok r =>
    match decDataEntry (r.getD []) with
    | (v, none) => .ok v
    | (_, some e) => .error e

def cellOf : Except Err GoBytes → Cell
  | .ok v => .val v
  | .error e => .err e

/-- the keys of the loaded index, as `[]byte` arguments of `Get` -/
def keysOf (idx : Index) : List Bytes := idx.all.1.map fun e => e.1.getD []

/-- `Get` of every key of a version ≥ 1 table -/
def servedV1 (r : Reader) (idx : Index) : Served :=
  (keysOf idx).map fun k =>
    (k, match (r.get idx k).2 with
        | some x => cellOf x
        | none => .err .other)

/-- `Get` of every key of a version-0 table -/
def servedV0 (dc : Compression) (data : Bytes) (idx : Index) : Served :=
  (keysOf idx).map fun k =>
    (k, match (idx.get k).2 with
        | some (.ok iv) => cellOf (v0Value dc data iv)
        | some (.error e) => .err e
        | none => .err .other)

/-- `readMetaDataIfExists` -/
def readMeta : Option Bytes → Except Err Meta
  | none => .ok {}
  | some b => decMeta b

/-- `readFilterIfExists` -/
def readFilter (P : Params) : Option Bytes → Except Err (Option (Bytes → Bool))
  | none => .ok none
  | some b =>
    match P.readBloom b with
    | some f => .ok (some f)
    | none => .error .other

/-- `NewSSTableReader(ReadBasePath(dir), ReadWithKeyComparator(cmp), ReadBufferSizeBytes(n))` followed by a `Get`
of every key.  (A missing index.rio is created empty by the reader factory's `O_CREATE` and then fails to load.) -/
def loadDir (P : Params) (img : DirImage) : Except Err Served :=
  match readMeta img.metaf with
  | .error e => .error e
  | .ok md =>
    if md.version = 0 then
      match img.index with
      | none => .error .eof
      | some i =>
        match loadIndex P.comps .slice i with
        | .error e => .error e
        | .ok idx =>
          match readFilter P img.bloom with
          | .error e => .error e
          | .ok _ =>
            match img.data with
            | none => .error .other
            | some d =>
              match openMmap P.comps d with
              | .error e => .error e
              | .ok dc => .ok (servedV0 dc d idx)
    else
      match img.index, img.data with
      | some i, some d =>
        match readFilter P img.bloom with
        | .error e => .error e
        | .ok bf =>
          match openTable P.comps .slice {} { index := i, data := d, metaf := img.metaf.getD [] } bf with
          | .error e => .error e
          | .ok (r, idx) => .ok (servedV1 r idx)
      | _, _ => .error .other

/-! ## `reconstructSSTables` on one directory -/

/-- `hasEmptyMetadata`: meta.pb.bin exists and has size 0 -/
def hasEmptyMetadata (img : DirImage) : Bool := img.metaf == some []

/-- `isUnfinishedTable`: meta.pb.bin is missing or has size 0 -/
def isUnfinishedTable (img : DirImage) : Bool :=
  match img.metaf with
  | none => true
  | some b => b.isEmpty

/-- the classification with the `Get` answers kept as they are (errors included) -/
inductive ClassX where
  | part (hasMeta : Bool)
  | complete (s : Served)
  deriving DecidableEq, Repr

def classifyX (P : Params) (img : DirImage) : ClassX :=
  if hasEmptyMetadata img then .part false
  else
    match loadDir P img with
    | .ok s => .complete s
    | .error _ => if isUnfinishedTable img then .part false else .part true

/-- a served table as an L6 layer: an empty or nil value reads as a tombstone there already; a `Get` that fails
(possible for mis-parsed legacy tables only, see `SST.C10.Table.served_has_no_error`) has no counterpart in a layer
and is listed as a tombstone -/
def Served.toLayer (s : Served) : DBM.Layer :=
  s.map fun p => (p.1, match p.2 with
    | .val v => v
    | .err _ => none)

def ClassX.toTableDir : ClassX → FS.TableDir
  | .part m => .part m
  | .complete s => .complete s.toLayer

/-- the abstract state of an existing directory -/
def classify (P : Params) (img : DirImage) : FS.TableDir := (classifyX P img).toTableDir

/-- the abstract disk's entry for this directory: `none` = there is no such directory -/
def abstractOf (P : Params) (img : DirImage) : Option FS.TableDir :=
  if img.dir then some (classify P img) else none

/-! ## the abstract events of a table writer (as `FS.flushEvs` / `FS.phase3Events` list them) -/

def tableEvs (g : Nat) (cells : DBM.Layer) : List FS.Ev :=
  [.tblMkdir g, .tblLoadable g [], .tblMetaCreate g, .tblProgress g, .tblComplete g cells]

/-- number of abstract events completed after `n` of the `len` calls of `flushCalls`: the directory (call 1), the
header of data.rio (call 5: the legacy-table window opens), the creation of meta.pb.bin (call 6: it closes), any
further call, the metadata write (call `len - 1`) -/
def evIdx (len n : Nat) : Nat :=
  if n = 0 then 0
  else if n < 5 then 1
  else if n = 5 then 2
  else if n + 1 < len then (if n = 6 then 3 else 4)
  else 5

/-- what a half-removed COMPLETE table without metadata file shows for the pairs `kvs`: every value parsed as a
`DataEntry` protobuf -/
def junkCell (v : GoBytes) : Cell :=
  match decDataEntry (v.getD []) with
  | (x, none) => .val x
  | (_, some e) => .err e

def junkOf (kvs : List (Bytes × GoBytes)) : Served := kvs.map fun p => (p.1, junkCell p.2)

/-- number of events of `FS.rmAll g (some junk)` completed when the directory looks like this -/
def rmIdx (img : DirImage) : Nat :=
  if !img.dir then 4
  else if img.metaf.isSome then (if img.index.isSome && img.data.isSome then 0 else 2)
  else (if img.index.isSome && img.data.isSome then 1 else 3)

end TblDir
end SST
