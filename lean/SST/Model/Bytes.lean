/-
L0: bytes, Go's uvarint (encoding/binary), CRC-32C (Castagnoli) and CRC-64/ISO as computed by
hash/crc32 and hash/crc64.  Core Lean only (this file is linked into the driver executable).
-/
namespace SST

abbrev Bytes := List UInt8

/-- Go's `[]byte` where nil and empty are observably different. -/
abbrev GoBytes := Option Bytes

/-- Error kinds the correspondence check compares (Go errors are mapped onto this enum by the harness). -/
inductive Err where
  | eof            -- errors.Is(err, io.EOF)
  | unexpectedEof  -- errors.Is(err, io.ErrUnexpectedEOF)
  | overflow       -- binary: varint overflows a 64-bit integer
  | magic          -- recordio.MagicNumberMismatchErr
  | headerCrc      -- recordio.HeaderChecksumMismatchErr
  | headerTooLong  -- checksum byte reader out of range (more than 36 header bytes)
  | nonCanonical   -- recordio.NonCanonicalVarintErr (zero-padded varint in a record header)
  | decompress     -- compressor rejected the stored payload
  | checksum       -- sstables.ChecksumError
  | notFound
  | rejected       -- argument / state validation failed
  | io             -- injected I/O fault
  | other
  deriving DecidableEq, Repr, Inhabited

def Err.toString : Err → String
  | .eof => "eof" | .unexpectedEof => "ueof" | .overflow => "overflow" | .magic => "magic"
  | .headerCrc => "hdrcrc" | .headerTooLong => "hdrlong" | .nonCanonical => "noncanon" | .decompress => "decomp"
  | .checksum => "checksum" | .notFound => "notfound" | .rejected => "rejected" | .io => "io"
  | .other => "other"

instance : ToString Err := ⟨Err.toString⟩

/-! ## uvarint, exactly as `binary.PutUvarint` / `binary.ReadUvarint` -/

/-- `binary.PutUvarint`. -/
def uvarintEnc (n : Nat) : Bytes :=
  if n < 128 then [UInt8.ofNat n] else UInt8.ofNat (n % 128 + 128) :: uvarintEnc (n / 128)
decreasing_by omega

/-- `binary.ReadUvarint` over the remaining bytes of a byte reader.  `i` = bytes consumed so far,
`x` = accumulator, `s` = shift.  Returns the value and the number of bytes consumed.
Go accepts non-minimal encodings (e.g. `91 8d cc 00`), rejects a 10th byte > 1 and gives up with an overflow error
after ten continuation bytes WITHOUT reading an eleventh, and reports `io.EOF` only when not a single byte was
available. -/
def uvarintDecAux : Bytes → (i x s : Nat) → Except Err (Nat × Nat)
  | [], i, _, _ => if i ≥ 10 then .error .overflow else if i = 0 then .error .eof else .error .unexpectedEof
  | b :: bs, i, x, s =>
    if i ≥ 10 then .error .overflow else
    if b.toNat < 128 then
      (if i = 9 ∧ b.toNat > 1 then .error .overflow else .ok (x + b.toNat * 2 ^ s, i + 1))
    else uvarintDecAux bs (i + 1) (x + (b.toNat - 128) * 2 ^ s) (s + 7)

def uvarintDec (bs : Bytes) : Except Err (Nat × Nat) := uvarintDecAux bs 0 0 0

/-! ## CRC-32C (Castagnoli), table driven as in hash/crc32 (simple table algorithm) -/

def crc32Poly : UInt32 := 0x82F63B78

def crc32Shift (c : UInt32) : UInt32 :=
  if c &&& 1 == 1 then (c >>> 1) ^^^ crc32Poly else c >>> 1

def crc32Tab (i : UInt8) : UInt32 :=
  crc32Shift (crc32Shift (crc32Shift (crc32Shift (crc32Shift (crc32Shift (crc32Shift (crc32Shift i.toUInt32)))))))

def crc32Step (c : UInt32) (b : UInt8) : UInt32 :=
  crc32Tab ((c ^^^ b.toUInt32).toUInt8) ^^^ (c >>> 8)

def crc32c (bs : Bytes) : UInt32 := (bs.foldl crc32Step 0xFFFFFFFF) ^^^ 0xFFFFFFFF

/-! ## CRC-64/ISO as in hash/crc64 -/

def crc64Poly : UInt64 := 0xD800000000000000

def crc64Shift (c : UInt64) : UInt64 :=
  if c &&& 1 == 1 then (c >>> 1) ^^^ crc64Poly else c >>> 1

def crc64Tab (i : UInt8) : UInt64 :=
  crc64Shift (crc64Shift (crc64Shift (crc64Shift (crc64Shift (crc64Shift (crc64Shift (crc64Shift i.toUInt64)))))))

def crc64Step (c : UInt64) (b : UInt8) : UInt64 :=
  crc64Tab ((c ^^^ b.toUInt64).toUInt8) ^^^ (c >>> 8)

def crc64iso (bs : Bytes) : UInt64 := (bs.foldl crc64Step 0xFFFFFFFFFFFFFFFF) ^^^ 0xFFFFFFFFFFFFFFFF

/-! ## little-endian fixed width -/

def le32 (n : Nat) : Bytes :=
  [UInt8.ofNat (n % 256), UInt8.ofNat (n / 256 % 256), UInt8.ofNat (n / 65536 % 256), UInt8.ofNat (n / 16777216 % 256)]

def le32Dec : Bytes → Option Nat
  | [a, b, c, d] => some (a.toNat + b.toNat * 256 + c.toNat * 65536 + d.toNat * 16777216)
  | _ => none

/-! ## hex (driver protocol) -/

def hexDigit (n : Nat) : Char :=
  if n < 10 then Char.ofNat (48 + n) else Char.ofNat (87 + n)

def toHex (bs : Bytes) : String :=
  String.ofList (bs.foldr (fun b acc => hexDigit (b.toNat / 16) :: hexDigit (b.toNat % 16) :: acc) [])

def hexVal (c : Char) : Option Nat :=
  if '0' ≤ c ∧ c ≤ '9' then some (c.toNat - 48)
  else if 'a' ≤ c ∧ c ≤ 'f' then some (c.toNat - 87)
  else none

def fromHexAux : List Char → Option Bytes
  | [] => some []
  | [_] => none
  | a :: b :: rest => do
    let x ← hexVal a
    let y ← hexVal b
    let r ← fromHexAux rest
    pure (UInt8.ofNat (x * 16 + y) :: r)

def fromHex (s : String) : Option Bytes := fromHexAux s.toList

/-- GoBytes on the wire: `-` is nil, `.` is empty, otherwise hex. -/
def goBytesToStr : GoBytes → String
  | none => "-"
  | some [] => "."
  | some bs => toHex bs

def goBytesOfStr (s : String) : Option GoBytes :=
  if s = "-" then some none
  else if s = "." then some (some [])
  else (fromHex s).map some

/-- lexicographic comparison of byte strings = `bytes.Compare` -/
def bytesCmp : Bytes → Bytes → Ordering
  | [], [] => .eq
  | [], _ :: _ => .lt
  | _ :: _, [] => .gt
  | a :: as, b :: bs => if a < b then .lt else if b < a then .gt else bytesCmp as bs

def bytesLt (a b : Bytes) : Bool := bytesCmp a b == .lt
def bytesLe (a b : Bytes) : Bool := bytesCmp a b != .gt

end SST
