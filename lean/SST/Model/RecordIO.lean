/-
L1: the recordio V4 format and its writer / sequential reader / random-access reader, following
recordio/file_writer.go, common_reader.go, file_reader.go, mmap_reader.go.  Core Lean only.
-/
import SST.Model.Bytes
import SST.Generated.Consts

namespace SST
open Generated

/-- An abstract compressor (gzip / snappy / lzw are external code; the only law used is `dec (enc x) = some x`). -/
structure Comp where
  enc : Bytes → Bytes
  dec : Bytes → Option Bytes

def Comp.Lawful (c : Comp) : Prop := ∀ x, c.dec (c.enc x) = some x

/-- `none` = CompressionTypeNone. -/
abbrev Compression := Option Comp

/-! ## writer side: bytes of one record -/

/-- everything of the V4 record header that precedes its checksum -/
def headerBody (nilFlag : Bool) (ulen clen : Nat) : Bytes :=
  magicBytes ++ [if nilFlag then 1 else 0] ++ uvarintEnc ulen ++ uvarintEnc clen

/-- `fillRecordHeaderV4` -/
def encHeader (nilFlag : Bool) (ulen clen : Nat) : Bytes :=
  headerBody nilFlag ulen clen ++ uvarintEnc (crc32c (headerBody nilFlag ulen clen)).toNat

/-- bytes actually stored for a payload -/
def stored (c : Compression) (r : Bytes) : Bytes :=
  match c with
  | none => r
  | some c => c.enc r

/-- the compressed-size header field: 0 when the file is not compressed -/
def clenOf (c : Compression) (r : Bytes) : Nat :=
  match c with
  | none => 0
  | some c => (c.enc r).length

/-- `FileWriter.Write`: header, then the stored payload unless the record is nil.
A nil record is compressed like an empty one (its compressed length lands in the header) but no payload
follows. -/
def encRecord (c : Compression) : GoBytes → Bytes
  | none => encHeader true 0 (clenOf c [])
  | some r => encHeader false r.length (clenOf c r) ++ stored c r

/-- `fileHeaderAsByteSlice` -/
def fileHeader (version compType : Nat) : Bytes := le32 version ++ le32 compType

/-! ## reader side -/

/-- A window of bytes a record header is parsed from, with what running off its end means.
File reader: the window is the next 36 bytes of the stream and running off a *limited* window is the
checksum reader's "out of range" error.  Mmap reader: the window is the 36 bytes `ReadAt` returned and
running off it is EOF / unexpected EOF. -/
structure Win where
  bytes : Bytes
  end0 : Err   -- stream exhausted where a varint (or the nil flag) starts
  endN : Err   -- stream exhausted inside a varint

def Win.map (w : Win) : Except Err α → Except Err α
  | .error .eof => .error w.end0
  | .error .unexpectedEof => .error w.endN
  | r => r

structure RecHeader where
  ulen : Nat
  clen : Nat
  isNil : Bool
  hlen : Nat
  deriving Repr, DecidableEq

/-- `readCanonicalUvarint`: a varint as the writer encodes it; zero-padded encodings are rejected -/
def canonDec (w : Win) (bs : Bytes) : Except Err (Nat × Nat) := do
  let (v, n) ← w.map (uvarintDec bs)
  if n > 1 ∧ bs.getD (n - 1) 0 = 0 then throw .nonCanonical
  pure (v, n)

/-- `readRecordHeaderV4` -/
def readHeader (w : Win) : Except Err RecHeader := do
  let (m, c1) ← canonDec w w.bytes
  if m ≠ magicNumber then throw .magic
  match w.bytes.drop c1 with
  | [] => throw w.end0
  | nb :: rest =>
    let (ulen, c2) ← canonDec w rest
    let rest2 := rest.drop c2
    let (clen, c3) ← canonDec w rest2
    let consumed := c1 + 1 + c2 + c3
    let actual := crc32c (w.bytes.take consumed)
    let (expected, c4) ← canonDec w (rest2.drop c3)
    if actual.toNat ≠ expected then throw .headerCrc
    pure { ulen := ulen, clen := clen, isNil := nb == 1, hlen := consumed + c4 }

/-- window of the sequential reader over the remaining stream `s` -/
def fileWin (s : Bytes) : Win :=
  if s.length > recordHeaderMax then
    { bytes := s.take recordHeaderMax, end0 := .headerTooLong, endN := .headerTooLong }
  else { bytes := s, end0 := .eof, endN := .unexpectedEof }

/-- window of the mmap reader over the bytes from the read offset -/
def mmapWin (s : Bytes) : Win :=
  { bytes := s.take recordHeaderMax, end0 := .eof, endN := .unexpectedEof }

def expectedLen (c : Compression) (h : RecHeader) : Nat :=
  match c with
  | none => h.ulen
  | some _ => h.clen

def decodePayload (c : Compression) (p : Bytes) : Except Err Bytes :=
  match c with
  | none => .ok p
  | some c => match c.dec p with
    | some r => .ok r
    | none => .error .decompress

/-- `FileReader.ReadNext` (V4) on the remaining stream: the record and the number of bytes consumed.
On a magic-number mismatch the rest of the stream is inspected: all zero (direct-I/O padding) means EOF. -/
def readNextS (c : Compression) (s : Bytes) : Except Err (GoBytes × Nat) :=
  match readHeader (fileWin s) with
  | .error .magic =>
    -- the magic varint has been consumed; Go reads everything that is left
    match uvarintDec (fileWin s).bytes with
    | .ok (_, c1) => if (s.drop c1).all (· == 0) then .error .eof else .error .magic
    | .error _ => .error .magic
  | .error e => .error e
  | .ok h =>
    if h.isNil then .ok (none, h.hlen) else
    let n := expectedLen c h
    let avail := (s.drop h.hlen)
    if n = 0 then (decodePayload c []).map (fun r => (some r, h.hlen))
    else if avail.length = 0 then .error .eof
    else if avail.length < n then .error .unexpectedEof
    else (decodePayload c (avail.take n)).map (fun r => (some r, h.hlen + n))

/-- `FileReader.SkipNext` (V4): bytes skipped.  No zero-tail rule, no payload check: it seeks. -/
def skipNextS (c : Compression) (s : Bytes) : Except Err Nat :=
  match readHeader (fileWin s) with
  | .error e => .error e
  | .ok h => .ok (h.hlen + (if h.isNil then 0 else expectedLen c h))

/-- `MMapReader.ReadNextAt` (V4) -/
def readAt (c : Compression) (file : Bytes) (off : Nat) : Except Err GoBytes :=
  if off > file.length then .error .other
  else if off = file.length then .error .eof
  else
    let s := file.drop off
    match readHeader (mmapWin s) with
    | .error e => .error e
    | .ok h =>
      if h.isNil then .ok none else
      let n := expectedLen c h
      if off + h.hlen > file.length then .error .other
      else
        let avail := s.drop h.hlen
        if avail.length < n then .error .eof
        else (decodePayload c (avail.take n)).map some

/-! ## whole-file reading -/

/-- `readFileHeaderFromBuffer` on the first 8 bytes: (version, compression code) -/
def parseFileHeader (file : Bytes) : Except Err (Nat × Nat) :=
  if file.length < fileHeaderSize then
    (if file.length = 0 then .error .eof else .error .unexpectedEof)
  else
    match le32Dec (file.take 4), le32Dec ((file.drop 4).take 4) with
    | some v, some ct =>
      if v > currentVersion ∨ v < minVersion then .error .rejected
      else if ct > maxCompression then .error .rejected
      else .ok (v, ct)
    | _, _ => .error .other

/-- read records sequentially until the first error (EOF included); fuel = stream length + 1 -/
def readAllS (c : Compression) : Nat → Bytes → List GoBytes × Err
  | 0, _ => ([], .other)
  | fuel + 1, s =>
    match readNextS c s with
    | .error e => ([], e)
    | .ok (r, n) =>
      let (rs, e) := readAllS c fuel (s.drop n)
      (r :: rs, e)

def readAll (c : Compression) (file : Bytes) : List GoBytes × Err :=
  readAllS c (file.length + 1) (file.drop fileHeaderSize)

/-! ## writer state machine (`FileWriter`), buffering abstracted (see BufW for the buffered writer) -/

structure WState where
  file : Bytes
  cur : Nat
  largest : Nat
  deriving Repr

def overwrite (file : Bytes) (pos : Nat) (bs : Bytes) : Bytes :=
  file.take pos ++ bs ++ file.drop (pos + bs.length)

def WState.init (compType : Nat) : WState :=
  { file := fileHeader currentVersion compType, cur := fileHeaderSize, largest := fileHeaderSize }

/-- `Write`: returns the new state and the offset of the record -/
def WState.write (c : Compression) (w : WState) (r : GoBytes) : WState × Nat :=
  let e := encRecord c r
  let cur' := w.cur + e.length
  ({ file := overwrite w.file w.cur e, cur := cur',
     largest := if r.isNone then w.largest else max w.largest cur' }, w.cur)

/-- `Seek` -/
def WState.seek (w : WState) (off : Nat) : Except Err WState :=
  if off < fileHeaderSize then .error .rejected
  else if off > w.cur then .error .rejected
  else .ok { w with largest := max w.largest w.cur, cur := off }

/-- `Close`: the final file -/
def WState.close (w : WState) : Bytes :=
  if w.largest > w.cur then w.file.take w.cur else w.file

inductive WOp where
  | write (r : GoBytes)
  | seek (off : Nat)
  deriving Repr

/-- run a writer program; rejected seeks leave the state unchanged. Returns state and per-op results
(offset for a write, 0/1 for an accepted/rejected seek). -/
def runWriter (c : Compression) : WState → List WOp → WState × List Nat
  | w, [] => (w, [])
  | w, .write r :: ops =>
    let (w', off) := w.write c r
    let (wf, outs) := runWriter c w' ops
    (wf, off :: outs)
  | w, .seek off :: ops =>
    match w.seek off with
    | .ok w' => let (wf, outs) := runWriter c w' ops; (wf, 0 :: outs)
    | .error _ => let (wf, outs) := runWriter c w ops; (wf, 1 :: outs)

/-! ## SeekNext as coded in mmap_reader.go (4 KiB windows) -/

inductive ScanOut where
  | found (off : Nat) (r : GoBytes)
  | fail (e : Err)
  | advance (i : Nat)        -- inner loop ended; `i` as left by the loop
  deriving Repr

/-- number of marker bytes matched at `win[i..]`, and whether the match loop hit the end of the window
(`break outer`).  Returns (ix, hitEnd). -/
def matchMarker (win : Bytes) (numRead i : Nat) : Nat × Bool :=
  let rec go (j ix : Nat) (m : Bytes) : Nat × Bool :=
    match m with
    | [] => (ix, false)
    | mb :: ms =>
      if win.getD ix 0 != mb then (ix, false)
      else if ix + 1 ≥ numRead then (ix + 1, true)
      else go (j + 1) (ix + 1) ms
  go 0 i magicBytes

/-- the inner `for i < numRead` loop of SeekNext over one window -/
def scanWindow (c : Compression) (file : Bytes) (next : Nat) (win : Bytes) (numRead : Nat) :
    Nat → Nat → ScanOut
  | 0, i => .advance i
  | fuel + 1, i =>
    if i ≥ numRead then .advance i else
    let (ix, hitEnd) := matchMarker win numRead i
    if hitEnd then .advance i
    else if ix - i < magicBytes.length then scanWindow c file next win numRead fuel (i + 1)
    else
      match readAt c file (next + i) with
      | .ok r => .found (next + i) r
      | .error _ => scanWindow c file next win numRead fuel ix

def seekLen : Nat := 4096

/-- `MMapReader.SeekNext` -/
def seekNextAux (c : Compression) (file : Bytes) : Nat → Nat → Except Err (Nat × GoBytes)
  | 0, _ => .error .other
  | fuel + 1, next =>
    if next > file.length then .error .other else
    let win := (file.drop next).take seekLen
    let numRead := win.length
    if numRead = 0 then .error .eof else
    match scanWindow c file next win numRead (numRead + 1) 0 with
    | .found off r => .ok (off, r)
    | .fail e => .error e
    | .advance i => if i = 0 then .error .eof else seekNextAux c file fuel (next + i)

def seekNext (c : Compression) (file : Bytes) (off : Nat) : Except Err (Nat × GoBytes) :=
  seekNextAux c file (file.length + 2) off

end SST
