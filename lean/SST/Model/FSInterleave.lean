/-
L6-fs, interleaved: the client thread, the flusher and the compactor of one open SimpleDB session as ONE transition
system over the abstract disk of SST/Model/FS.lean.  Every transition is one move of one thread and makes at most
one file-system call (`Ev`); a crash image is the disk after any sequence of moves.  What orders the threads:
* the db write lock: held by the client thread for the whole of a Put/Delete/rotation (`pc ≠ idle`) and by the
  compactor for the whole of `reflectCompactionResult` (`KJob.reflecting`) — these two exclude each other;
* the unbuffered hand-off channel: the rotation's hand-off (`Mv.handoff`) is only taken when the flusher has finished
  its previous store (`fl = none`); the client keeps the lock while it waits;
* the manager lock: `addReader` (`Mv.fadd`, the flusher's last step) cannot run while `reflectCompactionResult`
  holds it; the flusher's FILE calls can;
* a compaction works on the table list as it was when it selected its run; tables the flusher adds meanwhile are
  newer and stay outside the run.
The per-thread call sequences are those of `flushEvs` / `rotateEvs` / `logEvs` / `compactEvs` (Model/FS.lean); see
`flushCalls_eq`, `reflectCalls_eq` … in Proofs/FSInterleave.lean.  Core Lean only.
-/
import SST.Model.FS

namespace SST
namespace FSI
open DBM FS

/-- the flusher's job: the handed-over store, the records and number of its WAL file, the table number, and how many
of its calls have been made -/
structure FJob where
  r : Layer
  ro : List Mutation
  on : Nat
  g : Nat
  stage : Nat
  deriving Repr

/-- the calls of `executeFlush`, in order (cf. `flushEvs`) -/
def flushCalls (j : FJob) : List Ev :=
  [.tblMkdir j.g, .tblLoadable j.g [], .tblMetaCreate j.g, .tblProgress j.g, .tblComplete j.g j.r, .walUnlink j.on]

/-- where the client thread is inside its current call (it holds the db write lock unless `idle`) -/
inductive Pc where
  | idle
  | app (rot : Bool)   -- Put/Delete: the record is in the appender (written synchronously / buffered)
  | rot0               -- rotation: the current file is being closed (its buffer written out)
  | rot1               -- … closed
  | rot2               -- … next file created
  | rot3               -- … header written; waiting for the hand-off
  deriving DecidableEq, Repr

/-- the client is inside an append (Put/Delete, or the buffer flush of a closing file) -/
def Pc.logging : Pc → Bool
  | .app _ => true
  | .rot0 => true
  | _ => false

/-- the compactor: idle, merging (`stage` calls of compMkdir … compFlag made), or reflecting (`j` inputs removed,
`sub` = state of input `j`: 0 untouched, 1 seen as legacy table `jk`, 2 metadata left, 3 no metadata left) -/
inductive KJob where
  | idle
  | merging (npre nsel : Nat) (cells : Layer) (stage : Nat)
  | reflecting (npre nsel : Nat) (cells : Layer) (j sub : Nat) (jk : Layer)
  deriving Repr

/-- a client call -/
inductive Op where
  | put (k v : Bytes) (rot : Bool)   -- Put/PutBytes (rejected if key or value is empty); `rot` = size limit exceeded
  | del (k : Bytes)
  | rotate                            -- forced rotation (hook)
  | nop                               -- a Get, or a rejected call: no file-system call, no effect
  deriving Repr

def Op.mut : Op → Option Mutation
  | .put k v _ => some (.put k v)
  | .del k => some (.del k)
  | _ => none

structure Cfg where
  d : Disk
  tables : List Tbl := []        -- the manager's reader list, oldest first
  gen : Nat := 0                 -- currentGeneration
  w : Layer := []                -- write store
  rc : List Mutation := []       -- records that have reached the current WAL file
  tn : Bool := false             -- … followed by a cut piece of the next record
  queue : List Mutation := []    -- records in the appender (asynchronous WAL: its buffer; synchronous: the one being written)
  cur : Nat := 0                 -- number of the current WAL file
  junk : List WalFile := []      -- header-only leftovers (ghost)
  fl : Option FJob := none
  pc : Pc := .idle
  kj : KJob := .idle
  prog : List Op := []           -- the client's remaining calls
  hist : List Mutation := []     -- ghost: mutations of all calls begun so far
  acked : Nat := 0               -- ghost: how many of them belong to calls that have returned
  mark : Nat := 0                -- ghost: `hist.length` at the last completed rotation
  deriving Repr

/-- one move of one thread; the data are the scheduler's / environment's free choices -/
inductive Mv where
  | begin                          -- client: next call of the program (takes the db lock)
  | torn                           -- client: a piece of the next buffered record reaches the file
  | append                         -- client: the next buffered record reaches the file completely
  | done                           -- client: the append returns (synchronous: only when everything is written)
  | close | create | header        -- client: rotation
  | handoff                        -- client: the flusher takes the store (flusher idle)
  | fstep                          -- flusher: next file-system call
  | fadd                           -- flusher: addReader (manager lock)
  | kstart (sizes : List Nat) (th : Int) (o : Opts)   -- compactor: selection
  | kstep (jk : Option Layer)      -- compactor: next file-system call (`jk`: an input seen without metadata file)
  | kreflect                       -- compactor: takes the db + manager locks
  deriving Repr

/-- the inputs of the running compaction -/
def kIns (tables : List Tbl) (npre nsel : Nat) : List Tbl := (tables.drop npre).take nsel

def kMeta (tables : List Tbl) (npre nsel : Nat) : CompMeta :=
  { inputs := (kIns tables npre nsel).map (·.gen),
    replacement := match kIns tables npre nsel with | t :: _ => t.gen | [] => 0 }

/-- the compaction directory is always number 1 here (there is never another one) -/
def kId : Nat := 1

def mergeCalls (m : CompMeta) (cells : Layer) : List Ev :=
  [.compMkdir kId, .compProgress kId, .compComplete kId cells, .compProgress kId, .compFlag kId m]

/-- `async`: the WAL option.  `none`: the move is not enabled. -/
def move (async : Bool) (c : Cfg) : Mv → Option (Option Ev × Cfg)
  | .begin =>
    match c.pc, c.kj, c.prog with
    | .idle, .reflecting .., _ => none               -- reflect holds the db lock
    | .idle, _, op :: rest =>
      (match op with
       | .nop => some (none, { c with prog := rest })
       | .rotate => some (none, { c with prog := rest, pc := .rot0 })
       | .put k v rot =>
         if k.isEmpty || v.isEmpty then some (none, { c with prog := rest })    -- rejected before anything is logged
         else
         some (none, { c with prog := rest, pc := .app rot, queue := c.queue ++ [.put k v],
                              w := (Mutation.put k v).apply c.w, hist := c.hist ++ [.put k v] })
       | .del k =>
         some (none, { c with prog := rest, pc := .app false, queue := c.queue ++ [.del k],
                              w := (Mutation.del k).apply c.w, hist := c.hist ++ [.del k] }))
    | _, _, _ => none
  | .torn =>
    if c.pc.logging && !c.queue.isEmpty then
      some (some (.walTorn c.cur), { c with d := applyEv c.d (.walTorn c.cur), tn := true })
    else none
  | .append =>
    match c.queue with
    | m :: q =>
      if c.pc.logging then
        some (some (.walAppend c.cur m),
              { c with d := applyEv c.d (.walAppend c.cur m), rc := c.rc ++ [m], queue := q, tn := false })
      else none
    | [] => none
  | .done =>
    match c.pc with
    | .app rot =>
      if !async && !c.queue.isEmpty then none      -- AppendSync returns after write + fsync
      else if rot then some (none, { c with pc := .rot0 })
      else some (none, { c with pc := .idle, acked := c.hist.length })
    | _ => none
  | .close =>
    if c.pc == .rot0 && c.queue.isEmpty && !c.tn then some (some (.walClose c.cur), { c with pc := .rot1 }) else none
  | .create =>
    if c.pc == .rot1 then
      some (some (.walCreate (c.cur + 1)), { c with d := applyEv c.d (.walCreate (c.cur + 1)), pc := .rot2 })
    else none
  | .header =>
    if c.pc == .rot2 then
      some (some (.walHeader (c.cur + 1)), { c with d := applyEv c.d (.walHeader (c.cur + 1)), pc := .rot3 })
    else none
  | .handoff =>
    match c.pc, c.fl with
    | .rot3, none =>
      if c.w.isEmpty then      -- executeFlush skips an empty store: its WAL file stays behind
        some (none, { c with pc := .idle, acked := c.hist.length, mark := c.hist.length,
                             junk := c.junk ++ [{ num := c.cur, recs := c.rc }], cur := c.cur + 1, rc := [] })
      else
        some (none, { c with pc := .idle, acked := c.hist.length, mark := c.hist.length, gen := c.gen + 1,
                             fl := some { r := c.w, ro := c.rc, on := c.cur, g := c.gen + 1, stage := 0 },
                             cur := c.cur + 1, rc := [], w := [] })
    | _, _ => none
  | .fstep =>
    match c.fl with
    | some j =>
      (match (flushCalls j)[j.stage]? with
       | some e => some (some e, { c with d := applyEv c.d e, fl := some { j with stage := j.stage + 1 } })
       | none => none)
    | none => none
  | .fadd =>
    match c.fl, c.kj with
    | _, .reflecting .. => none                      -- reflect holds the manager lock
    | some j, _ =>
      if j.stage = 6 then some (none, { c with fl := none, tables := c.tables ++ [{ gen := j.g, cells := j.r }] })
      else none
    | none, _ => none
  | .kstart sizes th o =>
    match c.kj with
    | .idle =>
      -- `executeCompaction`: selection on the current reader list (`compactStep` of L6 decides which run)
      let s : State := { tables := c.tables, gen := c.gen, isOpen := true, opts := { o with threshold := th } }
      let sel := (compactStep s sizes).2
      (match sel with
       | [] => none
       | g0 :: _ =>
         let npre := (c.tables.takeWhile (·.gen != g0)).length
         -- (the guard always holds: `kstart_run` in Proofs/FSInterleaveStep.lean)
         if npre + sel.length ≤ c.tables.length then
           some (none, { c with kj := .merging npre sel.length (mergeRun (kIns c.tables npre sel.length) (npre == 0)) 0 })
         else none)
    | _ => none
  | .kstep jk =>
    match c.kj with
    | .merging npre nsel cells st =>
      (match (mergeCalls (kMeta c.tables npre nsel) cells)[st]? with
       | some e => some (some e, { c with d := applyEv c.d e, kj := .merging npre nsel cells (st + 1) })
       | none => none)
    | .reflecting npre nsel cells j sub J =>
      (match (kIns c.tables npre nsel)[j]? with
       | some t =>
         (match sub, jk with
          | 0, some J' => some (some (.tblLoadable t.gen J'),
              { c with d := applyEv c.d (.tblLoadable t.gen J'), kj := .reflecting npre nsel cells j 1 J' })
          | 0, none | 1, _ => some (some (.tblUnlinkPart t.gen true),
              { c with d := applyEv c.d (.tblUnlinkPart t.gen true), kj := .reflecting npre nsel cells j 2 J })
          | 2, _ => some (some (.tblUnlinkPart t.gen false),
              { c with d := applyEv c.d (.tblUnlinkPart t.gen false), kj := .reflecting npre nsel cells j 3 J })
          | _, _ => some (some (.tblRmdir t.gen),
              { c with d := applyEv c.d (.tblRmdir t.gen), kj := .reflecting npre nsel cells (j + 1) 0 J }))
       | none =>
         -- all inputs are gone: rename, then the reader list is updated and the locks are released
         let m := kMeta c.tables npre nsel
         some (some (.compRename kId m.replacement),
           { c with d := applyEv c.d (.compRename kId m.replacement), kj := .idle,
                    tables := c.tables.take npre ++ [{ gen := m.replacement, cells := cells }] ++
                      c.tables.drop (npre + nsel) }))
    | .idle => none
  | .kreflect =>
    match c.kj, c.pc with
    | .merging npre nsel cells 5, .idle => some (none, { c with kj := .reflecting npre nsel cells 0 0 [] })
    | _, _ => none

/-- a schedule is a list of moves; moves that are not enabled are skipped (so every list is a schedule and every
prefix of an interleaving is one) -/
def run (async : Bool) : Cfg → List Mv → Cfg
  | c, [] => c
  | c, mv :: rest =>
    match move async c mv with
    | some (_, c') => run async c' rest
    | none => run async c rest

/-- the calls made along a schedule -/
def trace (async : Bool) : Cfg → List Mv → List Ev
  | _, [] => []
  | c, mv :: rest =>
    match move async c mv with
    | some (some e, c') => e :: trace async c' rest
    | some (none, c') => trace async c' rest
    | none => trace async c rest

/-- the configuration right after `Open` (or at any operation boundary `Vol` of the sequential model with an idle
flusher), running the program `prog` -/
def start (d : Disk) (v : Vol) (prog : List Op) : Cfg :=
  { d := d, tables := v.s.tables, gen := v.s.gen, w := v.s.w, cur := v.walCur, prog := prog }

end FSI
end SST
