/-
L3a: pq/priority_queue.go.  Array heap with slot 0 unused (positions are 1-based here too),
`upHeap` / `downHeap` / `Next` / `init` as coded; an input iterator is the list of its remaining
items.  Core Lean only.
-/
namespace SST

structure PElem (K V : Type) where
  key : K
  val : V
  ctx : Nat
  rest : List (K × V)
  deriving Repr

namespace PQ
variable {K V : Type}

abbrev Heap (K V : Type) := List (PElem K V)

/-- `pq.heap[i]` for i ≥ 1 -/
def hget (h : Heap K V) (i : Nat) : Option (PElem K V) := if i = 0 then none else h[i - 1]?
def hset (h : Heap K V) (i : Nat) (e : PElem K V) : Heap K V := h.set (i - 1) e

def less (cmp : K → K → Ordering) (a b : PElem K V) : Bool := cmp a.key b.key == .lt

/-- the loop of `upHeap`: `i` is the hole, `element` the item being moved up -/
def upLoop (cmp : K → K → Ordering) (element : PElem K V) : Nat → Heap K V → Nat → Heap K V
  | 0, h, i => hset h i element
  | fuel + 1, h, i =>
    let j := i / 2
    if j > 0 then
      match hget h j with
      | some p => if less cmp element p then upLoop cmp element fuel (hset h i p) j else hset h i element
      | none => hset h i element
    else hset h i element

def upHeap (cmp : K → K → Ordering) (h : Heap K V) (i : Nat) : Heap K V :=
  match hget h i with
  | some e => upLoop cmp e (i + 1) h i
  | none => h

/-- child selection: `j := 2i; k := j+1; if k ≤ size && less(heap[k], heap[j]) { j = k }` -/
def pickChild (cmp : K → K → Ordering) (h : Heap K V) (i : Nat) : Nat :=
  let j := 2 * i
  let k := j + 1
  match hget h k, hget h j with
  | some ek, some ej => if k ≤ h.length ∧ less cmp ek ej then k else j
  | _, _ => j

/-- the loop of `downHeap`: `i` is the hole, `j` the selected child -/
def downLoop (cmp : K → K → Ordering) (element : PElem K V) : Nat → Heap K V → Nat → Nat → Heap K V
  | 0, h, i, _ => hset h i element
  | fuel + 1, h, i, j =>
    match hget h j with
    | some ej =>
      if j ≤ h.length ∧ less cmp ej element then
        downLoop cmp element fuel (hset h i ej) j (pickChild cmp (hset h i ej) j)
      else hset h i element
    | none => hset h i element

def downHeap (cmp : K → K → Ordering) (h : Heap K V) : Heap K V :=
  match hget h 1 with
  | some e => downLoop cmp e (h.length + 1) h 1 (pickChild cmp h 1)
  | none => h

/-- `init`: inputs are numbered 0, 1, …; exhausted inputs are not put on the heap -/
def initAux (cmp : K → K → Ordering) : Heap K V → Nat → List (List (K × V)) → Heap K V
  | h, _, [] => h
  | h, i, [] :: ins => initAux cmp h (i + 1) ins
  | h, i, ((k, v) :: rest) :: ins =>
    let h' := h ++ [⟨k, v, i, rest⟩]
    initAux cmp (upHeap cmp h' h'.length) (i + 1) ins

def init (cmp : K → K → Ordering) (inputs : List (List (K × V))) : Heap K V := initAux cmp [] 0 inputs

/-- `Next`: `none` = Done -/
def next (cmp : K → K → Ordering) (h : Heap K V) : Option ((K × V × Nat) × Heap K V) :=
  match h with
  | [] => none
  | top :: _ =>
    let out := (top.key, top.val, top.ctx)
    match top.rest with
    | (k', v') :: rest' =>
      -- the top element is refilled in place, then sifted down
      some (out, downHeap cmp (hset h 1 { top with key := k', val := v', rest := rest' }))
    | [] =>
      -- exhausted: swap(1, size), chop the last slot, sift down
      match h.getLast? with
      | some last => some (out, downHeap cmp ((hset h 1 last).dropLast))
      | none => none

def drainAux (cmp : K → K → Ordering) : Nat → Heap K V → List (K × V × Nat)
  | 0, _ => []
  | fuel + 1, h =>
    match next cmp h with
    | some (o, h') => o :: drainAux cmp fuel h'
    | none => []

def total (inputs : List (List (K × V))) : Nat := (inputs.map List.length).sum

/-- everything `Next` returns until Done -/
def drain (cmp : K → K → Ordering) (inputs : List (List (K × V))) : List (K × V × Nat) :=
  drainAux cmp (total inputs + 1) (init cmp inputs)

end PQ
end SST
