/-
L7 ("stack"): SimpleDB built from the LOWER-LEVEL MODELS instead of abstract layers — the formal composition
of L2 (byte-level tables: `SstW` writer, `openTable`/`Reader` with the default slice loader), L3 (merge
iterator and reducers: `Merge.mergeCompact`), L4 (memstore on the skip list: `Mem.MemStore`) under the control
flow of simpledb/db.go, rw_memstore.go, flush.go, compaction.go, sstable_manager.go as the code is now.

State: the two memstores of the `RWMemstore` are `Mem.MemStore` model states (skip list of value pointers +
heap; node heights are explicit inputs of every call that may insert), a live table is its number together
with the three files `index.rio`, `data.rio`, `meta.pb.bin` as the `SstW` writer model produced them and the
reader `NewSSTableReader` built from these bytes.

External code = parameters (`Params`): the compressors behind the compression codes of the file headers and
the bloom filter (as a function of the keys handed to `bloomFilter.Add`, read back from `bloom.bf.gz`).
Their laws (lawful compressors, no false negatives) are `Stack.ParamsOk` in SST/Spec/Stack.lean.

As in L6 (`DBM`): the float32 size estimate and tombstone ratio are not modelled (the rotation decision is an
input of a put, the ratio an exact fraction), the WAL is another layer (C07), table directories are listed in
list order (= name order by `C01.gens_ok`; the `sort.Strings(paths)` of executeCompaction is the identity).
Failures of background work (`log.Panicf` in the flusher / compactor) and of `Open` end the run: `Fail`.

Modelling decisions that are not literal:
* `flushMemstore` and `MergeCompact` interleave `Next` and `WriteNext`; here the `WriteNext` calls are first
  collected (`Mem.flushCalls`, resp. the abstract order-checking writer of the Merge model) and then run
  through `SstW`; the first call that `SstW` does not accept fails the step.  (Every outcome in which all
  calls are accepted is identical; `SST.Proofs.Stack.writeAndOpen_ok` shows that `SstW` accepts whatever the
  abstract writer accepted.)
* `Reader.get` returns the index state (only the disk loader's cache changes it); SimpleDB uses the default
  slice loader, the returned index is dropped.
Core Lean only.
-/
import SST.Model.DB
import SST.Model.SSTable
import SST.Model.Merge
import SST.Model.MemStore
namespace SST
namespace Stack
open Generated

/-! ## external code -/

structure Params where
  /-- the compressor behind each compression code of a recordio file header -/
  comps : Nat → Compression
  /-- the bloom filter a reader loads from `bloom.bf.gz`, as a function of the keys the writer added
  (`none` = no filter file) -/
  mkBloom : List Bytes → Option (Bytes → Bool)

/-- `recordio.CompressionTypeSnappy` -/
def snappyCode : Nat := 2

/-- `recordio.CompressionTypeNone` -/
def noneCode : Nat := 0

/-- the writer options of executeFlush and executeCompaction: `NewSSTableStreamWriter` defaults (index not
compressed, data snappy-compressed) with `skiplist.BytesComparator` -/
def Params.cfg (P : Params) : SstCfg :=
  { cmp := bytesCmp, dc := P.comps snappyCode, dct := snappyCode, ic := P.comps noneCode, ict := noneCode }

/-! ## state -/

/-- a live table: directory number, the three files, the bloom filter file (opaque) and the open reader -/
structure LiveTbl where
  gen : Nat
  files : Table
  bloom : Option (Bytes → Bool)
  rd : Reader
  idx : Index

structure State where
  w : Mem.MemStore := Mem.MemStore.empty      -- writeStore
  r : Mem.MemStore := Mem.MemStore.empty      -- readStore (when it is a store of its own)
  /-- `NewSimpleDB`: `&RWMemstore{mStore, mStore}` — until the first rotation both fields are the SAME store -/
  rAliasesW : Bool := true
  flushPending : Bool := false
  tables : List LiveTbl := []                 -- allSSTableReaders, oldest first
  gen : Nat := 0                              -- currentGeneration
  isOpen : Bool := false
  closed : Bool := false
  opts : DBM.Opts := {}

def State.readStore (c : State) : Mem.MemStore := if c.rAliasesW then c.w else c.r

/-- what a client call returns: a result of the L6 vocabulary, or something L6 has no word for -/
inductive SRes where
  | db (r : DBM.Res)
  | ioErr (e : Err)            -- an I/O / format error of a table reader passed on by `GetBytes`
  | memErr (e : Mem.MErr)      -- an error of the memstore passed on by Put / Delete / Get
  | panic                      -- the Go call would panic
  deriving DecidableEq, Repr

/-- failures that end the process (`log.Panicf` of the flusher / compactor) or fail `Open` -/
inductive Fail where
  | memPanic                   -- wild value pointer in a memstore iterator
  | writerNew                  -- `NewSSTableStreamWriter`: "unexpected number of bloom filter elements"
  | flushWrite (r : WRes)      -- `WriteNext` rejected a call of `FlushWithTombstones`
  | flushOpen (e : Err)        -- `NewSSTableReader` on the flushed table failed
  | compactOpen (e : Err)      -- `NewSSTableReader` / `Scan` on a selected table failed
  | compactMerge (e : Err)     -- `MergeCompact` failed
  | compactWrite (r : WRes)
  | compactLoad (e : Err)      -- `NewSSTableReader` on the compacted table failed (reflectCompactionResult)
  | reopen (e : Err)           -- `reconstructSSTables` failed
  deriving DecidableEq, Repr

/-! ## reads -/

/-- `SuperSSTableReader.Get` over the byte-level readers, newest first (the list is given newest first):
NotFound moves on to the next older reader, any other error is returned; `none` = a reader panics -/
def superGetAux : List LiveTbl → Bytes → Option (Except Err GoBytes)
  | [], _ => some (.error .notFound)
  | t :: older, k =>
    match (t.rd.get t.idx k).2 with
    | none => none
    | some (.ok v) => some (.ok v)
    | some (.error e) => if e = .notFound then superGetAux older k else some (.error e)

def superGet (ts : List LiveTbl) (k : Bytes) : Option (Except Err GoBytes) := superGetAux ts.reverse k

/-- `RWMemstore.Get`: the write store answers unless it says KeyNotFound -/
def rwGet (c : State) (k : GoBytes) : Mem.Res :=
  match Mem.get c.w k with
  | .got _ (some .keyNotFound) => Mem.get c.readStore k
  | r => r

/-- the second half of `GetBytes`: `ssVal`, `sstableNotFound` from the tables, then the memstores -/
def getMem (c : State) (k : Bytes) (ssVal : GoBytes) (sstableNotFound : Bool) : SRes :=
  match rwGet c (some k) with
  | .got _ (some .keyNotFound) => if sstableNotFound then .db .notFound else .db (.value (ssVal.getD []))
  | .got _ (some .keyTombstoned) => .db .notFound
  | .got (some v) none => .db (.value v)
  | .got none none => .panic
  | .got _ (some e) => .memErr e
  | _ => .panic

/-- `GetBytes` -/
def get (c : State) (k : Bytes) : SRes :=
  if !c.isOpen || c.closed then .db .notOpen else
  match superGet c.tables k with
  | none => .panic
  | some (.error e) => if e = .notFound then getMem c k none true else .ioErr e
  | some (.ok v) => getMem c k v (v.getD []).isEmpty      -- `ssTableVal == nil || len(ssTableVal) == 0`

/-! ## writing a table and loading it -/

/-- `NewSSTableStreamWriter` validates its options: base path and comparator are always supplied by simpledb,
`bloomExpectedNumberOfElements <= 0` (a uint64: `== 0`) is an error -/
def newWriter (bloomExpected : Nat) : Except Fail Unit :=
  if bloomExpected = 0 then .error .writerNew else .ok ()

/-- a `WriteNext(k, v)` call without an injected fault; a nil key is the empty key -/
def mkCall (e : GoBytes × GoBytes) : Call := { key := e.1.getD [], value := e.2, fault := .none }

/-- a fresh `SSTableStreamWriter` with the default options, the `WriteNext` calls, `Close`, then
`NewSSTableReader` with the default options (slice loader, verify on load, no hash check on read) -/
def writeAndOpen (P : Params) (gen : Nat) (calls : List Call) (onWrite : WRes → Fail) (onOpen : Err → Fail) :
    Except Fail LiveTbl :=
  let wr := (SstW.open P.cfg).run P.cfg calls
  match wr.2.find? (· ≠ .ok) with
  | some r => .error (onWrite r)
  | none =>
    let files := wr.1.close
    let bloom := P.mkBloom wr.1.bloomKeys
    match openTable P.comps .slice {} files bloom with
    | .error e => .error (onOpen e)
    | .ok (rd, idx) => .ok { gen := gen, files := files, bloom := bloom, rd := rd, idx := idx }

/-! ## flush -/

/-- `executeFlush`: nothing for an empty store (`Size() == 0`); otherwise the next generation number,
`FlushWithTombstones` into a new table, a reader on it, `addReader` -/
def flushStep (P : Params) (c : State) : Except Fail State :=
  if !c.flushPending then .ok c
  else if c.r.sl.size = 0 then .ok { c with flushPending := false }
  else
    -- `BloomExpectedNumberOfElements(uint64(memStoreToFlush.Size()))`
    match newWriter c.r.sl.size with
    | .error f => .error f
    | .ok _ =>
      match Mem.flushCalls c.r true with
      | none => .error .memPanic
      | some calls =>
        match writeAndOpen P (c.gen + 1) (calls.map mkCall) .flushWrite .flushOpen with
        | .error f => .error f
        | .ok t => .ok { c with flushPending := false, gen := c.gen + 1, tables := c.tables ++ [t] }

/-- `rotateWalAndFlushMemstore` (+ `swapMemstore`): the hand-off channel is unbuffered, so the previous
store has been flushed when the flusher takes this one -/
def rotate (P : Params) (c : State) : Except Fail State :=
  match flushStep P c with
  | .error f => .error f
  | .ok c1 => .ok { c1 with r := c1.w, w := Mem.MemStore.empty, rAliasesW := false, flushPending := true }

/-! ## writes -/

/-- `PutBytes`: validation, (WAL), `memStore.Upsert`, rotation when the estimate exceeds the limit.
`h` = the height `randomHeight` draws if the skip list inserts a node. -/
def putBytes (P : Params) (c : State) (k v : GoBytes) (rotateNow : Bool) (h : Nat) : Except Fail (State × SRes) :=
  if (k.getD []).isEmpty || (v.getD []).isEmpty then .ok (c, .db .rejected)      -- len(nil) == 0
  else if !c.isOpen || c.closed then .ok (c, .db .notOpen)
  else
    match Mem.step c.w (.upsert k v) h with
    | (.err none, w') =>
      let c' := { c with w := w' }
      if rotateNow then
        match rotate P c' with
        | .error f => .error f
        | .ok c'' => .ok (c'', .db .ok)
      else .ok (c', .db .ok)
    | (.err (some e), _) => .ok (c, .memErr e)
    | _ => .ok (c, .panic)

/-- `Put` -/
def putStr (P : Params) (c : State) (k v : Bytes) (rotateNow : Bool) (h : Nat) : Except Fail (State × SRes) :=
  if k.isEmpty || v.isEmpty then .ok (c, .db .rejected) else putBytes P c (some k) (some v) rotateNow h

/-- `DeleteBytes`: (WAL), `RWMemstore.Delete` = `writeStore.Delete`, and `writeStore.Tombstone` when that
answers KeyNotFound -/
def deleteBytes (c : State) (k : GoBytes) (h : Nat) : State × SRes :=
  if !c.isOpen || c.closed then (c, .db .notOpen)
  else
    match Mem.step c.w (.delete k) h with
    | (.err none, w') => ({ c with w := w' }, .db .ok)
    | (.err (some .keyNotFound), w1) =>
      match Mem.step w1 (.tombstone k) h with
      | (.err none, w') => ({ c with w := w' }, .db .ok)
      | (.err (some e), _) => (c, .memErr e)
      | _ => (c, .panic)
    | (.err (some e), _) => (c, .memErr e)
    | _ => (c, .panic)

/-! ## compaction -/

/-- the per-table test of `candidateTablesForCompaction` on the reader's metadata -/
def candidateMd (o : DBM.Opts) (md : Meta) : Bool :=
  md.totalBytes < o.maxSize ||
    (md.numRecords > 0 && decide (md.nullValues * o.ratioDen ≥ o.ratioNum * md.numRecords))

/-- simpledb's `scanReduceLatestWinsKeepTombstones`: latest wins, `len(val) == 0` becomes `[]byte{}` -/
def scanReduceLatestWinsKeepTombstones : Merge.ReduceFn := fun key values ctx =>
  let r := Merge.scanReduceLatestWins key values ctx
  if (r.2.getD []).length = 0 then (r.1, some []) else r

/-- a table scanner as a merge input: the pairs it delivers, then Done or its error -/
def scanInput (sr : ScanRes) : Merge.Input :=
  match sr.2 with
  | .done => Merge.inputOf sr.1
  | .err e => { items := sr.1, failAt := some sr.1.length, err := e }

/-- executeCompaction opens a NEW reader on every selected directory and a full scanner on it -/
def scanAll (P : Params) : List LiveTbl → Except Err (List ScanRes)
  | [] => .ok []
  | t :: ts =>
    match openTable P.comps .slice {} t.files t.bloom with
    | .error e => .error e
    | .ok (rd, idx) =>
      match rd.scan P.comps idx with
      | .error e => .error e
      | .ok sr =>
        match scanAll P ts with
        | .error e => .error e
        | .ok srs => .ok (sr :: srs)

/-- what a compaction cycle is going to do -/
structure Plan where
  first : Nat                  -- position of the first selected table
  idx : List Nat               -- positions of the selected tables
  gens : List Nat              -- their numbers
  gen : Nat                    -- the number the result is installed at (`ReplacementPath` = `paths[0]`)
  out : List (Bytes × GoBytes) -- the `WriteNext` calls `MergeCompact` issues

/-- selection (`candidateTablesForCompaction` with `floodFill`, the threshold test of executeCompaction),
scanners, `MergeCompact` with the reducer the compaction chooses -/
def compactPlan (P : Params) (c : State) : Except Fail (Option Plan) :=
  let flags := DBM.floodFill (c.tables.map fun t => candidateMd c.opts t.rd.md)
  let idx := (List.range c.tables.length).filter fun i => flags.getD i false
  if idx.isEmpty || decide ((idx.length : Int) ≤ c.opts.threshold) then .ok none else
  match idx with
  | [] => .ok none
  | first :: _ =>
    let sel := idx.filterMap fun i => c.tables[i]?
    match sel with
    | [] => .ok none
    | t0 :: _ =>
      -- `totalRecords` = Σ NumRecords of the selected tables; "tables that only hold dropped records are
      -- compacted too, the bloom filter needs a positive size though": `if numRecords == 0 { numRecords = 1 }`
      let numRecords := (sel.map (·.rd.md.numRecords)).sum
      match newWriter (if numRecords = 0 then 1 else numRecords) with
      | .error f => .error f
      | .ok _ =>
        match scanAll P sel with
        | .error e => .error (.compactOpen e)
        | .ok scans =>
          -- `startsAtOldestTable := len(selected) > 0 && selected[0]`
          let reduce := if flags.getD 0 false then Merge.scanReduceLatestWinsSkipTombstones
                        else scanReduceLatestWinsKeepTombstones
          match Merge.mergeCompact (scans.map scanInput) {} reduce with
          | (some e, _) => .error (.compactMerge e)
          | (none, wr) =>
            .ok (some { first := first, idx := idx, gens := sel.map (·.gen), gen := t0.gen, out := wr.out })

/-- `reflectCompactionResult`: the result takes the place of the first selected table, the other selected
tables leave the list -/
def reflect (ts : List LiveTbl) (pl : Plan) (merged : LiveTbl) : List LiveTbl :=
  ((List.range ts.length).zip ts).flatMap fun x =>
    if x.1 == pl.first then [merged] else if pl.idx.contains x.1 then [] else [x.2]

/-- one compaction cycle (`executeCompaction` + `reflectCompactionResult`): new state and the numbers of the
selected tables -/
def compactStep (P : Params) (c : State) : Except Fail (State × List Nat) :=
  match compactPlan P c with
  | .error f => .error f
  | .ok none => .ok (c, [])
  | .ok (some pl) =>
    match writeAndOpen P pl.gen (pl.out.map fun p => { key := p.1, value := p.2, fault := .none })
        .compactWrite .compactLoad with
    | .error f => .error f
    | .ok merged => .ok ({ c with tables := reflect c.tables pl merged }, pl.gens)

/-! ## lifecycle -/

/-- `Close`: rotate, the flusher drains -/
def close (P : Params) (c : State) : Except Fail (State × SRes) :=
  if !c.isOpen || c.closed then .ok (c, .db .notOpen)
  else
    match rotate P c with
    | .error f => .error f
    | .ok c1 =>
      match flushStep P c1 with
      | .error f => .error f
      | .ok c2 => .ok ({ c2 with closed := true }, .db .ok)

/-- `reconstructSSTables`: a new reader on every table directory -/
def reopenTables (P : Params) : List LiveTbl → Except Fail (List LiveTbl)
  | [] => .ok []
  | t :: ts =>
    match openTable P.comps .slice {} t.files t.bloom with
    | .error e => .error (.reopen e)
    | .ok (rd, idx) =>
      match reopenTables P ts with
      | .error f => .error f
      | .ok ts' => .ok ({ t with rd := rd, idx := idx } :: ts')

/-- a new `DB` object opened on the directory a clean `Close` left -/
def reopen (P : Params) (c : State) (o : DBM.Opts) : Except Fail State :=
  match reopenTables P c.tables with
  | .error f => .error f
  | .ok ts =>
    .ok { w := Mem.MemStore.empty, r := Mem.MemStore.empty, rAliasesW := true, flushPending := false,
          tables := ts, gen := (ts.map (·.gen)).foldl max 0, isOpen := true, closed := false, opts := o }

/-! ## programs -/

/-- the steps of `DBM.Step`; a call that may insert into the skip list carries the node height, a
compaction needs no sizes (they are read from the metadata of the byte-level tables) -/
inductive Step where
  | putB (k v : GoBytes) (rotateNow : Bool) (h : Nat)
  | putS (k v : Bytes) (rotateNow : Bool) (h : Nat)
  | delB (k : GoBytes) (h : Nat)
  | delS (k : Bytes) (h : Nat)
  | get (k : Bytes)
  | rotate
  | flush
  | compact
  | close
  | reopen (o : DBM.Opts)
  deriving Repr

/-- one step: new state, client-visible result (if the step is a client call), selected tables -/
def step (P : Params) (c : State) : Step → Except Fail (State × Option SRes × List Nat)
  | .putB k v rot h =>
    match putBytes P c k v rot h with
    | .error f => .error f
    | .ok (c', r) => .ok (c', some r, [])
  | .putS k v rot h =>
    match putStr P c k v rot h with
    | .error f => .error f
    | .ok (c', r) => .ok (c', some r, [])
  | .delB k h => let (c', r) := deleteBytes c k h; .ok (c', some r, [])
  | .delS k h => let (c', r) := deleteBytes c (some k) h; .ok (c', some r, [])
  | .get k => .ok (c, some (get c k), [])
  | .rotate =>
    if c.isOpen && !c.closed then
      match rotate P c with
      | .error f => .error f
      | .ok c' => .ok (c', none, [])
    else .ok (c, none, [])
  | .flush =>
    match flushStep P c with
    | .error f => .error f
    | .ok c' => .ok (c', none, [])
  | .compact =>
    if c.isOpen && !c.closed then
      match compactStep P c with
      | .error f => .error f
      | .ok (c', sel) => .ok (c', none, sel)
    else .ok (c, none, [])
  | .close =>
    match close P c with
    | .error f => .error f
    | .ok (c', r) => .ok (c', some r, [])
  | .reopen o =>
    if c.closed || !c.isOpen then
      match reopen P c o with
      | .error f => .error f
      | .ok c' => .ok (c', none, [])
    else .ok (c, none, [])

/-- a program: the outputs up to the first failure, and the failure (if any) -/
def run (P : Params) : State → List Step → List (Option SRes × List Nat) × Option Fail
  | _, [] => ([], none)
  | c, st :: rest =>
    match step P c st with
    | .error f => ([], some f)
    | .ok (c', r, sel) => let o := run P c' rest; ((r, sel) :: o.1, o.2)

def runState (P : Params) : State → List Step → Except Fail State
  | c, [] => .ok c
  | c, st :: rest =>
    match step P c st with
    | .error f => .error f
    | .ok (c', _, _) => runState P c' rest

/-! ## the literal (interleaved) loops

`flushMemstore` and `MergeCompact` call `WriteNext` between two `Next` calls of their iterator.  The steps
above collect the calls first; the literal loops are given here against the byte-level writer, and
`SST.StackRefine.flush_loop_literal` / `compact_loop_literal` show that they produce the same writer state
whenever the collected run is accepted (which `stack_no_step_fails` shows it always is). -/

/-- `writer.WriteNext(k, v)` of the byte-level writer, fault-free, as an `Except` (for `Mem.flushLoop`) -/
def sstWriteNext (cfg : SstCfg) (w : SstW) (k v : GoBytes) : Except WRes SstW :=
  match w.writeNext cfg (k.getD []) v .none with
  | (w', .ok) => .ok w'
  | (_, r) => .error r

/-- the loop of `MergeCompact` against the byte-level writer: iterator `Next`, then `WriteNext` -/
def compactLoopSst (cfg : SstCfg) (endErr : Nat → Option Err) (reduce : Merge.ReduceFn) :
    Nat → Merge.MCIter → SstW → Option Err × SstW
  | 0, _, w => (some .other, w)
  | fuel + 1, s, w =>
    match Merge.mcNext endErr reduce s with
    | (.done, _) => (none, w)
    | (.err e, _) => (some e, w)
    | (.item k v, s') =>
      match w.writeNext cfg (k.getD []) v .none with
      | (w', .ok) => compactLoopSst cfg endErr reduce fuel s' w'
      | (w', _) => (some .rejected, w')

/-! ## the L6 view of a program -/

/-- `TotalBytes` of the live tables, as the readers' metadata report them -/
def sizesOf (c : State) : List Nat := c.tables.map (·.rd.md.totalBytes)

/-- the L6 step a step stands for in a state: heights are forgotten, a compaction is given the sizes the
metadata report -/
def absStep (c : State) : Step → DBM.Step
  | .putB k v rot _ => .putB k v rot
  | .putS k v rot _ => .putS k v rot
  | .delB k _ => .delB k
  | .delS k _ => .delS k
  | .get k => .get k
  | .rotate => .rotate
  | .flush => .flush
  | .compact => .compact (sizesOf c)
  | .close => .close
  | .reopen o => .reopen o

/-- the L6 program of a program (following the run; after a failure the remaining steps keep the last state) -/
def absSteps (P : Params) : State → List Step → List DBM.Step
  | _, [] => []
  | c, st :: rest =>
    absStep c st :: absSteps P (match step P c st with | .ok (c', _, _) => c' | .error _ => c) rest

end Stack
end SST
