/-
L6-fs: SimpleDB over an ABSTRACT DISK — the crash model behind C02, C10, C13 (and the crash part of C17).
Code modelled as it is now (after the D11–D16 fixes): simpledb/db.go (PutBytes/DeleteBytes), flush.go,
compaction.go, sstable_manager.go (reflectCompactionResult), recovery.go, wal/appender.go, wal/replayer.go.

The disk holds three kinds of objects:
* table directories `sstable_%015d`, kept in name (= number) order.  A directory is either `complete cells`
  = the table reader LOADS it and it shows `cells`, or `part hasMeta` = it exists but does NOT load —
  `part false`: meta.pb.bin missing or empty (`isUnfinishedTable`: recovery removes it), `part true`: the metadata
  is there but another file is gone (a half-executed RemoveAll of a finished table; recovery fails on it).
  As coded now: recovery discards a directory whose meta.pb.bin EXISTS AND IS EMPTY before trying to load it
  (`hasEmptyMetadata`: the table writer creates the metadata file when it opens and fills it with its last write),
  whatever the state of the other files: that is `part false`, too.
  QUIRK (as coded): the reader does not need a metadata FILE.  A directory without meta.pb.bin whose index.rio and
  data.rio have their headers loads as a "version 0" (legacy) table and recovery keeps it: `complete cells` with
  whatever the version-0 reader shows.  This happens (a) in a table writer between the creation of data.rio and
  the creation of meta.pb.bin — the files hold no records yet: `tblLoadable g []`, followed by `tblMetaCreate g` —
  and (b) when the `RemoveAll` of a COMPLETE table (an input of a flagged compaction) unlinks meta.pb.bin before
  index.rio / data.rio: `tblLoadable g junk` with mis-parsed content supplied from outside (`AStep.junk`, `detour`);
  such a directory is still listed by the flagged compaction.  An UNFINISHED table is removed by
  `removeUnfinishedTable`: index.rio first — without it the directory can never load again —, then the rest;
* WAL files `wal/%06d.wal` in number order: header written or not, the complete records, and whether a piece
  of a further record follows (torn tail);
* compaction directories `sstable_compaction*`: the table being written and the success flag file
  (`compaction_successful`, readable or not).

An event `Ev` is one completed file-system call at the granularity that matters for recovery; `applyEv` is
total.  A crash image is the disk after any prefix of the events of a session.  Kill-9 model: a completed call
is retained, each call is atomic, no power loss.  Core Lean only.
-/
import SST.Model.DB

namespace SST
namespace FS
open DBM

/-! ## the abstract disk -/

/-- one WAL record (`WalMutation`): an upsert or a tombstone -/
inductive Mutation where
  | put (k v : Bytes)
  | del (k : Bytes)
  deriving DecidableEq, Repr

inductive TableDir where
  | part (hasMeta : Bool)
  | complete (cells : Layer)
  deriving DecidableEq, Repr

structure WalFile where
  num : Nat
  header : Bool := true
  recs : List Mutation := []
  torn : Bool := false
  deriving DecidableEq, Repr

/-- `CompactionMetadata`: the numbers of the compacted tables and the number the result is renamed to -/
structure CompMeta where
  inputs : List Nat
  replacement : Nat
  deriving DecidableEq, Repr

structure CompDir where
  id : Nat
  out : TableDir := .part false
  flag : Option CompMeta := none
  deriving DecidableEq, Repr

structure Disk where
  tables : List (Nat × TableDir) := []
  walDir : Bool := false
  wal : List WalFile := []
  comps : List CompDir := []
  deriving DecidableEq, Repr

def isComplete : TableDir → Bool
  | .complete _ => true
  | _ => false

def isPartMeta : TableDir → Bool
  | .part true => true
  | _ => false

def isFlagged (c : CompDir) : Bool := c.flag.isSome

/-! ### directory listings as sorted association lists -/

def lookupT (g : Nat) (ts : List (Nat × TableDir)) : Option TableDir := (ts.find? (·.1 == g)).map (·.2)

def updT (g : Nat) (f : TableDir → TableDir) (ts : List (Nat × TableDir)) : List (Nat × TableDir) :=
  ts.map fun p => if p.1 == g then (p.1, f p.2) else p

def eraseT (g : Nat) (ts : List (Nat × TableDir)) : List (Nat × TableDir) := ts.filter (·.1 != g)

/-- a new directory entry, at its place in name order; an existing name is left alone -/
def insertT (g : Nat) (t : TableDir) : List (Nat × TableDir) → List (Nat × TableDir)
  | [] => [(g, t)]
  | p :: r => if g < p.1 then (g, t) :: p :: r else if g = p.1 then p :: r else p :: insertT g t r

def updW (n : Nat) (f : WalFile → WalFile) (fs : List WalFile) : List WalFile :=
  fs.map fun x => if x.num == n then f x else x

def eraseW (n : Nat) (fs : List WalFile) : List WalFile := fs.filter (·.num != n)

def insertW (x : WalFile) : List WalFile → List WalFile
  | [] => [x]
  | y :: r => if x.num < y.num then x :: y :: r else if x.num = y.num then y :: r else y :: insertW x r

def updC (id : Nat) (f : CompDir → CompDir) (cs : List CompDir) : List CompDir :=
  cs.map fun c => if c.id == id then f c else c

def eraseC (id : Nat) (cs : List CompDir) : List CompDir := cs.filter (·.id != id)

/-- one unlink inside a `RemoveAll` of a table directory: whatever file it was, the table no longer loads;
`keepMeta` says whether meta.pb.bin is still there afterwards -/
def TableDir.unlink (keepMeta : Bool) : TableDir → TableDir
  | .complete _ => .part keepMeta
  | .part m => .part (m && keepMeta)

/-! ## events -/

inductive Ev where
  | walCreate (n : Nat)                      -- open(O_CREATE) of wal/n: empty file
  | walHeader (n : Nat)                      -- the file header has been written
  | walAppend (n : Nat) (m : Mutation)       -- a complete record has reached the file (also completes a torn one)
  | walTorn (n : Nat)                        -- a piece of the next record has reached the file
  | walClose (n : Nat)
  | walUnlink (n : Nat)
  | tblMkdir (g : Nat)
  | tblProgress (g : Nat)                    -- any create/write that leaves the table incomplete
  | tblLoadable (g : Nat) (cells : Layer)    -- index.rio + data.rio load and there is NO metadata file: a version-0 table
  | tblMetaCreate (g : Nat)                  -- the (empty) metadata file is created: an unfinished table again
  | tblComplete (g : Nat) (cells : Layer)    -- the metadata write (the last one of a table writer)
  | compMkdir (id : Nat)
  | compProgress (id : Nat)
  | compComplete (id : Nat) (cells : Layer)  -- writer.Close of the merged table
  | compFlag (id : Nat) (cm : CompMeta)    -- the success flag becomes readable
  | tblUnlinkPart (g : Nat) (keepMeta : Bool) -- one unlink of a RemoveAll of a table directory
  | tblRmdir (g : Nat)
  | compRename (id g : Nat)                  -- rename(compaction dir → table dir g)
  | compUnlinkPart (id : Nat)                -- one unlink of a RemoveAll of a compaction directory
  | compRmdir (id : Nat)
  | walDirRemove
  | walDirCreate
  deriving DecidableEq, Repr

def applyEv (d : Disk) : Ev → Disk
  | .walCreate n =>
    if d.walDir then { d with wal := insertW { num := n, header := false } d.wal } else d
  | .walHeader n => { d with wal := updW n (fun x => { x with header := true }) d.wal }
  | .walAppend n m =>
    { d with wal := updW n (fun x => if x.header then { x with recs := x.recs ++ [m], torn := false } else x) d.wal }
  | .walTorn n => { d with wal := updW n (fun x => { x with torn := true }) d.wal }
  | .walClose _ => d
  | .walUnlink n => { d with wal := eraseW n d.wal }
  | .tblMkdir g => { d with tables := insertT g (.part false) d.tables }
  | .tblProgress _ => d
  | .tblLoadable g cells => { d with tables := updT g (fun _ => .complete cells) d.tables }
  | .tblMetaCreate g => { d with tables := updT g (fun _ => .part false) d.tables }
  | .tblComplete g cells => { d with tables := updT g (fun _ => .complete cells) d.tables }
  | .compMkdir id =>
    if d.comps.any (·.id == id) then d else { d with comps := d.comps ++ [{ id := id }] }
  | .compProgress _ => d
  | .compComplete id cells => { d with comps := updC id (fun c => { c with out := .complete cells }) d.comps }
  | .compFlag id cm => { d with comps := updC id (fun c => { c with flag := some cm }) d.comps }
  | .tblUnlinkPart g keep => { d with tables := updT g (TableDir.unlink keep) d.tables }
  | .tblRmdir g => { d with tables := eraseT g d.tables }
  | .compRename id g =>
    match d.comps.find? (·.id == id) with
    | none => d
    | some c =>
      if (lookupT g d.tables).isSome then d
      else { d with comps := eraseC id d.comps, tables := insertT g c.out d.tables }
  | .compUnlinkPart id => { d with comps := updC id (fun c => { c with out := .part false, flag := none }) d.comps }
  | .compRmdir id => { d with comps := eraseC id d.comps }
  | .walDirRemove => if d.wal.isEmpty then { d with walDir := false } else d
  | .walDirCreate => { d with walDir := true }

def applyEvs (d : Disk) (es : List Ev) : Disk := es.foldl applyEv d

/-! ## recovery (`Open`): repairCompactions, reconstructSSTables, replayAndSetupWriteAheadLog -/

inductive RecErr where
  | tableLoad    -- a table directory with metadata that does not load (reconstructSSTables returns the error)
  | walReplay    -- a WAL file other than the last one has no header or a cut record (Replay returns the error)
  deriving DecidableEq, Repr

def RecErr.toString : RecErr → String
  | .tableLoad => "tableload"
  | .walReplay => "walreplay"

/-- the tables a flagged compaction deletes: its inputs and whatever sits at the replacement path -/
def rmInputs (m : CompMeta) (ts : List (Nat × TableDir)) : List (Nat × TableDir) :=
  ts.filter fun p => !(m.inputs.contains p.1 || p.1 == m.replacement)

/-- finishing one compaction directory: nothing for an unflagged one (it is deleted), for a flagged one the
inputs go and the output is renamed to the replacement path -/
def finishComp (ts : List (Nat × TableDir)) (c : CompDir) : List (Nat × TableDir) :=
  match c.flag with
  | none => ts
  | some m => insertT m.replacement c.out (rmInputs m ts)

/-- `repairCompactions` -/
def phase1 (d : Disk) : Disk := { d with comps := [], tables := d.comps.foldl finishComp d.tables }

/-- `reconstructSSTables`: every table directory is loaded in name order; one that fails to load is removed if it
has no metadata (unfinished flush), otherwise `Open` fails -/
def phase2 (d : Disk) : Except RecErr Disk :=
  if d.tables.any (fun p => isPartMeta p.2) then .error .tableLoad
  else .ok { d with tables := d.tables.filter (fun p => isComplete p.2) }

def tblsOf (ts : List (Nat × TableDir)) : List Tbl :=
  ts.filterMap fun p => match p.2 with
    | .complete c => some { gen := p.1, cells := c }
    | .part _ => none

/-- `Replayer.Replay` tolerates a missing header and a cut final record in the LAST file only -/
def walReadable : List WalFile → Bool
  | [] => true
  | [_] => true
  | f :: r => f.header && !f.torn && walReadable r

def fileMuts (f : WalFile) : List Mutation := if f.header then f.recs else []
def walMuts (fs : List WalFile) : List Mutation := fs.flatMap fileMuts

def Mutation.apply (l : Layer) : Mutation → Layer
  | .put k v => l.set k (some v)
  | .del k => l.set k none

/-- replaying records into a memstore -/
def applyMuts (l : Layer) (ms : List Mutation) : Layer := ms.foldl Mutation.apply l

def maxGen (ts : List Tbl) : Nat := (ts.map (·.gen)).foldl max 0

def freshWal : List WalFile := [{ num := 0 }]

/-- `replayAndSetupWriteAheadLog`: replay every file in name order; if anything was replayed, flush the memstore
into a new newest table; then clear the WAL directory and start file 000000.wal -/
def phase3 (d : Disk) (o : Opts) : Except RecErr (Disk × State) :=
  if !walReadable d.wal then .error .walReplay else
  let tbls := tblsOf d.tables
  let g := maxGen tbls
  let ms := walMuts d.wal
  let mem := applyMuts [] ms
  if ms.isEmpty then
    .ok ({ d with walDir := true, wal := freshWal },
         { w := [], r := [], flushPending := false, tables := tbls, gen := g, isOpen := true, closed := false,
           opts := o })
  else
    .ok ({ d with tables := insertT (g + 1) (.complete mem) d.tables, walDir := true, wal := freshWal },
         { w := [], r := mem, flushPending := false, tables := tbls ++ [{ gen := g + 1, cells := mem }],
           gen := g + 1, isOpen := true, closed := false, opts := o })

/-- `Open` on a directory image: the disk it leaves and the state of the opened database -/
def recover (d : Disk) (o : Opts := {}) : Except RecErr (Disk × State) :=
  match phase2 (phase1 d) with
  | .error e => .error e
  | .ok d2 => phase3 d2 o

/-! ### the same recovery as a sequence of events (so that it can be interrupted) -/

/-- the next call of a `RemoveAll` of a table directory.  The chain complete → part true → part false → gone
visits every abstract state that any unlink order can produce (an order that unlinks the metadata first skips
the second state; further unlinks of a `part false` directory change nothing and are not listed). -/
def rmTblEv (g : Nat) : TableDir → Ev
  | .complete _ => .tblUnlinkPart g true
  | .part true => .tblUnlinkPart g false
  | .part false => .tblRmdir g

/-- the first input (in metadata order, the replacement excluded) that still exists -/
def nextInput (m : CompMeta) (ts : List (Nat × TableDir)) : Option (Nat × TableDir) :=
  m.inputs.findSome? fun g => if g != m.replacement then (lookupT g ts).map (g, ·) else none

/-- what `repairCompactions` / `reconstructSSTables` do next on this disk (`none`: nothing left to do, or stuck
on a table that does not load).  Both phases are memoryless: unflagged compaction directories are deleted first,
then each flagged one is finished (other inputs, replacement path, rename LAST), then unfinished tables go. -/
def cleanStep (d : Disk) : Option Ev :=
  match d.comps.find? (fun c => !isFlagged c) with
  | some c =>
    match c.out with
    | .part false => some (.compRmdir c.id)
    | _ => some (.compUnlinkPart c.id)
  | none =>
    match d.comps with
    | c :: _ =>
      match c.flag with
      | none => none
      | some m =>
        match nextInput m d.tables with
        | some (g, t) => some (rmTblEv g t)
        | none =>
          match lookupT m.replacement d.tables with
          | some t => some (rmTblEv m.replacement t)
          | none => some (.compRename c.id m.replacement)
    | [] =>
      match d.tables.find? (fun p => !isComplete p.2) with
      | some (g, .part false) => some (.tblRmdir g)
      | _ => none

def wT : TableDir → Nat
  | .complete _ => 3
  | .part true => 2
  | .part false => 1

/-- number of clean-up calls still possible: every `cleanStep` event lowers it -/
def mu (d : Disk) : Nat := (d.tables.map fun p => wT p.2).sum + (d.comps.map fun c => wT c.out + 2).sum

def cleanRun : Nat → Disk → List Ev
  | 0, _ => []
  | f + 1, d =>
    match cleanStep d with
    | none => []
    | some e => e :: cleanRun f (applyEv d e)

def cleanEvents (d : Disk) : List Ev := cleanRun (mu d) d

def phase3Events (d : Disk) : List Ev :=
  (if d.walDir then [] else [.walDirCreate]) ++
  if !walReadable d.wal then [] else
  let g := maxGen (tblsOf d.tables)
  let ms := walMuts d.wal
  -- the recovery flush: directory, index.rio + data.rio with headers (loads as an empty legacy table), empty
  -- metadata file, the records, the metadata
  (if ms.isEmpty then [] else [.tblMkdir (g + 1), .tblLoadable (g + 1) [], .tblMetaCreate (g + 1), .tblProgress (g + 1),
      .tblComplete (g + 1) (applyMuts [] ms)]) ++
  -- the log files go oldest first, then the directory is removed and re-created with a fresh file
  d.wal.map (fun f => Ev.walUnlink f.num) ++ [.walDirRemove, .walDirCreate, .walCreate 0, .walHeader 0]

def lookupJ (junk : List (Nat × Layer)) (g : Nat) : Option Layer := (junk.find? (·.1 == g)).map (·.2)

/-- `RemoveAll` orders that unlink meta.pb.bin first: before the first unlink of a COMPLETE table (recovery removes
those only as inputs / replacement of a flagged compaction) the directory may be seen without metadata file but with
loadable index.rio / data.rio, i.e. as a legacy table showing `junk g`.  (Unfinished tables are removed index.rio
first, `removeUnfinishedTable`: none of their intermediate states loads.) -/
def detourPre (junk : List (Nat × Layer)) (g : Nat) : List Ev :=
  match lookupJ junk g with
  | none => []
  | some j => [.tblLoadable g j]

def detourFor (junk : List (Nat × Layer)) : Ev → List Ev
  | .tblUnlinkPart g true => detourPre junk g
  | _ => []

def detour (junk : List (Nat × Layer)) : Disk → List Ev → List Ev
  | _, [] => []
  | d, e :: es => detourFor junk e ++ e :: detour junk (applyEv d e) es

/-- the calls `Open` makes on this disk, in order (`junk`: see `detour`) -/
def recoverEvents (d : Disk) (junk : List (Nat × Layer) := []) : List Ev :=
  detour junk d (cleanEvents d) ++
  match phase2 (phase1 d) with
  | .error _ => []
  | .ok d2 => phase3Events d2

/-! ## sessions at event granularity

Volatile state of the process: the L6 state plus the WAL appender's file numbers and (asynchronous WAL only) the
records that sit in the appender's write buffer.  Every high-level step of `DBM.step` is given its event list;
a client call is acknowledged after its last event.  Background steps (flusher, compactor) are placed at
operation boundaries, like in `DBM`: the finer interleavings with client calls are constrained by the locks and
the hand-off channel, and are sampled by the real runs. -/

structure Vol where
  s : State := {}
  walCur : Nat := 0            -- number of the file the appender writes
  walOld : Option Nat := none  -- file handed to the flusher together with `s.r`
  queue : List Mutation := []  -- asynchronous WAL: records appended but not yet written
  deriving Repr

/-- `executeFlush` -/
def flushEvs (v : Vol) : List Ev × Vol :=
  if !v.s.flushPending then ([], v)
  else if v.s.r.isEmpty then ([], { v with s := flushStep v.s, walOld := none })   -- skipped: the WAL file stays
  else
    let g := v.s.gen + 1
    ([.tblMkdir g, .tblLoadable g [], .tblMetaCreate g, .tblProgress g, .tblComplete g v.s.r] ++
       (match v.walOld with | some n => [.walUnlink n] | none => []),
     { v with s := flushStep v.s, walOld := none })

/-- a buffer flush writing these records; each may be cut by the end of a previous write -/
def drainEvs (c : Nat) (q : List Mutation) : List Ev := q.flatMap fun m => [.walTorn c, .walAppend c m]

/-- `rotateWalAndFlushMemstore`: (the flusher finishes the previous store,) the current file is closed — which
writes out its buffer —, the next file is created with its header, the write store is handed over -/
def rotateEvs (v : Vol) : List Ev × Vol :=
  let (e1, v1) := flushEvs v
  (e1 ++ drainEvs v1.walCur v1.queue ++
     [.walClose v1.walCur, .walCreate (v1.walCur + 1), .walHeader (v1.walCur + 1)],
   { s := rotate v.s, walCur := v1.walCur + 1, walOld := some v1.walCur, queue := [] })

/-- logging one record.  Synchronous: written (possibly in two pieces) and fsynced before returning.
Asynchronous: buffered; `drain` records leave the buffer now and, if `torn`, a piece of the next one. -/
def logEvs (async : Bool) (v : Vol) (m : Mutation) (drain : Nat) (torn : Bool) : List Ev × Vol :=
  if async then
    let q := v.queue ++ [m]
    (drainEvs v.walCur (q.take drain) ++ (if torn && decide (drain < q.length) then [.walTorn v.walCur] else []),
     { v with queue := q.drop drain })
  else ([.walTorn v.walCur, .walAppend v.walCur m], v)

def usable (s : State) : Bool := s.isOpen && !s.closed

def freshId (d : Disk) : Nat := (d.comps.map (·.id)).foldl max 0 + 1

/-- the calls of a `RemoveAll` of a complete table directory; an order that unlinks the metadata first passes
through a directory that loads as a legacy table showing `jo` -/
def rmAll (g : Nat) (jo : Option Layer) : List Ev :=
  (match jo with | some j => [Ev.tblLoadable g j] | none => []) ++
    [.tblUnlinkPart g true, .tblUnlinkPart g false, .tblRmdir g]

/-- `executeCompaction` + `reflectCompactionResult` -/
def compactEvs (d : Disk) (v : Vol) (sizes : List Nat) (junk : List (Nat × Layer) := []) : List Ev × Vol :=
  let (s', sel) := compactStep v.s sizes
  match sel with
  | [] => ([], v)
  | r :: _ =>
    let id := freshId d
    let cells := match s'.tables.find? (·.gen == r) with
      | some t => t.cells
      | none => []
    ([.compMkdir id, .compProgress id, .compComplete id cells, .compProgress id,
       .compFlag id { inputs := sel, replacement := r }] ++
       sel.flatMap (fun g => rmAll g (lookupJ junk g)) ++
       [.compRename id r],
     { v with s := s' })

/-- a step with the two scheduling parameters of the asynchronous WAL (ignored by the synchronous one) -/
structure AStep where
  st : Step
  drain : Nat := 0
  torn : Bool := false
  junk : List (Nat × Layer) := []   -- per table number: what a half-removed directory without metadata file shows
  deriving Repr

/-- the mutation a client call logs, if the call is accepted in this state -/
def stepMut (s : State) : Step → Option Mutation
  | .putB k v _ =>
    match k, v with
    | some kb, some vb => if kb.isEmpty || vb.isEmpty || !usable s then none else some (.put kb vb)
    | _, _ => none
  | .putS k v _ => if k.isEmpty || v.isEmpty || !usable s then none else some (.put k v)
  | .delB k => if usable s then some (.del (k.getD [])) else none
  | .delS k => if usable s then some (.del k) else none
  | _ => none

/-- does the step rotate the memstore (and thereby close the current WAL file)? -/
def stepRotates (s : State) : Step → Bool
  | .putB k v rot => rot && (stepMut s (.putB k v rot)).isSome
  | .putS k v rot => rot && (stepMut s (.putS k v rot)).isSome
  | .rotate => usable s
  | .close => usable s
  | _ => false

def writeEvs (async : Bool) (v : Vol) (m : Mutation) (rot : Bool) (drain : Nat) (torn : Bool)
    : List Ev × Vol :=
  let (e1, v1) := logEvs async { v with s := { v.s with w := Mutation.apply v.s.w m } } m drain torn
  if rot then
    let (e2, v2) := rotateEvs v1
    (e1 ++ e2, v2)
  else (e1, v1)

/-- one step of a session: the calls it makes, in order, and the volatile state afterwards -/
def fsStep (async : Bool) (d : Disk) (v : Vol) (a : AStep) : List Ev × Vol :=
  match a.st with
  | .putB k val rot =>
    (match stepMut v.s (.putB k val rot) with
     | some m => writeEvs async v m rot a.drain a.torn
     | none => ([], v))
  | .putS k val rot =>
    (match stepMut v.s (.putS k val rot) with
     | some m => writeEvs async v m rot a.drain a.torn
     | none => ([], v))
  | .delB k =>
    (match stepMut v.s (.delB k) with
     | some m => writeEvs async v m false a.drain a.torn
     | none => ([], v))
  | .delS k =>
    (match stepMut v.s (.delS k) with
     | some m => writeEvs async v m false a.drain a.torn
     | none => ([], v))
  | .get _ => ([], v)
  | .rotate => if usable v.s then rotateEvs v else ([], v)
  | .flush => flushEvs v
  | .compact sizes => if usable v.s then compactEvs d v sizes a.junk else ([], v)
  | .close =>
    if usable v.s then
      let (e1, v1) := rotateEvs v
      let (e2, v2) := flushEvs v1
      (e1 ++ e2 ++ [.walClose v2.walCur], { v2 with s := { v2.s with closed := true } })
    else ([], v)
  | .reopen o =>
    if v.s.closed || !v.s.isOpen then
      match recover d o with
      | .ok (_, s') => (recoverEvents d a.junk, { s := s', walCur := 0, walOld := none, queue := [] })
      | .error _ => (recoverEvents d a.junk, v)
    else ([], v)

/-- the per-step event lists of a session -/
def sessionFrom (async : Bool) : Disk → Vol → List AStep → List (List Ev)
  | _, _, [] => []
  | d, v, a :: rest =>
    let (es, v') := fsStep async d v a
    es :: sessionFrom async (applyEvs d es) v' rest

def volAfter (async : Bool) : Disk → Vol → List AStep → Disk × Vol
  | d, v, [] => (d, v)
  | d, v, a :: rest =>
    let (es, v') := fsStep async d v a
    volAfter async (applyEvs d es) v' rest

/-- number of leading steps all of whose events are among the first `n` events: the acknowledged ones -/
def ackedCount : List (List Ev) → Nat → Nat
  | [], _ => 0
  | es :: rest, n => if es.length ≤ n then 1 + ackedCount rest (n - es.length) else 0

def sync (steps : List Step) : List AStep := steps.map fun st => { st := st }

end FS
end SST
