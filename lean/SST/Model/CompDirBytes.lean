/-
L2/L6 bridge, part 2: the BYTES of one compaction directory `sstable_compaction<id>/` — the table being written
(index.rio, data.rio, bloom.bf.gz, meta.pb.bin: SST/Model/TableDirBytes.lean) plus the success flag
`compaction_successful` — under the file-system calls of `executeCompaction`, and how `repairCompactions` classifies
every image: the refinement step between the byte level and `FS.CompDir {id, out, flag}` of SST/Model/FS.lean.

Code modelled as it is now:
* simpledb/compaction.go `executeCompaction`: `os.MkdirTemp(base, "sstable_compaction")`, `NewSSTableStreamWriter`
  into that directory + `Open`, one `WriteNext` per merged record, `writer.Close()` (so the table is complete: commit
  036cc7d), THEN `saveCompactionMetadata`:
  - `rProto.NewWriter(Path(dir/compaction_successful), WriteBufferSizeBytes(4096))`: `os.OpenFile(O_WRONLY|O_CREATE)`
    (the file exists, EMPTY), `recordio.NewFileWriter(File(f))` closes that handle and opens the path again
    (`O_WRONLY|O_CREATE`, no truncation);
  - `Open`: the 8 file-header bytes go into the buffered writer and are flushed at once: ONE `write` of 8 bytes;
  - `Write(metadata)`: `proto.Marshal` (fails on a string that is not UTF-8: nothing is written then), the record
    header and the payload are handed to the buffered writer: a `write` call happens only when its buffer fills
    (recordio/bufio_vendor.go), i.e. some bytes of the stream up to the END OF THE RECORD may reach the file;
  - `Close` (deferred): ONE `write` of whatever is still buffered, `close`.
  The flush points are a PARAMETER (`sizes`: the sizes of the `write` calls during `Write`, each clipped to what has
  been handed to the buffered writer), as in TableDirBytes: every buffer size is covered.
* simpledb/proto/compaction_metadata.proto:
    CompactionMetadata { string writePath = 1; string replacementPath = 2; repeated string sstablePaths = 3; }
  proto3: a singular string is omitted when empty; EVERY element of the repeated field is written (also an empty
  one); unmarshal: singular = last occurrence wins, repeated = all occurrences in order, every string must be valid
  UTF-8 (`utf8.Valid`), unknown fields are skipped.
* simpledb/recovery.go `repairCompactions`, per directory `sstable_compaction*`: `os.Stat(flag)`, `rProto.NewReader`,
  `Open` (file header), `ReadNext` (one record), unmarshal — ANY failure = unfinished compaction = the directory is
  deleted; a readable flag = `RemoveAll` of every `SstablePaths` entry other than `ReplacementPath`, `RemoveAll` of
  `ReplacementPath`, `Rename(WritePath, ReplacementPath)`.  (V1–V3 flag files: the legacy readers are not modelled
  here: `openSeq` answers `.other`; the writer only writes version 4.)

Names.  The abstract `FS.CompMeta` holds table NUMBERS; the flag holds directory NAMES relative to the database
directory.  `tableName g` = `sstable_%015d`, `compName id` = `sstable_compaction<decimal>` (what `MkdirTemp` appends
is a decimal number).  ASSUMPTION of the abstraction (`Canonical`): the paths in a readable flag are exactly such
names — `WritePath` the name of the directory that holds the flag, the others table names; the code that writes the
flag guarantees it (`filepath.Base` of the selected table paths / of the temp folder).  A name that is not of this
form does not resolve (`tableOfName = none`): `repairBytes` answers `none` = outside the model.
Kill-9 model: each call is atomic, a completed call is retained.  Core Lean only.
-/
import SST.Model.TableDirBytes
namespace SST
namespace CompDir
open Generated

/-! ## `CompactionMetadata` on the wire -/

/-- the message as stored: three strings as bytes -/
structure RawMeta where
  writePath : Bytes := []
  replacementPath : Bytes := []
  sstablePaths : List Bytes := []
  deriving DecidableEq, Repr

def inRange (c lo hi : UInt8) : Bool := lo ≤ c && c ≤ hi

/-- `utf8.Valid` (unicode/utf8: the `first` table and `acceptRanges`) -/
def utf8Valid : Bytes → Bool
  | [] => true
  | c :: rest =>
    if c < 0x80 then utf8Valid rest
    else if inRange c 0xC2 0xDF then
      match rest with
      | c1 :: r => inRange c1 0x80 0xBF && utf8Valid r
      | _ => false
    else if inRange c 0xE0 0xEF then
      match rest with
      | c1 :: c2 :: r =>
        inRange c1 (if c = 0xE0 then 0xA0 else 0x80) (if c = 0xED then 0x9F else 0xBF) && inRange c2 0x80 0xBF &&
          utf8Valid r
      | _ => false
    else if inRange c 0xF0 0xF4 then
      match rest with
      | c1 :: c2 :: c3 :: r =>
        inRange c1 (if c = 0xF0 then 0x90 else 0x80) (if c = 0xF4 then 0x8F else 0xBF) && inRange c2 0x80 0xBF &&
          inRange c3 0x80 0xBF && utf8Valid r
      | _ => false
    else false

def RawMeta.valid (m : RawMeta) : Bool :=
  utf8Valid m.writePath && utf8Valid m.replacementPath && m.sstablePaths.all utf8Valid

/-- one element of a repeated string field: always written, also when empty -/
def pbRepField (num : Nat) (b : Bytes) : Bytes := pbTag num 2 ++ uvarintEnc b.length ++ b

/-- `proto.Marshal(&CompactionMetadata{…})`, fields in number order -/
def encCompMeta (m : RawMeta) : Bytes :=
  pbBytesField 1 m.writePath ++ pbBytesField 2 m.replacementPath ++ (m.sstablePaths.map (pbRepField 3)).flatten

def compMetaSchema : Nat → Option PbKind
  | 1 => some .bytes
  | 2 => some .bytes
  | 3 => some .bytes
  | _ => none

/-- a singular string: the last occurrence, "" when absent -/
def strOf (fs : PbFields) (num : Nat) : Bytes := (pbGetBytes fs num).getD []

/-- a repeated string: every occurrence, in wire order -/
def repOf (fs : PbFields) (num : Nat) : List Bytes :=
  fs.filterMap fun p =>
    if p.1 = num then
      match p.2 with
      | .bytes b => some b
      | .varint _ => none
    else none

/-- every string that was stored passed `utf8.Valid` (the decoder checks each occurrence when it consumes it) -/
def fieldsUtf8 (fs : PbFields) : Bool :=
  fs.all fun p =>
    match p.2 with
    | .bytes b => utf8Valid b
    | .varint _ => true

/-- `proto.Unmarshal(b, &CompactionMetadata{})`: `none` = it returns an error -/
def decCompMeta (b : Bytes) : Option RawMeta :=
  match pbDecode compMetaSchema b with
  | (fs, none) =>
    if fieldsUtf8 fs then
      some { writePath := strOf fs 1, replacementPath := strOf fs 2, sstablePaths := repOf fs 3 }
    else none
  | (_, some _) => none

/-! ## the flag file -/

/-- `compaction_successful`: `none` = absent, `some bytes` = its content -/
abbrev FlagImage := Option Bytes

/-- the one record of the flag file (no compression) -/
def flagRecord (m : RawMeta) : Bytes := encRecord none (some (encCompMeta m))

/-- the complete flag file -/
def flagBytes (m : RawMeta) : Bytes := fileHeader currentVersion 0 ++ flagRecord m

inductive FlagCall where
  | create                -- `open(O_WRONLY|O_CREATE)`: an existing file keeps its content
  | write (bs : Bytes)    -- one `write` (the writer only appends)
  | close
  | unlink
  deriving DecidableEq, Repr

def applyFlagCall (f : FlagImage) : FlagCall → FlagImage
  | .create => some (f.getD [])
  | .write bs => f.map (· ++ bs)
  | .close => f
  | .unlink => none

def applyFlagCalls (f : FlagImage) (cs : List FlagCall) : FlagImage := cs.foldl applyFlagCall f

def FlagCall.isWrite : FlagCall → Bool
  | .write _ => true
  | _ => false

/-- `write` calls while the buffered writer holds the stream up to `avail`: `w` bytes are in the file; each requested
size is clipped to what is buffered (an empty write is no call) -/
def emitF (stream : Bytes) (avail : Nat) : List Nat → Nat → List FlagCall × Nat
  | [], w => ([], w)
  | n :: ns, w =>
    let m := min n (avail - w)
    let r := emitF stream avail ns (w + m)
    (if m = 0 then r.1 else .write ((stream.drop w).take m) :: r.1, r.2)

/-- `NewWriter` + `Open` of `saveCompactionMetadata` -/
def flagOpenCalls : List FlagCall := [.create, .close, .create, .write (fileHeader currentVersion 0)]

/-- `saveCompactionMetadata`: `NewWriter`, `Open`, `Write`, `Close` -/
def flagCalls (sizes : List Nat) (m : RawMeta) : List FlagCall :=
  if m.valid then
    let F := flagBytes m
    let e := emitF F F.length sizes fileHeaderSize
    flagOpenCalls ++ e.1 ++ (if (F.drop e.2).isEmpty then [] else [.write (F.drop e.2)]) ++ [.close]
  else flagOpenCalls ++ [.close]     -- `proto.Marshal` failed: `Write` returns the error, the deferred `Close` runs

/-- the reading code of `repairCompactions`: `Stat`, `NewReader`, `Open`, `ReadNext`, unmarshal; any failure = `none` -/
def readFlag (comps : Nat → Compression) : FlagImage → Option RawMeta
  | none => none
  | some file =>
    match openSeq comps file with
    | .error _ => none
    | .ok (c, s) =>
      match readNextS c s with
      | .error _ => none
      | .ok (r, _) => decCompMeta (r.getD [])

/-! ## directory names ↔ numbers -/

/-- "sstable_" -/
def tablePrefix : Bytes := [0x73, 0x73, 0x74, 0x61, 0x62, 0x6c, 0x65, 0x5f]
/-- "sstable_compaction" -/
def compPrefix : Bytes := tablePrefix ++ [0x63, 0x6f, 0x6d, 0x70, 0x61, 0x63, 0x74, 0x69, 0x6f, 0x6e]

/-- decimal digits, most significant first (`%d`) -/
def decDigits (n : Nat) : Bytes :=
  if n < 10 then [UInt8.ofNat (48 + n)] else decDigits (n / 10) ++ [UInt8.ofNat (48 + n % 10)]
decreasing_by omega

/-- `%0<k>d` -/
def padZeros (k : Nat) (ds : Bytes) : Bytes := List.replicate (k - ds.length) 48 ++ ds

/-- `fmt.Sprintf("sstable_%015d", g)` -/
def tableName (g : Nat) : Bytes := tablePrefix ++ padZeros 15 (decDigits g)

/-- `sstable_compaction` + the decimal number `os.MkdirTemp` appended -/
def compName (id : Nat) : Bytes := compPrefix ++ decDigits id

def digitVal (d : UInt8) : Option Nat := if 48 ≤ d ∧ d ≤ 57 then some (d.toNat - 48) else none

def parseDigits : Bytes → Nat → Option Nat
  | [], acc => some acc
  | d :: ds, acc =>
    match digitVal d with
    | some v => parseDigits ds (acc * 10 + v)
    | none => none

def parseNat (ds : Bytes) : Option Nat := if ds.isEmpty then none else parseDigits ds 0

/-- the table directory a path names: only the canonical name of a table resolves -/
def tableOfName (p : Bytes) : Option Nat :=
  if p.take tablePrefix.length = tablePrefix then
    match parseNat (p.drop tablePrefix.length) with
    | some g => if tableName g = p then some g else none
    | none => none
  else none

/-- the compaction directory a path names -/
def compOfName (p : Bytes) : Option Nat :=
  if p.take compPrefix.length = compPrefix then
    match parseNat (p.drop compPrefix.length) with
    | some id => if compName id = p then some id else none
    | none => none
  else none

/-- the flag of compaction directory `id` for the abstract metadata `cm` -/
def rawOf (id : Nat) (cm : FS.CompMeta) : RawMeta :=
  { writePath := compName id, replacementPath := tableName cm.replacement,
    sstablePaths := cm.inputs.map tableName }

/-- names → numbers; `none` when a path is not a table name -/
def absMeta (r : RawMeta) : Option FS.CompMeta :=
  match r.sstablePaths.mapM tableOfName, tableOfName r.replacementPath with
  | some ins, some rp => some { inputs := ins, replacement := rp }
  | _, _ => none

/-! ## one compaction directory -/

structure CompImage where
  tbl : TblDir.DirImage := {}     -- the directory itself (`tbl.dir`) and the table files
  flag : FlagImage := none
  deriving DecidableEq, Repr

inductive CCall where
  | tbl (c : TblDir.FsCall)
  | flag (c : FlagCall)
  deriving DecidableEq, Repr

def applyCCall (img : CompImage) : CCall → CompImage
  | .tbl .rmdir => if img.flag.isNone then { img with tbl := TblDir.applyCall img.tbl .rmdir } else img
  | .tbl c => { img with tbl := TblDir.applyCall img.tbl c }
  | .flag c => if img.tbl.dir then { img with flag := applyFlagCall img.flag c } else img

def applyCCalls (img : CompImage) (cs : List CCall) : CompImage := cs.foldl applyCCall img

/-- `executeCompaction` for the merged records `kvs` (the accepted `WriteNext`s), the table writer's chunking `ch`,
the flag writer's chunking `sizes` and the metadata `m`: `MkdirTemp`, the table writer (`Open` … `Close`), then the flag -/
def compCalls (cfg : SstCfg) (ch : TblDir.Chunking) (kvs : List (Bytes × GoBytes)) (sizes : List Nat) (m : RawMeta) :
    List CCall :=
  (TblDir.flushCalls cfg ch kvs).map .tbl ++ (flagCalls sizes m).map .flag

/-- the flag as the abstract disk sees it -/
def absFlag (comps : Nat → Compression) (f : FlagImage) : Option FS.CompMeta := (readFlag comps f).bind absMeta

/-- the abstract state of an existing compaction directory: the table part as `reconstructSSTables` would classify it
once renamed (`TblDir.classify`), the flag as `repairCompactions` reads it -/
def classifyComp (P : TblDir.Params) (id : Nat) (img : CompImage) : FS.CompDir :=
  { id := id, out := TblDir.classify P img.tbl, flag := absFlag P.comps img.flag }

/-- the abstract disk's entry for this directory: `none` = there is no such directory -/
def abstractComp (P : TblDir.Params) (id : Nat) (img : CompImage) : Option FS.CompDir :=
  if img.tbl.dir then some (classifyComp P id img) else none

/-- the assumption on names, for one directory: a readable flag names its own directory and table directories -/
def FlagCanonical (comps : Nat → Compression) (id : Nat) (f : FlagImage) : Prop :=
  ∀ r, readFlag comps f = some r → r.writePath = compName id ∧ (absMeta r).isSome = true

/-! ## the abstract events of `executeCompaction` (as `FS.compactEvs` lists them) -/

def compEvs (id : Nat) (cells : DBM.Layer) (cm : FS.CompMeta) : List FS.Ev :=
  [.compMkdir id, .compProgress id, .compComplete id cells, .compProgress id, .compFlag id cm]

/-- has the last `write` of the flag been done after `j` of its calls? -/
def flagDone (fcs : List FlagCall) (j : Nat) : Bool := !(fcs.drop j).any FlagCall.isWrite

/-- number of abstract events completed after `j` calls of `saveCompactionMetadata`: `compFlag` with the last write -/
def flagEvIdx (fcs : List FlagCall) (j : Nat) : Nat := if flagDone fcs j then 1 else 0

/-- number of events of `compEvs` completed after `n` calls of `compCalls`, `lenT` of which belong to the table:
the directory (call 1) — anything of the table writer before its metadata write — the metadata write (call `lenT - 1`;
call `lenT` is the `close` of meta.pb.bin) — the first call of `saveCompactionMetadata` — its last `write` -/
def cevIdx (lenT : Nat) (fcs : List FlagCall) (n : Nat) : Nat :=
  if n = 0 then 0
  else if n + 1 < lenT then (if n = 1 then 1 else 2)
  else if n ≤ lenT then 3
  else if flagDone fcs (n - lenT) then 5 else 4

/-- `os.RemoveAll` of a compaction directory: the files in the order given (any order; `none` = the flag), then the
directory -/
def removeCompCalls (order : List (Option TblDir.File)) : List CCall :=
  order.map (fun
    | some f => .tbl (.unlink f)
    | none => .flag .unlink) ++ [.tbl .rmdir]

/-! ## `repairCompactions` on a database directory -/

/-- the table directories (by number, in name order) and the compaction directories (by number, in listing order) -/
structure DiskImage where
  tables : List (Nat × TblDir.DirImage) := []
  comps : List (Nat × CompImage) := []
  deriving DecidableEq, Repr

/-- what `repairCompactions` decides for one compaction directory, in terms of NAMES -/
inductive Decision where
  | delete                                                -- `compactionsToDelete`
  | finish (remove : List Bytes) (replacement write : Bytes)   -- `compactionsToFinish`: the three path sets it touches
  deriving DecidableEq, Repr

def repairDecision (comps : Nat → Compression) (f : FlagImage) : Decision :=
  match readFlag comps f with
  | none => .delete
  | some r => .finish (r.sstablePaths.filter (· != r.replacementPath)) r.replacementPath r.writePath

/-- a new directory entry at its place in name order (`FS.insertT` for any payload) -/
def insertI {α : Type} (g : Nat) (x : α) : List (Nat × α) → List (Nat × α)
  | [] => [(g, x)]
  | p :: r => if g < p.1 then (g, x) :: p :: r else if g = p.1 then p :: r else p :: insertI g x r

/-- finishing one flagged compaction: `RemoveAll` of the other inputs, `RemoveAll` of the replacement path, `Rename`.
`none`: a path does not resolve to a table / to an existing compaction directory (outside the model; the real `Rename`
of a missing directory makes `Open` fail). -/
def finishBytes (D : DiskImage) : Decision → Option DiskImage
  | .delete => some D
  | .finish remove replacement write =>
    match remove.mapM tableOfName, tableOfName replacement, compOfName write with
    | some rm, some rp, some id =>
      match D.comps.find? (·.1 == id) with
      | none => none
      | some c =>
        let t1 := D.tables.filter fun p => !rm.contains p.1
        let t2 := t1.filter fun p => p.1 != rp
        some { tables := insertI rp c.2.tbl t2, comps := D.comps.filter (·.1 != id) }
    | _, _, _ => none

/-- `repairCompactions`: the directories whose flag does not read are deleted, then every flagged one is finished, in
listing order -/
def repairBytes (comps : Nat → Compression) (D : DiskImage) : Option DiskImage :=
  let fin := D.comps.filter fun c => (readFlag comps c.2.flag).isSome
  fin.foldlM (fun d c => finishBytes d (repairDecision comps c.2.flag)) { D with comps := fin }

/-- the abstract disk of a database directory image (no WAL: `repairCompactions` does not look at it) -/
def absDisk (P : TblDir.Params) (D : DiskImage) : FS.Disk :=
  { tables := D.tables.map fun p => (p.1, TblDir.classify P p.2),
    comps := D.comps.map fun c => classifyComp P c.1 c.2 }

/-- the assumption on names, for a database directory: compaction directories have distinct numbers and every
readable flag names its own directory and table directories -/
structure Canonical (comps : Nat → Compression) (D : DiskImage) : Prop where
  distinct : (D.comps.map (·.1)).Nodup
  flags : ∀ c ∈ D.comps, FlagCanonical comps c.1 c.2.flag

end CompDir
end SST
