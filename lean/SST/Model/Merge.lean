/-
L3: sstables/sstable_merger.go and sstables/super_sstable_reader.go as coded (after the D6/D7/D8 fixes).

At this layer a table is an abstract reader: a list of (key, value) in strictly ascending key order,
value `none` = nil (tombstone), `some []` = empty.  (That the byte-level table files implement this reader
is another layer.)  Keys handed out by a table iterator are protobuf-decoded index keys: the EMPTY key
arrives as Go nil (`pbKey`).  The comparator is `skiplist.BytesComparator` = `bytes.Compare`, for which nil
and empty are equal (`goCmp`).  The output writer is an abstract `WriteNext` that enforces strictly
ascending keys and can be told to fail at chosen call numbers.  Core Lean only.
-/
import SST.Model.Bytes
import SST.Model.PQ
import SST.Model.PQF
namespace SST.Merge
open SST PQ

abbrev Table := List (Bytes × GoBytes)
/-- what an iterator's `Next` returns: key and value as Go slices -/
abbrev Item := GoBytes × GoBytes

/-- `bytes.Compare` on Go slices (nil = empty) -/
def goCmp (a b : GoBytes) : Ordering := bytesCmp (a.getD []) (b.getD [])

/-- a key as it comes out of the protobuf-decoded index: empty bytes decode to nil -/
def pbKey : Bytes → GoBytes
  | [] => none
  | b :: bs => some (b :: bs)

/-! ## the abstract table reader (SSTableReaderI) -/

def tget : Table → Bytes → Option GoBytes
  | [], _ => none
  | (k', v) :: r, k => if k = k' then some v else tget r k

/-- `Get`: the stored value (nil for a tombstone) or NotFound -/
def tableGet (t : Table) (k : Bytes) : Except Err GoBytes :=
  match tget t k with
  | some v => .ok v
  | none => .error .notFound

/-- `Contains`: the key is in the index (a tombstone counts) -/
def tableContains (t : Table) (k : Bytes) : Except Err Bool := .ok (tget t k).isSome

def toItems (t : Table) : List Item := t.map fun p => (pbKey p.1, p.2)

def tableScan (t : Table) : Except Err (List Item) := .ok (toItems t)

/-- `ScanStartingAt`: keys ≥ k -/
def tableScanFrom (t : Table) (k : Bytes) : Except Err (List Item) :=
  .ok (toItems (t.filter fun p => bytesCmp k p.1 != .gt))

/-- `ScanRange`: lo ≤ key ≤ hi, an error when lo > hi -/
def tableScanRange (t : Table) (lo hi : Bytes) : Except Err (List Item) :=
  if bytesCmp lo hi == .gt then .error .rejected
  else .ok (toItems (t.filter fun p => bytesCmp lo p.1 != .gt && bytesCmp p.1 hi != .gt))

/-! ## the output writer (SSTableStreamWriterI), abstractly -/

structure WState where
  /-- `writer.lastKey`; after a successful write it is a non-nil copy, also for the empty key -/
  lastKey : Option Bytes := none
  /-- records written so far -/
  out : Table := []
  /-- number of `WriteNext` calls so far -/
  calls : Nat := 0
  /-- 0-based call numbers that fail with an I/O fault -/
  failAt : List Nat := []
  deriving Repr

/-- `WriteNext`: the I/O fault first (the harness wrapper fails before delegating), then the ordering check
(equal key: "cannot be written more than once", smaller key: "non-ascending"; the first key is free). -/
def writeNext (w : WState) (k v : GoBytes) : Option Err × WState :=
  let w1 := { w with calls := w.calls + 1 }
  if w.failAt.contains w.calls then (some .io, w1)
  else
    let key := k.getD []
    match w.lastKey with
    | none => (none, { w1 with lastKey := some key, out := w.out ++ [(key, v)] })
    | some l =>
      match bytesCmp l key with
      | .lt => (none, { w1 with lastKey := some key, out := w.out ++ [(key, v)] })
      | .eq => (some .rejected, w1)
      | .gt => (some .rejected, w1)

/-! ## SSTableMergeIteratorContext -/

/-- the adapter's `Next`: `sstables.Done` becomes `pq.Done`, every other error is passed on (the D6 fix),
items are passed through -/
def adapterNext : IterStep GoBytes GoBytes → IterStep GoBytes GoBytes
  | .done => .done
  | .err e => .err e
  | .item k v => .item k v

abbrev Input := FInput GoBytes GoBytes

/-- an iterator that cannot fail -/
def inputOf (items : List Item) : Input := { items := items }

/-! ## Merge -/

/-- the loop of `Merge`: heap `Next`, then `WriteNext`; any error of either is returned -/
def mergeLoop (endErr : Nat → Option Err) : Nat → Heap GoBytes GoBytes → WState → Option Err × WState
  | 0, _, w => (some .other, w)
  | fuel + 1, h, w =>
    match PQF.next goCmp endErr h with
    | .done => (none, w)
    | .err e => (some e, w)
    | .item (k, v, _) h' =>
      match writeNext w k v with
      | (some e, w') => (some e, w')
      | (none, w') => mergeLoop endErr fuel h' w'

/-- `SSTableMerger.Merge`: the error (if any) and the writer afterwards -/
def merge (ins : List Input) (w : WState) : Option Err × WState :=
  match PQF.init goCmp ins with
  | .error e => (some e, w)
  | .ok h => mergeLoop (PQF.endErrOf ins) (PQF.pendingCount h + 1) h w

/-! ## MergeCompactionIterator -/

abbrev ReduceFn := GoBytes → List GoBytes → List Nat → GoBytes × GoBytes

structure MCIter where
  heap : Heap GoBytes GoBytes
  prevKey : GoBytes := none
  valBuf : List GoBytes := []
  ctxBuf : List Nat := []

inductive MCStep where
  | done
  | err (e : Err)
  | item (k v : GoBytes)
  deriving Repr

/-- `kReduced != nil && vReduced != nil` -/
def bothNonNil (r : GoBytes × GoBytes) : Bool := r.1.isSome && r.2.isSome

/-- the empty key may arrive as nil: `if k == nil { k = []byte{} }` -/
def normKey : GoBytes → GoBytes
  | none => some []
  | some k => some k

/-- the `for` loop of `MergeCompactionIterator.Next` -/
def mcNextAux (endErr : Nat → Option Err) (reduce : ReduceFn) : Nat → MCIter → MCStep × MCIter
  | 0, s => (.err .other, s)
  | fuel + 1, s =>
    match PQF.next goCmp endErr s.heap with
    | .done =>
      if s.valBuf.length > 0 then
        let r := reduce s.prevKey s.valBuf s.ctxBuf
        if bothNonNil r then (.item r.1 r.2, { s with valBuf := [] })
        else (.done, s)
      else (.done, s)
    | .err e => (.err e, s)
    | .item (k, v, c) h' =>
      let k := normKey k
      if s.prevKey.isSome && goCmp k s.prevKey != .eq then
        -- key change: reduce the accumulated group, start a new one
        let r := reduce s.prevKey s.valBuf s.ctxBuf
        let s' : MCIter := { heap := h', prevKey := k, valBuf := [v], ctxBuf := [c] }
        if bothNonNil r then (.item r.1 r.2, s') else mcNextAux endErr reduce fuel s'
      else
        mcNextAux endErr reduce fuel
          { heap := h', prevKey := k, valBuf := s.valBuf ++ [v], ctxBuf := s.ctxBuf ++ [c] }

def mcNext (endErr : Nat → Option Err) (reduce : ReduceFn) (s : MCIter) : MCStep × MCIter :=
  mcNextAux endErr reduce (PQF.pendingCount s.heap + 1) s

/-- `MergeCompactIterator` -/
def mcNew (ins : List Input) : Except Err MCIter :=
  match PQF.init goCmp ins with
  | .error e => .error e
  | .ok h => .ok { heap := h }

/-- what a caller sees who calls `Next` until Done or an error -/
def mcCollect (endErr : Nat → Option Err) (reduce : ReduceFn) : Nat → MCIter → List Item × PQF.Term
  | 0, _ => ([], .err .other)
  | fuel + 1, s =>
    match mcNext endErr reduce s with
    | (.done, _) => ([], .done)
    | (.err e, _) => ([], .err e)
    | (.item k v, s') => let r := mcCollect endErr reduce fuel s'; ((k, v) :: r.1, r.2)

/-- the loop of `MergeCompact`: iterator `Next`, then `WriteNext` (its result is checked: the D7 fix) -/
def mergeCompactLoop (endErr : Nat → Option Err) (reduce : ReduceFn) :
    Nat → MCIter → WState → Option Err × WState
  | 0, _, w => (some .other, w)
  | fuel + 1, s, w =>
    match mcNext endErr reduce s with
    | (.done, _) => (none, w)
    | (.err e, _) => (some e, w)
    | (.item k v, s') =>
      match writeNext w k v with
      | (some e, w') => (some e, w')
      | (none, w') => mergeCompactLoop endErr reduce fuel s' w'

/-- `SSTableMerger.MergeCompact` -/
def mergeCompact (ins : List Input) (w : WState) (reduce : ReduceFn) : Option Err × WState :=
  match mcNew ins with
  | .error e => (some e, w)
  | .ok s => mergeCompactLoop (PQF.endErrOf ins) reduce (PQF.pendingCount s.heap + 2) s w

/-! ## the provided reducers -/

/-- the loop of `ScanReduceLatestWins`: `maxCtx := 0; maxCtxIndex := 0; if x > maxCtx {…}` -/
def maxCtxIndex : List Nat → (maxCtx maxIdx i : Nat) → Nat
  | [], _, mi, _ => mi
  | x :: xs, m, mi, i => if x > m then maxCtxIndex xs x i (i + 1) else maxCtxIndex xs m mi (i + 1)

/-- `ScanReduceLatestWins` (`values[maxCtxIndex]` panics on an empty slice; the iterator never calls it
with one: `SST.Proofs.Merge.maxCtxIndex_lt`) -/
def scanReduceLatestWins : ReduceFn := fun key values ctx =>
  (key, values.getD (maxCtxIndex ctx 0 0 0) none)

/-- `ScanReduceLatestWinsSkipTombstones`: `len(val) == 0` (nil AND empty) reduces the key away -/
def scanReduceLatestWinsSkipTombstones : ReduceFn := fun key values ctx =>
  let r := scanReduceLatestWins key values ctx
  if (r.2.getD []).length = 0 then (none, none) else r

/-! ## SuperSSTableReader (tables listed oldest → newest) -/

/-- `Get`: newest first; NotFound moves on to the next older reader, any other error is returned -/
def superGetAux : List Table → Bytes → Except Err GoBytes
  | [], _ => .error .notFound
  | t :: older, k =>
    match tableGet t k with
    | .ok v => .ok v
    | .error e => if e = .notFound then superGetAux older k else .error e

def superGet (ts : List Table) (k : Bytes) : Except Err GoBytes := superGetAux ts.reverse k

/-- `Contains`: newest first, true as soon as ANY reader has the key (tombstone or not) -/
def superContainsAux : List Table → Bytes → Except Err Bool
  | [], _ => .ok false
  | t :: older, k =>
    match tableContains t k with
    | .error e => .error e
    | .ok true => .ok true
    | .ok false => superContainsAux older k

def superContains (ts : List Table) (k : Bytes) : Except Err Bool := superContainsAux ts.reverse k

/-- the common tail of `Scan`, `ScanStartingAt`, `ScanRange`: context i = position of the reader,
`MergeCompactIterator(…, ScanReduceLatestWins)`, then (the caller) `Next` until Done -/
def superIterate (scans : List (List Item)) : Except Err (List Item) :=
  let ins := scans.map inputOf
  match mcNew ins with
  | .error e => .error e
  | .ok s =>
    match mcCollect (PQF.endErrOf ins) scanReduceLatestWins (PQF.pendingCount s.heap + 2) s with
    | (l, .done) => .ok l
    | (_, .err e) => .error e

def superScan (ts : List Table) : Except Err (List Item) := do
  let scans ← ts.mapM tableScan
  superIterate scans

def superScanFrom (ts : List Table) (k : Bytes) : Except Err (List Item) := do
  let scans ← ts.mapM (tableScanFrom · k)
  superIterate scans

def superScanRange (ts : List Table) (lo hi : Bytes) : Except Err (List Item) := do
  let scans ← ts.mapM (tableScanRange · lo hi)
  superIterate scans

end SST.Merge
