/-
L1 (direct I/O): the recordio `FileWriter` created through `DirectIOFactory`, as coded in
recordio/direct_io.go, recordio/bufio_vendor.go (`Writer` with `alignFlush`) and recordio/file_writer.go.

The buffered writer is the `BufW` of SST/Model/Wal.lean in aligned mode: `Flush` zero-fills the rest of
the buffer and hands the WHOLE buffer to the file; the fill-and-flush path of `Write` hands down exactly
full buffers; a single write longer than the buffer arriving at an empty buffer bypasses it (unaligned,
`EINVAL` under O_DIRECT) — the theorems take "every single write fits the buffer" as a precondition.

The file is a byte array with the kernel's file offset `pos`; every chunk the buffered writer hands
down is one `write` at `pos` (recorded in `events` as (offset, length) so alignment can be stated).
`Open` does NOT flush the header in aligned mode; `WriteSync` is rejected; `Seek` = `Flush` (which pads
with zeros) + `lseek` to the LOGICAL offset; `Close` = `Flush`, truncate to `currentOffset` if
`largestOffset > currentOffset`, close.  Core Lean only.
-/
import SST.Model.Wal

namespace SST
open Generated

structure DWState where
  w : BufW
  file : Bytes
  pos : Nat                      -- file offset of the underlying *os.File
  cur : Nat                      -- `currentOffset`
  largest : Nat                  -- `largestOffset`
  events : List (Nat × Nat)      -- (offset, length) of every write system call so far
  deriving Repr

/-- hand chunks to the file: one `write` each at the current file offset -/
def applyChunks (file : Bytes) (pos : Nat) (evs : List (Nat × Nat)) :
    List Bytes → Bytes × Nat × List (Nat × Nat)
  | [] => (file, pos, evs)
  | ch :: chs => applyChunks (overwrite file pos ch) (pos + ch.length) (evs ++ [(pos, ch.length)]) chs

/-- one `bufWriter.Write(p)` -/
def DWState.bufWrite (d : DWState) (p : Bytes) : DWState :=
  let (w1, out) := d.w.write p
  let (f1, p1, e1) := applyChunks d.file d.pos d.events out
  { d with w := w1, file := f1, pos := p1, events := e1 }

/-- `bufWriter.Flush()` -/
def DWState.bufFlush (d : DWState) : DWState :=
  let (w1, out) := d.w.flush
  let (f1, p1, e1) := applyChunks d.file d.pos d.events out
  { d with w := w1, file := f1, pos := p1, events := e1 }

/-- `NewFileWriter(..., DirectIO())` on a fresh path + `Open`: the header goes through the aligned
buffer and is NOT flushed. -/
def DWState.open (n ct : Nat) : DWState :=
  ({ w := BufW.init n true, file := [], pos := 0, cur := fileHeaderSize, largest := fileHeaderSize,
     events := [] } : DWState).bufWrite (fileHeader currentVersion ct)

/-- `Write(record)`: record header, then (unless nil) the stored payload — two `bufWriter.Write` calls.
Returns the offset of the record. -/
def DWState.write (c : Compression) (d : DWState) : GoBytes → DWState × Nat
  | none =>
    let h := encHeader true 0 (clenOf c [])
    ({ d.bufWrite h with cur := d.cur + h.length }, d.cur)
  | some p =>
    let h := encHeader false p.length (clenOf c p)
    let cur' := d.cur + h.length + (stored c p).length
    ({ (d.bufWrite h).bufWrite (stored c p) with cur := cur', largest := max d.largest cur' }, d.cur)

/-- `WriteSync`: `DirectIOSyncWriteErr` before anything else happens -/
def DWState.writeSync (_c : Compression) (_d : DWState) (_r : GoBytes) : Except Err (DWState × Nat) :=
  .error .rejected

/-- `Seek`: range checks, then `bufWriter.Seek` = `Flush` (zero-padded block) + `lseek(offset)` -/
def DWState.seek (d : DWState) (off : Nat) : Except Err DWState :=
  if off < fileHeaderSize then .error .rejected
  else if off > d.cur then .error .rejected
  else
    let d1 := d.bufFlush
    .ok { d1 with pos := off, largest := max d.largest d.cur, cur := off }

/-- `Close`: the final file -/
def DWState.close (d : DWState) : Bytes :=
  let d1 := d.bufFlush
  if d.largest > d.cur then d1.file.take d.cur else d1.file

/-- the write system calls `Close` adds -/
def DWState.closeEvents (d : DWState) : List (Nat × Nat) := d.bufFlush.events

/-- run a writer program (same conventions as `runWriter`) -/
def runDirect (c : Compression) : DWState → List WOp → DWState × List Nat
  | d, [] => (d, [])
  | d, .write r :: ops =>
    let (d', off) := d.write c r
    let (df, outs) := runDirect c d' ops
    (df, off :: outs)
  | d, .seek off :: ops =>
    match d.seek off with
    | .ok d' => let (df, outs) := runDirect c d' ops; (df, 0 :: outs)
    | .error _ => let (df, outs) := runDirect c d ops; (df, 1 :: outs)

/-- every single write of a record fits the buffer -/
def RecFitsBuf (c : Compression) (n : Nat) : GoBytes → Prop
  | none => (encHeader true 0 (clenOf c [])).length ≤ n
  | some p => (encHeader false p.length (clenOf c p)).length ≤ n ∧ (stored c p).length ≤ n

end SST
