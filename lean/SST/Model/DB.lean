/-
L6: SimpleDB at the layer abstraction (simpledb/db.go, rw_memstore.go, flush.go, compaction.go,
sstable_manager.go, recovery.go for the clean open path).  A layer (memstore or table) is an
association list key ↦ GoBytes where `none` is a tombstone (nil value); a table may also hold EMPTY
values (`some []`): that is how a compaction which may not drop tombstones carries them over, and the read
path treats an empty table value as "not found".  Byte-level tables, the merge heap, the skip list and
the WAL are other layers (L1–L5), connected through their own refinement theorems.  Core Lean only.
-/
import SST.Model.Bytes

namespace SST
namespace DBM

abbrev Key := Bytes
abbrev Layer := List (Key × GoBytes)

def Layer.get (l : Layer) (k : Key) : Option GoBytes :=
  match l.find? (fun p => p.1 == k) with
  | some p => some p.2
  | none => none

/-- upsert: the newest binding of a key is found first -/
def Layer.set (l : Layer) (k : Key) (v : GoBytes) : Layer := (k, v) :: l.filter (fun p => p.1 != k)

/-- a table directory: its number (`sstable_%015d`) and content -/
structure Tbl where
  gen : Nat
  cells : Layer
  deriving Repr

/-- options of one session that matter at this layer -/
structure Opts where
  threshold : Int := 10      -- CompactionFileThreshold (an int in Go; negative values are legal)
  maxSize : Nat := 0         -- CompactionMaxSizeBytes
  ratioNum : Nat := 1        -- CompactionRatio as an exact fraction ratioNum / ratioDen
  ratioDen : Nat := 5
  deriving Repr

structure State where
  w : Layer := []            -- write store of the RWMemstore
  r : Layer := []            -- read store (last store handed to the flusher)
  flushPending : Bool := false   -- `r` has been handed to the flusher and is not yet a table
  tables : List Tbl := []    -- live tables, oldest first (allSSTableReaders)
  gen : Nat := 0             -- currentGeneration
  isOpen : Bool := false
  closed : Bool := false
  opts : Opts := {}
  deriving Repr

inductive Res where
  | ok
  | value (v : Bytes)
  | notFound
  | rejected          -- ErrEmptyKeyValue
  | notOpen           -- ErrNotOpenedYet / ErrAlreadyClosed
  deriving DecidableEq, Repr

/-! ## reads -/

/-- `SuperSSTableReader.Get`: newest table that contains the key decides -/
def tablesGet : List Tbl → Key → Option GoBytes
  | [], _ => none
  | t :: ts, k =>
    match tablesGet ts k with
    | some v => some v
    | none => t.cells.get k

/-- `RWMemstore.Get`: the write store wins, then the read store -/
def memGet (s : State) (k : Key) : Option GoBytes :=
  match s.w.get k with
  | some v => some v
  | none => s.r.get k

/-- `GetBytes` -/
def get (s : State) (k : Key) : Res :=
  if !s.isOpen || s.closed then .notOpen else
  let tv := tablesGet s.tables k
  let sstableNotFound := match tv with
    | none => true
    | some none => true
    | some (some v) => v.isEmpty
  match memGet s k with
  | none =>
    if sstableNotFound then .notFound
    else match tv with
      | some (some v) => .value v
      | _ => .notFound
  | some none => .notFound             -- KeyTombstoned
  | some (some v) => .value v          -- memstore always wins

/-! ## flush -/

/-- `executeFlush`: the handed-over store becomes the newest table (tombstones kept), unless it is empty -/
def flushStep (s : State) : State :=
  if !s.flushPending then s
  else if s.r.isEmpty then { s with flushPending := false }
  else { s with flushPending := false, gen := s.gen + 1,
                tables := s.tables ++ [{ gen := s.gen + 1, cells := s.r }] }

/-- `rotateWalAndFlushMemstore`: swap the stores and hand the old write store to the flusher.  The hand-off
is an unbuffered channel: it is only taken once the flusher has finished its previous store. -/
def rotate (s : State) : State :=
  let s := flushStep s
  { s with r := s.w, w := [], flushPending := true }

/-! ## writes -/

/-- `PutBytes` (validation first, then WAL + upsert); `rotateNow` = the size estimate exceeded the limit -/
def putBytes (s : State) (k v : GoBytes) (rotateNow : Bool) : State × Res :=
  match k, v with
  | some kb, some vb =>
    if kb.isEmpty || vb.isEmpty then (s, .rejected)
    else if !s.isOpen || s.closed then (s, .notOpen)
    else
      let s' := { s with w := s.w.set kb (some vb) }
      (if rotateNow then rotate s' else s', .ok)
  | _, _ => (s, .rejected)      -- len(nil) == 0

/-- `Put` (string flavour): its own validation, then `PutBytes` -/
def putStr (s : State) (k v : Bytes) (rotateNow : Bool) : State × Res :=
  if k.isEmpty || v.isEmpty then (s, .rejected) else putBytes s (some k) (some v) rotateNow

/-- `DeleteBytes`: any key is accepted, nil and empty are the same key -/
def deleteBytes (s : State) (k : GoBytes) : State × Res :=
  if !s.isOpen || s.closed then (s, .notOpen)
  else ({ s with w := s.w.set (k.getD []) none }, .ok)

def deleteStr (s : State) (k : Bytes) : State × Res := deleteBytes s (some k)

/-! ## compaction -/

/-- `floodFill` as coded: between the first and the last selected table everything is selected -/
def nextTrue : List Bool → Nat → Option Nat
  | [], _ => none
  | b :: bs, j => if b then some j else nextTrue bs (j + 1)

def fillRange (a : List Bool) (i j : Nat) : List Bool :=
  (List.range a.length).map fun x => if i ≤ x ∧ x ≤ j then true else a.getD x false

def floodAux : Nat → List Bool → Nat → List Bool
  | 0, a, _ => a
  | fuel + 1, a, i =>
    if i ≥ a.length then a
    else if a.getD i false then
      match nextTrue (a.drop (i + 1)) (i + 1) with
      | some j => floodAux fuel (fillRange a i j) j
      | none => a
    else floodAux fuel a (i + 1)

def floodFill (a : List Bool) : List Bool := floodAux (a.length + 1) a 0

def numRecords (t : Tbl) : Nat := t.cells.length
def nullValues (t : Tbl) : Nat := (t.cells.filter (fun p => p.2.isNone)).length

/-- the per-table candidate test of `candidateTablesForCompaction`; `size` = metadata TotalBytes -/
def candidate (o : Opts) (t : Tbl) (size : Nat) : Bool :=
  size < o.maxSize ||
    (numRecords t > 0 && decide (nullValues t * o.ratioDen ≥ o.ratioNum * numRecords t))

/-- all keys of a list of tables, first occurrence order -/
def keysOf (ts : List Tbl) : List Key :=
  (ts.flatMap fun t => t.cells.map (·.1)).eraseDups

/-- `MergeCompact` over a run of tables (oldest first) with the reducer the compaction chooses:
latest wins; when the run starts at the oldest table tombstoned / empty values are dropped, otherwise they
are carried over as EMPTY values -/
def mergeRun (run : List Tbl) (dropTombstones : Bool) : Layer :=
  (keysOf run).filterMap fun k =>
    match tablesGet run k with
    | none => none
    | some none => if dropTombstones then none else some (k, some [])
    | some (some v) => if v.isEmpty then (if dropTombstones then none else some (k, some [])) else some (k, some v)

/-- one compaction cycle (`executeCompaction` + `reflectCompactionResult`); `sizes` = TotalBytes of the live
tables in order.  Returns the new state and the numbers of the selected tables (empty = nothing done). -/
def compactStep (s : State) (sizes : List Nat) : State × List Nat :=
  let flags := floodFill ((s.tables.zip sizes).map fun (t, sz) => candidate s.opts t sz)
  let idx := (List.range s.tables.length).filter fun i => flags.getD i false
  if (idx.length : Int) ≤ s.opts.threshold then (s, []) else
  match idx with
  | [] => (s, [])
  | first :: _ =>
    let sel := idx.filterMap fun i => s.tables[i]?
    match sel with
    | [] => (s, [])
    | t0 :: _ =>
      let merged : Tbl := { gen := t0.gen, cells := mergeRun sel (first == 0) }
      -- `reflectCompactionResult`: the result takes the place of the first selected table, the other selected
      -- tables are removed from the list
      let tables' := ((List.range s.tables.length).zip s.tables).flatMap fun (i, t) =>
        if i == first then [merged] else if idx.contains i then [] else [t]
      ({ s with tables := tables' }, sel.map (·.gen))

/-! ## lifecycle -/

/-- `Close`: rotate, let the flusher finish, stop -/
def close (s : State) : State × Res :=
  if !s.isOpen || s.closed then (s, .notOpen)
  else ({ flushStep (rotate s) with closed := true }, .ok)

/-- a new `DB` object opened on the directory a clean `Close` left: tables in name order, generation =
largest table number, empty memstores, the session's options -/
def reopen (s : State) (o : Opts) : State :=
  { w := [], r := [], flushPending := false, tables := s.tables,
    gen := (s.tables.map (·.gen)).foldl max 0, isOpen := true, closed := false, opts := o }

/-! ## programs -/

inductive Step where
  | putB (k v : GoBytes) (rotateNow : Bool)
  | putS (k v : Bytes) (rotateNow : Bool)
  | delB (k : GoBytes)
  | delS (k : Bytes)
  | get (k : Key)
  | rotate                       -- forced rotation (hook) — the same code path as a size-triggered one
  | flush                        -- the flusher finishes
  | compact (sizes : List Nat)   -- one compaction cycle; the table sizes are whatever they are
  | close
  | reopen (o : Opts)
  deriving Repr

/-- one step: new state, client-visible result (if the step is a client call), selected tables (compaction) -/
def step (s : State) : Step → State × Option Res × List Nat
  | .putB k v rot => let (s', r) := putBytes s k v rot; (s', some r, [])
  | .putS k v rot => let (s', r) := putStr s k v rot; (s', some r, [])
  | .delB k => let (s', r) := deleteBytes s k; (s', some r, [])
  | .delS k => let (s', r) := deleteStr s k; (s', some r, [])
  | .get k => (s, some (get s k), [])
  | .rotate => if s.isOpen && !s.closed then (rotate s, none, []) else (s, none, [])
  | .flush => (flushStep s, none, [])
  | .compact sizes =>
    if s.isOpen && !s.closed then let (s', sel) := compactStep s sizes; (s', none, sel) else (s, none, [])
  | .close => let (s', r) := close s; (s', some r, [])
  | .reopen o => if s.closed || !s.isOpen then (reopen s o, none, []) else (s, none, [])

def run : State → List Step → List (Option Res × List Nat)
  | _, [] => []
  | s, st :: rest => let (s', r, sel) := step s st; (r, sel) :: run s' rest

def runState : State → List Step → State
  | s, [] => s
  | s, st :: rest => runState (step s st).1 rest

end DBM
end SST
