/-
L2: sstables — the stream writer (sstable_writer.go), the table reader (sstable_reader.go,
sstable_iterator.go) and the four index loaders (slice_key_index.go, skiplist_index.go,
map_key_index.go, disk_key_index.go), as the code is now.  Core Lean only.

External code = parameters: the compressors (`Comp`), the bloom filter (a predicate), the protobuf
runtime (SST/Model/Proto.lean), `slices.BinarySearchFunc` (written out as coded, spec proved in
SST/Proofs/SSTableIndex.lean), the skip list (SST/Model/SkipList.lean).
-/
import SST.Model.RecordIO
import SST.Model.Proto
import SST.Model.SkipList
namespace SST
open Generated

/-- `sstables.Version` -/
def sstVersion : Nat := 1

/-- `sstables.IndexVal` -/
structure IndexVal where
  off : Nat
  sum : Nat
  deriving DecidableEq, Repr, Inhabited

/-- `hash/crc64` ISO checksum of a value (nil and empty hash alike) as stored in the index -/
def valueSum (v : GoBytes) : Nat := (crc64iso (v.getD [])).toNat

/-! ## writer -/

/-- where an injected I/O fault hits a `WriteNext` call -/
inductive Fault where
  | none
  | data     -- `dataWriter.Write` fails
  | index    -- `indexWriter.Write` fails (the data record has been appended already)
  deriving DecidableEq, Repr

/-- outcome of one `WriteNext` -/
inductive WRes where
  | ok
  | dup      -- "the same key cannot be written more than once"
  | desc     -- "non-ascending key cannot be written"
  | io       -- the injected fault, reported to the caller
  deriving DecidableEq, Repr

structure SstCfg where
  cmp : Bytes → Bytes → Ordering    -- `keyComparator`
  dc : Compression                  -- data compressor and its code in the file header
  dct : Nat
  ic : Compression                  -- index compressor and its code
  ict : Nat

/-- `SSTableStreamWriter` after `Open` -/
structure SstW where
  lastKey : GoBytes
  data : WState
  index : WState
  md : Meta
  bloomKeys : List Bytes            -- keys handed to `bloomFilter.Add`
  deriving Repr

def SstW.open (cfg : SstCfg) : SstW :=
  { lastKey := none, data := WState.init cfg.dct, index := WState.init cfg.ict,
    md := { version := sstVersion }, bloomKeys := [] }

/-- the ordering check at the top of `WriteNext` -/
def SstW.orderCheck (cfg : SstCfg) (w : SstW) (key : Bytes) : Option WRes :=
  match w.lastKey with
  | some lk =>
    match cfg.cmp lk key with
    | .eq => some .dup
    | .gt => some .desc
    | .lt => none
  | none => none

/-- `WriteNext` after the ordering check: bloom filter, checksum, data append, index append (with the
rewind of the data writer when the index append fails), then the bookkeeping -/
def SstW.writeBody (cfg : SstCfg) (w : SstW) (key : Bytes) (value : GoBytes) (f : Fault) : SstW × WRes :=
  let w1 : SstW := { w with bloomKeys := w.bloomKeys ++ [key] }
  match f with
  | .data => (w1, .io)
  | .index =>
    -- `preWriteOffset := dataWriter.Size()`; the record is appended, the index append fails, the data
    -- writer is rewound (a failing Seek would leave the data writer where it is)
    let d1 := (w.data.write cfg.dc value).1
    let d2 := match d1.seek w.data.cur with
      | .ok s => s
      | .error _ => d1
    ({ w1 with data := d2 }, .io)
  | .none =>
    let d1 := (w.data.write cfg.dc value).1
    let off := (w.data.write cfg.dc value).2
    let i1 := (w.index.write cfg.ic (some (encIndexEntry key off (valueSum value)))).1
    ({ w1 with
        data := d1, index := i1, lastKey := some key,
        md := { w.md with
          minKey := if w.lastKey.isNone then some key else w.md.minKey
          numRecords := w.md.numRecords + 1
          nullValues := if value.isNone then w.md.nullValues + 1 else w.md.nullValues } }, .ok)

/-- `WriteNext(key, value)` with the fault injected into this call.  A nil key behaves like the empty key. -/
def SstW.writeNext (cfg : SstCfg) (w : SstW) (key : Bytes) (value : GoBytes) (f : Fault) : SstW × WRes :=
  match w.orderCheck cfg key with
  | some r => (w, r)
  | none => w.writeBody cfg key value f

/-- the three files of a table directory that the model predicts byte for byte (`bloom.bf.gz` is opaque) -/
structure Table where
  index : Bytes
  data : Bytes
  metaf : Bytes
  deriving Repr, DecidableEq

/-- the metadata `Close` marshals -/
def SstW.finalMeta (w : SstW) : Meta :=
  { w.md with maxKey := w.lastKey, dataBytes := w.data.cur, indexBytes := w.index.cur,
                totalBytes := w.data.cur + w.index.cur }

/-- `Close` -/
def SstW.close (w : SstW) : Table :=
  { index := w.index.close, data := w.data.close, metaf := encMeta w.finalMeta }

structure Call where
  key : Bytes
  value : GoBytes
  fault : Fault
  deriving Repr

/-- run a program of `WriteNext` calls; results in call order -/
def SstW.run (cfg : SstCfg) : SstW → List Call → SstW × List WRes
  | w, [] => (w, [])
  | w, c :: cs =>
    let (w1, r) := w.writeNext cfg c.key c.value c.fault
    let (w2, rs) := SstW.run cfg w1 cs
    (w2, r :: rs)

/-- `SSTableSimpleWriter.WriteSkipListMap` / a plain loop of `WriteNext` over pairs, then `Close` -/
def writeTable (cfg : SstCfg) (kvs : List (Bytes × GoBytes)) : Table :=
  ((SstW.open cfg).run cfg (kvs.map fun p => { key := p.1, value := p.2, fault := .none })).1.close

/-! ## reading the index file (slice / skip-list / map loaders share this loop) -/

/-- an index entry as the loaders keep it: key as decoded (nil when empty), offset and checksum -/
abbrev IEntry := GoBytes × IndexVal

def IndexEntry.toI (e : IndexEntry) : IEntry := (e.key, ⟨e.valueOffset, e.checksum⟩)

/-- comparison of decoded keys = `bytes.Compare` (nil = empty) -/
def keyCmp (a b : GoBytes) : Ordering := bytesCmp (a.getD []) (b.getD [])

/-- sequential recordio reader `Open` (V4 files only; V1–V3 readers are not modelled: `.other`) -/
def openSeq (comps : Nat → Compression) (file : Bytes) : Except Err (Compression × Bytes) :=
  match parseFileHeader file with
  | .error e => .error e
  | .ok (v, ct) => if v ≠ currentVersion then .error .other else .ok (comps ct, file.drop fileHeaderSize)

/-- mmap reader `Open` -/
def openMmap (comps : Nat → Compression) (file : Bytes) : Except Err Compression :=
  if file.length < fileHeaderSize then .error .eof else
  match parseFileHeader file with
  | .error e => .error e
  | .ok (v, ct) => if v ≠ currentVersion then .error .other else .ok (comps ct)

/-- the `for { reader.ReadNext(record) … }` loop of the loaders: anything that `errors.Is(err, io.EOF)`
ends the loop silently, any other error fails the load -/
def loadEntriesS (c : Compression) : Nat → Bytes → Except Err (List IEntry)
  | 0, _ => .error .other
  | fuel + 1, s =>
    match readNextS c s with
    | .error .eof => .ok []
    | .error e => .error e
    | .ok (r, n) =>
      match decIndexEntry (r.getD []) with
      | (_, some e) => .error e
      | (en, none) => (loadEntriesS c fuel (s.drop n)).map (en.toI :: ·)

def loadEntries (comps : Nat → Compression) (indexFile : Bytes) : Except Err (List IEntry) :=
  match openSeq comps indexFile with
  | .error e => .error e
  | .ok (c, s) => loadEntriesS c (s.length + 1) s

/-! ## iterators -/

/-- how an index iterator ends: `skiplist.Done`, or an error (disk loader only) -/
inductive IterEnd where
  | done
  | err (e : Err)
  deriving DecidableEq, Repr

/-- everything an index iterator yields, then how it ended -/
abbrev Iter := List IEntry × IterEnd

/-! ## slice index -/

/-- the loop of `slices.BinarySearchFunc`; `lt h` = `cmp(x[h], target) < 0` -/
def binSearchAux (lt : Nat → Bool) : Nat → Nat → Nat → Nat
  | 0, i, _ => i
  | fuel + 1, i, j =>
    if i < j then
      let h := (i + j) / 2
      if lt h then binSearchAux lt fuel (h + 1) j else binSearchAux lt fuel i h
    else i

def entryLt (es : List IEntry) (key : Bytes) (h : Nat) : Bool :=
  match es[h]? with
  | some e => bytesCmp (e.1.getD []) key == .lt
  | none => false

/-- `SliceKeyIndex.search` = `slices.BinarySearchFunc(index, key, bytes.Compare on entry.key)` -/
def sliceSearch (es : List IEntry) (key : Bytes) : Nat × Bool :=
  let i := binSearchAux (entryLt es key) es.length 0 es.length
  (i, match es[i]? with
      | some e => bytesCmp (e.1.getD []) key == .eq
      | none => false)

def sliceGet (es : List IEntry) (key : Bytes) : Except Err IndexVal :=
  let (i, found) := sliceSearch es key
  if found then
    match es[i]? with
    | some e => .ok e.2
    | none => .error .other
  else .error .notFound

def sliceContains (es : List IEntry) (key : Bytes) : Bool := (sliceSearch es key).2

/-- `SliceKeyIndexIterator` from `cur` to `endExcl` -/
def sliceIter (es : List IEntry) (cur endExcl : Nat) : Iter := ((es.take endExcl).drop cur, .done)

def sliceAll (es : List IEntry) : Iter := sliceIter es 0 es.length

def sliceFrom (es : List IEntry) (key : Bytes) : Iter := sliceIter es (sliceSearch es key).1 es.length

/-- `IteratorBetween` with the `endIdx` adjustment -/
def sliceBetween (es : List IEntry) (lo hi : Bytes) : Except Err Iter :=
  if bytesCmp lo hi == .gt then .error .rejected else
  let startIdx := (sliceSearch es lo).1
  let endIdx := (sliceSearch es hi).1
  let endIdx' :=
    match es[endIdx]? with
    | some e => if bytesCmp (e.1.getD []) hi != .gt then endIdx + 1 else endIdx
    | none => endIdx
  .ok (sliceIter es startIdx endIdx')

/-! ## skip-list index -/

abbrev SkipIdx := SkipList GoBytes IndexVal

/-- `SkipListIndexLoader.Load`: insert in file order with the heights the random generator produced
(`heights[i]` for entry `i`, 1 when the list is too short); a duplicate key panics (`.other`) -/
def skipLoad (es : List IEntry) (heights : List Nat) : Except Err SkipIdx :=
  match SkipList.insertAll keyCmp SkipList.empty
      ((es.zipIdx).map fun (e, i) => (e.1, e.2, heights.getD i 1)) with
  | some s => .ok s
  | none => .error .other

def skipGet (s : SkipIdx) (key : Bytes) : Except Err IndexVal :=
  match SkipList.get keyCmp s (some key) with
  | some v => .ok v
  | none => .error .notFound

def skipContains (s : SkipIdx) (key : Bytes) : Bool := SkipList.contains keyCmp s (some key)

def skipAll (s : SkipIdx) : Iter := (SkipList.iterAll s, .done)

def skipFrom (s : SkipIdx) (key : Bytes) : Iter := (SkipList.iterFrom keyCmp s (some key), .done)

def skipBetween (s : SkipIdx) (lo hi : Bytes) : Except Err Iter :=
  match SkipList.iterBetween keyCmp s (some lo) (some hi) with
  | some l => .ok (l, .done)
  | none => .error .rejected

/-! ## map index (`Byte4KeyMapper`, `Byte20KeyMapper`: keys zero-padded to `[N]byte`) -/

/-- `MapBytes`: `none` = the mapper panics (key longer than `n`) -/
def mapKey (n : Nat) (k : Bytes) : Option Bytes :=
  if k.length > n then none else some (k ++ List.replicate (n - k.length) 0)

/-- `MapKeyIndexLoader.Load` panics when an index key is longer than `n` -/
def mapLoadOk (n : Nat) (es : List IEntry) : Bool := es.all fun e => (e.1.getD []).length ≤ n

/-- Go map lookup after the inserts of `Load` (a later insert overrides an earlier one) -/
def mapLookup (n : Nat) (es : List IEntry) (key : Bytes) : Option IndexVal :=
  (es.reverse.find? fun e => mapKey n (e.1.getD []) == mapKey n key).map (·.2)

/-- `MapKeyIndex.Get`; the outer `none` = panic -/
def mapGet (n : Nat) (es : List IEntry) (key : Bytes) : Option (Except Err IndexVal) :=
  match mapKey n key with
  | none => none
  | some _ =>
    match mapLookup n es key with
    | some v => some (.ok v)
    | none => some (.error .notFound)

def mapContains (n : Nat) (es : List IEntry) (key : Bytes) : Option Bool :=
  match mapKey n key with
  | none => none
  | some _ => some (mapLookup n es key).isSome

/-! ## disk index (EXPERIMENTAL in the library's README) -/

/-- `DiskKeyIndex`: the mapped index file, its compressor and the offset cache -/
structure DiskIdx where
  file : Bytes
  c : Compression
  cache : List (Nat × IndexEntry)

def diskCacheMax : Nat := 1024

/-- `MMapProtoReader.SeekNext(record, off)`: the offset found (or the error) and the record as it is
left behind (empty when the seek failed, partially filled when unmarshalling failed) -/
def diskSeekEntry (c : Compression) (file : Bytes) (off : Nat) : Except Err Nat × IndexEntry :=
  match seekNext c file off with
  | .error e => (.error e, { key := none, valueOffset := 0, checksum := 0 })
  | .ok (o, r) =>
    match decIndexEntry (r.getD []) with
    | (en, none) => (.ok o, en)
    | (en, some e) => (.error e, en)

/-- `findAt`: a cached record is returned as is; a FAILED `SeekNext` is reported and NOT remembered (fix
37d0b89); a successful one is remembered while the cache holds fewer than `offsetCacheMaxSize` offsets -/
def DiskIdx.findAt (d : DiskIdx) (off : Nat) : DiskIdx × IndexEntry × Option Err :=
  match d.cache.find? (·.1 == off) with
  | some (_, en) => (d, en, none)
  | none =>
    match diskSeekEntry d.c d.file off with
    | (.error e, en) => (d, en, some e)
    | (.ok _, en) =>
      let d' := if d.cache.length < diskCacheMax then { d with cache := d.cache ++ [(off, en)] } else d
      (d', en, none)

/-- the `for i < j` loop of `binarySearch` over BYTE OFFSETS.  An end-of-file at probe `h` means that no
record starts at or after `h`: the search goes on below `h` (`j = h; continue`, fix 93d8a40) -/
def DiskIdx.bsLoop (target : Bytes) : Nat → DiskIdx → Nat → Nat → DiskIdx × Except Err Nat
  | 0, d, _, _ => (d, .error .other)
  | fuel + 1, d, i, j =>
    if i < j then
      let h := (i + j) / 2
      match d.findAt h with
      | (d', _, some .eof) => DiskIdx.bsLoop target fuel d' i h
      | (d', _, some e) => (d', .error e)
      | (d', en, none) =>
        if bytesCmp (en.key.getD []) target == .lt then DiskIdx.bsLoop target fuel d' (h + 1) j
        else DiskIdx.bsLoop target fuel d' i h
    else (d, .ok i)

structure BsRes where
  off : Nat
  entry : Option IndexEntry
  found : Bool
  deriving Repr

/-- `binarySearch`: the loop (it halves `j - i ≤ n`, so `n + 1` rounds suffice), then the read at the
offset it ended on; end-of-file there = "offset n, not found" -/
def DiskIdx.binarySearch (d : DiskIdx) (target : Bytes) : DiskIdx × Except Err BsRes :=
  let n := d.file.length
  match DiskIdx.bsLoop target (n + 1) d 0 n with
  | (d1, .error e) => (d1, .error e)
  | (d1, .ok i) =>
    match d1.findAt i with
    | (d2, _, some .eof) => (d2, .ok ⟨n, none, false⟩)
    | (d2, _, some e) => (d2, .error e)
    | (d2, en, none) => (d2, .ok ⟨i, some en, decide (i < n) && bytesCmp (en.key.getD []) target == .eq⟩)

def DiskIdx.contains (d : DiskIdx) (key : Bytes) : DiskIdx × Except Err Bool :=
  match d.binarySearch key with
  | (d', .error e) => (d', .error e)
  | (d', .ok r) => (d', .ok r.found)

def DiskIdx.get (d : DiskIdx) (key : Bytes) : DiskIdx × Except Err IndexVal :=
  match d.binarySearch key with
  | (d', .error e) => (d', .error e)
  | (d', .ok r) =>
    match r.found, r.entry with
    | true, some en => (d', .ok ⟨en.valueOffset, en.checksum⟩)
    | _, _ => (d', .error .notFound)

/-- `DiskKeyIndexIterator`: note that only the SEEK START is compared with `endOffset` -/
def diskIter (c : Compression) (file : Bytes) : Nat → Nat → Nat → Iter
  | 0, _, _ => ([], .err .other)
  | fuel + 1, cur, endOff =>
    if cur > endOff then ([], .done) else
    match seekNext c file cur with
    | .error .eof => ([], .done)
    | .error e => ([], .err e)
    | .ok (o, r) =>
      match decIndexEntry (r.getD []) with
      | (_, some e) => ([], .err e)
      | (en, none) =>
        let (rest, fin) := diskIter c file fuel (o + 1) endOff
        (en.toI :: rest, fin)

def DiskIdx.iter (d : DiskIdx) (start endOff : Nat) : Iter :=
  diskIter d.c d.file (d.file.length + 2) start endOff

def DiskIdx.all (d : DiskIdx) : Iter := d.iter fileHeaderSize d.file.length

def DiskIdx.from (d : DiskIdx) (key : Bytes) : DiskIdx × Except Err Iter :=
  match d.binarySearch key with
  | (d', .error e) => (d', .error e)
  | (d', .ok r) => (d', .ok (d'.iter r.off d'.file.length))

/-- `IteratorBetween`.  When `keyHigher` is not found the iterator must stop BEFORE the record the search
ended on: `endOffset - 1`; with `endOffset = 0` (the bound lies below every key) the answer is the empty
iterator `newIterator(1, 0)` (fix 90fd3ef) -/
def DiskIdx.between (d : DiskIdx) (lo hi : Bytes) : DiskIdx × Except Err Iter :=
  if bytesCmp lo hi == .gt then (d, .error .rejected) else
  match d.binarySearch lo with
  | (d1, .error e) => (d1, .error e)
  | (d1, .ok rlo) =>
    match d1.binarySearch hi with
    | (d2, .error e) => (d2, .error e)
    | (d2, .ok rhi) =>
      if rhi.found then (d2, .ok (d2.iter rlo.off rhi.off))
      else if rhi.off = 0 then (d2, .ok (d2.iter 1 0))
      else (d2, .ok (d2.iter rlo.off (rhi.off - 1)))

/-! ## table reader -/

/-- `SSTableReader` without its index: mapped data file, its compressor, bloom filter, options, metadata -/
structure Reader where
  data : Bytes
  dc : Compression
  bloom : Option (Bytes → Bool)     -- `nil` when `bloom.bf.gz` does not exist
  skipHashOnRead : Bool             -- `skipHashCheckOnRead` (default true)
  md : Meta

/-- `getValueAtOffset`.  Only the BARE `io.EOF` of `ReadNextAt` is swallowed (`err != io.EOF`), which the
mmap reader returns exactly when the offset equals the file size; the value is then nil.  A zero stored
checksum disables the comparison ("legacy" bypass).  On a mismatch the Go code returns the value together
with the error; the model keeps the error only. -/
def getValueAtOffset (dc : Compression) (data : Bytes) (iv : IndexVal) (skipHash : Bool) : Except Err GoBytes :=
  let r : Except Err GoBytes := if iv.off = data.length then .ok none else readAt dc data iv.off
  match r with
  | .error e => .error e
  | .ok v =>
    if skipHash then .ok v
    else if valueSum v ≠ iv.sum then (if iv.sum = 0 then .ok v else .error .checksum)
    else .ok v

/-- `Reader.Get` given the index answer -/
def Reader.getWith (r : Reader) (iv : Except Err IndexVal) : Except Err GoBytes :=
  match iv with
  | .error e => .error e
  | .ok iv => getValueAtOffset r.dc r.data iv r.skipHashOnRead

/-- `Reader.Contains` given the index answer: the bloom filter may only short-cut to "absent" -/
def Reader.containsWith (r : Reader) (key : Bytes) (idx : Except Err Bool) : Except Err Bool :=
  match r.bloom with
  | some bf => if bf key then idx else .ok false
  | none => idx

/-- scan result: pairs delivered, then `Done` or the error of the failing step -/
abbrev ScanRes := List (GoBytes × GoBytes) × IterEnd

/-- `SSTableIterator.Next` repeated: key iterator + `getValueAtOffset` per step -/
def scanWith (dc : Compression) (data : Bytes) (skipHash : Bool) : List IEntry → IterEnd → ScanRes
  | [], fin => ([], fin)
  | e :: es, fin =>
    match getValueAtOffset dc data e.2 skipHash with
    | .error err => ([], .err err)
    | .ok v =>
      let (rest, fin') := scanWith dc data skipHash es fin
      ((e.1, v) :: rest, fin')

def Reader.scanIter (r : Reader) (it : Iter) : ScanRes := scanWith r.dc r.data r.skipHashOnRead it.1 it.2

/-- `SSTableFullScanIterator.Next` repeated: key iterator paired with a sequential reader of the data file
(no swallowed EOF here; the zero-checksum bypass is the same) -/
def fullScanS (c : Compression) (skipHash : Bool) : List IEntry → IterEnd → Bytes → ScanRes
  | [], fin, _ => ([], fin)
  | e :: es, fin, s =>
    match readNextS c s with
    | .error err => ([], .err err)
    | .ok (v, n) =>
      if !skipHash && valueSum v ≠ e.2.sum && e.2.sum ≠ 0 then ([], .err .checksum)
      else
        let (rest, fin') := fullScanS c skipHash es fin (s.drop n)
        ((e.1, v) :: rest, fin')

/-- `Reader.Scan`: a fresh sequential reader on `data.rio` paired with the index iterator -/
def Reader.fullScan (comps : Nat → Compression) (r : Reader) (it : Iter) : Except Err ScanRes :=
  match openSeq comps r.data with
  | .error e => .error e
  | .ok (c, s) => .ok (fullScanS c r.skipHashOnRead it.1 it.2 s)

/-- `validateDataFile` (verify on load): every indexed value is re-read and hashed -/
def validateData (dc : Compression) (data : Bytes) (it : Iter) : Except Err Unit :=
  match scanWith dc data false it.1 it.2 with
  | (_, .done) => .ok ()
  | (_, .err e) => .error e

/-! ## the loaded index of each loader, and `NewSSTableReader` -/

inductive LoaderKind where
  | slice
  | skip (heights : List Nat)
  | map (n : Nat)
  | disk
  deriving Repr

inductive Index where
  | slice (es : List IEntry)
  | skip (s : SkipIdx)
  | map (n : Nat) (es : List IEntry)
  | disk (d : DiskIdx)

/-- `IndexLoader.Load` followed by `index.Open()` -/
def loadIndex (comps : Nat → Compression) (k : LoaderKind) (indexFile : Bytes) : Except Err Index :=
  match k with
  | .slice => (loadEntries comps indexFile).map Index.slice
  | .skip hs =>
    match loadEntries comps indexFile with
    | .error e => .error e
    | .ok es => (skipLoad es hs).map Index.skip
  | .map n =>
    match loadEntries comps indexFile with
    | .error e => .error e
    | .ok es => if mapLoadOk n es then .ok (Index.map n es) else .error .other    -- the mapper panics
  | .disk =>
    match openMmap comps indexFile with
    | .error e => .error e
    | .ok c => .ok (Index.disk { file := indexFile, c := c, cache := [] })

/-- the full iterator of an index (the disk iterator does not touch the offset cache) -/
def Index.all : Index → Iter
  | .slice es => sliceAll es
  | .skip s => skipAll s
  | .map _ es => sliceAll es
  | .disk d => d.all

structure ReadOpts where
  skipHashOnLoad : Bool := false
  skipHashOnRead : Bool := true

/-- `NewSSTableReader` on the three files, with the bloom filter as read from `bloom.bf.gz` -/
def openTable (comps : Nat → Compression) (k : LoaderKind) (o : ReadOpts) (t : Table)
    (bloom : Option (Bytes → Bool)) : Except Err (Reader × Index) :=
  match decMeta t.metaf with
  | .error e => .error e
  | .ok md =>
    match loadIndex comps k t.index with
    | .error e => .error e
    | .ok idx =>
      if md.version = 0 then .error .other       -- v0 tables (protobuf data entries) are not modelled
      else
        match openMmap comps t.data with
        | .error e => .error e
        | .ok dc =>
          let r : Reader := { data := t.data, dc := dc, bloom := bloom, skipHashOnRead := o.skipHashOnRead, md := md }
          if o.skipHashOnLoad then .ok (r, idx)
          else
            match validateData dc t.data idx.all with
            | .error e => .error e
            | .ok _ => .ok (r, idx)

/-! ## the reader API.  The index is threaded as a state because the disk loader's offset cache changes
with every lookup (transparently: it only ever holds what a fresh read returns, see
SST/Proofs/SSTableDiskLookup.lean); the in-memory loaders never change. -/

/-- `index.Get`; `none` = the call panics (map loader, key longer than the mapper's width) -/
def Index.get : Index → Bytes → Index × Option (Except Err IndexVal)
  | .slice es, k => (.slice es, some (sliceGet es k))
  | .skip s, k => (.skip s, some (skipGet s k))
  | .map n es, k => (.map n es, mapGet n es k)
  | .disk d, k => let (d', r) := d.get k; (.disk d', some r)

def Index.contains : Index → Bytes → Index × Option (Except Err Bool)
  | .slice es, k => (.slice es, some (.ok (sliceContains es k)))
  | .skip s, k => (.skip s, some (.ok (skipContains s k)))
  | .map n es, k => (.map n es, (mapContains n es k).map .ok)
  | .disk d, k => let (d', r) := d.contains k; (.disk d', some r)

def Index.from : Index → Bytes → Index × Except Err Iter
  | .slice es, k => (.slice es, .ok (sliceFrom es k))
  | .skip s, k => (.skip s, .ok (skipFrom s k))
  | .map n es, k => (.map n es, .ok (sliceFrom es k))
  | .disk d, k => let (d', r) := d.from k; (.disk d', r)

def Index.between : Index → Bytes → Bytes → Index × Except Err Iter
  | .slice es, lo, hi => (.slice es, sliceBetween es lo hi)
  | .skip s, lo, hi => (.skip s, skipBetween s lo hi)
  | .map n es, lo, hi => (.map n es, sliceBetween es lo hi)
  | .disk d, lo, hi => let (d', r) := d.between lo hi; (.disk d', r)

/-- `Get`; `none` = the call panics -/
def Reader.get (r : Reader) (idx : Index) (key : Bytes) : Index × Option (Except Err GoBytes) :=
  let (idx', iv) := idx.get key
  (idx', iv.map r.getWith)

/-- `Contains`: the bloom filter is consulted first, so a bloom miss never reaches the index -/
def Reader.contains (r : Reader) (idx : Index) (key : Bytes) : Index × Option (Except Err Bool) :=
  match r.bloom with
  | some bf => if bf key then idx.contains key else (idx, some (.ok false))
  | none => idx.contains key

def Reader.scan (comps : Nat → Compression) (r : Reader) (idx : Index) : Except Err ScanRes :=
  r.fullScan comps idx.all

def Reader.scanFrom (r : Reader) (idx : Index) (key : Bytes) : Index × Except Err ScanRes :=
  let (idx', it) := idx.from key
  (idx', it.map r.scanIter)

def Reader.scanRange (r : Reader) (idx : Index) (lo hi : Bytes) : Index × Except Err ScanRes :=
  let (idx', it) := idx.between lo hi
  (idx', it.map r.scanIter)

end SST
