/-
L4a: skiplist/map_generic.go.  The list is kept as its level-0 order; a node of height h is linked
into levels 0 … h-1, so "the next node at level l" is the next node whose height exceeds l.  The
descent `findGreaterOrEqual` and the iterators are as coded; the random height of every insert is an
explicit argument (all heights are quantified in the theorems).  Core Lean only.
-/
namespace SST

structure SNode (K V : Type) where
  key : K
  val : V
  height : Nat
  deriving Repr

structure SkipList (K V : Type) where
  nodes : List (SNode K V)
  maxHeight : Nat := 12

namespace SkipList
variable {K V : Type}

def empty : SkipList K V := { nodes := [] }

/-- index of the first node of `l` (whose head has index `i`) that is linked into `level` -/
def nextIdxL (level : Nat) : List (SNode K V) → Nat → Option Nat
  | [], _ => none
  | n :: ns, i => if n.height > level then some i else nextIdxL level ns (i + 1)

/-- index of the first node at position ≥ `start` that is linked into `level` -/
def nextIdx (nodes : List (SNode K V)) (level start : Nat) : Option Nat :=
  nextIdxL level (nodes.drop start) start

/-- `findGreaterOrEqual`: `start` = position right after the current node `x` (0 for the head).
Returns (index of the returned node if any, level-0 predecessor position). -/
def findGEAux (cmp : K → K → Ordering) (nodes : List (SNode K V)) (key : K) :
    Nat → Nat → Nat → Option Nat × Nat
  | 0, start, _ => (none, start)
  | fuel + 1, start, level =>
    match nextIdx nodes level start with
    | some j =>
      match nodes[j]? with
      | some n =>
        if cmp key n.key == .gt then findGEAux cmp nodes key fuel (j + 1) level
        else if level = 0 then (some j, start) else findGEAux cmp nodes key fuel start (level - 1)
      | none => (none, start)
    | none => if level = 0 then (none, start) else findGEAux cmp nodes key fuel start (level - 1)

def findGE (cmp : K → K → Ordering) (s : SkipList K V) (key : K) : Option Nat × Nat :=
  findGEAux cmp s.nodes key (s.nodes.length + s.maxHeight + 1) 0 (s.maxHeight - 1)

/-- `Insert` with the height the random generator produced; `none` = the Go code panics (duplicate key) -/
def insert (cmp : K → K → Ordering) (s : SkipList K V) (k : K) (v : V) (h : Nat) : Option (SkipList K V) :=
  let (nx, pos) := findGE cmp s k
  let dup := match nx.bind (s.nodes[·]?) with
    | some n => cmp k n.key == Ordering.eq
    | none => false
  if dup then none
  else some { s with nodes := s.nodes.take pos ++ [⟨k, v, h⟩] ++ s.nodes.drop pos }

def size (s : SkipList K V) : Nat := s.nodes.length

def get (cmp : K → K → Ordering) (s : SkipList K V) (k : K) : Option V :=
  match (findGE cmp s k).1.bind (s.nodes[·]?) with
  | some n => if cmp k n.key == .eq then some n.val else none
  | none => none

def contains (cmp : K → K → Ordering) (s : SkipList K V) (k : K) : Bool := (get cmp s k).isSome

/-- `Iterator`: everything from the head's level-0 successor -/
def iterAll (s : SkipList K V) : List (K × V) := s.nodes.map fun n => (n.key, n.val)

/-- `IteratorStartingAt` -/
def iterFrom (cmp : K → K → Ordering) (s : SkipList K V) (k : K) : List (K × V) :=
  match (findGE cmp s k).1 with
  | some j => (s.nodes.drop j).map fun n => (n.key, n.val)
  | none => []

/-- the `Next` loop of a bounded iterator: stop after the key equal to `hi`, or before the first larger one -/
def takeUpTo (cmp : K → K → Ordering) (hi : K) : List (SNode K V) → List (K × V)
  | [] => []
  | n :: ns =>
    match cmp n.key hi with
    | .eq => [(n.key, n.val)]
    | .gt => []
    | .lt => (n.key, n.val) :: takeUpTo cmp hi ns

/-- `IteratorBetween`; `none` = rejected (lower > upper) -/
def iterBetween (cmp : K → K → Ordering) (s : SkipList K V) (lo hi : K) : Option (List (K × V)) :=
  if cmp lo hi == .gt then none
  else match (findGE cmp s lo).1 with
    | some j => some (takeUpTo cmp hi (s.nodes.drop j))
    | none => some []

/-- insert a sequence (key, value, height); `none` if any insert panics -/
def insertAll (cmp : K → K → Ordering) : SkipList K V → List (K × V × Nat) → Option (SkipList K V)
  | s, [] => some s
  | s, (k, v, h) :: rest =>
    match insert cmp s k v h with
    | some s' => insertAll cmp s' rest
    | none => none

end SkipList
end SST
