/-
L6-fs, sessions: `Close` and re-`Open` as moves — whole HISTORIES of a SimpleDB directory.

`SST/Model/FSInterleave.lean` is ONE session after `Open`: client thread ∥ flusher ∥ compactor over the abstract disk.
This file wraps it (`SCfg` = `FSI.Cfg` + where `Close` is + the compactor goroutine's life) and adds the moves of
`DB.Close` as the code performs it now (simpledb/db.go, `Close`, lines 152-189):

  db.rwLock.Lock()                            `SMv.cbegin`   only when the db lock is free: client idle, no reflect
  db.closed = true                                            (from here on every client call is rejected)
  db.rotateWalAndFlushMemstore()               the SAME rotation moves as a forced rotation (`Mv.torn/append/close/
                                               create/header/handoff`); flush.go `rotateWalAndFlushMemstore` does NOT
                                               look at the memstore: the WAL is rotated even when the store is empty,
                                               the hand-off waits for an idle flusher (unbuffered channel), and
                                               `executeFlush` skips an empty store — its (header-only) WAL file STAYS
  close(db.storeFlushChannel)
  <-db.doneFlushChannel                        `SMv.cunlock`  enabled when the flusher has finished the handed-over
  db.rwLock.Unlock()                                          store (`fl = none`); the lock is held until here, so no
                                                              `reflectCompactionResult` starts in between
  db.compactionTicker.Stop()
  db.compactionTickerStopChannel <- true       (buffered, never blocks)
  <-db.doneCompactionChannel                   `SMv.kexit`    the compactor returns when it is between two cycles; a
                                                              cycle in progress — even one more cycle: `select` is
                                                              free to take a pending tick first — runs to its end,
                                                              `reflectCompactionResult` included (the db lock is free)
  db.wal.Close()                               `SMv.cwal` … `Mv.torn/append/close` … `SMv.cfinish`: Appender.Close =
                                               currentWriter.Close(): the writer's buffer is written out, the file is
                                               closed.  (The buffer is empty here: the file was created by the rotation
                                               above and nothing was appended since — proved, not assumed.)
  db.sstableManager.currentSSTable().Close()   no file-system call that matters

Client calls after `closed = true` return `ErrAlreadyClosed` under the lock: no event, no effect (`Mv.begin` in the
later phases only consumes the call).  With `enableCompactions = false` there is no compactor goroutine at all.

A HISTORY is a list of sessions.  Each session starts with `Open` — given as the event list `FS.recoverEvents`, cut
after any number of events any number of times before it runs to the end (a killed `Open`, C10) —, runs a client
program under a schedule (any list of moves; moves that are not enabled are skipped) and ENDS where the schedule
ends: if `Close` has completed there (`Ph.closed`, which is quiescent: client, flusher and compactor idle, nothing
buffered — `closed_is_quiescent`) the session ended `closed`, otherwise the process was killed at that point
(possibly inside `Close`).  `runHistory` is total and computable.  Core Lean only.
-/
import SST.Model.FSInterleave

namespace SST
namespace FSS
open DBM FS FSI

/-- where `Close` is -/
inductive Ph where
  | running      -- not called
  | locked       -- holds the db lock: rotation, hand-off, waiting for the flusher to finish
  | unlocked     -- lock released, stop signal sent: waiting for the compactor to return
  | walclosing   -- `wal.Close()`: the appender's buffer is written out, the file is closed
  | closed       -- returned
  deriving DecidableEq, Repr

structure SCfg where
  c : Cfg
  ph : Ph := .running
  comp : Bool := true        -- enableCompactions
  kstop : Bool := false      -- the compactor goroutine has returned
  deriving Repr

inductive SMv where
  | sys (mv : Mv)      -- a move of the open database (client / flusher / compactor)
  | cbegin             -- Close: takes the db lock, sets `closed`, starts the rotation
  | cunlock            -- Close: the flusher has returned (`doneFlushChannel`), the lock is released
  | kexit              -- compactor: takes the stop signal between two cycles and returns
  | cwal               -- Close: the compactor has returned (or there is none); `wal.Close()` begins
  | cfinish            -- Close: the last WAL file is closed, the readers are closed, Close returns
  deriving Repr

def reflecting (c : Cfg) : Bool :=
  match c.kj with
  | .reflecting .. => true
  | _ => false

def kIdle (c : Cfg) : Bool :=
  match c.kj with
  | .idle => true
  | _ => false

/-- `Close` has set `closed` and released the lock -/
def Ph.rejecting : Ph → Bool
  | .unlocked => true
  | .walclosing => true
  | .closed => true
  | _ => false

/-- a move of the open database, passed through -/
def pass (async : Bool) (sc : SCfg) (mv : Mv) : Option (Option Ev × SCfg) :=
  match move async sc.c mv with
  | some (e, c') => some (e, { sc with c := c' })
  | none => none

def smove (async : Bool) (sc : SCfg) : SMv → Option (Option Ev × SCfg)
  | .sys .begin =>
    (match sc.ph with
     | .running => pass async sc .begin
     | .locked => none                                  -- Close holds the db lock
     | _ =>                                             -- `closed`: ErrAlreadyClosed (checked under the db lock)
       match sc.c.prog with
       | _ :: rest => if reflecting sc.c then none else some (none, { sc with c := { sc.c with prog := rest } })
       | [] => none)
  | .sys .create => if sc.ph == .walclosing then none else pass async sc .create      -- Close() of the appender, not Rotate()
  | .sys .header => if sc.ph == .walclosing then none else pass async sc .header
  | .sys .handoff => if sc.ph == .walclosing then none else pass async sc .handoff
  | .sys (.kstart sizes th o) => if sc.comp && !sc.kstop then pass async sc (.kstart sizes th o) else none
  | .sys .kreflect => if sc.ph == .locked then none else pass async sc .kreflect     -- Close holds the db lock
  | .sys mv => pass async sc mv
  | .cbegin =>
    if sc.ph == .running && sc.c.pc == .idle && !reflecting sc.c then
      some (none, { sc with ph := .locked, c := { sc.c with pc := .rot0 } })
    else none
  | .cunlock =>
    if sc.ph == .locked && sc.c.pc == .idle && sc.c.fl.isNone then some (none, { sc with ph := .unlocked }) else none
  | .kexit =>
    if sc.ph == .unlocked && sc.comp && !sc.kstop && kIdle sc.c then some (none, { sc with kstop := true }) else none
  | .cwal =>
    if sc.ph == .unlocked && (!sc.comp || sc.kstop) then
      some (none, { sc with ph := .walclosing, c := { sc.c with pc := .rot0 } })
    else none
  | .cfinish =>
    if sc.ph == .walclosing && sc.c.pc == .rot1 then
      some (none, { sc with ph := .closed, c := { sc.c with pc := .idle } })
    else none

/-- a schedule is any list of moves; moves that are not enabled are skipped -/
def runS (async : Bool) : SCfg → List SMv → SCfg
  | sc, [] => sc
  | sc, mv :: rest =>
    match smove async sc mv with
    | some (_, sc') => runS async sc' rest
    | none => runS async sc rest

/-- the file-system calls made along a schedule -/
def traceS (async : Bool) : SCfg → List SMv → List Ev
  | _, [] => []
  | sc, mv :: rest =>
    match smove async sc mv with
    | some (some e, sc') => e :: traceS async sc' rest
    | some (none, sc') => traceS async sc' rest
    | none => traceS async sc rest

/-- quiescent: `Close` has returned, the three threads are idle, nothing is buffered -/
def quiescent (sc : SCfg) : Bool :=
  sc.ph == .closed && sc.c.pc == .idle && sc.c.fl.isNone && kIdle sc.c && sc.c.queue.isEmpty && !sc.c.tn

/-! ## histories -/

/-- a killed `Open`: cut after `m.1` calls; `m.2` = what half-removed tables show (`FS.detour`) -/
abbrev KilledOpen := Nat × List (Nat × Layer)

/-- the disk after a sequence of killed `Open`s (`C10.interrupted`) -/
def killedOpens : Disk → List KilledOpen → Disk
  | d, [] => d
  | d, m :: ms => killedOpens (applyEvs d ((recoverEvents d m.2).take m.1)) ms

def killedOpensEvents : Disk → List KilledOpen → List Ev
  | _, [] => []
  | d, m :: ms => (recoverEvents d m.2).take m.1 ++ killedOpensEvents (applyEvs d ((recoverEvents d m.2).take m.1)) ms

structure Session where
  async : Bool := false              -- EnableAsyncWAL
  comp : Bool := true                -- compactions enabled
  opts : Opts := {}
  opens : List KilledOpen := []      -- `Open` attempts that were killed, in order
  junk : List (Nat × Layer) := []    -- the completing `Open`: what half-removed tables show
  prog : List Op := []               -- the client's calls
  sched : List SMv := []             -- the schedule; the session ends where it ends

/-- ghost data of one session -/
structure Ghost where
  hist : List Mutation := []   -- the mutations of the accepted calls begun
  acked : Nat := 0             -- how many of them belong to calls that have returned
  mark : Nat := 0              -- `hist.length` at the last completed rotation
  ph : Ph := .running          -- where `Close` was when the session ended
  opened : Bool := false       -- `Open` succeeded
  deriving Repr

def Ghost.closed (g : Ghost) : Bool := g.ph == .closed

def ghostOf (sc : SCfg) : Ghost :=
  { hist := sc.c.hist, acked := sc.c.acked, mark := sc.c.mark, ph := sc.ph, opened := true }

/-- the disk when the completing `Open` has made all its calls -/
def openDisk (d : Disk) (s : Session) : Disk :=
  applyEvs (killedOpens d s.opens) (recoverEvents (killedOpens d s.opens) s.junk)

/-- the session right after `Open` (`none`: `Open` returned an error — never on a well-formed disk) -/
def sessionStart (d : Disk) (s : Session) : Option SCfg :=
  match recover (killedOpens d s.opens) s.opts with
  | .ok (_, s1) => some { c := start (openDisk d s) { s := s1 } s.prog, comp := s.comp }
  | .error _ => none

def sessionEnd (d : Disk) (s : Session) : Option SCfg :=
  match sessionStart d s with
  | some sc => some (runS s.async sc s.sched)
  | none => none

def runSession (d : Disk) (s : Session) : Disk × Ghost :=
  match sessionEnd d s with
  | some sc => (sc.c.d, ghostOf sc)
  | none => (openDisk d s, {})

/-- every file-system call of the session, `Open` attempts included -/
def sessionEvents (d : Disk) (s : Session) : List Ev :=
  killedOpensEvents d s.opens ++ recoverEvents (killedOpens d s.opens) s.junk ++
    match sessionStart d s with
    | some sc => traceS s.async sc s.sched
    | none => []

def runSessions : Disk → List Session → Disk × List Ghost
  | d, [] => (d, [])
  | d, s :: rest =>
    let r := runSession d s
    let r' := runSessions r.1 rest
    (r'.1, r.2 :: r'.2)

def sessionsEvents : Disk → List Session → List Ev
  | _, [] => []
  | d, s :: rest => sessionEvents d s ++ sessionsEvents (runSession d s).1 rest

/-- sessions, then possibly `Open` attempts that were all killed -/
structure History where
  sessions : List Session := []
  lastOpens : List KilledOpen := []

def runHistory (d : Disk) (H : History) : Disk × List Ghost :=
  let r := runSessions d H.sessions
  (killedOpens r.1 H.lastOpens, r.2)

def historyEvents (d : Disk) (H : History) : List Ev :=
  sessionsEvents d H.sessions ++ killedOpensEvents (runSessions d H.sessions).1 H.lastOpens

end FSS
end SST
