/-
L4b: memstore/memstore.go + memstore/memstore_sstable_iterator.go on top of the skip list model (L4a).

The Go store is a `skiplist.Map[[]byte, ValueStruct]` where `ValueStruct{value *[]byte}` holds a POINTER to a
slice variable; overwrites, deletes and tombstones assign through that pointer and never touch the skip list
again.  The model keeps that shape: the skip list maps a key to a pointer (`Nat`, index into `heap`), `heap`
is the list of allocated `[]byte` variables (nil = tombstone, `some []` = live empty value), and a pointer
is allocated as `heap.length` at the one place the Go code takes `&value` / `&vByte`.  Dereferencing a pointer
that was never allocated and inserting a duplicate key into the skip list (a Go panic) are kept visible as
`Res.panic`; the theorems show neither can happen.

Keys are `GoBytes`: `upsertInternal` rejects a nil key, the other entry points do not, and
`skiplist.BytesComparator` = `bytes.Compare` treats nil as the empty slice (`goCmp`).
`estimatedSize` is a Go `uint64`; the model computes the same expressions in `Int` so that a would-be
underflow shows up as a negative number.  `EstimatedSizeInBytes` (= `uint64(1.15*float32(estimatedSize))`)
is float arithmetic and is NOT modelled: the harness recomputes it in Go from the model's integer.
Random node heights are an explicit argument of every operation that may insert.  Core Lean only.
-/
import SST.Model.Bytes
import SST.Model.SkipList
namespace SST
namespace Mem

/-- `skiplist.BytesComparator.Compare` = `bytes.Compare` on Go slices: nil compares as empty -/
def goCmp (a b : GoBytes) : Ordering := bytesCmp (a.getD []) (b.getD [])

/-- Go `len` of a slice (`len(nil) = 0`), as an integer -/
def goLen (b : GoBytes) : Int := ((b.getD []).length : Nat)

/-- the five exported error values of package memstore -/
inductive MErr where
  | keyAlreadyExists | keyNotFound | keyTombstoned | keyNil | valueNil
  deriving DecidableEq, Repr

def MErr.toString : MErr → String
  | .keyAlreadyExists => "KeyAlreadyExists" | .keyNotFound => "KeyNotFound"
  | .keyTombstoned => "KeyTombstoned" | .keyNil => "KeyNil" | .valueNil => "ValueNil"

inductive Op where
  | add (k v : GoBytes)
  | upsert (k v : GoBytes)
  | delete (k : GoBytes)
  | deleteIfExists (k : GoBytes)
  | tombstone (k : GoBytes)
  | get (k : GoBytes)
  | contains (k : GoBytes)
  | isTombstoned (k : GoBytes)
  | size
  deriving DecidableEq, Repr

/-- what a call returns -/
inductive Res where
  | err (e : Option MErr)                 -- `error` result of Add/Upsert/Delete/DeleteIfExists/Tombstone (`none` = nil)
  | got (v : GoBytes) (e : Option MErr)   -- `([]byte, error)` of Get
  | bool (b : Bool)                       -- Contains / IsTombstoned
  | size (n : Nat)                        -- Size
  | panic                                 -- the Go code would panic (duplicate skip list insert / wild pointer)
  deriving DecidableEq, Repr

structure MemStore where
  sl : SkipList GoBytes Nat      -- key ↦ `ValueStruct.value` (pointer)
  heap : List GoBytes            -- the `[]byte` variables pointed to
  est : Int                      -- `estimatedSize`

/-- `NewMemStore` -/
def MemStore.empty : MemStore := { sl := SkipList.empty, heap := [], est := 0 }

/-- `element, err := m.skipListMap.Get(key)` followed by `*element.value` -/
inductive Found where
  | absent                      -- errors.Is(err, skiplist.NotFound)
  | cell (p : Nat) (cur : GoBytes)
  | wild                        -- pointer not allocated (cannot happen; kept visible)

def find (m : MemStore) (k : GoBytes) : Found :=
  match SkipList.get goCmp m.sl k with
  | none => .absent
  | some p =>
    match m.heap[p]? with
    | some cur => .cell p cur
    | none => .wild

/-- `*element.value = v; m.estimatedSize = <old> + delta` -/
def store (m : MemStore) (p : Nat) (v : GoBytes) (delta : Int) : MemStore :=
  { m with heap := m.heap.set p v, est := m.est + delta }

/-- `m.skipListMap.Insert(key, ValueStruct{value: &v}); m.estimatedSize += delta`; `none` = Insert panics -/
def alloc (m : MemStore) (k v : GoBytes) (h : Nat) (delta : Int) : Option MemStore :=
  match SkipList.insert goCmp m.sl k m.heap.length h with
  | some sl' => some { sl := sl', heap := m.heap ++ [v], est := m.est + delta }
  | none => none

/-- `upsertInternal(m, key, value, errorIfKeyExist)` -/
def upsertInternal (m : MemStore) (k v : GoBytes) (errorIfKeyExist : Bool) (h : Nat) : Res × MemStore :=
  match k with
  | none => (.err (some .keyNil), m)
  | some _ =>
    match v with
    | none => (.err (some .valueNil), m)
    | some _ =>
      match find m k with
      | .cell p cur =>
        if cur.isSome && errorIfKeyExist then (.err (some .keyAlreadyExists), m)
        else
          -- prevLen := len(*element.value); estimatedSize = estimatedSize - prevLen + len(value)
          (.err none, store m p v (- goLen cur + goLen v))
      | .absent =>
        match alloc m k v h (goLen k + goLen v) with
        | some m' => (.err none, m')
        | none => (.panic, m)
      | .wild => (.panic, m)

/-- `deleteInternal(m, key, errorIfKeyNotFound)`; no nil check on the key -/
def deleteInternal (m : MemStore) (k : GoBytes) (errorIfKeyNotFound : Bool) : Res × MemStore :=
  match find m k with
  | .absent => if errorIfKeyNotFound then (.err (some .keyNotFound), m) else (.err none, m)
  | .cell p cur => (.err none, store m p none (- goLen cur))
  | .wild => (.panic, m)

/-- `Tombstone(key)`; no nil check on the key -/
def tombstone (m : MemStore) (k : GoBytes) (h : Nat) : Res × MemStore :=
  match find m k with
  | .cell p cur => (.err none, store m p none (- goLen cur))
  | .absent =>
    -- `var vByte []byte` (nil); estimatedSize += len(key)
    match alloc m k none h (goLen k) with
    | some m' => (.err none, m')
    | none => (.panic, m)
  | .wild => (.panic, m)

def get (m : MemStore) (k : GoBytes) : Res :=
  match find m k with
  | .absent => .got none (some .keyNotFound)
  | .cell _ cur =>
    match cur with
    | none => .got none (some .keyTombstoned)
    | some v => .got (some v) none
  | .wild => .panic

def contains (m : MemStore) (k : GoBytes) : Res :=
  match find m k with
  | .absent => .bool false
  | .cell _ cur => .bool cur.isSome
  | .wild => .panic

/-- `IsTombstoned`: `skipListMap.Contains`, then `Get`, then the nil test -/
def isTombstoned (m : MemStore) (k : GoBytes) : Res :=
  if !(SkipList.contains goCmp m.sl k) then .bool false
  else
    match find m k with
    | .absent => .bool false
    | .cell _ cur => .bool cur.isNone
    | .wild => .panic

/-- one call; `h` = the height `randomHeight` would return if the call inserts a node -/
def step (m : MemStore) (op : Op) (h : Nat) : Res × MemStore :=
  match op with
  | .add k v => upsertInternal m k v true h
  | .upsert k v => upsertInternal m k v false h
  | .delete k => deleteInternal m k true
  | .deleteIfExists k => deleteInternal m k false
  | .tombstone k => tombstone m k h
  | .get k => (get m k, m)
  | .contains k => (contains m k, m)
  | .isTombstoned k => (isTombstoned m k, m)
  | .size => (.size m.sl.size, m)

/-- a program: every call with the height its insert (if any) draws -/
def run (m : MemStore) : List (Op × Nat) → List Res × MemStore
  | [] => ([], m)
  | (op, h) :: rest =>
    let (r, m1) := step m op h
    let (rs, m2) := run m1 rest
    (r :: rs, m2)

/-- dereference every value pointer of an iterator's output; `none` = a wild pointer -/
def derefAll (heap : List GoBytes) : List (GoBytes × Nat) → Option (List (GoBytes × GoBytes))
  | [] => some []
  | (k, p) :: rest =>
    match heap[p]? with
    | none => none
    | some v =>
      match derefAll heap rest with
      | none => none
      | some l => some ((k, v) :: l)

/-- `SStableIterator()` drained: `Next` returns `key, *val.value` for every node of `skipListMap.Iterator()` -/
def iter (m : MemStore) : Option (List (GoBytes × GoBytes)) := derefAll m.heap (SkipList.iterAll m.sl)

/-- the `writer.WriteNext(k, v)` calls `flushMemstore` issues as long as every call succeeds -/
def flushCalls (m : MemStore) (includeTombstones : Bool) : Option (List (GoBytes × GoBytes)) :=
  match iter m with
  | none => none
  | some l => some (l.filter fun e => includeTombstones || e.2.isSome)

/-- the loop of `flushMemstore` against an arbitrary writer: stops at the first failing `WriteNext` -/
def flushLoop {W E : Type} (writeNext : W → GoBytes → GoBytes → Except E W) (includeTombstones : Bool) :
    W → List (GoBytes × GoBytes) → Except E W
  | w, [] => .ok w
  | w, (k, v) :: rest =>
    if includeTombstones then
      match writeNext w k v with
      | .ok w' => flushLoop writeNext includeTombstones w' rest
      | .error e => .error e
    else if v.isSome then
      match writeNext w k v with
      | .ok w' => flushLoop writeNext includeTombstones w' rest
      | .error e => .error e
    else flushLoop writeNext includeTombstones w rest

/-- the key-order check at the head of `SSTableStreamWriter.WriteNext` (the byte-level table is layer L2/C03):
state = the calls accepted so far, newest first.  `lastKey` is a fresh non-nil copy after every accepted
call, so "lastKey != nil" is "at least one call was accepted". -/
inductive WErr where
  | sameKey | nonAscending
  deriving DecidableEq, Repr

def orderCheckingWriter (w : List (GoBytes × GoBytes)) (k v : GoBytes) : Except WErr (List (GoBytes × GoBytes)) :=
  match w with
  | [] => .ok [(k, v)]
  | (last, _) :: _ =>
    match goCmp last k with
    | .eq => .error .sameKey
    | .gt => .error .nonAscending
    | .lt => .ok ((k, v) :: w)

/-- `flushMemstore(m, includeTombstones)` against the order-checking writer: the accepted calls in call order -/
def flush (m : MemStore) (includeTombstones : Bool) : Option (Except WErr (List (GoBytes × GoBytes))) :=
  match iter m with
  | none => none
  | some l =>
    match flushLoop orderCheckingWriter includeTombstones [] l with
    | .ok w => some (.ok w.reverse)
    | .error e => some (.error e)

end Mem
end SST
