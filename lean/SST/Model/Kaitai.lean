/-
Kaitai layer (C20): a small interpreter for the part of the Kaitai Struct language that
`kaitai/recordio_v4.ksy` uses.  The *schema value* it interprets is regenerated from the .ksy on every
check run (tools/ksy2lean.py → SST/Generated/Kaitai.lean); the interpreter below is written by hand and
follows what the Kaitai-generated Go reader (`kaitai/gokaitai/recordio_v4.go`, `vlq_base128_le.go`) and
the Go runtime (`kaitai_struct_go_runtime/kaitai/stream.go`) do:

* `u1`, `u4` (little endian, `meta.endian: le`): `io.ReadFull` of 1 / 4 bytes – nothing left is `io.EOF`,
  fewer than asked is `io.ErrUnexpectedEOF`;
* `contents: [..]`: `ReadBytes(len)` then a comparison, `ValidationNotEqualError` on a difference
  (error kind `magic`);
* `size: <expr>`: `ReadBytes(expr)`; `ReadBytes(0)` succeeds at the end of the stream;
* `type: vlq_base128_le`: one `ReadU1` per group while the continuation bit `b & 128` is set (no group
  limit while *reading*; a missing group is `io.EOF` because every group is its own 1-byte read); the
  `.value` instance adds `(b & 127) << 7i` for the first `vlqMaxGroups` (= 8) groups only – later groups are
  consumed but ignored, so values ≥ 2^56 are truncated (a quirk of the published vlq schema, modelled);
* `repeat: eos`: `while !EOF() { read one record }`, the first error aborts the whole parse;
* value instances (`len_payload`) are evaluated over the fields already read (`record_nil`,
  `<vlq field>.value`), the root's header (`_root.file_header.<field>`) and enum literals.

Core Lean only (linked into the driver executable).
-/
import SST.Model.Bytes

namespace SST.Kaitai
open SST

/-! ## schema AST (the generated file builds values of these types) -/

/-- expression language of value instances / `size:` attributes (the subset the translator emits) -/
inductive KExpr where
  | int (n : Nat)                         -- integer literal
  | field (id : String)                   -- integer seq field of the current type (`record_nil`)
  | vlqValue (id : String)                -- `<id>.value` where `<id>` is a `vlq_base128_le` seq field
  | rootField (top : String) (id : String) -- `_root.<top>.<id>`
  | enumLit (enum : String) (name : String) -- `compression::none`
  | inst (id : String)                    -- value instance of the current type (`len_payload`)
  | eq (a b : KExpr)                      -- `a == b`
  | ne (a b : KExpr)                      -- `a != b`
  | xor (a b : KExpr)                     -- `a ^ b`
  | add (a b : KExpr)                     -- `a + b`
  | ite (c t e : KExpr)                   -- `c ? t : e`
  deriving DecidableEq, Repr, Inhabited

/-- what one `seq` entry reads -/
inductive KKind where
  | u1
  | u4le (enum : Option String)
  | vlq
  | contents (bytes : List UInt8)
  | sized (size : KExpr)
  deriving DecidableEq, Repr, Inhabited

structure KField where
  id : String
  kind : KKind
  deriving DecidableEq, Repr, Inhabited

structure KType where
  seq : List KField
  instances : List (String × KExpr)
  deriving DecidableEq, Repr, Inhabited

/-- an entry of the top-level `seq`: a user type, possibly `repeat: eos` -/
structure KTop where
  id : String
  type : String
  repeatEos : Bool
  deriving DecidableEq, Repr, Inhabited

structure Schema where
  id : String
  top : List KTop
  types : List (String × KType)
  enums : List (String × List (Nat × String))
  /-- number of groups the `value` instance of vlq_base128_le.ksy adds up -/
  vlqMaxGroups : Nat
  deriving Repr, Inhabited

/-! ## values -/

inductive KVal where
  | int (n : Nat)       -- u1 / u4 (an enum-typed u4 keeps its raw code, as the Go reader does)
  | vlq (value : Nat)   -- a vlq_base128_le object, represented by its `.value`
  | bytes (b : Bytes)
  deriving DecidableEq, Repr, Inhabited

abbrev Env := List (String × KVal)

/-- result of an expression -/
inductive V where
  | n (x : Nat)
  | b (x : Bool)
  deriving DecidableEq, Repr, Inhabited

/-! ## stream primitives (kaitai.Stream over an in-memory file) -/

/-- `ReadU1` -/
def readU1 : Bytes → Except Err (UInt8 × Bytes)
  | [] => .error .eof
  | b :: bs => .ok (b, bs)

/-- `ReadBytes(n)` = `io.ReadFull` into a fresh n-byte slice -/
def readBytes (n : Nat) (s : Bytes) : Except Err (Bytes × Bytes) :=
  if n = 0 then .ok ([], s)
  else if s.length = 0 then .error .eof
  else if s.length < n then .error .unexpectedEof
  else .ok (s.take n, s.drop n)

/-- `ReadU4le` -/
def readU4le (s : Bytes) : Except Err (Nat × Bytes) := do
  let (b, rest) ← readBytes 4 s
  match le32Dec b with
  | some v => pure (v, rest)
  | none => throw .other

/-- `VlqBase128Le.Read`: groups until one without the continuation bit; returns the groups and the rest -/
def vlqGroups : Bytes → Except Err (List UInt8 × Bytes)
  | [] => .error .eof
  | b :: bs =>
    if b &&& 128 != 0 then
      match vlqGroups bs with
      | .ok (g, r) => .ok (b :: g, r)
      | .error e => .error e
    else .ok ([b], bs)

/-- `VlqBase128Le.Value`: `groups[0].value + (len >= 2 ? groups[1].value << 7 : 0) + …` for the first
`maxGroups` groups; `i` is the index of the head of the list -/
def vlqValueAux (maxGroups : Nat) : List UInt8 → Nat → Nat
  | [], _ => 0
  | b :: bs, i => if i ≥ maxGroups then 0 else ((b &&& 127).toNat <<< (7 * i)) + vlqValueAux maxGroups bs (i + 1)

def vlqValue (maxGroups : Nat) (g : List UInt8) : Nat := vlqValueAux maxGroups g 0

def readVlq (maxGroups : Nat) (s : Bytes) : Except Err (Nat × Bytes) :=
  match vlqGroups s with
  | .ok (g, r) => .ok (vlqValue maxGroups g, r)
  | .error e => .error e

/-! ## expressions -/

def lookupEnum (sch : Schema) (enum name : String) : Option Nat :=
  match sch.enums.lookup enum with
  | some tab => (tab.find? (fun p => p.2 == name)).map (·.1)
  | none => none

/-- expressions without instance references.  `hdrTop` is the id of the top-level header field and `root`
its parsed fields (what `_root.<hdrTop>.<id>` can see), `env` the fields of the current object read so far.
Anything the interpreter cannot make sense of is `Err.other` (never a default value). -/
def evalBase (sch : Schema) (hdrTop : String) (root env : Env) : KExpr → Except Err V
  | .int n => .ok (.n n)
  | .field id =>
    match env.lookup id with
    | some (.int n) => .ok (.n n)
    | _ => .error .other
  | .vlqValue id =>
    match env.lookup id with
    | some (.vlq n) => .ok (.n n)
    | _ => .error .other
  | .rootField top id =>
    if top == hdrTop then
      match root.lookup id with
      | some (.int n) => .ok (.n n)
      | _ => .error .other
    else .error .other
  | .enumLit enum name =>
    match lookupEnum sch enum name with
    | some code => .ok (.n code)
    | none => .error .other
  | .inst _ => .error .other
  | .eq a b =>
    match evalBase sch hdrTop root env a, evalBase sch hdrTop root env b with
    | .ok (.n x), .ok (.n y) => .ok (.b (x == y))
    | .ok (.b x), .ok (.b y) => .ok (.b (x == y))
    | _, _ => .error .other
  | .ne a b =>
    match evalBase sch hdrTop root env a, evalBase sch hdrTop root env b with
    | .ok (.n x), .ok (.n y) => .ok (.b (x != y))
    | .ok (.b x), .ok (.b y) => .ok (.b (x != y))
    | _, _ => .error .other
  | .xor a b =>
    match evalBase sch hdrTop root env a, evalBase sch hdrTop root env b with
    | .ok (.n x), .ok (.n y) => .ok (.n (x ^^^ y))
    | _, _ => .error .other
  | .add a b =>
    match evalBase sch hdrTop root env a, evalBase sch hdrTop root env b with
    | .ok (.n x), .ok (.n y) => .ok (.n (x + y))
    | _, _ => .error .other
  | .ite c t e =>
    match evalBase sch hdrTop root env c with
    | .ok (.b true) => evalBase sch hdrTop root env t
    | .ok (.b false) => evalBase sch hdrTop root env e
    | _ => .error .other

/-- an expression as used in `size:`: a reference to a value instance of the current type is resolved once
(instances that refer to other instances are not supported: `Err.other`) -/
def evalNat (sch : Schema) (hdrTop : String) (root : Env) (ty : KType) (env : Env) (e : KExpr) : Except Err Nat :=
  let body : Except Err KExpr :=
    match e with
    | .inst id =>
      match ty.instances.lookup id with
      | some b => .ok b
      | none => .error .other
    | e => .ok e
  match body with
  | .error err => .error err
  | .ok b =>
    match evalBase sch hdrTop root env b with
    | .ok (.n x) => .ok x
    | .ok (.b _) => .error .other
    | .error err => .error err

/-! ## seq interpreter -/

def parseField (sch : Schema) (hdrTop : String) (root : Env) (ty : KType) (env : Env) (f : KField) (s : Bytes) :
    Except Err (KVal × Bytes) :=
  match f.kind with
  | .u1 =>
    match readU1 s with
    | .ok (b, r) => .ok (.int b.toNat, r)
    | .error e => .error e
  | .u4le _ =>
    match readU4le s with
    | .ok (v, r) => .ok (.int v, r)
    | .error e => .error e
  | .vlq =>
    match readVlq sch.vlqMaxGroups s with
    | .ok (v, r) => .ok (.vlq v, r)
    | .error e => .error e
  | .contents want =>
    match readBytes want.length s with
    | .ok (b, r) => if b = want then .ok (.bytes b, r) else .error .magic
    | .error e => .error e
  | .sized size =>
    match evalNat sch hdrTop root ty env size with
    | .ok n =>
      match readBytes n s with
      | .ok (b, r) => .ok (.bytes b, r)
      | .error e => .error e
    | .error e => .error e

/-- the fields of one object in order; returns the environment and the unread rest of the stream -/
def parseSeq (sch : Schema) (hdrTop : String) (root : Env) (ty : KType) : List KField → Env → Bytes → Except Err (Env × Bytes)
  | [], env, s => .ok (env, s)
  | f :: fs, env, s =>
    match parseField sch hdrTop root ty env f s with
    | .ok (v, r) => parseSeq sch hdrTop root ty fs (env ++ [(f.id, v)]) r
    | .error e => .error e

def parseObj (sch : Schema) (hdrTop : String) (root : Env) (ty : KType) (s : Bytes) : Except Err (Env × Bytes) :=
  parseSeq sch hdrTop root ty ty.seq [] s

/-! ## the two objects the properties talk about -/

structure FileHdr where
  version : Nat
  compression : Nat
  deriving DecidableEq, Repr, Inhabited

/-- what the reader exposes per record: `RecordNil`, the three vlq `.value`s and `Payload` -/
structure KRecord where
  recordNil : Nat
  ulen : Nat
  clen : Nat
  crc : Nat
  payload : Bytes
  deriving DecidableEq, Repr, Inhabited

def KRecord.isNil (r : KRecord) : Bool := r.recordNil == 1

def mkHdr (env : Env) : Except Err FileHdr :=
  match env.lookup "version", env.lookup "compression_type" with
  | some (.int v), some (.int c) => .ok { version := v, compression := c }
  | _, _ => .error .other

def mkRecord (env : Env) : Except Err KRecord :=
  match env.lookup "record_nil", env.lookup "uncompressed_payload_len", env.lookup "compressed_payload_len",
        env.lookup "crc32_checksum", env.lookup "payload" with
  | some (.int n), some (.vlq u), some (.vlq c), some (.vlq k), some (.bytes p) =>
    .ok { recordNil := n, ulen := u, clen := c, crc := k, payload := p }
  | _, _, _, _, _ => .error .other

/-- `repeat: eos`: `for { if EOF() break; read one }` -/
def parseRecords (sch : Schema) (hdrTop : String) (root : Env) (ty : KType) : Nat → Bytes → Except Err (List KRecord)
  | 0, _ => .error .other
  | fuel + 1, s =>
    if s.isEmpty then .ok []
    else
      match parseObj sch hdrTop root ty s with
      | .error e => .error e
      | .ok (env, rest) =>
        match mkRecord env with
        | .error e => .error e
        | .ok r =>
          match parseRecords sch hdrTop root ty fuel rest with
          | .ok rs => .ok (r :: rs)
          | .error e => .error e

/-- `RecordioV4.Read`: the top-level seq must be `<header object>, <record object repeat: eos>` -/
def kaitaiParse (sch : Schema) (file : Bytes) : Except Err (FileHdr × List KRecord) :=
  match sch.top with
  | [h, r] =>
    if h.repeatEos || !r.repeatEos then .error .other else
    match sch.types.lookup h.type, sch.types.lookup r.type with
    | some hty, some rty =>
      match parseObj sch h.id [] hty file with
      | .error e => .error e
      | .ok (henv, rest) =>
        match mkHdr henv with
        | .error e => .error e
        | .ok hdr =>
          match parseRecords sch h.id henv rty (rest.length + 1) rest with
          | .ok rs => .ok (hdr, rs)
          | .error e => .error e
    | _, _ => .error .other
  | _ => .error .other

end SST.Kaitai
