/-
L7: the lock / channel structure of simpledb as an interleaving semantics over micro-steps at LOCK GRANULARITY
(simpledb/db.go, flush.go, sstable_manager.go, compaction.go).  Core Lean only.

Threads: any number of clients (thread ids are natural numbers), the memstore flusher, the compactor, and
the verification hook thread (forced rotations).  A schedule is a list of labelled micro-steps; `step?` is
defined exactly on the micro-steps that the locks admit in the current configuration.

What one micro-step stands for in the Go code (the regenerated lock facts in SST/Generated/Access.lean are
the tie for "every client method takes the lock as stated here"):

* `inv t op` / `resp t`    the call and the return of a client method (no lock is held at either moment);
* `write t rot`            the critical section of `PutBytes` / `DeleteBytes`: `db.rwLock.Lock()` … `Unlock()`.
                           It is atomic at this granularity because the exclusive lock excludes every other
                           step that needs `db.rwLock` in either mode.  For a put, `rot` says whether the size
                           estimate exceeded the limit, i.e. whether `rotateWalAndFlushMemstore` runs INSIDE
                           the critical section: `swapMemstore` is evaluated, then the unbuffered channel send
                           blocks until the flusher has installed its previous table (the flusher needs only
                           the manager lock for that, so it is not blocked by the writer) — `DBM.rotate` is
                           that sequence (`flushStep`, swap, hand-off);
* `readTables t`           first half of `GetBytes`: `db.rwLock.RLock()`, the `open/closed` checks and
                           `sstableManager.currentSSTable()` (a snapshot of the stacked reader taken under the
                           manager READ lock) followed by the table lookup on that snapshot;
* `readMem t`              second half of `GetBytes`: `db.memStore.Get`, then `RUnlock()`.
                           Between the two halves the caller holds the db READ lock: steps that need the db
                           WRITE lock (`write`, `hookRotate`, `reflect`) are not admitted, everything else is —
                           in particular other clients' `readTables`/`readMem` and the flusher's `addReader`;
* `addReader`              the flusher finishes `executeFlush`: `sstableManager.addReader` under the manager
                           lock only (= `DBM.flushStep`; writing the table file before that has no visible
                           effect);
* `select sizes`           the compactor's `candidateTablesForCompaction` (manager read lock): it fixes the set
                           of tables it looks at — the live list of THAT moment — and then merges without
                           any lock; nothing is visible until
* `reflect`                `reflectCompactionResult`: db WRITE lock, then manager lock; the result replaces the
                           selected run.  Tables that the flusher appended after `select` are untouched
                           (the selection was made on a prefix of the present list: tables are only ever
                           appended at the end, and only this thread removes any);
* `hookRotate`             `VerifRotate` (verif build tag): the same code path as a size-triggered rotation,
                           under the db write lock.

MODELLED, NOT VERIFIED: that `sync.RWMutex` provides mutual exclusion (writer vs. everybody, readers shared),
that the unbuffered channel hands the store over only when the flusher is receiving, the Go scheduler and the
Go memory model (a critical section's writes are visible to the next holder of the lock).  The model cannot
exhibit a behaviour that needs finer-than-lock granularity.
-/
import SST.Model.DB

namespace SST
namespace Conc
open DBM

/-- a client call (what the caller passes; whether a put rotates is not the caller's choice) -/
inductive Op where
  | put (k v : GoBytes)
  | del (k : GoBytes)
  | get (k : Key)
  deriving Repr, DecidableEq

/-- labelled micro-steps -/
inductive Ev where
  | inv (t : Nat) (op : Op)
  | write (t : Nat) (rot : Bool)
  | readTables (t : Nat)
  | readMem (t : Nat)
  | resp (t : Nat)
  | hookRotate
  | addReader
  | select (sizes : List Nat)
  | reflect
  deriving Repr

abbrev Sched := List Ev

/-- where a client thread is inside its current call -/
inductive CState where
  | idle
  | invoked (op : Op) (inv : Nat)                  -- called, no lock taken yet
  | reading (k : Key) (inv : Nat) (snap : State)   -- `GetBytes` between its two halves; `snap` = what the first half saw
  | done (op : Op) (inv : Nat) (res : Res)         -- lock released, not yet returned to the caller

/-- the invocation index of the call a thread is in -/
def CState.inv? : CState → Option Nat
  | .idle => none
  | .invoked _ i => some i
  | .reading _ i _ => some i
  | .done _ i _ => some i

/-- an invocation event of the history -/
structure Call where
  thread : Nat
  op : Op
  inv : Nat
  deriving Repr

/-- a completed call of the history: (thread, op, invocation index, response index, result); the indices are
positions in the schedule -/
structure HEntry where
  thread : Nat
  op : Op
  inv : Nat
  resp : Nat
  res : Res
  deriving Repr

/-- effect log (auxiliary, never read by the semantics): the calls in the order of their lock-protected step —
`write` for put/delete, `readTables` for get — with the position `pos` of that step and, for a get, the answer
an atomic `GetBytes` would have given at that position -/
structure Eff where
  thread : Nat
  op : Op
  inv : Nat
  pos : Nat
  res : Res
  deriving Repr

structure Conf where
  db : State
  cl : Nat → CState
  rlock : List Nat                      -- client threads holding `db.rwLock` in READ mode
  comp : Option (Nat × List Nat)        -- compactor between `select` and `reflect`: number of tables seen, their sizes
  now : Nat                             -- number of micro-steps executed = index of the next one
  calls : List Call                     -- history: invocations, NEWEST FIRST
  hist : List HEntry                    -- history: completed calls, newest first
  effs : List Eff                       -- auxiliary effect log, newest first

def init (s : State) : Conf :=
  { db := s, cl := fun _ => .idle, rlock := [], comp := none, now := 0, calls := [], hist := [], effs := [] }

def Conf.setCl (c : Conf) (t : Nat) (st : CState) : Nat → CState :=
  fun x => if x = t then st else c.cl x

/-- the second half of `GetBytes` run in state `cur`, after the first half saw `snap`: flags and tables come
from the first half, the memstore pair is read now -/
def readMemRes (snap cur : State) (k : Key) : Res :=
  DBM.get { snap with w := cur.w, r := cur.r } k

/-- `reflectCompactionResult` for a selection that was made when the live list had `n` tables: the compaction
cycle acts on that prefix, the tables appended since stay where they are.  With `n = s.tables.length` this is
`DBM.compactStep` (`reflectOn_fresh`). -/
def reflectOn (s : State) (n : Nat) (sizes : List Nat) : State :=
  { s with tables := (compactStep { s with tables := s.tables.take n } sizes).1.tables ++ s.tables.drop n }

/-- one micro-step; `none` = the locks (or the thread's own control flow) do not admit it here -/
def step? (c : Conf) : Ev → Option Conf
  | .inv t op =>
    match c.cl t with
    | .idle => some { c with cl := c.setCl t (.invoked op c.now), calls := ⟨t, op, c.now⟩ :: c.calls,
                             now := c.now + 1 }
    | _ => none
  | .write t rot =>
    if !c.rlock.isEmpty then none else          -- `Lock()` waits for every reader
    match c.cl t with
    | .invoked (.put k v) i =>
      let (db', r) := putBytes c.db k v rot
      some { c with db := db', cl := c.setCl t (.done (.put k v) i r),
                    effs := ⟨t, .put k v, i, c.now, r⟩ :: c.effs, now := c.now + 1 }
    | .invoked (.del k) i =>
      let (db', r) := deleteBytes c.db k
      some { c with db := db', cl := c.setCl t (.done (.del k) i r),
                    effs := ⟨t, .del k, i, c.now, r⟩ :: c.effs, now := c.now + 1 }
    | _ => none
  | .readTables t =>                            -- `RLock()`: no writer is inside (writers are atomic steps)
    match c.cl t with
    | .invoked (.get k) i =>
      some { c with cl := c.setCl t (.reading k i c.db), rlock := t :: c.rlock,
                    effs := ⟨t, .get k, i, c.now, DBM.get c.db k⟩ :: c.effs, now := c.now + 1 }
    | _ => none
  | .readMem t =>
    match c.cl t with
    | .reading k i snap =>
      some { c with cl := c.setCl t (.done (.get k) i (readMemRes snap c.db k)),
                    rlock := c.rlock.filter (· != t), now := c.now + 1 }
    | _ => none
  | .resp t =>
    match c.cl t with
    | .done op i r => some { c with cl := c.setCl t .idle, hist := ⟨t, op, i, c.now, r⟩ :: c.hist,
                                    now := c.now + 1 }
    | _ => none
  | .hookRotate =>
    if !c.rlock.isEmpty then none else
    some { c with db := (DBM.step c.db .rotate).1, now := c.now + 1 }
  | .addReader => some { c with db := flushStep c.db, now := c.now + 1 }
  | .select sizes =>
    match c.comp with
    | none => some { c with comp := some (c.db.tables.length, sizes), now := c.now + 1 }
    | some _ => none
  | .reflect =>
    if !c.rlock.isEmpty then none else
    match c.comp with
    | some (n, sizes) => some { c with db := reflectOn c.db n sizes, comp := none, now := c.now + 1 }
    | none => none

/-- run a schedule; `none` as soon as a micro-step is not admitted -/
def run (c : Conf) : Sched → Option Conf
  | [] => some c
  | e :: es =>
    match step? c e with
    | some c' => run c' es
    | none => none

/-- the validity predicate: every micro-step is admitted by the locks where it stands -/
def Valid (s0 : State) (sched : Sched) : Prop := (run (init s0) sched).isSome = true

instance (s0 : State) (sched : Sched) : Decidable (Valid s0 sched) := by unfold Valid; infer_instance

/-- `exec`: the history a valid schedule produces (invocations, completed calls; both in chronological order) -/
def exec (s0 : State) (sched : Sched) : Option (List Call × List HEntry) :=
  (run (init s0) sched).map fun c => (c.calls.reverse, c.hist.reverse)

end Conc
end SST
