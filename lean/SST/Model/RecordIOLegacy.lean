/-
L1-legacy: the recordio file versions 1, 2 and 3 as the library still READS them
  recordio/common_reader.go  (`readRecordHeaderV1/V2/V3`)
  recordio/file_reader.go    (`readNextV1/V2/V3`, `SkipNextV1/V2/V3`)
  recordio/mmap_reader.go    (`readNextAtV1/V2/V3`, `SeekNext` on files of version 2 and 3, refused on version 1)
plus reference ENCODERS of the three layouts.  The repository has no legacy writer any more (only the unused
header helpers `writeRecordHeaderV1`, `fillRecordHeaderV2/V3` of file_writer.go); the layouts below are derived
from the readers and confirmed byte for byte against /repo/recordio/test_files/v{1,2,3}_compat and
/repo/sstables/test_files/v0_compat by the stream `legacy`:

  V1  record = le32(0x130691) le64(ulen) le64(clen) payload           (fixed 20-byte header)
  V2  record = uvarint(0x130691) uvarint(ulen) uvarint(clen) payload
  V3  record = uvarint(0x130691) nilflag uvarint(ulen) uvarint(clen) payload   (no payload when nilflag = 1)
  `clen` = 0 in a file without compression; none of the three has a header checksum.

The sequential readers of V2 and V3 on the pure byte stream are `SST.Buf.readNextS2/S3`, `skipNextS2/S3`
(SST/Spec/BufReader.lean; `C04.Buf.bufReadNext_legacy` ties them to the buffered reader stack) and are reused
here; V1 (fixed-width headers through `io.ReadFull`) is new.  Core Lean only.

What is abstracted (and nothing else):
* allocation of the record buffer (`make([]byte, n)` / `bufferPool.Get(int(n))`) always succeeds — a legacy
  header can claim any length and nothing checks it before the allocation (see `C12.Legacy.damaged_length_*`);
* `SkipNext`: the `int64(...)` conversion of the seek target (modelled in SST/Model/BufReader.lean for V2–V4);
* whether the compressor's `Decompress` hands back nil or an empty slice for an EMPTY result is external code
  (`snappy.Decode(nil, …)` returns nil, gzip and lzw return an empty slice): the parameter `emptyNil`.  It is
  observable through the V1 readers only, which return the decompressor's slice as it is.
-/
import SST.Spec.BufReader
namespace SST.Legacy
open SST Generated SST.Buf

/-! ## constants of recordio.go -/

/-- `RecordHeaderSizeBytesV1V2` -/
def headerSizeV1 : Nat := 20

/-- `RecordHeaderV3MaxSizeBytes` = 3 * `binary.MaxVarintLen64` + 1: the window `readNextAtV2/V3` read the
record header from -/
def headerWinV3 : Nat := 31

/-! ## little-endian 64 bit -/

/-- `binary.LittleEndian.PutUint64` -/
def le64 (n : Nat) : Bytes := le32 n ++ le32 (n / 4294967296)

/-- `binary.LittleEndian.Uint64` on an 8-byte slice -/
def le64Dec (b : Bytes) : Option Nat :=
  match le32Dec (b.take 4), le32Dec (b.drop 4) with
  | some lo, some hi => some (lo + hi * 4294967296)
  | _, _ => none

/-! ## reference encoders -/

/-- `writeRecordHeaderV1` -/
def encHeaderV1 (ulen clen : Nat) : Bytes := le32 magicNumber ++ le64 ulen ++ le64 clen

/-- `fillRecordHeaderV2` -/
def encHeaderV2 (ulen clen : Nat) : Bytes := magicBytes ++ uvarintEnc ulen ++ uvarintEnc clen

/-- `fillRecordHeaderV3`: the V4 header without its checksum -/
def encHeaderV3 (nilFlag : Bool) (ulen clen : Nat) : Bytes := headerBody nilFlag ulen clen

/-- a version 1 record (the format has no nil records: nil was written as the empty record) -/
def encRecordV1 (c : Compression) (r : Bytes) : Bytes := encHeaderV1 r.length (clenOf c r) ++ stored c r

def encRecordV2 (c : Compression) (r : Bytes) : Bytes := encHeaderV2 r.length (clenOf c r) ++ stored c r

/-- a version 3 record; as in version 4 a nil record carries the compressed length of the empty record and
no payload -/
def encRecordV3 (c : Compression) : GoBytes → Bytes
  | none => encHeaderV3 true 0 (clenOf c [])
  | some r => encHeaderV3 false r.length (clenOf c r) ++ stored c r

/-- one record in file version `v` (1, 2, 3; anything else is the current version 4, `SST.encRecord`) -/
def encRecordL (v : Nat) (c : Compression) (r : GoBytes) : Bytes :=
  if v = 1 then encRecordV1 c (r.getD [])
  else if v = 2 then encRecordV2 c (r.getD [])
  else if v = 3 then encRecordV3 c r
  else encRecord c r

def encAllL (v : Nat) (c : Compression) (rs : List GoBytes) : Bytes := (rs.map (encRecordL v c)).flatten

/-- a whole legacy file: file header (version, compression code) and the records back to back -/
def encFileL (v : Nat) (c : Compression) (ct : Nat) (rs : List GoBytes) : Bytes :=
  fileHeader v ct ++ encAllL v c rs

abbrev encFileV1 (c : Compression) (ct : Nat) (rs : List GoBytes) : Bytes := encFileL 1 c ct rs
abbrev encFileV2 (c : Compression) (ct : Nat) (rs : List GoBytes) : Bytes := encFileL 2 c ct rs
abbrev encFileV3 (c : Compression) (ct : Nat) (rs : List GoBytes) : Bytes := encFileL 3 c ct rs

/-- offset at which record `k` starts -/
def offsetOfL (v : Nat) (c : Compression) (rs : List GoBytes) (k : Nat) : Nat :=
  fileHeaderSize + (encAllL v c (rs.take k)).length

/-! ## what a reader hands back for a written record -/

/-- the slice a version 1 reader returns for the decoded payload `r`: without compression the record buffer
itself (`make([]byte, n)`: never nil), with compression whatever `Decompress` returned -/
def v1Result (emptyNil : Bool) (c : Compression) (r : Bytes) : GoBytes :=
  match c with
  | none => some r
  | some _ => if emptyNil && r.isEmpty then none else some r

/-- what reading a written record gives back: versions 1 and 2 have no nil flag, a nil record comes back as
the empty record (version 1 with a nil-returning decompressor: every empty record comes back nil); versions 3
and 4 keep nil and empty apart -/
def backL (emptyNil : Bool) (v : Nat) (c : Compression) (r : GoBytes) : GoBytes :=
  if v = 1 then v1Result emptyNil c (r.getD [])
  else if v = 2 then some (r.getD [])
  else r

/-! ## `readRecordHeaderV1/V2/V3` -/

/-- `readRecordHeaderV1(buffer)`: (payloadSizeUncompressed, payloadSizeCompressed) -/
def readRecordHeaderV1 (buf : Bytes) : Except Err (Nat × Nat) :=
  if buf.length ≠ headerSizeV1 then .error .other else
  match le32Dec (buf.take 4), le64Dec ((buf.drop 4).take 8), le64Dec ((buf.drop 12).take 8) with
  | some m, some u, some cl => if m ≠ magicNumber then .error .magic else .ok (u, cl)
  | _, _, _ => .error .other

/-- `readRecordHeaderV2(r)` on the bytes the byte reader still has -/
abbrev readRecordHeaderV2 (s : Bytes) : Except Err RecHeader := readHeaderS2 s

/-- `readRecordHeaderV3(r)` -/
abbrev readRecordHeaderV3 (s : Bytes) : Except Err RecHeader := readHeaderS3 s

/-- `allocateRecordBuffer`: the number of payload bytes a version 1 header announces -/
def expectedV1 (c : Compression) (u cl : Nat) : Nat :=
  match c with
  | none => u
  | some _ => cl

/-! ## sequential readers (`FileReader`) on the remaining stream -/

/-- `readNextV1`: `io.ReadFull` of the 20 header bytes, `readRecordHeaderV1`, `io.ReadFull` of the payload,
`Decompress`.  There is NO zero-tail rule in version 1: a magic-number mismatch is an error.
Returns the record and the number of bytes consumed. -/
def readNextS1 (emptyNil : Bool) (c : Compression) (s : Bytes) : Except Err (GoBytes × Nat) :=
  match specFull s headerSizeV1 with
  | (_, some (.e e), _) => .error e
  | (_, some _, _) => .error .other
  | (hb, none, t) =>
    match readRecordHeaderV1 hb with
    | .error e => .error e
    | .ok (u, cl) =>
      match specFull t (expectedV1 c u cl) with
      | (_, some (.e e), _) => .error e
      | (_, some _, _) => .error .other
      | (p, none, _) =>
        match decodePayload c p with
        | .error e => .error e
        | .ok r => .ok (v1Result emptyNil c r, headerSizeV1 + p.length)

/-- `SkipNextV1`: header through `io.ReadFull`, then `Seek` over the announced payload (which is not looked
at).  Returns the number of bytes skipped. -/
def skipNextS1 (c : Compression) (s : Bytes) : Except Err Nat :=
  match specFull s headerSizeV1 with
  | (_, some (.e e), _) => .error e
  | (_, some _, _) => .error .other
  | (hb, none, _) =>
    match readRecordHeaderV1 hb with
    | .error e => .error e
    | .ok (u, cl) => .ok (headerSizeV1 + expectedV1 c u cl)

/-- `FileReader.ReadNext` by file version (4 = `readNextS` of SST/Model/RecordIO.lean) -/
def readNextL (emptyNil : Bool) (v : Nat) (c : Compression) (s : Bytes) : Except Err (GoBytes × Nat) :=
  if v = 1 then readNextS1 emptyNil c s else readNextSV v c s

/-- `FileReader.SkipNext` by file version -/
def skipNextL (v : Nat) (c : Compression) (s : Bytes) : Except Err Nat :=
  if v = 1 then skipNextS1 c s else skipNextSV v c s

/-- read records sequentially until the first error (EOF included) -/
def readAllSL (emptyNil : Bool) (v : Nat) (c : Compression) : Nat → Bytes → List GoBytes × Err
  | 0, _ => ([], .other)
  | fuel + 1, s =>
    match readNextL emptyNil v c s with
    | .error e => ([], e)
    | .ok (r, n) =>
      let (rs, e) := readAllSL emptyNil v c fuel (s.drop n)
      (r :: rs, e)

/-- what a user sees reading a file of any supported version: `Open` (file header check, which selects the
record reader and the compressor), then `ReadNext` until the first error -/
def openReadAllL (emptyNil : Bool) (comps : Nat → Compression) (file : Bytes) : List GoBytes × Err :=
  match parseFileHeader file with
  | .error e => ([], e)
  | .ok (v, ct) => readAllSL emptyNil v (comps ct) (file.length + 1) (file.drop fileHeaderSize)

/-! ## random access (`MMapReader.ReadNextAt`)

`mmap.ReaderAt.ReadAt(p, off)`: an offset behind the end of the file is an error ("invalid ReadAt offset"),
otherwise as many bytes as there are, with `io.EOF` when `p` was not filled. -/

/-- `readNextAtV1`: ANY short read of the 20 header bytes is returned (wrapped) as it is — also the one at the
very end of the file, which the later versions turn into the bare `io.EOF` -/
def readAtV1 (emptyNil : Bool) (c : Compression) (file : Bytes) (off : Nat) : Except Err GoBytes :=
  if off > file.length then .error .other else
  let s := file.drop off
  if s.length < headerSizeV1 then .error .eof else
  match readRecordHeaderV1 (s.take headerSizeV1) with
  | .error e => .error e
  | .ok (u, cl) =>
    let n := expectedV1 c u cl
    let avail := s.drop headerSizeV1
    if avail.length < n then .error .eof
    else (decodePayload c (avail.take n)).map (v1Result emptyNil c)

/-- the part of `readNextAtV2/V3` after the header: the payload through a second `ReadAt`, decompressed and
copied into a fresh slice (never nil) -/
def readAtBody (c : Compression) (s : Bytes) (h : RecHeader) : Except Err GoBytes :=
  let n := expectedLen c h
  let avail := s.drop h.hlen
  if avail.length < n then .error .eof
  else (decodePayload c (avail.take n)).map some

/-- `readNextAtV2`: the header is parsed from the (at most) 31 bytes one `ReadAt` delivered -/
def readAtV2 (c : Compression) (file : Bytes) (off : Nat) : Except Err GoBytes :=
  if off > file.length then .error .other
  else if off = file.length then .error .eof
  else
    let s := file.drop off
    match readRecordHeaderV2 (s.take headerWinV3) with
    | .error e => .error e
    | .ok h => readAtBody c s h

/-- `readNextAtV3`: a record flagged nil is returned without looking at its length fields -/
def readAtV3 (c : Compression) (file : Bytes) (off : Nat) : Except Err GoBytes :=
  if off > file.length then .error .other
  else if off = file.length then .error .eof
  else
    let s := file.drop off
    match readRecordHeaderV3 (s.take headerWinV3) with
    | .error e => .error e
    | .ok h => if h.isNil then .ok none else readAtBody c s h

/-- `MMapReader.ReadNextAt` by file version -/
def readAtL (emptyNil : Bool) (v : Nat) (c : Compression) (file : Bytes) (off : Nat) : Except Err GoBytes :=
  if v = 1 then readAtV1 emptyNil c file off
  else if v = 2 then readAtV2 c file off
  else if v = 3 then readAtV3 c file off
  else if v = 4 then readAt c file off
  else .error .rejected

/-- is the error of `ReadNextAt` the BARE `io.EOF` (`err == io.EOF`, which the table reader swallows)?  Only
versions 2–4 return it, and only for a read that starts exactly at the end of the file. -/
def bareEofAt (v : Nat) (file : Bytes) (off : Nat) : Bool := decide (2 ≤ v) && decide (off = file.length)

/-! ## `SeekNext` as coded in mmap_reader.go, over ANY trial reader

The scan is the same code for every file version: 4 KiB windows, the three marker bytes
`MagicNumberSeparatorLongBytes`, a trial `ReadNextAt` at every marker, any failure = keep scanning.  `rd` is
the trial reader.  (`SST.scanWindow` / `SST.seekNextAux` are the instance `rd = readAt c file`, see
`SST.Proofs.Legacy.seekNextG_v4`.) -/

def scanWindowG (rd : Nat → Except Err GoBytes) (next : Nat) (win : Bytes) (numRead : Nat) : Nat → Nat → ScanOut
  | 0, i => .advance i
  | fuel + 1, i =>
    if i ≥ numRead then .advance i else
    let (ix, hitEnd) := matchMarker win numRead i
    if hitEnd then .advance i
    else if ix - i < magicBytes.length then scanWindowG rd next win numRead fuel (i + 1)
    else
      match rd (next + i) with
      | .ok r => .found (next + i) r
      | .error _ => scanWindowG rd next win numRead fuel ix

def seekNextAuxG (rd : Nat → Except Err GoBytes) (file : Bytes) : Nat → Nat → Except Err (Nat × GoBytes)
  | 0, _ => .error .other
  | fuel + 1, next =>
    if next > file.length then .error .other else
    let win := (file.drop next).take seekLen
    let numRead := win.length
    if numRead = 0 then .error .eof else
    match scanWindowG rd next win numRead (numRead + 1) 0 with
    | .found off r => .ok (off, r)
    | .fail e => .error e
    | .advance i => if i = 0 then .error .eof else seekNextAuxG rd file fuel (next + i)

def seekNextG (rd : Nat → Except Err GoBytes) (file : Bytes) (off : Nat) : Except Err (Nat × GoBytes) :=
  seekNextAuxG rd file (file.length + 2) off

/-- `MMapReader.SeekNext` by file version: refused on version 1 ("unsupported on files with version lower than
v2"); on versions 2 and 3 the trial read has no checksum to go by: the first marker after which the bytes parse
as a header whose announced payload fits into the file wins -/
def seekNextL (emptyNil : Bool) (v : Nat) (c : Compression) (file : Bytes) (off : Nat) :
    Except Err (Nat × GoBytes) :=
  if v < 2 then .error .other
  else seekNextG (readAtL emptyNil v c file) file off

/-! ## reader programs (driver, stream `legacy`) -/

/-- a `ReadNext` / `SkipNext` program on a file of version `v`, starting at stream position `pos`; it stops at the
first error -/
def runL (emptyNil : Bool) (v : Nat) (c : Compression) (file : Bytes) : Nat → List ROp → List ROut
  | _, [] => []
  | pos, .read :: ops =>
    match readNextL emptyNil v c (file.drop pos) with
    | .ok (r, n) => .record r :: runL emptyNil v c file (pos + n) ops
    | .error e => [.fail (.e e)]
  | pos, .skip :: ops =>
    match skipNextL v c (file.drop pos) with
    | .ok n => .skipped :: runL emptyNil v c file (pos + n) ops
    | .error e => [.fail (.e e)]

end SST.Legacy
