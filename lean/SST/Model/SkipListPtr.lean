/-
L4a, pointer level: skiplist/map_generic.go with its forward-pointer arrays.

Nodes live in an arena (`arena[i]` = the node allocated by the i-th successful `Insert`); a forward
pointer is `Option Nat` (`none` = Go `nil`, `some i` = `&arena[i]`).  The head node (no key) is kept apart:
`head` = its `next` array (`maxHeight` pointers).  A node reference as held by `x` in
`findGreaterOrEqual` and by the entries of `prevTable` is a `Ref` (head or arena node); a `prevTable`
slot is `Option Ref` (`none` = nil slot).

Every function returns `Option`; `none` = the Go code panics (duplicate key, index out of range, nil
dereference) or a fuelled loop ran out of fuel.  The theorems in SST/Proofs/SkipListPtr*.lean show
that on well-formed structures the only `none` is the duplicate-key panic of `Insert` (so the fuel
is sufficient).  The random height of an insert is an explicit argument.  Core Lean only.
-/
import SST.Model.SkipList
namespace SST
namespace SkipListPtr

/-- `Node[K,V]`: key, value, `next` (one forward pointer per level, `next[0]` lowest) -/
structure PNode (K V : Type) where
  key : K
  val : V
  next : List (Option Nat)
  deriving Repr

/-- `*Node`: the head node or an allocated node -/
inductive Ref where
  | head
  | node (i : Nat)
  deriving Repr, DecidableEq

/-- `Map[K,V]` (the comparator is passed to the functions) -/
structure PList (K V : Type) where
  head : List (Option Nat)
  arena : List (PNode K V)
  maxHeight : Nat
  size : Nat
  deriving Repr

variable {K V : Type}

/-- `NewSkipListMap`: maxHeight = 12, the head has 12 nil pointers -/
def empty : PList K V :=
  { head := List.replicate 12 none, arena := [], maxHeight := 12, size := 0 }

/-- `x.Next(level)` = `x.next[level]`; `none` = panic (index out of range / dangling reference) -/
def nextOf (pl : PList K V) : Ref → Nat → Option (Option Nat)
  | .head, l => pl.head[l]?
  | .node i, l => (pl.arena[i]?).bind (·.next[l]?)

/-- `x.SetNext(level, p)` = `x.next[level] = p`; `none` = panic -/
def setNext (pl : PList K V) : Ref → Nat → Option Nat → Option (PList K V)
  | .head, l, p => if l < pl.head.length then some { pl with head := pl.head.set l p } else none
  | .node i, l, p =>
    match pl.arena[i]? with
    | some n =>
      if l < n.next.length then
        some { pl with arena := pl.arena.set i { n with next := n.next.set l p } }
      else none
    | none => none

/-- `next != nil && comp.Compare(key, next.key) > 0`: `some (some j)` = true (move to `j`),
`some none` = false, `none` = dangling pointer -/
def advance? (cmp : K → K → Ordering) (pl : PList K V) (key : K) : Option Nat → Option (Option Nat)
  | none => some none
  | some j =>
    match pl.arena[j]? with
    | some n => if cmp key n.key == .gt then some (some j) else some none
    | none => none

/-- `if prevTable != nil { prevTable[level] = x }` -/
def recordPrev (pt : Option (List (Option Ref))) (level : Nat) (x : Ref) :
    Option (Option (List (Option Ref))) :=
  match pt with
  | none => some none
  | some t => if level < t.length then some (some (t.set level (some x))) else none

/-- the `for` loop of `findGreaterOrEqual` (one iteration per unit of fuel) -/
def findGEAux (cmp : K → K → Ordering) (pl : PList K V) (key : K) :
    Nat → Ref → Nat → Option (List (Option Ref)) → Option (Option Nat × Option (List (Option Ref)))
  | 0, _, _, _ => none
  | fuel + 1, x, level, pt =>
    match nextOf pl x level with
    | none => none
    | some next =>
      match advance? cmp pl key next with
      | none => none
      | some (some j) => findGEAux cmp pl key fuel (.node j) level pt
      | some none =>
        match recordPrev pt level x with
        | none => none
        | some pt' =>
          if level = 0 then some (next, pt')
          else findGEAux cmp pl key fuel x (level - 1) pt'

/-- `findGreaterOrEqual(list, key, prevTable)`: the returned node and the filled `prevTable` -/
def findGE (cmp : K → K → Ordering) (pl : PList K V) (key : K) (pt : Option (List (Option Ref))) :
    Option (Option Nat × Option (List (Option Ref))) :=
  findGEAux cmp pl key (pl.size + pl.maxHeight + 1) .head (pl.maxHeight - 1) pt

/-- `for i := list.maxHeight; i < randomHeight; i++ { prevTable[i] = list.head }`
(first argument = iterations left) -/
def raiseLoop : Nat → Nat → List (Option Ref) → Option (List (Option Ref))
  | 0, _, pt => some pt
  | n + 1, i, pt => if i < pt.length then raiseLoop n (i + 1) (pt.set i (some .head)) else none

/-- `x.SetNext(i, prevTable[i].Next(i)); prevTable[i].SetNext(i, x)` -/
def linkLevel (pl : PList K V) (pt : List (Option Ref)) (xi i : Nat) : Option (PList K V) :=
  match pt[i]? with
  | some (some prev) =>
    match nextOf pl prev i with
    | some nx =>
      match setNext pl (.node xi) i nx with
      | some pl1 => setNext pl1 prev i (some xi)
      | none => none
    | none => none
  | _ => none

/-- `for i := 0; i < randomHeight; i++ { … }` (first argument = iterations left) -/
def linkLoop (pt : List (Option Ref)) (xi : Nat) : Nat → Nat → PList K V → Option (PList K V)
  | 0, _, pl => some pl
  | n + 1, i, pl =>
    match linkLevel pl pt xi i with
    | some pl' => linkLoop pt xi n (i + 1) pl'
    | none => none

/-- `Insert`, with `h` = the value `randomHeight(list.maxHeight)` returned -/
def insert (cmp : K → K → Ordering) (pl : PList K V) (k : K) (v : V) (h : Nat) : Option (PList K V) :=
  match findGE cmp pl k (some (List.replicate pl.maxHeight none)) with
  | some (x, some pt) =>
    -- `x != nil && comp.Compare(key, x.key) == 0`
    let dup : Option Bool :=
      match x with
      | none => some false
      | some j => (pl.arena[j]?).map fun n => cmp k n.key == .eq
    match dup with
    | some false =>
      -- "do a re-balancing if we have reached new heights"
      let raised : Option (List (Option Ref) × Nat) :=
        if h > pl.maxHeight then
          (raiseLoop (h - pl.maxHeight) pl.maxHeight pt).map fun pt' => (pt', h)
        else some (pt, pl.maxHeight)
      match raised with
      | some (pt', mh) =>
        -- `newSkipListNode(key, value, randomHeight)`
        let xi := pl.arena.length
        let pl1 : PList K V :=
          { pl with arena := pl.arena ++ [⟨k, v, List.replicate h none⟩], maxHeight := mh }
        match linkLoop pt' xi h 0 pl1 with
        | some pl2 => some { pl2 with size := pl2.size + 1 }
        | none => none
      | none => none
    | _ => none
  | _ => none

def size (pl : PList K V) : Nat := pl.size

/-- `Get`: `some none` = NotFound -/
def get (cmp : K → K → Ordering) (pl : PList K V) (k : K) : Option (Option V) :=
  match findGE cmp pl k none with
  | some (some j, _) =>
    match pl.arena[j]? with
    | some n => if cmp k n.key == .eq then some (some n.val) else some none
    | none => none
  | some (none, _) => some none
  | none => none

def contains (cmp : K → K → Ordering) (pl : PList K V) (k : K) : Option Bool :=
  (get cmp pl k).map Option.isSome

/-- `Iterator[K,V]` -/
structure Iter (K : Type) where
  node : Option Nat
  keyHigher : Option K
  doneNext : Bool

/-- `Iterator.Next`: `some (none, it')` = Done, `some (some kv, it')` = an item, `none` = panic -/
def Iter.next (cmp : K → K → Ordering) (pl : PList K V) (it : Iter K) :
    Option (Option (K × V) × Iter K) :=
  match it.node with
  | none => some (none, it)
  | some c =>
    if it.doneNext then some (none, it)
    else
      match pl.arena[c]? with
      | none => none
      | some cur =>
        match cur.next[0]? with
        | none => none
        | some nx =>
          let it1 : Iter K := { it with node := nx }
          match it.keyHigher with
          | none => some (some (cur.key, cur.val), it1)
          | some hi =>
            match cmp cur.key hi with
            | .eq => some (some (cur.key, cur.val), { it1 with doneNext := true })
            | .gt => some (none, it1)
            | .lt => some (some (cur.key, cur.val), it1)

/-- call `Next` until Done, collecting the items -/
def drain (cmp : K → K → Ordering) (pl : PList K V) : Nat → Iter K → Option (List (K × V))
  | 0, _ => none
  | fuel + 1, it =>
    match Iter.next cmp pl it with
    | none => none
    | some (none, _) => some []
    | some (some kv, it') => (drain cmp pl fuel it').map (kv :: ·)

/-- `Iterator()` -/
def iterator (pl : PList K V) : Option (Iter K) :=
  (nextOf pl .head 0).map fun p => { node := p, keyHigher := none, doneNext := false }

/-- `IteratorStartingAt(key)` -/
def iteratorStartingAt (cmp : K → K → Ordering) (pl : PList K V) (k : K) : Option (Iter K) :=
  (findGE cmp pl k none).map fun r => { node := r.1, keyHigher := none, doneNext := false }

/-- `IteratorBetween(lo, hi)`: `some none` = the error "keyHigher is lower than keyLower" -/
def iteratorBetween (cmp : K → K → Ordering) (pl : PList K V) (lo hi : K) : Option (Option (Iter K)) :=
  match findGE cmp pl lo none with
  | some (x, _) =>
    if cmp lo hi == .gt then some none
    else some (some { node := x, keyHigher := some hi, doneNext := false })
  | none => none

/-- everything `Iterator()` yields until Done -/
def iterAll (cmp : K → K → Ordering) (pl : PList K V) : Option (List (K × V)) :=
  (iterator pl).bind (drain cmp pl (pl.size + 1))

def iterFrom (cmp : K → K → Ordering) (pl : PList K V) (k : K) : Option (List (K × V)) :=
  (iteratorStartingAt cmp pl k).bind (drain cmp pl (pl.size + 1))

/-- `some none` = rejected (lower > upper) -/
def iterBetween (cmp : K → K → Ordering) (pl : PList K V) (lo hi : K) : Option (Option (List (K × V))) :=
  match iteratorBetween cmp pl lo hi with
  | none => none
  | some none => some none
  | some (some it) => (drain cmp pl (pl.size + 1) it).map some

/-- insert a sequence (key, value, height); `none` if any insert panics -/
def insertAll (cmp : K → K → Ordering) : PList K V → List (K × V × Nat) → Option (PList K V)
  | pl, [] => some pl
  | pl, (k, v, h) :: rest =>
    match insert cmp pl k v h with
    | some pl' => insertAll cmp pl' rest
    | none => none

/-! ### Abstraction to the height-list model -/

def toS (n : PNode K V) : SNode K V := ⟨n.key, n.val, n.next.length⟩

/-- follow the level-`level` pointers from `p`: the (address, abstract node) pairs met -/
def walk (arena : List (PNode K V)) (level : Nat) : Nat → Option Nat → List (Nat × SNode K V)
  | 0, _ => []
  | _ + 1, none => []
  | fuel + 1, some i =>
    match arena[i]? with
    | none => []
    | some n => (i, toS n) :: walk arena level fuel ((n.next[level]?).join)

/-- the nodes linked into `level`, in pointer order from the head -/
def levelList (pl : PList K V) (level : Nat) : List (Nat × SNode K V) :=
  walk pl.arena level pl.size ((pl.head[level]?).join)

/-- the abstract image: the level-0 list with heights = lengths of the pointer arrays -/
def abs (pl : PList K V) : SkipList K V :=
  { nodes := (levelList pl 0).map (·.2), maxHeight := pl.maxHeight }

end SkipListPtr
end SST
