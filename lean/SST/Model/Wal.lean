/-
L5: the write-ahead log (wal/appender.go, wal/replayer.go) on top of the recordio file writer
(recordio/file_writer.go) and the vendored buffered writer (recordio/bufio_vendor.go `Writer`), with
the file-system-event view used for crash reasoning.  Core Lean only.
-/
import SST.Model.RecordIO

namespace SST
open Generated

/-! ## the vendored buffered writer (`recordio.Writer`)

State = the caller-supplied buffer size, the aligned-flush flag and the bytes currently buffered
(`b.buf[0:b.n]`).  Every operation returns the chunks it handed to the underlying `Write`, in order
(one chunk = one `write` system call on an `*os.File`). -/

structure BufW where
  size : Nat
  aligned : Bool
  buf : Bytes
  deriving Repr

def BufW.init (size : Nat) (aligned : Bool := false) : BufW := { size := size, aligned := aligned, buf := [] }

/-- `Available()` -/
def BufW.avail (b : BufW) : Nat := b.size - b.buf.length

/-- `Flush()`: nothing when empty; otherwise the buffered bytes (aligned mode: the whole buffer, the
unused rest zeroed). -/
def BufW.flush (b : BufW) : BufW × List Bytes :=
  if b.buf.length = 0 then (b, [])
  else
    ({ b with buf := [] },
     [if b.aligned then b.buf ++ List.replicate (b.size - b.buf.length) 0 else b.buf])

/-- the `for len(p) > b.Available()` loop of `Write`: state, rest of `p`, chunks emitted so far -/
def BufW.writeLoop : Nat → BufW → Bytes → List Bytes → BufW × Bytes × List Bytes
  | 0, b, p, out => (b, p, out)
  | fuel + 1, b, p, out =>
    if p.length > b.avail then
      if b.buf.length = 0 then
        -- large write, empty buffer: written directly, `p = p[n:]` is empty afterwards
        writeLoop fuel b [] (out ++ [p])
      else
        -- fill the buffer (`copy`), flush it
        let n := b.avail
        let (b', ch) := ({ b with buf := b.buf ++ p.take n }).flush
        writeLoop fuel b' (p.drop n) (out ++ ch)
    else (b, p, out)

/-- iterations the loop can make: fill+flush, direct write, exit test (see `Proofs.writeLoop_exit`) -/
def BufW.loopFuel : Nat := 3

/-- `Write(p)` -/
def BufW.write (b : BufW) (p : Bytes) : BufW × List Bytes :=
  let (b', p', out) := BufW.writeLoop BufW.loopFuel b p []
  ({ b' with buf := b'.buf ++ p' }, out)

inductive BufOp where
  | write (p : Bytes)
  | flush
  deriving Repr

/-- run a program; all chunks handed to the underlying writer, in order -/
def BufW.run : BufW → List BufOp → BufW × List Bytes
  | b, [] => (b, [])
  | b, .write p :: ops =>
    let (b1, o1) := b.write p
    let (b2, o2) := BufW.run b1 ops
    (b2, o1 ++ o2)
  | b, .flush :: ops =>
    let (b1, o1) := b.flush
    let (b2, o2) := BufW.run b1 ops
    (b2, o1 ++ o2)

/-- the logical stream: everything that was passed to `Write` -/
def BufOp.logical : List BufOp → Bytes
  | [] => []
  | .write p :: ops => p ++ BufOp.logical ops
  | .flush :: ops => BufOp.logical ops

/-! ## `FileWriter` over the buffered writer (no seeks: the WAL never seeks) -/

structure FW where
  w : BufW
  cur : Nat        -- `currentOffset` = `Size()`
  deriving Repr

/-- `NewFileWriter` (buffered I/O factory) + `Open`: header through the buffer, flushed at once -/
def FW.open (bufSize ct : Nat) : FW × List Bytes :=
  let (w1, o1) := (BufW.init bufSize).write (fileHeader currentVersion ct)
  let (w2, o2) := w1.flush
  ({ w := w2, cur := fileHeaderSize }, o1 ++ o2)

/-- `Write(record)`: record header, then (unless nil) the stored payload: two `bufWriter.Write` calls -/
def FW.write (c : Compression) (f : FW) : GoBytes → FW × List Bytes
  | none =>
    let h := encHeader true 0 (clenOf c [])
    let (w1, o1) := f.w.write h
    ({ w := w1, cur := f.cur + h.length }, o1)
  | some p =>
    let h := encHeader false p.length (clenOf c p)
    let (w1, o1) := f.w.write h
    let (w2, o2) := w1.write (stored c p)
    ({ w := w2, cur := f.cur + h.length + (stored c p).length }, o1 ++ o2)

def FW.flush (f : FW) : FW × List Bytes :=
  let (w1, o1) := f.w.flush
  ({ f with w := w1 }, o1)

/-! ## file-system events -/

inductive FsEvent where
  | create (f : Nat)              -- `os.OpenFile(O_WRONLY|O_CREATE)` of WAL file number `f`
  | write (f : Nat) (bs : Bytes)  -- one `write` on that file (appends: the WAL never seeks)
  | fsync (f : Nat)
  | close (f : Nat)
  deriving Repr, DecidableEq

/-- a directory as (file number ↦ bytes), in creation order -/
abbrev DirN := List (Nat × Bytes)

def applyEvent (d : DirN) : FsEvent → DirN
  | .create f => if d.any (·.1 == f) then d else d ++ [(f, [])]
  | .write f bs => d.map (fun e => if e.1 == f then (e.1, e.2 ++ bs) else e)
  | .fsync _ => d
  | .close _ => d

def dirAfterN (evs : List FsEvent) : DirN := evs.foldl applyEvent []

/-! ## file names: `fmt.Sprintf("%06d.wal", n)` -/

def maxWalFiles : Nat := 1000000

def asciiDigit (d : Nat) : UInt8 := UInt8.ofNat (48 + d)

/-- decimal digits, most significant first, for numbers of seven or more digits -/
def decDigits : Nat → Nat → List Nat
  | 0, _ => []
  | fuel + 1, n => if n < 10 then [n] else decDigits fuel (n / 10) ++ [n % 10]

def walSuffix : Bytes := [0x2e, 0x77, 0x61, 0x6c]   -- ".wal"

/-- `%06d`: zero-padded to six digits; wider numbers are printed in full -/
def walDigits (n : Nat) : List Nat :=
  if n < 1000000 then
    [n / 100000 % 10, n / 10000 % 10, n / 1000 % 10, n / 100 % 10, n / 10 % 10, n % 10]
  else decDigits (n + 1) n

def walName (n : Nat) : Bytes := (walDigits n).map asciiDigit ++ walSuffix

/-- a directory as (file name ↦ bytes) -/
abbrev Dir := List (Bytes × Bytes)

def DirN.named (d : DirN) : Dir := d.map (fun e => (walName e.1, e.2))

def dirAfter (evs : List FsEvent) : Dir := (dirAfterN evs).named

/-! ## the appender -/

structure WalOpts where
  maxSize : Nat     -- `maxWalFileSize`
  bufSize : Nat     -- buffer size of the writers the writer factory creates (default 4 MiB)
  ct : Nat          -- compression code the writer factory puts into the file header
  deriving Repr

structure Wal where
  next : Nat        -- `nextWriterNumber`
  num : Nat         -- number of the file `currentWriter` writes
  fw : FW           -- `currentWriter`
  dead : Bool       -- `currentWriter` was closed by a rotation whose `setupNextWriter` failed
  deriving Repr

abbrev StepOut := Wal × List FsEvent × Option Err

/-- `NewAppender` = `setupNextWriter` on number 0 -/
def Wal.init (o : WalOpts) : Wal × List FsEvent :=
  let (fw, ch) := FW.open o.bufSize o.ct
  ({ next := 1, num := 0, fw := fw, dead := false }, .create 0 :: ch.map (.write 0))

/-- `Rotate`: close the current writer (flush, close), then `setupNextWriter` (the one-million guard comes
after the close: when it fires the appender is left with a closed writer and every later call fails without
touching the file system). -/
def Wal.rotate (o : WalOpts) (w : Wal) : StepOut :=
  if w.dead then (w, [], some .other) else
  let (fw1, ch) := w.fw.flush
  let evs := ch.map (.write w.num) ++ [.close w.num]
  if w.next ≥ maxWalFiles then ({ w with fw := fw1, dead := true }, evs, some .other)
  else
    let (fw2, ch2) := FW.open o.bufSize o.ct
    ({ next := w.next + 1, num := w.next, fw := fw2, dead := false },
     evs ++ .create w.next :: ch2.map (.write w.next), none)

/-- `Append` / `AppendSync`: `checkSizeAndRotate` with the UNCOMPRESSED record length, before the write;
then `Write`, or `WriteSync` = `Write` + `Flush` + `fsync`. -/
def Wal.append (o : WalOpts) (c : Compression) (sync : Bool) (w : Wal) (r : GoBytes) : StepOut :=
  if w.dead then (w, [], some .other) else
  let (w1, ev1, e1) : StepOut :=
    if w.fw.cur + (r.getD []).length > o.maxSize then w.rotate o else (w, [], none)
  match e1 with
  | some e => (w1, ev1, some e)
  | none =>
    let (fw2, ch) := w1.fw.write c r
    if sync then
      let (fw3, ch2) := fw2.flush
      ({ w1 with fw := fw3 }, ev1 ++ (ch ++ ch2).map (.write w1.num) ++ [.fsync w1.num], none)
    else ({ w1 with fw := fw2 }, ev1 ++ ch.map (.write w1.num), none)

/-- `Close` -/
def Wal.close (w : Wal) : List FsEvent × Option Err :=
  if w.dead then ([], some .other) else
  let (_, ch) := w.fw.flush
  (ch.map (.write w.num) ++ [.close w.num], none)

inductive WalOp where
  | append (r : GoBytes)
  | appendSync (r : GoBytes)
  | rotate
  deriving Repr

def Wal.step (o : WalOpts) (c : Compression) (w : Wal) : WalOp → StepOut
  | .append r => w.append o c false r
  | .appendSync r => w.append o c true r
  | .rotate => w.rotate o

/-- what one operation did: its events and its result -/
structure OpTrace where
  op : WalOp
  evs : List FsEvent
  err : Option Err
  deriving Repr

def Wal.runFrom (o : WalOpts) (c : Compression) : Wal → List WalOp → Wal × List OpTrace
  | w, [] => (w, [])
  | w, op :: ops =>
    let (w1, evs, e) := w.step o c op
    let (w2, ts) := Wal.runFrom o c w1 ops
    (w2, { op := op, evs := evs, err := e } :: ts)

/-- a program on a fresh log: final state, the events of `NewAppender`, the trace of every operation -/
def Wal.run (o : WalOpts) (c : Compression) (prog : List WalOp) : Wal × List FsEvent × List OpTrace :=
  let (w0, ev0) := Wal.init o
  let (w, ts) := Wal.runFrom o c w0 prog
  (w, ev0, ts)

def traceEvents (ts : List OpTrace) : List FsEvent := (ts.map (·.evs)).flatten

/-- the record a successful operation appended -/
def OpTrace.rec? (t : OpTrace) : Option GoBytes :=
  match t.err, t.op with
  | none, .append r => some r
  | none, .appendSync r => some r
  | _, _ => none

def traceRecords (ts : List OpTrace) : List GoBytes := ts.filterMap OpTrace.rec?

/-- every event up to the return of the last operation (the appender is still open) -/
def walEvents (o : WalOpts) (c : Compression) (prog : List WalOp) : List FsEvent :=
  let (_, ev0, ts) := Wal.run o c prog
  ev0 ++ traceEvents ts

/-- ... and with the final `Close` -/
def walEventsClosed (o : WalOpts) (c : Compression) (prog : List WalOp) : List FsEvent :=
  let (w, ev0, ts) := Wal.run o c prog
  ev0 ++ traceEvents ts ++ w.close.1

/-- the records whose append returned without error, in order -/
def walRecords (o : WalOpts) (c : Compression) (prog : List WalOp) : List GoBytes :=
  traceRecords (Wal.run o c prog).2.2

/-- the directory after the program and `Close` -/
def dirOf (o : WalOpts) (c : Compression) (prog : List WalOp) : Dir := dirAfter (walEventsClosed o c prog)

/-! ## the replayer -/

def hasWalSuffix (name : Bytes) : Bool := name.drop (name.length - walSuffix.length) == walSuffix

/-- `sort.Strings` (names in a directory are distinct): insertion sort by byte-wise comparison -/
def insertByName (x : Bytes × Bytes) : Dir → Dir
  | [] => [x]
  | y :: ys => if bytesLt x.1 y.1 then x :: y :: ys else y :: insertByName x ys

def sortByName : Dir → Dir
  | [] => []
  | x :: xs => insertByName x (sortByName xs)

def isEofKind (e : Err) : Bool := e == .eof || e == .unexpectedEof

/-- the loop over the sorted files: records handed to the callback so far, and the error that ended the
replay, if any.  Only in the last file a missing/short header means "nothing logged" and an unexpected EOF
means "torn final record"; a clean EOF ends every file.  `cOf` = the compressor the reader picks for the
compression code found in the file header.  (Files of the legacy versions 1-3 are read by other routines,
which are not modelled: the driver refuses such directories instead of answering.) -/
def replayFiles (cOf : Nat → Compression) : Dir → List GoBytes × Option Err
  | [] => ([], none)
  | [(_, f)] =>
    match parseFileHeader f with
    | .error e => if isEofKind e then ([], none) else ([], some e)
    | .ok (_, ct) =>
      let (rs, e) := readAll (cOf ct) f
      if isEofKind e then (rs, none) else (rs, some e)
  | (_, f) :: g :: rest =>
    match parseFileHeader f with
    | .error e => ([], some e)
    | .ok (_, ct) =>
      let (rs, e) := readAll (cOf ct) f
      if e == .eof then
        let (rs2, e2) := replayFiles cOf (g :: rest)
        (rs ++ rs2, e2)
      else (rs, some e)

/-- `Replayer.Replay` over a flat directory: `*.wal` files in sorted-name order -/
def replay (cOf : Nat → Compression) (d : Dir) : List GoBytes × Option Err :=
  replayFiles cOf (sortByName (d.filter (fun e => hasWalSuffix e.1)))

end SST
