/-
L3b: pq/priority_queue.go with input iterators that can FAIL (C11).

An input iterator is `FInput`: the items it would deliver plus an optional call number at which `Next`
returns a non-Done error instead.  What the heap can ever see of such an iterator is
  * `avail`  – the items delivered before the failing call, and
  * `endErr` – what `Next` answers once `avail` is used up: the error (if the failing call is reached at
               all) or Done (`none`),
(`FInput.nextAt_avail` / `nextAt_end` in SST/Proofs/PQF.lean justify this view call by call).
The heap itself is the array heap of SST/Model/PQ.lean (`upHeap`, `downHeap`, `hset` are reused unchanged):
an element's `rest` holds the still available items of its iterator, and how the iterator ends is looked
up by the element's context number.  Core Lean only.
-/
import SST.Model.Bytes
import SST.Model.PQ
namespace SST

/-- result of one `Next()` of an input iterator -/
inductive IterStep (K V : Type) where
  | done
  | err (e : Err)
  | item (k : K) (v : V)
  deriving Repr

structure FInput (K V : Type) where
  items : List (K × V)
  /-- 0-based number of the `Next` call that returns an error (the item it would have returned is lost) -/
  failAt : Option Nat := none
  err : Err := .io
  deriving Repr

namespace FInput
variable {K V : Type}

/-- the `n`-th call (0-based) of `Next`, provided the calls before it did not fail -/
def nextAt (i : FInput K V) (n : Nat) : IterStep K V :=
  if i.failAt = some n then .err i.err
  else match i.items[n]? with
    | some (k, v) => .item k v
    | none => .done

/-- items delivered before the failing call -/
def avail (i : FInput K V) : List (K × V) :=
  match i.failAt with
  | none => i.items
  | some p => i.items.take p

/-- answer of `Next` after `avail`: `some e` = the injected error, `none` = Done.
A failing call number beyond `items.length` is never reached: call number `items.length` returns Done. -/
def endErr (i : FInput K V) : Option Err :=
  match i.failAt with
  | none => none
  | some p => if p ≤ i.items.length then some i.err else none

end FInput

namespace PQF
open PQ
variable {K V : Type}

/-- how the iterator with context number `c` ends -/
def endErrOf (ins : List (FInput K V)) (c : Nat) : Option Err := (ins[c]?).bind FInput.endErr

/-- `init`: `fillNext` of every input in turn; Done = not put on the heap, any other error aborts
("INIT couldn't fill next heap entry") -/
def initAux (cmp : K → K → Ordering) : Heap K V → Nat → List (FInput K V) → Except Err (Heap K V)
  | h, _, [] => .ok h
  | h, i, inp :: ins =>
    match inp.avail with
    | [] =>
      match inp.endErr with
      | some e => .error e
      | none => initAux cmp h (i + 1) ins
    | (k, v) :: rest =>
      let h' := h ++ [⟨k, v, i, rest⟩]
      initAux cmp (upHeap cmp h' h'.length) (i + 1) ins

def init (cmp : K → K → Ordering) (ins : List (FInput K V)) : Except Err (Heap K V) := initAux cmp [] 0 ins

inductive Step (K V : Type) where
  | done
  | err (e : Err)
  | item (out : K × V × Nat) (h : Heap K V)

/-- `Next`.  The root's key/value/context are saved, then the root is refilled from its iterator:
  * an item: replace in place, sift down, return the saved triple;
  * Done: swap(1, size), chop, sift down, return the saved triple;
  * any other error: return the error ("NEXT couldn't fill next heap entry") – the saved triple is NOT
    returned, i.e. the popped element is dropped, exactly as the Go code does. -/
def next (cmp : K → K → Ordering) (endErr : Nat → Option Err) (h : Heap K V) : Step K V :=
  match h with
  | [] => .done
  | top :: _ =>
    let out := (top.key, top.val, top.ctx)
    match top.rest with
    | (k', v') :: rest' =>
      .item out (downHeap cmp (hset h 1 { top with key := k', val := v', rest := rest' }))
    | [] =>
      match endErr top.ctx with
      | some e => .err e
      | none =>
        match h.getLast? with
        | some last => .item out (downHeap cmp ((hset h 1 last).dropLast))
        | none => .done

/-- number of items the heap can still return (loop bound for the callers) -/
def pendingCount (h : Heap K V) : Nat := (h.map fun e => e.rest.length + 1).sum

/-- how a sequence of `Next` calls ended -/
inductive Term where
  | done
  | err (e : Err)
  deriving DecidableEq, Repr

/-- everything `Next` returns until Done or an error (`.err .other` when the fuel runs out, which
`SST.Proofs.PQF.run_yields` shows does not happen for fuel > pendingCount) -/
def run (cmp : K → K → Ordering) (endErr : Nat → Option Err) : Nat → Heap K V → List (K × V × Nat) × Term
  | 0, _ => ([], .err .other)
  | fuel + 1, h =>
    match next cmp endErr h with
    | .done => ([], .done)
    | .err e => ([], .err e)
    | .item o h' => let r := run cmp endErr fuel h'; (o :: r.1, r.2)

end PQF
end SST
