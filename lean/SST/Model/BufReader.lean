/-
L1b: the buffered reader stack under the RecordIO file reader, as coded in
  recordio/bufio_vendor.go            (`Reader`: fill, Read, ReadByte, readErr, Reset)
  recordio/counting_buffered_reader.go (`CountingBufferedReader`)
  recordio/checksum_byte_reader.go     (`checksumByteReader`)
  io.ReadAtLeast / io.ReadFull / io.ReadAll, binary.ReadUvarint (Go standard library)
  recordio/common_reader.go            (`readRecordHeaderV2/V3/V4`, `readCanonicalUvarint`)
  recordio/file_reader.go              (`Open`, `ReadNext`, `SkipNext` for file versions 2, 3 and 4)
over an UNDERLYING io.Reader given as data: the bytes it still has to deliver and a schedule that says how
many bytes each `Read(p)` call hands out.  Core Lean only (linked into the driver).

What is abstracted (and nothing else):
* the buffer is represented by its pending slice `buf[r:w]`; the indices `r`, `w` themselves are not observable
  (`fill` slides before every read, `Read` resets them before its "one read");
* `lastByte`/`lastRuneSize` (only used by UnreadByte/UnreadRune, which the vendored copy does not have);
* `count` and `currentOffset` are naturals (Go: uint64, wraps at 2^64), except in `SkipNext`, where the uint64
  sum and the `int64(...)` conversion of the seek target are modelled (`lseek` rejects a negative target and one
  above the file system's largest offset `maxOff`, a parameter);
* allocation of the record buffer (`bufferPool.Get(int(n))`) always succeeds;
* `append`'s growth policy inside `io.ReadAll` is a parameter `grow` (law used: `c < grow c`);
* file version 1 (fixed-width legacy headers) is not modelled.
-/
import SST.Model.RecordIO
namespace SST.Buf
open SST Generated

/-- errors of this layer: the shared enum plus what only the buffered stack can produce -/
inductive XErr where
  | e (e : Err)
  | noProgress     -- io.ErrNoProgress
  | panicFill      -- panic("bufio: tried to fill full buffer")
  | fuel           -- model artefact: a fuelled loop ran out (proved unreachable)
  deriving DecidableEq, Repr, Inhabited

def XErr.toString : XErr → String
  | .e x => x.toString
  | .noProgress => "noprogress"
  | .panicFill => "panic"
  | .fuel => "fuel"

instance : ToString XErr := ⟨XErr.toString⟩

/-- result of one `Read(p)`-like call: the bytes put into `p`, the error, the new state -/
structure RR (σ : Type) where
  data : Bytes
  err : Option XErr
  st : σ

/-! ## the underlying io.Reader -/

/-- `rem`: bytes not yet delivered.  `sched`: one entry per future `Read` call, the most that call hands out
(`0` = an empty read `(0, nil)`); when the schedule is used up every call delivers as much as fits.
`eofData`: the call that delivers the last byte returns `io.EOF` together with it (legal for an io.Reader;
`os.File` never does it). -/
structure Under where
  rem : Bytes
  sched : List Nat
  eofData : Bool
  /-- ghost: `len p` of every `Read(p)` call made so far, latest first (what the reader above asked for) -/
  reqs : List Nat := []
  deriving Repr

/-- note the request in the ghost log -/
def Under.logged (u : Under) (want : Nat) : Under := { u with reqs := want :: u.reqs }

/-- hand out at most `n` bytes -/
def Under.deliver (u : Under) (n : Nat) : RR Under :=
  match u.rem with
  | [] => ⟨[], some (.e .eof), u⟩
  | _ :: _ =>
    ⟨u.rem.take n, if u.eofData && (u.rem.drop n).isEmpty then some (.e .eof) else none,
     { u with rem := u.rem.drop n }⟩

/-- `Read(p)` with `len p = want`, without the ghost log -/
def Under.readCore (u : Under) (want : Nat) : RR Under :=
  match u.sched with
  | [] => u.deliver want
  | l :: t =>
    if l = 0 then ⟨[], none, { u with sched := t }⟩
    else ({ u with sched := t } : Under).deliver (min l want)

/-- `Read(p)` with `len p = want` -/
def Under.read (u : Under) (want : Nat) : RR Under := (u.logged want).readCore want

/-! ## bufio_vendor.go: Reader -/

structure Rd where
  cap : Nat            -- len(b.buf)
  pend : Bytes         -- b.buf[b.r:b.w]
  err : Option XErr    -- b.err
  under : Under        -- b.rd
  aligned : Bool := false  -- b.aligned (NewAlignedReaderBuf, /repo commit 9c40b59)
  deriving Repr

/-- `reset(buf, r)` with `len buf = cap` (used by `Reset`, which keeps the buffer it has); the `aligned` flag
survives a reset -/
def Rd.reset (cap : Nat) (u : Under) (aligned : Bool := false) : Rd :=
  { cap := cap, pend := [], err := none, under := u, aligned := aligned }

def minReadBufferSize : Nat := 16

/-- the buffer `NewReaderBuf` actually uses: an empty one is replaced by `minReadBufferSize` bytes
(since /repo commit 964130e; before it a zero-length buffer made the first `ReadByte` panic in `fill`) -/
def effCap (cap : Nat) : Nat := if cap = 0 then minReadBufferSize else cap

/-- `NewReaderBuf(rd, buf)` with `len buf = cap` -/
def Rd.new (cap : Nat) (u : Under) : Rd := Rd.reset (effCap cap) u

/-- `NewAlignedReaderBuf(rd, buf)` (what `DirectIOFactory.CreateNewReader` uses): every read of the underlying
file goes into the reader's own buffer, never into the caller's slice -/
def Rd.newAligned (cap : Nat) (u : Under) : Rd := Rd.reset (effCap cap) u true

/-- either constructor -/
def Rd.make (aligned : Bool) (cap : Nat) (u : Under) : Rd := Rd.reset (effCap cap) u aligned

def maxConsecutiveEmptyReads : Nat := 100

/-- the read loop of `fill` (`i` = remaining attempts) -/
def Rd.fillLoop : Nat → Rd → Rd
  | 0, b => { b with err := some .noProgress }
  | i + 1, b =>
    let r := b.under.read (b.cap - b.pend.length)
    let b' : Rd := { b with pend := b.pend ++ r.data, under := r.st }
    match r.err with
    | some e => { b' with err := some e }
    | none => if r.data.length > 0 then b' else fillLoop i b'

/-- `fill`; `none` = panic("bufio: tried to fill full buffer") (unreachable for a reader made by `NewReaderBuf`,
whose capacity is ≥ 1).  The slide does not change the pending slice. -/
def Rd.fill (b : Rd) : Option Rd :=
  if b.pend.length ≥ b.cap then none else some (b.fillLoop maxConsecutiveEmptyReads)

/-- `ReadByte`: `for b.r == b.w { if b.err != nil { return 0, b.readErr() }; b.fill() }` -/
def Rd.readByteLoop : Nat → Rd → Except XErr UInt8 × Rd
  | 0, b => (.error .fuel, b)
  | k + 1, b =>
    match b.pend with
    | c :: rest => (.ok c, { b with pend := rest })
    | [] =>
      match b.err with
      | some e => (.error e, { b with err := none })
      | none =>
        match b.fill with
        | none => (.error .panicFill, b)
        | some b' => readByteLoop k b'

def Rd.readByte (b : Rd) : Except XErr UInt8 × Rd := b.readByteLoop 3

/-- the tail of `Read`: `n = copy(p, b.buf[b.r:b.w]); b.r += n; return n, nil` -/
def Rd.copyOut (b : Rd) (n : Nat) : RR Rd := ⟨b.pend.take n, none, { b with pend := b.pend.drop n }⟩

/-- `Read(p)` with `len p = n` -/
def Rd.read (b : Rd) (n : Nat) : RR Rd :=
  if n = 0 then
    (if b.pend.length > 0 then ⟨[], none, b⟩ else ⟨[], b.err, { b with err := none }⟩)
  else
    match b.pend with
    | _ :: _ => b.copyOut n
    | [] =>
      match b.err with
      | some e => ⟨[], some e, { b with err := none }⟩
      | none =>
        if n ≥ b.cap ∧ b.aligned = false then
          -- large read, empty buffer (never for an aligned reader): read directly into p; `b.err` is set and
          -- cleared again by readErr
          let r := b.under.read n
          ⟨r.data, r.err, { b with under := r.st }⟩
        else
          -- one read into the whole buffer
          let r := b.under.read b.cap
          if r.data.length = 0 then ⟨[], r.err, { b with under := r.st }⟩
          else ({ b with pend := r.data, err := r.err, under := r.st } : Rd).copyOut n

/-! ## counting_buffered_reader.go -/

structure CRd where
  rd : Rd
  count : Nat
  deriving Repr

def CRd.readByte (c : CRd) : Except XErr UInt8 × CRd :=
  match c.rd.readByte with
  | (.ok x, rd) => (.ok x, { rd := rd, count := c.count + 1 })
  | (.error e, rd) => (.error e, { rd := rd, count := c.count })

/-- the count moves only when the wrapped `Read` returned a nil error -/
def CRd.read (c : CRd) (n : Nat) : RR CRd :=
  let r := c.rd.read n
  ⟨r.data, r.err, { rd := r.st, count := if r.err.isNone then c.count + r.data.length else c.count }⟩

/-- `Reset(r)`: the count is NOT reset -/
def CRd.reset (c : CRd) (u : Under) : CRd := { c with rd := Rd.reset c.rd.cap u c.rd.aligned }

/-! ## io.ReadFull = io.ReadAtLeast(r, buf, len(buf)) over the counting reader -/

/-- what `ReadAtLeast` does after its loop -/
def finishFull (n : Nat) (acc : Bytes) (e : Option XErr) (c : CRd) : RR CRd :=
  if acc.length ≥ n then ⟨acc, none, c⟩
  else if acc.length > 0 ∧ e = some (.e .eof) then ⟨acc, some (.e .unexpectedEof), c⟩
  else ⟨acc, e, c⟩

/-- `for n < min && err == nil { nn, err = r.Read(buf[n:]); n += nn }` -/
def CRd.readFullLoop : Nat → CRd → Nat → Bytes → RR CRd
  | 0, c, _, acc => ⟨acc, some .fuel, c⟩
  | f + 1, c, n, acc =>
    if acc.length < n then
      let r := c.read (n - acc.length)
      match r.err with
      | none => readFullLoop f r.st n (acc ++ r.data)
      | some e => finishFull n (acc ++ r.data) (some e) r.st
    else finishFull n acc none c

/-- `io.ReadFull(c, buf)` with `len buf = n`: bytes read so far and the error.  Go's loop has no bound of its
own; every pass either delivers a byte or uses up a schedule entry, which bounds it here. -/
def CRd.readFull (c : CRd) (n : Nat) : RR CRd :=
  c.readFullLoop (n + c.rd.under.sched.length + 1) n []

/-! ## io.ReadAll over the counting reader -/

/-- `bcap` = cap(b); `acc` = b.  After a read that fills the slice, `append(b, 0)` grows it to `grow bcap`. -/
def CRd.readAllLoop (grow : Nat → Nat) : Nat → CRd → Nat → Bytes → RR CRd
  | 0, c, _, acc => ⟨acc, some .fuel, c⟩
  | f + 1, c, bcap, acc =>
    let r := c.read (bcap - acc.length)
    match r.err with
    | some e => ⟨acc ++ r.data, if e = .e .eof then none else some e, r.st⟩
    | none =>
      readAllLoop grow f r.st (if (acc ++ r.data).length = bcap then grow bcap else bcap) (acc ++ r.data)

def CRd.readAll (grow : Nat → Nat) (c : CRd) : RR CRd :=
  c.readAllLoop grow (c.rd.pend.length + c.rd.under.rem.length + c.rd.under.sched.length + 2) 512 []

/-! ## checksum_byte_reader.go -/

/-- `cache` = `h.bytes[:h.idx]`; the backing array has `recordHeaderMax` (36) bytes -/
structure CkRd where
  rd : CRd
  cache : Bytes

/-- the wrapped byte is consumed (and counted) before the range check -/
def CkRd.readByte (h : CkRd) : Except XErr UInt8 × CkRd :=
  match h.rd.readByte with
  | (.error e, rd) => (.error e, { h with rd := rd })
  | (.ok b, rd) =>
    if h.cache.length ≥ recordHeaderMax then (.error (.e .headerTooLong), { h with rd := rd })
    else (.ok b, { rd := rd, cache := h.cache ++ [b] })

/-! ## binary.ReadUvarint over any byte reader -/

def readUvarintLoop (step : σ → Except XErr UInt8 × σ) : Nat → (i x s : Nat) → σ → Except XErr Nat × σ
  | 0, _, _, _, st => (.error (.e .overflow), st)
  | f + 1, i, x, s, st =>
    match step st with
    | (.error e, st') => (.error (if i > 0 ∧ e = .e .eof then .e .unexpectedEof else e), st')
    | (.ok b, st') =>
      if b.toNat < 128 then
        (if i = 9 ∧ b.toNat > 1 then (.error (.e .overflow), st') else (.ok (x + b.toNat * 2 ^ s), st'))
      else readUvarintLoop step f (i + 1) (x + (b.toNat - 128) * 2 ^ s) (s + 7) st'

/-- `for i := 0; i < MaxVarintLen64; i++ { … }; return x, errOverflow` -/
def readUvarint (step : σ → Except XErr UInt8 × σ) (st : σ) : Except XErr Nat × σ :=
  readUvarintLoop step 10 0 0 0 st

/-! ## common_reader.go: record headers -/

/-- `readCanonicalUvarint` -/
def readCanonical (h : CkRd) : Except XErr Nat × CkRd :=
  match readUvarint CkRd.readByte h with
  | (.error e, h') => (.error e, h')
  | (.ok v, h') =>
    if h'.cache.length - h.cache.length > 1 ∧ h'.cache.getD (h'.cache.length - 1) 0 = 0
    then (.error (.e .nonCanonical), h') else (.ok v, h')

/-- `readRecordHeaderV4` (the caller has Reset the checksum reader: `h.cache = []`).
`hlen` of the result is the number of bytes the checksum reader has cached. -/
def readRecordHeaderV4 (h : CkRd) : Except XErr RecHeader × CkRd :=
  match readCanonical h with
  | (.error e, h1) => (.error e, h1)
  | (.ok m, h1) =>
    if m ≠ magicNumber then (.error (.e .magic), h1) else
    match h1.readByte with
    | (.error e, h2) => (.error e, h2)
    | (.ok nb, h2) =>
      match readCanonical h2 with
      | (.error e, h3) => (.error e, h3)
      | (.ok ulen, h3) =>
        match readCanonical h3 with
        | (.error e, h4) => (.error e, h4)
        | (.ok clen, h4) =>
          let actual := crc32c h4.cache
          match readCanonical h4 with
          | (.error e, h5) => (.error e, h5)
          | (.ok expected, h5) =>
            if actual.toNat ≠ expected then (.error (.e .headerCrc), h5)
            else (.ok { ulen := ulen, clen := clen, isNil := nb == 1, hlen := h5.cache.length }, h5)

/-- `readRecordHeaderV3` over the counting reader; `hlen` is not computed by Go (set to 0 here, the callers
use the difference of `Count()`) -/
def readRecordHeaderV3 (c : CRd) : Except XErr RecHeader × CRd :=
  match readUvarint CRd.readByte c with
  | (.error e, c1) => (.error e, c1)
  | (.ok m, c1) =>
    if m ≠ magicNumber then (.error (.e .magic), c1) else
    match c1.readByte with
    | (.error e, c2) => (.error e, c2)
    | (.ok nb, c2) =>
      match readUvarint CRd.readByte c2 with
      | (.error e, c3) => (.error e, c3)
      | (.ok ulen, c3) =>
        match readUvarint CRd.readByte c3 with
        | (.error e, c4) => (.error e, c4)
        | (.ok clen, c4) => (.ok { ulen := ulen, clen := clen, isNil := nb == 1, hlen := 0 }, c4)

/-- `readRecordHeaderV2` -/
def readRecordHeaderV2 (c : CRd) : Except XErr RecHeader × CRd :=
  match readUvarint CRd.readByte c with
  | (.error e, c1) => (.error e, c1)
  | (.ok m, c1) =>
    if m ≠ magicNumber then (.error (.e .magic), c1) else
    match readUvarint CRd.readByte c1 with
    | (.error e, c3) => (.error e, c3)
    | (.ok ulen, c3) =>
      match readUvarint CRd.readByte c3 with
      | (.error e, c4) => (.error e, c4)
      | (.ok clen, c4) => (.ok { ulen := ulen, clen := clen, isNil := false, hlen := 0 }, c4)

/-! ## file_reader.go -/

/-- `file` is what `r.file` holds (needed by `SkipNext`, which seeks and re-attaches the buffered reader to the
file itself); `off` = `currentOffset` -/
structure FileRd where
  file : Bytes
  rd : CRd
  off : Nat
  version : Nat

/-- `NewFileReader` with a reader factory (`NewCountingByteReader(NewReaderBuf(u, make([]byte, cap)))`, or
`NewAlignedReaderBuf` for the direct-I/O factory: `aligned = true`) -/
def FileRd.new (file : Bytes) (cap : Nat) (u : Under) (aligned : Bool := false) : FileRd :=
  { file := file, rd := { rd := Rd.make aligned cap u, count := 0 }, off := 0, version := 0 }

/-- `Open`: the 8 header bytes through `io.ReadFull`, then `readFileHeaderFromBuffer`.
Returns (version, compression code). -/
def FileRd.open (fr : FileRd) : Except XErr (Nat × Nat) × FileRd :=
  let r := fr.rd.readFull fileHeaderSize
  match r.err with
  | some e => (.error e, { fr with rd := r.st })
  | none =>
    match parseFileHeader r.data with
    | .error e => (.error (.e e), { fr with rd := r.st })
    | .ok (v, ct) => (.ok (v, ct), { fr with rd := r.st, off := fileHeaderSize, version := v })

/-- the magic-number-mismatch branch of `ReadNext`: read everything that is left; all zeros = end of file -/
def zeroTail (grow : Nat → Nat) (fr : FileRd) (c : CRd) : Except XErr GoBytes × FileRd :=
  let r := c.readAll grow
  match r.err with
  | some e => (.error e, { fr with rd := r.st })
  | none =>
    if r.data.all (· == 0) then (.error (.e .eof), { fr with rd := r.st })
    else (.error (.e .magic), { fr with rd := r.st })

/-- payload part shared by the V3 and V4 paths of `ReadNext` (after a non-nil header) -/
def readPayload (cmp : Compression) (fr : FileRd) (start : Nat) (hd : RecHeader) (c : CRd) :
    Except XErr GoBytes × FileRd :=
  let r := c.readFull (expectedLen cmp hd)
  match r.err with
  | some e => (.error e, { fr with rd := r.st })
  | none =>
    let fr' := { fr with rd := r.st, off := fr.off + (r.st.count - start) }
    match decodePayload cmp r.data with
    | .error e => (.error (.e e), fr')
    | .ok p => (.ok (some p), fr')

/-- `ReadNext`, file version 4 -/
def FileRd.readNextV4 (cmp : Compression) (grow : Nat → Nat) (fr : FileRd) : Except XErr GoBytes × FileRd :=
  let start := fr.rd.count
  match readRecordHeaderV4 { rd := fr.rd, cache := [] } with
  | (.error e, h) =>
    if e = .e .magic then zeroTail grow fr h.rd else (.error e, { fr with rd := h.rd })
  | (.ok hd, h) =>
    if hd.isNil then (.ok none, { fr with rd := h.rd, off := fr.off + (h.rd.count - start) })
    else readPayload cmp fr start hd h.rd

/-- `readNextV3` -/
def FileRd.readNextV3 (cmp : Compression) (grow : Nat → Nat) (fr : FileRd) : Except XErr GoBytes × FileRd :=
  let start := fr.rd.count
  match readRecordHeaderV3 fr.rd with
  | (.error e, c) =>
    if e = .e .magic then zeroTail grow fr c else (.error e, { fr with rd := c })
  | (.ok hd, c) =>
    if hd.isNil then (.ok none, { fr with rd := c, off := fr.off + (c.count - start) })
    else readPayload cmp fr start hd c

/-- `readNextV2` (no nil records; the offset is advanced after decompression) -/
def FileRd.readNextV2 (cmp : Compression) (grow : Nat → Nat) (fr : FileRd) : Except XErr GoBytes × FileRd :=
  let start := fr.rd.count
  match readRecordHeaderV2 fr.rd with
  | (.error e, c) =>
    if e = .e .magic then zeroTail grow fr c else (.error e, { fr with rd := c })
  | (.ok hd, c) =>
    let r := c.readFull (expectedLen cmp hd)
    match r.err with
    | some e => (.error e, { fr with rd := r.st })
    | none =>
      match decodePayload cmp r.data with
      | .error e => (.error (.e e), { fr with rd := r.st })
      | .ok p => (.ok (some p), { fr with rd := r.st, off := fr.off + (r.st.count - start) })

def unsupported : XErr := .e .rejected

/-- `ReadNext` -/
def FileRd.readNext (cmp : Compression) (grow : Nat → Nat) (fr : FileRd) : Except XErr GoBytes × FileRd :=
  if fr.version = 2 then fr.readNextV2 cmp grow
  else if fr.version = 3 then fr.readNextV3 cmp grow
  else if fr.version = 4 then fr.readNextV4 cmp grow
  else (.error unsupported, fr)

/-- the tail shared by all `SkipNext` variants: `Seek(int64(target), 0)`, `Reset(r.file)`.
The sum is computed in uint64 arithmetic.  `lseek` fails (EINVAL) for a target that is negative as an int64 or
above the largest offset the file system accepts (`maxOff`, a parameter: 2^63-1 on tmpfs, about 2^44 on ext4);
seeking past the end of the file is allowed.  After the reset the buffered reader reads the file itself: no
schedule. -/
def FileRd.seekTo (maxOff : Nat) (fr : FileRd) (c : CRd) (target : Nat) : Except XErr Unit × FileRd :=
  let t := target % 2 ^ 64
  if t ≥ 2 ^ 63 ∨ t > maxOff then (.error (.e .other), { fr with rd := c })
  else (.ok (), { fr with rd := c.reset { rem := fr.file.drop t, sched := [], eofData := false }, off := t })

def skipLen (cmp : Compression) (hd : RecHeader) : Nat := if hd.isNil then 0 else expectedLen cmp hd

/-- `SkipNext`, file version 4: header through the checksum reader, then seek -/
def FileRd.skipNextV4 (cmp : Compression) (maxOff : Nat) (fr : FileRd) : Except XErr Unit × FileRd :=
  let start := fr.rd.count
  match readRecordHeaderV4 { rd := fr.rd, cache := [] } with
  | (.error e, h) => (.error e, { fr with rd := h.rd })
  | (.ok hd, h) => fr.seekTo maxOff h.rd (fr.off + skipLen cmp hd + (h.rd.count - start))

def FileRd.skipNextV3 (cmp : Compression) (maxOff : Nat) (fr : FileRd) : Except XErr Unit × FileRd :=
  let start := fr.rd.count
  match readRecordHeaderV3 fr.rd with
  | (.error e, c) => (.error e, { fr with rd := c })
  | (.ok hd, c) => fr.seekTo maxOff c (fr.off + skipLen cmp hd + (c.count - start))

def FileRd.skipNextV2 (cmp : Compression) (maxOff : Nat) (fr : FileRd) : Except XErr Unit × FileRd :=
  let start := fr.rd.count
  match readRecordHeaderV2 fr.rd with
  | (.error e, c) => (.error e, { fr with rd := c })
  | (.ok hd, c) => fr.seekTo maxOff c (fr.off + expectedLen cmp hd + (c.count - start))

/-- `SkipNext` -/
def FileRd.skipNext (cmp : Compression) (maxOff : Nat) (fr : FileRd) : Except XErr Unit × FileRd :=
  if fr.version = 2 then fr.skipNextV2 cmp maxOff
  else if fr.version = 3 then fr.skipNextV3 cmp maxOff
  else if fr.version = 4 then fr.skipNextV4 cmp maxOff
  else (.error unsupported, fr)

/-- the names the brief uses -/
abbrev bufReadNext := @FileRd.readNextV4
abbrev bufSkipNext := @FileRd.skipNextV4

end SST.Buf
