/-
L2-legacy: VERSION-0 tables as the table reader still serves them (sstables/sstable_reader.go: the
`metaData.Version == 0` path — `v0DataReader`, `getValueAtOffset`, `validateDataFile`; sstable_iterator.go:
`V0SSTableFullScanIterator`, `SSTableIterator`; recordio/proto: `MMapProtoReader`, `Reader`), and what SimpleDB's
compaction selection concludes from the metadata such a table reports (simpledb/sstable_manager.go:
`candidateTablesForCompaction`).

A version-0 table is
  index.rio  one `IndexEntry{key, valueOffset}` per record (no value checksum: field 3 absent = 0),
  data.rio   one `DataEntry{value}` protobuf message per record,
  meta.pb.bin  absent (the oldest tables: the reader then works with the default message, ALL fields zero), or a
               `MetaData` message whose `version` field is 0,
  bloom.bf.gz  optional,
both recordio files in ANY recordio version the readers accept (the library's own test tables are recordio V1
and V2; a table the current recordio writer produced without metadata is recordio V4).

Reused as they are: the protobuf codec (SST/Model/Proto.lean, `TblDir.decDataEntry`), `TblDir.readMeta`, the index
structures and their lookups / iterators (`Index`, slice / skip-list / map loaders of SST/Model/SSTable.lean), the
legacy recordio readers (SST/Model/RecordIOLegacy.lean), `Stack.candidateMd`.  NOT modelled: the disk loader
(EXPERIMENTAL) on an index file of recordio version 1–3 (`loadIndexL … = none`); allocation failures — the slice and
map loaders size their container with `metadata.NumRecords` (`make([]sliceKey, 0, capacity)`), so a metadata file
that claims an absurd record count makes the real loader panic / run out of memory where the model opens the table
(true of current tables too; the legacy record headers have the same weakness, see SST/Model/RecordIOLegacy.lean).

The recordio readers are used with `emptyNil := false`: nothing here can tell a nil record from an empty one
(`proto.Unmarshal(nil)` = `proto.Unmarshal([]byte{})`), see `SST.Proofs.V0.readAtL_getD_emptyNil`.  Core Lean only.
-/
import SST.Model.RecordIOLegacy
import SST.Model.TableDirBytes
import SST.Model.Stack
namespace SST.V0
open SST Generated SST.Legacy

/-- the files of a table directory (bloom.bf.gz is opaque: the filter read from it is a parameter of `openTableV0`) -/
structure Files where
  index : Bytes
  data : Bytes
  metaf : Option Bytes      -- `none` = there is no meta.pb.bin
  deriving Repr, DecidableEq

/-! ## the `DataEntry` message -/

/-- `proto.Marshal(&DataEntry{Value: v})`: a nil or empty value is the empty message -/
def encDataEntry (v : GoBytes) : Bytes := pbBytesField 1 (v.getD [])

/-- what a value reads as after the trip through `DataEntry`: nil and empty are both nil -/
abbrev normVal (v : GoBytes) : GoBytes := normGo v

/-! ## recordio `Open`, any supported file version -/

/-- `FileReader.Open`: (file version, compressor, the record stream) -/
def openSeqL (comps : Nat → Compression) (file : Bytes) : Except Err (Nat × Compression × Bytes) :=
  match parseFileHeader file with
  | .error e => .error e
  | .ok (v, ct) => .ok (v, comps ct, file.drop fileHeaderSize)

/-- `MMapReader.Open`: (file version, compressor) -/
def openMmapL (comps : Nat → Compression) (file : Bytes) : Except Err (Nat × Compression) :=
  if file.length < fileHeaderSize then .error .eof else
  match parseFileHeader file with
  | .error e => .error e
  | .ok (v, ct) => .ok (v, comps ct)

/-! ## index loaders on an index file of any recordio version -/

/-- the `for { reader.ReadNext(record) … }` loop of the in-memory loaders (`SST.loadEntriesS` with the reader of
the file's version): anything that `errors.Is(err, io.EOF)` ends the loop silently -/
def loadEntriesSL (v : Nat) (c : Compression) : Nat → Bytes → Except Err (List IEntry)
  | 0, _ => .error .other
  | fuel + 1, s =>
    match readNextL false v c s with
    | .error .eof => .ok []
    | .error e => .error e
    | .ok (r, n) =>
      match decIndexEntry (r.getD []) with
      | (_, some e) => .error e
      | (en, none) => (loadEntriesSL v c fuel (s.drop n)).map (en.toI :: ·)

def loadEntriesL (comps : Nat → Compression) (indexFile : Bytes) : Except Err (List IEntry) :=
  match openSeqL comps indexFile with
  | .error e => .error e
  | .ok (v, c, s) => loadEntriesSL v c (s.length + 1) s

/-- `IndexLoader.Load` + `index.Open()`.  `none` = not modelled: the disk loader on an index file of recordio
version 1–3 (on a version 4 file it is `SST.loadIndex`). -/
def loadIndexL (comps : Nat → Compression) (k : LoaderKind) (indexFile : Bytes) : Option (Except Err Index) :=
  match k with
  | .slice => some ((loadEntriesL comps indexFile).map Index.slice)
  | .skip hs =>
    some (match loadEntriesL comps indexFile with
      | .error e => .error e
      | .ok es => (skipLoad es hs).map Index.skip)
  | .map n =>
    some (match loadEntriesL comps indexFile with
      | .error e => .error e
      | .ok es => if mapLoadOk n es then .ok (Index.map n es) else .error .other)
  | .disk =>
    match openMmapL comps indexFile with
    | .error e => some (.error e)
    | .ok (v, c) =>
      if v = currentVersion then some (.ok (Index.disk { file := indexFile, c := c, cache := [] })) else none

/-! ## the version-0 reader -/

/-- `SSTableReader` with `v0DataReader != nil`, without its index: the mapped data file, its recordio version and
compressor, the bloom filter, `skipHashCheckOnRead`, the metadata it reports -/
structure Reader where
  data : Bytes
  dv : Nat
  dc : Compression
  bloom : Option (Bytes → Bool)
  skipHashOnRead : Bool
  md : Meta

/-- `MMapProtoReader.ReadNextAt(&DataEntry{}, off)` as `getValueAtOffset` uses it: only the BARE `io.EOF` is
swallowed (`err != io.EOF`) and leaves the default message, whose value is nil.  A recordio V1 data file never
returns the bare error (`readNextAtV1` wraps every read error). -/
def protoValueAt (dv : Nat) (dc : Compression) (data : Bytes) (off : Nat) : Except Err GoBytes :=
  if bareEofAt dv data off then .ok none else
  match readAtL false dv dc data off with
  | .error e => .error e
  | .ok r =>
    match TblDir.decDataEntry (r.getD []) with
    | (v, none) => .ok v
    | (_, some e) => .error e

/-- `getValueAtOffset` on a version-0 reader.  With `EnableHashCheckOnReads` the comparison with the index
checksum is made, but a version-0 index entry carries checksum 0, which is the "older formats" bypass: nothing
is ever verified (an index entry WITH a checksum — a current table whose metadata file is missing — is compared) -/
def getValueV0 (dv : Nat) (dc : Compression) (data : Bytes) (iv : IndexVal) (skipHash : Bool) : Except Err GoBytes :=
  match protoValueAt dv dc data iv.off with
  | .error e => .error e
  | .ok v =>
    if skipHash then .ok v
    else if valueSum v ≠ iv.sum then (if iv.sum = 0 then .ok v else .error .checksum)
    else .ok v

/-- `Reader.Get` given the index answer -/
def Reader.getWith (r : Reader) (iv : Except Err IndexVal) : Except Err GoBytes :=
  match iv with
  | .error e => .error e
  | .ok iv => getValueV0 r.dv r.dc r.data iv r.skipHashOnRead

/-- `SSTableIterator.Next` repeated (ScanStartingAt / ScanRange): key iterator + `getValueAtOffset` per step -/
def scanWithV0 (dv : Nat) (dc : Compression) (data : Bytes) (skipHash : Bool) : List IEntry → IterEnd → ScanRes
  | [], fin => ([], fin)
  | e :: es, fin =>
    match getValueV0 dv dc data e.2 skipHash with
    | .error err => ([], .err err)
    | .ok v =>
      let (rest, fin') := scanWithV0 dv dc data skipHash es fin
      ((e.1, v) :: rest, fin')

def Reader.scanIter (r : Reader) (it : Iter) : ScanRes := scanWithV0 r.dv r.dc r.data r.skipHashOnRead it.1 it.2

/-- `V0SSTableFullScanIterator.Next` repeated: the i-th key of the index iterator is paired with the i-th record of
a sequential proto reader on data.rio (the offsets of the index are not used); no checksum is looked at, whatever
the options say; every error of the sequential reader — end of file included — ends the scan with that error -/
def fullScanV0S (dv : Nat) (dc : Compression) : List IEntry → IterEnd → Bytes → ScanRes
  | [], fin, _ => ([], fin)
  | e :: es, fin, s =>
    match readNextL false dv dc s with
    | .error err => ([], .err err)
    | .ok (r, n) =>
      match TblDir.decDataEntry (r.getD []) with
      | (_, some err) => ([], .err err)
      | (v, none) =>
        let (rest, fin') := fullScanV0S dv dc es fin (s.drop n)
        ((e.1, v) :: rest, fin')

/-- `Reader.Scan`: a fresh sequential reader on data.rio paired with the index iterator -/
def Reader.fullScan (comps : Nat → Compression) (r : Reader) (it : Iter) : Except Err ScanRes :=
  match openSeqL comps r.data with
  | .error e => .error e
  | .ok (v, c, s) => .ok (fullScanV0S v c it.1 it.2 s)

/-! ## `NewSSTableReader` on a version-0 table -/

/-- metadata (a missing file is the all-zero default message), index load, bloom filter (given), then — the
metadata saying version 0 — a `MMapProtoReader` on data.rio.  `validateDataFile` returns at once for a version-0
reader, whatever `skipHashCheckOnLoad` says: NOTHING of the data file is looked at on load beyond its 8 header
bytes.  `none` = not modelled (see `loadIndexL`).  A table whose metadata names a version ≥ 1 is not a
version-0 table: `SST.openTable`; here `.error .rejected`. -/
def openTableV0 (comps : Nat → Compression) (k : LoaderKind) (o : ReadOpts) (t : Files)
    (bloom : Option (Bytes → Bool)) : Option (Except Err (Reader × Index)) :=
  match TblDir.readMeta t.metaf with
  | .error e => some (.error e)
  | .ok md =>
    match loadIndexL comps k t.index with
    | none => none
    | some (.error e) => some (.error e)
    | some (.ok idx) =>
      if md.version ≠ 0 then some (.error .rejected) else
      match openMmapL comps t.data with
      | .error e => some (.error e)
      | .ok (dv, dc) =>
        some (.ok ({ data := t.data, dv := dv, dc := dc, bloom := bloom, skipHashOnRead := o.skipHashOnRead,
                     md := md }, idx))

/-! ## the reader API (the index is threaded as in SST/Model/SSTable.lean) -/

/-- `Get`; `none` = the call panics (map loader, key longer than the mapper's width) -/
def Reader.get (r : Reader) (idx : Index) (key : Bytes) : Index × Option (Except Err GoBytes) :=
  let (idx', iv) := idx.get key
  (idx', iv.map r.getWith)

/-- `Contains`: bloom filter first, then the index; the data file is not touched -/
def Reader.contains (r : Reader) (idx : Index) (key : Bytes) : Index × Option (Except Err Bool) :=
  match r.bloom with
  | some bf => if bf key then idx.contains key else (idx, some (.ok false))
  | none => idx.contains key

def Reader.scan (comps : Nat → Compression) (r : Reader) (idx : Index) : Except Err ScanRes :=
  r.fullScan comps idx.all

def Reader.scanFrom (r : Reader) (idx : Index) (key : Bytes) : Index × Except Err ScanRes :=
  let (idx', it) := idx.from key
  (idx', it.map r.scanIter)

def Reader.scanRange (r : Reader) (idx : Index) (lo hi : Bytes) : Index × Except Err ScanRes :=
  let (idx', it) := idx.between lo hi
  (idx', it.map r.scanIter)

/-- `MetaData()` -/
def Reader.metaData (r : Reader) : Meta := r.md

/-! ## what SimpleDB's compaction makes of such a table -/

/-- the per-table test of `candidateTablesForCompaction` on the metadata the reader reports -/
def candidateV0 (o : DBM.Opts) (r : Reader) : Bool := Stack.candidateMd o r.md

/-- the pairs a compaction receives from the table (executeCompaction opens a new reader with the default
options and a full scanner on it) as a merge input -/
def mergeInputV0 (comps : Nat → Compression) (t : Files) (bloom : Option (Bytes → Bool)) : Option (Except Err Merge.Input) :=
  match openTableV0 comps .slice {} t bloom with
  | none => none
  | some (.error e) => some (.error e)
  | some (.ok (r, idx)) =>
    match r.scan comps idx with
    | .error e => some (.error e)
    | .ok sr => some (.ok (Stack.scanInput sr))

/-- the layer (L6 cells) a scan result stands for: key ↦ value as delivered -/
def cellsOf (sr : ScanRes) : DBM.Layer := sr.1.map fun p => (p.1.getD [], p.2)

end SST.V0
