/-
L6 glue: the protobuf wire form of simpledb's WAL record (`simpledb/proto/wal_mutation.proto`)

  message UpsertMutation          { string key = 1; string value = 2; bytes keyBytes = 3; bytes valueBytes = 4; }
  message DeleteTombstoneMutation { string key = 1; bytes keyBytes = 2; }
  message WalMutation             { oneof mutation { UpsertMutation addition = 1;
                                                     DeleteTombstoneMutation deleteTombStone = 2; } }

as `simpledb/db.go` marshals it (PutBytes / DeleteBytes) and `simpledb/recovery.go` unmarshals and dispatches
it (`replayAndSetupWriteAheadLog`).  Marshal: a oneof member is always emitted, also when the nested message is
empty (`12 00` for a tombstone of the empty key); inside, proto3 omits empty `bytes` fields.
Unmarshal (`impl.unmarshalPointerEager`, oneof coder): members are consumed in wire order; a member of the
kind already held MERGES into the held message (later fields override), a member of the other kind replaces
it; unknown fields and known numbers with another wire type are skipped; a malformed nested message, or a
`string` field that is not valid UTF-8, fails the whole `Unmarshal`.  UTF-8 validity (`unicode/utf8`) is a
parameter.  Core Lean only.
-/
import SST.Model.Proto
import SST.Model.FS
namespace SST
namespace WalMut
open FS

/-! ## encoder -/

/-- a oneof member holding a nested message: always present, length-delimited -/
def pbMsgField (num : Nat) (inner : Bytes) : Bytes := pbTag num 2 ++ uvarintEnc inner.length ++ inner

/-- `proto.Marshal(&UpsertMutation{KeyBytes: k, ValueBytes: v})` -/
def encUpsert (k v : Bytes) : Bytes := pbBytesField 3 k ++ pbBytesField 4 v

/-- `proto.Marshal(&DeleteTombstoneMutation{KeyBytes: k})` -/
def encTombstone (k : Bytes) : Bytes := pbBytesField 2 k

/-- the record `PutBytes(k, v)` appends to the log -/
def encPut (k v : Bytes) : Bytes := pbMsgField 1 (encUpsert k v)

/-- the record `DeleteBytes(k)` appends to the log -/
def encDel (k : Bytes) : Bytes := pbMsgField 2 (encTombstone k)

def encMutation : Mutation → Bytes
  | .put k v => encPut k v
  | .del k => encDel k

/-! ## decoder -/

def walSchema : Nat → Option PbKind
  | 1 => some .bytes
  | 2 => some .bytes
  | _ => none

def upsertSchema : Nat → Option PbKind
  | 1 => some .bytes   -- string key
  | 2 => some .bytes   -- string value
  | 3 => some .bytes
  | 4 => some .bytes
  | _ => none

def tombstoneSchema : Nat → Option PbKind
  | 1 => some .bytes   -- string key
  | 2 => some .bytes
  | _ => none

/-- every occurrence of one of the `string` fields is valid UTF-8 -/
def stringsOk (utf8 : Bytes → Bool) (strs : List Nat) (fs : PbFields) : Bool :=
  fs.all fun p =>
    match p.2 with
    | .bytes b => !(strs.contains p.1) || utf8 b
    | .varint _ => true

/-- what the oneof holds: nothing, or the fields (wire order, later overrides) of the held message -/
inductive OneOf where
  | unset
  | add (fs : PbFields)
  | del (fs : PbFields)
  deriving Repr, DecidableEq

/-- one top-level field of `WalMutation` -/
def oneofStep (utf8 : Bytes → Bool) : Except Err OneOf → Nat × PbVal → Except Err OneOf
  | .error e, _ => .error e
  | .ok st, (num, .bytes p) =>
    if num = 1 then
      match pbDecode upsertSchema p with
      | (fs, none) =>
        if stringsOk utf8 [1, 2] fs then
          .ok (match st with
               | .add old => .add (old ++ fs)
               | _ => .add fs)
        else .error .other
      | (_, some e) => .error e
    else if num = 2 then
      match pbDecode tombstoneSchema p with
      | (fs, none) =>
        if stringsOk utf8 [1] fs then
          .ok (match st with
               | .del old => .del (old ++ fs)
               | _ => .del fs)
        else .error .other
      | (_, some e) => .error e
    else .ok st
  | .ok st, (_, .varint _) => .ok st

/-- `proto.Unmarshal(record, &WalMutation{})` -/
def decWalMutation (utf8 : Bytes → Bool) (b : Bytes) : Except Err OneOf :=
  match pbDecode walSchema b with
  | (fs, none) => fs.foldl (oneofStep utf8) (.ok .unset)
  | (_, some e) => .error e

/-! ## the replay callback of `replayAndSetupWriteAheadLog` -/

/-- what replaying one record does to the memstore -/
inductive Replayed where
  | mut (m : Mutation)
  | skip                 -- the oneof is not set: nothing is applied (the record still counts)
  deriving Repr, DecidableEq

/-- a `string` field as `[]byte(s)`: never nil -/
def strField (fs : PbFields) (num : Nat) : Bytes := (pbGetBytes fs num).getD []

/-- `switch u := mutation.Mutation.(type)`: the bytes fields win when `len(KeyBytes) > 0`, otherwise the legacy
string fields are used.  `memStore.Upsert` rejects a nil value (`ValueBytes` absent or empty); `[]byte("")` is
not nil, so the legacy path never fails; `memStore.Tombstone` accepts every key, the empty one included. -/
def dispatch : OneOf → Except Err Replayed
  | .unset => .ok .skip
  | .add fs =>
    match pbGetBytes fs 3 with
    | some k =>
      (match pbGetBytes fs 4 with
       | some v => .ok (.mut (.put k v))
       | none => .error .rejected)
    | none => .ok (.mut (.put (strField fs 1) (strField fs 2)))
  | .del fs =>
    match pbGetBytes fs 2 with
    | some k => .ok (.mut (.del k))
    | none => .ok (.mut (.del (strField fs 1)))

/-- the callback on one record handed over by the replayer (a nil record unmarshals like an empty one) -/
def replayRecord (utf8 : Bytes → Bool) (r : GoBytes) : Except Err Replayed :=
  match decWalMutation utf8 (r.getD []) with
  | .error e => .error e
  | .ok st => dispatch st

/-- the callback over the records of a log, in order; the first failure ends the replay (`Open` fails) -/
def replayRecords (utf8 : Bytes → Bool) : List GoBytes → Option (List Mutation)
  | [] => some []
  | r :: rs =>
    match replayRecord utf8 r with
    | .error _ => none
    | .ok .skip => replayRecords utf8 rs
    | .ok (.mut m) => (replayRecords utf8 rs).map (m :: ·)

end WalMut
end SST
