/-
Handle bookkeeping (C19): which descriptors, memory mappings and background goroutines every step of the
SimpleDB layer model (`SST.DBM`, L6) and of a stand-alone table reader (L2) opens and closes, as the Go code
does it NOW (simpledb/db.go, flush.go, compaction.go, sstable_manager.go, recovery.go,
sstables/sstable_reader.go, sstable_writer.go, slice_key_index.go, recordio/mmap_reader.go, wal/appender.go,
wal/replayer.go).

A step is mapped to a straight-line list of PHASES (`opn hs` / `cls hs`) in program order, transient handles
included; the open handles are a multiset (a `List Handle`; the same data file is legitimately mapped twice
while a compaction reads a live table through its own reader).  Closing a handle that is not open is a
no-op of the bookkeeping (`List.erase`), as `munmap`/`close` of an already released resource is for the
process' tables.

What is NOT here (runtime facts): the kernel's descriptor table and VMA list themselves, `os.File` /
`mmap.ReaderAt` finalizers (a leaked reader may be released by the garbage collector at some later time),
the goroutine scheduler (the model says which goroutines were started and joined, not when they are
scheduled), error paths (a failing `Open` or `Close` of the library leaves what it leaves).  Core Lean only.
-/
import SST.Model.DB

namespace SST
namespace HM
open SST.DBM

inductive Gor where
  | flusher      -- `go flushMemstoreContinuously(db)`
  | ticker       -- `go backgroundCompaction(db)` (only when compactions are enabled)
  deriving DecidableEq, Repr

/-- files of a table directory (and the success flag of a compaction directory) -/
inductive WFile where
  | index | data | metadata | bloom | flag
  deriving DecidableEq, Repr

inductive Handle where
  /-- descriptor of the WAL file `wal/%06d.wal` the appender currently writes -/
  | walFile (n : Nat)
  /-- memory mapping of `sstable_%015d/data.rio` held by a table reader (`mmap.Open` closes its descriptor
  again, only the mapping stays) -/
  | tableMmap (gen : Nat)
  /-- descriptor of `sstable_%015d/data.rio`: the `i`-th sequential reader that `Scan()` registered in the
  reader's `miscClosers` -/
  | scanner (gen i : Nat)
  | goroutine (g : Gor)
  /-- transient: descriptor of a WAL file read by `Replayer.Replay` -/
  | walReader (n : Nat)
  /-- transient: descriptor held by a table writer (`none` = the temporary compaction directory) -/
  | writerFd (gen : Option Nat) (f : WFile)
  /-- transient: descriptor used while `NewSSTableReader` loads metadata, index and bloom filter -/
  | loadFd (gen : Nat) (f : WFile)
  deriving DecidableEq, Repr

inductive Phase where
  | opn (hs : List Handle)
  | cls (hs : List Handle)
  deriving Repr

/-- close one after the other; closing what is not open changes nothing -/
def closeAll (l : List Handle) : List Handle → List Handle
  | [] => l
  | h :: hs => closeAll (l.erase h) hs

def applyPhase (l : List Handle) : Phase → List Handle
  | .opn hs => hs ++ l
  | .cls hs => closeAll l hs

def runPhases (l : List Handle) (ps : List Phase) : List Handle := ps.foldl applyPhase l

/-- the largest number of simultaneously open handles while the phases run (within an `opn` phase the count
only grows, within a `cls` phase it only shrinks, so the phase boundaries see the maximum) -/
def peak (l : List Handle) : List Phase → Nat
  | [] => l.length
  | p :: ps => max l.length (peak (applyPhase l p) ps)

/-- number of handles a phase list opens, transient ones included -/
def opens : List Phase → Nat
  | [] => 0
  | .opn hs :: ps => hs.length + opens ps
  | .cls _ :: ps => opens ps

/-! ## building blocks (one per library routine) -/

/-- `sstables.NewSSTableReader` with the default slice index loader: metadata read and closed, index file
read through a reader that is closed again, bloom filter read and closed, data file memory mapped and KEPT -/
def readerOpen (g : Nat) : List Phase :=
  [.opn [.loadFd g .metadata], .cls [.loadFd g .metadata],
   .opn [.loadFd g .index], .cls [.loadFd g .index],
   .opn [.loadFd g .bloom], .cls [.loadFd g .bloom],
   .opn [.tableMmap g]]

/-- `SSTableStreamWriter.Open`: index writer, data writer, metadata file -/
def writerOpen (g : Option Nat) : List Phase :=
  [.opn [.writerFd g .index, .writerFd g .data, .writerFd g .metadata]]

/-- `SSTableStreamWriter.Close`: index and data writers closed, bloom filter written (opened and closed),
metadata written and its file closed last -/
def writerClose (g : Option Nat) : List Phase :=
  [.cls [.writerFd g .index, .writerFd g .data],
   .opn [.writerFd g .bloom], .cls [.writerFd g .bloom],
   .cls [.writerFd g .metadata]]

/-- `executeFlush` for the store the model's `flushStep` would turn into a table: nothing for an idle flusher
or an empty store (then the WAL file of that store is NOT removed either); otherwise the table
`gen + 1` is written (writer opened and closed), its WAL file removed and a reader on it is opened and kept
(`addReader`) -/
def flushPhases (d : State) : List Phase :=
  if d.flushPending && !d.r.isEmpty then
    writerOpen (some (d.gen + 1)) ++ writerClose (some (d.gen + 1)) ++ readerOpen (d.gen + 1)
  else []

/-- does the flusher skip an empty store here (its WAL file then stays on disk) -/
def flushSkips (d : State) : Bool := d.flushPending && d.r.isEmpty

/-- `wal.Rotate`: the current writer is closed, the next one opened -/
def walRotate (n : Nat) : List Phase := [.cls [.walFile n], .opn [.walFile (n + 1)]]

/-- `executeCompaction` + `reflectCompactionResult` for the selected table numbers `sel` (oldest first) -/
def compactPhases : List Nat → List Phase
  | [] => []                        -- nothing selected: no file is touched
  | first :: rest =>
    let sel := first :: rest
    writerOpen none ++
    -- one reader and one sequential scanner per input, all kept open during the merge
    sel.flatMap (fun g => readerOpen g ++ [.opn [.scanner g 0]]) ++
    writerClose none ++
    -- `saveCompactionMetadata`
    [.opn [.writerFd none .flag], .cls [.writerFd none .flag],
    -- deferred: every input reader is closed, which closes its scanner first, then its mapping
     .cls (sel.flatMap fun g => [.scanner g 0, .tableMmap g]),
    -- `reflectCompactionResult`: the LIVE readers of the inputs are closed (then the directories removed)
     .cls (sel.map Handle.tableMmap)] ++
    -- the result is renamed to the first input's directory and opened
    readerOpen first

/-! ## the database with its handles -/

structure HState where
  db : State := {}
  /-- number of the WAL file the appender writes (`nextWriterNumber - 1`) -/
  walNo : Nat := 0
  /-- compactions enabled for this session (a ticker goroutine exists) -/
  ticker : Bool := false
  /-- WAL files left on disk that nobody has open and that no flush will remove: files of stores that were
  empty at rotation time, and the last file of every closed session.  `Open` replays (and deletes) them. -/
  leftover : List Nat := []
  handles : List Handle := []
  deriving Repr

inductive HStep where
  /-- any step of the layer model; `.reopen o` is `Open` with `DisableCompactions()` -/
  | op (st : Step)
  /-- `Open` with the background compaction enabled -/
  | openTicker (o : Opts)
  deriving Repr

def usable (d : State) : Bool := d.isOpen && !d.closed

def tabGens (d : State) : List Nat := d.tables.map (·.gen)

def goroutines (ticker : Bool) : List Handle :=
  .goroutine .flusher :: (if ticker then [.goroutine .ticker] else [])

/-- `Open` on the directory a clean `Close` (or nothing) left: every table directory gets a reader, the
replayer opens EVERY left-over WAL file and closes them all when `Replay` returns (they hold no records after
a clean close, so nothing is flushed), the WAL directory is recreated, the appender opens file 0, the flusher
and (if enabled) the compaction goroutine are started -/
def openPhases (s : HState) (ticker : Bool) : List Phase :=
  (tabGens s.db).flatMap readerOpen ++
  [.opn (s.leftover.map Handle.walReader), .cls (s.leftover.map Handle.walReader),
   .opn [.walFile 0],
   .opn (goroutines ticker)]

/-- `rotateWalAndFlushMemstore`: WAL rotated, then the hand-off to the flusher, which is only taken once the
flusher has finished the store it had (the phases of that flush run concurrently with the rotation in the real
program; they touch disjoint handles) -/
def rotatePhases (s : HState) : List Phase := walRotate s.walNo ++ flushPhases s.db

def rotateCore (s : HState) (d' : State) : HState :=
  { s with db := d', walNo := s.walNo + 1,
           leftover := if flushSkips s.db then s.leftover ++ [s.walNo - 1] else s.leftover }

/-- `Close`: rotate, the flusher finishes the last store and ends, the compaction goroutine is stopped and
joined, the WAL writer is closed, the stacked reader closes every live table reader -/
def closePhases (s : HState) : List Phase :=
  let d1 := rotate s.db
  rotatePhases s ++ flushPhases d1 ++
  [.cls [.goroutine .flusher]] ++
  (if s.ticker then [.cls [.goroutine .ticker]] else []) ++
  [.cls [.walFile (s.walNo + 1)],
   .cls ((tabGens (flushStep d1)).map Handle.tableMmap)]

/-- did this client call rotate the memstore -/
def putRotates (d : State) : Step → Bool
  | .putB k v rot => rot && (putBytes d k v rot).2 == .ok
  | .putS k v rot => rot && (putStr d k v rot).2 == .ok
  | _ => false

/-- the phases of one step, in program order -/
def phasesOf (s : HState) : HStep → List Phase
  | .openTicker _ => if s.db.closed || !s.db.isOpen then openPhases s true else []
  | .op st =>
    match st with
    | .reopen _ => if s.db.closed || !s.db.isOpen then openPhases s false else []
    | .putB .. | .putS .. => if putRotates s.db st then rotatePhases s else []   -- a WAL append opens nothing
    | .delB _ | .delS _ | .get _ => []
    | .rotate => if usable s.db then rotatePhases s else []
    | .flush => flushPhases s.db
    | .compact sizes => if usable s.db then compactPhases (compactStep s.db sizes).2 else []
    | .close => if usable s.db then closePhases s else []

/-- everything of the next state except the handle multiset -/
def nextCore (s : HState) : HStep → HState
  | .openTicker o =>
    if s.db.closed || !s.db.isOpen then
      { s with db := reopen s.db o, walNo := 0, ticker := true, leftover := [] } else s
  | .op st =>
    let d' := (step s.db st).1
    match st with
    | .reopen _ =>
      if s.db.closed || !s.db.isOpen then { s with db := d', walNo := 0, ticker := false, leftover := [] } else s
    | .putB .. | .putS .. => if putRotates s.db st then rotateCore s d' else { s with db := d' }
    | .rotate => if usable s.db then rotateCore s d' else s
    | .flush =>
      { s with db := d', leftover := if flushSkips s.db then s.leftover ++ [s.walNo - 1] else s.leftover }
    | .close =>
      if usable s.db then
        let s1 := rotateCore s (rotate s.db)
        { s1 with db := d',
                  leftover := (if flushSkips s1.db then s1.leftover ++ [s.walNo] else s1.leftover) ++ [s.walNo + 1] }
      else s
    | _ => { s with db := d' }

def hstep (s : HState) (st : HStep) : HState :=
  { nextCore s st with handles := runPhases s.handles (phasesOf s st) }

def hrun : HState → List HStep → HState
  | s, [] => s
  | s, st :: rest => hrun (hstep s st) rest

/-! ## a stand-alone table reader (sstables.SSTableReader on table `gen`) -/

structure RState where
  gen : Nat
  created : Bool := false
  /-- `len(miscClosers)`: the list is never shortened, not even by `Close` -/
  scans : Nat := 0
  handles : List Handle := []
  deriving Repr

inductive RStep where
  | newReader
  /-- `Scan()`: a sequential file reader on the data file, registered in `miscClosers` -/
  | scan
  /-- `ScanStartingAt` / `ScanRange`: an index iterator that reads values through the mapping; opens nothing -/
  | scanAt
  /-- iterating a scanner to `Done`: the sequential reader reaches EOF and is NOT closed -/
  | finishScan
  /-- dropping a scanner after some (or no) `Next` calls -/
  | abandonScan
  /-- `Close()`: every registered closer, then the mapping.  `Scan()` does not check for a closed reader: a scan
  after `Close` opens a descriptor that only a SECOND `Close` releases. -/
  | closeReader
  deriving DecidableEq, Repr

def rPhases (s : RState) : RStep → List Phase
  | .newReader => if s.created then [] else readerOpen s.gen
  | .scan => if s.created then [.opn [.scanner s.gen s.scans]] else []
  | .scanAt | .finishScan | .abandonScan => []
  | .closeReader =>
    if s.created then [.cls ((List.range s.scans).map (Handle.scanner s.gen)), .cls [.tableMmap s.gen]] else []

def rstep (s : RState) (st : RStep) : RState :=
  let core : RState := match st with
    | .newReader => { s with created := true }
    | .scan => if s.created then { s with scans := s.scans + 1 } else s
    | _ => s
  { core with handles := runPhases s.handles (rPhases s st) }

def rrun : RState → List RStep → RState
  | s, [] => s
  | s, st :: rest => rrun (rstep s st) rest

end HM
end SST
