/-
L7 with I/O FAULTS (C11, system-level half): the flush and compaction steps of SST/Model/Stack.lean generalised
so that
  * every `WriteNext` of the output writer may carry a fault (`Fault.data`: the data append fails,
    `Fault.index`: the index append fails and the data writer is rewound — as in `SstW`),
  * the writer's `Close` may fail at any of its five I/O actions (`SSTableStreamWriter.Close` as coded:
    `errors.Join(indexWriter.Close(), dataWriter.Close())`, then the bloom filter file, then the metadata
    write, then the deferred `metaDataFile.Close()` — every error is joined into the returned error),
  * every input scan of a compaction may fail at a chosen `Next` call (`FInput.failAt`, the fallible inputs
    of the Merge model / C11).
A memstore iterator reads memory only and cannot fail (`skiplist` iterators return Done or an item).

As coded: `flushMemstore` returns the `WriteNext` error joined with `writer.Close()`; executeFlush returns it
and the flusher goroutine panics (`log.Panicf`).  executeCompaction returns the `MergeCompact` error (the
deferred `writer.Close()` joined), or — after a successful merge — the error of the explicit `writer.Close()`
BEFORE `saveCompactionMetadata`; `reflectCompactionResult` is only reached with a nil error.  In the model
"error" = the step returns `.error _`: no new state exists, nothing is added to / replaced in the live tables.

Two-phase formulation as in SST/Model/Stack.lean: the calls are collected, the faults attached by call number,
then run through `SstW`; the first call whose result is not `ok` fails the step (the literal loop would stop
there; every later fault is then simply not reached — the step fails either way).
New definitions only; nothing of SST/Model/Stack.lean is changed.  Core Lean only.
-/
import SST.Model.Stack
namespace SST
namespace Stack
open Generated

/-! ## `Close` of the stream writer -/

/-- which I/O action of `SSTableStreamWriter.Close` fails -/
structure CloseFault where
  indexClose : Bool := false     -- `writer.indexWriter.Close()` (flushes the buffered index records)
  dataClose : Bool := false      -- `writer.dataWriter.Close()`
  bloomWrite : Bool := false     -- `bloomFilter.WriteFile`
  metaWrite : Bool := false      -- `metaDataFile.Write(bytes)`
  metaClose : Bool := false      -- the deferred `metaDataFile.Close()`
  deriving DecidableEq, Repr

inductive CloseErr where
  | indexClose | dataClose | bloomWrite | metaWrite | metaClose
  deriving DecidableEq, Repr

/-- the errors `Close` joins, in the order of the code: index and data close are both attempted and joined;
the bloom filter is written regardless; a failing metadata write returns early, but the deferred close of
the metadata file still runs and is joined.  `Close` returns nil iff this list is empty. -/
def closeErrs (cf : CloseFault) : List CloseErr :=
  (if cf.indexClose then [.indexClose] else []) ++ (if cf.dataClose then [.dataClose] else []) ++
  (if cf.bloomWrite then [.bloomWrite] else []) ++ (if cf.metaWrite then [.metaWrite] else []) ++
  (if cf.metaClose then [.metaClose] else [])

/-! ## failures -/

inductive FailF where
  | base (f : Fail)                       -- a failure of the fault-free vocabulary (a faulty `WriteNext` is
                                          -- `flushWrite .io` / `compactWrite .io`, a read fault `compactMerge e`)
  | flushClose (errs : List CloseErr)     -- `FlushWithTombstones`: the deferred `writer.Close()` failed
  | compactClose (errs : List CloseErr)   -- executeCompaction: `writer.Close()` failed
  deriving DecidableEq, Repr

def liftFail {α : Type} : Except Fail α → Except FailF α
  | .ok a => .ok a
  | .error f => .error (.base f)

/-! ## attaching faults -/

/-- the `i`-th `WriteNext` call gets the `i`-th fault (no fault beyond the list) -/
def attachFaults : List Call → List Fault → List Call
  | [], _ => []
  | c :: cs, [] => c :: cs
  | c :: cs, f :: fs => { c with fault := f } :: attachFaults cs fs

/-- a scanner with an injected read fault: `Next` call number `p` (0-based) returns an I/O error -/
def scanInputF (sr : ScanRes) : Option Nat → Merge.Input
  | none => scanInput sr
  | some p => { items := sr.1, failAt := some p, err := .io }

/-- the `i`-th selected table's scanner gets the `i`-th read fault -/
def attachReads : List ScanRes → List (Option Nat) → List Merge.Input
  | [], _ => []
  | sr :: srs, [] => scanInput sr :: attachReads srs []
  | sr :: srs, r :: rs => scanInputF sr r :: attachReads srs rs

/-! ## writing a table -/

/-- `writeAndOpen` with faults: the calls with their faults through `SstW`; a call that is not `ok` fails
the operation; then `Close`; only a table that was written and closed without error is loaded -/
def writeAndOpenF (P : Params) (gen : Nat) (calls : List Call) (faults : List Fault) (cf : CloseFault)
    (onWrite : WRes → Fail) (onClose : List CloseErr → FailF) (onOpen : Err → Fail) : Except FailF LiveTbl :=
  match ((SstW.open P.cfg).run P.cfg (attachFaults calls faults)).2.find? (· ≠ .ok) with
  | some r => .error (.base (onWrite r))
  | none =>
    match closeErrs cf with
    | e :: es => .error (onClose (e :: es))
    | [] => liftFail (writeAndOpen P gen (attachFaults calls faults) onWrite onOpen)

/-! ## flush -/

structure FlushFaults where
  writes : List Fault := []
  close : CloseFault := {}

/-- `executeFlush` with faults -/
def flushStepF (P : Params) (ff : FlushFaults) (c : State) : Except FailF State :=
  if !c.flushPending then .ok c
  else if c.r.sl.size = 0 then .ok { c with flushPending := false }
  else
    match newWriter c.r.sl.size with
    | .error f => .error (.base f)
    | .ok _ =>
      match Mem.flushCalls c.r true with
      | none => .error (.base .memPanic)
      | some calls =>
        match writeAndOpenF P (c.gen + 1) (calls.map mkCall) ff.writes ff.close .flushWrite .flushClose .flushOpen with
        | .error f => .error f
        | .ok t => .ok { c with flushPending := false, gen := c.gen + 1, tables := c.tables ++ [t] }

/-! ## compaction -/

/-- what a compaction cycle has selected and opened: the positions, numbers, the open scanners and the
reducer flag (`startsAtOldestTable`) -/
structure SelInfo where
  first : Nat
  idx : List Nat
  gens : List Nat
  gen : Nat
  scans : List ScanRes
  dropTombstones : Bool

/-- selection, writer creation and scanners of `compactPlan` -/
def compactSel (P : Params) (c : State) : Except Fail (Option SelInfo) :=
  let flags := DBM.floodFill (c.tables.map fun t => candidateMd c.opts t.rd.md)
  let idx := (List.range c.tables.length).filter fun i => flags.getD i false
  if idx.isEmpty || decide ((idx.length : Int) ≤ c.opts.threshold) then .ok none else
  match idx with
  | [] => .ok none
  | first :: _ =>
    let sel := idx.filterMap fun i => c.tables[i]?
    match sel with
    | [] => .ok none
    | t0 :: _ =>
      let numRecords := (sel.map (·.rd.md.numRecords)).sum
      match newWriter (if numRecords = 0 then 1 else numRecords) with
      | .error f => .error f
      | .ok _ =>
        match scanAll P sel with
        | .error e => .error (.compactOpen e)
        | .ok scans =>
          .ok (some { first := first, idx := idx, gens := sel.map (·.gen), gen := t0.gen, scans := scans,
                      dropTombstones := flags.getD 0 false })

def reducerOf (drop : Bool) : Merge.ReduceFn :=
  if drop then Merge.scanReduceLatestWinsSkipTombstones else scanReduceLatestWinsKeepTombstones

/-- `MergeCompact` over the scanners with their read faults -/
def planOf (reads : List (Option Nat)) (si : SelInfo) : Except Fail Plan :=
  match Merge.mergeCompact (attachReads si.scans reads) {} (reducerOf si.dropTombstones) with
  | (some e, _) => .error (.compactMerge e)
  | (none, wr) => .ok { first := si.first, idx := si.idx, gens := si.gens, gen := si.gen, out := wr.out }

def compactPlanF (P : Params) (reads : List (Option Nat)) (c : State) : Except Fail (Option Plan) :=
  match compactSel P c with
  | .error f => .error f
  | .ok none => .ok none
  | .ok (some si) =>
    match planOf reads si with
    | .error f => .error f
    | .ok pl => .ok (some pl)

structure CompactFaults where
  reads : List (Option Nat) := []      -- per selected table (in selection order): the failing `Next` call
  writes : List Fault := []            -- per `WriteNext` call of `MergeCompact`
  close : CloseFault := {}

/-- `executeCompaction` + `reflectCompactionResult` with faults: the result is installed only when every
stage returned nil -/
def compactStepF (P : Params) (cf : CompactFaults) (c : State) : Except FailF (State × List Nat) :=
  match compactPlanF P cf.reads c with
  | .error f => .error (.base f)
  | .ok none => .ok (c, [])
  | .ok (some pl) =>
    match writeAndOpenF P pl.gen (pl.out.map fun p => { key := p.1, value := p.2, fault := .none })
        cf.writes cf.close .compactWrite .compactClose .compactLoad with
    | .error f => .error f
    | .ok merged => .ok ({ c with tables := reflect c.tables pl merged }, pl.gens)

/-- the database after a background operation returned: on an error nothing was installed (the caller of the
hook gets the error; in production the goroutine panics and this state is what is on disk and in memory) -/
def stateAfter {α : Type} (c : State) (proj : α → State) : Except FailF α → State
  | .ok a => proj a
  | .error _ => c

end Stack
end SST
