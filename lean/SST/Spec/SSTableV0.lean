/-
Spec side of the version-0 tables: the reference layout of such a table (there is no writer for it in the
repository any more; the layout is confirmed against /repo/sstables/test_files/v0_compat by the stream `legacy`),
the hypotheses of the read-side theorems, and "reads like the sorted map".
-/
import SST.Model.SSTableV0
import SST.Spec.RecordIOLegacy
import SST.Spec.SSTable
namespace SST.V0
open SST Generated SST.Legacy

/-- how a version-0 table is laid out on disk: recordio version, compressor and compression code of its two files -/
structure Cfg where
  iv : Nat                 -- recordio version of index.rio
  ic : Compression
  ict : Nat
  dv : Nat                 -- recordio version of data.rio
  dc : Compression
  dct : Nat

/-- the record data.rio holds for a value: its `DataEntry` message (the proto writer hands a non-nil slice down) -/
def dataRecOf (v : GoBytes) : GoBytes := some (encDataEntry v)

/-- (key, offset of the value record in data.rio) of a table holding `kvs`, the first value record starting at `off` -/
def entriesFromV0 (dv : Nat) (dc : Compression) (off : Nat) : List KV → List (Bytes × Nat)
  | [] => []
  | (k, v) :: rest => (k, off) :: entriesFromV0 dv dc (off + (encRecordL dv dc (dataRecOf v)).length) rest

def entriesOfV0 (cfg : Cfg) (kvs : List KV) : List (Bytes × Nat) := entriesFromV0 cfg.dv cfg.dc fileHeaderSize kvs

/-- the record index.rio holds for an entry: `IndexEntry{key, valueOffset}` — no checksum -/
def indexRecOfV0 (e : Bytes × Nat) : GoBytes := some (encIndexEntry e.1 e.2 0)

def dataFileOfV0 (cfg : Cfg) (kvs : List KV) : Bytes :=
  encFileL cfg.dv cfg.dc cfg.dct (kvs.map fun p => dataRecOf p.2)

def indexFileOfV0 (cfg : Cfg) (kvs : List KV) : Bytes :=
  encFileL cfg.iv cfg.ic cfg.ict ((entriesOfV0 cfg kvs).map indexRecOfV0)

/-- the version-0 table that holds exactly `kvs`, with the metadata file given (`none` = no file) -/
def filesOf (cfg : Cfg) (kvs : List KV) (metaf : Option Bytes) : Files :=
  { index := indexFileOfV0 cfg kvs, data := dataFileOfV0 cfg kvs, metaf := metaf }

/-- the pairs as a version-0 table can hold them: a nil or empty value is stored as the empty message and reads
as nil -/
def normKVs (kvs : List KV) : List KV := kvs.map fun p => (p.1, normVal p.2)

/-- the compressor table agrees with the layout and is lawful; the file versions are supported ones -/
def CfgOk (comps : Nat → Compression) (cfg : Cfg) : Prop :=
  comps cfg.dct = cfg.dc ∧ comps cfg.ict = cfg.ic ∧ LawfulC cfg.dc ∧ LawfulC cfg.ic ∧
  cfg.dct ≤ maxCompression ∧ cfg.ict ≤ maxCompression ∧
  (1 ≤ cfg.iv ∧ cfg.iv ≤ 4) ∧ (1 ≤ cfg.dv ∧ cfg.dv ≤ 4)

/-- sizes fit the 64-bit fields of the formats (always true of real slices) -/
def FitsV0 (cfg : Cfg) (kvs : List KV) : Prop :=
  (∀ p ∈ kvs, FitsL cfg.dc (dataRecOf p.2) ∧ p.1.length < 2 ^ 64 ∧ (p.2.getD []).length < 2 ^ 64) ∧
  (∀ e ∈ entriesOfV0 cfg kvs, e.2 < 2 ^ 64 ∧ FitsL cfg.ic (indexRecOfV0 e))

/-- the metadata file says "version 0" (or is absent) and parses -/
def MetaV0 (metaf : Option Bytes) (md : Meta) : Prop := TblDir.readMeta metaf = .ok md ∧ md.version = 0

/-- the version-0 reader answers exactly like the sorted map of `kvs` (point lookups for the probes in `P`) — the
statement of `SST.ReadsAsMap` for `V0.Reader`.  `kvs` are the pairs AS A VERSION-0 TABLE CAN HOLD THEM
(`normKVs`): a value is nil or non-empty. -/
structure ReadsAsMapV0 (comps : Nat → Compression) (P : Bytes → Prop) (r : Reader) (idx : Index)
    (kvs : List KV) : Prop where
  get : ∀ k, P k → r.get idx k = (idx, some (specGetRes kvs k))
  contains : ∀ k, P k → r.contains idx k = (idx, some (.ok (specGet bytesCmp kvs k).isSome))
  scan : r.scan comps idx = .ok (kvs.map normKV, .done)
  scanFrom : ∀ k, r.scanFrom idx k = (idx, specScanFrom kvs k)
  scanRange : ∀ lo hi, r.scanRange idx lo hi = (idx, specScanRange kvs lo hi)

/-! ## evaluation helpers for the concrete theorems (repository files, damage witnesses) -/

/-- a decoder for the snappy BLOCK format restricted to what the repository's version-0 test tables contain: one
literal of at most 60 bytes (`uvarint(len) , (len-1)<<2 , bytes`); the empty block is `00`.  Everything else is
rejected.  (The real decompressor is external code; this one only serves `decide` on the real files.) -/
def snappyLiteralDec (s : Bytes) : Option Bytes :=
  match s with
  | [0] => some []
  | n :: tag :: rest =>
    if n.toNat < 61 ∧ 0 < n.toNat ∧ tag.toNat = (n.toNat - 1) * 4 ∧ rest.length = n.toNat then some rest else none
  | _ => none

def snappyLiteral : Comp :=
  { enc := fun r => if r.isEmpty then [0] else UInt8.ofNat r.length :: UInt8.ofNat ((r.length - 1) * 4) :: r
    dec := snappyLiteralDec }

/-- compression code 2 = snappy (literal blocks only), everything else uncompressed -/
def evalComps : Nat → Compression := fun ct => if ct = 2 then some snappyLiteral else none

instance instDecEqScanResV0 : DecidableEq ScanRes := fun a b => instDecidableEqProd a b

/-- `Get(key)` on a version-0 table given by its files: slice loader, the given options, no bloom filter -/
def probeGetV0 (comps : Nat → Compression) (o : ReadOpts) (t : Files) (key : Bytes) : Option (Except Err GoBytes) :=
  match openTableV0 comps .slice o t none with
  | none => none
  | some (.error e) => some (.error e)
  | some (.ok (r, idx)) => (r.get idx key).2

def probeScanV0 (comps : Nat → Compression) (t : Files) : Option (Except Err ScanRes) :=
  match openTableV0 comps .slice {} t none with
  | none => none
  | some (.error e) => some (.error e)
  | some (.ok (r, idx)) => some (r.scan comps idx)

def probeMetaV0 (comps : Nat → Compression) (t : Files) : Option (Except Err Meta) :=
  match openTableV0 comps .slice {} t none with
  | none => none
  | some (.error e) => some (.error e)
  | some (.ok (r, _)) => some (.ok r.md)

end SST.V0
