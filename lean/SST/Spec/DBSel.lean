/-
L6, compaction for an ARBITRARY per-table selection.

`DBM.compactStep` computes the per-table candidate flags with `DBM.candidate` from the table's CELLS (number of
cells, number of tombstone cells) — which is what truthful metadata report.  The real code
(`candidateTablesForCompaction`) reads them from the table METADATA; a version-0 (legacy) table without a
metadata file is loaded with the all-zero default metadata although it holds records, so there the flags differ
from what `DBM.candidate` computes.  `compactStepSel` is `compactStep` with the raw per-table flags as a
parameter: everything after the flags (flood fill, threshold, merge, `reflectCompactionResult`) is literally the
text of `compactStep`.  No assumption is made on the length of `raw`: positions past its end count as `false`
(`List.getD … false`), entries past the number of tables are ignored by the index filter.  Core Lean only.
-/
import SST.Spec.DB
namespace SST
namespace DBM

/-- one compaction cycle with the per-table candidate flags `raw` given instead of computed by `candidate`
(`raw[i]` = "table `i` is a candidate").  Returns the new state and the numbers of the selected tables. -/
def compactStepSel (s : State) (raw : List Bool) : State × List Nat :=
  let flags := floodFill raw
  let idx := (List.range s.tables.length).filter fun i => flags.getD i false
  if (idx.length : Int) ≤ s.opts.threshold then (s, []) else
  match idx with
  | [] => (s, [])
  | first :: _ =>
    let sel := idx.filterMap fun i => s.tables[i]?
    match sel with
    | [] => (s, [])
    | t0 :: _ =>
      let merged : Tbl := { gen := t0.gen, cells := mergeRun sel (first == 0) }
      let tables' := ((List.range s.tables.length).zip s.tables).flatMap fun (i, t) =>
        if i == first then [merged] else if idx.contains i then [] else [t]
      ({ s with tables := tables' }, sel.map (·.gen))

/-- the flags `compactStep` uses: `candidate` on the cells of every table and the given size -/
def rawOf (s : State) (sizes : List Nat) : List Bool :=
  (s.tables.zip sizes).map fun (t, sz) => candidate s.opts t sz

end DBM
end SST
