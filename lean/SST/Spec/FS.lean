/-
Spec side of L6-fs: the content a successful recovery of a disk serves (`logical`), and the well-formedness
predicate `DiskOk` of the disks that sessions and recoveries leave behind at any system-call boundary.
-/
import SST.Model.FS
import SST.Spec.DB

namespace SST
namespace FS
open DBM

/-! ## what a successful recovery yields -/

/-- the live tables after finishing flagged compactions, dropping unflagged compaction directories and
dropping directories that do not load -/
def effTables (d : Disk) : List Tbl := tblsOf (phase1 d).tables

/-- the content of the database a successful `Open` of this disk serves -/
def logical (d : Disk) (k : Key) : Option Bytes :=
  match (applyMuts [] (walMuts d.wal)).get k with
  | some (some v) => some v
  | some none => none
  | none => vis (tablesGet (effTables d) k)

/-! ## well-formed disks -/

def Mutation.ok : Mutation → Bool
  | .put _ v => !v.isEmpty
  | .del _ => true

def coveredBy (cs : List CompDir) (g : Nat) : Bool :=
  cs.any fun c => match c.flag with
    | some m => m.inputs.contains g || g == m.replacement
    | none => false

/-- The shapes of disks that sessions and recoveries leave behind at any system-call boundary:
* table and WAL listings are in strict name order, compaction directories have distinct names;
* without a WAL directory there are no WAL files; only the LAST WAL file may lack its header or end in a cut record;
* logged upserts carry non-empty values (PutBytes validates before logging);
* at most one compaction directory carries a readable success flag, and its table is complete (the writer is
  closed before the flag is written);
* a table directory that has metadata but does not load (half deleted) is an input or the replacement of the
  flagged compaction — recovery deletes it before it loads tables.
Table directories without metadata (unfinished flushes) and unflagged compaction directories may be anywhere. -/
structure DiskOk (d : Disk) : Prop where
  tblSorted : (d.tables.map (·.1)).Pairwise (· < ·)
  walSorted : (d.wal.map (·.num)).Pairwise (· < ·)
  compIds : (d.comps.map (·.id)).Pairwise (· ≠ ·)
  walDirOk : d.walDir = false → d.wal = []
  walRead : walReadable d.wal = true
  putsOk : ∀ m ∈ walMuts d.wal, m.ok = true
  oneFlag : (d.comps.filter isFlagged).length ≤ 1
  flagOut : ∀ c ∈ d.comps, isFlagged c = true → isComplete c.out = true
  covered : ∀ p ∈ d.tables, isPartMeta p.2 = true → coveredBy d.comps p.1 = true

instance (d : Disk) : Decidable (DiskOk d) :=
  decidable_of_iff
    ((d.tables.map (·.1)).Pairwise (· < ·) ∧ (d.wal.map (·.num)).Pairwise (· < ·) ∧
      (d.comps.map (·.id)).Pairwise (· ≠ ·) ∧ (d.walDir = false → d.wal = []) ∧ walReadable d.wal = true ∧
      (∀ m ∈ walMuts d.wal, m.ok = true) ∧ (d.comps.filter isFlagged).length ≤ 1 ∧
      (∀ c ∈ d.comps, isFlagged c = true → isComplete c.out = true) ∧
      (∀ p ∈ d.tables, isPartMeta p.2 = true → coveredBy d.comps p.1 = true))
    ⟨fun ⟨a, b, c, e, f, g, h, i, j⟩ => ⟨a, b, c, e, f, g, h, i, j⟩,
     fun ⟨a, b, c, e, f, g, h, i, j⟩ => ⟨a, b, c, e, f, g, h, i, j⟩⟩

/-- the error of a failed `Open`, if it failed -/
def errOf (r : Except RecErr (Disk × State)) : Option RecErr :=
  match r with
  | .error e => some e
  | .ok _ => none

/-! ## the reference a crash image is compared with -/

/-- the reference (`DBM.Spec`: a map plus open/closed flags) after a list of steps -/
def specFold (sp : Spec) : List Step → Spec
  | [] => sp
  | st :: rest => specFold (specStep sp st).1 rest

/-- a logged mutation applied to a reference map -/
def Mutation.spec (f : Key → Option Bytes) : Mutation → Key → Option Bytes
  | .put k v => fun x => if x = k then some v else f x
  | .del k => fun x => if x = k then none else f x

def applySpec (f : Key → Option Bytes) (ms : List Mutation) : Key → Option Bytes := ms.foldl Mutation.spec f

/-- per step of a session: the mutation the call logs (if it is accepted) and whether the step rotates the memstore -/
def sessionInfo (async : Bool) : Disk → Vol → List AStep → List (Option Mutation × Bool)
  | _, _, [] => []
  | d, v, a :: rest =>
    let (es, v') := fsStep async d v a
    (stepMut v.s a.st, stepRotates v.s a.st) :: sessionInfo async (applyEvs d es) v' rest

/-- number of mutations issued up to (and including) the last rotating step; `cnt` = mutations so far -/
def rotMarkFrom (mark cnt : Nat) : List (Option Mutation × Bool) → Nat
  | [] => mark
  | (mo, rot) :: rest => rotMarkFrom (if rot then cnt + mo.toList.length else mark) (cnt + mo.toList.length) rest

def rotMark (info : List (Option Mutation × Bool)) : Nat := rotMarkFrom 0 0 info

end FS
end SST
