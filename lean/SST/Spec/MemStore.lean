/-
Spec side of L4b: the reference map of the memstore.  A key is a byte string (a nil key that gets past the
entry point is the empty key), a key is absent, tombstoned or holds a value; the map is kept as an
association list in strictly ascending key order.  Nothing here mentions skip lists, pointers or sizes
being maintained incrementally.
-/
import SST.Model.MemStore
namespace SST
namespace Mem

inductive Cell where
  | tomb
  | val (v : Bytes)
  deriving DecidableEq, Repr

/-- what the Go API hands out for a cell: nil for a tombstone -/
def Cell.toGo : Cell → GoBytes
  | .tomb => none
  | .val v => some v

def Cell.len : Cell → Nat
  | .tomb => 0
  | .val v => v.length

abbrev RefMap := List (Bytes × Cell)

namespace RefMap

def get (k : Bytes) : RefMap → Option Cell
  | [] => none
  | (k', c) :: rest => if k = k' then some c else get k rest

/-- set `k ↦ c`, keeping ascending key order -/
def put (k : Bytes) (c : Cell) : RefMap → RefMap
  | [] => [(k, c)]
  | (k', c') :: rest =>
    match bytesCmp k k' with
    | .lt => (k, c) :: (k', c') :: rest
    | .eq => (k, c) :: rest
    | .gt => (k', c') :: put k c rest

/-- Σ over entries of |key| + |value| (a tombstone has no value bytes) -/
def bytes : RefMap → Nat
  | [] => 0
  | (k, c) :: rest => k.length + c.len + bytes rest

/-- entries as the iterator / `FlushWithTombstones` present them: nil value for a tombstone -/
def entries (r : RefMap) : List (Bytes × GoBytes) := r.map fun e => (e.1, e.2.toGo)

/-- entries `Flush` writes: tombstoned keys left out -/
def liveEntries (r : RefMap) : List (Bytes × GoBytes) := (entries r).filter fun e => e.2.isSome

def liveCount (r : RefMap) : Nat := (r.filter fun e => e.2 != .tomb).length
def tombCount (r : RefMap) : Nat := (r.filter fun e => e.2 == .tomb).length

end RefMap

/-- reference semantics of one call -/
def refStep (r : RefMap) : Op → Res × RefMap
  | .add k v =>
    match k, v with
    | none, _ => (.err (some .keyNil), r)
    | some _, none => (.err (some .valueNil), r)
    | some kb, some vb =>
      match r.get kb with
      | some (.val _) => (.err (some .keyAlreadyExists), r)
      | _ => (.err none, r.put kb (.val vb))          -- absent or tombstoned: (re-)added
  | .upsert k v =>
    match k, v with
    | none, _ => (.err (some .keyNil), r)
    | some _, none => (.err (some .valueNil), r)
    | some kb, some vb => (.err none, r.put kb (.val vb))
  | .delete k =>
    match r.get (k.getD []) with
    | none => (.err (some .keyNotFound), r)
    | some _ => (.err none, r.put (k.getD []) .tomb)  -- also for an already tombstoned key
  | .deleteIfExists k =>
    match r.get (k.getD []) with
    | none => (.err none, r)                          -- no tombstone for an absent key
    | some _ => (.err none, r.put (k.getD []) .tomb)
  | .tombstone k => (.err none, r.put (k.getD []) .tomb)
  | .get k =>
    match r.get (k.getD []) with
    | none => (.got none (some .keyNotFound), r)
    | some .tomb => (.got none (some .keyTombstoned), r)
    | some (.val v) => (.got (some v) none, r)
  | .contains k =>
    match r.get (k.getD []) with
    | some (.val _) => (.bool true, r)
    | _ => (.bool false, r)
  | .isTombstoned k =>
    match r.get (k.getD []) with
    | some .tomb => (.bool true, r)
    | _ => (.bool false, r)
  | .size => (.size r.length, r)

def refRun (r : RefMap) : List Op → List Res × RefMap
  | [] => ([], r)
  | op :: rest =>
    let (x, r1) := refStep r op
    let (xs, r2) := refRun r1 rest
    (x :: xs, r2)

end Mem
end SST
