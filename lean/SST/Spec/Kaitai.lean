/-
Spec side of the Kaitai layer (C20): what the Kaitai reader has to return for a file the writer produced.
-/
import SST.Spec.RecordIO
import SST.Model.Kaitai
namespace SST.Kaitai
open SST Generated

/-- the vlq `value` instance adds up 8 groups of 7 bits -/
def vlqLimit : Nat := 2 ^ 56

/-- Sizes fit what `vlq_base128_le` can represent (8 groups = 56 bits).  Like `FitsRec` (which it implies)
this is always true of real slices: Go's heap on 64-bit platforms addresses at most 2^48 bytes. -/
def KFitsRec (c : Compression) : GoBytes → Prop
  | none => clenOf c [] < vlqLimit
  | some r => r.length < vlqLimit ∧ clenOf c r < vlqLimit

theorem KFitsRec.fits {c : Compression} {r : GoBytes} (h : KFitsRec c r) : FitsRec c r := by
  have : vlqLimit < 2 ^ 64 := by decide
  cases r with
  | none => simp only [KFitsRec] at h; simp only [FitsRec]; omega
  | some r => simp only [KFitsRec] at h; simp only [FitsRec]; omega

/-- the record object the Kaitai reader must produce for a written record: nil flag, the three header
numbers as written, and the STORED payload bytes (compressed bytes in a compressed file; nothing for nil) -/
def expectedRec (c : Compression) : GoBytes → KRecord
  | none =>
    { recordNil := 1, ulen := 0, clen := clenOf c [],
      crc := (crc32c (headerBody true 0 (clenOf c []))).toNat, payload := [] }
  | some r =>
    { recordNil := 0, ulen := r.length, clen := clenOf c r,
      crc := (crc32c (headerBody false r.length (clenOf c r))).toNat, payload := stored c r }

theorem expectedRec_isNil (c : Compression) (r : GoBytes) : (expectedRec c r).isNil = r.isNone := by
  cases r <;> rfl

theorem expectedRec_payload (c : Compression) (r : GoBytes) :
    (expectedRec c r).payload = match r with | none => [] | some x => stored c x := by
  cases r <;> rfl

end SST.Kaitai
