/-
Spec side of L7: the laws of the external code, the simulation relation between the concrete byte-level
SimpleDB (`Stack.State`) and the layer model (`DBM.State`), and the hypotheses of a run (node heights,
sizes that fit the 64-bit fields of the formats).
-/
import SST.Model.Stack
import SST.Spec.DB
import SST.Spec.SSTable
import SST.Spec.Merge
import SST.Spec.MemStore
import SST.Proofs.MemStoreSim
namespace SST
namespace Stack
open Generated

/-! ## laws of the external code -/

/-- the compressors are lawful (`dec (enc x) = x`), the bloom filter has no false negatives on the keys added -/
structure ParamsOk (P : Params) : Prop where
  data : LawfulC (P.comps snappyCode)
  index : LawfulC (P.comps noneCode)
  bloom : ∀ keys bf, P.mkBloom keys = some bf → ∀ k ∈ keys, bf k = true

/-! ## the simulation relation -/

/-- element-wise relation of two lists -/
inductive Rel2 {α β : Type} (R : α → β → Prop) : List α → List β → Prop where
  | nil : Rel2 R [] []
  | cons {a : α} {b : β} {as : List α} {bs : List β} : R a b → Rel2 R as bs → Rel2 R (a :: as) (b :: bs)

/-- a layer (association list in insertion order, every key once) and a sorted table hold the same cells -/
structure CellsRel (l : DBM.Layer) (kvs : List KV) : Prop where
  nodup : (l.map (·.1)).Nodup
  get : ∀ k, DBM.Layer.get l k = Merge.tget kvs k

/-- a live byte-level table decodes to the cells of the layer table: the three files are exactly the files of
a strictly ascending list `kvs` that holds the layer's cells; the open reader is what `NewSSTableReader`
builds from these bytes, it answers like the sorted map of `kvs` and its metadata is truthful -/
structure TblDec (P : Params) (t : LiveTbl) (kvs : List KV) : Prop where
  asc : StrictAsc bytesCmp kvs
  files : t.files = tableOf P.cfg kvs
  fits : FitsKV P.cfg kvs
  opened : openTable P.comps .slice {} t.files t.bloom = .ok (t.rd, t.idx)
  reads : ReadsAsMap P.comps (fun _ => True) t.rd t.idx kvs
  md : t.rd.md = (metaOf P.cfg kvs).norm

structure TblRel (P : Params) (t : LiveTbl) (a : DBM.Tbl) : Prop where
  gen : t.gen = a.gen
  dec : ∃ kvs, TblDec P t kvs ∧ CellsRel a.cells kvs

/-- a memstore model state and a layer: the model state is well formed and its reference map
(`Proofs.MemP.view`) is the layer, a tombstone being the nil value -/
structure MemRel (m : Mem.MemStore) (l : DBM.Layer) : Prop where
  wf : Proofs.MemP.WF m
  nodup : (l.map (·.1)).Nodup
  get : ∀ k, DBM.Layer.get l k = (Mem.RefMap.get k (Proofs.MemP.view m)).map Mem.Cell.toGo

structure Rel (P : Params) (c : State) (s : DBM.State) : Prop where
  w : MemRel c.w s.w
  r : MemRel c.r s.r
  /-- while `readStore` is the same object as `writeStore` the field `r` is the unused empty store -/
  alias : c.rAliasesW = true → Proofs.MemP.view c.r = []
  pending : c.flushPending = s.flushPending
  tables : Rel2 (TblRel P) c.tables s.tables
  gen : c.gen = s.gen
  isOpen : c.isOpen = s.isOpen
  closed : c.closed = s.closed
  opts : c.opts = s.opts

/-! ## hypotheses of a run -/

/-- the pairs `FlushWithTombstones` writes for a memstore -/
def flushKVs (m : Mem.MemStore) : List KV :=
  ((Mem.flushCalls m true).getD []).map fun e => (e.1.getD [], e.2)

/-- the table a flush of this store writes fits the 64-bit fields (always true of real slices) -/
def FitsMem (P : Params) (m : Mem.MemStore) : Prop := FitsKV P.cfg (flushKVs m)

/-- what a step needs: node heights are at least 1 (`randomHeight`), and every table the step may write fits -/
def StepOk (P : Params) (c : State) : Step → Prop
  | .putB _ _ rot h => 1 ≤ h ∧ (rot = true → FitsMem P c.r)
  | .putS _ _ rot h => 1 ≤ h ∧ (rot = true → FitsMem P c.r)
  | .delB _ h => 1 ≤ h
  | .delS _ h => 1 ≤ h
  | .get _ => True
  | .rotate => FitsMem P c.r
  | .flush => FitsMem P c.r
  | .compact =>
    match compactPlan P c with
    | .ok (some pl) => FitsKV P.cfg pl.out
    | _ => True
  | .close => FitsMem P c.r ∧ FitsMem P c.w
  | .reopen _ => True

/-- `StepOk` at every state along the run -/
def RunOk (P : Params) : State → List Step → Prop
  | _, [] => True
  | c, st :: rest =>
    StepOk P c st ∧
      match step P c st with
      | .ok (c', _, _) => RunOk P c' rest
      | .error _ => True

/-- the reference step of a step (heights and sizes play no role in the reference) -/
def specOf : Step → DBM.Step
  | .putB k v rot _ => .putB k v rot
  | .putS k v rot _ => .putS k v rot
  | .delB k _ => .delB k
  | .delS k _ => .delS k
  | .get k => .get k
  | .rotate => .rotate
  | .flush => .flush
  | .compact => .compact []
  | .close => .close
  | .reopen o => .reopen o

/-! ## evaluation helpers for the non-vacuity examples -/

instance (cfg : SstCfg) (kvs : List KV) : Decidable (FitsKV cfg kvs) := by
  unfold FitsKV; exact inferInstance

instance (P : Params) (m : Mem.MemStore) : Decidable (FitsMem P m) := by
  unfold FitsMem; exact inferInstance

instance decStepOk (P : Params) (c : State) : (st : Step) → Decidable (StepOk P c st)
  | .putB _ _ rot h => inferInstanceAs (Decidable (1 ≤ h ∧ (rot = true → FitsMem P c.r)))
  | .putS _ _ rot h => inferInstanceAs (Decidable (1 ≤ h ∧ (rot = true → FitsMem P c.r)))
  | .delB _ h => inferInstanceAs (Decidable (1 ≤ h))
  | .delS _ h => inferInstanceAs (Decidable (1 ≤ h))
  | .get _ => isTrue trivial
  | .rotate => inferInstanceAs (Decidable (FitsMem P c.r))
  | .flush => inferInstanceAs (Decidable (FitsMem P c.r))
  | .compact =>
    match h : compactPlan P c with
    | .ok (some pl) => by unfold StepOk; rw [h]; exact inferInstanceAs (Decidable (FitsKV P.cfg pl.out))
    | .ok none => by unfold StepOk; rw [h]; exact isTrue trivial
    | .error _ => by unfold StepOk; rw [h]; exact isTrue trivial
  | .close => inferInstanceAs (Decidable (FitsMem P c.r ∧ FitsMem P c.w))
  | .reopen _ => isTrue trivial

def decRunOk (P : Params) : (steps : List Step) → (c : State) → Decidable (RunOk P c steps)
  | [], _ => isTrue trivial
  | st :: rest, c =>
    match h : step P c st with
    | .ok (c', _, _) =>
      have := decRunOk P rest c'
      by unfold RunOk; rw [h]; exact inferInstance
    | .error _ => by unfold RunOk; rw [h]; exact inferInstance

instance (P : Params) (c : State) (steps : List Step) : Decidable (RunOk P c steps) := decRunOk P steps c

/-- no compression at all, a bloom filter that answers exactly -/
def plainParams : Params := { comps := fun _ => none, mkBloom := fun keys => some fun k => keys.contains k }

end Stack
end SST
