/-
Spec side of C12: what "cut off at length n" leaves readable, and which header alterations keep the frame.
-/
import SST.Spec.RecordIO
namespace SST
open Generated

/-- what a user sees reading a file: `Open` (file header check), then `ReadNext` until the first error -/
def openReadAll (c : Compression) (file : Bytes) : List GoBytes × Err :=
  match parseFileHeader file with
  | .error e => ([], e)
  | .ok _ => readAll c file

/-- number of leading records that fit completely into `b` bytes -/
def wholeInAux (c : Compression) : List GoBytes → Nat → Nat
  | [], _ => 0
  | r :: rs, b =>
    if (encRecord c r).length ≤ b then 1 + wholeInAux c rs (b - (encRecord c r).length) else 0

/-- number of records completely contained in the first `n` bytes of the file -/
def wholeIn (c : Compression) (rs : List GoBytes) (n : Nat) : Nat :=
  wholeInAux c rs (n - fileHeaderSize)

/-- the record header of `r` (everything before the payload) -/
def headerOf (c : Compression) : GoBytes → Bytes
  | none => encHeader true 0 (clenOf c [])
  | some r => encHeader false r.length (clenOf c r)

/-- An alteration of header byte `i` to `x` that keeps the frame: the nil-flag byte (any other value), or
a varint byte (marker, lengths, checksum) whose continuation bit is unchanged.  Alterations that flip a
continuation bit move the field boundaries; for those see `DESIGN.md` (32-bit CRC read from a moved
position). -/
def FramePreserving (h : Bytes) (i : Nat) (x : UInt8) : Prop :=
  ∃ hi : i < h.length, x ≠ h[i] ∧ (i = magicBytes.length ∨ (x.toNat ≥ 128 ↔ h[i].toNat ≥ 128))

end SST
