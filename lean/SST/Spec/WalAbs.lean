/-
The bridge between the byte-level write-ahead log (SST/Model/Wal.lean: real file bytes, `replay`) and the
abstract disk of L6-fs (SST/Model/FS.lean: `WalFile = { num, header, recs, torn }`, `walReadable`, `walMuts`).

* `absFile` / `absWal`: the abstraction function, computed from the BYTES of a directory alone: per file,
  `header` = the 8-byte file header is there and valid, `recs` = the mutations the recovery callback decodes from
  the complete records (recordio frame → `WalMutation` protobuf → `Upsert`/`Tombstone`), `torn` = bytes are left
  over after the last complete record.
* `byteRecovery` = `Replayer.Replay` on the bytes with the callback of `replayAndSetupWriteAheadLog`;
  `absRecovery` = what `FS.phase3` replays from the abstract files.
* `mapEv` / `mapEvs`: every byte-level file-system event as the abstract events it amounts to: `walCreate`,
  `walHeader` when the header becomes complete, one `walAppend` per record that becomes complete, `walTorn`
  when a piece of a further record is in the file afterwards, `walClose`.
Core Lean only.
-/
import SST.Spec.Wal
import SST.Model.WalMutation
namespace SST
namespace WalAbs
open FS WalMut Generated

/-- sequential scan of a record stream: the complete records and the number of bytes they occupy -/
def scanS (c : Compression) : Nat → Bytes → List GoBytes × Nat
  | 0, _ => ([], 0)
  | fuel + 1, s =>
    match readNextS c s with
    | .error _ => ([], 0)
    | .ok (r, n) =>
      let (rs, m) := scanS c fuel (s.drop n)
      (r :: rs, n + m)

def scan (c : Compression) (file : Bytes) : List GoBytes × Nat :=
  scanS c (file.length + 1) (file.drop fileHeaderSize)

/-- the abstract state of one log file, from its number and its bytes.  `none`: the file is not a (prefix of a)
log the appender writes — a header that is complete but invalid, or a complete record the callback rejects. -/
def absFile (cOf : Nat → Compression) (utf8 : Bytes → Bool) (e : Nat × Bytes) : Option WalFile :=
  match parseFileHeader e.2 with
  | .error err => if isEofKind err then some { num := e.1, header := false } else none
  | .ok (_, ct) =>
    (replayRecords utf8 (scan (cOf ct) e.2).1).map fun ms =>
      { num := e.1, header := true, recs := ms,
        torn := decide (fileHeaderSize + (scan (cOf ct) e.2).2 < e.2.length) }

/-- the abstract WAL directory of a byte-level directory (file number ↦ bytes, in number order) -/
def absWal (cOf : Nat → Compression) (utf8 : Bytes → Bool) : DirN → Option (List WalFile)
  | [] => some []
  | e :: es =>
    match absFile cOf utf8 e, absWal cOf utf8 es with
    | some f, some fs => some (f :: fs)
    | _, _ => none

/-- recovery on the bytes: `Replay` with the unmarshal-and-apply callback; `none` = `Open` fails -/
def byteRecovery (cOf : Nat → Compression) (utf8 : Bytes → Bool) (d : DirN) : Option (List Mutation) :=
  match replay cOf d.named with
  | (rs, none) => replayRecords utf8 rs
  | (_, some _) => none

/-- recovery on the abstract files (`FS.phase3`): `none` = `RecErr.walReplay` -/
def absRecovery (fs : List WalFile) : Option (List Mutation) :=
  if walReadable fs then some (walMuts fs) else none

/-- the bytes of file `f` in a directory (empty if it does not exist) -/
def fileIn (d : DirN) (f : Nat) : Bytes := ((d.find? (·.1 == f)).map (·.2)).getD []

/-- one byte-level event, in the directory it happens in, as abstract events -/
def mapEv (cOf : Nat → Compression) (utf8 : Bytes → Bool) (d : DirN) : FsEvent → List Ev
  | .create f => [.walCreate f]
  | .write f bs =>
    match absFile cOf utf8 (f, fileIn d f), absFile cOf utf8 (f, fileIn d f ++ bs) with
    | some a, some b =>
      (if !a.header && b.header then [Ev.walHeader f] else []) ++
      (b.recs.drop a.recs.length).map (Ev.walAppend f) ++
      (if b.torn then [Ev.walTorn f] else [])
    | _, _ => []
  | .fsync _ => []
  | .close f => [.walClose f]

def mapEvs (cOf : Nat → Compression) (utf8 : Bytes → Bool) : DirN → List FsEvent → List Ev
  | _, [] => []
  | d, e :: es => mapEv cOf utf8 d e ++ mapEvs cOf utf8 (applyEvent d e) es

/-- the abstract disk a fresh WAL directory starts from -/
def disk0 : Disk := { walDir := true }

/-- the callback accepts the record -/
def Decodes (utf8 : Bytes → Bool) (r : GoBytes) : Prop := ∃ x, replayRecord utf8 r = .ok x

/-- a log of mutations as the database issues them: `sync` = synchronous WAL (`AppendSync`), else `Append` -/
def logProg (sync : Bool) (ms : List Mutation) : List WalOp :=
  ms.map fun m => if sync then WalOp.appendSync (some (encMutation m)) else WalOp.append (some (encMutation m))

end WalAbs
end SST
