/-
Spec side of L7: what it means for a history to be linearizable with respect to the single-copy map.
-/
import SST.Model.Conc
import SST.Spec.DB
namespace SST
namespace Conc
open DBM

/-- the reference map's answer to one client call (the same `specPut/specDel/specGet` as `DBM.specStep`) -/
def specOp (sp : Spec) : Op → Spec × Res
  | .put k v => specPut sp k v
  | .del k => specDel sp k
  | .get k => (sp, specGet sp k)

theorem specOp_put (sp : Spec) (k v : GoBytes) (rot : Bool) :
    specOp sp (.put k v) = ((specStep sp (.putB k v rot)).1, (specPut sp k v).2) := rfl

/-- a sequential run of the reference map: final map and the answers -/
def specOpsSt : Spec → List Op → Spec × List Res
  | sp, [] => (sp, [])
  | sp, o :: os =>
    let (sp', r) := specOp sp o
    let (sp'', rs) := specOpsSt sp' os
    (sp'', r :: rs)

def specOps (sp : Spec) (ops : List Op) : List Res := (specOpsSt sp ops).2

/-- one call of the sequential witness, with the answer it gets there -/
structure WEntry where
  thread : Nat
  op : Op
  inv : Nat
  res : Res

/-- `w` is a sequential witness for the history (`calls`, `hist`): a total order of calls (all completed ones,
possibly some pending ones that already took effect) that respects real time and in which every call returns
what the reference map started at `sp0` returns. -/
structure IsWitness (sp0 : Spec) (calls : List Call) (hist : List HEntry) (w : List WEntry) : Prop where
  /-- every entry is a call that was really made (by that thread, with those arguments, at that index) -/
  called : ∀ e ∈ w, (⟨e.thread, e.op, e.inv⟩ : Call) ∈ calls
  /-- no call occurs twice (a call is identified by its invocation index) -/
  nodup : w.Pairwise (fun a b => a.inv ≠ b.inv)
  /-- every completed call occurs, with the result it returned -/
  complete : ∀ h ∈ hist, ∃ e ∈ w, e.thread = h.thread ∧ e.op = h.op ∧ e.inv = h.inv ∧ e.res = h.res
  /-- real time: if `a` stands before `b`, then `b` did not return before `a` was called -/
  realtime : w.Pairwise (fun a b => ∀ h ∈ hist, h.inv = b.inv → ¬ h.resp < a.inv)
  /-- the database behaves as a single-copy map -/
  legal : specOps sp0 (w.map (·.op)) = w.map (·.res)

/-- the reference map a database state stands for -/
def specOf (s : State) : Spec := { m := abs s, isOpen := s.isOpen, closed := s.closed }

end Conc
end SST
