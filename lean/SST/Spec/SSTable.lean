/-
Spec side of L2: what a program of `WriteNext` calls means (the accepted pairs), the table a list of
pairs denotes, and the hypotheses of the read-side theorems.
-/
import SST.Model.SSTable
import SST.Spec.RecordIO
import SST.Spec.Sorted
namespace SST
open Generated

abbrev KV := Bytes × GoBytes

/-! ## writer -/

/-- may `key` follow the accepted pairs `acc`?  (first key, or strictly greater than the last ACCEPTED key) -/
def mayFollow (cmp : Bytes → Bytes → Ordering) (acc : List KV) (key : Bytes) : Bool :=
  match acc.getLast? with
  | none => true
  | some l => cmp l.1 key == .lt

/-- the accepted pairs after one more call -/
def acceptStep (cmp : Bytes → Bytes → Ordering) (acc : List KV) (c : Call) : List KV :=
  if c.fault = .none ∧ mayFollow cmp acc c.key = true then acc ++ [(c.key, c.value)] else acc

/-- the accepted pairs of a call program, starting from `acc` -/
def acceptedFrom (cmp : Bytes → Bytes → Ordering) : List KV → List Call → List KV
  | acc, [] => acc
  | acc, c :: cs => acceptedFrom cmp (acceptStep cmp acc c) cs

def accepted (cmp : Bytes → Bytes → Ordering) (cs : List Call) : List KV := acceptedFrom cmp [] cs

/-- what a call must answer after the accepted pairs `acc` -/
def specRes (cmp : Bytes → Bytes → Ordering) (acc : List KV) (c : Call) : WRes :=
  match acc.getLast? with
  | some l =>
    match cmp l.1 c.key with
    | .eq => .dup
    | .gt => .desc
    | .lt => if c.fault = .none then .ok else .io
  | none => if c.fault = .none then .ok else .io

def specResults (cmp : Bytes → Bytes → Ordering) : List KV → List Call → List WRes
  | _, [] => []
  | acc, c :: cs => specRes cmp acc c :: specResults cmp (acceptStep cmp acc c) cs

/-- index entries (key, offset of the value record in `data.rio`, checksum) of a table holding `kvs`,
the first value record starting at `off` -/
def entriesFrom (dc : Compression) (off : Nat) : List KV → List (Bytes × IndexVal)
  | [] => []
  | (k, v) :: rest => (k, ⟨off, valueSum v⟩) :: entriesFrom dc (off + (encRecord dc v).length) rest

def entriesOf (dc : Compression) (kvs : List KV) : List (Bytes × IndexVal) :=
  entriesFrom dc fileHeaderSize kvs

/-- the record `index.rio` holds for an entry -/
def indexRecOf (e : Bytes × IndexVal) : GoBytes := some (encIndexEntry e.1 e.2.off e.2.sum)

def dataFileOf (cfg : SstCfg) (kvs : List KV) : Bytes :=
  fileHeader currentVersion cfg.dct ++ encAll cfg.dc (kvs.map (·.2))

def indexFileOf (cfg : SstCfg) (kvs : List KV) : Bytes :=
  fileHeader currentVersion cfg.ict ++ encAll cfg.ic ((entriesOf cfg.dc kvs).map indexRecOf)

/-- truthful metadata of a table holding `kvs` -/
def metaOf (cfg : SstCfg) (kvs : List KV) : Meta :=
  { numRecords := kvs.length
    minKey := kvs.head?.map (·.1)
    maxKey := kvs.getLast?.map (·.1)
    dataBytes := (dataFileOf cfg kvs).length
    indexBytes := (indexFileOf cfg kvs).length
    totalBytes := (dataFileOf cfg kvs).length + (indexFileOf cfg kvs).length
    version := sstVersion
    skippedRecords := 0
    nullValues := (kvs.filter (·.2.isNone)).length }

/-- the table (three files) that holds exactly `kvs` -/
def tableOf (cfg : SstCfg) (kvs : List KV) : Table :=
  { index := indexFileOf cfg kvs, data := dataFileOf cfg kvs, metaf := encMeta (metaOf cfg kvs) }

/-! ## reader -/

/-- a pair as a scan delivers it: the key went through a protobuf `bytes` field (empty ↦ nil) -/
def normKV (p : KV) : GoBytes × GoBytes := (normKey p.1, p.2)

/-- the bloom filter law: no false negatives on the written keys (false positives are arbitrary) -/
def BloomOk (bloom : Option (Bytes → Bool)) (kvs : List KV) : Prop :=
  ∀ bf, bloom = some bf → ∀ p ∈ kvs, bf p.1 = true

/-- sizes fit the 64-bit fields of the formats (always true of real slices) -/
def FitsKV (cfg : SstCfg) (kvs : List KV) : Prop :=
  (∀ p ∈ kvs, FitsRec cfg.dc p.2 ∧ p.1.length < 2 ^ 64) ∧
  (∀ e ∈ entriesOf cfg.dc kvs, e.2.off < 2 ^ 64 ∧ FitsRec cfg.ic (indexRecOf e)) ∧
  (dataFileOf cfg kvs).length + (indexFileOf cfg kvs).length < 2 ^ 64

/-- the compressor table agrees with the writer's configuration and is lawful -/
def CompsOk (comps : Nat → Compression) (cfg : SstCfg) : Prop :=
  comps cfg.dct = cfg.dc ∧ comps cfg.ict = cfg.ic ∧ LawfulC cfg.dc ∧ LawfulC cfg.ic ∧
  cfg.dct ≤ maxCompression ∧ cfg.ict ≤ maxCompression

/-- the sorted-map answers, in the shape the reader API returns them -/
def specGetRes (kvs : List KV) (key : Bytes) : Except Err GoBytes :=
  match specGet bytesCmp kvs key with
  | some v => .ok v
  | none => .error .notFound

def specScanFrom (kvs : List KV) (key : Bytes) : Except Err ScanRes :=
  .ok ((specFrom bytesCmp kvs key).map normKV, .done)

def specScanRange (kvs : List KV) (lo hi : Bytes) : Except Err ScanRes :=
  match specBetween bytesCmp kvs lo hi with
  | some l => .ok (l.map normKV, .done)
  | none => .error .rejected

/-- the reader answers exactly like the sorted map of `kvs` (point lookups for the probes in `P`):
Get returns the value (nil and empty distinguished) or `NotFound`, Contains tells membership, the three
scans deliver the pairs in ascending order with inclusive bounds and end with `Done`, lower > upper is
rejected; no call changes the index. -/
structure ReadsAsMap (comps : Nat → Compression) (P : Bytes → Prop) (r : Reader) (idx : Index)
    (kvs : List KV) : Prop where
  get : ∀ k, P k → r.get idx k = (idx, some (specGetRes kvs k))
  contains : ∀ k, P k → r.contains idx k = (idx, some (.ok (specGet bytesCmp kvs k).isSome))
  scan : r.scan comps idx = .ok (kvs.map normKV, .done)
  scanFrom : ∀ k, r.scanFrom idx k = (idx, specScanFrom kvs k)
  scanRange : ∀ lo hi, r.scanRange idx lo hi = (idx, specScanRange kvs lo hi)

/-- map loader: every key and the probe fit the mapper's width and zero padding identifies no two of them -/
def PadInjective (n : Nat) (keys : List Bytes) (probe : Bytes) : Prop :=
  (∀ k ∈ probe :: keys, k.length ≤ n) ∧
  (∀ a ∈ probe :: keys, ∀ b ∈ probe :: keys, mapKey n a = mapKey n b → a = b)

instance (n : Nat) (keys : List Bytes) (probe : Bytes) : Decidable (PadInjective n keys probe) := by
  unfold PadInjective; exact inferInstance

/-! ## evaluation helpers for the concrete counterexample theorems -/

instance (c : Compression) (r : GoBytes) : Decidable (FitsRec c r) := by
  cases r <;> unfold FitsRec <;> exact inferInstance


deriving instance DecidableEq for Except

instance instDecEqScanRes : DecidableEq ScanRes := fun a b => instDecidableEqProd a b

/-- no compression, byte-wise comparator -/
def plainCfg : SstCfg := { cmp := bytesCmp, dc := none, dct := 0, ic := none, ict := 0 }

def plainComps : Nat → Compression := fun _ => none

/-- `Get(key)` on `open (write kvs)` with the given loader, default options, no bloom filter file -/
def probeGet (k : LoaderKind) (kvs : List KV) (key : Bytes) : Option (Except Err GoBytes) :=
  match openTable plainComps k {} (writeTable plainCfg kvs) none with
  | .ok (r, idx) => (r.get idx key).2
  | .error e => some (.error e)

def probeRange (k : LoaderKind) (kvs : List KV) (lo hi : Bytes) : Except Err ScanRes :=
  match openTable plainComps k {} (writeTable plainCfg kvs) none with
  | .ok (r, idx) => (r.scanRange idx lo hi).2
  | .error e => .error e

def probeScan (k : LoaderKind) (kvs : List KV) : Except Err ScanRes :=
  match openTable plainComps k {} (writeTable plainCfg kvs) none with
  | .ok (r, idx) => r.scan plainComps idx
  | .error e => .error e

/-- `Get`s in a row on the same reader (the disk loader's offset cache is threaded) -/
def getsOn (r : Reader) : Index → List Bytes → List (Option (Except Err GoBytes))
  | _, [] => []
  | idx, k :: ks => (r.get idx k).2 :: getsOn r (r.get idx k).1 ks

def probeGets (k : LoaderKind) (kvs : List KV) (keys : List Bytes) : List (Option (Except Err GoBytes)) :=
  match openTable plainComps k {} (writeTable plainCfg kvs) none with
  | .ok (r, idx) => getsOn r idx keys
  | .error e => [some (.error e)]

end SST
