/-
Spec side shared by L3/L4: consistent comparators and sorted association lists.
-/
namespace SST

/-- a consistent three-way comparator (what `skiplist.Comparator` is documented to be) -/
structure LawfulCmp {K : Type} (cmp : K → K → Ordering) : Prop where
  refl : ∀ a, cmp a a = .eq
  swap : ∀ a b, cmp a b = (cmp b a).swap
  trans_lt : ∀ a b c, cmp a b = .lt → cmp b c = .lt → cmp a c = .lt
  eq_left : ∀ a b c, cmp a b = .eq → cmp a c = cmp b c

variable {K V : Type}

/-- strictly ascending by key -/
def StrictAsc (cmp : K → K → Ordering) (l : List (K × V)) : Prop :=
  l.Pairwise fun a b => cmp a.1 b.1 = .lt

/-- non-descending by key -/
def NonDesc (cmp : K → K → Ordering) (l : List (K × V)) : Prop :=
  l.Pairwise fun a b => cmp a.1 b.1 ≠ .gt

/-- no two keys compare equal -/
def DistinctKeys (cmp : K → K → Ordering) (l : List K) : Prop :=
  l.Pairwise fun a b => cmp a b ≠ .eq

/-- insertion into a sorted association list (the reference "sorted map") -/
def sortedInsert (cmp : K → K → Ordering) (k : K) (v : V) : List (K × V) → List (K × V)
  | [] => [(k, v)]
  | (k', v') :: rest =>
    if cmp k k' == .gt then (k', v') :: sortedInsert cmp k v rest else (k, v) :: (k', v') :: rest

/-- the sorted map holding the given insertions -/
def sortedOf (cmp : K → K → Ordering) (ins : List (K × V)) : List (K × V) :=
  ins.foldl (fun acc p => sortedInsert cmp p.1 p.2 acc) []

def specGet (cmp : K → K → Ordering) (l : List (K × V)) (k : K) : Option V :=
  (l.find? fun p => cmp k p.1 == .eq).map (·.2)

/-- entries with key ≥ k -/
def specFrom (cmp : K → K → Ordering) (l : List (K × V)) (k : K) : List (K × V) :=
  l.filter fun p => cmp k p.1 != .gt

/-- entries with lo ≤ key ≤ hi (inclusive); `none` when lo > hi -/
def specBetween (cmp : K → K → Ordering) (l : List (K × V)) (lo hi : K) : Option (List (K × V)) :=
  if cmp lo hi == .gt then none
  else some (l.filter fun p => cmp lo p.1 != .gt && cmp p.1 hi != .gt)

end SST
