/-
Spec side of the legacy recordio layer: the hypotheses of the round-trip theorems and what "cut off at length n"
leaves readable in a file of version 1, 2 or 3.
-/
import SST.Model.RecordIOLegacy
import SST.Spec.RecordIODamage
namespace SST.Legacy
open SST Generated

/-- the legacy file versions -/
def IsLegacy (v : Nat) : Prop := v = 1 ∨ v = 2 ∨ v = 3

instance (v : Nat) : Decidable (IsLegacy v) := by unfold IsLegacy; exact inferInstance

/-- sizes fit the 64-bit header fields (always true of real slices); stated for the record as versions 1 and 2
store it (nil as empty), which covers version 3 -/
def FitsL (c : Compression) (r : GoBytes) : Prop := FitsRec c (some (r.getD []))

instance (c : Compression) (r : GoBytes) : Decidable (FitsL c r) := by
  show Decidable ((r.getD []).length < 2 ^ 64 ∧ clenOf c (r.getD []) < 2 ^ 64); exact inferInstance

/-- number of leading records that fit completely into `b` bytes -/
def wholeInAuxL (v : Nat) (c : Compression) : List GoBytes → Nat → Nat
  | [], _ => 0
  | r :: rs, b =>
    if (encRecordL v c r).length ≤ b then 1 + wholeInAuxL v c rs (b - (encRecordL v c r).length) else 0

/-- number of records completely contained in the first `n` bytes of the file -/
def wholeInL (v : Nat) (c : Compression) (rs : List GoBytes) (n : Nat) : Nat :=
  wholeInAuxL v c rs (n - fileHeaderSize)

/-- the three marker bytes stand at position `p` -/
def MarkerAtL (file : Bytes) (p : Nat) : Prop := (file.drop p).take magicBytes.length = magicBytes

/-- a trial read at `p` would succeed: what `SeekNext` is looking for -/
def ValidAtG (rd : Nat → Except Err GoBytes) (file : Bytes) (p : Nat) : Prop :=
  MarkerAtL file p ∧ ∃ r, rd p = .ok r

/-- no record of the file embeds (in its payload) bytes that a trial read accepts as a record: every position a
trial read accepts is the start of a written record.  Legacy headers have no checksum, so ANY marker followed by
two small bytes inside a payload breaks this (see `C04.Legacy.legacy_seekNext_phantom`). -/
def NoPhantomL (emptyNil : Bool) (v : Nat) (c : Compression) (ct : Nat) (rs : List GoBytes) : Prop :=
  ∀ p, ValidAtG (readAtL emptyNil v c (encFileL v c ct rs)) (encFileL v c ct rs) p →
    ∃ k, k < rs.length ∧ p = offsetOfL v c rs k

end SST.Legacy
