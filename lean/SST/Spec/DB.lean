/-
Spec side of L6: SimpleDB as a single-copy map.
-/
import SST.Model.DB
namespace SST
namespace DBM

/-- what a stored value reads as: tombstones and empty values are "not found" -/
def vis : Option GoBytes → Option Bytes
  | some (some v) => if v.isEmpty then none else some v
  | _ => none

/-- abstraction: the map a state stands for -/
def abs (s : State) (k : Key) : Option Bytes :=
  match memGet s k with
  | some (some v) => some v
  | some none => none
  | none => vis (tablesGet s.tables k)

/-- the reference: a map plus the open/closed flags that decide whether a call is accepted -/
structure Spec where
  m : Key → Option Bytes := fun _ => none
  isOpen : Bool := false
  closed : Bool := false

def Spec.usable (sp : Spec) : Bool := sp.isOpen && !sp.closed

def specPut (sp : Spec) (k v : GoBytes) : Spec × Res :=
  match k, v with
  | some kb, some vb =>
    if kb.isEmpty || vb.isEmpty then (sp, .rejected)
    else if !sp.usable then (sp, .notOpen)
    else ({ sp with m := fun x => if x = kb then some vb else sp.m x }, .ok)
  | _, _ => (sp, .rejected)

def specDel (sp : Spec) (k : GoBytes) : Spec × Res :=
  if !sp.usable then (sp, .notOpen)
  else ({ sp with m := fun x => if x = k.getD [] then none else sp.m x }, .ok)

def specGet (sp : Spec) (k : Key) : Res :=
  if !sp.usable then .notOpen else
  match sp.m k with
  | some v => .value v
  | none => .notFound

/-- the reference semantics of a step: flushes, rotations and compactions do nothing -/
def specStep (sp : Spec) : Step → Spec × Option Res
  | .putB k v _ => let (sp', r) := specPut sp k v; (sp', some r)
  | .putS k v _ => let (sp', r) := specPut sp (some k) (some v); (sp', some r)
  | .delB k => let (sp', r) := specDel sp k; (sp', some r)
  | .delS k => let (sp', r) := specDel sp (some k); (sp', some r)
  | .get k => (sp, some (specGet sp k))
  | .rotate => (sp, none)
  | .flush => (sp, none)
  | .compact _ => (sp, none)
  | .close => if sp.usable then ({ sp with closed := true }, some .ok) else (sp, some .notOpen)
  | .reopen _ => if sp.closed || !sp.isOpen then ({ sp with isOpen := true, closed := false }, none) else (sp, none)

def specRun : Spec → List Step → List (Option Res)
  | _, [] => []
  | sp, st :: rest => let (sp', r) := specStep sp st; r :: specRun sp' rest

/-- the flags between the first and the last `true` are all `true`, the rest is unchanged -/
def fillBetween (a : List Bool) : List Bool :=
  (List.range a.length).map fun i =>
    a.getD i false ||
      ((List.range i).any fun j => a.getD j false) && ((List.range (a.length - i - 1)).any fun d => a.getD (i + 1 + d) false)

/-- the selected indices form a gap-free run -/
def Contiguous (flags : List Bool) : Prop :=
  ∀ i j k, i < j → j < k → flags.getD i false = true → flags.getD k false = true → flags.getD j false = true

/-- table numbers strictly increase along the list and never exceed the generation counter -/
def GensOk (s : State) : Prop :=
  (s.tables.map (·.gen)).Pairwise (· < ·) ∧ ∀ t ∈ s.tables, t.gen ≤ s.gen

end DBM
end SST
