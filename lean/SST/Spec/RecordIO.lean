/-
Spec side of L1: what a writer program means (the list of surviving records) and when the
format-level hypotheses hold.
-/
import SST.Model.RecordIO
namespace SST
open Generated

/-- all records, encoded back to back -/
def encAll (c : Compression) (rs : List GoBytes) : Bytes := (rs.map (encRecord c)).flatten

/-- offset (from the start of the file) at which record `k` of `rs` starts -/
def offsetOf (c : Compression) (rs : List GoBytes) (k : Nat) : Nat :=
  fileHeaderSize + (encAll c (rs.take k)).length

/-- sizes fit the 64-bit header fields (always true of real slices) -/
def FitsRec (c : Compression) : GoBytes → Prop
  | none => clenOf c [] < 2 ^ 64
  | some r => r.length < 2 ^ 64 ∧ clenOf c r < 2 ^ 64

def LawfulC : Compression → Prop
  | none => True
  | some c => c.Lawful

/-- Abstract writer program: append a record, or cut back to the first `k` surviving records
(= `Seek` to the offset `Write` returned for record `k`, or to the current size when `k` = count). -/
inductive AOp where
  | write (r : GoBytes)
  | cut (k : Nat)

/-- the surviving records of an abstract program -/
def survivors : List GoBytes → List AOp → List GoBytes
  | rs, [] => rs
  | rs, .write r :: ops => survivors (rs ++ [r]) ops
  | rs, .cut k :: ops => survivors (rs.take k) ops

/-- the concrete program an abstract one stands for, given the records that survive so far -/
def concretize (c : Compression) : List GoBytes → List AOp → List WOp
  | _, [] => []
  | rs, .write r :: ops => .write r :: concretize c (rs ++ [r]) ops
  | rs, .cut k :: ops => .seek (offsetOf c rs k) :: concretize c (rs.take k) ops

def AOp.Fits (c : Compression) : AOp → Prop
  | .write r => FitsRec c r
  | .cut _ => True

/-- a cut may only go back to a record boundary that still exists -/
def CutsOk : List GoBytes → List AOp → Prop
  | _, [] => True
  | rs, .write r :: ops => CutsOk (rs ++ [r]) ops
  | rs, .cut k :: ops => k ≤ rs.length ∧ CutsOk (rs.take k) ops

end SST
