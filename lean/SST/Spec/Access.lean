/-
Spec side of C18 (a): when do two rows of the regenerated access table (SST/Generated/Access.lean) conflict,
when can they overlap in time, and what protects them.  Hand-written; every rule states the runtime fact it
rests on.  The table itself (which field, which kind, which locks, which thread kind) is extracted from the
source on every run; nothing in this file mentions a row.
-/
import SST.Generated.Access
namespace SST.AccessSpec
open SST.Generated

def hasL (a : Access) (l : Lock) : Bool := a.locks.contains l

/-- same object, not both reads, not both `sync/atomic` operations.  Content objects (`MemStoreI→`, `WriteAheadLogI→`,
`SSTableReaderI→`) are ONE object each, whatever field they were reached through: aliasing is assumed, never
excluded, at this point. -/
def conflicting (a b : Access) : Bool :=
  a.obj == b.obj && !(a.kind == .read && b.kind == .read) && !(a.kind == .atomic && b.kind == .atomic)

/-- thread kinds `x`, `y` such that everything `x` does is ordered BEFORE (or after) everything `y` does, by
program structure.  Each line names the regenerated order fact (checked in `C18.order_facts_as_expected`) and
the Go runtime guarantee it needs; none of the guarantees is verified here.

* one flusher goroutine, one compactor goroutine (`spawns`: exactly one `go` statement each, in `DB.Open`, which
  runs its body once per handle: `check:open` precedes everything in `openOrder`);
* `opener p` = code run by `Open` after `p` of its `go` statements (`NewSimpleDB` = phase 0).  The flusher is
  started by the 1st `go` statement, the compactor by the 2nd (`openOrder`): what `Open` did before a `go`
  statement happens-before the goroutine's first step (Go memory model: go statement);
* `closerTail` = what `Close` does after it released the db lock.  `closeOrder`: it has set `closed` under the
  write lock, closed the flush channel and received from `doneFlushChannel` (the flusher has returned), sent the
  stop signal and received from `doneCompactionChannel` (the compactor has returned; both receives are skipped
  only when the goroutine does not exist).  A second `Close` returns at its `closed` check.  `Close` got past
  its `open` check, so `Open` has released the lock;
* `hook` (verif build tag only) vs `opener`, `closerTail`: the harness calls the hooks after `Open` returned and
  stops calling them before `Close` — an obligation of harness/cmd/sstcheck/conc.go and cmd/racestress, not of
  the library. -/
def ordered : Thread → Thread → Bool
  | .flusher, .flusher => true
  | .compactor, .compactor => true
  | .opener p, .flusher => p < 1
  | .opener p, .compactor => p < 2
  | .opener _, .closerTail => true
  | .opener _, .hook => true
  | .flusher, .closerTail => true
  | .compactor, .closerTail => true
  | .closerTail, .closerTail => true
  | .hook, .closerTail => true
  | _, _ => false

/-- thread kinds that can run at the same time (`other` = a goroutine the extractor does not know: with everything) -/
def concurrent (x y : Thread) : Bool := !(ordered x y || ordered y x)

/-- both hold the same lock, at least one of them exclusively (`sync.RWMutex`: mutual exclusion and
release-acquire ordering are runtime facts).  `DB.rwLock` and `SSTableManager.databaseLock` are the same mutex
(`dbLockShared`). -/
def commonLock (a b : Access) : Bool :=
  (hasL a .dbW && (hasL b .dbW || hasL b .dbR)) || (hasL b .dbW && hasL a .dbR) ||
  (hasL a .mgrW && (hasL b .mgrW || hasL b .mgrR)) || (hasL b .mgrW && hasL a .mgrR)

/-- hand-off edges: pairs that share no lock but are ordered, or touch different objects, by construction.

H2 (memstore ownership).  The flusher reads the CONTENT of the memstore it was handed through
`storeFlushChannel` (`via = handed`) without any lock; clients write the content of `RWMemstore.writeStore`
under the db write lock.  These are never the same object at the same time: the only sends on the channel
(`flushSends`, receiver written `r`, parameters `p0` …, locals `v0` …: whatever they are called) hand over
`swapMemstore(r)` — which (`swapMemstoreBody`) returns the old write store AFTER
installing a brand-new one as `writeStore`, inside the sender's critical section — or a fresh empty store
(verif hook).  All writes to the handed store precede the swap in the same critical section, the send follows
the swap in program order, and the flusher's receive happens after the send (unbuffered channel).  From then on
the store is reachable only as `readStore`, which is never written (`readstore_never_written`).

H3 (closed flag).  `guard` is held by an access that comes after the `if db.closed { return … }` check of a
client method, `Close` or a hook, inside the same db-lock critical section (`clientPrologues`).  A critical
section that passed the check ran before `Close`'s critical section (which sets `closed`), hence before
`closerTail`; one that runs after it does not pass the check. -/
def handoff (a b : Access) : Bool :=
  (a.obj == objMemStore && b.obj == objMemStore &&
    ((a.via == viaHanded && b.via == viaWriteStore) || (b.via == viaHanded && a.via == viaWriteStore))) ||
  (a.thread == .closerTail && hasL b .guard) || (b.thread == .closerTail && hasL a .guard)

def pairOk (a b : Access) : Bool :=
  !(conflicting a b && concurrent a.thread b.thread) || commonLock a b || handoff a b

def tableOk (t : List Access) : Bool := t.all fun a => t.all fun b => pairOk a b

/-- the conflicting, concurrent pairs of a table (the pairs `race_free` has something to say about) -/
def contested (t : List Access) : List (Access × Access) :=
  t.flatMap fun a => (t.filter fun b => conflicting a b && concurrent a.thread b.thread).map fun b => (a, b)

end SST.AccessSpec
