/-
Specification side of C19: what may be open in a QUIESCENT state of a database session (client call returned,
flusher idle, no compaction cycle running) and what a table reader's `Close` has to release.
-/
import SST.Model.Handles
namespace SST
namespace HM
open SST.DBM

/-- the handles of a quiescent state: the current WAL file, one data mapping per live table, the goroutines -/
def steady (s : HState) : List Handle :=
  if usable s.db then
    .walFile s.walNo :: (tabGens s.db).map Handle.tableMmap ++ goroutines s.ticker
  else []

/-- descriptors and mappings (what `/proc/self/fd` and `/proc/self/maps` show) as opposed to goroutines -/
def isGoroutine : Handle → Bool
  | .goroutine _ => true
  | _ => false

/-- everything a table reader's `Close` closes: the scanners registered so far and the data mapping -/
def closable (s : RState) : List Handle := (List.range s.scans).map (Handle.scanner s.gen) ++ [.tableMmap s.gen]

end HM
end SST
