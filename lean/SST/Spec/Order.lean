/-
Hand-written EXPECTATIONS about the ORDER of file-system-relevant actions in the Go source, stated over the table
`SST.Generated.Order.table` that tools/orderfacts regenerates from /repo on every run.

Three layers:
1. structure helpers over the flat item lists (blocks, deferred blocks, exit order, nesting);
2. decidable order predicates: "A occurs and every A precedes the first B", "no unknown call between A and B",
   "A is executed unconditionally", "the loop around A runs over a sorted list from index 0 with step one", …;
3. a small interpreter `trace` that executes a listed function on a REPRESENTATIVE path (hand-written decisions for
   the conditions, iteration counts for the loops, listed callees inlined, deferred blocks at function exit in reverse
   order) and a hand-written map from action labels to the event KINDS of the abstract-disk model
   (`SST.FS.Ev`, Model/FS.lean).  The theorems `model_*_order_matches_source` (Props/C*_Order.lean) say that the
   model's hand-written event order for a representative input is the order the source has today.

Nothing here is generated; nothing here is trusted beyond the tool's classification of calls (DESIGN.md §3.1).

The table is RENAME-STABLE (tools/orderfacts/main.go, canon.go): callees are classified by go/types identities; condition
texts are canonical (`errNonNil` whatever the variable is called, `nonNil(<field path>)`, `isSentinel(io.EOF)`, field paths
rooted at the TYPE of the receiver: `simpledb.DB.closed`; locals by their defining expression or their type `‹T›`); loops
name the iterated value by type / field path; control flow is in a normal form (guards for early exits, two-armed
conditionals in a preferred polarity, helpers inlined).  The expectations below quote those canonical texts; where a
statement is not ABOUT a particular field it uses `coarse` (error / nil-check / other) instead of the full text.
Core Lean only.
-/
import SST.Generated.Order
import SST.Model.FS

namespace SST.OrderSpec
open SST.Generated.Order

/-! ## the table -/

def fnOf (n : String) : Option Fn := table.find? (fun f => f.name == n)

/-- the items of a listed function (`[]` if it is missing: every positive expectation about it then fails) -/
def itemsOf (n : String) : List Item :=
  match fnOf n with
  | some f => f.items
  | none => []

def foundFn (n : String) : Bool :=
  match fnOf n with
  | some f => f.found
  | none => false

/-! ## block structure of the flat lists -/

def opens : Item → Bool
  | .ifBegin _ | .loopBegin _ | .deferBegin | .scopeBegin | .cbBegin => true
  | _ => false

def closes : Item → Bool
  | .ifEnd | .loopEnd | .deferEnd | .scopeEnd | .cbEnd => true
  | _ => false

/-- after an opener has been consumed: the items up to its matching closer, and what follows the closer -/
def splitBlock : Nat → List Item → List Item × List Item
  | _, [] => ([], [])
  | d, x :: xs =>
    if closes x then
      match d with
      | 0 => ([], xs)
      | d + 1 => let r := splitBlock d xs; (x :: r.1, r.2)
    else if opens x then let r := splitBlock (d + 1) xs; (x :: r.1, r.2)
    else let r := splitBlock d xs; (x :: r.1, r.2)

/-- the body of a conditional: then-branch and else-branch -/
def splitElse : Nat → List Item → List Item × List Item
  | _, [] => ([], [])
  | d, x :: xs =>
    match d, x with
    | 0, .elseBegin => ([], xs)
    | _, _ =>
      let d' := if opens x then d + 1 else if closes x then d - 1 else d
      let r := splitElse d' xs
      (x :: r.1, r.2)

/-- the items outside `defer` blocks: what runs where it stands -/
def immediate : Nat → List Item → List Item
  | _, [] => []
  | 0, .deferBegin :: xs => immediate 1 xs
  | 0, x :: xs => x :: immediate 0 xs
  | d + 1, .deferBegin :: xs => immediate (d + 2) xs
  | d + 1, .deferEnd :: xs => immediate d xs
  | d + 1, _ :: xs => immediate (d + 1) xs

/-- the `defer` blocks in source order -/
def deferredBlocks : List Item → List (List Item)
  | [] => []
  | .deferBegin :: xs => (splitBlock 0 xs).1 :: deferredBlocks xs
  | _ :: xs => deferredBlocks xs

/-- everything, in the order of a normal exit: the immediate items, then the deferred blocks last-registered first
(structure markers kept; scopes are flattened, which is exact for the functions listed: their scopes defer only unlocks) -/
def exitOrder (xs : List Item) : List Item := immediate 0 xs ++ (deferredBlocks xs).reverse.flatten

/-- items that are not nested in a conditional, loop, callback or defer block (scopes are transparent) -/
def topLevel : Nat → List Item → List Item
  | _, [] => []
  | d, x :: xs =>
    match x with
    | .scopeBegin | .scopeEnd => topLevel d xs
    | _ =>
      if opens x then topLevel (d + 1) xs
      else if closes x then topLevel (d - 1) xs
      else if d = 0 then x :: topLevel d xs else topLevel d xs

/-! ## order predicates -/

def isAct (l : Label) : Item → Bool
  | .act a => a == l
  | _ => false

def isOther : Item → Bool
  | .other _ => true
  | _ => false

def acts (xs : List Item) : List Label := xs.filterMap fun | .act l => some l | _ => none
def others (xs : List Item) : List String := xs.filterMap fun | .other s => some s | _ => none

def occurs (l : Label) (xs : List Item) : Bool := xs.any (isAct l)
def count (l : Label) (xs : List Item) : Nat := (xs.filter (isAct l)).length

def firstIdx (l : Label) (xs : List Item) : Option Nat :=
  let i := xs.findIdx (isAct l)
  if i < xs.length then some i else none

def lastIdx (l : Label) (xs : List Item) : Option Nat :=
  (firstIdx l xs.reverse).map fun i => xs.length - 1 - i

/-- `a` occurs, `b` occurs, and EVERY occurrence of `a` precedes the FIRST occurrence of `b` -/
def allBefore (a b : Label) (xs : List Item) : Bool :=
  match lastIdx a xs, firstIdx b xs with
  | some i, some j => decide (i < j)
  | _, _ => false

/-- `a` occurs, `b` occurs, and the first `a` precedes the first `b` -/
def firstBefore (a b : Label) (xs : List Item) : Bool :=
  match firstIdx a xs, firstIdx b xs with
  | some i, some j => decide (i < j)
  | _, _ => false

/-- the given labels occur in this order (each one entirely before the next one's first occurrence) -/
def inOrder : List Label → List Item → Bool
  | a :: b :: r, xs => allBefore a b xs && inOrder (b :: r) xs
  | [a], xs => occurs a xs
  | [], _ => true

/-- no unrecognised call between the first `a` and the first `b` -/
def noOtherBetween (a b : Label) (xs : List Item) : Bool :=
  match firstIdx a xs, firstIdx b xs with
  | some i, some j => !((xs.take j).drop i).any isOther
  | _, _ => false

def noOther (xs : List Item) : Bool := !xs.any isOther

/-- `l` is executed unconditionally (not inside a conditional, loop, callback or defer) -/
def unconditional (l : Label) (xs : List Item) : Bool := occurs l (topLevel 0 xs)

/-- `l` occurs, and nothing of `bad` occurs after its last occurrence -/
def lastAmong (l : Label) (bad : List Label) (xs : List Item) : Bool :=
  match lastIdx l xs with
  | some i => (xs.drop (i + 1)).all fun x => !bad.any fun b => isAct b x
  | none => false

/-- for every occurrence of `l`: the loops around it, innermost first -/
def loopsAround (l : Label) : List Loop → List Item → List (List Loop)
  | _, [] => []
  | st, .loopBegin lp :: xs => loopsAround l (lp :: st) xs
  | st, .loopEnd :: xs => loopsAround l st.tail xs
  | st, .act a :: xs => (if a == l then [st] else []) ++ loopsAround l st xs
  | st, _ :: xs => loopsAround l st xs

/-- every occurrence of `l` (there is at least one) sits directly in a loop over `over` that visits every element
in list order — starts at index 0, step one — of a list that was sorted right before -/
def inSortedFullLoop (l : Label) (over : String) (xs : List Item) : Bool :=
  let ls := loopsAround l [] xs
  !ls.isEmpty && ls.all fun st =>
    match st with
    | lp :: _ => lp.over == over && lp.start == some 0 && lp.stepOne && lp.sortedBefore
    | [] => false

/-- … the same without the sortedness requirement (lists that come in a meaningful order already) -/
def inFullLoop (l : Label) (over : String) (xs : List Item) : Bool :=
  let ls := loopsAround l [] xs
  !ls.isEmpty && ls.all fun st =>
    match st with
    | lp :: _ => lp.over == over && lp.start == some 0 && lp.stepOne
    | [] => false

/-- the body of the first loop over `over` -/
def loopBody (over : String) : List Item → List Item
  | [] => []
  | .loopBegin lp :: xs => if lp.over == over then (splitBlock 0 xs).1 else loopBody over xs
  | _ :: xs => loopBody over xs

/-- for every occurrence of `l`: the conditions of the conditionals around it, innermost first (`"else: c"` in an else branch) -/
def condsAround (l : Label) : List String → List Item → List (List String)
  | _, [] => []
  | st, .ifBegin c :: xs => condsAround l (c :: st) xs
  | st, .elseBegin :: xs =>
    condsAround l (match st with | c :: r => ("else: " ++ c) :: r | [] => []) xs
  | st, .ifEnd :: xs => condsAround l st.tail xs
  | st, .act a :: xs => (if a == l then [st] else []) ++ condsAround l st xs
  | st, _ :: xs => condsAround l st xs

/-- an item after which control has left the enclosing block -/
def isExit : Item → Bool
  | .ret | .brk | .cont => true
  | .act .panicLog => true
  | _ => false

/-- a GUARD: a conditional without else whose block always leaves (tools/orderfacts writes every early exit this way:
`ifBegin c … <exit> ifEnd`, the other alternative following at the same level) -/
def isGuardBody (body : List Item) : Bool :=
  (splitElse 0 body).1.length == body.length &&
    (match body.getLast? with | some x => isExit x | none => false)

/-- one open conditional: its condition, whether it is a guard, what is known inside it so far (latest first) -/
structure Frame where
  cond : String
  guard : Bool
  known : List String

/-- for every occurrence of `l`: everything known to hold when it is reached — the conditions of the conditionals around it
(`"else: c"` in an else branch) AND, as `"not: c"`, the conditions of the guards passed before it in the enclosing blocks;
innermost / latest first.  (Loops, callbacks, defers, scopes are transparent; start with one base frame.) -/
def pathCondsAux (l : Label) : List Frame → List Item → List (List String)
  | _, [] => []
  | st, .ifBegin c :: xs =>
    pathCondsAux l (⟨c, isGuardBody (splitBlock 0 xs).1, [c]⟩ :: st) xs
  | st, .elseBegin :: xs =>
    pathCondsAux l (match st with | f :: r => { f with known := ["else: " ++ f.cond] } :: r | [] => []) xs
  | st, .ifEnd :: xs =>
    match st with
    | f :: g :: r => pathCondsAux l ((if f.guard then { g with known := ("not: " ++ f.cond) :: g.known } else g) :: r) xs
    | _ => pathCondsAux l st xs
  | st, .act a :: xs => (if a == l then [(st.map (·.known)).flatten] else []) ++ pathCondsAux l st xs
  | st, _ :: xs => pathCondsAux l st xs

def pathConds (l : Label) (xs : List Item) : List (List String) := pathCondsAux l [⟨"", false, []⟩] xs

/-- a condition text without the names it mentions: error test / nil check / sentinel test / anything else ("_") -/
def coarseCore (c : String) : String :=
  if c == "errNonNil" || c == "errNil" then c
  else if c.startsWith "nonNil(" then "nonNil"
  else if c.startsWith "isNil(" then "isNil"
  else if c.startsWith "isSentinel(" || c.startsWith "notSentinel(" then c
  else "_"

/-- … keeping the `else: ` / `not: ` prefix of `condsAround` / `pathConds` -/
def coarse (c : String) : String :=
  if c.startsWith "else: " then "else: " ++ coarseCore (String.ofList (c.toList.drop 6))
  else if c.startsWith "not: " then "not: " ++ coarseCore (String.ofList (c.toList.drop 5))
  else coarseCore c

/-! ## a representative execution

`trace cfg f` executes listed function `f`: conditions are decided by `cfg.dec` (function, condition text, iteration
of the innermost loop — a condition that is not listed makes the trace `none`: a NEW condition on the path has to be
looked at), loops run `cfg.reps` times (function, `over`; callbacks are loops over `"callback"`), labels in
`cfg.callee` are replaced by the trace of the function they stand for, `ret` leaves the innermost function / scope /
callback, whose deferred blocks then run last-registered first.  The result keeps only `act` / `other` items. -/

inductive Stop where
  | normal | brk | cont | ret
  deriving DecidableEq, Repr

structure Cfg where
  dec : List (String × String × List Bool)   -- per iteration; beyond the list: its last entry
  reps : List (String × String × Nat)
  callee : List (Label × String)

/-- Spellings that files which are NOT restated together with the translator still use for conditions / loop values
(Props/C02_Sessions.lean quotes the source text of before the normalisation), and the canonical text they stand for.
Only the lookup keys of a `Cfg` are translated; the regenerated table contains canonical texts only. -/
def legacyKey : String → String
  | "!db.open" => "!simpledb.DB.open"
  | "db.closed" => "simpledb.DB.closed"
  | "db.enableCompactions" => "simpledb.DB.enableCompactions"
  | "walPath != \"\"" => "simpledb.memStoreFlushAction.walPath != \"\""
  | "err != nil" => "errNonNil"
  | "db.storeFlushChannel" => "simpledb.DB.storeFlushChannel"
  | s => s

def Cfg.decide (c : Cfg) (fn cond : String) (it : Nat) : Option Bool :=
  match c.dec.find? (fun e => e.1 == fn && (e.2.1 == cond || legacyKey e.2.1 == cond)) with
  | some e => match e.2.2[it]? with
    | some b => some b
    | none => e.2.2.getLast?
  | none => none

def Cfg.iterations (c : Cfg) (fn over : String) : Option Nat :=
  (c.reps.find? (fun e => e.1 == fn && (e.2.1 == over || legacyKey e.2.1 == over))).map (·.2.2)

def Cfg.inline (c : Cfg) (l : Label) : Option String := (c.callee.find? (fun e => e.1 == l)).map (·.2)

inductive Task where
  | items (fn : String) (iter : Nat) (xs : List Item) (defers : List (List Item))
  | loop (fn : String) (body : List Item) (n i : Nat) (defers : List (List Item))
  | func (fn : String) (xs : List Item)
  | defers (fn : String) (ds : List (List Item))

structure Res where
  tr : List Item
  stop : Stop
  defers : List (List Item)

def Res.andThen (a b : Res) : Res := ⟨a.tr ++ b.tr, b.stop, b.defers⟩

def run (cfg : Cfg) : Nat → Task → Option Res
  | 0, _ => none
  | _ + 1, .items _ _ [] ds => some ⟨[], .normal, ds⟩
  | f + 1, .items fn it (x :: xs) ds =>
    match x with
    | .act l =>
      match cfg.inline l with
      | some g =>
        if foundFn g then
          (run cfg f (.func g (itemsOf g))).bind fun r =>
          (run cfg f (.items fn it xs ds)).map fun r2 => ⟨r.tr ++ r2.tr, r2.stop, r2.defers⟩
        else none
      | none => (run cfg f (.items fn it xs ds)).map fun r2 => ⟨x :: r2.tr, r2.stop, r2.defers⟩
    | .other _ => (run cfg f (.items fn it xs ds)).map fun r2 => ⟨x :: r2.tr, r2.stop, r2.defers⟩
    | .ifBegin c =>
      let blk := splitBlock 0 xs
      let br := splitElse 0 blk.1
      match cfg.decide fn c it with
      | none => none
      | some b =>
        (run cfg f (.items fn it (if b then br.1 else br.2) ds)).bind fun r =>
          match r.stop with
          | .normal => (run cfg f (.items fn it blk.2 r.defers)).map fun r2 => r.andThen r2
          | _ => some r
    | .loopBegin lp =>
      let blk := splitBlock 0 xs
      match cfg.iterations fn lp.over with
      | none => none
      | some n =>
        (run cfg f (.loop fn blk.1 n 0 ds)).bind fun r =>
          match r.stop with
          | .ret => some r
          | _ => (run cfg f (.items fn it blk.2 r.defers)).map fun r2 => r.andThen r2
    | .deferBegin =>
      let blk := splitBlock 0 xs
      run cfg f (.items fn it blk.2 (blk.1 :: ds))
    | .scopeBegin =>
      let blk := splitBlock 0 xs
      (run cfg f (.func fn blk.1)).bind fun r =>
      (run cfg f (.items fn it blk.2 ds)).map fun r2 => ⟨r.tr ++ r2.tr, r2.stop, r2.defers⟩
    | .cbBegin =>
      let blk := splitBlock 0 xs
      match cfg.iterations fn "callback" with
      | none => none
      | some n =>
        (run cfg f (.loop fn (.scopeBegin :: blk.1 ++ [.scopeEnd]) n 0 [])).bind fun r =>
        (run cfg f (.items fn it blk.2 ds)).map fun r2 => ⟨r.tr ++ r2.tr, r2.stop, r2.defers⟩
    | .ret => some ⟨[], .ret, ds⟩
    | .brk => some ⟨[], .brk, ds⟩
    | .cont => some ⟨[], .cont, ds⟩
    | _ => run cfg f (.items fn it xs ds)
  | f + 1, .loop fn body n i ds =>
    if i ≥ n then some ⟨[], .normal, ds⟩
    else
      (run cfg f (.items fn i body ds)).bind fun r =>
        match r.stop with
        | .brk => some ⟨r.tr, .normal, r.defers⟩
        | .ret => some r
        | _ => (run cfg f (.loop fn body n (i + 1) r.defers)).map fun r2 => r.andThen r2
  | f + 1, .func fn xs =>
    (run cfg f (.items fn 0 xs [])).bind fun r =>
    (run cfg f (.defers fn r.defers)).map fun d => ⟨r.tr ++ d.tr, .normal, []⟩
  | _ + 1, .defers _ [] => some ⟨[], .normal, []⟩
  | f + 1, .defers fn (b :: bs) =>
    (run cfg f (.items fn 0 b [])).bind fun r =>
    (run cfg f (.defers fn bs)).map fun r2 => ⟨r.tr ++ r2.tr, .normal, []⟩

/-- the executed actions of listed function `fn` on the path `cfg` describes -/
def trace (cfg : Cfg) (fn : String) : Option (List Item) :=
  if foundFn fn then (run cfg 4000 (.func fn (itemsOf fn))).map (·.tr) else none

/-! ## event kinds of the abstract-disk model -/

inductive Kind where
  | walCreate | walHeader | walAppend | walTorn | walClose | walUnlink
  | tblMkdir | tblProgress | tblLoadable | tblMetaCreate | tblComplete
  | compMkdir | compProgress | compComplete | compFlag
  | tblUnlinkPart | tblRmdir | compRename | compUnlinkPart | compRmdir | walDirRemove | walDirCreate
  deriving DecidableEq, Repr

def kindOf : FS.Ev → Kind
  | .walCreate _ => .walCreate
  | .walHeader _ => .walHeader
  | .walAppend _ _ => .walAppend
  | .walTorn _ => .walTorn
  | .walClose _ => .walClose
  | .walUnlink _ => .walUnlink
  | .tblMkdir _ => .tblMkdir
  | .tblProgress _ => .tblProgress
  | .tblLoadable _ _ => .tblLoadable
  | .tblMetaCreate _ => .tblMetaCreate
  | .tblComplete _ _ => .tblComplete
  | .compMkdir _ => .compMkdir
  | .compProgress _ => .compProgress
  | .compComplete _ _ => .compComplete
  | .compFlag _ _ => .compFlag
  | .tblUnlinkPart _ _ => .tblUnlinkPart
  | .tblRmdir _ => .tblRmdir
  | .compRename _ _ => .compRename
  | .compUnlinkPart _ => .compUnlinkPart
  | .compRmdir _ => .compRmdir
  | .walDirRemove => .walDirRemove
  | .walDirCreate => .walDirCreate

/-- events that do not change the abstract disk (`applyEv` returns its argument): their position carries no
information, both sides are compared without them -/
def Kind.isProgress : Kind → Bool
  | .tblProgress | .compProgress => true
  | _ => false

def significant (ks : List Kind) : List Kind := ks.filter (fun k => !k.isProgress)

/-- where a table writer writes: a table directory (flush) or a compaction directory -/
inductive Ctx where
  | table | compaction
  deriving DecidableEq, Repr

/-- THE MAP source action → model events.  `RemoveAll` of a complete table directory is the model's three-step chain
(complete → metadata only → nothing that loads → gone); of an unfinished table / emptied compaction directory the
final `rmdir`.  A synchronous `Flush` of the buffered writer is the write that may reach the file in two pieces.
`os.MkdirAll` of the WAL directory is `walDirCreate` (no event in the model if the directory exists: see
`dropFirstMkdir`).  Everything else listed here touches no object of the abstract disk. -/
def kindsOf (ctx : Ctx) : Label → List Kind
  -- flush
  | .mkdirTable => [.tblMkdir]
  | .removeWalFile => [.walUnlink]
  -- table writer
  | .newProtoWriter | .openIndexWriter | .newFileWriter | .dataWrite | .indexWrite | .closeIndexWriter
  | .closeDataWriter | .writeBloom | .mergeCompact | .openFlagWriter | .dataSeek =>
    match ctx with | .table => [.tblProgress] | .compaction => [.compProgress]
  | .openDataWriter => match ctx with | .table => [.tblLoadable] | .compaction => [.compProgress]
  | .openMetaFile => match ctx with | .table => [.tblMetaCreate] | .compaction => [.compProgress]
  | .writeMeta => match ctx with | .table => [.tblComplete] | .compaction => [.compComplete]
  -- compaction
  | .mkdirTempCompaction => [.compMkdir]
  | .closeFlagWriter => [.compFlag]        -- the flag record leaves the write buffer when the flag writer is closed
  | .removeAllInput | .removeAllReplacement => [.tblUnlinkPart, .tblUnlinkPart, .tblRmdir]
  | .renameIntoPlace => [.compRename]
  -- recovery
  | .removeAllUnflaggedCompaction => [.compUnlinkPart, .compRmdir]
  | .removeAllTableDir => [.tblRmdir]
  | .mkdirWalDir => [.walDirCreate]
  | .removeWalFileInRecovery => [.walUnlink]
  | .removeAllWalDir => [.walDirRemove]
  -- wal
  | .walWriterFactory => [.walCreate]
  | .openWalWriter => [.walHeader]
  | .closeCurrentWalWriter => [.walClose]
  | .flushBuffer => [.walTorn, .walAppend]
  | _ => []

/-- the event kinds of a trace; `none` if the trace contains a call the tool does not know -/
def kindsOfTrace (ctx : Ctx) (tr : List Item) : Option (List Kind) :=
  if tr.any isOther then none else some ((acts tr).flatMap (kindsOf ctx))

def srcKinds (ctx : Ctx) (cfg : Cfg) (fn : String) : Option (List Kind) :=
  (trace cfg fn).bind fun tr => (kindsOfTrace ctx tr).map significant

def modelKinds (es : List FS.Ev) : List Kind := significant (es.map kindOf)

/-- `MkdirAll` of an existing directory is no event: the first `walDirCreate` of the source side is dropped when the
representative disk has a WAL directory -/
def dropFirstMkdir (ks : Option (List Kind)) : Option (List Kind) := ks.map fun l => l.erase .walDirCreate

/-! ## the representative paths -/

/-- labels that stand for a listed function -/
def callees : List (Label × String) := [
  (.flushWithTombstones, "MemStore.FlushWithTombstones"), (.flushMemstoreCall, "memstore.flushMemstore"),
  (.writerOpen, "SSTableStreamWriter.Open"), (.writerWriteNext, "SSTableStreamWriter.WriteNext"),
  (.writerClose, "SSTableStreamWriter.Close"),
  (.executeFlush, "simpledb.executeFlush"), (.executeFlushInRecovery, "simpledb.executeFlush"),
  (.executeCompaction, "simpledb.executeCompaction"), (.reflectCompactionResult, "SSTableManager.reflectCompactionResult"),
  (.saveCompactionFlag, "simpledb.saveCompactionMetadata"),
  (.rotateAndHandOff, "DB.rotateWalAndFlushMemstore"), (.walRotate, "Appender.Rotate"),
  (.setupNextWriter, "wal.setupNextWriter"), (.checkSizeAndRotate, "wal.checkSizeAndRotate"),
  (.walAppendSync, "Appender.AppendSync"), (.walAppend, "Appender.Append"),
  (.recWriteSync, "FileWriter.WriteSync"), (.recWrite, "FileWriter.Write"),
  (.walClose, "Appender.Close"), (.newWal, "wal.NewAppender"),
  (.repairCompactions, "DB.repairCompactions"), (.reconstructSSTables, "DB.reconstructSSTables"),
  (.replayAndSetupWal, "DB.replayAndSetupWriteAheadLog"), (.removeUnfinishedTable, "simpledb.removeUnfinishedTable"),
  (.putBytesCall, "DB.PutBytes"), (.deleteBytesCall, "DB.DeleteBytes"),
  -- `<-db.doneFlushChannel` in Close: by then the flusher has executed the flush of the store handed over
  (.waitFlusherDone, "simpledb.executeFlush")]

/-- decisions shared by the paths: the table writer, the memstore flush, the WAL appender and the record writer on a
successful run with a bloom filter, a compressor, one record, no size-triggered WAL rotation -/
def commonDec : List (String × String × List Bool) := [
  ("SSTableStreamWriter.Open", "sstables.SSTableStreamWriter.opts.enableBloomFilter", [true]),
  -- 3b4867f: the deferred cleanup of `Open` does something only when `Open` failed; `Close` of a writer whose `Open`
  -- succeeded finds both record writers
  ("SSTableStreamWriter.Open", "errNonNil", [false]),
  ("SSTableStreamWriter.Close", "nonNil(sstables.SSTableStreamWriter.indexWriter)", [true]),
  ("SSTableStreamWriter.Close", "nonNil(sstables.SSTableStreamWriter.dataWriter)", [true]),
  ("SSTableStreamWriter.WriteNext", "nonNil(sstables.SSTableStreamWriter.lastKey)", [false]),
  ("SSTableStreamWriter.WriteNext", "isNil(sstables.SSTableStreamWriter.metaData)", [false]),
  ("SSTableStreamWriter.WriteNext", "sstables.SSTableStreamWriter.opts.enableBloomFilter", [true]),
  ("SSTableStreamWriter.WriteNext", "errNonNil", [false]),
  ("SSTableStreamWriter.Close", "sstables.SSTableStreamWriter.opts.enableBloomFilter && nonNil(sstables.SSTableStreamWriter.bloomFilter)", [true]),
  ("SSTableStreamWriter.Close", "nonNil(sstables.SSTableStreamWriter.metaData) && nonNil(sstables.SSTableStreamWriter.metaDataFile)", [true]),
  ("memstore.flushMemstore", "isSentinel(skiplist.Done)", [false, true]),
  ("memstore.flushMemstore", "‹bool›", [true]),                    -- includeTombstones
  ("simpledb.executeFlush", "memstore.MemStoreI.Size() != 0", [true]),
  ("wal.checkSizeAndRotate", "wal.Appender.walOptions.maxWalFileSize < (wal.Appender.currentWriter.Size() + uint64(‹int›))", [false]),
  ("wal.setupNextWriter", "wal.Appender.nextWriterNumber >= 1000000", [false]),
  -- a9ebc7d: the new WAL file writer opens (its close-again branch is the error path)
  ("wal.setupNextWriter", "errNonNil", [false]),
  ("FileWriter.WriteSync", "recordio.FileWriter.alignedBlockWrites", [false]),
  ("FileWriter.Write", "!recordio.FileWriter.open || recordio.FileWriter.closed", [false]),
  ("FileWriter.Write", "nonNil(recordio.FileWriter.compressor)", [true]),
  ("FileWriter.Write", "isNil(‹[]byte›)", [false]),                -- record == nil
  ("FileWriter.Write", "recordio.FileWriter.bufWriter.Write(‹[]byte›)#0 == len(‹[]byte›)", [true])]

/-- the memstore iteration: one entry, then `Done` -/
def commonReps : List (String × String × Nat) := [("memstore.flushMemstore", "", 2)]

/-- the flusher takes a one-entry store that came with the path of a WAL file -/
def cfgFlush : Cfg := {
  dec := ("simpledb.executeFlush", "simpledb.memStoreFlushAction.walPath != \"\"", [true]) :: commonDec
  reps := commonReps
  callee := callees }

/-- an accepted `PutBytes` with the synchronous WAL whose size estimate then exceeds the limit (the guard "within the
limit → return" is not taken) -/
def cfgPut : Cfg := {
  dec := [("DB.PutBytes", "!simpledb.DB.open", [false]), ("DB.PutBytes", "simpledb.DB.closed", [false]),
          ("DB.PutBytes", "simpledb.DB.open", [true]), ("DB.PutBytes", "!simpledb.DB.closed", [true]),
          ("DB.PutBytes", "simpledb.DB.enableAsyncWAL", [false]),
          ("DB.PutBytes", "simpledb.DB.memstoreMaxSize >= simpledb.DB.memStore.EstimatedSizeInBytes()", [false]),
          ("DB.PutBytes", "simpledb.DB.memstoreMaxSize < simpledb.DB.memStore.EstimatedSizeInBytes()", [true])] ++ commonDec
  reps := commonReps
  callee := callees }

/-- an accepted `DeleteBytes` with the synchronous WAL -/
def cfgDelete : Cfg := {
  dec := [("DB.DeleteBytes", "!simpledb.DB.open", [false]), ("DB.DeleteBytes", "simpledb.DB.closed", [false]),
          ("DB.DeleteBytes", "simpledb.DB.enableAsyncWAL", [false])] ++ commonDec
  reps := commonReps
  callee := callees }

/-- `Close` of an open database with a non-empty write store, compactions disabled -/
def cfgClose : Cfg := {
  dec := [("DB.Close", "!simpledb.DB.open", [false]), ("DB.Close", "simpledb.DB.closed", [false]),
          ("DB.Close", "simpledb.DB.open", [true]), ("DB.Close", "!simpledb.DB.closed", [true]),
          ("DB.Close", "simpledb.DB.enableCompactions", [false]),
          ("simpledb.executeFlush", "simpledb.memStoreFlushAction.walPath != \"\"", [true])] ++ commonDec
  reps := commonReps
  callee := callees }

/-- one compaction cycle (`backgroundCompaction`: one tick) that merges two tables and reflects the result -/
def cfgCompact : Cfg := {
  dec := [("simpledb.backgroundCompaction", "simpledb.DB.enableCompactions", [true]),
          ("simpledb.backgroundCompaction", "case <-simpledb.DB.compactionTickerStopChannel", [false]),
          ("simpledb.backgroundCompaction", "case <-simpledb.DB.compactionTicker.C", [true]),
          ("simpledb.backgroundCompaction", "isNil(simpledb.executeCompaction(‹*simpledb.DB›)#0)", [false]),
          ("simpledb.backgroundCompaction", "errNonNil", [false]),
          ("simpledb.executeCompaction", "len(simpledb.compactionAction.pathsToCompact) == 0 || simpledb.DB.compactionFileThreshold >= len(simpledb.compactionAction.pathsToCompact)", [false]),
          ("simpledb.executeCompaction", "!‹bool›", [false]),      -- !writerClosed, in the deferred fall-back
          ("SSTableManager.reflectCompactionResult", "simpledb.indexOfReader(simpledb.SSTableManager.allSSTableReaders, elem(simpledb/proto.CompactionMetadata.SstablePaths)) >= 0", [true]),
          ("SSTableManager.reflectCompactionResult", "simpledb.indexOfReader(simpledb.SSTableManager.allSSTableReaders, simpledb/proto.CompactionMetadata.ReplacementPath) < 0", [false]),
          ("SSTableManager.reflectCompactionResult", "simpledb.indexOfReader(simpledb.SSTableManager.allSSTableReaders, simpledb/proto.CompactionMetadata.ReplacementPath) >= 0", [true]),
          ("SSTableManager.reflectCompactionResult", "elem(simpledb/proto.CompactionMetadata.SstablePaths) != simpledb/proto.CompactionMetadata.ReplacementPath", [false, true]),
          ("SSTableManager.reflectCompactionResult", "simpledb.indexOfReader(simpledb.SSTableManager.allSSTableReaders, elem(simpledb/proto.CompactionMetadata.SstablePaths)) < 0", [false])] ++ commonDec
  reps := [("simpledb.backgroundCompaction", "", 1), ("simpledb.executeCompaction", "‹[]string›", 2),
           ("simpledb.executeCompaction", "‹[]sstables.SSTableReaderI›", 2),
           ("SSTableManager.reflectCompactionResult", "simpledb/proto.CompactionMetadata.SstablePaths", 2)] ++ commonReps
  callee := callees }

/-- `Open` on a directory with: an unflagged compaction directory; a flagged one for tables 1 and 2 (replacement 1);
an unfinished table 3 (empty metadata file); two WAL files, the first with a record (`withWal`), or nothing at all -/
def cfgOpen (withWal : Bool) : Cfg := {
  dec := [("DB.Open", "simpledb.DB.open", [false]), ("DB.Open", "simpledb.DB.enableCompactions", [false]),
          -- edfc7e7: the deferred give-back of the loaded tables runs only when `Open` fails
          ("DB.Open", "errNonNil", [false]),
          ("DB.repairCompactions", "io/fs.FileInfo.IsDir() && strings.HasPrefix(io/fs.FileInfo.Name(), simpledb.SSTableCompactionPathPrefix)", [true]),
          ("DB.repairCompactions", "elem(simpledb/proto.CompactionMetadata.SstablePaths) != simpledb/proto.CompactionMetadata.ReplacementPath", [false, true]),
          ("DB.reconstructSSTables", "len(simpledb.DB.sstableManager.allSSTableReaders) != 0", [false]),
          ("DB.reconstructSSTables", "len(‹[]string›) > 0", [withWal]),
          -- the empty-metadata test (a private helper or written out in the loop: the same text)
          ("DB.reconstructSSTables", "errNil && io/fs.FileInfo.Size() == 0", [false, true]),
          ("DB.reconstructSSTables", "errNonNil", [false]),
          ("simpledb.removeUnfinishedTable", "errNonNil && !os.IsNotExist(‹error›)", [false]),
          ("DB.replayAndSetupWriteAheadLog", "simpledb.DB.enableDirectIOWAL", [false]),
          ("DB.replayAndSetupWriteAheadLog", "‹int› != 0", [withWal]),   -- numRecords != 0
          ("simpledb.executeFlush", "simpledb.memStoreFlushAction.walPath != \"\"", [false])] ++ commonDec
  reps := [("DB.repairCompactions", "callback", 1), ("DB.reconstructSSTables", "callback", 1),
           ("DB.replayAndSetupWriteAheadLog", "callback", 0),
           ("DB.repairCompactions", "‹[]string›", if withWal then 1 else 0),                             -- compactionsToDelete
           ("DB.repairCompactions", "‹[]*simpledb/proto.CompactionMetadata›", if withWal then 1 else 0), -- compactionsToFinish
           ("DB.repairCompactions", "simpledb/proto.CompactionMetadata.SstablePaths", 2),
           ("DB.reconstructSSTables", "‹[]string›", 2),                                                   -- tablePaths
           ("DB.replayAndSetupWriteAheadLog", "‹[]string›", if withWal then 2 else 0)] ++ commonReps        -- walFileNames
  callee := callees }

/-! ## the representative inputs of the model -/

open FS DBM in
/-- a pending one-entry store handed over together with WAL file 0 -/
def vFlush : Vol :=
  { s := { r := [([1], some [2])], flushPending := true, isOpen := true }, walCur := 1, walOld := some 0 }

open FS DBM in
/-- an open database, nothing pending -/
def vOpen : Vol := { s := { isOpen := true } }

open FS DBM in
/-- an open database with one entry in the write store -/
def vDirty : Vol := { s := { w := [([1], some [2])], isOpen := true } }

open FS DBM in
/-- two small live tables, a threshold of one: both are compacted -/
def vTwoTables : Vol :=
  { s := { tables := [{ gen := 1, cells := [([1], some [2])] }, { gen := 2, cells := [([3], some [4])] }],
           gen := 2, isOpen := true, opts := { threshold := 1, maxSize := 10 } } }

open FS DBM in
/-- the directory `cfgOpen true` describes -/
def dRecover : Disk :=
  { tables := [(1, .complete [([1], some [1])]), (2, .complete [([2], some [2])]), (3, .part false)]
    comps := [{ id := 1, out := .complete [] },
              { id := 2, out := .complete [([1], some [1]), ([2], some [2])], flag := some { inputs := [1, 2], replacement := 1 } }]
    walDir := true
    wal := [{ num := 0, recs := [.put [5] [6]] }, { num := 1 }] }

end SST.OrderSpec
