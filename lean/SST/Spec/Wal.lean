/-
Spec side of C07: what a log directory holds (per-file record lists), which directories a killed appender
can leave behind (`Img`), and which records a synchronous append has made durable by event `n`.
-/
import SST.Model.Wal
import SST.Spec.RecordIODamage
namespace SST
open Generated

/-- the bytes of a completely written log file holding `rs` -/
def fileBytes (c : Compression) (ct : Nat) (rs : List GoBytes) : Bytes :=
  fileHeader currentVersion ct ++ encAll c rs

/-- file `j` of a log whose files hold the record lists `full` -/
def fileOf (c : Compression) (ct : Nat) (full : List (List GoBytes)) (j : Nat) : Bytes :=
  fileBytes c ct (full.getD j [])

/-- files `0 .. j-1`, complete -/
def completeDir (F : Nat → Bytes) (j : Nat) : DirN := (List.range j).map (fun i => (i, F i))

/-- A crash image of a log with files `F 0 .. F (m-1)`: nothing yet, or files `0 .. j-1` complete and file
`j` holding a byte prefix of its final content (possibly nothing, possibly all); no later file exists. -/
def Img (F : Nat → Bytes) (m : Nat) (d : DirN) : Prop :=
  d = [] ∨ ∃ j b, j < m ∧ b <+: F j ∧ d = completeDir F j ++ [(j, b)]

/-- what the image holds: all records of the complete files and the records wholly inside the last file -/
def imgRecords (c : Compression) (full : List (List GoBytes)) (d : DirN) : List GoBytes :=
  match d.getLast? with
  | none => []
  | some (j, b) => (full.take j).flatten ++ (full.getD j []).take (wholeIn c (full.getD j []) b.length)

/-- Number of leading records guaranteed durable once the first `n` events have happened: the records
appended up to and including the last `AppendSync` that had returned by then.
`ec` = events before this operation, `rc` = records appended before it, `best` = answer so far. -/
def durableAux : List OpTrace → (ec rc best n : Nat) → Nat
  | [], _, _, best, _ => best
  | t :: ts, ec, rc, best, n =>
    let ec' := ec + t.evs.length
    let rc' := if t.rec?.isSome then rc + 1 else rc
    if ec' ≤ n then
      durableAux ts ec' rc'
        (match t.op, t.err with
         | .appendSync _, none => rc'
         | _, _ => best) n
    else best

def durableWithin (o : WalOpts) (c : Compression) (prog : List WalOp) (n : Nat) : Nat :=
  let (_, ev0, ts) := Wal.run o c prog
  durableAux ts ev0.length 0 0 n

/-- all bytes the events write to file `f`, in order -/
def bytesWritten (f : Nat) : List FsEvent → Bytes
  | [] => []
  | .write g bs :: es => if g = f then bs ++ bytesWritten f es else bytesWritten f es
  | _ :: es => bytesWritten f es

/-- record sizes fit the 64-bit header fields (always true of real slices) -/
def OpFits (c : Compression) : WalOp → Prop
  | .append r => FitsRec c r
  | .appendSync r => FitsRec c r
  | .rotate => True

def ProgFits (c : Compression) (prog : List WalOp) : Prop := ∀ op ∈ prog, OpFits c op

/-- every record the program tries to append, in order -/
def progRecords : List WalOp → List GoBytes
  | [] => []
  | .append r :: ops => r :: progRecords ops
  | .appendSync r :: ops => r :: progRecords ops
  | .rotate :: ops => progRecords ops

/-- the one-million-files guard never fired -/
def NoGuard (o : WalOpts) (c : Compression) (prog : List WalOp) : Prop :=
  ∀ t ∈ (Wal.run o c prog).2.2, t.err = none

/-- the reader's compressor choice agrees with what the writer factory used -/
def ReaderAgrees (cOf : Nat → Compression) (o : WalOpts) (c : Compression) : Prop :=
  cOf o.ct = c ∧ o.ct ≤ maxCompression

end SST
