/-
Spec side of L3 (C08, C11): the latest-wins union of sorted tables, and the list-level meaning of the
compaction over a completely merged sequence.
-/
import SST.Model.Merge
import SST.Spec.Sorted
namespace SST.Merge
open SST

/-- a table: strictly ascending keys -/
abbrev Asc (t : Table) : Prop := StrictAsc bytesCmp t

/-- put `k ↦ v` into a sorted map, replacing an existing entry -/
def upsert (k : Bytes) (v : GoBytes) : Table → Table
  | [] => [(k, v)]
  | (k', v') :: r =>
    match bytesCmp k k' with
    | .lt => (k, v) :: (k', v') :: r
    | .eq => (k, v) :: r
    | .gt => (k', v') :: upsert k v r

/-- apply all records of one table to a map -/
def applyTable (m t : Table) : Table := t.foldl (fun m p => upsert p.1 p.2 m) m

/-- THE SPEC: the map obtained by applying the tables in order (oldest first), later tables overriding
earlier ones.  Tombstones (`none`) are entries of this map. -/
def overlay (ts : List Table) : Table := ts.foldl applyTable []

/-- the value of `k` in the newest table that has `k` (tables listed oldest → newest) -/
def newestValue : List Table → Bytes → Option GoBytes
  | [], _ => none
  | t :: newer, k =>
    match newestValue newer k with
    | some v => some v
    | none => tget t k

/-- entries whose value is not a tombstone -/
def live (m : Table) : Table := m.filter fun p => p.2.isSome

/-- entries whose value is neither nil nor empty (`len(val) > 0`) -/
def liveNonEmpty (m : Table) : Table := m.filter fun p => (p.2.getD []).length != 0

def fromKey (m : Table) (k : Bytes) : Table := m.filter fun p => bytesCmp k p.1 != .gt

def between (m : Table) (lo hi : Bytes) : Table :=
  m.filter fun p => bytesCmp lo p.1 != .gt && bytesCmp p.1 hi != .gt

/-- what an iterator hands out for these entries: keys are NON-nil slices (also the empty key) -/
def asItems (m : Table) : List Item := m.map fun p => (some p.1, p.2)

/-- no key occurs in two tables -/
def PairwiseDisjoint (ts : List Table) : Prop :=
  ts.Pairwise fun a b => ∀ p ∈ a, ∀ q ∈ b, p.1 ≠ q.1

/-! ### the compaction of a completely merged sequence, at list level -/

def emitOf (r : GoBytes × GoBytes) : List Item := if bothNonNil r then [r] else []

/-- group ADJACENT equal keys (as the iterator does), reduce each group, keep a result only when key and
value are both non-nil.  `prev`/`vb`/`cb` = the group being accumulated. -/
def groupRun (reduce : ReduceFn) : GoBytes → List GoBytes → List Nat → List (GoBytes × GoBytes × Nat) → List Item
  | prev, vb, cb, [] => if vb.length > 0 then emitOf (reduce prev vb cb) else []
  | prev, vb, cb, (k, v, c) :: rest =>
    if prev.isSome && goCmp (normKey k) prev != .eq then
      emitOf (reduce prev vb cb) ++ groupRun reduce (normKey k) [v] [c] rest
    else groupRun reduce (normKey k) (vb ++ [v]) (cb ++ [c]) rest

def compactOf (reduce : ReduceFn) (merged : List (GoBytes × GoBytes × Nat)) : List Item :=
  groupRun reduce none [] [] merged

/-- the records a writer stores for a sequence of items -/
def recordsOf (items : List Item) : Table := items.map fun p => (p.1.getD [], p.2)

/-- the complete k-way merge of the inputs' items (every item of every input, non-descending) -/
def mergedOf (ins : List Input) : List (GoBytes × GoBytes × Nat) := PQ.drain goCmp (ins.map FInput.items)

def untag (l : List (GoBytes × GoBytes × Nat)) : List Item := l.map fun o => (o.1, o.2.1)

end SST.Merge
