/-
Spec side of the buffered reader stack: what the calls mean on the RAW byte stream (no buffer, no schedule),
the schedules under which that is what the Go stack delivers, and the pure-stream readers of the legacy
file versions 2 and 3 (version 4 is `readNextS` / `skipNextS` of SST/Model/RecordIO.lean).
-/
import SST.Model.BufReader
namespace SST.Buf
open SST Generated

/-- an error of the shared enum as an error of this layer -/
def liftE {α : Type} : Except Err α → Except XErr α
  | .ok a => .ok a
  | .error e => .error (.e e)

/-! ## schedules -/

/-- number of empty reads the schedule starts with -/
def zeroRun : List Nat → Nat
  | [] => 0
  | l :: t => if l = 0 then zeroRun t + 1 else 0

/-- no 100 consecutive empty reads anywhere in the schedule -/
def NoStall (s : List Nat) : Prop := ∀ k, zeroRun (s.drop k) < maxConsecutiveEmptyReads

instance : DecidablePred NoStall := fun s =>
  decidable_of_iff (∀ k, k < s.length + 1 → zeroRun (s.drop k) < maxConsecutiveEmptyReads)
    ⟨fun h k => by
        by_cases hk : k < s.length + 1
        · exact h k hk
        · rw [List.drop_eq_nil_of_le (by omega)]; simp [zeroRun, maxConsecutiveEmptyReads],
     fun h k _ => h k⟩

/-! ## calls on the raw stream -/

instance exceptDecEq {ε α : Type} [DecidableEq ε] [DecidableEq α] : DecidableEq (Except ε α)
  | .ok a, .ok b => if h : a = b then isTrue (h ▸ rfl) else isFalse (fun h' => h (Except.ok.inj h'))
  | .error a, .error b =>
    if h : a = b then isTrue (h ▸ rfl) else isFalse (fun h' => h (Except.error.inj h'))
  | .ok _, .error _ => isFalse (fun h => by cases h)
  | .error _, .ok _ => isFalse (fun h => by cases h)

inductive Call where
  | readByte
  | readFull (n : Nat)
  deriving Repr, DecidableEq

/-- result of a call together with `Count()` after it -/
inductive CallRes where
  | byte (r : Except XErr UInt8) (count : Nat)
  | bytes (data : Bytes) (err : Option XErr) (count : Nat)
  deriving Repr, DecidableEq

/-- the same result without the count -/
def CallRes.erase : CallRes → CallRes
  | .byte r _ => .byte r 0
  | .bytes d e _ => .bytes d e 0

/-- `ReadByte` on the raw stream: the next byte; EOF iff nothing is left -/
def specByte : Bytes → Except XErr UInt8 × Bytes
  | [] => (.error (.e .eof), [])
  | b :: t => (.ok b, t)

/-- `io.ReadFull` of `n` bytes on the raw stream: the next `n` bytes; EOF iff nothing is left (and n > 0);
ErrUnexpectedEOF iff 0 < available < n (everything that was left has then been handed out) -/
def specFull (s : Bytes) (n : Nat) : Bytes × Option XErr × Bytes :=
  if n ≤ s.length then (s.take n, none, s.drop n)
  else if s.length = 0 then ([], some (.e .eof), [])
  else (s, some (.e .unexpectedEof), [])

/-- a sequence of calls on the raw stream `s`, `k` bytes consumed so far -/
def specCalls : Bytes → Nat → List Call → List CallRes
  | _, _, [] => []
  | s, k, .readByte :: cs =>
    match specByte s with
    | (.ok b, t) => .byte (.ok b) (k + 1) :: specCalls t (k + 1) cs
    | (.error e, t) => .byte (.error e) k :: specCalls t k cs
  | s, k, .readFull n :: cs =>
    let (d, e, t) := specFull s n
    .bytes d e (k + d.length) :: specCalls t (k + d.length) cs

/-- the same calls through the Go stack -/
def runCalls : CRd → List Call → List CallRes
  | _, [] => []
  | c, .readByte :: cs =>
    let (r, c') := c.readByte
    .byte r c'.count :: runCalls c' cs
  | c, .readFull n :: cs =>
    let r := c.readFull n
    .bytes r.data r.err r.st.count :: runCalls r.st cs

/-! ## what the buffered reader asks of the underlying reader -/

/-- the two calls everything above the buffered reader is made of (`io.ReadFull`, `io.ReadAll`,
`binary.ReadUvarint`, the counting and checksum wrappers only ever call `Read` and `ReadByte`) -/
inductive RdOp where
  | readByte
  | read (n : Nat)
  deriving Repr, DecidableEq

/-- the state of the buffered reader after a sequence of calls -/
def Rd.run : Rd → List RdOp → Rd
  | b, [] => b
  | b, .readByte :: ops => Rd.run (b.readByte).2 ops
  | b, .read n :: ops => Rd.run (b.read n).st ops

/-- every request the underlying reader has seen so far fits the reader's own buffer -/
def Rd.OwnBuf (b : Rd) : Prop := ∀ r ∈ b.under.reqs, r ≤ b.cap

/-! ## pure-stream readers of file versions 3 and 2 (the spec the buffered composition is compared with) -/

/-- `readRecordHeaderV3` on the remaining stream.  No checksum, no canonical-varint rule, no 36-byte window:
the varints are read straight from the file. -/
def readHeaderS3 (s : Bytes) : Except Err RecHeader :=
  match uvarintDec s with
  | .error e => .error e
  | .ok (m, c1) =>
    if m ≠ magicNumber then .error .magic else
    match s.drop c1 with
    | [] => .error .eof
    | nb :: rest =>
      match uvarintDec rest with
      | .error e => .error e
      | .ok (ulen, c2) =>
        match uvarintDec (rest.drop c2) with
        | .error e => .error e
        | .ok (clen, c3) => .ok { ulen := ulen, clen := clen, isNil := nb == 1, hlen := c1 + 1 + c2 + c3 }

/-- `readRecordHeaderV2` on the remaining stream -/
def readHeaderS2 (s : Bytes) : Except Err RecHeader :=
  match uvarintDec s with
  | .error e => .error e
  | .ok (m, c1) =>
    if m ≠ magicNumber then .error .magic else
    match uvarintDec (s.drop c1) with
    | .error e => .error e
    | .ok (ulen, c2) =>
      match uvarintDec ((s.drop c1).drop c2) with
      | .error e => .error e
      | .ok (clen, c3) => .ok { ulen := ulen, clen := clen, isNil := false, hlen := c1 + c2 + c3 }

/-- the payload of a record on the stream `t` that follows its header (`hlen` header bytes, `n` payload bytes) -/
def payloadS (cmp : Compression) (t : Bytes) (hlen n : Nat) : Except Err (GoBytes × Nat) :=
  match specFull t n with
  | (d, none, _) => (decodePayload cmp d).map (fun r => (some r, hlen + d.length))
  | (_, some (.e e), _) => .error e
  | (_, some _, _) => .error .other

/-- what follows a record header, on the stream: the zero-tail rule on a magic mismatch, the payload otherwise
(`hdr` is the result of the header reader) -/
def readBodyS (cmp : Compression) (s : Bytes) (hdr : Except Err RecHeader) : Except Err (GoBytes × Nat) :=
  match hdr with
  | .error .magic =>
    match uvarintDec s with
    | .ok (_, c1) => if (s.drop c1).all (· == 0) then .error .eof else .error .magic
    | .error _ => .error .magic
  | .error e => .error e
  | .ok h =>
    if h.isNil then .ok (none, h.hlen) else payloadS cmp (s.drop h.hlen) h.hlen (expectedLen cmp h)

def readNextS3 (cmp : Compression) (s : Bytes) : Except Err (GoBytes × Nat) := readBodyS cmp s (readHeaderS3 s)
def readNextS2 (cmp : Compression) (s : Bytes) : Except Err (GoBytes × Nat) := readBodyS cmp s (readHeaderS2 s)

def skipNextS3 (cmp : Compression) (s : Bytes) : Except Err Nat :=
  (readHeaderS3 s).map fun h => h.hlen + skipLen cmp h
def skipNextS2 (cmp : Compression) (s : Bytes) : Except Err Nat :=
  (readHeaderS2 s).map fun h => h.hlen + expectedLen cmp h

/-- the pure-stream reader of a file version -/
def readNextSV (v : Nat) (cmp : Compression) (s : Bytes) : Except Err (GoBytes × Nat) :=
  if v = 2 then readNextS2 cmp s else if v = 3 then readNextS3 cmp s
  else if v = 4 then readNextS cmp s else .error .rejected

def skipNextSV (v : Nat) (cmp : Compression) (s : Bytes) : Except Err Nat :=
  if v = 2 then skipNextS2 cmp s else if v = 3 then skipNextS3 cmp s
  else if v = 4 then skipNextS cmp s else .error .rejected

/-! ## reader programs -/

inductive ROp where
  | read
  | skip
  deriving Repr, DecidableEq

inductive ROut where
  | record (r : GoBytes)
  | skipped
  | fail (e : XErr)
  deriving Repr, DecidableEq

/-- a reader program on the pure stream model; it stops at the first error -/
def streamRun (v : Nat) (cmp : Compression) (file : Bytes) : Nat → List ROp → List ROut
  | _, [] => []
  | pos, .read :: ops =>
    match readNextSV v cmp (file.drop pos) with
    | .ok (r, n) => .record r :: streamRun v cmp file (pos + n) ops
    | .error e => [.fail (.e e)]
  | pos, .skip :: ops =>
    match skipNextSV v cmp (file.drop pos) with
    | .ok n => .skipped :: streamRun v cmp file (pos + n) ops
    | .error e => [.fail (.e e)]

/-- every successful `SkipNext` of the program seeks to an offset the OS accepts (`maxOff`: Go converts the
target with `int64(...)` and `lseek` has a file-system limit; a header can claim any length).  Always true when
the claimed lengths are real. -/
def skipsFit (v : Nat) (cmp : Compression) (maxOff : Nat) (file : Bytes) : Nat → List ROp → Bool
  | _, [] => true
  | pos, .read :: ops =>
    match readNextSV v cmp (file.drop pos) with
    | .ok (_, n) => skipsFit v cmp maxOff file (pos + n) ops
    | .error _ => true
  | pos, .skip :: ops =>
    match skipNextSV v cmp (file.drop pos) with
    | .ok n => decide (pos + n ≤ maxOff) && skipsFit v cmp maxOff file (pos + n) ops
    | .error _ => true

/-- the same program through the buffered stack -/
def bufRun (cmp : Compression) (grow : Nat → Nat) (maxOff : Nat) : FileRd → List ROp → List ROut
  | _, [] => []
  | fr, .read :: ops =>
    match fr.readNext cmp grow with
    | (.ok r, fr') => .record r :: bufRun cmp grow maxOff fr' ops
    | (.error e, _) => [.fail e]
  | fr, .skip :: ops =>
    match fr.skipNext cmp maxOff with
    | (.ok (), fr') => .skipped :: bufRun cmp grow maxOff fr' ops
    | (.error e, _) => [.fail e]

end SST.Buf
