/-
Proofs for SST/Model/CompDirBytes.lean, part 4: the whole compaction directory under `executeCompaction`'s calls, its
removal, and `repairCompactions` on a database directory image.
-/
import SST.Proofs.CompDirBytesNames
import SST.Proofs.TableDirBytesFS
namespace SST.Proofs.CompDir
open SST SST.CompDir SST.TblDir SST.FS Generated
open SST.Proofs.TblDir (Hyp BloomReads)

/-! ## the abstract run -/

theorem lookupC_updC (id : Nat) (f : CompDir → CompDir) (hf : ∀ c, (f c).id = c.id) (cs : List CompDir) :
    lookupC id (updC id f cs) = (lookupC id cs).map f := by
  unfold lookupC updC
  rw [List.find?_map]
  have hcomp : ((fun x : CompDir => x.id == id) ∘ fun c => if (c.id == id) = true then f c else c) =
      fun x => x.id == id := by
    funext c
    simp only [Function.comp]
    split
    · rw [hf]
    · rfl
  rw [hcomp]
  cases hfd : cs.find? (fun x => x.id == id) with
  | none => rfl
  | some c =>
    have hp : (c.id == id) = true := List.find?_some (p := fun x : CompDir => x.id == id) hfd
    have hpe : c.id = id := by simpa using hp
    simp [hpe]

theorem lookupC_mkdir (id : Nat) (cs : List CompDir) (h : lookupC id cs = none) :
    cs.any (·.id == id) = false ∧ lookupC id (cs ++ [{ id := id }]) = some { id := id } := by
  unfold lookupC at h ⊢
  constructor
  · rw [List.find?_eq_none] at h
    rw [List.any_eq_false]
    exact h
  · rw [List.find?_append, h]
    simp

/-- the abstract run: the state of directory `id` after `k` events of `compEvs` on a disk that did not have it -/
theorem compEvs_state (id : Nat) (cells : DBM.Layer) (cm : CompMeta) (d : Disk) (hd : lookupC id d.comps = none)
    (k : Nat) : lookupC id (applyEvs d ((compEvs id cells cm).take k)).comps = compState id cells cm k := by
  obtain ⟨hany, h1⟩ := lookupC_mkdir id d.comps hd
  have hf1 : ∀ c : CompDir, ({ c with out := TableDir.complete cells } : CompDir).id = c.id := fun _ => rfl
  have hf2 : ∀ c : CompDir, ({ c with flag := some cm } : CompDir).id = c.id := fun _ => rfl
  match k with
  | 0 => simpa [applyEvs, compState] using hd
  | 1 => simpa [applyEvs, compEvs, applyEv, compState, hany] using h1
  | 2 => simpa [applyEvs, compEvs, applyEv, compState, hany] using h1
  | 3 => simp [applyEvs, compEvs, applyEv, compState, hany, lookupC_updC _ _ hf1, h1]
  | 4 => simp [applyEvs, compEvs, applyEv, compState, hany, lookupC_updC _ _ hf1, h1]
  | k + 5 => simp [applyEvs, compEvs, applyEv, compState, hany, lookupC_updC _ _ hf1, lookupC_updC _ _ hf2, h1]

/-! ## the index of the abstract run is monotone -/

theorem flagDone_mono_dir (fcs : List FlagCall) {j j' : Nat} (h : j ≤ j') (hd : flagDone fcs j = true) :
    flagDone fcs j' = true := by
  unfold flagDone at hd ⊢
  simp only [Bool.not_eq_true', List.any_eq_false] at hd ⊢
  intro x hx
  apply hd x
  have : fcs.drop j' = (fcs.drop j).drop (j' - j) := by
    rw [List.drop_drop]; congr 1; omega
  rw [this] at hx
  exact List.mem_of_mem_drop hx

theorem cevIdx_mono (lenT : Nat) (fcs : List FlagCall) {n n' : Nat} (h : n ≤ n') :
    cevIdx lenT fcs n ≤ cevIdx lenT fcs n' := by
  have hm : flagDone fcs (n - lenT) = true → flagDone fcs (n' - lenT) = true :=
    flagDone_mono_dir fcs (by omega)
  unfold cevIdx
  cases h1 : flagDone fcs (n - lenT) <;> cases h2 : flagDone fcs (n' - lenT)
  · simp only [Bool.false_eq_true, if_false]
    repeat' split
    all_goals omega
  · simp only [Bool.false_eq_true, if_false, if_true]
    repeat' split
    all_goals omega
  · rw [h1] at hm; have := hm rfl; rw [h2] at this; cases this
  · simp only [if_true]
    repeat' split
    all_goals omega

/-! ## `executeCompaction` -/

theorem applyCCalls_append (img : CompImage) (a b : List CCall) :
    applyCCalls img (a ++ b) = applyCCalls (applyCCalls img a) b := by
  unfold applyCCalls; rw [List.foldl_append]

/-- table calls on a directory without flag -/
theorem applyCCalls_tbl : ∀ (cs : List FsCall) (t : DirImage),
    applyCCalls { tbl := t, flag := none } (cs.map .tbl) = { tbl := applyCalls t cs, flag := none } := by
  intro cs
  induction cs with
  | nil => intro t; rfl
  | cons c cs ih =>
    intro t
    have hstep : applyCCall { tbl := t, flag := none } (.tbl c) = { tbl := applyCall t c, flag := none } := by
      cases c <;> simp [applyCCall]
    show applyCCalls (applyCCall { tbl := t, flag := none } (.tbl c)) (cs.map .tbl) = _
    rw [hstep, ih]
    rfl

/-- flag calls in an existing directory -/
theorem applyCCalls_flag (t : DirImage) (ht : t.dir = true) : ∀ (cs : List FlagCall) (f : FlagImage),
    applyCCalls { tbl := t, flag := f } (cs.map .flag) = { tbl := t, flag := applyFlagCalls f cs } := by
  intro cs
  induction cs with
  | nil => intro f; rfl
  | cons c cs ih =>
    intro f
    have hstep : applyCCall { tbl := t, flag := f } (.flag c) = { tbl := t, flag := applyFlagCall f c } := by
      simp [applyCCall, ht]
    show applyCCalls (applyCCall { tbl := t, flag := f } (.flag c)) (cs.map .flag) = _
    rw [hstep, ih]
    rfl

theorem abstractComp_noflag (P : Params) (id : Nat) (t : DirImage) :
    abstractComp P id { tbl := t, flag := none } =
      (abstractOf P t).map fun o => { id := id, out := o, flag := none } := by
  unfold abstractComp abstractOf classifyComp
  by_cases hd : t.dir = true
  · simp only [hd, if_true, Option.map_some]; rfl
  · simp only [hd]; rfl

/-- every prefix of `executeCompaction`'s calls, given the classification of the flag prefixes (`flag_prefix`) -/
theorem compdir_prefix (P : Params) (cfg : SstCfg) (ch : Chunking) (kvs : List KV) (h : Hyp P cfg kvs)
    (hb : BloomReads P ch) (sizes : List Nat) (m : RawMeta) (cm : CompMeta) (ha : absMeta m = some cm)
    (hflag : ∀ j, readFlag P.comps (applyFlagCalls none ((flagCalls sizes m).take j)) =
      if flagDone (flagCalls sizes m) j then some m else none)
    (id n : Nat) :
    abstractComp P id (applyCCalls {} ((compCalls cfg ch kvs sizes m).take n)) =
      if n = 5 then some { id := id, out := .complete [], flag := none }
      else compState id kvs cm (cevIdx (flushCalls cfg ch kvs).length (flagCalls sizes m) n) := by
  have hlen := SST.Proofs.TblDir.flushCalls_length cfg ch kvs
  have himg : applyCCalls {} ((compCalls cfg ch kvs sizes m).take n) =
      applyCCalls { tbl := applyCalls {} ((flushCalls cfg ch kvs).take n), flag := none }
        (((flagCalls sizes m).take (n - (flushCalls cfg ch kvs).length)).map .flag) := by
    unfold compCalls
    rw [List.take_append, applyCCalls_append, List.length_map, ← List.map_take, ← List.map_take]
    have h0 : ({} : CompImage) = { tbl := {}, flag := none } := rfl
    rw [h0, applyCCalls_tbl]
  rw [himg]
  by_cases hle : n ≤ (flushCalls cfg ch kvs).length
  · -- only table calls have run
    rw [show n - (flushCalls cfg ch kvs).length = 0 by omega]
    show abstractComp P id { tbl := applyCalls {} ((flushCalls cfg ch kvs).take n), flag := none } = _
    rw [abstractComp_noflag]
    by_cases hw : n + 1 < (flushCalls cfg ch kvs).length
    · rw [SST.Proofs.TblDir.writer_window P cfg ch kvs h hb n hw]
      unfold cevIdx
      by_cases h0 : n = 0
      · subst h0; rfl
      · rw [if_neg h0, if_neg h0, if_pos hw]
        by_cases h5 : n = 5
        · rw [if_pos h5, if_pos h5]; rfl
        · rw [if_neg h5, if_neg h5]
          split <;> rfl
    · rw [SST.Proofs.TblDir.writer_final P cfg ch kvs h hb n (by omega)]
      have he : cevIdx (flushCalls cfg ch kvs).length (flagCalls sizes m) n = 3 := by
        unfold cevIdx
        rw [if_neg (show ¬ n = 0 by omega), if_neg hw, if_pos hle]
      rw [he, if_neg (show ¬ n = 5 by omega)]
      rfl
  · -- the table is complete, the flag is being written
    have hfull : (flushCalls cfg ch kvs).take n = flushCalls cfg ch kvs :=
      List.take_of_length_le (by omega)
    have hfin := SST.Proofs.TblDir.writer_final P cfg ch kvs h hb n (by omega)
    rw [hfull] at hfin ⊢
    obtain ⟨hdir, hcl⟩ := SST.Proofs.TblDir.abstractOf_some P _ _ hfin
    rw [applyCCalls_flag _ hdir]
    unfold abstractComp classifyComp absFlag
    simp only [hdir, if_true, hcl, hflag]
    have he : cevIdx (flushCalls cfg ch kvs).length (flagCalls sizes m) n =
        if flagDone (flagCalls sizes m) (n - (flushCalls cfg ch kvs).length) then 5 else 4 := by
      unfold cevIdx
      rw [if_neg (show ¬ n = 0 by omega), if_neg (show ¬ n + 1 < (flushCalls cfg ch kvs).length by omega),
        if_neg hle]
    rw [he, if_neg (show ¬ n = 5 by omega)]
    cases hfd : flagDone (flagCalls sizes m) (n - (flushCalls cfg ch kvs).length)
    · simp [compState]
    · simp [compState, ha]

/-! ## `RemoveAll` of a compaction directory -/

/-- the calls of a removal: nothing creates or fills the flag -/
def IsRmC : CCall → Prop
  | .flag .unlink => True
  | .flag _ => False
  | .tbl _ => True

theorem rmC_step (img : CompImage) (c : CCall) (hc : IsRmC c) :
    (applyCCall img c).flag = img.flag ∨ (applyCCall img c).flag = none := by
  cases c with
  | tbl c =>
    left
    cases c <;> simp only [applyCCall] <;> try rfl
    split <;> rfl
  | flag c =>
    cases c with
    | unlink =>
      simp only [applyCCall]
      split
      · right; rfl
      · left; rfl
    | create => exact absurd hc (by simp [IsRmC])
    | write bs => exact absurd hc (by simp [IsRmC])
    | close => exact absurd hc (by simp [IsRmC])

theorem rmC_steps : ∀ (cs : List CCall) (img : CompImage), (∀ c ∈ cs, IsRmC c) →
    (applyCCalls img cs).flag = img.flag ∨ (applyCCalls img cs).flag = none := by
  intro cs
  induction cs with
  | nil => intro img _; left; rfl
  | cons c cs ih =>
    intro img hcs
    show (applyCCalls (applyCCall img c) cs).flag = _ ∨ (applyCCalls (applyCCall img c) cs).flag = none
    rcases ih (applyCCall img c) (fun x hx => hcs x (List.mem_cons_of_mem _ hx)) with h1 | h1
    · rcases rmC_step img c (hcs c List.mem_cons_self) with h2 | h2
      · left; rw [h1, h2]
      · right; rw [h1, h2]
    · right; exact h1

theorem removeComp_isRmC (order : List (Option File)) : ∀ c ∈ removeCompCalls order, IsRmC c := by
  intro c hc
  unfold removeCompCalls at hc
  rw [List.mem_append, List.mem_map] at hc
  rcases hc with ⟨o, _, rfl⟩ | hc
  · cases o <;> simp [IsRmC]
  · have : c = .tbl .rmdir := by simpa using hc
    rw [this]; simp [IsRmC]

/-- a compaction directory whose flag does not read stays unflagged under every prefix of its `RemoveAll`, whatever the
order of the unlinks -/
theorem unflagged_removal (comps : Nat → Compression) (img : CompImage) (h : readFlag comps img.flag = none)
    (order : List (Option File)) (k : Nat) :
    readFlag comps (applyCCalls img ((removeCompCalls order).take k)).flag = none := by
  rcases rmC_steps ((removeCompCalls order).take k) img
    (fun c hc => removeComp_isRmC order c (List.mem_of_mem_take hc)) with h1 | h1
  · rw [h1]; exact h
  · rw [h1]; rfl

/-- an unflagged compaction directory does not take part in `repairCompactions`' result, whatever its table part is -/
theorem finishComp_unflagged (ts : List (Nat × TableDir)) (c : CompDir) (o : TableDir) (h : c.flag = none) :
    finishComp ts { c with out := o } = finishComp ts c := by
  unfold finishComp
  simp only [h]

/-! ## `repairCompactions` -/

/-- the two `RemoveAll` rounds of `repairCompactions` (the inputs other than the replacement, then the replacement
path) remove exactly the abstract `rmInputs` -/
theorem filters_eq {α : Type} (ins : List Nat) (g : Nat) (ts : List (Nat × α)) :
    ((ts.filter fun p => !(ins.filter (· != g)).contains p.1).filter fun p => p.1 != g) =
      ts.filter fun p => !(ins.contains p.1 || p.1 == g) := by
  rw [List.filter_filter]
  apply List.filter_congr
  intro p _
  by_cases hp : p.1 = g
  · simp [hp]
  · have h1 : (p.1 != g) = true := by simpa using hp
    have h2 : (p.1 == g) = false := by simpa using hp
    have h3 : (ins.filter (· != g)).contains p.1 = ins.contains p.1 := by
      rw [Bool.eq_iff_iff]
      simp only [List.contains_iff_mem, List.mem_filter]
      constructor
      · exact fun hh => hh.1
      · exact fun hh => ⟨hh, h1⟩
    rw [h1, h2, h3]
    simp

theorem filter_map_fst {α β : Type} (q : Nat → Bool) (f : α → β) (ts : List (Nat × α)) :
    (ts.filter fun p => q p.1).map (fun p => (p.1, f p.2)) =
      (ts.map fun p => (p.1, f p.2)).filter fun p => q p.1 := by
  induction ts with
  | nil => rfl
  | cons p r ih =>
    simp only [List.filter_cons, List.map_cons]
    cases q p.1
    · simpa using ih
    · simpa using ih

theorem insertI_map {α : Type} (f : α → TableDir) (g : Nat) (x : α) : ∀ l : List (Nat × α),
    (insertI g x l).map (fun p => (p.1, f p.2)) = insertT g (f x) (l.map fun p => (p.1, f p.2)) := by
  intro l
  induction l with
  | nil => rfl
  | cons p r ih =>
    simp only [insertI, List.map_cons, insertT]
    by_cases h1 : g < p.1
    · simp [h1]
    · by_cases h2 : g = p.1
      · simp [h2]
      · simp only [h1, h2, if_false, List.map_cons, ih]

/-- names ↔ numbers on the path list with the replacement path filtered out -/
theorem mapM_filter_ne (q : Bytes) (g : Nat) (hq : tableOfName q = some g) : ∀ (paths : List Bytes) (ins : List Nat),
    paths.mapM tableOfName = some ins →
      (paths.filter (· != q)).mapM tableOfName = some (ins.filter (· != g)) := by
  intro paths
  induction paths with
  | nil =>
    intro ins h
    have : ins = [] := by simpa using h.symm
    rw [this]; rfl
  | cons p ps ih =>
    intro ins h
    rw [List.mapM_cons] at h
    cases hp : tableOfName p with
    | none => rw [hp] at h; cases h
    | some a =>
      cases hps : ps.mapM tableOfName with
      | none => rw [hp, hps] at h; cases h
      | some as =>
        rw [hp, hps] at h
        have hins : ins = a :: as := (Option.some.inj h).symm
        have hpn := tableOfName_some hp
        have hqn := tableOfName_some hq
        have ih' := ih as hps
        rw [hins, List.filter_cons, List.filter_cons]
        by_cases hag : a = g
        · have hpq : p = q := by rw [hpn, hqn, hag]
          simp only [hpq, hag, bne_self_eq_false, Bool.false_eq_true, if_false]
          exact ih'
        · have hpq : p ≠ q := by
            intro he; apply hag; rw [hpn, hqn] at he; exact tableName_inj he
          have h1 : (p != q) = true := by simpa using hpq
          have h2 : (a != g) = true := by simpa using hag
          rw [h1, h2]
          simp only [if_true]
          rw [List.mapM_cons, hp, ih']
          rfl

/-- what a readable, canonical flag makes `repairCompactions` do -/
theorem canonical_decision {comps : Nat → Compression} {id : Nat} {f : FlagImage} {r : RawMeta}
    (hF : FlagCanonical comps id f) (hr : readFlag comps f = some r) :
    ∃ cm : CompMeta, absMeta r = some cm ∧ r.writePath = compName id ∧
      tableOfName r.replacementPath = some cm.replacement ∧
      (r.sstablePaths.filter (· != r.replacementPath)).mapM tableOfName =
        some (cm.inputs.filter (· != cm.replacement)) := by
  obtain ⟨hw, hs⟩ := hF r hr
  cases hm : absMeta r with
  | none => rw [hm] at hs; cases hs
  | some cm =>
    have hm' := hm
    unfold absMeta at hm'
    split at hm'
    · rename_i ins rp h1 h2
      have hcm : cm = { inputs := ins, replacement := rp } := (Option.some.inj hm').symm
      refine ⟨cm, rfl, hw, ?_, ?_⟩
      · rw [hcm]; exact h2
      · rw [hcm]; exact mapM_filter_ne _ _ h2 _ _ h1
    · cases hm'

/-- the right-hand side of `decision_on_bytes` -/
def decisionTables (P : Params) (ci : CompImage) (ts : List (Nat × TableDir)) : Decision → List (Nat × TableDir)
  | .delete => ts
  | .finish remove replacement _ =>
    match remove.mapM tableOfName, tableOfName replacement with
    | some rm, some rp =>
      insertT rp (classify P ci.tbl) ((ts.filter fun p => !rm.contains p.1).filter fun p => p.1 != rp)
    | _, _ => ts

theorem decision_tables (P : Params) (id : Nat) (ci : CompImage) (hF : FlagCanonical P.comps id ci.flag)
    (ts : List (Nat × TableDir)) :
    finishComp ts (classifyComp P id ci) = decisionTables P ci ts (repairDecision P.comps ci.flag) := by
  unfold repairDecision finishComp classifyComp absFlag
  cases hr : readFlag P.comps ci.flag with
  | none => rfl
  | some r =>
    obtain ⟨cm, hm, _, h2, h1⟩ := canonical_decision hF hr
    simp only [Option.bind_some, hm, decisionTables, h1, h2]
    rw [filters_eq]
    rfl

/-- … per directory: the decision read off the flag bytes is the abstract `finishComp` -/
theorem decision_on_bytes (P : Params) (id : Nat) (ci : CompImage) (hF : FlagCanonical P.comps id ci.flag)
    (ts : List (Nat × TableDir)) :
    finishComp ts (classifyComp P id ci) =
      match repairDecision P.comps ci.flag with
      | .delete => ts
      | .finish remove replacement _ =>
        match remove.mapM tableOfName, tableOfName replacement with
        | some rm, some rp =>
          insertT rp (classify P ci.tbl) ((ts.filter fun p => !rm.contains p.1).filter fun p => p.1 != rp)
        | _, _ => ts := by
  rw [decision_tables P id ci hF ts]
  cases repairDecision P.comps ci.flag <;> rfl

theorem finishBytes_finish (D : DiskImage) (remove : List Bytes) (replacement write : Bytes) (rm : List Nat)
    (rp id : Nat) (c : Nat × CompImage) (h1 : remove.mapM tableOfName = some rm)
    (h2 : tableOfName replacement = some rp) (h3 : compOfName write = some id)
    (h4 : D.comps.find? (·.1 == id) = some c) :
    finishBytes D (.finish remove replacement write) =
      some { tables := insertI rp c.2.tbl ((D.tables.filter fun p => !rm.contains p.1).filter fun p => p.1 != rp),
             comps := D.comps.filter (·.1 != id) } := by
  simp only [finishBytes, h1, h2, h3, h4]

/-- the classification of the table directories -/
def clT (P : Params) (p : Nat × DirImage) : Nat × TableDir := (p.1, classify P p.2)

/-- the unflagged directories do not change the result of the fold -/
theorem foldl_unflagged (P : Params) : ∀ (cs : List (Nat × CompImage)) (ts : List (Nat × TableDir)),
    (cs.map fun c => classifyComp P c.1 c.2).foldl finishComp ts =
      ((cs.filter fun c => (readFlag P.comps c.2.flag).isSome).map fun c => classifyComp P c.1 c.2).foldl
        finishComp ts := by
  intro cs
  induction cs with
  | nil => intro ts; rfl
  | cons c cs ih =>
    intro ts
    rw [List.filter_cons]
    cases hr : readFlag P.comps c.2.flag with
    | none =>
      simp only [Option.isSome_none, Bool.false_eq_true, if_false, List.map_cons, List.foldl_cons]
      have : finishComp ts (classifyComp P c.1 c.2) = ts := by
        unfold finishComp classifyComp absFlag
        simp only [hr, Option.bind_none]
      rw [this]
      exact ih ts
    | some r =>
      simp only [Option.isSome_some, if_true, List.map_cons, List.foldl_cons]
      exact ih _

/-- finishing the flagged directories one after the other, bytes against abstraction -/
theorem finish_fold (P : Params) : ∀ (l : List (Nat × CompImage)) (ts : List (Nat × DirImage)),
    (l.map (·.1)).Nodup → (∀ c ∈ l, FlagCanonical P.comps c.1 c.2.flag) →
    (∀ c ∈ l, (readFlag P.comps c.2.flag).isSome = true) →
    ∃ D', l.foldlM (fun d c => finishBytes d (repairDecision P.comps c.2.flag)) { tables := ts, comps := l } =
        some D' ∧ D'.comps = [] ∧
      D'.tables.map (clT P) = (l.map fun c => classifyComp P c.1 c.2).foldl finishComp (ts.map (clT P)) := by
  intro l
  induction l with
  | nil =>
    intro ts _ _ _
    exact ⟨{ tables := ts, comps := [] }, rfl, rfl, rfl⟩
  | cons c rest ih =>
    intro ts hnd hcan hfl
    rw [List.map_cons, List.nodup_cons] at hnd
    obtain ⟨hnotin, hnd'⟩ := hnd
    have hF := hcan c List.mem_cons_self
    have hsome := hfl c List.mem_cons_self
    cases hr : readFlag P.comps c.2.flag with
    | none => rw [hr] at hsome; cases hsome
    | some r =>
      obtain ⟨cm, hm, hw, h2, h1⟩ := canonical_decision hF hr
      have h3 : compOfName r.writePath = some c.1 := by rw [hw]; exact compOfName_compName c.1
      have h4 : (c :: rest).find? (·.1 == c.1) = some c := by simp
      have hrest : (c :: rest).filter (·.1 != c.1) = rest := by
        rw [List.filter_cons]
        simp only [bne_self_eq_false, Bool.false_eq_true, if_false]
        rw [List.filter_eq_self]
        intro x hx
        have : x.1 ≠ c.1 := fun he => hnotin (by rw [← he]; exact List.mem_map_of_mem hx)
        simpa using this
      have hdec : repairDecision P.comps c.2.flag =
          .finish (r.sstablePaths.filter (· != r.replacementPath)) r.replacementPath r.writePath := by
        unfold repairDecision; rw [hr]
      have hstep := finishBytes_finish { tables := ts, comps := c :: rest } _ _ _ _ _ _ c h1 h2 h3 h4
      rw [hrest] at hstep
      obtain ⟨D', hD', hc', ht'⟩ := ih _ hnd' (fun x hx => hcan x (List.mem_cons_of_mem _ hx))
        (fun x hx => hfl x (List.mem_cons_of_mem _ hx))
      refine ⟨D', ?_, hc', ?_⟩
      · rw [List.foldlM_cons, hdec, hstep]
        exact hD'
      · rw [ht', List.map_cons, List.foldl_cons]
        congr 1
        have hfc : finishComp (ts.map (clT P)) (classifyComp P c.1 c.2) =
            insertT cm.replacement (classify P c.2.tbl) (rmInputs cm (ts.map (clT P))) := by
          unfold finishComp classifyComp absFlag
          simp only [hr, Option.bind_some, hm]
        rw [hfc]
        unfold clT
        rw [insertI_map (classify P), filters_eq,
          filter_map_fst (fun g => !(cm.inputs.contains g || g == cm.replacement)) (classify P)]
        rfl

/-- `repairCompactions` on the bytes = `FS.phase1` on the abstraction -/
theorem repair_on_bytes (P : Params) (D : DiskImage) (hC : Canonical P.comps D) :
    ∃ D', repairBytes P.comps D = some D' ∧ absDisk P D' = phase1 (absDisk P D) := by
  have hsub : (D.comps.filter fun c => (readFlag P.comps c.2.flag).isSome).map (·.1) |>.Nodup :=
    List.Nodup.sublist (List.Sublist.map _ List.filter_sublist) hC.distinct
  obtain ⟨D', hD', hc', ht'⟩ := finish_fold P _ D.tables hsub
    (fun c hc => hC.flags c (List.mem_filter.mp hc).1) (fun c hc => (List.mem_filter.mp hc).2)
  refine ⟨D', hD', ?_⟩
  unfold absDisk phase1
  simp only [hc', List.map_nil]
  rw [foldl_unflagged P D.comps]
  congr 1

end SST.Proofs.CompDir
