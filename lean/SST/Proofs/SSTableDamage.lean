/-
Proofs for C09: what the checksum verification of the table reader guarantees on a damaged data file.
-/
import SST.Proofs.SSTableReader
import SST.Proofs.RecordIODamage
namespace SST.Proofs.Sst
open SST Generated SST.Proofs

/-! ## the decision logic of a verified read -/

theorem verified_get_sound (dc : Compression) (data : Bytes) (iv : IndexVal) (v' : GoBytes)
    (h : getValueAtOffset dc data iv false = .ok v') : valueSum v' = iv.sum ∨ iv.sum = 0 := by
  unfold getValueAtOffset at h
  generalize (if iv.off = data.length then (Except.ok none : Except Err GoBytes) else readAt dc data iv.off) = r at h
  cases r with
  | error e => cases h
  | ok v =>
    simp only [Bool.false_eq_true, if_false] at h
    by_cases hs : valueSum v ≠ iv.sum
    · rw [if_pos hs] at h
      by_cases hz : iv.sum = 0
      · exact Or.inr hz
      · rw [if_neg hz] at h; cases h
    · rw [if_neg hs] at h
      cases h
      exact Or.inl (by simpa using hs)

/-- the unverified read returns what the verified read returned (same bytes are read) -/
theorem unverified_of_verified (dc : Compression) (data : Bytes) (iv : IndexVal) (v : GoBytes)
    (h : getValueAtOffset dc data iv false = .ok v) : getValueAtOffset dc data iv true = .ok v := by
  unfold getValueAtOffset at h ⊢
  generalize (if iv.off = data.length then (Except.ok none : Except Err GoBytes) else readAt dc data iv.off) = r at h ⊢
  cases r with
  | error e => cases h
  | ok v0 =>
    simp only [Bool.false_eq_true, if_false, if_true] at h ⊢
    by_cases hs : valueSum v0 ≠ iv.sum
    · rw [if_pos hs] at h
      by_cases hz : iv.sum = 0
      · rw [if_pos hz] at h; exact h
      · rw [if_neg hz] at h; cases h
    · rw [if_neg hs] at h; exact h

/-- every pair a verified index scan delivers carries a value whose CRC-64 is the stored one (or the stored
one is 0) -/
theorem scanWith_sound (dc : Compression) (data : Bytes) : ∀ (es : List IEntry) (fin : IterEnd),
    ∀ p ∈ (scanWith dc data false es fin).1, ∃ e ∈ es, p.1 = e.1 ∧ (valueSum p.2 = e.2.sum ∨ e.2.sum = 0) := by
  intro es
  induction es with
  | nil => intro fin p hp; simp [scanWith] at hp
  | cons e es ih =>
    intro fin p hp
    simp only [scanWith] at hp
    cases hg : getValueAtOffset dc data e.2 false with
    | error err => rw [hg] at hp; simp at hp
    | ok v =>
      rw [hg] at hp
      simp only [List.mem_cons] at hp
      rcases hp with rfl | hp
      · exact ⟨e, by simp, rfl, verified_get_sound dc data e.2 v hg⟩
      · obtain ⟨e', he', h1, h2⟩ := ih fin p hp
        exact ⟨e', by simp [he'], h1, h2⟩

/-- the same for the full scan (index iterator paired with the sequential reader) -/
theorem fullScanS_sound (c : Compression) : ∀ (es : List IEntry) (fin : IterEnd) (s : Bytes),
    ∀ p ∈ (fullScanS c false es fin s).1, ∃ e ∈ es, p.1 = e.1 ∧ (valueSum p.2 = e.2.sum ∨ e.2.sum = 0) := by
  intro es
  induction es with
  | nil => intro fin s p hp; simp [fullScanS] at hp
  | cons e es ih =>
    intro fin s p hp
    simp only [fullScanS] at hp
    cases hr : readNextS c s with
    | error err => rw [hr] at hp; simp at hp
    | ok vn =>
      obtain ⟨v, n⟩ := vn
      rw [hr] at hp
      simp only at hp
      by_cases hbad : (!false && decide (valueSum v ≠ e.2.sum) && decide (e.2.sum ≠ 0)) = true
      · rw [if_pos hbad] at hp; simp at hp
      · rw [if_neg hbad] at hp
        simp only [List.mem_cons] at hp
        rcases hp with rfl | hp
        · refine ⟨e, by simp, rfl, ?_⟩
          simp only [Bool.not_false, Bool.true_and, Bool.and_eq_true, decide_eq_true_eq, not_and,
            Decidable.not_not] at hbad
          by_cases hs : valueSum v = e.2.sum
          · exact Or.inl hs
          · exact Or.inr (hbad hs)
        · obtain ⟨e', he', h1, h2⟩ := ih fin (s.drop n) p hp
          exact ⟨e', by simp [he'], h1, h2⟩

/-- verify on load: if `validateDataFile` passes, every indexed value re-reads (verified) successfully -/
theorem validate_all (dc : Compression) (data : Bytes) : ∀ (es : List IEntry) (fin : IterEnd),
    validateData dc data (es, fin) = .ok () →
    ∀ e ∈ es, ∃ v, getValueAtOffset dc data e.2 false = .ok v := by
  intro es
  induction es with
  | nil => intro fin _ e he; cases he
  | cons e0 es ih =>
    intro fin h e he
    unfold validateData at h ih
    simp only [scanWith] at h
    cases hg : getValueAtOffset dc data e0.2 false with
    | error err => rw [hg] at h; simp at h
    | ok v =>
      rw [hg] at h
      simp only [List.mem_cons] at he
      rcases he with rfl | he
      · exact ⟨v, hg⟩
      · apply ih fin _ e he
        simp only at h ⊢
        cases hsc : scanWith dc data false es fin with
        | mk l f =>
          rw [hsc] at h
          cases f <;> simp_all

/-! ## a single altered payload byte (uncompressed data file) -/

theorem set_in_record (pre hdr v rest : Bytes) (j : Nat) (hj : j < v.length) (x : UInt8) :
    (pre ++ (hdr ++ v) ++ rest).set (pre.length + hdr.length + j) x = pre ++ (hdr ++ v.set j x) ++ rest := by
  have e1 : pre.length + hdr.length + j - pre.length = hdr.length + j := by omega
  have e2 : hdr.length + j - hdr.length = j := by omega
  rw [List.append_assoc, List.set_append_right _ _ (by omega), e1,
    List.set_append_left _ _ (by simp only [List.length_append]; omega),
    List.set_append_right _ _ (by omega), e2]
  simp only [List.append_assoc]

theorem toNat_crc_ne (a b : Bytes) (h : crc64iso a ≠ crc64iso b) : (crc64iso a).toNat ≠ (crc64iso b).toNat :=
  fun h' => h (UInt64.toNat_inj.mp h')

/-- Compression none, value `v` whose stored CRC-64 is not the bypass value 0: any single-byte change
inside the payload of its record makes the verified read of that key fail with a checksum error. -/
theorem payload_alteration_detected (pre rest v : Bytes) (j : Nat) (hj : j < v.length) (x : UInt8)
    (hx : x ≠ v[j]) (hfit : v.length < 2 ^ 64) (hz : valueSum (some v) ≠ 0) :
    getValueAtOffset none
      ((pre ++ encRecord none (some v) ++ rest).set (pre.length + (encHeader false v.length 0).length + j) x)
      ⟨pre.length, valueSum (some v)⟩ false = .error .checksum := by
  have henc : encRecord none (some v) = encHeader false v.length 0 ++ v := rfl
  have henc' : encRecord none (some (v.set j x)) = encHeader false v.length 0 ++ v.set j x := by
    simp [encRecord, clenOf, stored]
  rw [henc, set_in_record pre _ v rest j hj x, ← henc']
  have hfit' : FitsRec none (some (v.set j x)) := by
    simp [FitsRec, clenOf, hfit]
  have hread := readAt_enc none pre (some (v.set j x)) rest trivial hfit'
  have hpos := encRecord_pos none (some (v.set j x))
  unfold getValueAtOffset
  rw [List.append_assoc, if_neg (by simp only [List.length_append]; omega), hread]
  simp only [Bool.false_eq_true, if_false]
  have hne : valueSum (some (v.set j x)) ≠ valueSum (some v) :=
    toNat_crc_ne _ _ (crc64_single_byte' v j hj x hx)
  rw [if_pos hne, if_neg hz]

/-! ## truncation -/

theorem entriesFrom_getElem (dc : Compression) : ∀ (l : List KV) (off i : Nat) (hi : i < l.length),
    ((entriesFrom dc off l)[i]'(by rw [entriesFrom_length]; exact hi)).2 =
      ⟨off + (encAll dc ((l.take i).map (·.2))).length, valueSum l[i].2⟩ := by
  intro l
  induction l with
  | nil => intro _ i hi; cases hi
  | cons p l ih =>
    intro off i hi
    obtain ⟨k, v⟩ := p
    cases i with
    | zero => simp [entriesFrom]
    | succ i =>
      simp only [entriesFrom, List.getElem_cons_succ, List.take_succ_cons, List.map_cons, encAll_cons,
        List.length_append]
      rw [ih (off + (encRecord dc v).length) i (by simpa using hi)]
      simp [Nat.add_assoc]

/-- Any shortening of `data.rio` (cut at ANY length `n`): the verified read of key `i` returns the original
value or an error, provided the stored checksum is not the bypass value 0. -/
theorem truncation_detected (cfg : SstCfg) (kvs : List KV) (hl : LawfulC cfg.dc)
    (hf : ∀ p ∈ kvs, FitsRec cfg.dc p.2) (i : Nat) (hi : i < kvs.length) (hz : valueSum kvs[i].2 ≠ 0) (n : Nat) :
    let iv : IndexVal := ⟨offsetOf cfg.dc (kvs.map (·.2)) i, valueSum kvs[i].2⟩
    getValueAtOffset cfg.dc ((dataFileOf cfg kvs).take n) iv false = .ok kvs[i].2 ∨
    ∃ e, getValueAtOffset cfg.dc ((dataFileOf cfg kvs).take n) iv false = .error e := by
  intro iv
  have hi' : i < (kvs.map (·.2)).length := by simpa using hi
  have hfr : ∀ r ∈ kvs.map (·.2), FitsRec cfg.dc r := by
    intro r hr
    obtain ⟨p, hp, rfl⟩ := List.mem_map.mp hr
    exact hf p hp
  obtain ⟨h1, h2⟩ := truncate_readAt cfg.dc cfg.dct (kvs.map (·.2)) i hi' hl hfr n
  have hget : (kvs.map (·.2))[i] = kvs[i].2 := by simp
  unfold getValueAtOffset
  by_cases heq : iv.off = ((dataFileOf cfg kvs).take n).length
  · -- the bare EOF is swallowed, the value is nil, its CRC 0 differs from the stored one
    right
    rw [if_pos heq]
    simp only [Bool.false_eq_true, if_false]
    have h0 : valueSum none = 0 := by decide
    rw [if_pos (by rw [h0]; exact fun h => hz h.symm), if_neg hz]
    exact ⟨_, rfl⟩
  · rw [if_neg heq]
    by_cases hn : offsetOf cfg.dc (kvs.map (·.2)) (i + 1) ≤ n
    · left
      have := h1 hn
      unfold dataFileOf
      rw [this, hget]
      simp only [Bool.false_eq_true, if_false]
      rw [if_neg (fun h => h rfl)]
    · right
      obtain ⟨e, he⟩ := h2 (by omega)
      unfold dataFileOf
      rw [he]
      exact ⟨e, rfl⟩

/-! ## arbitrary damage -/

/-- whatever happened to the data file: a verified read that succeeds returns a value with the stored
CRC-64 (when that is not the bypass value) -/
theorem damage_sound (dc : Compression) (data' : Bytes) (v : GoBytes) (off : Nat) (v' : GoBytes)
    (hz : valueSum v ≠ 0)
    (h : getValueAtOffset dc data' ⟨off, valueSum v⟩ false = .ok v') :
    v' = v ∨ (v' ≠ v ∧ valueSum v' = valueSum v) := by
  rcases verified_get_sound dc data' _ v' h with h1 | h1
  · by_cases hv : v' = v
    · exact Or.inl hv
    · exact Or.inr ⟨hv, h1⟩
  · exact absurd h1 hz

/-- the legacy bypass: a value whose CRC-64 is 0 is NOT protected — any bytes of the same length in its
payload are returned by the verified read without an error -/
theorem zero_checksum_unprotected (pre rest v v' : Bytes) (hlen : v'.length = v.length) (hfit : v.length < 2 ^ 64)
    (hz : valueSum (some v) = 0) :
    getValueAtOffset none (pre ++ encRecord none (some v') ++ rest) ⟨pre.length, valueSum (some v)⟩ false = .ok (some v') := by
  have hfit' : FitsRec none (some v') := by simp [FitsRec, clenOf, hlen, hfit]
  have hread := readAt_enc none pre (some v') rest trivial hfit'
  have hpos := encRecord_pos none (some v')
  unfold getValueAtOffset
  rw [List.append_assoc, if_neg (by simp only [List.length_append]; omega), hread]
  simp only [Bool.false_eq_true, if_false, hz]
  split <;> rfl

/-! ## verify on load -/

/-- if `NewSSTableReader` succeeds with verification on load, the data file it keeps has passed
`validateDataFile` against the loaded index -/
theorem openTable_validated (comps : Nat → Compression) (k : LoaderKind) (o : ReadOpts) (t : Table)
    (bloom : Option (Bytes → Bool)) (r : Reader) (idx : Index) (hv : o.skipHashOnLoad = false)
    (h : openTable comps k o t bloom = .ok (r, idx)) :
    validateData r.dc r.data idx.all = .ok () ∧ r.skipHashOnRead = o.skipHashOnRead := by
  unfold openTable at h
  cases h1 : decMeta t.metaf with
  | error e => rw [h1] at h; cases h
  | ok md =>
    rw [h1] at h
    simp only at h
    cases h2 : loadIndex comps k t.index with
    | error e => rw [h2] at h; cases h
    | ok ix =>
      rw [h2] at h
      simp only at h
      by_cases hv0 : md.version = 0
      · rw [if_pos hv0] at h; cases h
      · rw [if_neg hv0] at h
        cases h3 : openMmap comps t.data with
        | error e => rw [h3] at h; cases h
        | ok dc =>
          rw [h3] at h
          simp only [hv, Bool.false_eq_true, if_false] at h
          cases h4 : validateData dc t.data ix.all with
          | error e => rw [h4] at h; cases h
          | ok u =>
            rw [h4] at h
            simp only [Except.ok.injEq, Prod.mk.injEq] at h
            obtain ⟨hr, hi⟩ := h
            subst hr; subst hi
            exact ⟨h4, rfl⟩

/-- default options (verify on load, no check on reads): once the table has opened, every `Get` /
index-scan step on an indexed entry succeeds with a value whose CRC-64 is the stored one (or the stored one
is the bypass value 0) — whatever was done to the files before opening -/
theorem load_verified_sound (comps : Nat → Compression) (k : LoaderKind) (o : ReadOpts) (t : Table)
    (bloom : Option (Bytes → Bool)) (r : Reader) (idx : Index) (hv : o.skipHashOnLoad = false)
    (h : openTable comps k o t bloom = .ok (r, idx)) :
    ∀ e ∈ idx.all.1, ∃ v, r.getWith (.ok e.2) = .ok v ∧ (valueSum v = e.2.sum ∨ e.2.sum = 0) := by
  obtain ⟨hval, _⟩ := openTable_validated comps k o t bloom r idx hv h
  intro e he
  obtain ⟨v, hg⟩ := validate_all r.dc r.data idx.all.1 idx.all.2 hval e he
  refine ⟨v, ?_, verified_get_sound _ _ _ _ hg⟩
  unfold Reader.getWith
  cases hs : r.skipHashOnRead with
  | true => exact unverified_of_verified _ _ _ _ hg
  | false => exact hg

end SST.Proofs.Sst
