/-
Statement vocabulary for the read-like-a-map property of a reader whose index has STATE (the disk loader's
offset cache): the index states a sequence of calls can reach, the stateful form of `ReadsAsMap`, and the
same property told over call sequences.  Definitions only (plus the two generic consequences); the proofs
for the disk loader are in SST/Proofs/SSTableDiskLookup.lean.
-/
import SST.Spec.SSTable
namespace SST
open Generated

/-- the offset cache maps offsets only to the entry a fresh `SeekNext` at that offset returns WITHOUT error -/
def DiskCacheFresh (d : DiskIdx) : Prop :=
  ∀ p ∈ d.cache, ∃ o, diskSeekEntry d.c d.file p.1 = (.ok o, p.2)

/-- the index states that calls on a reader opened with index `idx0` may leave behind: an in-memory index
never changes; a disk index keeps its file and compressor, its cache may hold ANY set of fresh reads
(whatever lookups were made before, in whatever order, with the cache full or not) -/
def IndexState (idx0 idx : Index) : Prop :=
  match idx0 with
  | .disk d0 => ∃ d, idx = .disk d ∧ d.file = d0.file ∧ d.c = d0.c ∧ DiskCacheFresh d
  | _ => idx = idx0

/-- `ReadsAsMap` (all probes) for an index with state: IN EVERY STATE reachable from `idx0` every call
answers exactly like the sorted map of `kvs` and leaves a reachable state behind.  Same five conjuncts as
`ReadsAsMap`; for an index without state (`IndexState idx0 idx ↔ idx = idx0`) it is `ReadsAsMap` itself. -/
structure ReadsAsMapFrom (comps : Nat → Compression) (r : Reader) (idx0 : Index) (kvs : List KV) : Prop where
  init : IndexState idx0 idx0
  get : ∀ idx, IndexState idx0 idx → ∀ k, ∃ idx', r.get idx k = (idx', some (specGetRes kvs k)) ∧ IndexState idx0 idx'
  contains : ∀ idx, IndexState idx0 idx → ∀ k,
    ∃ idx', r.contains idx k = (idx', some (.ok (specGet bytesCmp kvs k).isSome)) ∧ IndexState idx0 idx'
  scan : ∀ idx, IndexState idx0 idx → r.scan comps idx = .ok (kvs.map normKV, .done)
  scanFrom : ∀ idx, IndexState idx0 idx → ∀ k,
    ∃ idx', r.scanFrom idx k = (idx', specScanFrom kvs k) ∧ IndexState idx0 idx'
  scanRange : ∀ idx, IndexState idx0 idx → ∀ lo hi,
    ∃ idx', r.scanRange idx lo hi = (idx', specScanRange kvs lo hi) ∧ IndexState idx0 idx'

/-! ## the same over call sequences -/

/-- one call of the reader API -/
inductive ReadCall where
  | get (k : Bytes)
  | contains (k : Bytes)
  | scan
  | scanFrom (k : Bytes)
  | scanRange (lo hi : Bytes)

/-- its answer (`none` = the call panics) -/
inductive ReadAns where
  | get (r : Option (Except Err GoBytes))
  | contains (r : Option (Except Err Bool))
  | scan (r : Except Err ScanRes)

def Reader.call (comps : Nat → Compression) (r : Reader) (idx : Index) : ReadCall → Index × ReadAns
  | .get k => ((r.get idx k).1, .get (r.get idx k).2)
  | .contains k => ((r.contains idx k).1, .contains (r.contains idx k).2)
  | .scan => (idx, .scan (r.scan comps idx))
  | .scanFrom k => ((r.scanFrom idx k).1, .scan (r.scanFrom idx k).2)
  | .scanRange lo hi => ((r.scanRange idx lo hi).1, .scan (r.scanRange idx lo hi).2)

/-- a sequence of calls on one reader, the index state threaded through; the answers in call order -/
def Reader.calls (comps : Nat → Compression) (r : Reader) : Index → List ReadCall → List ReadAns
  | _, [] => []
  | idx, c :: cs => (r.call comps idx c).2 :: Reader.calls comps r (r.call comps idx c).1 cs

/-- what the sorted map of `kvs` answers to a call (no state) -/
def specAns (kvs : List KV) : ReadCall → ReadAns
  | .get k => .get (some (specGetRes kvs k))
  | .contains k => .contains (some (.ok (specGet bytesCmp kvs k).isSome))
  | .scan => .scan (.ok (kvs.map normKV, .done))
  | .scanFrom k => .scan (specScanFrom kvs k)
  | .scanRange lo hi => .scan (specScanRange kvs lo hi)

/-- one call in a reachable state: the map's answer, and a reachable state -/
theorem ReadsAsMapFrom.call {comps : Nat → Compression} {r : Reader} {idx0 : Index} {kvs : List KV}
    (h : ReadsAsMapFrom comps r idx0 kvs) (idx : Index) (hi : IndexState idx0 idx) (c : ReadCall) :
    (r.call comps idx c).2 = specAns kvs c ∧ IndexState idx0 (r.call comps idx c).1 := by
  cases c with
  | get k =>
    obtain ⟨i, e, hi'⟩ := h.get idx hi k
    show ReadAns.get (r.get idx k).2 = _ ∧ IndexState idx0 (r.get idx k).1
    rw [e]; exact ⟨rfl, hi'⟩
  | contains k =>
    obtain ⟨i, e, hi'⟩ := h.contains idx hi k
    show ReadAns.contains (r.contains idx k).2 = _ ∧ IndexState idx0 (r.contains idx k).1
    rw [e]; exact ⟨rfl, hi'⟩
  | scan =>
    show ReadAns.scan (r.scan comps idx) = _ ∧ IndexState idx0 idx
    rw [h.scan idx hi]; exact ⟨rfl, hi⟩
  | scanFrom k =>
    obtain ⟨i, e, hi'⟩ := h.scanFrom idx hi k
    show ReadAns.scan (r.scanFrom idx k).2 = _ ∧ IndexState idx0 (r.scanFrom idx k).1
    rw [e]; exact ⟨rfl, hi'⟩
  | scanRange lo hi2 =>
    obtain ⟨i, e, hi'⟩ := h.scanRange idx hi lo hi2
    show ReadAns.scan (r.scanRange idx lo hi2).2 = _ ∧ IndexState idx0 (r.scanRange idx lo hi2).1
    rw [e]; exact ⟨rfl, hi'⟩

/-- EVERY sequence of calls gets the answers of the sorted map, call by call: no answer depends on the
calls made before it -/
theorem ReadsAsMapFrom.calls {comps : Nat → Compression} {r : Reader} {idx0 : Index} {kvs : List KV}
    (h : ReadsAsMapFrom comps r idx0 kvs) (cs : List ReadCall) :
    r.calls comps idx0 cs = cs.map (specAns kvs) := by
  have key : ∀ (cs : List ReadCall) (idx : Index), IndexState idx0 idx →
      r.calls comps idx cs = cs.map (specAns kvs) := by
    intro cs
    induction cs with
    | nil => intro _ _; rfl
    | cons c cs ih =>
      intro idx hi
      obtain ⟨h1, h2⟩ := h.call idx hi c
      simp only [Reader.calls, List.map_cons, h1, ih _ h2]
  exact key cs idx0 h.init

/-- for an index without state the stateful form is `ReadsAsMap` -/
theorem ReadsAsMap.toFrom {comps : Nat → Compression} {r : Reader} {idx0 : Index} {kvs : List KV}
    (h : ReadsAsMap comps (fun _ => True) r idx0 kvs) (hst : ∀ idx, IndexState idx0 idx ↔ idx = idx0) :
    ReadsAsMapFrom comps r idx0 kvs where
  init := (hst idx0).mpr rfl
  get := fun idx hi k => by
    rw [(hst idx).mp hi]; exact ⟨idx0, h.get k trivial, (hst idx0).mpr rfl⟩
  contains := fun idx hi k => by
    rw [(hst idx).mp hi]; exact ⟨idx0, h.contains k trivial, (hst idx0).mpr rfl⟩
  scan := fun idx hi => by rw [(hst idx).mp hi]; exact h.scan
  scanFrom := fun idx hi k => by
    rw [(hst idx).mp hi]; exact ⟨idx0, h.scanFrom k, (hst idx0).mpr rfl⟩
  scanRange := fun idx hi lo hi2 => by
    rw [(hst idx).mp hi]; exact ⟨idx0, h.scanRange lo hi2, (hst idx0).mpr rfl⟩

end SST
