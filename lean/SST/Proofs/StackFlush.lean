/-
L7, flush and rotation: a memstore model state, drained by `FlushWithTombstones` through the byte-level
writer `SstW`, closed and opened with the reader model, is a live table that decodes to the memstore's
layer.  Black boxes: C14 (`flush_spec`: the calls are the reference entries, strictly ascending), C15
(`call_results`, the closed table is `tableOf` the accepted pairs, truthful metadata), C03 (the table written
from an ascending list opens and reads as the sorted map).
-/
import SST.Proofs.StackBasic
import SST.Props.C03
import SST.Props.C15
import SST.Props.C14
namespace SST.Proofs.Stack
open SST SST.Stack SST.DBM Generated

/-! ## the byte-level writer accepts an ascending program call by call -/

theorem specResults_ascending (cmp : Bytes → Bytes → Ordering) :
    ∀ (kvs acc : List KV), StrictAsc cmp (acc ++ kvs) →
      ∀ r ∈ specResults cmp acc (kvs.map fun p => { key := p.1, value := p.2, fault := .none }), r = .ok := by
  intro kvs
  induction kvs with
  | nil => intro acc _ r hr; simp [specResults] at hr
  | cons p kvs ih =>
    intro acc hs r hr
    have hm : mayFollow cmp acc p.1 = true := by
      unfold mayFollow
      cases hgl : acc.getLast? with
      | none => rfl
      | some l =>
        have hmem : l ∈ acc := List.mem_of_getLast? hgl
        have := (List.pairwise_append.mp hs).2.2 l hmem p (by simp)
        simp [this]
    have hstep : acceptStep cmp acc { key := p.1, value := p.2, fault := .none } = acc ++ [p] := by
      unfold acceptStep
      simp [hm]
    have hres : specRes cmp acc { key := p.1, value := p.2, fault := .none } = .ok := by
      unfold specRes
      unfold mayFollow at hm
      cases hgl : acc.getLast? with
      | none => rfl
      | some l =>
        rw [hgl] at hm
        have : cmp l.1 p.1 = .lt := by simpa using hm
        simp [this]
    simp only [List.map_cons, specResults, hstep, hres, List.mem_cons] at hr
    rcases hr with rfl | hr
    · rfl
    · exact ih (acc ++ [p]) (by simpa using hs) r hr

theorem find_ne_ok_none (rs : List WRes) (h : ∀ r ∈ rs, r = .ok) : rs.find? (· ≠ .ok) = none := by
  rw [List.find?_eq_none]
  intro r hr
  simp [h r hr]

/-- an accepted call hands its key to the bloom filter -/
theorem writeNext_ok_bloom (cfg : SstCfg) (w : SstW) (c : Call) (h : (w.writeNext cfg c.key c.value c.fault).2 = .ok) :
    (w.writeNext cfg c.key c.value c.fault).1.bloomKeys = w.bloomKeys ++ [c.key] := by
  unfold SstW.writeNext at h ⊢
  cases ho : w.orderCheck cfg c.key with
  | some r =>
    rw [ho] at h
    simp only at h
    unfold SstW.orderCheck at ho
    cases hl : w.lastKey with
    | none => rw [hl] at ho; cases ho
    | some lk =>
      rw [hl] at ho
      simp only at ho
      cases hc : cfg.cmp lk c.key <;> rw [hc] at ho <;> simp at ho <;> subst ho <;> cases h
  | none =>
    rw [ho] at h
    simp only at h ⊢
    unfold SstW.writeBody at h ⊢
    cases hf : c.fault <;> rw [hf] at h <;> first | rfl | cases h

theorem run_bloomKeys (cfg : SstCfg) : ∀ (cs : List Call) (w : SstW), (∀ r ∈ (w.run cfg cs).2, r = .ok) →
    (w.run cfg cs).1.bloomKeys = w.bloomKeys ++ cs.map (·.key)
  | [], w, _ => by simp [SstW.run]
  | c :: cs, w, h => by
    simp only [SstW.run, List.mem_cons, forall_eq_or_imp] at h ⊢
    rw [run_bloomKeys cfg cs _ h.2, writeNext_ok_bloom cfg w c h.1]
    simp

/-- the metadata an opened reader holds is the decoded `meta.pb.bin` -/
theorem openTable_md (comps : Nat → Compression) (k : LoaderKind) (o : ReadOpts) (t : Table)
    (bloom : Option (Bytes → Bool)) (r : Reader) (idx : Index)
    (h : openTable comps k o t bloom = .ok (r, idx)) : decMeta t.metaf = .ok r.md := by
  unfold openTable at h
  cases hm : decMeta t.metaf with
  | error e => rw [hm] at h; cases h
  | ok md =>
    rw [hm] at h
    simp only at h
    cases hi : loadIndex comps k t.index with
    | error e => rw [hi] at h; cases h
    | ok ix =>
      rw [hi] at h
      simp only at h
      split at h
      · cases h
      · cases hd : openMmap comps t.data with
        | error e => rw [hd] at h; cases h
        | ok dc =>
          rw [hd] at h
          simp only at h
          split at h
          · cases h; rfl
          · split at h
            · cases h
            · cases h; rfl

theorem compsOk (P : Params) (hP : ParamsOk P) : CompsOk P.comps P.cfg :=
  ⟨rfl, rfl, hP.data, hP.index, by show snappyCode ≤ maxCompression; decide,
    by show noneCode ≤ maxCompression; decide⟩

/-- THE WRITE–READ BRIDGE: a strictly ascending list of pairs whose sizes fit, written call by call through
`SstW` with the default options, closed and opened with the default reader options, is a live table whose
three files are `tableOf` the list, whose reader answers as the sorted map of the list and whose metadata is
truthful; in particular no call is rejected and the table loads. -/
theorem writeAndOpen_ok (P : Params) (hP : ParamsOk P) (g : Nat) (kvs : List KV)
    (ha : StrictAsc bytesCmp kvs) (hf : FitsKV P.cfg kvs) (onW : WRes → Fail) (onO : Err → Fail) :
    ∃ t, writeAndOpen P g (kvs.map fun p => { key := p.1, value := p.2, fault := .none }) onW onO = .ok t ∧
      t.gen = g ∧ TblDec P t kvs := by
  have hc := compsOk P hP
  have hres : ∀ r ∈ ((SstW.open P.cfg).run P.cfg
      (kvs.map fun p => { key := p.1, value := p.2, fault := .none })).2, r = .ok := by
    rw [C15.call_results]
    exact specResults_ascending bytesCmp kvs [] (by simpa using ha)
  have hclose : ((SstW.open P.cfg).run P.cfg
      (kvs.map fun p => { key := p.1, value := p.2, fault := .none })).1.close = writeTable P.cfg kvs := rfl
  have hbk := run_bloomKeys P.cfg _ (SstW.open P.cfg) hres
  have hb : BloomOk (P.mkBloom ((SstW.open P.cfg).run P.cfg
      (kvs.map fun p => { key := p.1, value := p.2, fault := .none })).1.bloomKeys) kvs := by
    intro bf hbf p hp
    apply hP.bloom _ bf hbf
    rw [hbk]
    simp only [SstW.open, List.nil_append, List.map_map, List.mem_map, Function.comp]
    exact ⟨p, hp, rfl⟩
  obtain ⟨r, idx, hopen, hreads⟩ := C03.table_reads_as_map_slice P.comps P.cfg kvs rfl hc hf ha {} _ hb
  have hwt : writeTable P.cfg kvs = tableOf P.cfg kvs := Proofs.Sst.writeTable_eq P.cfg kvs ha
  refine ⟨{ gen := g, files := writeTable P.cfg kvs, rd := r, idx := idx,
             bloom := P.mkBloom ((SstW.open P.cfg).run P.cfg
               (kvs.map fun p => { key := p.1, value := p.2, fault := .none })).1.bloomKeys }, ?_, ?_⟩
  · unfold writeAndOpen
    simp only [find_ne_ok_none _ hres, hclose, hopen]
  · refine ⟨rfl, ⟨ha, hwt, hf, hopen, hreads, ?_⟩⟩
    have hmd := openTable_md _ _ _ _ _ _ _ hopen
    rw [hwt] at hmd
    have := Proofs.Sst.decMeta_metaOf P.cfg kvs hf
    have hm : (tableOf P.cfg kvs).metaf = encMeta (metaOf P.cfg kvs) := rfl
    rw [hm, this] at hmd
    exact (Except.ok.inj hmd).symm

/-! ## the memstore's layer as a sorted table -/

theorem tget_entries (k : Bytes) : ∀ r : Mem.RefMap,
    Merge.tget (Mem.RefMap.entries r) k = (Mem.RefMap.get k r).map Mem.Cell.toGo
  | [] => rfl
  | (k', c) :: rest => by
    have ih := tget_entries k rest
    unfold Mem.RefMap.entries at ih ⊢
    simp only [List.map_cons, Merge.tget, Mem.RefMap.get]
    by_cases h : k = k'
    · simp [h]
    · simp only [h, if_false]; exact ih

theorem entries_asc {m : Mem.MemStore} (hw : Proofs.MemP.WF m) :
    StrictAsc bytesCmp (Mem.RefMap.entries (Proofs.MemP.view m)) := by
  have := Proofs.MemP.view_sorted hw
  unfold Proofs.MemP.RSorted at this
  unfold StrictAsc Mem.RefMap.entries
  rw [List.pairwise_map]
  exact this

theorem memRel_cells {m : Mem.MemStore} {l : Layer} (h : MemRel m l) :
    CellsRel l (Mem.RefMap.entries (Proofs.MemP.view m)) :=
  ⟨h.nodup, fun k => by rw [h.get k, tget_entries]⟩

theorem memRel_length {m : Mem.MemStore} {l : Layer} (h : MemRel m l) : l.length = m.sl.size := by
  rw [cells_length (memRel_cells h) (entries_asc h.wf), ← Proofs.MemP.view_length]
  simp [Mem.RefMap.entries]

theorem memRel_empty : MemRel Mem.MemStore.empty [] :=
  ⟨Proofs.MemP.wf_empty, List.nodup_nil, fun _ => rfl⟩

/-- C14 → C15: what `FlushWithTombstones` hands to the writer -/
theorem flush_calls {m : Mem.MemStore} (hw : Proofs.MemP.WF m) :
    ∃ calls, Mem.flushCalls m true = some calls ∧
      calls.map mkCall = (Mem.RefMap.entries (Proofs.MemP.view m)).map
        (fun p => ({ key := p.1, value := p.2, fault := .none } : Call)) ∧
      flushKVs m = Mem.RefMap.entries (Proofs.MemP.view m) := by
  obtain ⟨calls, h1, _, h3, _⟩ := Proofs.MemP.flush_spec hw true
  have h3' : calls.map (fun e => (e.1.getD [], e.2)) = Mem.RefMap.entries (Proofs.MemP.view m) := by
    rw [h3]; simp
  refine ⟨calls, h1, ?_, ?_⟩
  · rw [← h3', List.map_map]
    rfl
  · unfold flushKVs
    rw [h1]
    exact h3'

/-! ## flush and rotation -/

theorem flush_sim {P : Params} (hP : ParamsOk P) {c : Stack.State} {s : DBM.State} (h : Rel P c s)
    (hf : FitsMem P c.r) :
    ∃ c', Stack.flushStep P c = .ok c' ∧ Rel P c' (DBM.flushStep s) := by
  unfold Stack.flushStep DBM.flushStep
  rw [← h.pending]
  by_cases hp : c.flushPending = true
  · simp only [hp, Bool.not_true, Bool.false_eq_true, if_false]
    have hlen := memRel_length h.r
    by_cases hz : c.r.sl.size = 0
    · have he : s.r.isEmpty = true := by
        rw [List.isEmpty_iff]; exact List.eq_nil_of_length_eq_zero (by omega)
      simp only [hz, he, if_true]
      exact ⟨_, rfl, { h with pending := rfl }⟩
    · have he : s.r.isEmpty = false := by
        cases hs : s.r with
        | nil => rw [hs] at hlen; simp at hlen; omega
        | cons _ _ => rfl
      simp only [hz, he, if_false, Bool.false_eq_true, newWriter]
      obtain ⟨calls, hc1, hc2, hc3⟩ := flush_calls h.r.wf
      unfold FitsMem at hf
      rw [hc3] at hf
      obtain ⟨t, ht, hg, hd⟩ := writeAndOpen_ok P hP (c.gen + 1) _ (entries_asc h.r.wf) hf .flushWrite .flushOpen
      rw [hc1]
      simp only [hc2, ht]
      refine ⟨_, rfl, ?_⟩
      exact { w := h.w, r := h.r, alias := h.alias, pending := rfl
              tables := h.tables.append (Rel2.cons ⟨by rw [hg, h.gen], _, hd, memRel_cells h.r⟩ Rel2.nil)
              gen := by show c.gen + 1 = s.gen + 1; rw [h.gen]
              isOpen := h.isOpen, closed := h.closed, opts := h.opts }
  · have hp' : c.flushPending = false := by simpa using hp
    simp only [hp', Bool.not_false, if_true]
    exact ⟨c, rfl, h⟩

theorem flush_w {P : Params} {c c' : Stack.State} (h : Stack.flushStep P c = .ok c') :
    c'.w = c.w ∧ c'.r = c.r ∧ c'.rAliasesW = c.rAliasesW ∧ c'.isOpen = c.isOpen ∧ c'.closed = c.closed := by
  unfold Stack.flushStep at h
  split at h
  · cases h; exact ⟨rfl, rfl, rfl, rfl, rfl⟩
  · split at h
    · cases h; exact ⟨rfl, rfl, rfl, rfl, rfl⟩
    · split at h
      · cases h
      · split at h
        · cases h
        · split at h
          · cases h
          · cases h; exact ⟨rfl, rfl, rfl, rfl, rfl⟩

theorem rotate_sim {P : Params} (hP : ParamsOk P) {c : Stack.State} {s : DBM.State} (h : Rel P c s)
    (hf : FitsMem P c.r) :
    ∃ c', Stack.rotate P c = .ok c' ∧ Rel P c' (DBM.rotate s) := by
  obtain ⟨c1, h1, hr⟩ := flush_sim hP h hf
  unfold Stack.rotate DBM.rotate
  rw [h1]
  refine ⟨_, rfl, ?_⟩
  exact { w := memRel_empty, r := hr.w, alias := (fun ha => by cases ha), pending := rfl, tables := hr.tables,
          gen := hr.gen, isOpen := hr.isOpen, closed := hr.closed, opts := hr.opts }

end SST.Proofs.Stack
