/-
L6-fs, interleaved: every enabled move of every thread preserves the structural invariant `S`.
-/
import SST.Proofs.FSInterleave
namespace SST.Proofs.FSI
open SST SST.DBM SST.FS SST.FSI SST.Proofs.DB SST.Proofs.FS

/-! ## WAL listing facts -/

theorem front_ne_cur {c : Cfg} (h : S c) : ∀ y ∈ c.junk ++ fFile c, y.num < c.cur := by
  intro y hy
  have hn := h.nums
  rw [List.map_append, List.pairwise_append] at hn
  exact hn.2.2 y.num (List.mem_map.2 ⟨y, hy, rfl⟩) c.cur (by simp [curFile])

theorem nextFile_client {c : Cfg} (hpc : c.pc = .idle ∨ (∃ r, c.pc = .app r) ∨ c.pc = .rot0 ∨ c.pc = .rot1) :
    nextFile c = [] := by
  unfold nextFile
  rcases hpc with (h | ⟨r, h⟩ | h | h) <;> rw [h]

/-- a change of the current file only (same number) -/
theorem wal_upd_cur {c : Cfg} (h : S c) (hnext : nextFile c = []) (f : WalFile → WalFile) :
    updW c.cur f c.d.wal = c.junk ++ fFile c ++ [f (curFile c)] := by
  rw [h.wal, hnext, List.append_nil]
  exact updW_last c.cur f _ _ (fun y hy => by have := front_ne_cur h y hy; omega) rfl

/-! ## the client thread -/

theorem KWf_congr {c c' : Cfg} (hk : c'.kj = c.kj) (ht : c'.tables = c.tables) (hp : c.pc = .idle → c'.pc = .idle)
    (h : KWf c) : KWf c' := by
  unfold KWf at h ⊢
  rw [hk, ht]
  cases hkj : c.kj with
  | idle => trivial
  | merging npre nsel cells st => rw [hkj] at h; exact h
  | reflecting npre nsel cells j sub J =>
    rw [hkj] at h
    exact ⟨h.1, h.2.1, h.2.2.1, h.2.2.2.1, h.2.2.2.2.1, h.2.2.2.2.2.1, hp h.2.2.2.2.2.2⟩

theorem not_reflecting_kwf {c c' : Cfg} (hk : c'.kj = c.kj) (ht : c'.tables = c.tables)
    (hnr : ∀ a b cl j s J, c.kj ≠ .reflecting a b cl j s J) (h : KWf c) : KWf c' := by
  unfold KWf at h ⊢
  rw [hk, ht]
  cases hkj : c.kj with
  | idle => trivial
  | merging npre nsel cells st => rw [hkj] at h; exact h
  | reflecting npre nsel cells j sub J => exact absurd hkj (hnr _ _ _ _ _ _)

theorem S_begin (async : Bool) (c c' : Cfg) (e : Option Ev) (h : S c) (hm : move async c .begin = some (e, c')) :
    S c' := by
  simp only [move] at hm
  split at hm
  · cases hm
  · rename_i _ _ _ op rest hpc hprog hnr
    have hnr' : ∀ a b cl j s J, c.kj ≠ .reflecting a b cl j s J := by
      intro a b cl j s J hk; exact hnr a b cl j s J hk
    have hnext : nextFile c = [] := nextFile_client (Or.inl hpc)
    have hwal0 := h.wal
    rw [hnext] at hwal0
    -- an accepted write: the record enters the appender, the write store is updated
    have hput : ∀ (m : Mutation) (pc' : Pc), m.ok = true → (pc' = .rot0 ∨ ∃ r, pc' = .app r) →
        S { c with prog := rest, pc := pc', queue := c.queue ++ [m], w := m.apply c.w, hist := c.hist ++ [m] } := by
      intro m pc' hmo hpc'
      have hn' : nextFile { c with prog := rest, pc := pc', queue := c.queue ++ [m], w := m.apply c.w, hist := c.hist ++ [m] } = [] := by
        unfold nextFile; rcases hpc' with (rfl | ⟨r, rfl⟩) <;> rfl
      refine { h with wal := ?_, qOk := ?_, wq := ?_, tnq := ?_, pcq := ?_, kwf := ?_ }
      · rw [hn']; exact hwal0
      · intro x hx
        rcases List.mem_append.1 hx with (hx | hx)
        · exact h.qOk x hx
        · simp only [List.mem_singleton] at hx; subst hx; exact hmo
      · show applyMuts [] (c.rc ++ (c.queue ++ [m])) = m.apply c.w
        rw [← List.append_assoc, applyMuts_append, h.wq]; rfl
      · intro _; simp
      · intro hx
        rcases hpc' with (rfl | ⟨r, rfl⟩) <;> rcases hx with (hx | hx | hx) <;> cases hx
      · exact not_reflecting_kwf (c := c) rfl rfl hnr' h.kwf
    have hskip : ∀ pc', (pc' = .idle ∨ pc' = .rot0) → S { c with prog := rest, pc := pc' } := by
      intro pc' hpc'
      have hn' : nextFile { c with prog := rest, pc := pc' } = [] := by
        unfold nextFile; rcases hpc' with (rfl | rfl) <;> rfl
      refine { h with wal := ?_, pcq := ?_, kwf := ?_ }
      · rw [hn']; exact hwal0
      · intro hx
        rcases hpc' with (rfl | rfl) <;> rcases hx with (hx | hx | hx) <;> cases hx
      · exact not_reflecting_kwf (c := c) rfl rfl hnr' h.kwf
    cases op with
    | nop =>
      simp only [Option.some.injEq, Prod.mk.injEq] at hm
      obtain ⟨_, rfl⟩ := hm
      have := hskip .idle (Or.inl rfl)
      rw [← hpc] at this
      exact this
    | rotate =>
      simp only [Option.some.injEq, Prod.mk.injEq] at hm
      obtain ⟨_, rfl⟩ := hm
      exact hskip .rot0 (Or.inr rfl)
    | put k v rot =>
      simp only at hm
      by_cases hv : (k.isEmpty || v.isEmpty) = true
      · rw [if_pos hv] at hm
        simp only [Option.some.injEq, Prod.mk.injEq] at hm
        obtain ⟨_, rfl⟩ := hm
        have := hskip .idle (Or.inl rfl)
        rw [← hpc] at this
        exact this
      · rw [if_neg hv] at hm
        simp only [Option.some.injEq, Prod.mk.injEq] at hm
        obtain ⟨_, rfl⟩ := hm
        refine hput (.put k v) (.app rot) ?_ (Or.inr ⟨rot, rfl⟩)
        simp only [Bool.or_eq_true, not_or, Bool.not_eq_true] at hv
        simp [Mutation.ok, hv.2]
    | del k =>
      simp only [Option.some.injEq, Prod.mk.injEq] at hm
      obtain ⟨_, rfl⟩ := hm
      exact hput (.del k) (.app false) rfl (Or.inr ⟨false, rfl⟩)
  · cases hm

theorem pc_app_or_rot0 {pc : Pc} (h : pc.logging = true) : (∃ r, pc = .app r) ∨ pc = .rot0 := by
  cases pc <;> simp [Pc.logging] at h
  · exact Or.inl ⟨_, rfl⟩
  · exact Or.inr rfl

theorem nums_upd {c : Cfg} (h : S c) (f : WalFile) (hf : f.num = c.cur) :
    ((c.junk ++ fFile c ++ [f]).map (·.num)).Pairwise (· < ·) := by
  have := h.nums
  simpa [curFile, hf] using this

theorem not_reflecting_of_pc {c : Cfg} (h : S c) (hpc : c.pc ≠ .idle) :
    ∀ a b cl j s J, c.kj ≠ .reflecting a b cl j s J := by
  intro a b cl j s J hk
  have := h.kwf
  unfold KWf at this
  rw [hk] at this
  exact hpc this.2.2.2.2.2.2

theorem S_torn (async : Bool) (c c' : Cfg) (e : Option Ev) (h : S c) (hm : move async c .torn = some (e, c')) :
    S c' := by
  simp only [move] at hm
  by_cases hc : (c.pc.logging && !c.queue.isEmpty) = true
  · rw [if_pos hc] at hm
    simp only [Option.some.injEq, Prod.mk.injEq] at hm
    obtain ⟨_, rfl⟩ := hm
    simp only [Bool.and_eq_true, Bool.not_eq_true', List.isEmpty_eq_false_iff] at hc
    have hpc := pc_app_or_rot0 hc.1
    have hnext : nextFile c = [] := nextFile_client (Or.inr (hpc.elim (fun h => Or.inl h) (fun h => Or.inr (Or.inl h))))
    have hw := wal_upd_cur h hnext (fun x => { x with torn := true })
    refine { h with wal := ?_, nums := ?_, tnq := ?_, pcq := ?_ }
    · show updW c.cur _ c.d.wal = c.junk ++ fFile c ++ [{ num := c.cur, recs := c.rc, torn := true }] ++ nextFile c
      rw [hnext, List.append_nil]; exact hw
    · exact nums_upd h _ rfl
    · intro _; exact hc.2
    · intro hx
      rcases hpc with (⟨r, hr⟩ | hr) <;> rcases hx with (hx | hx | hx) <;> rw [hr] at hx <;> cases hx
  · rw [if_neg hc] at hm; cases hm

theorem S_append (async : Bool) (c c' : Cfg) (e : Option Ev) (h : S c) (hm : move async c .append = some (e, c')) :
    S c' := by
  simp only [move] at hm
  cases hq : c.queue with
  | nil => rw [hq] at hm; cases hm
  | cons m q =>
    rw [hq] at hm
    simp only at hm
    by_cases hc : c.pc.logging = true
    · rw [if_pos hc] at hm
      simp only [Option.some.injEq, Prod.mk.injEq] at hm
      obtain ⟨_, rfl⟩ := hm
      have hpc := pc_app_or_rot0 hc
      have hnext : nextFile c = [] := nextFile_client (Or.inr (hpc.elim (fun h => Or.inl h) (fun h => Or.inr (Or.inl h))))
      have hw := wal_upd_cur h hnext (fun x => if x.header then { x with recs := x.recs ++ [m], torn := false } else x)
      refine { h with wal := ?_, nums := ?_, rcOk := ?_, qOk := ?_, wq := ?_, tnq := ?_, pcq := ?_ }
      · show updW c.cur _ c.d.wal = c.junk ++ fFile c ++ [{ num := c.cur, recs := c.rc ++ [m], torn := false }] ++ nextFile c
        rw [hnext, List.append_nil]; exact hw
      · exact nums_upd h _ rfl
      · intro x hx
        rcases List.mem_append.1 hx with (hx | hx)
        · exact h.rcOk x hx
        · simp only [List.mem_singleton] at hx; subst hx
          exact h.qOk x (by rw [hq]; exact List.mem_cons_self)
      · intro x hx; exact h.qOk x (by rw [hq]; exact List.mem_cons_of_mem _ hx)
      · show applyMuts [] (c.rc ++ [m] ++ q) = c.w
        rw [← h.wq, hq]; simp
      · intro hf; cases hf
      · intro hx
        rcases hpc with (⟨r, hr⟩ | hr) <;> rcases hx with (hx | hx | hx) <;> rw [hr] at hx <;> cases hx
    · rw [if_neg hc] at hm; cases hm

theorem S_done (async : Bool) (c c' : Cfg) (e : Option Ev) (h : S c) (hm : move async c .done = some (e, c')) :
    S c' := by
  simp only [move] at hm
  cases hpc : c.pc with
  | app rot =>
    rw [hpc] at hm
    simp only at hm
    have hnext : nextFile c = [] := nextFile_client (Or.inr (Or.inl ⟨rot, hpc⟩))
    have hwal0 := h.wal
    rw [hnext] at hwal0
    have hnr := not_reflecting_of_pc h (by rw [hpc]; intro hx; cases hx)
    by_cases h1 : (!async && !c.queue.isEmpty) = true
    · rw [if_pos h1] at hm; cases hm
    · rw [if_neg h1] at hm
      cases rot with
      | true =>
        simp only [if_true, Option.some.injEq, Prod.mk.injEq] at hm
        obtain ⟨_, rfl⟩ := hm
        refine { h with wal := ?_, pcq := ?_, kwf := ?_ }
        · show c.d.wal = _ ++ nextFile { c with pc := .rot0 }
          exact hwal0
        · intro hx; rcases hx with (hx | hx | hx) <;> cases hx
        · exact not_reflecting_kwf (c := c) rfl rfl hnr h.kwf
      | false =>
        simp only [Bool.false_eq_true, if_false, Option.some.injEq, Prod.mk.injEq] at hm
        obtain ⟨_, rfl⟩ := hm
        refine { h with wal := ?_, pcq := ?_, kwf := ?_ }
        · show c.d.wal = _ ++ nextFile { c with pc := .idle, acked := c.hist.length }
          exact hwal0
        · intro hx; rcases hx with (hx | hx | hx) <;> cases hx
        · exact not_reflecting_kwf (c := c) rfl rfl hnr h.kwf
  | idle => rw [hpc] at hm; cases hm
  | rot0 => rw [hpc] at hm; cases hm
  | rot1 => rw [hpc] at hm; cases hm
  | rot2 => rw [hpc] at hm; cases hm
  | rot3 => rw [hpc] at hm; cases hm

theorem S_close (async : Bool) (c c' : Cfg) (e : Option Ev) (h : S c) (hm : move async c .close = some (e, c')) :
    S c' := by
  simp only [move] at hm
  by_cases hc : (c.pc == .rot0 && c.queue.isEmpty && !c.tn) = true
  · rw [if_pos hc] at hm
    simp only [Option.some.injEq, Prod.mk.injEq] at hm
    obtain ⟨_, rfl⟩ := hm
    simp only [Bool.and_eq_true, beq_iff_eq, List.isEmpty_iff, Bool.not_eq_true'] at hc
    obtain ⟨⟨hpc, hq⟩, htn⟩ := hc
    have hnext : nextFile c = [] := nextFile_client (Or.inr (Or.inr (Or.inl hpc)))
    have hwal0 := h.wal
    rw [hnext] at hwal0
    have hnr := not_reflecting_of_pc h (by rw [hpc]; intro hx; cases hx)
    refine { h with wal := ?_, pcq := ?_, kwf := ?_ }
    · show c.d.wal = _ ++ nextFile { c with pc := .rot1 }
      exact hwal0
    · intro _; exact ⟨hq, htn⟩
    · exact not_reflecting_kwf (c := c) rfl rfl hnr h.kwf
  · rw [if_neg hc] at hm; cases hm

theorem S_create (async : Bool) (c c' : Cfg) (e : Option Ev) (h : S c) (hm : move async c .create = some (e, c')) :
    S c' := by
  simp only [move] at hm
  by_cases hc : (c.pc == .rot1) = true
  · rw [if_pos hc] at hm
    simp only [Option.some.injEq, Prod.mk.injEq] at hm
    obtain ⟨_, rfl⟩ := hm
    have hpc : c.pc = .rot1 := by simpa using hc
    have hnext : nextFile c = [] := nextFile_client (Or.inr (Or.inr (Or.inr hpc)))
    have hwal0 := h.wal
    rw [hnext, List.append_nil] at hwal0
    have hnr := not_reflecting_of_pc h (by rw [hpc]; intro hx; cases hx)
    have hlt : ∀ y ∈ c.d.wal, y.num < c.cur + 1 := by
      intro y hy
      rw [hwal0] at hy
      rcases List.mem_append.1 hy with (hy | hy)
      · have := front_ne_cur h y hy; omega
      · simp only [List.mem_singleton] at hy; subst hy; simp [curFile]
    have hd' : applyEv c.d (.walCreate (c.cur + 1)) =
        { c.d with wal := c.d.wal ++ [{ num := c.cur + 1, header := false }] } := by
      simp only [applyEv, h.walDir, if_true]
      rw [insertW_last _ _ hlt]
    rw [hd']
    refine { h with wal := ?_, pcq := ?_, kwf := ?_ }
    · show c.d.wal ++ _ = c.junk ++ fFile c ++ [curFile c] ++ [{ num := c.cur + 1, header := false }]
      rw [hwal0]
    · intro _; exact h.pcq (Or.inl hpc)
    · exact not_reflecting_kwf (c := c) rfl rfl hnr h.kwf
  · rw [if_neg hc] at hm; cases hm

theorem S_header (async : Bool) (c c' : Cfg) (e : Option Ev) (h : S c) (hm : move async c .header = some (e, c')) :
    S c' := by
  simp only [move] at hm
  by_cases hc : (c.pc == .rot2) = true
  · rw [if_pos hc] at hm
    simp only [Option.some.injEq, Prod.mk.injEq] at hm
    obtain ⟨_, rfl⟩ := hm
    have hpc : c.pc = .rot2 := by simpa using hc
    have hnext : nextFile c = [{ num := c.cur + 1, header := false }] := by unfold nextFile; rw [hpc]
    have hwal0 := h.wal
    rw [hnext] at hwal0
    have hnr := not_reflecting_of_pc h (by rw [hpc]; intro hx; cases hx)
    refine { h with wal := ?_, pcq := ?_, kwf := ?_ }
    · show (applyEv c.d (.walHeader (c.cur + 1))).wal = c.junk ++ fFile c ++ [curFile c] ++ [{ num := c.cur + 1 }]
      simp only [applyEv]
      rw [hwal0, updW_last (c.cur + 1) _ _ _ ?_ rfl]
      intro y hy
      rcases List.mem_append.1 hy with (hy | hy)
      · have := front_ne_cur h y hy; omega
      · simp only [List.mem_singleton] at hy; subst hy; simp [curFile]
    · intro _; exact h.pcq (Or.inr (Or.inl hpc))
    · exact not_reflecting_kwf (c := c) rfl rfl hnr h.kwf
  · rw [if_neg hc] at hm; cases hm

theorem S_handoff (async : Bool) (c c' : Cfg) (e : Option Ev) (h : S c) (hm : move async c .handoff = some (e, c')) :
    S c' := by
  simp only [move] at hm
  cases hpc : c.pc with
  | rot3 =>
    cases hfl : c.fl with
    | some j => rw [hpc, hfl] at hm; cases hm
    | none =>
      rw [hpc, hfl] at hm
      simp only at hm
      obtain ⟨hq, htn⟩ := h.pcq (Or.inr (Or.inr hpc))
      have hnext : nextFile c = [{ num := c.cur + 1 }] := by unfold nextFile; rw [hpc]
      have hff : fFile c = [] := by unfold fFile; rw [hfl]
      have hft : fTables c = [] := by unfold fTables; rw [hfl]
      have hwal0 := h.wal
      rw [hnext, hff, List.append_nil] at hwal0
      have hnr := not_reflecting_of_pc h (by rw [hpc]; intro hx; cases hx)
      have hw : applyMuts [] c.rc = c.w := by have := h.wq; rw [hq, List.append_nil] at this; exact this
      have hcurf : curFile c = { num := c.cur, recs := c.rc } := by unfold curFile; rw [htn]
      have hnums := h.nums
      rw [hff, List.append_nil, hcurf] at hnums
      by_cases hwe : c.w.isEmpty = true
      · rw [if_pos hwe] at hm
        simp only [Option.some.injEq, Prod.mk.injEq] at hm
        obtain ⟨_, rfl⟩ := hm
        have hrc : c.rc = [] := applyMuts_eq_nil (by rw [hw]; simpa using hwe)
        refine { h with tbl := ?_, wal := ?_, fwf := ?_, jk := ?_, nums := ?_, rcOk := ?_, wq := ?_, pcq := ?_, kwf := ?_ }
        · show c.d.tables = kTables c ++ []
          rw [h.tbl, hft]
        · show c.d.wal = (c.junk ++ [{ num := c.cur, recs := c.rc }]) ++ [] ++ [{ num := c.cur + 1, recs := [], torn := c.tn }] ++ []
          rw [hwal0, hcurf, htn]; simp
        · intro j hj; cases hj
        · exact junk_append h.jk (by
            intro f hf
            simp only [List.mem_singleton] at hf; subst hf
            exact ⟨rfl, hrc, rfl⟩)
        · show (((c.junk ++ [({ num := c.cur, recs := c.rc } : WalFile)]) ++ [] ++ [({ num := c.cur + 1, recs := [], torn := c.tn } : WalFile)]).map WalFile.num).Pairwise (· < ·)
          rw [List.append_nil, List.map_append, List.pairwise_append]
          refine ⟨hnums, by simp, ?_⟩
          intro a ha b hb
          simp only [List.map_cons, List.map_nil, List.mem_singleton] at hb
          subst hb
          have hn2 := hnums
          rw [List.map_append, List.pairwise_append] at hn2
          rcases List.mem_append.1 (by simpa using ha : a ∈ c.junk.map (·.num) ++ [c.cur]) with (ha' | ha')
          · have := hn2.2.2 a ha' c.cur (by simp); omega
          · simp at ha'; omega
        · intro m hm'; cases hm'
        · show applyMuts [] ([] ++ c.queue) = c.w
          rw [hq]
          have : c.w = [] := by simpa using hwe
          rw [this]; rfl
        · intro hx; rcases hx with (hx | hx | hx) <;> cases hx
        · exact not_reflecting_kwf (c := c) rfl rfl hnr h.kwf
      · rw [if_neg hwe] at hm
        simp only [Option.some.injEq, Prod.mk.injEq] at hm
        obtain ⟨_, rfl⟩ := hm
        refine { h with tbl := ?_, wal := ?_, gensLe := ?_, fwf := ?_, nums := ?_, rcOk := ?_, wq := ?_, pcq := ?_, kwf := ?_ }
        · show c.d.tables = _ ++ fDir { r := c.w, ro := c.rc, on := c.cur, g := c.gen + 1, stage := 0 }
          rw [h.tbl, hft]; rfl
        · show c.d.wal = c.junk ++ [{ num := c.cur, recs := c.rc }] ++ [{ num := c.cur + 1, recs := [], torn := c.tn }] ++ []
          rw [hwal0, hcurf, htn]; simp
        · intro t ht; have := h.gensLe t ht; show t.gen ≤ c.gen + 1; omega
        · intro j hj
          simp only [Option.some.injEq] at hj
          subst hj
          refine ⟨rfl, ?_, hw, by simp, h.rcOk⟩
          intro t ht; have := h.gensLe t ht; show t.gen < c.gen + 1; omega
        · show ((c.junk ++ [({ num := c.cur, recs := c.rc } : WalFile)] ++ [({ num := c.cur + 1, recs := [], torn := c.tn } : WalFile)]).map WalFile.num).Pairwise (· < ·)
          rw [List.map_append, List.pairwise_append]
          refine ⟨hnums, by simp, ?_⟩
          intro a ha b hb
          simp only [List.map_cons, List.map_nil, List.mem_singleton] at hb
          subst hb
          have hn2 := hnums
          rw [List.map_append, List.pairwise_append] at hn2
          rcases List.mem_append.1 (by simpa using ha : a ∈ c.junk.map (·.num) ++ [c.cur]) with (ha' | ha')
          · have := hn2.2.2 a ha' c.cur (by simp); omega
          · simp at ha'; omega
        · intro m hm'; cases hm'
        · show applyMuts [] ([] ++ c.queue) = []
          rw [hq]; rfl
        · intro hx; rcases hx with (hx | hx | hx) <;> cases hx
        · exact not_reflecting_kwf (c := c) rfl rfl hnr h.kwf
  | idle => rw [hpc] at hm; cases hm
  | app r => rw [hpc] at hm; cases hm
  | rot0 => rw [hpc] at hm; cases hm
  | rot1 => rw [hpc] at hm; cases hm
  | rot2 => rw [hpc] at hm; cases hm

/-! ## the flusher -/

theorem kTables_lt {c : Cfg} (h : S c) (j : FJob) (hfl : c.fl = some j) : ∀ p ∈ kTables c, p.1 < j.g := by
  intro p hp
  have := (keys_kTables_sub c).subset (List.mem_map.2 ⟨p, hp, rfl⟩)
  obtain ⟨t, ht, he⟩ := List.mem_map.1 this
  rw [← he]
  exact (h.fwf j hfl).2.1 t ht

theorem S_fstep (async : Bool) (c c' : Cfg) (e : Option Ev) (h : S c) (hm : move async c .fstep = some (e, c')) :
    S c' := by
  simp only [move] at hm
  cases hfl : c.fl with
  | none => rw [hfl] at hm; cases hm
  | some j =>
    rw [hfl] at hm
    simp only at hm
    obtain ⟨hg, hlt, hro, hst, hrok⟩ := h.fwf j hfl
    have hklt := kTables_lt h j hfl
    have hkne : ∀ p ∈ kTables c, p.1 ≠ j.g := fun p hp => by have := hklt p hp; omega
    have htbl : c.d.tables = kTables c ++ fDir j := by rw [h.tbl]; unfold fTables; rw [hfl]
    have hupd : ∀ (st st' : TableDir), updT j.g (fun _ => st') (kTables c ++ [(j.g, st)]) = kTables c ++ [(j.g, st')] := by
      intro st st'
      rw [updT_append, updT_id_of_absent _ _ _ hkne]
      simp [updT]
    have hff : ∀ n, n ≤ 5 → j.stage ≤ 5 → fFile { c with fl := some { j with stage := n } } = fFile c := by
      intro n hn hj5
      unfold fFile
      rw [hfl]
      simp only
      rw [if_pos hn, if_pos hj5]
    -- a call that only touches the table directory
    have htab : ∀ (e : Ev) (n : Nat), j.stage + 1 = n → n ≤ 5 → (applyEv c.d e).comps = c.d.comps →
        (applyEv c.d e).walDir = c.d.walDir → (applyEv c.d e).wal = c.d.wal →
        (applyEv c.d e).tables = kTables c ++ fDir { j with stage := n } →
        S { c with d := applyEv c.d e, fl := some { j with stage := n } } := by
      intro e n hn hn5 hc1 hc2 hc3 hc4
      refine { h with tbl := ?_, comps := ?_, walDir := ?_, wal := ?_, fwf := ?_, nums := ?_ }
      · exact hc4
      · rw [hc1]; exact h.comps
      · rw [hc2]; exact h.walDir
      · show (applyEv c.d e).wal = c.junk ++ fFile { c with fl := some { j with stage := n } } ++ [curFile c] ++ nextFile c
        rw [hc3, hff n hn5 (by omega)]; exact h.wal
      · intro j' hj'
        simp only [Option.some.injEq] at hj'
        subst hj'
        refine ⟨hg, hlt, hro, ?_, hrok⟩
        show n ≤ 6
        omega
      · show ((c.junk ++ fFile { c with fl := some { j with stage := n } } ++ [curFile c]).map (·.num)).Pairwise (· < ·)
        rw [hff n hn5 (by omega)]; exact h.nums
    have hstage : j.stage = 0 ∨ j.stage = 1 ∨ j.stage = 2 ∨ j.stage = 3 ∨ j.stage = 4 ∨ j.stage = 5 ∨ j.stage = 6 := by omega
    unfold flushCalls at hm
    rcases hstage with (hs | hs | hs | hs | hs | hs | hs) <;> rw [hs] at hm <;>
      simp only [List.getElem?_cons_zero, List.getElem?_cons_succ, Option.some.injEq, Prod.mk.injEq] at hm
    · obtain ⟨_, rfl⟩ := hm
      have hfd : fDir j = [] := by unfold fDir; rw [hs]; rfl
      apply htab (.tblMkdir j.g) (0 + 1) (by omega) (by omega) rfl rfl rfl
      have e1 : fDir { j with stage := 0 + 1 } = [(j.g, .part false)] := rfl
      rw [e1]
      simp only [applyEv]
      rw [htbl, hfd, List.append_nil]
      exact insertT_last _ _ _ hklt
    · obtain ⟨_, rfl⟩ := hm
      have hfd : fDir j = [(j.g, .part false)] := by unfold fDir; rw [hs]; rfl
      apply htab (.tblLoadable j.g []) (1 + 1) (by omega) (by omega) rfl rfl rfl
      have e1 : fDir { j with stage := 1 + 1 } = [(j.g, .complete [])] := rfl
      rw [e1]
      simp only [applyEv]
      rw [htbl, hfd]
      exact hupd _ _
    · obtain ⟨_, rfl⟩ := hm
      have hfd : fDir j = [(j.g, .complete [])] := by unfold fDir; rw [hs]; rfl
      apply htab (.tblMetaCreate j.g) (2 + 1) (by omega) (by omega) rfl rfl rfl
      have e1 : fDir { j with stage := 2 + 1 } = [(j.g, .part false)] := rfl
      rw [e1]
      simp only [applyEv]
      rw [htbl, hfd]
      exact hupd _ _
    · obtain ⟨_, rfl⟩ := hm
      have hfd : fDir j = [(j.g, .part false)] := by unfold fDir; rw [hs]; rfl
      apply htab (.tblProgress j.g) (3 + 1) (by omega) (by omega) rfl rfl rfl
      have e1 : fDir { j with stage := 3 + 1 } = [(j.g, .part false)] := rfl
      rw [e1]
      simp only [applyEv]
      rw [htbl, hfd]
    · obtain ⟨_, rfl⟩ := hm
      have hfd : fDir j = [(j.g, .part false)] := by unfold fDir; rw [hs]; rfl
      apply htab (.tblComplete j.g j.r) (4 + 1) (by omega) (by omega) rfl rfl rfl
      have e1 : fDir { j with stage := 4 + 1 } = [(j.g, .complete j.r)] := rfl
      rw [e1]
      simp only [applyEv]
      rw [htbl, hfd]
      exact hupd _ _
    · -- the WAL file of the store goes
      obtain ⟨_, rfl⟩ := hm
      have hfd : fDir j = [(j.g, .complete j.r)] := by unfold fDir; rw [hs]; rfl
      have hfile : fFile c = [{ num := j.on, recs := j.ro }] := by
        unfold fFile; rw [hfl]; simp only; rw [if_pos (by omega)]
      have hnums := h.nums
      rw [hfile] at hnums
      have hwal := h.wal
      rw [hfile] at hwal
      have hjne : ∀ y ∈ c.junk, y.num ≠ j.on := by
        intro y hy
        rw [List.map_append, List.map_append, List.pairwise_append] at hnums
        have := (List.pairwise_append.1 hnums.1).2.2 y.num (List.mem_map.2 ⟨y, hy, rfl⟩) j.on (by simp)
        omega
      have hcur : j.on < c.cur := by
        rw [List.map_append, List.map_append, List.pairwise_append] at hnums
        exact hnums.2.2 j.on (by simp) c.cur (by simp [curFile])
      have hnne : ∀ y ∈ [curFile c] ++ nextFile c, y.num ≠ j.on := by
        intro y hy
        rcases List.mem_append.1 hy with (hy | hy)
        · simp only [List.mem_singleton] at hy; subst hy; simp [curFile]; omega
        · unfold nextFile at hy
          cases hpc : c.pc <;> rw [hpc] at hy <;> simp at hy <;> (subst hy; simp; omega)
      refine { h with tbl := ?_, wal := ?_, fwf := ?_, nums := ?_ }
      · show c.d.tables = kTables c ++ [(j.g, .complete j.r)]
        rw [htbl, hfd]
      · show eraseW j.on c.d.wal = c.junk ++ [] ++ [curFile c] ++ nextFile c
        rw [hwal, List.append_assoc (c.junk ++ _), eraseW_mid j.on c.junk _ _ hjne hnne rfl]
        simp
      · intro j' hj'
        simp only [Option.some.injEq] at hj'
        subst hj'
        refine ⟨hg, hlt, hro, ?_, hrok⟩
        show 5 + 1 ≤ 6
        omega
      · show ((c.junk ++ [] ++ [curFile c]).map WalFile.num).Pairwise (· < ·)
        refine List.Pairwise.sublist ?_ hnums
        apply List.Sublist.map
        simp
    · cases hm

theorem kMeta_append (ts x : List Tbl) (a n : Nat) (h : a + n ≤ ts.length) : kMeta (ts ++ x) a n = kMeta ts a n := by
  unfold kMeta; rw [kIns_append ts x a n h]

theorem S_fadd (async : Bool) (c c' : Cfg) (e : Option Ev) (h : S c) (hm : move async c .fadd = some (e, c')) :
    S c' := by
  simp only [move] at hm
  split at hm
  · cases hm
  · rename_i _ _ j hfl hnr0
    have hnr : ∀ a b cl jj s J, c.kj ≠ .reflecting a b cl jj s J := fun a b cl jj s J hk => hnr0 a b cl jj s J hk
    obtain ⟨hg, hlt, hro, hst, hrok⟩ := h.fwf j hfl
    have hmain : j.stage = 6 → (∀ a b cl jj s J, c.kj ≠ .reflecting a b cl jj s J) →
        S { c with fl := none, tables := c.tables ++ [{ gen := j.g, cells := j.r }] } := by
      intro hs hnr
      have hfd : fDir j = [(j.g, .complete j.r)] := by unfold fDir; rw [hs]; rfl
      have hff : fFile c = [] := by unfold fFile; rw [hfl]; simp only; rw [if_neg (by omega)]
      have hkT : kTables c = encT c.tables := by
        unfold kTables
        cases hk : c.kj with
        | idle => rfl
        | merging => rfl
        | reflecting a b cl jj s J => exact absurd hk (hnr _ _ _ _ _ _)
      have hk := h.kwf
      unfold KWf at hk
      refine { h with tbl := ?_, comps := ?_, wal := ?_, gensS := ?_, gensLe := ?_, fwf := ?_, nums := ?_, kwf := ?_ }
      · have : kTables { c with fl := none, tables := c.tables ++ [{ gen := j.g, cells := j.r }] } =
            encT (c.tables ++ [{ gen := j.g, cells := j.r }]) := by
          unfold kTables
          cases hkj : c.kj with
          | idle => rfl
          | merging => rfl
          | reflecting a b cl jj s J => exact absurd hkj (hnr _ _ _ _ _ _)
        show c.d.tables = kTables { c with fl := none, tables := c.tables ++ [{ gen := j.g, cells := j.r }] } ++ []
        rw [this, h.tbl, hkT, encT_append, List.append_nil]
        unfold fTables
        rw [hfl]
        show encT c.tables ++ fDir j = _
        rw [hfd]
        rfl
      · rw [h.comps]
        unfold kComps
        cases hkj : c.kj with
        | idle => rfl
        | merging npre nsel cells st =>
          rw [hkj] at hk
          simp only [kMeta_append c.tables _ npre nsel hk.1]
        | reflecting a b cl jj s J => exact absurd hkj (hnr _ _ _ _ _ _)
      · show c.d.wal = c.junk ++ [] ++ [curFile c] ++ nextFile c
        rw [h.wal, hff]
      · rw [List.map_append, List.pairwise_append]
        refine ⟨h.gensS, by simp, ?_⟩
        intro a ha b hb
        obtain ⟨t, ht, rfl⟩ := List.mem_map.1 ha
        simp only [List.map_cons, List.map_nil, List.mem_singleton] at hb
        subst hb
        exact hlt t ht
      · intro t ht
        rcases List.mem_append.1 ht with (ht | ht)
        · exact h.gensLe t ht
        · simp only [List.mem_singleton] at ht; subst ht; show j.g ≤ c.gen; omega
      · intro j' hj'; cases hj'
      · show ((c.junk ++ [] ++ [curFile c]).map WalFile.num).Pairwise (· < ·)
        have := h.nums
        rw [hff] at this
        exact this
      · unfold KWf
        cases hkj : c.kj with
        | idle => trivial
        | merging npre nsel cells st =>
          rw [hkj] at hk
          show npre + nsel ≤ (c.tables ++ _).length ∧ _
          refine ⟨by rw [List.length_append]; omega, hk.2.1, hk.2.2.1, ?_⟩
          rw [kIns_append c.tables _ npre nsel hk.1]; exact hk.2.2.2
        | reflecting a b cl jj s J => exact absurd hkj (hnr _ _ _ _ _ _)
    by_cases hs : j.stage = 6
    · rw [if_pos hs] at hm
      simp only [Option.some.injEq, Prod.mk.injEq] at hm
      obtain ⟨_, rfl⟩ := hm
      exact hmain hs hnr
    · rw [if_neg hs] at hm; cases hm
  · cases hm

/-! ## the compactor -/

theorem S_kstart (async : Bool) (c c' : Cfg) (e : Option Ev) (sizes : List Nat) (th : Int) (o : Opts) (h : S c)
    (hm : move async c (.kstart sizes th o) = some (e, c')) : S c' := by
  simp only [move] at hm
  cases hkj : c.kj with
  | idle =>
    rw [hkj] at hm
    simp only at hm
    split at hm
    · cases hm
    · rename_i g0 rest hsel
      split at hm
      · rename_i hguard
        simp only [Option.some.injEq, Prod.mk.injEq] at hm
        obtain ⟨_, rfl⟩ := hm
        have hkT : kTables c = encT c.tables := by unfold kTables; rw [hkj]
        have hkC : kComps c = [] := by unfold kComps; rw [hkj]
        refine { h with tbl := ?_, comps := ?_, kwf := ?_ }
        · show c.d.tables = encT c.tables ++ fTables c
          rw [h.tbl, hkT]
        · show c.d.comps = []
          rw [h.comps, hkC]
        · unfold KWf
          simp only
          refine ⟨hguard, ?_, by omega, trivial⟩
          rw [hsel]; simp
      · cases hm
  | merging => rw [hkj] at hm; cases hm
  | reflecting => rw [hkj] at hm; cases hm

theorem S_kreflect (async : Bool) (c c' : Cfg) (e : Option Ev) (h : S c)
    (hm : move async c .kreflect = some (e, c')) : S c' := by
  simp only [move] at hm
  split at hm
  · rename_i npre nsel cells hkj hpc
    simp only [Option.some.injEq, Prod.mk.injEq] at hm
    obtain ⟨_, rfl⟩ := hm
    have hk := h.kwf
    unfold KWf at hk
    rw [hkj] at hk
    obtain ⟨h1, h2, _, h4⟩ := hk
    obtain ⟨t0, rest, hins⟩ := kIns_cons h1 h2
    have hkT : kTables c = encT c.tables := by unfold kTables; rw [hkj]
    have hkC : kComps c = [{ id := kId, out := .complete cells, flag := some (kMeta c.tables npre nsel) }] := by
      unfold kComps; rw [hkj]; rfl
    refine { h with tbl := ?_, comps := ?_, kwf := ?_ }
    · show c.d.tables = encT (c.tables.take npre) ++ selDirs (kIns c.tables npre nsel) 0 0 [] ++
        encT (c.tables.drop (npre + nsel)) ++ fTables c
      rw [h.tbl, hkT]
      congr 1
      conv => lhs; rw [split3 c.tables npre nsel]
      rw [encT_append, encT_append, hins]
      rfl
    · show c.d.comps = [{ id := kId, out := .complete cells, flag := some (kMeta c.tables npre nsel) }]
      rw [h.comps, hkC]
    · unfold KWf
      simp only
      exact ⟨h1, h2, h4, by omega, by omega, by intro hx; omega, hpc⟩
  · cases hm

theorem S_kmerge (c : Cfg) (h : S c) (npre nsel : Nat) (cells : Layer) (st : Nat)
    (hkj : c.kj = .merging npre nsel cells st) (e : Ev)
    (he : (mergeCalls (kMeta c.tables npre nsel) cells)[st]? = some e) :
    S { c with d := applyEv c.d e, kj := .merging npre nsel cells (st + 1) } := by
  have hk := h.kwf
  unfold KWf at hk
  rw [hkj] at hk
  obtain ⟨h1, h2, h3, h4⟩ := hk
  have hkT : kTables c = encT c.tables := by unfold kTables; rw [hkj]
  have hcomps := h.comps
  unfold kComps at hcomps
  rw [hkj] at hcomps
  -- what remains to show once the compaction directory is right
  have hfin : ∀ (d' : Disk) (cs : List CompDir), d'.tables = c.d.tables → d'.walDir = c.d.walDir → d'.wal = c.d.wal →
      d'.comps = cs → cs = kComps { c with d := d', kj := .merging npre nsel cells (st + 1) } → st + 1 ≤ 5 →
      S { c with d := d', kj := .merging npre nsel cells (st + 1) } := by
    intro d' cs ht hwd hw hc hcs hst
    refine { h with tbl := ?_, comps := ?_, walDir := ?_, wal := ?_, kwf := ?_ }
    · show d'.tables = encT c.tables ++ fTables c
      rw [ht, h.tbl, hkT]
    · rw [← hcs]; exact hc
    · show d'.walDir = true
      rw [hwd]; exact h.walDir
    · show d'.wal = _
      rw [hw]; exact h.wal
    · unfold KWf
      simp only
      exact ⟨h1, h2, hst, h4⟩
  have hstage : st = 0 ∨ st = 1 ∨ st = 2 ∨ st = 3 ∨ st = 4 ∨ st = 5 := by omega
  unfold mergeCalls at he
  rcases hstage with (rfl | rfl | rfl | rfl | rfl | rfl) <;>
    simp only [List.getElem?_cons_zero, List.getElem?_cons_succ, Option.some.injEq] at he
  · subst he
    simp only at hcomps
    have hd' : applyEv c.d (.compMkdir kId) = { c.d with comps := [{ id := kId }] } := by
      simp only [applyEv, hcomps, List.any_nil, Bool.false_eq_true, if_false, List.nil_append]
    rw [hd']
    exact hfin _ [{ id := kId }] rfl rfl rfl rfl rfl (by omega)
  · subst he
    simp only at hcomps
    exact hfin _ [{ id := kId }] rfl rfl rfl hcomps rfl (by omega)
  · subst he
    simp only at hcomps
    refine hfin _ [{ id := kId, out := .complete cells }] rfl rfl rfl ?_ rfl (by omega)
    simp only [applyEv, hcomps, updC]
    rfl
  · subst he
    simp only at hcomps
    exact hfin _ [{ id := kId, out := .complete cells }] rfl rfl rfl hcomps rfl (by omega)
  · subst he
    simp only at hcomps
    refine hfin _ [{ id := kId, out := .complete cells, flag := some (kMeta c.tables npre nsel) }] rfl rfl rfl ?_ rfl (by omega)
    simp only [applyEv, hcomps, updC]
    rfl
  · cases he

/-! ### reflect: the inputs go, one call at a time -/

theorem upd_mid (A B : List (Nat × TableDir)) (g : Nat) (st : TableDir) (f : TableDir → TableDir)
    (hA : ∀ p ∈ A, p.1 ≠ g) (hB : ∀ p ∈ B, p.1 ≠ g) : updT g f (A ++ (g, st) :: B) = A ++ (g, f st) :: B := by
  rw [updT_append, updT_id_of_absent _ _ _ hA]
  have : updT g f ((g, st) :: B) = (g, f st) :: updT g f B := by simp [updT]
  rw [this, updT_id_of_absent _ _ _ hB]

theorem erase_mid (A B : List (Nat × TableDir)) (g : Nat) (st : TableDir)
    (hA : ∀ p ∈ A, p.1 ≠ g) (hB : ∀ p ∈ B, p.1 ≠ g) : eraseT g (A ++ (g, st) :: B) = A ++ B := by
  rw [eraseT_append, eraseT_id_of_absent _ _ hA]
  have : eraseT g ((g, st) :: B) = eraseT g B := by simp [eraseT]
  rw [this, eraseT_id_of_absent _ _ hB]

theorem selDirs_zero (ins : List Tbl) (j : Nat) (J : Layer) : selDirs ins j 0 J = encT (ins.drop j) := by
  unfold selDirs
  cases ins.drop j with
  | nil => rfl
  | cons t rest => rfl

theorem selDirs_cons (ins : List Tbl) (j sub : Nat) (J : Layer) (t : Tbl) (ht : ins[j]? = some t) :
    selDirs ins j sub J = (t.gen, selState sub J t) :: encT (ins.drop (j + 1)) := by
  unfold selDirs
  have hlt : j < ins.length := by
    rcases Nat.lt_or_ge j ins.length with (h | h)
    · exact h
    · rw [List.getElem?_eq_none h] at ht; cases ht
  have hd : ins.drop j = t :: ins.drop (j + 1) := by
    rw [List.drop_eq_getElem_cons hlt]
    congr 1
    rw [List.getElem?_eq_getElem hlt] at ht
    exact Option.some.inj ht
  rw [hd]

/-- the gens around the input that is being removed -/
theorem around_input {c : Cfg} (h : S c) (npre nsel j : Nat) (t : Tbl) (h1 : npre + nsel ≤ c.tables.length)
    (ht : (kIns c.tables npre nsel)[j]? = some t) :
    (∀ p ∈ encT (c.tables.take npre), p.1 < t.gen) ∧
    (∀ p ∈ encT ((kIns c.tables npre nsel).drop (j + 1)) ++ encT (c.tables.drop (npre + nsel)) ++ fTables c, t.gen < p.1) := by
  have hlt : j < (kIns c.tables npre nsel).length := by
    rcases Nat.lt_or_ge j (kIns c.tables npre nsel).length with (hh | hh)
    · exact hh
    · rw [List.getElem?_eq_none hh] at ht; cases ht
  have hd : (kIns c.tables npre nsel).drop j = t :: (kIns c.tables npre nsel).drop (j + 1) := by
    rw [List.drop_eq_getElem_cons hlt]
    congr 1
    rw [List.getElem?_eq_getElem hlt] at ht
    exact Option.some.inj ht
  have hins : kIns c.tables npre nsel = (kIns c.tables npre nsel).take j ++ t :: (kIns c.tables npre nsel).drop (j + 1) := by
    conv => lhs; rw [← List.take_append_drop j (kIns c.tables npre nsel), hd]
  have hs := h.gensS
  rw [split3 c.tables npre nsel, hins] at hs
  simp only [List.map_append, List.map_cons, List.append_assoc] at hs
  rw [List.pairwise_append] at hs
  obtain ⟨_, hs2, hs3⟩ := hs
  rw [List.pairwise_append] at hs2
  obtain ⟨_, hs4, _⟩ := hs2
  rw [List.cons_append, List.pairwise_cons] at hs4
  have htin : t ∈ c.tables := by
    rw [split3 c.tables npre nsel, hins]
    simp
  refine ⟨?_, ?_⟩
  · intro p hp
    obtain ⟨x, hx, rfl⟩ := List.mem_map.1 hp
    exact hs3 x.gen (List.mem_map.2 ⟨x, hx, rfl⟩) t.gen (by simp)
  · intro p hp
    rcases List.mem_append.1 hp with (hp | hp)
    · rcases List.mem_append.1 hp with (hp | hp)
      · obtain ⟨x, hx, rfl⟩ := List.mem_map.1 hp
        exact hs4.1 x.gen (List.mem_append_left _ (List.mem_map.2 ⟨x, hx, rfl⟩))
      · obtain ⟨x, hx, rfl⟩ := List.mem_map.1 hp
        exact hs4.1 x.gen (List.mem_append_right _ (List.mem_map.2 ⟨x, hx, rfl⟩))
    · exact fTables_gt c h p hp t htin

theorem refl_tables {c : Cfg} (h : S c) (npre nsel : Nat) (cells : Layer) (j sub : Nat) (J : Layer)
    (hkj : c.kj = .reflecting npre nsel cells j sub J) (t : Tbl) (ht : (kIns c.tables npre nsel)[j]? = some t) :
    c.d.tables = encT (c.tables.take npre) ++ (t.gen, selState sub J t) ::
      (encT ((kIns c.tables npre nsel).drop (j + 1)) ++ encT (c.tables.drop (npre + nsel)) ++ fTables c) := by
  rw [h.tbl]
  unfold kTables
  rw [hkj]
  simp only
  rw [selDirs_cons _ j sub J t ht]
  simp only [List.append_assoc, List.cons_append]

theorem S_kinput_upd (c : Cfg) (h : S c) (npre nsel : Nat) (cells : Layer) (j sub : Nat) (J : Layer)
    (hkj : c.kj = .reflecting npre nsel cells j sub J) (t : Tbl) (ht : (kIns c.tables npre nsel)[j]? = some t)
    (f : TableDir → TableDir) (sub' : Nat) (J' : Layer) (hf : f (selState sub J t) = selState sub' J' t)
    (hs' : sub' ≤ 3) :
    S { c with d := { c.d with tables := updT t.gen f c.d.tables }, kj := .reflecting npre nsel cells j sub' J' } := by
  have hk := h.kwf
  unfold KWf at hk
  rw [hkj] at hk
  obtain ⟨h1, h2, h3, h4, h5, h6, h7⟩ := hk
  obtain ⟨ha, hb⟩ := around_input h npre nsel j t h1 ht
  have hjlt : j < nsel := by
    have := kIns_length c.tables npre nsel h1
    rcases Nat.lt_or_ge j (kIns c.tables npre nsel).length with (hh | hh)
    · omega
    · rw [List.getElem?_eq_none hh] at ht; cases ht
  have hcomps := h.comps
  unfold kComps at hcomps
  rw [hkj] at hcomps
  refine { h with tbl := ?_, comps := ?_, kwf := ?_ }
  · show updT t.gen f c.d.tables = encT (c.tables.take npre) ++ selDirs (kIns c.tables npre nsel) j sub' J' ++
      encT (c.tables.drop (npre + nsel)) ++ fTables c
    rw [refl_tables h npre nsel cells j sub J hkj t ht, selDirs_cons _ j sub' J' t ht,
      upd_mid _ _ _ _ _ (fun p hp => by have := ha p hp; omega) (fun p hp => by have := hb p hp; omega), hf]
    simp only [List.append_assoc, List.cons_append]
  · exact hcomps
  · unfold KWf
    simp only
    exact ⟨h1, h2, h3, h4, hs', by intro hx; omega, h7⟩

theorem S_kinput_rm (c : Cfg) (h : S c) (npre nsel : Nat) (cells : Layer) (j sub : Nat) (J : Layer)
    (hkj : c.kj = .reflecting npre nsel cells j sub J) (t : Tbl) (ht : (kIns c.tables npre nsel)[j]? = some t) :
    S { c with d := { c.d with tables := eraseT t.gen c.d.tables }, kj := .reflecting npre nsel cells (j + 1) 0 J } := by
  have hk := h.kwf
  unfold KWf at hk
  rw [hkj] at hk
  obtain ⟨h1, h2, h3, h4, h5, h6, h7⟩ := hk
  obtain ⟨ha, hb⟩ := around_input h npre nsel j t h1 ht
  have hjlt : j < nsel := by
    have := kIns_length c.tables npre nsel h1
    rcases Nat.lt_or_ge j (kIns c.tables npre nsel).length with (hh | hh)
    · omega
    · rw [List.getElem?_eq_none hh] at ht; cases ht
  have hcomps := h.comps
  unfold kComps at hcomps
  rw [hkj] at hcomps
  refine { h with tbl := ?_, comps := ?_, kwf := ?_ }
  · show eraseT t.gen c.d.tables = encT (c.tables.take npre) ++ selDirs (kIns c.tables npre nsel) (j + 1) 0 J ++
      encT (c.tables.drop (npre + nsel)) ++ fTables c
    rw [refl_tables h npre nsel cells j sub J hkj t ht, selDirs_zero,
      erase_mid _ _ _ _ (fun p hp => by have := ha p hp; omega) (fun p hp => by have := hb p hp; omega)]
    simp only [List.append_assoc]
  · exact hcomps
  · unfold KWf
    simp only
    exact ⟨h1, h2, h3, by omega, by omega, fun _ => trivial, h7⟩

theorem S_krename (c : Cfg) (h : S c) (npre nsel : Nat) (cells : Layer) (j sub : Nat) (J : Layer)
    (hkj : c.kj = .reflecting npre nsel cells j sub J) (hnone : (kIns c.tables npre nsel)[j]? = none) :
    S { c with d := applyEv c.d (.compRename kId (kMeta c.tables npre nsel).replacement), kj := .idle,
               tables := c.tables.take npre ++ [{ gen := (kMeta c.tables npre nsel).replacement, cells := cells }] ++
                 c.tables.drop (npre + nsel) } := by
  have hk := h.kwf
  unfold KWf at hk
  rw [hkj] at hk
  obtain ⟨h1, h2, h3, h4, h5, h6, h7⟩ := hk
  have hlen := kIns_length c.tables npre nsel h1
  have hj : j = nsel := by
    have := List.getElem?_eq_none_iff.1 hnone
    omega
  obtain ⟨t0, rest, hins⟩ := kIns_cons h1 h2
  have hrep : (kMeta c.tables npre nsel).replacement = t0.gen := by unfold kMeta; rw [hins]
  have h0 : (kIns c.tables npre nsel)[0]? = some t0 := by rw [hins]; rfl
  obtain ⟨ha, hb⟩ := around_input h npre nsel 0 t0 h1 h0
  have hsel : selDirs (kIns c.tables npre nsel) j sub J = [] := by
    unfold selDirs
    rw [List.drop_of_length_le (by omega)]
  have htab : c.d.tables = encT (c.tables.take npre) ++ (encT (c.tables.drop (npre + nsel)) ++ fTables c) := by
    rw [h.tbl]; unfold kTables; rw [hkj]; simp only; rw [hsel]; simp
  have hcomps := h.comps
  unfold kComps at hcomps
  rw [hkj] at hcomps
  simp only at hcomps
  have hpost : ∀ p ∈ encT (c.tables.drop (npre + nsel)) ++ fTables c, t0.gen < p.1 := by
    intro p hp
    apply hb
    rcases List.mem_append.1 hp with (hp | hp)
    · exact List.mem_append_left _ (List.mem_append_right _ hp)
    · exact List.mem_append_right _ hp
  have hl : lookupT t0.gen c.d.tables = none := by
    rw [lookupT_none, htab]
    intro p hp
    rcases List.mem_append.1 hp with (hp | hp)
    · have := ha p hp; omega
    · have := hpost p hp; omega
  have hd' : applyEv c.d (.compRename kId (kMeta c.tables npre nsel).replacement) =
      { c.d with comps := [], tables := encT (c.tables.take npre) ++ (t0.gen, .complete cells) ::
          (encT (c.tables.drop (npre + nsel)) ++ fTables c) } := by
    rw [hrep]
    simp only [applyEv, hcomps, List.find?_cons, beq_self_eq_true, hl, Option.isSome_none, Bool.false_eq_true, if_false]
    rw [htab, insertT_mid _ _ _ _ ha hpost]
    simp [eraseC]
  rw [hd', hrep]
  -- the new reader list keeps its order
  have hsub : ((c.tables.take npre ++ [({ gen := t0.gen, cells := cells } : Tbl)] ++ c.tables.drop (npre + nsel)).map (·.gen)).Sublist
      (c.tables.map (·.gen)) := by
    conv => rhs; rw [split3 c.tables npre nsel, hins]
    simp only [List.map_append, List.map_cons, List.map_nil]
    refine List.Sublist.append (List.Sublist.append (List.Sublist.refl _) ?_) (List.Sublist.refl _)
    exact List.Sublist.cons_cons _ (List.nil_sublist _)
  have hmem : ∀ x ∈ c.tables.take npre ++ [({ gen := t0.gen, cells := cells } : Tbl)] ++ c.tables.drop (npre + nsel),
      x.gen ∈ c.tables.map (·.gen) := fun x hx => hsub.subset (List.mem_map.2 ⟨x, hx, rfl⟩)
  refine { h with tbl := ?_, comps := ?_, gensS := ?_, gensLe := ?_, fwf := ?_, kwf := ?_ }
  · show encT (c.tables.take npre) ++ (t0.gen, .complete cells) :: (encT (c.tables.drop (npre + nsel)) ++ fTables c) =
      encT (c.tables.take npre ++ [{ gen := t0.gen, cells := cells }] ++ c.tables.drop (npre + nsel)) ++ fTables c
    rw [encT_append, encT_append]
    simp [encT]
  · rfl
  · exact List.Pairwise.sublist hsub h.gensS
  · intro x hx
    obtain ⟨y, hy, he⟩ := List.mem_map.1 (hmem x hx)
    rw [← he]; exact h.gensLe y hy
  · intro jf hjf
    obtain ⟨g1, g2, g3⟩ := h.fwf jf hjf
    refine ⟨g1, ?_, g3⟩
    intro x hx
    obtain ⟨y, hy, he⟩ := List.mem_map.1 (hmem x hx)
    rw [← he]; exact g2 y hy
  · trivial

theorem S_kstep (async : Bool) (c c' : Cfg) (e : Option Ev) (jk : Option Layer) (h : S c)
    (hm : move async c (.kstep jk) = some (e, c')) : S c' := by
  simp only [move] at hm
  cases hkj : c.kj with
  | idle => rw [hkj] at hm; cases hm
  | merging npre nsel cells st =>
    rw [hkj] at hm
    simp only at hm
    cases he : (mergeCalls (kMeta c.tables npre nsel) cells)[st]? with
    | none => rw [he] at hm; cases hm
    | some ev =>
      rw [he] at hm
      simp only [Option.some.injEq, Prod.mk.injEq] at hm
      obtain ⟨_, rfl⟩ := hm
      exact S_kmerge c h npre nsel cells st hkj ev he
  | reflecting npre nsel cells j sub J =>
    rw [hkj] at hm
    simp only at hm
    have hk := h.kwf
    unfold KWf at hk
    rw [hkj] at hk
    have hsub3 : sub = 0 ∨ sub = 1 ∨ sub = 2 ∨ sub = 3 := by have := hk.2.2.2.2.1; omega
    cases hget : (kIns c.tables npre nsel)[j]? with
    | none =>
      rw [hget] at hm
      simp only [Option.some.injEq, Prod.mk.injEq] at hm
      obtain ⟨_, rfl⟩ := hm
      exact S_krename c h npre nsel cells j sub J hkj hget
    | some t =>
      rw [hget] at hm
      simp only at hm
      rcases hsub3 with (rfl | rfl | rfl | rfl)
      · cases jk with
        | some J' =>
          simp only [Option.some.injEq, Prod.mk.injEq] at hm
          obtain ⟨_, rfl⟩ := hm
          exact S_kinput_upd c h npre nsel cells j 0 J hkj t hget (fun _ => .complete J') 1 J' rfl (by omega)
        | none =>
          simp only [Option.some.injEq, Prod.mk.injEq] at hm
          obtain ⟨_, rfl⟩ := hm
          exact S_kinput_upd c h npre nsel cells j 0 J hkj t hget (TableDir.unlink true) 2 J rfl (by omega)
      · simp only [Option.some.injEq, Prod.mk.injEq] at hm
        obtain ⟨_, rfl⟩ := hm
        exact S_kinput_upd c h npre nsel cells j 1 J hkj t hget (TableDir.unlink true) 2 J rfl (by omega)
      · simp only [Option.some.injEq, Prod.mk.injEq] at hm
        obtain ⟨_, rfl⟩ := hm
        exact S_kinput_upd c h npre nsel cells j 2 J hkj t hget (TableDir.unlink false) 3 J rfl (by omega)
      · simp only [Option.some.injEq, Prod.mk.injEq] at hm
        obtain ⟨_, rfl⟩ := hm
        exact S_kinput_rm c h npre nsel cells j 3 J hkj t hget

/-- EVERY enabled move of EVERY thread preserves the invariant -/
theorem S_move (async : Bool) (c c' : Cfg) (e : Option Ev) (mv : Mv) (h : S c)
    (hm : move async c mv = some (e, c')) : S c' := by
  cases mv with
  | begin => exact S_begin async c c' e h hm
  | torn => exact S_torn async c c' e h hm
  | append => exact S_append async c c' e h hm
  | done => exact S_done async c c' e h hm
  | close => exact S_close async c c' e h hm
  | create => exact S_create async c c' e h hm
  | header => exact S_header async c c' e h hm
  | handoff => exact S_handoff async c c' e h hm
  | fstep => exact S_fstep async c c' e h hm
  | fadd => exact S_fadd async c c' e h hm
  | kstart sizes th o => exact S_kstart async c c' e sizes th o h hm
  | kstep jk => exact S_kstep async c c' e jk h hm
  | kreflect => exact S_kreflect async c c' e h hm

theorem S_run (async : Bool) (sched : List Mv) : ∀ c, S c → S (FSI.run async c sched) := by
  induction sched with
  | nil => intro c h; exact h
  | cons mv rest ih =>
    intro c h
    simp only [FSI.run]
    cases hm : move async c mv with
    | none => exact ih c h
    | some r =>
      obtain ⟨e, c'⟩ := r
      exact ih c' (S_move async c c' e mv h hm)

end SST.Proofs.FSI
