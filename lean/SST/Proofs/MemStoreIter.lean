/-
Iterator, Size and the two flush variants of the memstore model, in terms of the reference map; plus the
map law of the reference (`get` after `put`) that justifies calling it "the reference map".
-/
import SST.Proofs.MemStoreSim
namespace SST.Proofs.MemP
open SST SST.Mem SkipList

/-- heights drawn by `randomHeight` are at least 1 -/
def HeightsOk (prog : List (Op × Nat)) : Prop := ∀ x ∈ prog, 1 ≤ x.2

/-- the model state after a program on a new memstore -/
def finalM (prog : List (Op × Nat)) : MemStore := (run MemStore.empty prog).2

/-- the reference map after the same calls -/
def finalR (prog : List (Op × Nat)) : RefMap := (refRun [] (prog.map (·.1))).2

theorem final_sim (prog : List (Op × Nat)) (hh : HeightsOk prog) :
    (run MemStore.empty prog).1 = (refRun [] (prog.map (·.1))).1 ∧ WF (finalM prog) ∧
      view (finalM prog) = finalR prog := by
  have := run_sim prog MemStore.empty wf_empty hh
  rw [view_empty] at this
  exact this

/-! ### the reference is a map -/

theorem ref_get_put (k k' : Bytes) (c : Cell) : ∀ r : RefMap,
    RefMap.get k' (RefMap.put k c r) = if k' = k then some c else RefMap.get k' r
  | [] => by simp [RefMap.put, RefMap.get]
  | (k0, c0) :: rest => by
    simp only [RefMap.put]
    cases hc : bytesCmp k k0 with
    | lt => simp only [RefMap.get]
    | eq =>
      have : k = k0 := (bytesCmp_eq_iff _ _).1 hc
      subst this
      simp only [RefMap.get]
      by_cases h : k' = k <;> simp [h]
    | gt =>
      have hne : k ≠ k0 := by intro e; subst e; rw [bytesCmp_refl] at hc; cases hc
      simp only [RefMap.get, ref_get_put k k' c rest]
      by_cases h1 : k' = k0
      · subst h1
        have : k' ≠ k := fun e => hne e.symm
        simp [this]
      · simp [h1]

theorem refStep_no_panic (r : RefMap) (op : Op) : (refStep r op).1 ≠ .panic := by
  cases op <;> simp only [refStep] <;> (repeat' split) <;> simp

theorem refRun_no_panic : ∀ (ops : List Op) (r : RefMap), Res.panic ∉ (refRun r ops).1
  | [], _ => by simp [refRun]
  | op :: rest, r => by
    simp only [refRun, List.mem_cons, not_or]
    exact ⟨fun h => refStep_no_panic r op h.symm, refRun_no_panic rest _⟩

/-! ### iterator -/

theorem derefAll_valid (heap : List GoBytes) : ∀ l : List (GoBytes × Nat), (∀ e ∈ l, e.2 < heap.length) →
    derefAll heap l = some (l.map fun e => (e.1, (heap[e.2]?).getD none))
  | [], _ => rfl
  | (k, p) :: rest, h => by
    have hp : p < heap.length := h (k, p) List.mem_cons_self
    have ih := derefAll_valid heap rest fun e he => h e (List.mem_cons_of_mem _ he)
    simp only [derefAll, List.getElem?_eq_getElem hp, ih, List.map_cons, Option.getD_some]

/-- the drained `SStableIterator` of a well-formed state: the reference entries, strictly ascending -/
theorem iter_spec {m : MemStore} (hw : WF m) :
    ∃ l, iter m = some l ∧ l.map (fun e => (e.1.getD [], e.2)) = (view m).entries ∧ StrictAsc goCmp l := by
  have hit : iter m = derefAll m.heap (kv m) := rfl
  refine ⟨(kv m).map fun e => (e.1, (m.heap[e.2]?).getD none),
    hit.trans (derefAll_valid m.heap (kv m) hw.valid), ?_, ?_⟩
  · simp only [RefMap.entries, view, viewL, List.map_map]
    apply List.map_congr_left
    intro e _
    simp [cellAt, toGo_cellOf]
  · unfold StrictAsc
    rw [List.pairwise_map]
    exact kv_sorted hw

/-! ### size -/

theorem length_eq_live_add_tomb : ∀ r : RefMap, r.length = RefMap.liveCount r + RefMap.tombCount r
  | [] => rfl
  | (k, c) :: rest => by
    have ih := length_eq_live_add_tomb rest
    unfold RefMap.liveCount RefMap.tombCount at *
    cases c <;> simp <;> omega

/-! ### flush -/

/-- against the order-checking writer a strictly ascending call sequence is accepted call by call -/
theorem flushLoop_accepts (incl : Bool) : ∀ (l w : List (GoBytes × GoBytes)),
    StrictAsc goCmp l → (∀ a ∈ w, ∀ b ∈ l, goCmp a.1 b.1 = .lt) →
    flushLoop orderCheckingWriter incl w l
      = .ok ((l.filter fun e => incl || e.2.isSome).reverse ++ w)
  | [], w, _, _ => by simp [flushLoop]
  | (k, v) :: rest, w, hs, hw => by
    have hs' := List.pairwise_cons.1 hs
    have hacc : orderCheckingWriter w k v = .ok ((k, v) :: w) := by
      cases w with
      | nil => rfl
      | cons a w' =>
        have := hw a List.mem_cons_self (k, v) List.mem_cons_self
        simp only [orderCheckingWriter, this]
    have hnext : ∀ a ∈ (k, v) :: w, ∀ b ∈ rest, goCmp a.1 b.1 = .lt := by
      intro a ha b hb
      rcases List.mem_cons.1 ha with rfl | ha
      · exact hs'.1 b hb
      · exact hw a ha b (List.mem_cons_of_mem _ hb)
    have hskip : ∀ a ∈ w, ∀ b ∈ rest, goCmp a.1 b.1 = .lt :=
      fun a ha b hb => hw a ha b (List.mem_cons_of_mem _ hb)
    cases incl with
    | true =>
      simp only [flushLoop, if_true, hacc, flushLoop_accepts true rest _ hs'.2 hnext]
      simp
    | false =>
      cases v with
      | some vb =>
        simp only [flushLoop, Option.isSome_some, if_true, hacc,
          flushLoop_accepts false rest _ hs'.2 hnext]
        simp
      | none =>
        simp only [flushLoop, Option.isSome_none, flushLoop_accepts false rest _ hs'.2 hskip]
        simp

/-- both flush variants of a well-formed state -/
theorem flush_spec {m : MemStore} (hw : WF m) (incl : Bool) :
    ∃ calls, flushCalls m incl = some calls ∧ flush m incl = some (.ok calls) ∧
      calls.map (fun e => (e.1.getD [], e.2)) = ((view m).entries.filter fun e => incl || e.2.isSome) ∧
      StrictAsc goCmp calls := by
  obtain ⟨l, hl, hmap, hasc⟩ := iter_spec hw
  refine ⟨l.filter fun e => incl || e.2.isSome, ?_, ?_, ?_, ?_⟩
  · simp only [flushCalls, hl]
  · simp only [flush, hl, flushLoop_accepts incl l [] hasc (fun _ h => nomatch h)]
    simp
  · rw [← hmap, List.filter_map]
    rfl
  · exact List.Pairwise.sublist List.filter_sublist hasc

end SST.Proofs.MemP
