/-
The disk index loader (EXPERIMENTAL in the library), part 1: its iterator — hence the full `Scan` and
verification on load — is correct whenever no index record embeds the bytes of a complete valid record
(`NoPhantom`).  Part 2 (point lookups, ScanStartingAt, ScanRange, the offset cache) is
SST/Proofs/SSTableDiskLookup.lean; the phantom counterexample is in SST/Props/C03.lean.
-/
import SST.Proofs.SSTableReader
import SST.Proofs.RecordIOSeek
namespace SST.Proofs.Sst
open SST Generated SST.Proofs

theorem offsetOf_le_file (c : Compression) (ct : Nat) (rs : List GoBytes) (k : Nat) :
    offsetOf c rs k ≤ (fileHeader currentVersion ct ++ encAll c rs).length := by
  have := encAll_take_le c rs k
  simp only [offsetOf, List.length_append, fileHeader_length, fileHeaderSize]; omega

/-- the disk iterator started at (or shortly before) record `k` yields the entries from `k` on -/
theorem diskIter_spec (c : Compression) (ct : Nat) (es : List (Bytes × IndexVal))
    (hl : LawfulC c) (hf : ∀ r ∈ es.map indexRecOf, FitsRec c r)
    (hfit : ∀ e ∈ es, e.1.length < 2 ^ 64 ∧ e.2.off < 2 ^ 64 ∧ e.2.sum < 2 ^ 64)
    (hnp : NoPhantom c ct (es.map indexRecOf)) :
    ∀ (m k cur fuel : Nat), k + m = es.length → m < fuel →
      (∀ j, j < k → offsetOf c (es.map indexRecOf) j < cur) →
      (k < es.length → cur ≤ offsetOf c (es.map indexRecOf) k) →
      cur ≤ (fileHeader currentVersion ct ++ encAll c (es.map indexRecOf)).length →
      diskIter c (fileHeader currentVersion ct ++ encAll c (es.map indexRecOf)) fuel cur
        (fileHeader currentVersion ct ++ encAll c (es.map indexRecOf)).length =
        ((es.drop k).map fun e => (normKey e.1, e.2), .done) := by
  intro m
  induction m with
  | zero =>
    intro k cur fuel hk hfu hlt _ hcur
    cases fuel with
    | zero => omega
    | succ f =>
      have hkl : k = es.length := by omega
      have h := seekNext_first_record c ct (es.map indexRecOf) hl hf hnp cur hcur
      simp only [diskIter, if_neg (Nat.not_lt.mpr hcur)]
      cases hr : seekNext c (fileHeader currentVersion ct ++ encAll c (es.map indexRecOf)) cur with
      | error e =>
        rw [hr] at h
        obtain ⟨he, _⟩ := h
        subst he
        simp [hkl]
      | ok pr =>
        obtain ⟨p, r⟩ := pr
        rw [hr] at h
        obtain ⟨k', hk', hp, _, hle, _⟩ := h
        exfalso
        have := hlt k' (by simp only [List.length_map] at hk'; omega)
        omega
  | succ m ih =>
    intro k cur fuel hk hfu hlt hle hcur
    cases fuel with
    | zero => omega
    | succ f =>
      have hkl : k < es.length := by omega
      have hkl' : k < (es.map indexRecOf).length := by simpa using hkl
      have h := seekNext_first_record c ct (es.map indexRecOf) hl hf hnp cur hcur
      simp only [diskIter, if_neg (Nat.not_lt.mpr hcur)]
      cases hr : seekNext c (fileHeader currentVersion ct ++ encAll c (es.map indexRecOf)) cur with
      | error e =>
        rw [hr] at h
        obtain ⟨_, hall⟩ := h
        exfalso
        have := hall k hkl'
        have := hle hkl
        omega
      | ok pr =>
        obtain ⟨p, r⟩ := pr
        rw [hr] at h
        obtain ⟨k', hk', hp, hrr, hcp, hbefore⟩ := h
        have hkk : k' = k := by
          rcases Nat.lt_trichotomy k' k with h1 | h1 | h1
          · have := hlt k' h1; omega
          · exact h1
          · have := hbefore k h1
            have := hle hkl
            omega
        subst hkk
        have hrk : r = indexRecOf es[k'] := by rw [hrr]; simp
        obtain ⟨f1, f2, f3⟩ := hfit es[k'] (List.getElem_mem hkl)
        have hdec := Pb.decIndexEntry_enc es[k'].1 es[k'].2.off es[k'].2.sum f1 f2 f3
        have hsucc := offsetOf_succ c (es.map indexRecOf) k' hkl'
        have hpos := encRecord_pos c (es.map indexRecOf)[k']
        have hnext := ih (k' + 1) (p + 1) f (by omega) (by omega)
          (by
            intro j hj
            rcases Nat.lt_or_ge j k' with h1 | h1
            · have := offsetOf_lt c (es.map indexRecOf) j k' h1 (by omega); omega
            · have : j = k' := by omega
              subst this; omega)
          (by intro _; omega)
          (by
            have := offsetOf_le_file c ct (es.map indexRecOf) (k' + 1)
            omega)
        simp only [hrk, indexRecOf, Option.getD_some, hdec]
        rw [hnext]
        have hd : es.drop k' = es[k'] :: es.drop (k' + 1) := by
          rw [List.drop_eq_getElem_cons hkl]
        rw [hd]
        simp only [List.map_cons, IndexEntry.toI]

theorem loadIndex_disk_of (comps : Nat → Compression) (f : Bytes) (c : Compression)
    (h : openMmap comps f = .ok c) :
    loadIndex comps .disk f = .ok (.disk { file := f, c := c, cache := [] }) := by
  unfold loadIndex; rw [h]

/-- the disk index opens on a freshly written table and its full iterator is the loaded entries in order -/
theorem disk_all (comps : Nat → Compression) (cfg : SstCfg) (kvs : List KV)
    (hc : CompsOk comps cfg) (hf : FitsKV cfg kvs)
    (hnp : NoPhantom cfg.ic cfg.ict ((entriesOf cfg.dc kvs).map indexRecOf)) :
    ∃ idx, loadIndex comps .disk (indexFileOf cfg kvs) = .ok idx ∧ idx.all = (loadedEntries cfg kvs, .done) := by
  obtain ⟨_, hci, _, hli, _, hict⟩ := hc
  obtain ⟨h1, h2, _⟩ := hf
  have hopen : openMmap comps (indexFileOf cfg kvs) = .ok cfg.ic := by
    have := openMmap_file comps cfg.ict (encAll cfg.ic ((entriesOf cfg.dc kvs).map indexRecOf)) hict
    rw [hci] at this; exact this
  refine ⟨_, loadIndex_disk_of comps _ _ hopen, ?_⟩
  have hfit : ∀ e ∈ entriesOf cfg.dc kvs, e.1.length < 2 ^ 64 ∧ e.2.off < 2 ^ 64 ∧ e.2.sum < 2 ^ 64 := by
    intro e he
    have hk : e.1 ∈ kvs.map (·.1) := by
      rw [← entriesFrom_keys cfg.dc kvs fileHeaderSize]
      exact List.mem_map_of_mem he
    obtain ⟨p, hp, hpe⟩ := List.mem_map.mp hk
    exact ⟨hpe ▸ (h1 p hp).2, (h2 e he).1, entriesFrom_sum _ _ _ e he⟩
  have hfr : ∀ r ∈ (entriesOf cfg.dc kvs).map indexRecOf, FitsRec cfg.ic r := by
    intro r hr
    obtain ⟨e, he, rfl⟩ := List.mem_map.mp hr
    exact (h2 e he).2
  have hlen := length_le_encAll cfg.ic ((entriesOf cfg.dc kvs).map indexRecOf)
  have hspec := diskIter_spec cfg.ic cfg.ict (entriesOf cfg.dc kvs) hli hfr hfit hnp
    (entriesOf cfg.dc kvs).length 0 fileHeaderSize
    ((fileHeader currentVersion cfg.ict ++ encAll cfg.ic ((entriesOf cfg.dc kvs).map indexRecOf)).length + 2)
    (by omega)
    (by simp only [List.length_append, List.length_map] at hlen ⊢; omega)
    (by intro j hj; omega)
    (by intro _; simp [offsetOf])
    (by simp [fileHeader_length, fileHeaderSize])
  show diskIter cfg.ic (indexFileOf cfg kvs) ((indexFileOf cfg kvs).length + 2) fileHeaderSize
      (indexFileOf cfg kvs).length = _
  unfold indexFileOf
  rw [hspec, loadedEntries_eq]
  simp

/-- `Scan` through the disk loader on a table without phantoms in its index file -/
theorem disk_scan (comps : Nat → Compression) (cfg : SstCfg) (kvs : List KV)
    (hcmp : cfg.cmp = bytesCmp) (hc : CompsOk comps cfg) (hf : FitsKV cfg kvs) (hs : StrictAsc bytesCmp kvs)
    (hnp : NoPhantom cfg.ic cfg.ict ((entriesOf cfg.dc kvs).map indexRecOf))
    (o : ReadOpts) (bloom : Option (Bytes → Bool)) :
    ∃ r idx, openTable comps .disk o (writeTable cfg kvs) bloom = .ok (r, idx) ∧
      r.scan comps idx = .ok (kvs.map normKV, .done) := by
  obtain ⟨idx, hload, hall⟩ := disk_all comps cfg kvs hc hf hnp
  refine ⟨readerOf cfg kvs o bloom, idx, ?_, ?_⟩
  · rw [writeTable_eq cfg kvs (by rw [hcmp]; exact hs)]
    exact openTable_ok comps cfg kvs hc hf .disk o bloom idx hload hall
  · obtain ⟨hcd, _, hld, _, hdct, _⟩ := hc
    unfold Reader.scan
    rw [hall]
    have hopen : openSeq comps (readerOf cfg kvs o bloom).data = .ok (cfg.dc, encAll cfg.dc (kvs.map (·.2))) := by
      have := openSeq_file comps cfg.dct (encAll cfg.dc (kvs.map (·.2))) hdct
      rw [hcd] at this; exact this
    rw [fullScan_of comps _ _ _ _ hopen]
    have := fullScanS_trip cfg.dc hld (readerOf cfg kvs o bloom).skipHashOnRead kvs fileHeaderSize
      (fun p hp => (hf.1 p hp).1)
    show Except.ok (fullScanS cfg.dc _ ((tripFrom cfg.dc fileHeaderSize kvs).map Trip.ie) .done _) = _
    rw [this]

end SST.Proofs.Sst
