/-
L7 helper lemmas: the element-wise list relation, association lists with distinct keys (a layer and a sorted
table that answer every lookup alike are permutations of one another), `eraseDups`.
-/
import SST.Spec.Stack
import SST.Proofs.DBLayers
import SST.Proofs.MergeSpec
namespace SST.Proofs.Stack
open SST SST.Stack SST.DBM

/-! ## `Rel2` -/

section rel2
variable {α β γ : Type} {R : α → β → Prop}

theorem _root_.SST.Stack.Rel2.length_eq {xs : List α} {ys : List β} (h : Rel2 R xs ys) : xs.length = ys.length := by
  induction h with
  | nil => rfl
  | cons _ _ ih => simp [ih]

theorem _root_.SST.Stack.Rel2.append {xs xs' : List α} {ys ys' : List β} (h : Rel2 R xs ys) (h' : Rel2 R xs' ys') :
    Rel2 R (xs ++ xs') (ys ++ ys') := by
  induction h with
  | nil => exact h'
  | cons hab _ ih => exact Rel2.cons hab ih

theorem _root_.SST.Stack.Rel2.reverse {xs : List α} {ys : List β} (h : Rel2 R xs ys) : Rel2 R xs.reverse ys.reverse := by
  induction h with
  | nil => exact Rel2.nil
  | cons hab _ ih =>
    rw [List.reverse_cons, List.reverse_cons]
    exact ih.append (Rel2.cons hab Rel2.nil)

theorem _root_.SST.Stack.Rel2.imp {S : α → β → Prop} (hi : ∀ a b, R a b → S a b) {xs : List α} {ys : List β}
    (h : Rel2 R xs ys) : Rel2 S xs ys := by
  induction h with
  | nil => exact Rel2.nil
  | cons hab _ ih => exact Rel2.cons (hi _ _ hab) ih

theorem _root_.SST.Stack.Rel2.getElem? {xs : List α} {ys : List β} (h : Rel2 R xs ys) (i : Nat) :
    (xs[i]? = none ∧ ys[i]? = none) ∨ ∃ a b, xs[i]? = some a ∧ ys[i]? = some b ∧ R a b := by
  induction h generalizing i with
  | nil => left; simp
  | cons hab _ ih =>
    cases i with
    | zero => right; exact ⟨_, _, rfl, rfl, hab⟩
    | succ i => simpa using ih i

theorem _root_.SST.Stack.Rel2.map_eq {f : α → γ} {g : β → γ} (hfg : ∀ a b, R a b → f a = g b) {xs : List α} {ys : List β}
    (h : Rel2 R xs ys) : xs.map f = ys.map g := by
  induction h with
  | nil => rfl
  | cons hab _ ih => simp [hfg _ _ hab, ih]

/-- split a relation that goes through a witness -/
theorem _root_.SST.Stack.Rel2.exists_mid {R1 : α → γ → Prop} {R2 : γ → β → Prop} {xs : List α} {ys : List β}
    (h : Rel2 (fun a b => ∃ m, R1 a m ∧ R2 m b) xs ys) : ∃ ms, Rel2 R1 xs ms ∧ Rel2 R2 ms ys := by
  induction h with
  | nil => exact ⟨[], Rel2.nil, Rel2.nil⟩
  | cons hab _ ih =>
    obtain ⟨m, h1, h2⟩ := hab
    obtain ⟨ms, i1, i2⟩ := ih
    exact ⟨m :: ms, Rel2.cons h1 i1, Rel2.cons h2 i2⟩

theorem _root_.SST.Stack.Rel2.filterMap_get {xs : List α} {ys : List β} (h : Rel2 R xs ys) (is : List Nat) :
    Rel2 R (is.filterMap fun i => xs[i]?) (is.filterMap fun i => ys[i]?) := by
  induction is with
  | nil => exact Rel2.nil
  | cons i is ih =>
    rcases h.getElem? i with ⟨hx, hy⟩ | ⟨a, b, hx, hy, hab⟩
    · simp only [List.filterMap_cons, hx, hy]; exact ih
    · simp only [List.filterMap_cons, hx, hy]; exact Rel2.cons hab ih

/-- the list surgery of `reflectCompactionResult` is parametric -/
theorem _root_.SST.Stack.Rel2.zip_flatMap {xs : List α} {ys : List β} (h : Rel2 R xs ys) (p q : Nat → Bool) (mx : α) (my : β)
    (hm : R mx my) (is : List Nat) :
    Rel2 R ((is.zip xs).flatMap fun (x : Nat × α) => if p x.1 then [mx] else if q x.1 then [] else [x.2])
           ((is.zip ys).flatMap fun (x : Nat × β) => if p x.1 then [my] else if q x.1 then [] else [x.2]) := by
  induction h generalizing is with
  | nil => simp; exact Rel2.nil
  | cons hab _ ih =>
    cases is with
    | nil => simp; exact Rel2.nil
    | cons i is =>
      simp only [List.zip_cons_cons, List.flatMap_cons]
      apply Rel2.append _ (ih is)
      by_cases hp : p i = true
      · simp only [hp, if_true]; exact Rel2.cons hm Rel2.nil
      · by_cases hq : q i = true
        · simp only [hp, hq, if_true]; exact Rel2.nil
        · simp only [hp, hq]; exact Rel2.cons hab Rel2.nil

theorem _root_.SST.Stack.Rel2.forall_right {Q : β → Prop} (hq : ∀ a b, R a b → Q b) {xs : List α} {ys : List β}
    (h : Rel2 R xs ys) : ∀ b ∈ ys, Q b := by
  induction h with
  | nil => intro b hb; cases hb
  | cons hab _ ih =>
    intro b hb
    rcases List.mem_cons.mp hb with rfl | hb
    · exact hq _ _ hab
    · exact ih b hb

theorem _root_.SST.Stack.Rel2.forall_left {Q : α → Prop} (hq : ∀ a b, R a b → Q a) {xs : List α} {ys : List β}
    (h : Rel2 R xs ys) : ∀ a ∈ xs, Q a := by
  induction h with
  | nil => intro a ha; cases ha
  | cons hab _ ih =>
    intro a ha
    rcases List.mem_cons.mp ha with rfl | ha
    · exact hq _ _ hab
    · exact ih a ha

end rel2

/-! ## association lists with distinct keys -/

theorem nodup_of_map {α β : Type} (f : α → β) {l : List α} (h : (l.map f).Nodup) : l.Nodup := by
  unfold List.Nodup at *
  rw [List.pairwise_map] at h
  exact h.imp fun hne e => hne (congrArg f e)

theorem layer_mem_iff_get {l : Layer} (hn : (l.map (·.1)).Nodup) (k : Key) (v : GoBytes) :
    (k, v) ∈ l ↔ Layer.get l k = some v := by
  induction l with
  | nil => simp [Proofs.DB.layerGet_nil]
  | cons p l ih =>
    rw [List.map_cons, List.nodup_cons] at hn
    rw [Proofs.DB.layerGet_cons, List.mem_cons]
    by_cases hp : p.1 = k
    · simp only [hp, if_true]
      constructor
      · rintro (h | h)
        · rw [← h]
        · exact absurd (List.mem_map.mpr ⟨(k, v), h, rfl⟩) (hp ▸ hn.1)
      · intro h
        left
        cases p
        simp only at hp
        simp only [Option.some.injEq] at h
        rw [hp, h]
    · simp only [hp, if_false]
      rw [← ih hn.2]
      constructor
      · rintro (h | h)
        · exact absurd (by rw [← h]) hp
        · exact h
      · exact Or.inr

theorem nodup_layer_set {l : Layer} (hn : (l.map (·.1)).Nodup) (k : Key) (v : GoBytes) :
    ((Layer.set l k v).map (·.1)).Nodup := by
  unfold Layer.set
  rw [List.map_cons, List.nodup_cons]
  constructor
  · intro hm
    obtain ⟨p, hp, hk⟩ := List.mem_map.mp hm
    have := (List.mem_filter.mp hp).2
    simp at this
    exact this hk
  · exact (List.Pairwise.sublist (List.Sublist.map _ List.filter_sublist) hn)

/-- a layer and a sorted table that answer every lookup alike hold the same pairs -/
theorem cells_perm {l : Layer} {kvs : List KV} (h : CellsRel l kvs) (ha : StrictAsc bytesCmp kvs) :
    l.Perm kvs := by
  have hn1 : l.Nodup := nodup_of_map _ h.nodup
  have hn2 : kvs.Nodup := by
    unfold StrictAsc at ha
    exact ha.imp fun {a b} hlt e => by
      rw [e] at hlt
      exact Proofs.MergeOrd.bytesCmp_lt_irrefl _ hlt
  rw [List.perm_ext_iff_of_nodup hn1 hn2]
  rintro ⟨k, v⟩
  rw [layer_mem_iff_get h.nodup, h.get, Proofs.MergeSpec.tget_some_iff ha]

theorem cells_length {l : Layer} {kvs : List KV} (h : CellsRel l kvs) (ha : StrictAsc bytesCmp kvs) :
    l.length = kvs.length := (cells_perm h ha).length_eq

theorem cells_nulls {l : Layer} {kvs : List KV} (h : CellsRel l kvs) (ha : StrictAsc bytesCmp kvs) :
    (l.filter (fun p => p.2.isNone)).length = (kvs.filter (·.2.isNone)).length :=
  ((cells_perm h ha).filter _).length_eq

/-! ## `eraseDups` -/

theorem nodup_eraseDups {α : Type} [BEq α] [LawfulBEq α] : ∀ (n : Nat) (l : List α), l.length ≤ n → l.eraseDups.Nodup
  | _, [], _ => by simp
  | 0, _ :: _, h => by simp at h
  | n + 1, a :: as, h => by
    rw [List.eraseDups_cons, List.nodup_cons]
    constructor
    · rw [List.mem_eraseDups, List.mem_filter]
      simp
    · apply nodup_eraseDups n
      have := List.length_filter_le (fun b => !b == a) as
      simp only [List.length_cons] at h
      omega

end SST.Proofs.Stack
