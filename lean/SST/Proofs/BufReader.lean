/-
Layer A of the buffered-reader proofs: the vendored bufio `Reader`, the counting wrapper, `io.ReadFull` and
`io.ReadAll` refine the raw byte stream, for every capacity ≥ 1 and every schedule without 100 consecutive
empty reads.
-/
import SST.Spec.BufReader
namespace SST.Buf
open SST Generated

/-! ## schedules -/

theorem zeroRun_nil : zeroRun [] = 0 := rfl
theorem zeroRun_zero (t : List Nat) : zeroRun (0 :: t) = zeroRun t + 1 := by simp [zeroRun]
theorem zeroRun_pos (l : Nat) (t : List Nat) (h : l ≠ 0) : zeroRun (l :: t) = 0 := by simp [zeroRun, h]

theorem NoStall.tail {l : Nat} {t : List Nat} (h : NoStall (l :: t)) : NoStall t := fun k => by
  have := h (k + 1); simpa using this

theorem NoStall.drop {s : List Nat} (h : NoStall s) (n : Nat) : NoStall (s.drop n) := fun k => by
  have := h (n + k); rwa [← List.drop_drop] at this

theorem NoStall.head {s : List Nat} (h : NoStall s) : zeroRun s < maxConsecutiveEmptyReads := by
  have := h 0; simpa using this

theorem noStall_nil : NoStall [] := fun k => by simp [zeroRun, maxConsecutiveEmptyReads]

/-! ## the underlying reader -/

/-- the three things one `Read` of the underlying reader can do (for a non-empty `p`) -/
theorem under_readCore_cases (u : Under) (w : Nat) (hw : 0 < w) :
    (∃ t, u.sched = 0 :: t ∧ u.readCore w = ⟨[], none, { u with sched := t }⟩) ∨
    (zeroRun u.sched = 0 ∧ u.rem = [] ∧
      u.readCore w = ⟨[], some (.e .eof), { u with sched := u.sched.drop 1 }⟩) ∨
    (zeroRun u.sched = 0 ∧ ∃ d rest e, d ≠ [] ∧ u.rem = d ++ rest ∧ d.length ≤ w ∧
      (e = none ∨ (e = some (.e .eof) ∧ rest = [] ∧ u.eofData = true)) ∧
      u.readCore w = ⟨d, e, { u with rem := rest, sched := u.sched.drop 1 }⟩) := by
  have hdel : ∀ (v : Under) (n : Nat), 0 < n → n ≤ w →
      (v.rem = [] ∧ v.deliver n = ⟨[], some (.e .eof), v⟩) ∨
      (∃ d rest e, d ≠ [] ∧ v.rem = d ++ rest ∧ d.length ≤ w ∧
        (e = none ∨ (e = some (.e .eof) ∧ rest = [] ∧ v.eofData = true)) ∧
        v.deliver n = ⟨d, e, { v with rem := rest }⟩) := by
    intro v n hn hnw
    cases hr : v.rem with
    | nil => left; simp [Under.deliver, hr]
    | cons x xs =>
      right
      refine ⟨(x :: xs).take n, (x :: xs).drop n,
        if v.eofData && ((x :: xs).drop n).isEmpty then some (.e .eof) else none, ?_, ?_, ?_, ?_, ?_⟩
      · obtain ⟨m, rfl⟩ : ∃ m, n = m + 1 := ⟨n - 1, by omega⟩
        simp
      · simp
      · rw [List.length_take]; omega
      · by_cases hc : (v.eofData && ((x :: xs).drop n).isEmpty) = true
        · right
          rw [if_pos hc]
          simp only [Bool.and_eq_true, List.isEmpty_iff] at hc
          exact ⟨rfl, hc.2, hc.1⟩
        · left; rw [if_neg hc]
      · simp [Under.deliver, hr]
  cases hs : u.sched with
  | nil =>
    rcases hdel u w hw (Nat.le_refl _) with ⟨h1, h2⟩ | ⟨d, rest, e, h1, h2, h3, h4, h5⟩
    · right; left
      refine ⟨by simp [zeroRun], h1, ?_⟩
      simp only [Under.readCore, hs, h2, List.drop_nil]
      try (congr 1; cases u; simp_all)
    · right; right
      refine ⟨by simp [zeroRun], d, rest, e, h1, h2, h3, h4, ?_⟩
      simp only [Under.readCore, hs, h5, List.drop_nil]
      try (congr 1; cases u; simp_all)
  | cons l t =>
    by_cases hl : l = 0
    · left; subst hl; exact ⟨t, rfl, by simp [Under.readCore, hs]⟩
    · have hz : zeroRun (l :: t) = 0 := zeroRun_pos l t hl
      have hm : 0 < min l w := by omega
      rcases hdel { u with sched := t } (min l w) hm (Nat.min_le_right _ _) with
        ⟨h1, h2⟩ | ⟨d, rest, e, h1, h2, h3, h4, h5⟩
      · right; left
        refine ⟨hz, h1, ?_⟩
        simp only [Under.readCore, hs, if_neg hl, h2, List.drop_succ_cons, List.drop_zero]
      · right; right
        refine ⟨hz, d, rest, e, h1, h2, h3, h4, ?_⟩
        simp only [Under.readCore, hs, if_neg hl, h5, List.drop_succ_cons, List.drop_zero]

@[simp] theorem logged_rem (u : Under) (w : Nat) : (u.logged w).rem = u.rem := rfl
@[simp] theorem logged_sched (u : Under) (w : Nat) : (u.logged w).sched = u.sched := rfl
@[simp] theorem logged_eofData (u : Under) (w : Nat) : (u.logged w).eofData = u.eofData := rfl
@[simp] theorem logged_reqs (u : Under) (w : Nat) : (u.logged w).reqs = w :: u.reqs := rfl

/-- the same for `Read` with its ghost log of requests -/
theorem under_read_cases (u : Under) (w : Nat) (hw : 0 < w) :
    (∃ t, u.sched = 0 :: t ∧ u.read w = ⟨[], none, { u.logged w with sched := t }⟩) ∨
    (zeroRun u.sched = 0 ∧ u.rem = [] ∧
      u.read w = ⟨[], some (.e .eof), { u.logged w with sched := u.sched.drop 1 }⟩) ∨
    (zeroRun u.sched = 0 ∧ ∃ d rest e, d ≠ [] ∧ u.rem = d ++ rest ∧ d.length ≤ w ∧
      (e = none ∨ (e = some (.e .eof) ∧ rest = [] ∧ u.eofData = true)) ∧
      u.read w = ⟨d, e, { u.logged w with rem := rest, sched := u.sched.drop 1 }⟩) :=
  under_readCore_cases (u.logged w) w hw

/-! ## the buffered reader -/

def eofE : XErr := .e .eof

/-- the bytes the reader still has to hand out -/
def Rd.stream (b : Rd) : Bytes := b.pend ++ b.under.rem

/-- invariant of the buffered reader: capacity `cap ≥ 1`, a schedule that never stalls, the flavour `ed` of the
underlying reader, and a sticky error can only be the EOF of an exhausted underlying reader -/
structure Rd.Inv (cap : Nat) (ed : Bool) (b : Rd) : Prop where
  cap_eq : b.cap = cap
  cap_pos : 0 < cap
  ed_eq : b.under.eofData = ed
  noStall : NoStall b.under.sched
  err_ok : b.err = none ∨ (b.err = some (.e .eof) ∧ b.under.rem = [])

/-- `fill` on an empty buffer without a pending error: it ends with data in the buffer, or with EOF -/
theorem fillLoop_spec (cap : Nat) (ed : Bool) : ∀ (i : Nat) (b : Rd), b.Inv cap ed → b.pend = [] → b.err = none →
    zeroRun b.under.sched < i →
    (b.fillLoop i).Inv cap ed ∧ (b.fillLoop i).stream = b.stream ∧
    (b.fillLoop i).under.sched.length ≤ b.under.sched.length ∧
    ((b.fillLoop i).pend ≠ [] ∨ ((b.fillLoop i).pend = [] ∧ (b.fillLoop i).err = some (.e .eof))) := by
  intro i
  induction i with
  | zero => intro b _ _ _ h; omega
  | succ i ih =>
    intro b hinv hp he hz
    have hw : 0 < b.cap - b.pend.length := by rw [hp, hinv.cap_eq]; simpa using hinv.cap_pos
    rcases under_read_cases b.under (b.cap - b.pend.length) hw with
      ⟨t, hs, hr⟩ | ⟨hz0, hrem, hr⟩ | ⟨hz0, d, rest, e, hd, hrem, hlen, he', hr⟩
    · -- an empty read: try again
      have hb' : ({ b with pend := b.pend ++ [], under := { b.under.logged (b.cap - b.pend.length) with sched := t } } : Rd).Inv cap ed :=
        { cap_eq := hinv.cap_eq, cap_pos := hinv.cap_pos, ed_eq := hinv.ed_eq,
          noStall := by have := hinv.noStall; rw [hs] at this; exact this.tail
          err_ok := hinv.err_ok }
      have hz' : zeroRun t < i := by rw [hs, zeroRun_zero] at hz; omega
      have := ih _ hb' (by simp [hp]) he hz'
      dsimp only at this
      simp only [Rd.fillLoop, hr, List.length_nil, Nat.lt_irrefl, if_false]
      refine ⟨this.1, ?_, ?_, this.2.2.2⟩
      · rw [this.2.1]; simp [Rd.stream]
      · have h3 := this.2.2.1; rw [hs]; simp only [List.length_cons]; omega
    · -- EOF
      simp only [Rd.fillLoop, hr]
      refine ⟨?_, ?_, ?_, ?_⟩
      · exact { cap_eq := hinv.cap_eq, cap_pos := hinv.cap_pos, ed_eq := hinv.ed_eq,
                noStall := hinv.noStall.drop 1, err_ok := Or.inr ⟨rfl, hrem⟩ }
      · simp [Rd.stream]
      · simp
      · right; simp [hp]
    · -- data, possibly together with EOF
      have hdl : 0 < d.length := List.length_pos_iff.mpr hd
      rcases he' with rfl | ⟨rfl, hrest, _⟩
      · simp only [Rd.fillLoop, hr, hdl, if_true]
        refine ⟨?_, ?_, ?_, ?_⟩
        · exact { cap_eq := hinv.cap_eq, cap_pos := hinv.cap_pos, ed_eq := hinv.ed_eq,
                  noStall := hinv.noStall.drop 1, err_ok := Or.inl he }
        · simp [Rd.stream, hrem]
        · simp
        · left; simp [hp, hd]
      · simp only [Rd.fillLoop, hr]
        refine ⟨?_, ?_, ?_, ?_⟩
        · exact { cap_eq := hinv.cap_eq, cap_pos := hinv.cap_pos, ed_eq := hinv.ed_eq,
                  noStall := hinv.noStall.drop 1, err_ok := Or.inr ⟨rfl, hrest⟩ }
        · simp [Rd.stream, hrem]
        · simp
        · left; simp [hp, hd]

/-- `ReadByte` when something is left: the next byte of the stream -/
theorem rd_readByte_cons (cap : Nat) (ed : Bool) (b : Rd) (x : UInt8) (t : Bytes)
    (hinv : b.Inv cap ed) (hs : b.stream = x :: t) :
    ∃ b', b.readByte = (.ok x, b') ∧ b'.Inv cap ed ∧ b'.stream = t ∧
      b'.under.sched.length ≤ b.under.sched.length := by
  have hpop : ∀ (k : Nat) (a : Rd), a.Inv cap ed → a.stream = x :: t → a.pend ≠ [] →
      ∃ b', a.readByteLoop (k + 1) = (.ok x, b') ∧ b'.Inv cap ed ∧ b'.stream = t ∧
        b'.under.sched.length = a.under.sched.length := by
    intro k a ha hsa hne
    cases hp : a.pend with
    | nil => exact absurd hp hne
    | cons c rest =>
      have : c = x ∧ rest ++ a.under.rem = t := by
        simp only [Rd.stream, hp, List.cons_append, List.cons.injEq] at hsa; exact hsa
      refine ⟨{ a with pend := rest }, by simp [Rd.readByteLoop, hp, this.1], ?_, ?_, rfl⟩
      · exact { cap_eq := ha.cap_eq, cap_pos := ha.cap_pos, ed_eq := ha.ed_eq, noStall := ha.noStall,
                err_ok := ha.err_ok }
      · simp [Rd.stream, this.2]
  by_cases hp : b.pend = []
  · -- empty buffer: no sticky error possible (the stream is not empty), so fill
    have he : b.err = none := by
      rcases hinv.err_ok with h | ⟨_, h⟩
      · exact h
      · simp [Rd.stream, hp, h] at hs
    have hfill : b.fill = some (b.fillLoop maxConsecutiveEmptyReads) := by
      simp only [Rd.fill, hp, List.length_nil, hinv.cap_eq]
      rw [if_neg]; have := hinv.cap_pos; omega
    have hf := fillLoop_spec cap ed maxConsecutiveEmptyReads b hinv hp he hinv.noStall.head
    have hne : (b.fillLoop maxConsecutiveEmptyReads).pend ≠ [] := by
      rcases hf.2.2.2 with h | ⟨h1, h2⟩
      · exact h
      · exfalso
        have h3 := hf.2.1
        rcases hf.1.err_ok with h | ⟨_, h⟩
        · rw [h] at h2; cases h2
        · simp [Rd.stream, h1, h] at h3
          simp [Rd.stream, h3.1, h3.2] at hs
    obtain ⟨b', h1, h2, h3, h4⟩ := hpop 1 _ hf.1 (hf.2.1.trans hs) hne
    refine ⟨b', ?_, h2, h3, by rw [h4]; exact hf.2.2.1⟩
    simp only [Rd.readByte, Rd.readByteLoop, hp, he, hfill]
    exact h1
  · obtain ⟨b', h1, h2, h3, h4⟩ := hpop 2 b hinv hs hp
    exact ⟨b', h1, h2, h3, by omega⟩

/-- `ReadByte` at the end of the stream: EOF (and the sticky error is cleared) -/
theorem rd_readByte_nil (cap : Nat) (ed : Bool) (b : Rd) (hinv : b.Inv cap ed) (hs : b.stream = []) :
    ∃ b', b.readByte = (.error (.e .eof), b') ∧ b'.Inv cap ed ∧ b'.stream = [] ∧
      b'.under.sched.length ≤ b.under.sched.length := by
  have hp : b.pend = [] := by
    have := congrArg List.length hs; simp [Rd.stream] at this; exact this.1
  have hrem : b.under.rem = [] := by simpa [Rd.stream, hp] using hs
  have hclear : ∀ (k : Nat) (a : Rd), a.Inv cap ed → a.pend = [] → a.under.rem = [] → a.err = some (.e .eof) →
      ∃ b', a.readByteLoop (k + 1) = (.error (.e .eof), b') ∧ b'.Inv cap ed ∧ b'.stream = [] ∧
        b'.under.sched.length = a.under.sched.length := by
    intro k a ha hpa hra hea
    refine ⟨{ a with err := none }, by simp [Rd.readByteLoop, hpa, hea], ?_, by simp [Rd.stream, hpa, hra], rfl⟩
    exact { cap_eq := ha.cap_eq, cap_pos := ha.cap_pos, ed_eq := ha.ed_eq, noStall := ha.noStall,
            err_ok := Or.inl rfl }
  rcases hinv.err_ok with he | ⟨he, _⟩
  · have hfill : b.fill = some (b.fillLoop maxConsecutiveEmptyReads) := by
      simp only [Rd.fill, hp, List.length_nil, hinv.cap_eq]
      rw [if_neg]; have := hinv.cap_pos; omega
    have hf := fillLoop_spec cap ed maxConsecutiveEmptyReads b hinv hp he hinv.noStall.head
    have hst : (b.fillLoop maxConsecutiveEmptyReads).stream = [] := hf.2.1.trans hs
    have hp' : (b.fillLoop maxConsecutiveEmptyReads).pend = [] := by
      have := congrArg List.length hst; simp [Rd.stream] at this
      exact this.1
    have hr' : (b.fillLoop maxConsecutiveEmptyReads).under.rem = [] := by simpa [Rd.stream, hp'] using hst
    have he' : (b.fillLoop maxConsecutiveEmptyReads).err = some (.e .eof) := by
      rcases hf.2.2.2 with h | ⟨_, h⟩
      · exact absurd hp' h
      · exact h
    obtain ⟨b', h1, h2, h3, h4⟩ := hclear 1 _ hf.1 hp' hr' he'
    refine ⟨b', ?_, h2, h3, by rw [h4]; exact hf.2.2.1⟩
    simp only [Rd.readByte, Rd.readByteLoop, hp, he, hfill]
    exact h1
  · obtain ⟨b', h1, h2, h3, h4⟩ := hclear 2 b hinv hp hrem he
    exact ⟨b', h1, h2, h3, by omega⟩

/-- one `Read(p)` with a non-empty `p`: a prefix of the stream; an error is EOF at the end of the stream; and the
call makes progress (bytes, EOF, or a used-up schedule entry) -/
theorem rd_read_spec (cap : Nat) (ed : Bool) (b : Rd) (n : Nat) (hn : 0 < n) (hinv : b.Inv cap ed) :
    ∃ d e b', b.read n = ⟨d, e, b'⟩ ∧ b'.Inv cap ed ∧ d ++ b'.stream = b.stream ∧ d.length ≤ n ∧
      (e = none ∨ (e = some (.e .eof) ∧ b'.stream = [] ∧ (d = [] ∨ ed = true))) ∧
      b'.under.sched.length ≤ b.under.sched.length ∧
      (d ≠ [] ∨ e = some (.e .eof) ∨ b'.under.sched.length < b.under.sched.length) := by
  have hn0 : n ≠ 0 := by omega
  have hcopy : ∀ (a : Rd), a.Inv cap ed → a.pend ≠ [] →
      ∃ d b', a.copyOut n = ⟨d, none, b'⟩ ∧ b'.Inv cap ed ∧ d ++ b'.stream = a.stream ∧ d.length ≤ n ∧ d ≠ [] ∧
        b'.under.sched.length = a.under.sched.length := by
    intro a ha hne
    refine ⟨a.pend.take n, { a with pend := a.pend.drop n }, rfl, ?_, ?_, ?_, ?_, rfl⟩
    · exact { cap_eq := ha.cap_eq, cap_pos := ha.cap_pos, ed_eq := ha.ed_eq, noStall := ha.noStall,
              err_ok := ha.err_ok }
    · simp [Rd.stream, ← List.append_assoc]
    · rw [List.length_take]; omega
    · cases hp : a.pend with
      | nil => exact absurd hp hne
      | cons c rest =>
        obtain ⟨m, rfl⟩ : ∃ m, n = m + 1 := ⟨n - 1, by omega⟩
        simp
  cases hp : b.pend with
  | cons c rest =>
    obtain ⟨d, b', h1, h2, h3, h4, h5, h6⟩ := hcopy b hinv (by rw [hp]; simp)
    refine ⟨d, none, b', ?_, h2, h3, h4, Or.inl rfl, by omega, Or.inl h5⟩
    simp only [Rd.read, if_neg hn0, hp]
    rw [← h1]
  | nil =>
    rcases hinv.err_ok with he | ⟨he, hrem⟩
    · by_cases hbig : n ≥ b.cap ∧ b.aligned = false
      · -- large read, empty buffer
        rcases under_read_cases b.under n hn with
          ⟨t, hs, hr⟩ | ⟨hz0, hrem, hr⟩ | ⟨hz0, d, rest, e, hd, hrem, hlen, he', hr⟩
        · refine ⟨[], none, { b with under := { b.under.logged n with sched := t } }, ?_, ?_, ?_, by simp, Or.inl rfl,
            ?_, ?_⟩
          · simp only [Rd.read, if_neg hn0, hp, he, if_pos hbig, hr]
          · exact { cap_eq := hinv.cap_eq, cap_pos := hinv.cap_pos, ed_eq := hinv.ed_eq,
                    noStall := by have := hinv.noStall; rw [hs] at this; exact this.tail
                    err_ok := Or.inl he }
          · simp [Rd.stream]
          · rw [hs]; simp
          · right; right; rw [hs]; simp
        · refine ⟨[], some (.e .eof), { b with under := { b.under.logged n with sched := b.under.sched.drop 1 } }, ?_, ?_,
            ?_, by simp, ?_, by simp, Or.inr (Or.inl rfl)⟩
          · simp only [Rd.read, if_neg hn0, hp, he, if_pos hbig, hr]
          · exact { cap_eq := hinv.cap_eq, cap_pos := hinv.cap_pos, ed_eq := hinv.ed_eq,
                    noStall := hinv.noStall.drop 1, err_ok := Or.inl he }
          · simp [Rd.stream]
          · right; exact ⟨rfl, by simp [Rd.stream, hp, hrem], Or.inl rfl⟩
        · refine ⟨d, e, { b with under := { b.under.logged n with rem := rest, sched := b.under.sched.drop 1 } }, ?_, ?_,
            ?_, hlen, ?_, by simp, Or.inl hd⟩
          · simp only [Rd.read, if_neg hn0, hp, he, if_pos hbig, hr]
          · exact { cap_eq := hinv.cap_eq, cap_pos := hinv.cap_pos, ed_eq := hinv.ed_eq,
                    noStall := hinv.noStall.drop 1, err_ok := Or.inl he }
          · simp [Rd.stream, hp, hrem]
          · rcases he' with rfl | ⟨rfl, hrest, hed⟩
            · exact Or.inl rfl
            · right
              refine ⟨rfl, by simp [Rd.stream, hp, hrest], Or.inr ?_⟩
              rw [← hinv.ed_eq]; exact hed
      · -- one read into the buffer, then copy
        have hcap : 0 < b.cap := by rw [hinv.cap_eq]; exact hinv.cap_pos
        rcases under_read_cases b.under b.cap hcap with
          ⟨t, hs, hr⟩ | ⟨hz0, hrem, hr⟩ | ⟨hz0, d, rest, e, hd, hrem, hlen, he', hr⟩
        · refine ⟨[], none, { b with under := { b.under.logged b.cap with sched := t } }, ?_, ?_, ?_, by simp, Or.inl rfl,
            ?_, ?_⟩
          · simp only [Rd.read, if_neg hn0, hp, he, if_neg hbig, hr, List.length_nil, if_true]
          · exact { cap_eq := hinv.cap_eq, cap_pos := hinv.cap_pos, ed_eq := hinv.ed_eq,
                    noStall := by have := hinv.noStall; rw [hs] at this; exact this.tail
                    err_ok := Or.inl he }
          · simp [Rd.stream]
          · rw [hs]; simp
          · right; right; rw [hs]; simp
        · refine ⟨[], some (.e .eof), { b with under := { b.under.logged b.cap with sched := b.under.sched.drop 1 } }, ?_, ?_,
            ?_, by simp, ?_, by simp, Or.inr (Or.inl rfl)⟩
          · simp only [Rd.read, if_neg hn0, hp, he, if_neg hbig, hr, List.length_nil, if_true]
          · exact { cap_eq := hinv.cap_eq, cap_pos := hinv.cap_pos, ed_eq := hinv.ed_eq,
                    noStall := hinv.noStall.drop 1, err_ok := Or.inl he }
          · simp [Rd.stream]
          · right; exact ⟨rfl, by simp [Rd.stream, hp, hrem], Or.inl rfl⟩
        · have hdl : d.length ≠ 0 := by
            have := List.length_pos_iff.mpr hd; omega
          have ha : ({ b with pend := d, err := e, under := { b.under.logged b.cap with rem := rest, sched := b.under.sched.drop 1 } } : Rd).Inv cap ed :=
            { cap_eq := hinv.cap_eq, cap_pos := hinv.cap_pos, ed_eq := hinv.ed_eq,
              noStall := hinv.noStall.drop 1
              err_ok := by
                rcases he' with rfl | ⟨rfl, hrest, _⟩
                · exact Or.inl rfl
                · exact Or.inr ⟨rfl, hrest⟩ }
          obtain ⟨d', b', h1, h2, h3, h4, h5, h6⟩ := hcopy _ ha hd
          refine ⟨d', none, b', ?_, h2, ?_, h4, Or.inl rfl, ?_, Or.inl h5⟩
          · simp only [Rd.read, if_neg hn0, hp, he, if_neg hbig, hr, if_neg hdl]
            exact h1
          · rw [h3]; simp [Rd.stream, hp, hrem]
          · rw [h6]; simp
    · -- sticky EOF with an empty buffer
      refine ⟨[], some (.e .eof), { b with err := none }, ?_, ?_, ?_, by simp, ?_, by simp, Or.inr (Or.inl rfl)⟩
      · simp only [Rd.read, if_neg hn0, hp, he]
      · exact { cap_eq := hinv.cap_eq, cap_pos := hinv.cap_pos, ed_eq := hinv.ed_eq, noStall := hinv.noStall,
                err_ok := Or.inl rfl }
      · simp [Rd.stream]
      · right; exact ⟨rfl, by simp [Rd.stream, hp, hrem], Or.inl rfl⟩

end SST.Buf
