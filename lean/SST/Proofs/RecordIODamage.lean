/-
Proofs for C12 (cut / header-damaged recordio files).
-/
import SST.Spec.RecordIODamage
import SST.Proofs.RecordIO
import SST.Proofs.Crc
namespace SST.Proofs
open SST Generated

/-- CRC-32C detects every single-byte change: two byte strings of equal length that differ in exactly one
position have different checksums. -/
theorem crc32c_single_byte (a : Bytes) (i : Nat) (hi : i < a.length) (x : UInt8) (hx : x ≠ a[i]) :
    crc32c (a.set i x) ≠ crc32c a :=
  crc32c_single_byte' a i hi x hx

/-- CRC-64/ISO likewise (used by C09). -/
theorem crc64_single_byte (a : Bytes) (i : Nat) (hi : i < a.length) (x : UInt8) (hx : x ≠ a[i]) :
    crc64iso (a.set i x) ≠ crc64iso a :=
  crc64_single_byte' a i hi x hx

theorem le32_length (n : Nat) : (le32 n).length = 4 := rfl

theorem le32Dec_le32 (n : Nat) (h : n < 2 ^ 32) : le32Dec (le32 n) = some n := by
  simp only [le32, le32Dec]
  rw [toNat_ofNat_lt _ (Nat.mod_lt _ (by decide)), toNat_ofNat_lt _ (Nat.mod_lt _ (by decide)),
    toNat_ofNat_lt _ (Nat.mod_lt _ (by decide)), toNat_ofNat_lt _ (Nat.mod_lt _ (by decide))]
  congr 1; omega

theorem parseFileHeader_le32 (v ct : Nat) (rest : Bytes) (hv : v < 2 ^ 32) (hc : ct < 2 ^ 32) :
    parseFileHeader (le32 v ++ le32 ct ++ rest) =
      if v > currentVersion ∨ v < minVersion then .error .rejected
      else if ct > maxCompression then .error .rejected
      else .ok (v, ct) := by
  have h1 : (le32 v ++ le32 ct ++ rest).take 4 = le32 v := by
    rw [List.append_assoc, List.take_left' (le32_length v)]
  have h2 : ((le32 v ++ le32 ct ++ rest).drop 4).take 4 = le32 ct := by
    rw [List.append_assoc, List.drop_left' (le32_length v), List.take_left' (le32_length ct)]
  have h3 : ¬ (le32 v ++ le32 ct ++ rest).length < fileHeaderSize := by
    simp only [List.length_append, le32_length, fileHeaderSize]; omega
  unfold parseFileHeader
  rw [if_neg h3, h1, h2, le32Dec_le32 v hv, le32Dec_le32 ct hc]

theorem file_header_rejected (v ct : Nat) (rest : Bytes) (hv : v < 2 ^ 32) (hc : ct < 2 ^ 32)
    (hbad : v > currentVersion ∨ v < minVersion ∨ ct > maxCompression) :
    parseFileHeader (le32 v ++ le32 ct ++ rest) = .error .rejected := by
  rw [parseFileHeader_le32 v ct rest hv hc]
  by_cases h : v > currentVersion ∨ v < minVersion
  · rw [if_pos h]
  · rw [if_neg h, if_pos (by omega)]

theorem file_header_accepted (v ct : Nat) (rest : Bytes)
    (hv : minVersion ≤ v ∧ v ≤ currentVersion) (hc : ct ≤ maxCompression) :
    parseFileHeader (le32 v ++ le32 ct ++ rest) = .ok (v, ct) := by
  have h1 : currentVersion = 4 := rfl
  have h2 : maxCompression = 3 := rfl
  rw [parseFileHeader_le32 v ct rest (by omega) (by omega)]
  rw [if_neg (by omega), if_neg (by omega)]


/-! ## successful parses only look at the bytes they consume -/

theorem uvarintDecAux_ok_ext : ∀ (bs : Bytes) (i x s v n : Nat), uvarintDecAux bs i x s = .ok (v, n) →
    i + 1 ≤ n ∧ n ≤ i + bs.length ∧ ∀ t, uvarintDecAux (bs ++ t) i x s = .ok (v, n) := by
  intro bs
  induction bs with
  | nil =>
    intro i x s v n h
    simp only [uvarintDecAux] at h
    split at h
    · cases h
    · split at h <;> cases h
  | cons b bs ih =>
    intro i x s v n h
    simp only [uvarintDecAux, List.cons_append] at h ⊢
    by_cases h10 : i ≥ 10
    · rw [if_pos h10] at h; cases h
    · simp only [if_neg h10] at h ⊢
      by_cases hb : b.toNat < 128
      · simp only [if_pos hb] at h ⊢
        by_cases h9 : i = 9 ∧ b.toNat > 1
        · rw [if_pos h9] at h; cases h
        · simp only [if_neg h9] at h ⊢
          cases h
          refine ⟨Nat.le_refl _, by simp, fun t => rfl⟩
      · simp only [if_neg hb] at h ⊢
        obtain ⟨a1, a2, a3⟩ := ih _ _ _ _ _ h
        refine ⟨by omega, by simp only [List.length_cons]; omega, a3⟩

theorem Win.map_ok {α : Type} (w : Win) (r : Except Err α) (p : α) (h : w.map r = .ok p) : r = .ok p := by
  unfold Win.map at h
  split at h <;> first | exact h | cases h

theorem Win.map_ok' {α : Type} (w : Win) (p : α) : w.map (.ok p : Except Err α) = .ok p := rfl

theorem canonDec_ok_ext (w : Win) (bs : Bytes) (v n : Nat) (h : canonDec w bs = .ok (v, n)) :
    1 ≤ n ∧ n ≤ bs.length ∧ ∀ (w' : Win) (t : Bytes), canonDec w' (bs ++ t) = .ok (v, n) := by
  rw [canonDec_eq] at h
  cases hm : w.map (uvarintDec bs) with
  | error e => rw [hm] at h; cases h
  | ok p =>
    obtain ⟨v', n'⟩ := p
    rw [hm] at h
    simp only [] at h
    by_cases hc : n' > 1 ∧ bs.getD (n' - 1) 0 = 0
    · rw [if_pos hc] at h; cases h
    · rw [if_neg hc] at h
      cases h
      have hd := Win.map_ok w _ _ hm
      obtain ⟨a1, a2, a3⟩ := uvarintDecAux_ok_ext bs 0 0 0 v n hd
      refine ⟨by omega, by omega, ?_⟩
      intro w' t
      have hd' : uvarintDec (bs ++ t) = .ok (v, n) := a3 t
      rw [canonDec_eq, hd', Win.map_ok']
      simp only []
      rw [if_neg]
      rw [List.getD_eq_getElem?_getD, List.getElem?_append_left (by omega),
        ← List.getD_eq_getElem?_getD]
      exact hc

theorem readHeader_ok_ext (w : Win) (h : RecHeader) (hok : readHeader w = .ok h) :
    h.hlen ≤ w.bytes.length ∧
      ∀ (w' : Win) (t : Bytes), w'.bytes = w.bytes ++ t → readHeader w' = .ok h := by
  rw [readHeader_eq] at hok
  cases h1 : canonDec w w.bytes with
  | error e => rw [h1] at hok; cases hok
  | ok p1 =>
    obtain ⟨m, c1⟩ := p1
    rw [h1] at hok
    simp only [] at hok
    by_cases hm : m ≠ magicNumber
    · rw [if_pos hm] at hok; cases hok
    · rw [if_neg hm] at hok
      cases h2 : w.bytes.drop c1 with
      | nil => rw [h2] at hok; cases hok
      | cons nb rest =>
        rw [h2] at hok
        simp only [] at hok
        cases h3 : canonDec w rest with
        | error e => rw [h3] at hok; cases hok
        | ok p2 =>
          obtain ⟨u, c2⟩ := p2
          rw [h3] at hok
          simp only [] at hok
          cases h4 : canonDec w (rest.drop c2) with
          | error e => rw [h4] at hok; cases hok
          | ok p3 =>
            obtain ⟨cl, c3⟩ := p3
            rw [h4] at hok
            simp only [] at hok
            cases h5 : canonDec w ((rest.drop c2).drop c3) with
            | error e => rw [h5] at hok; cases hok
            | ok p4 =>
              obtain ⟨ex, c4⟩ := p4
              rw [h5] at hok
              simp only [] at hok
              by_cases hcrc : (crc32c (w.bytes.take (c1 + 1 + c2 + c3))).toNat ≠ ex
              · rw [if_pos hcrc] at hok; cases hok
              · rw [if_neg hcrc] at hok
                cases hok
                obtain ⟨_, l1, e1⟩ := canonDec_ok_ext _ _ _ _ h1
                obtain ⟨_, l2, e2⟩ := canonDec_ok_ext _ _ _ _ h3
                obtain ⟨_, l3, e3⟩ := canonDec_ok_ext _ _ _ _ h4
                obtain ⟨_, l4, e4⟩ := canonDec_ok_ext _ _ _ _ h5
                have hlen := congrArg List.length h2
                simp only [List.length_drop, List.length_cons] at hlen l3 l4
                refine ⟨by simp only []; omega, ?_⟩
                intro w' t hw'
                have d1 : (w.bytes ++ t).drop c1 = nb :: (rest ++ t) := by
                  rw [List.drop_append_of_le_length l1, h2]; rfl
                have d2 : (rest ++ t).drop c2 = rest.drop c2 ++ t := List.drop_append_of_le_length l2
                have d3 : (rest.drop c2 ++ t).drop c3 = (rest.drop c2).drop c3 ++ t :=
                  List.drop_append_of_le_length (by simp only [List.length_drop]; omega)
                have d4 : (w.bytes ++ t).take (c1 + 1 + c2 + c3) = w.bytes.take (c1 + 1 + c2 + c3) :=
                  List.take_append_of_le_length (by omega)
                rw [readHeader_eq, hw', e1 w' t]
                simp only []
                rw [if_neg hm, d1]
                simp only []
                rw [e2 w' t]
                simp only []
                rw [d2, e3 w' t]
                simp only []
                rw [d3, e4 w' t]
                simp only []
                rw [d4, if_neg hcrc]


/-! ## cut records -/

/-- the header parse over a window holding a prefix of an encoded record either fails or has seen the
whole header -/
theorem readHeader_trunc (w : Win) (nf : Bool) (u cl : Nat) (S : Bytes) (j : Nat)
    (hu : u < 2 ^ 64) (hcl : cl < 2 ^ 64) (hw : w.bytes = (encHeader nf u cl ++ S).take j) :
    (∃ e, readHeader w = .error e) ∨
    (readHeader w = .ok { ulen := u, clen := cl, isNil := nf, hlen := (encHeader nf u cl).length } ∧
      (encHeader nf u cl).length ≤ j) := by
  cases hr : readHeader w with
  | error e => exact Or.inl ⟨e, rfl⟩
  | ok h =>
    right
    obtain ⟨hl, hext⟩ := readHeader_ok_ext w h hr
    have h1 := hext ⟨encHeader nf u cl ++ S, .eof, .eof⟩ ((encHeader nf u cl ++ S).drop j)
      (by rw [hw, List.take_append_drop])
    rw [readHeader_enc _ nf u cl S hu hcl rfl] at h1
    cases h1
    refine ⟨rfl, ?_⟩
    rw [hw, List.length_take] at hl
    simp only [] at hl
    omega

theorem fileWin_take (R : Bytes) (m : Nat) :
    ∃ j, j ≤ m ∧ (fileWin (R.take m)).bytes = R.take j := by
  unfold fileWin
  split
  · exact ⟨min recordHeaderMax m, Nat.min_le_right _ _, by simp [List.take_take]⟩
  · exact ⟨m, Nat.le_refl _, rfl⟩

theorem mmapWin_take (R : Bytes) (m : Nat) :
    ∃ j, j ≤ m ∧ (mmapWin (R.take m)).bytes = R.take j :=
  ⟨min recordHeaderMax m, Nat.min_le_right _ _, by simp [mmapWin, List.take_take]⟩

theorem readNextS_of_header_error (c : Compression) (s : Bytes)
    (h : ∃ e, readHeader (fileWin s) = .error e) : ∃ e, readNextS c s = .error e := by
  obtain ⟨e, he⟩ := h
  unfold readNextS
  rw [he]
  split
  · split
    · split <;> exact ⟨_, rfl⟩
    · exact ⟨_, rfl⟩
  · exact ⟨_, rfl⟩
  · rename_i h; cases h

theorem readAt_trunc (c : Compression) (pre : Bytes) (r : GoBytes) (hf : FitsRec c r) (m : Nat)
    (hm : m < (encRecord c r).length) :
    ∃ e, readAt c (pre ++ (encRecord c r).take m) pre.length = .error e := by
  have hlen : (pre ++ (encRecord c r).take m).length = pre.length + m := by
    rw [List.length_append, List.length_take]; omega
  unfold readAt
  rw [if_neg (by omega)]
  by_cases hm0 : m = 0
  · rw [if_pos (by omega)]; exact ⟨_, rfl⟩
  rw [if_neg (by omega)]
  simp only [List.drop_left]
  obtain ⟨j, hj, hw⟩ := mmapWin_take (encRecord c r) m
  cases r with
  | none =>
    simp only [encRecord] at hw hm ⊢
    rcases readHeader_trunc _ true 0 _ [] j (by decide) hf (by rw [List.append_nil]; exact hw) with ⟨e, h⟩ | ⟨_, h⟩
    · rw [h]; exact ⟨_, rfl⟩
    · omega
  | some r =>
    obtain ⟨hf1, hf2⟩ := hf
    simp only [encRecord] at hw hm hlen ⊢
    rcases readHeader_trunc _ false r.length _ (stored c r) j hf1 hf2 hw with ⟨e, h⟩ | ⟨hok, h⟩
    · rw [h]; exact ⟨_, rfl⟩
    · simp only [List.length_append] at hm
      rw [hok]
      simp only [expectedLen_enc, Bool.false_eq_true, if_false, List.length_drop, List.length_take,
        List.length_append]
      split
      · exact ⟨_, rfl⟩
      · rw [if_pos (by omega)]; exact ⟨_, rfl⟩


theorem wholeInAux_le_budget (c : Compression) (rs : List GoBytes) : ∀ b, wholeInAux c rs b ≤ b := by
  induction rs with
  | nil => intro b; simp [wholeInAux]
  | cons r rs ih =>
    intro b
    have := encRecord_pos c r
    simp only [wholeInAux]
    split
    · have := ih (b - (encRecord c r).length); omega
    · omega

theorem wholeInAux_le_length (c : Compression) (rs : List GoBytes) : ∀ b, wholeInAux c rs b ≤ rs.length := by
  induction rs with
  | nil => intro b; simp [wholeInAux]
  | cons r rs ih =>
    intro b
    simp only [wholeInAux, List.length_cons]
    split
    · have := ih (b - (encRecord c r).length); omega
    · omega

theorem readNextS_nil (c : Compression) : readNextS c [] = .error .eof := by
  have := zero_tail_is_eof c 0
  simpa using this

theorem openReadAll_of_ok (c : Compression) (f : Bytes) (p : Nat × Nat) (h : parseFileHeader f = .ok p) :
    openReadAll c f = readAll c f := by
  unfold openReadAll; rw [h]

theorem openReadAll_of_error (c : Compression) (f : Bytes) (e : Err) (h : parseFileHeader f = .error e) :
    openReadAll c f = ([], e) := by
  unfold openReadAll; rw [h]

theorem truncate_readAt (c : Compression) (ct : Nat) (rs : List GoBytes) (k : Nat) (hk : k < rs.length)
    (hl : LawfulC c) (hf : ∀ r ∈ rs, FitsRec c r) (n : Nat) :
    (offsetOf c rs (k + 1) ≤ n →
      readAt c ((fileHeader currentVersion ct ++ encAll c rs).take n) (offsetOf c rs k) = .ok rs[k]) ∧
    (n < offsetOf c rs (k + 1) →
      ∃ e, readAt c ((fileHeader currentVersion ct ++ encAll c rs).take n) (offsetOf c rs k) = .error e) := by
  have hsplit : rs = rs.take k ++ rs[k] :: rs.drop (k + 1) := by simp
  have hfile : fileHeader currentVersion ct ++ encAll c rs =
      (fileHeader currentVersion ct ++ encAll c (rs.take k)) ++
        (encRecord c rs[k] ++ encAll c (rs.drop (k + 1))) := by
    have := congrArg (encAll c) hsplit
    rw [encAll_append, encAll_cons] at this
    rw [this, List.append_assoc]
  have hoff : offsetOf c rs k = (fileHeader currentVersion ct ++ encAll c (rs.take k)).length := by
    simp [offsetOf, fileHeader_length, fileHeaderSize]
  have hoff1 : offsetOf c rs (k + 1) = offsetOf c rs k + (encRecord c rs[k]).length := by
    have h1 : rs.take (k + 1) = rs.take k ++ [rs[k]] := by simp
    simp only [offsetOf, h1, encAll_append, List.length_append, encAll_cons, encAll_nil]
    simp; omega
  have hfit : FitsRec c rs[k] := hf _ (by simp)
  generalize fileHeader currentVersion ct ++ encAll c (rs.take k) = pre at hfile hoff
  generalize encAll c (rs.drop (k + 1)) = tail at hfile
  rw [hfile, hoff1, hoff]
  constructor
  · intro hn
    have : (pre ++ (encRecord c rs[k] ++ tail)).take n =
        pre ++ (encRecord c rs[k] ++ tail.take (n - pre.length - (encRecord c rs[k]).length)) := by
      rw [List.take_append, List.take_of_length_le (by omega), List.take_append,
        List.take_of_length_le (by omega)]
    rw [this]
    exact readAt_enc c _ _ _ hl hfit
  · intro hn
    by_cases hp : n < pre.length
    · refine ⟨.other, ?_⟩
      unfold readAt
      rw [if_pos (by rw [List.length_take]; omega)]
    · have : (pre ++ (encRecord c rs[k] ++ tail)).take n =
          pre ++ (encRecord c rs[k]).take (n - pre.length) := by
        rw [List.take_append, List.take_of_length_le (by omega),
          List.take_append_of_le_length (by omega)]
      rw [this]
      exact readAt_trunc c pre _ hfit _ (by omega)


/-! ## varints as byte lists: shape and value -/

/-- value of a varint's bytes (7 low bits each, little endian) -/
def vval : Bytes → Nat
  | [] => 0
  | b :: bs => b.toNat % 128 + 128 * vval bs

/-- continuation bit set on every byte but the last -/
def IsVar : Bytes → Prop
  | [] => False
  | b :: bs => (bs = [] ∧ b.toNat < 128) ∨ (b.toNat ≥ 128 ∧ IsVar bs)

theorem uvarintDecAux_isVar (E : Bytes) : IsVar E → ∀ (rest : Bytes) (i x s : Nat),
    (∃ e, uvarintDecAux (E ++ rest) i x s = .error e) ∨
      uvarintDecAux (E ++ rest) i x s = .ok (x + vval E * 2 ^ s, i + E.length) := by
  induction E with
  | nil => intro h; cases h
  | cons b bs ih =>
    intro h rest i x s
    have hb256 := UInt8.toNat_lt b
    simp only [List.cons_append, uvarintDecAux]
    by_cases h10 : i ≥ 10
    · rw [if_pos h10]; exact Or.inl ⟨_, rfl⟩
    · rw [if_neg h10]
      rcases h with ⟨hnil, hb⟩ | ⟨hb, hbs⟩
      · subst hnil
        rw [if_pos hb]
        by_cases h9 : i = 9 ∧ b.toNat > 1
        · rw [if_pos h9]; exact Or.inl ⟨_, rfl⟩
        · rw [if_neg h9]; right
          simp only [vval, List.length_singleton, Nat.mul_zero, Nat.add_zero, Nat.mod_eq_of_lt hb]
      · rw [if_neg (by omega)]
        rcases ih hbs rest (i + 1) (x + (b.toNat - 128) * 2 ^ s) (s + 7) with h | h
        · exact Or.inl h
        · right
          rw [h]
          have e1 : b.toNat % 128 = b.toNat - 128 := by omega
          have e2 : x + (b.toNat - 128) * 2 ^ s + vval bs * 2 ^ (s + 7) =
              x + (b.toNat % 128 + 128 * vval bs) * 2 ^ s := by
            rw [e1, Nat.pow_add]
            generalize 2 ^ s = p
            generalize vval bs = q
            generalize b.toNat - 128 = r
            grind
          simp only [vval, List.length_cons, e2]
          congr 2; omega

theorem Win.map_error {α : Type} (w : Win) (e : Err) : ∃ e', w.map (.error e : Except Err α) = .error e' := by
  unfold Win.map
  split <;> first | exact ⟨_, rfl⟩ | (rename_i h; exact ⟨e, h⟩) 

theorem canonDec_isVar (w : Win) (E rest : Bytes) (hE : IsVar E) :
    (∃ e, canonDec w (E ++ rest) = .error e) ∨ canonDec w (E ++ rest) = .ok (vval E, E.length) := by
  rw [canonDec_eq]
  rcases uvarintDecAux_isVar E hE rest 0 0 0 with ⟨e, h⟩ | h
  · left
    have h' : uvarintDec (E ++ rest) = .error e := h
    obtain ⟨e', he'⟩ := Win.map_error (α := Nat × Nat) w e
    rw [h', he']; exact ⟨_, rfl⟩
  · have h' : uvarintDec (E ++ rest) = .ok (vval E, E.length) := by simpa [uvarintDec] using h
    rw [h', Win.map_ok']
    simp only []
    split
    · exact Or.inl ⟨_, rfl⟩
    · exact Or.inr rfl

theorem isVar_enc (n : Nat) : IsVar (uvarintEnc n) ∧ vval (uvarintEnc n) = n := by
  induction n using Nat.strongRecOn with
  | _ n ih =>
    by_cases h : n < 128
    · rw [uvarintEnc_lt n h]
      have hb := toNat_ofNat_lt n (by omega)
      exact ⟨Or.inl ⟨rfl, by omega⟩, by simp only [vval, hb]; omega⟩
    · rw [uvarintEnc_ge n h]
      have hb := toNat_ofNat_lt (n % 128 + 128) (by omega)
      obtain ⟨i1, i2⟩ := ih (n / 128) (Nat.div_lt_self (by omega) (by omega))
      exact ⟨Or.inr ⟨by omega, i1⟩, by simp only [vval, hb, i2]; omega⟩

theorem varint_alter (E : Bytes) : IsVar E → ∀ (j : Nat) (e x : UInt8), E[j]? = some e → x ≠ e →
    (x.toNat ≥ 128 ↔ e.toNat ≥ 128) → IsVar (E.set j x) ∧ vval (E.set j x) ≠ vval E := by
  induction E with
  | nil => intro h; cases h
  | cons b bs ih =>
    intro h j e x he hx hc
    have hx256 := UInt8.toNat_lt x
    have he256 := UInt8.toNat_lt e
    have hne : x.toNat ≠ e.toNat := fun h' => hx (UInt8.toNat_inj.mp h')
    cases j with
    | zero =>
      simp only [List.getElem?_cons_zero, Option.some.injEq] at he
      subst he
      simp only [List.set_cons_zero, vval]
      refine ⟨?_, by omega⟩
      rcases h with ⟨h1, h2⟩ | ⟨h1, h2⟩
      · exact Or.inl ⟨h1, by omega⟩
      · exact Or.inr ⟨by omega, h2⟩
    | succ j =>
      simp only [List.getElem?_cons_succ] at he
      simp only [List.set_cons_succ, vval]
      rcases h with ⟨h1, _⟩ | ⟨h1, h2⟩
      · subst h1; simp at he
      · obtain ⟨a1, a2⟩ := ih h2 j e x he hx hc
        exact ⟨Or.inr ⟨h1, a1⟩, by omega⟩


/-! ## a header whose four varint fields keep their shape parses at the same places -/

theorem readHeader_fields (w : Win) (M U C K t : Bytes) (f : UInt8) (h : RecHeader)
    (hM : IsVar M) (hU : IsVar U) (hC : IsVar C) (hK : IsVar K)
    (hw : w.bytes = (M ++ ([f] ++ (U ++ C))) ++ (K ++ t)) (hok : readHeader w = .ok h) :
    vval M = magicNumber ∧ (crc32c (M ++ ([f] ++ (U ++ C)))).toNat = vval K := by
  have hw' : w.bytes = M ++ (f :: (U ++ (C ++ (K ++ t)))) := by rw [hw]; simp
  have htake : (M ++ (f :: (U ++ (C ++ (K ++ t))))).take (M.length + 1 + U.length + C.length) =
      M ++ ([f] ++ (U ++ C)) := by
    rw [← hw', hw]
    exact List.take_left' (by simp; omega)
  rw [readHeader_eq, hw'] at hok
  rcases canonDec_isVar w M (f :: (U ++ (C ++ (K ++ t)))) hM with ⟨e, h1⟩ | h1
  · rw [h1] at hok; cases hok
  rw [h1] at hok
  simp only [] at hok
  by_cases hm : vval M ≠ magicNumber
  · rw [if_pos hm] at hok; cases hok
  rw [if_neg hm, List.drop_left] at hok
  simp only [] at hok
  rcases canonDec_isVar w U (C ++ (K ++ t)) hU with ⟨e, h2⟩ | h2
  · rw [h2] at hok; cases hok
  rw [h2] at hok
  simp only [List.drop_left] at hok
  rcases canonDec_isVar w C (K ++ t) hC with ⟨e, h3⟩ | h3
  · rw [h3] at hok; cases hok
  rw [h3] at hok
  simp only [List.drop_left] at hok
  rcases canonDec_isVar w K t hK with ⟨e, h4⟩ | h4
  · rw [h4] at hok; cases hok
  rw [h4] at hok
  simp only [htake] at hok
  by_cases hcrc : (crc32c (M ++ ([f] ++ (U ++ C)))).toNat ≠ vval K
  · rw [if_pos hcrc] at hok; cases hok
  · exact ⟨Decidable.not_not.mp hm, Decidable.not_not.mp hcrc⟩

theorem split_alter (A B : Bytes) (i : Nat) (e x : UInt8) (he : (A ++ B)[i]? = some e) :
    (i < A.length ∧ A[i]? = some e ∧ (A ++ B).set i x = A.set i x ++ B) ∨
    (A.length ≤ i ∧ B[i - A.length]? = some e ∧ (A ++ B).set i x = A ++ B.set (i - A.length) x) := by
  by_cases h : i < A.length
  · left
    rw [List.getElem?_append_left h] at he
    exact ⟨h, he, List.set_append_left _ _ h⟩
  · right
    have h' : A.length ≤ i := by omega
    rw [List.getElem?_append_right h'] at he
    exact ⟨h', he, List.set_append_right _ _ h'⟩

theorem crc_set_ne (a : Bytes) (i : Nat) (e x : UInt8) (he : a[i]? = some e) (hx : x ≠ e) :
    crc32c (a.set i x) ≠ crc32c a := by
  obtain ⟨hi, hget⟩ := List.getElem?_eq_some_iff.mp he
  exact crc32c_single_byte' a i hi x (by rw [hget]; exact hx)

theorem encHeader_split (nf : Bool) (u cl : Nat) :
    encHeader nf u cl = (uvarintEnc magicNumber ++ ([if nf then 1 else 0] ++ (uvarintEnc u ++ uvarintEnc cl))) ++
      uvarintEnc (crc32c (headerBody nf u cl)).toNat ∧
    headerBody nf u cl = uvarintEnc magicNumber ++ ([if nf then 1 else 0] ++ (uvarintEnc u ++ uvarintEnc cl)) := by
  have hb : headerBody nf u cl =
      uvarintEnc magicNumber ++ ([if nf then 1 else 0] ++ (uvarintEnc u ++ uvarintEnc cl)) := by
    rw [headerBody, uvarintEnc_magic]; simp
  exact ⟨by rw [encHeader, hb], hb⟩

/-- every frame-preserving alteration of a header byte makes the header parse fail -/
theorem readHeader_altered (w : Win) (nf : Bool) (u cl : Nat) (t : Bytes) (i : Nat) (x : UInt8)
    (hfp : FramePreserving (encHeader nf u cl) i x)
    (hw : w.bytes = (encHeader nf u cl).set i x ++ t) : ∃ e, readHeader w = .error e := by
  cases hr : readHeader w with
  | error e => exact ⟨e, rfl⟩
  | ok h =>
    exfalso
    obtain ⟨hi, hx, hc⟩ := hfp
    obtain ⟨hH, hB⟩ := encHeader_split nf u cl
    have he : (encHeader nf u cl)[i]? = some (encHeader nf u cl)[i] := List.getElem?_eq_getElem hi
    generalize (encHeader nf u cl)[i] = e at he hx hc
    have hmlen : (uvarintEnc magicNumber).length = 3 := by rw [uvarintEnc_magic]; rfl
    have hm3 : magicBytes.length = 3 := rfl
    obtain ⟨vM, eM⟩ := isVar_enc magicNumber
    obtain ⟨vU, eU⟩ := isVar_enc u
    obtain ⟨vC, eC⟩ := isVar_enc cl
    obtain ⟨vK, eK⟩ := isVar_enc (crc32c (headerBody nf u cl)).toNat
    rw [hB] at eK vK hH
    generalize hMd : uvarintEnc magicNumber = M at *
    generalize hUd : uvarintEnc u = U at *
    generalize hCd : uvarintEnc cl = C at *
    generalize hfd : (if nf then (1 : UInt8) else 0) = f at *
    generalize hKd : uvarintEnc (crc32c (M ++ ([f] ++ (U ++ C)))).toNat = K at *
    rw [hH] at hw he
    rcases split_alter _ K i e x he with ⟨l1, g1, s1⟩ | ⟨l1, g1, s1⟩
    · -- inside the body
      rw [s1] at hw
      rcases split_alter M _ i e x g1 with ⟨l2, g2, s2⟩ | ⟨l2, g2, s2⟩
      · -- marker
        have hc' := hc.resolve_left (by omega)
        obtain ⟨a1, a2⟩ := varint_alter M vM i e x g2 hx hc'
        rw [s2] at hw
        have := (readHeader_fields w _ U C K t f h a1 vU vC vK (by rw [hw]; simp) hr).1
        omega
      · have hne := crc_set_ne _ i e x g1 hx
        rw [s2] at hw hne
        rcases split_alter [f] _ (i - M.length) e x g2 with ⟨l3, g3, s3⟩ | ⟨l3, g3, s3⟩
        · -- nil flag
          have h0 : i - M.length = 0 := by simpa using l3
          rw [s3, h0, List.set_cons_zero] at hw hne
          have := (readHeader_fields w M U C K t x h vM vU vC vK (by rw [hw]; simp) hr).2
          rw [eK] at this
          exact hne (UInt32.toNat_inj.mp this)
        · have hc' := hc.resolve_left (by simp at l3; omega)
          rw [s3] at hw hne
          rcases split_alter U C _ e x g3 with ⟨l4, g4, s4⟩ | ⟨l4, g4, s4⟩
          · -- ulen
            obtain ⟨a1, _⟩ := varint_alter U vU _ e x g4 hx hc'
            rw [s4] at hw hne
            have := (readHeader_fields w M _ C K t f h vM a1 vC vK (by rw [hw]; simp) hr).2
            rw [eK] at this
            exact hne (UInt32.toNat_inj.mp this)
          · -- clen
            obtain ⟨a1, _⟩ := varint_alter C vC _ e x g4 hx hc'
            rw [s4] at hw hne
            have := (readHeader_fields w M U _ K t f h vM vU a1 vK (by rw [hw]; simp) hr).2
            rw [eK] at this
            exact hne (UInt32.toNat_inj.mp this)
    · -- checksum varint
      have hc' := hc.resolve_left (by simp at l1; omega)
      obtain ⟨a1, a2⟩ := varint_alter K vK _ e x g1 hx hc'
      rw [s1] at hw
      have := (readHeader_fields w M U C _ t f h vM vU vC a1 (by rw [hw]; simp) hr).2
      omega


theorem encRecord_header (c : Compression) (r : GoBytes) (hf : FitsRec c r) :
    ∃ (nf : Bool) (u cl : Nat) (S : Bytes), u < 2 ^ 64 ∧ cl < 2 ^ 64 ∧
      headerOf c r = encHeader nf u cl ∧ encRecord c r = encHeader nf u cl ++ S := by
  cases r with
  | none => exact ⟨true, 0, _, [], by decide, hf, rfl, (List.append_nil _).symm⟩
  | some r => exact ⟨false, r.length, _, stored c r, hf.1, hf.2, rfl, rfl⟩

theorem header_alter_detected_partial (c : Compression) (r : GoBytes) (pre rest : Bytes)
    (hf : FitsRec c r) (i : Nat) (x : UInt8) (hfp : FramePreserving (headerOf c r) i x) :
    (∃ e, readNextS c ((encRecord c r).set i x ++ rest) = .error e) ∧
    (∃ e, readAt c (pre ++ (encRecord c r).set i x ++ rest) pre.length = .error e) := by
  obtain ⟨nf, u, cl, S, hu, hcl, hH, hR⟩ := encRecord_header c r hf
  rw [hH] at hfp
  rw [hR]
  have hi : i < (encHeader nf u cl).length := hfp.1
  have hset : (encHeader nf u cl ++ S).set i x = (encHeader nf u cl).set i x ++ S :=
    List.set_append_left _ _ hi
  have hlen : ((encHeader nf u cl).set i x).length ≤ recordHeaderMax := by
    rw [List.length_set]; exact encHeader_length_le nf u cl hu hcl
  rw [hset]
  constructor
  · apply readNextS_of_header_error
    rw [List.append_assoc]
    obtain ⟨t, ht⟩ := fileWin_bytes ((encHeader nf u cl).set i x) (S ++ rest) hlen
    exact readHeader_altered _ nf u cl t i x hfp ht
  · have hl : (pre ++ ((encHeader nf u cl).set i x ++ S) ++ rest).length =
        pre.length + (encHeader nf u cl).length + S.length + rest.length := by
      simp only [List.length_append, List.length_set]; omega
    unfold readAt
    rw [if_neg (by omega), if_neg (by omega)]
    have hd : (pre ++ ((encHeader nf u cl).set i x ++ S) ++ rest).drop pre.length =
        (encHeader nf u cl).set i x ++ (S ++ rest) := by
      rw [List.append_assoc, List.drop_left, List.append_assoc]
    simp only [hd]
    obtain ⟨t, ht⟩ := mmapWin_bytes ((encHeader nf u cl).set i x) (S ++ rest) hlen
    obtain ⟨e, he⟩ := readHeader_altered _ nf u cl t i x hfp ht
    rw [he]
    exact ⟨e, rfl⟩

/-! ## error kinds of a cut file (only EOF / unexpected EOF) -/

theorem uvarintDecAux_prefix : ∀ (bs t : Bytes) (i x s : Nat),
    uvarintDecAux bs i x s = uvarintDecAux (bs ++ t) i x s ∨
    uvarintDecAux bs i x s = .error .eof ∨ uvarintDecAux bs i x s = .error .unexpectedEof := by
  intro bs
  induction bs with
  | nil =>
    intro t i x s
    by_cases h10 : i ≥ 10
    · left
      cases t with
      | nil => rfl
      | cons b t => simp only [List.nil_append, uvarintDecAux, if_pos h10]
    · right
      simp only [uvarintDecAux, if_neg h10]
      split
      · exact Or.inl rfl
      · exact Or.inr rfl
  | cons b bs ih =>
    intro t i x s
    simp only [List.cons_append, uvarintDecAux]
    by_cases h10 : i ≥ 10
    · simp only [if_pos h10]; exact Or.inl trivial
    · simp only [if_neg h10]
      by_cases hb : b.toNat < 128
      · simp only [if_pos hb]; exact Or.inl trivial
      · simp only [if_neg hb]; exact ih t _ _ _

theorem canonDec_ok_inv (w : Win) (bs : Bytes) (v n : Nat) (h : canonDec w bs = .ok (v, n)) :
    uvarintDec bs = .ok (v, n) ∧ ¬ (n > 1 ∧ bs.getD (n - 1) 0 = 0) := by
  rw [canonDec_eq] at h
  cases hm : w.map (uvarintDec bs) with
  | error e => rw [hm] at h; cases h
  | ok p =>
    obtain ⟨v', n'⟩ := p
    rw [hm] at h
    simp only [] at h
    by_cases hc : n' > 1 ∧ bs.getD (n' - 1) 0 = 0
    · rw [if_pos hc] at h; cases h
    · rw [if_neg hc] at h
      cases h
      exact ⟨Win.map_ok w _ _ hm, hc⟩

theorem canonDec_prefix (w w' : Win) (bs t : Bytes) (v n : Nat) (h0 : w.end0 = .eof) (hN : w.endN = .unexpectedEof)
    (h : canonDec w' (bs ++ t) = .ok (v, n)) :
    canonDec w bs = .ok (v, n) ∨ canonDec w bs = .error .eof ∨ canonDec w bs = .error .unexpectedEof := by
  obtain ⟨hd, hc⟩ := canonDec_ok_inv _ _ _ _ h
  rcases uvarintDecAux_prefix bs t 0 0 0 with e | e | e
  · left
    have hd' : uvarintDec bs = .ok (v, n) := by
      unfold uvarintDec at hd ⊢; rw [e]; exact hd
    obtain ⟨_, a2, _⟩ := uvarintDecAux_ok_ext bs 0 0 0 v n hd'
    rw [canonDec_eq, hd', Win.map_ok']
    simp only []
    rw [if_neg]
    rw [List.getD_eq_getElem?_getD, List.getElem?_append_left (by omega),
      ← List.getD_eq_getElem?_getD] at hc
    exact hc
  · right; left
    have hd' : uvarintDec bs = .error .eof := e
    rw [canonDec_eq, hd']
    simp only [Win.map, h0]
  · right; right
    have hd' : uvarintDec bs = .error .unexpectedEof := e
    rw [canonDec_eq, hd']
    simp only [Win.map, hN]


theorem readHeader_ok_inv (w : Win) (h : RecHeader) (hok : readHeader w = .ok h) :
    ∃ c1 nb rest u c2 cl c3 ex c4,
      canonDec w w.bytes = .ok (magicNumber, c1) ∧ w.bytes.drop c1 = nb :: rest ∧
      canonDec w rest = .ok (u, c2) ∧ canonDec w (rest.drop c2) = .ok (cl, c3) ∧
      canonDec w ((rest.drop c2).drop c3) = .ok (ex, c4) ∧
      (crc32c (w.bytes.take (c1 + 1 + c2 + c3))).toNat = ex ∧
      h = { ulen := u, clen := cl, isNil := nb == 1, hlen := c1 + 1 + c2 + c3 + c4 } := by
  rw [readHeader_eq] at hok
  cases h1 : canonDec w w.bytes with
  | error e => rw [h1] at hok; cases hok
  | ok p1 =>
    obtain ⟨m, c1⟩ := p1
    rw [h1] at hok
    simp only [] at hok
    by_cases hm : m ≠ magicNumber
    · rw [if_pos hm] at hok; cases hok
    · rw [if_neg hm] at hok
      have hm' : m = magicNumber := Decidable.not_not.mp hm
      subst hm'
      cases h2 : w.bytes.drop c1 with
      | nil => rw [h2] at hok; cases hok
      | cons nb rest =>
        rw [h2] at hok
        simp only [] at hok
        cases h3 : canonDec w rest with
        | error e => rw [h3] at hok; cases hok
        | ok p2 =>
          obtain ⟨u, c2⟩ := p2
          rw [h3] at hok
          simp only [] at hok
          cases h4 : canonDec w (rest.drop c2) with
          | error e => rw [h4] at hok; cases hok
          | ok p3 =>
            obtain ⟨cl, c3⟩ := p3
            rw [h4] at hok
            simp only [] at hok
            cases h5 : canonDec w ((rest.drop c2).drop c3) with
            | error e => rw [h5] at hok; cases hok
            | ok p4 =>
              obtain ⟨ex, c4⟩ := p4
              rw [h5] at hok
              simp only [] at hok
              by_cases hcrc : (crc32c (w.bytes.take (c1 + 1 + c2 + c3))).toNat ≠ ex
              · rw [if_pos hcrc] at hok; cases hok
              · rw [if_neg hcrc] at hok
                cases hok
                exact ⟨c1, nb, rest, u, c2, cl, c3, ex, c4, rfl, h2, h3, h4, h5,
                  Decidable.not_not.mp hcrc, rfl⟩

theorem readHeader_err1 (w : Win) (e : Err) (h1 : canonDec w w.bytes = .error e) :
    readHeader w = .error e := by
  rw [readHeader_eq, h1]

theorem readHeader_err2 (w : Win) (c1 : Nat) (h1 : canonDec w w.bytes = .ok (magicNumber, c1))
    (h2 : w.bytes.drop c1 = []) : readHeader w = .error w.end0 := by
  rw [readHeader_eq, h1]; simp only []; rw [if_neg (by simp), h2]

theorem readHeader_err3 (w : Win) (c1 : Nat) (nb : UInt8) (rest : Bytes) (e : Err)
    (h1 : canonDec w w.bytes = .ok (magicNumber, c1)) (h2 : w.bytes.drop c1 = nb :: rest)
    (h3 : canonDec w rest = .error e) : readHeader w = .error e := by
  rw [readHeader_eq, h1]; simp only []; rw [if_neg (by simp), h2]; simp only []; rw [h3]

theorem readHeader_err4 (w : Win) (c1 : Nat) (nb : UInt8) (rest : Bytes) (u c2 : Nat) (e : Err)
    (h1 : canonDec w w.bytes = .ok (magicNumber, c1)) (h2 : w.bytes.drop c1 = nb :: rest)
    (h3 : canonDec w rest = .ok (u, c2)) (h4 : canonDec w (rest.drop c2) = .error e) :
    readHeader w = .error e := by
  rw [readHeader_eq, h1]; simp only []; rw [if_neg (by simp), h2]; simp only []; rw [h3]
  simp only []; rw [h4]

theorem readHeader_err5 (w : Win) (c1 : Nat) (nb : UInt8) (rest : Bytes) (u c2 cl c3 : Nat) (e : Err)
    (h1 : canonDec w w.bytes = .ok (magicNumber, c1)) (h2 : w.bytes.drop c1 = nb :: rest)
    (h3 : canonDec w rest = .ok (u, c2)) (h4 : canonDec w (rest.drop c2) = .ok (cl, c3))
    (h5 : canonDec w ((rest.drop c2).drop c3) = .error e) :
    readHeader w = .error e := by
  rw [readHeader_eq, h1]; simp only []; rw [if_neg (by simp), h2]; simp only []; rw [h3]
  simp only []; rw [h4]; simp only []; rw [h5]

theorem readHeader_ok_of (w : Win) (c1 : Nat) (nb : UInt8) (rest : Bytes) (u c2 cl c3 ex c4 : Nat)
    (h1 : canonDec w w.bytes = .ok (magicNumber, c1)) (h2 : w.bytes.drop c1 = nb :: rest)
    (h3 : canonDec w rest = .ok (u, c2)) (h4 : canonDec w (rest.drop c2) = .ok (cl, c3))
    (h5 : canonDec w ((rest.drop c2).drop c3) = .ok (ex, c4))
    (h6 : (crc32c (w.bytes.take (c1 + 1 + c2 + c3))).toNat = ex) :
    readHeader w = .ok { ulen := u, clen := cl, isNil := nb == 1, hlen := c1 + 1 + c2 + c3 + c4 } := by
  rw [readHeader_eq, h1]; simp only []; rw [if_neg (by simp), h2]; simp only []; rw [h3]
  simp only []; rw [h4]; simp only []; rw [h5]; simp only []; rw [if_neg (by simp [h6])]

/-- over an unlimited window holding a prefix of bytes that parse, the parse succeeds identically or
runs off the end -/
theorem readHeader_prefix (w w' : Win) (t : Bytes) (h : RecHeader)
    (h0 : w.end0 = .eof) (hN : w.endN = .unexpectedEof) (hb : w'.bytes = w.bytes ++ t)
    (hok : readHeader w' = .ok h) :
    readHeader w = .ok h ∨ readHeader w = .error .eof ∨ readHeader w = .error .unexpectedEof := by
  obtain ⟨c1, nb, rest', u, c2, cl, c3, ex, c4, g1, g2, g3, g4, g5, g6, rfl⟩ := readHeader_ok_inv w' h hok
  rw [hb] at g1 g2 g6
  rcases canonDec_prefix w w' _ t _ _ h0 hN g1 with k1 | k1 | k1
  case inr.inl => exact Or.inr (Or.inl (readHeader_err1 w _ k1))
  case inr.inr => exact Or.inr (Or.inr (readHeader_err1 w _ k1))
  obtain ⟨_, l1, _⟩ := canonDec_ok_ext _ _ _ _ k1
  rw [List.drop_append_of_le_length l1] at g2
  cases k2 : w.bytes.drop c1 with
  | nil => exact Or.inr (Or.inl (h0 ▸ readHeader_err2 w c1 k1 k2))
  | cons nb2 rest =>
    rw [k2, List.cons_append] at g2
    obtain ⟨rfl, rfl⟩ := List.cons.inj g2
    have hlen := congrArg List.length k2
    simp only [List.length_drop, List.length_cons] at hlen
    rcases canonDec_prefix w w' _ t _ _ h0 hN g3 with k3 | k3 | k3
    case inr.inl => exact Or.inr (Or.inl (readHeader_err3 w c1 _ _ _ k1 k2 k3))
    case inr.inr => exact Or.inr (Or.inr (readHeader_err3 w c1 _ _ _ k1 k2 k3))
    obtain ⟨_, l2, _⟩ := canonDec_ok_ext _ _ _ _ k3
    rw [List.drop_append_of_le_length l2] at g4 g5
    rcases canonDec_prefix w w' _ t _ _ h0 hN g4 with k4 | k4 | k4
    case inr.inl => exact Or.inr (Or.inl (readHeader_err4 w c1 _ _ _ _ _ k1 k2 k3 k4))
    case inr.inr => exact Or.inr (Or.inr (readHeader_err4 w c1 _ _ _ _ _ k1 k2 k3 k4))
    obtain ⟨_, l3, _⟩ := canonDec_ok_ext _ _ _ _ k4
    rw [List.drop_append_of_le_length l3] at g5
    rcases canonDec_prefix w w' _ t _ _ h0 hN g5 with k5 | k5 | k5
    case inr.inl => exact Or.inr (Or.inl (readHeader_err5 w c1 _ _ _ _ _ _ _ k1 k2 k3 k4 k5))
    case inr.inr => exact Or.inr (Or.inr (readHeader_err5 w c1 _ _ _ _ _ _ _ k1 k2 k3 k4 k5))
    left
    simp only [List.length_drop] at l3
    rw [List.take_append_of_le_length (by omega)] at g6
    exact readHeader_ok_of w c1 _ _ _ _ _ _ _ _ k1 k2 k3 k4 k5 g6


/-- a cut header over the file reader's window fails with EOF / unexpected EOF -/
theorem readHeader_cut (nf : Bool) (u cl : Nat) (hu : u < 2 ^ 64) (hcl : cl < 2 ^ 64) (m : Nat)
    (hm : m < (encHeader nf u cl).length) :
    readHeader (fileWin ((encHeader nf u cl).take m)) = .error .eof ∨
    readHeader (fileWin ((encHeader nf u cl).take m)) = .error .unexpectedEof := by
  have hle := encHeader_length_le nf u cl hu hcl
  have hwin : fileWin ((encHeader nf u cl).take m) =
      { bytes := (encHeader nf u cl).take m, end0 := .eof, endN := .unexpectedEof } := by
    unfold fileWin
    rw [if_neg (by rw [List.length_take]; omega)]
  rw [hwin]
  have hfull := readHeader_enc ⟨encHeader nf u cl, .eof, .eof⟩ nf u cl [] hu hcl (List.append_nil _).symm
  rcases readHeader_prefix ⟨(encHeader nf u cl).take m, .eof, .unexpectedEof⟩ _ ((encHeader nf u cl).drop m) _
    rfl rfl (List.take_append_drop m _).symm hfull with h | h | h
  · have := (readHeader_ok_ext _ _ h).1
    simp only [List.length_take] at this
    omega
  · exact Or.inl h
  · exact Or.inr h

theorem readNextS_trunc_err (c : Compression) (r : GoBytes) (hf : FitsRec c r) (m : Nat)
    (hm : m < (encRecord c r).length) :
    readNextS c ((encRecord c r).take m) = .error .eof ∨
    readNextS c ((encRecord c r).take m) = .error .unexpectedEof := by
  obtain ⟨nf, u, cl, S, hu, hcl, hH, hR⟩ := encRecord_header c r hf
  by_cases hcut : m < (encHeader nf u cl).length
  · -- cut inside the header
    have : (encRecord c r).take m = (encHeader nf u cl).take m := by
      rw [hR, List.take_append_of_le_length (by omega)]
    rw [this]
    unfold readNextS
    rcases readHeader_cut nf u cl hu hcl m hcut with h | h <;> rw [h]
    · exact Or.inl rfl
    · exact Or.inr rfl
  · -- header complete, payload cut: the record is not nil
    cases r with
    | none => simp only [encRecord] at hm hH; rw [headerOf] at hH; rw [hH] at hm; omega
    | some r =>
      obtain ⟨hf1, hf2⟩ := hf
      simp only [encRecord, List.length_append] at hm ⊢
      have hlen : (encHeader false r.length (clenOf c r)).length ≤ m := by
        simp only [headerOf] at hH; rw [hH]; omega
      have htake : (encHeader false r.length (clenOf c r) ++ stored c r).take m =
          encHeader false r.length (clenOf c r) ++
            (stored c r).take (m - (encHeader false r.length (clenOf c r)).length) := by
        rw [List.take_append, List.take_of_length_le hlen]
      rw [htake]
      unfold readNextS
      rw [readHeader_fileWin false r.length _ _ hf1 hf2]
      simp only [expectedLen_enc, Bool.false_eq_true, if_false, List.drop_left, List.length_take]
      rw [if_neg (by omega)]
      split
      · exact Or.inl rfl
      · rw [if_pos (by omega)]; exact Or.inr rfl

theorem readAllS_trunc_err (c : Compression) (hl : LawfulC c) (rs : List GoBytes) :
    ∀ (b fuel : Nat), (∀ r ∈ rs, FitsRec c r) → wholeInAux c rs b < fuel →
      ∃ e, (e = .eof ∨ e = .unexpectedEof) ∧
        readAllS c fuel ((encAll c rs).take b) = (rs.take (wholeInAux c rs b), e) := by
  induction rs with
  | nil =>
    intro b fuel _ hfu
    cases fuel with
    | zero => omega
    | succ f => exact ⟨.eof, Or.inl rfl, by simp [readAllS, readNextS_nil, wholeInAux]⟩
  | cons r rs ih =>
    intro b fuel hf hfu
    cases fuel with
    | zero => omega
    | succ f =>
      simp only [wholeInAux] at hfu ⊢
      by_cases hb : (encRecord c r).length ≤ b
      · rw [if_pos hb] at hfu ⊢
        obtain ⟨e, hk, he⟩ := ih (b - (encRecord c r).length) f (fun x hx => hf x (by simp [hx])) (by omega)
        refine ⟨e, hk, ?_⟩
        have h1 := readNextS_enc c r ((encAll c rs).take (b - (encRecord c r).length)) hl (hf r (by simp))
        rw [encAll_cons, List.take_append, List.take_of_length_le hb]
        simp only [readAllS, h1, List.drop_left, he]
        rw [Nat.add_comm 1, List.take_succ_cons]
      · rw [if_neg hb]
        have hcut := readNextS_trunc_err c r (hf r (by simp)) b (by omega)
        rw [encAll_cons, List.take_append_of_le_length (by omega)]
        rcases hcut with he | he
        · exact ⟨.eof, Or.inl rfl, by simp [readAllS, he]⟩
        · exact ⟨.unexpectedEof, Or.inr rfl, by simp [readAllS, he]⟩

/-- `truncate_prefix` with the error kind: a cut file ends with EOF or unexpected EOF, nothing else -/
theorem truncate_prefix_err (c : Compression) (ct : Nat) (rs : List GoBytes)
    (hl : LawfulC c) (hf : ∀ r ∈ rs, FitsRec c r) (hct : ct ≤ maxCompression) (n : Nat) :
    ∃ e, (e = .eof ∨ e = .unexpectedEof) ∧
      openReadAll c ((fileHeader currentVersion ct ++ encAll c rs).take n)
        = (rs.take (wholeIn c rs n), e) := by
  by_cases hn : n < fileHeaderSize
  · have h0 : wholeIn c rs n = 0 := by
      have := wholeInAux_le_budget c rs (n - fileHeaderSize)
      unfold wholeIn; omega
    have hlen : ((fileHeader currentVersion ct ++ encAll c rs).take n).length < fileHeaderSize := by
      rw [List.length_take]; omega
    have hp : ∃ e, (e = .eof ∨ e = .unexpectedEof) ∧
        parseFileHeader ((fileHeader currentVersion ct ++ encAll c rs).take n) = .error e := by
      unfold parseFileHeader
      rw [if_pos hlen]
      split
      · exact ⟨_, Or.inl rfl, rfl⟩
      · exact ⟨_, Or.inr rfl, rfl⟩
    obtain ⟨e, hk, he⟩ := hp
    rw [openReadAll_of_error c _ e he, h0]
    exact ⟨e, hk, rfl⟩
  · have h8 : fileHeaderSize = 8 := rfl
    have htake : (fileHeader currentVersion ct ++ encAll c rs).take n =
        fileHeader currentVersion ct ++ (encAll c rs).take (n - fileHeaderSize) := by
      rw [List.take_append, List.take_of_length_le (by rw [fileHeader_length]; omega), fileHeader_length, h8]
    have hparse : parseFileHeader (fileHeader currentVersion ct ++ (encAll c rs).take (n - fileHeaderSize))
        = .ok (currentVersion, ct) := by
      have := file_header_accepted currentVersion ct ((encAll c rs).take (n - fileHeaderSize))
        ⟨by decide, Nat.le_refl _⟩ hct
      exact this
    have hd : (fileHeader currentVersion ct ++ (encAll c rs).take (n - fileHeaderSize)).drop fileHeaderSize
        = (encAll c rs).take (n - fileHeaderSize) := List.drop_left' (fileHeader_length _ _)
    rw [htake, openReadAll_of_ok c _ _ hparse]
    unfold readAll wholeIn
    rw [hd]
    apply readAllS_trunc_err c hl rs _ _ hf
    have h1 := wholeInAux_le_budget c rs (n - fileHeaderSize)
    have h2 := wholeInAux_le_length c rs (n - fileHeaderSize)
    have h3 := length_le_encAll c rs
    simp only [List.length_append, fileHeader_length, List.length_take]
    omega

theorem truncate_prefix (c : Compression) (ct : Nat) (rs : List GoBytes)
    (hl : LawfulC c) (hf : ∀ r ∈ rs, FitsRec c r) (hct : ct ≤ maxCompression) (n : Nat) :
    ∃ e, openReadAll c ((fileHeader currentVersion ct ++ encAll c rs).take n)
      = (rs.take (wholeIn c rs n), e) := by
  obtain ⟨e, _, he⟩ := truncate_prefix_err c ct rs hl hf hct n
  exact ⟨e, he⟩

end SST.Proofs
