/-
Proofs for C12 (cut / header-damaged recordio files).
-/
import SST.Spec.RecordIODamage
import SST.Proofs.RecordIO
namespace SST.Proofs
open SST Generated

/-- CRC-32C detects every single-byte change: two byte strings of equal length that differ in exactly one
position have different checksums. -/
theorem crc32c_single_byte (a : Bytes) (i : Nat) (hi : i < a.length) (x : UInt8) (hx : x ≠ a[i]) :
    crc32c (a.set i x) ≠ crc32c a := by
  sorry

/-- CRC-64/ISO likewise (used by C09). -/
theorem crc64_single_byte (a : Bytes) (i : Nat) (hi : i < a.length) (x : UInt8) (hx : x ≠ a[i]) :
    crc64iso (a.set i x) ≠ crc64iso a := by
  sorry

theorem truncate_prefix (c : Compression) (ct : Nat) (rs : List GoBytes)
    (hl : LawfulC c) (hf : ∀ r ∈ rs, FitsRec c r) (hct : ct ≤ maxCompression) (n : Nat) :
    ∃ e, openReadAll c ((fileHeader currentVersion ct ++ encAll c rs).take n)
      = (rs.take (wholeIn c rs n), e) := by
  sorry

theorem truncate_readAt (c : Compression) (ct : Nat) (rs : List GoBytes) (k : Nat) (hk : k < rs.length)
    (hl : LawfulC c) (hf : ∀ r ∈ rs, FitsRec c r) (n : Nat) :
    (offsetOf c rs (k + 1) ≤ n →
      readAt c ((fileHeader currentVersion ct ++ encAll c rs).take n) (offsetOf c rs k) = .ok rs[k]) ∧
    (n < offsetOf c rs (k + 1) →
      ∃ e, readAt c ((fileHeader currentVersion ct ++ encAll c rs).take n) (offsetOf c rs k) = .error e) := by
  sorry

theorem header_alter_detected_partial (c : Compression) (r : GoBytes) (pre rest : Bytes)
    (hf : FitsRec c r) (i : Nat) (x : UInt8) (hfp : FramePreserving (headerOf c r) i x) :
    (∃ e, readNextS c ((encRecord c r).set i x ++ rest) = .error e) ∧
    (∃ e, readAt c (pre ++ (encRecord c r).set i x ++ rest) pre.length = .error e) := by
  sorry

theorem file_header_rejected (v ct : Nat) (rest : Bytes) (hv : v < 2 ^ 32) (hc : ct < 2 ^ 32)
    (hbad : v > currentVersion ∨ v < minVersion ∨ ct > maxCompression) :
    parseFileHeader (le32 v ++ le32 ct ++ rest) = .error .rejected := by
  sorry

theorem file_header_accepted (v ct : Nat) (rest : Bytes)
    (hv : minVersion ≤ v ∧ v ≤ currentVersion) (hc : ct ≤ maxCompression) :
    parseFileHeader (le32 v ++ le32 ct ++ rest) = .ok (v, ct) := by
  sorry

end SST.Proofs
