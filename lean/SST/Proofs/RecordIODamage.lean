/-
Proofs for C12 (cut / header-damaged recordio files).
-/
import SST.Spec.RecordIODamage
import SST.Proofs.RecordIO
import SST.Proofs.Crc
namespace SST.Proofs
open SST Generated

/-- CRC-32C detects every single-byte change: two byte strings of equal length that differ in exactly one
position have different checksums. -/
theorem crc32c_single_byte (a : Bytes) (i : Nat) (hi : i < a.length) (x : UInt8) (hx : x ≠ a[i]) :
    crc32c (a.set i x) ≠ crc32c a :=
  crc32c_single_byte' a i hi x hx

/-- CRC-64/ISO likewise (used by C09). -/
theorem crc64_single_byte (a : Bytes) (i : Nat) (hi : i < a.length) (x : UInt8) (hx : x ≠ a[i]) :
    crc64iso (a.set i x) ≠ crc64iso a :=
  crc64_single_byte' a i hi x hx

theorem truncate_prefix (c : Compression) (ct : Nat) (rs : List GoBytes)
    (hl : LawfulC c) (hf : ∀ r ∈ rs, FitsRec c r) (hct : ct ≤ maxCompression) (n : Nat) :
    ∃ e, openReadAll c ((fileHeader currentVersion ct ++ encAll c rs).take n)
      = (rs.take (wholeIn c rs n), e) := by
  sorry

theorem truncate_readAt (c : Compression) (ct : Nat) (rs : List GoBytes) (k : Nat) (hk : k < rs.length)
    (hl : LawfulC c) (hf : ∀ r ∈ rs, FitsRec c r) (n : Nat) :
    (offsetOf c rs (k + 1) ≤ n →
      readAt c ((fileHeader currentVersion ct ++ encAll c rs).take n) (offsetOf c rs k) = .ok rs[k]) ∧
    (n < offsetOf c rs (k + 1) →
      ∃ e, readAt c ((fileHeader currentVersion ct ++ encAll c rs).take n) (offsetOf c rs k) = .error e) := by
  sorry

theorem header_alter_detected_partial (c : Compression) (r : GoBytes) (pre rest : Bytes)
    (hf : FitsRec c r) (i : Nat) (x : UInt8) (hfp : FramePreserving (headerOf c r) i x) :
    (∃ e, readNextS c ((encRecord c r).set i x ++ rest) = .error e) ∧
    (∃ e, readAt c (pre ++ (encRecord c r).set i x ++ rest) pre.length = .error e) := by
  sorry

theorem le32_length (n : Nat) : (le32 n).length = 4 := rfl

theorem le32Dec_le32 (n : Nat) (h : n < 2 ^ 32) : le32Dec (le32 n) = some n := by
  simp only [le32, le32Dec]
  rw [toNat_ofNat_lt _ (Nat.mod_lt _ (by decide)), toNat_ofNat_lt _ (Nat.mod_lt _ (by decide)),
    toNat_ofNat_lt _ (Nat.mod_lt _ (by decide)), toNat_ofNat_lt _ (Nat.mod_lt _ (by decide))]
  congr 1; omega

theorem parseFileHeader_le32 (v ct : Nat) (rest : Bytes) (hv : v < 2 ^ 32) (hc : ct < 2 ^ 32) :
    parseFileHeader (le32 v ++ le32 ct ++ rest) =
      if v > currentVersion ∨ v < minVersion then .error .rejected
      else if ct > maxCompression then .error .rejected
      else .ok (v, ct) := by
  have h1 : (le32 v ++ le32 ct ++ rest).take 4 = le32 v := by
    rw [List.append_assoc, List.take_left' (le32_length v)]
  have h2 : ((le32 v ++ le32 ct ++ rest).drop 4).take 4 = le32 ct := by
    rw [List.append_assoc, List.drop_left' (le32_length v), List.take_left' (le32_length ct)]
  have h3 : ¬ (le32 v ++ le32 ct ++ rest).length < fileHeaderSize := by
    simp only [List.length_append, le32_length, fileHeaderSize]; omega
  unfold parseFileHeader
  rw [if_neg h3, h1, h2, le32Dec_le32 v hv, le32Dec_le32 ct hc]

theorem file_header_rejected (v ct : Nat) (rest : Bytes) (hv : v < 2 ^ 32) (hc : ct < 2 ^ 32)
    (hbad : v > currentVersion ∨ v < minVersion ∨ ct > maxCompression) :
    parseFileHeader (le32 v ++ le32 ct ++ rest) = .error .rejected := by
  rw [parseFileHeader_le32 v ct rest hv hc]
  by_cases h : v > currentVersion ∨ v < minVersion
  · rw [if_pos h]
  · rw [if_neg h, if_pos (by omega)]

theorem file_header_accepted (v ct : Nat) (rest : Bytes)
    (hv : minVersion ≤ v ∧ v ≤ currentVersion) (hc : ct ≤ maxCompression) :
    parseFileHeader (le32 v ++ le32 ct ++ rest) = .ok (v, ct) := by
  have h1 : currentVersion = 4 := rfl
  have h2 : maxCompression = 3 := rfl
  rw [parseFileHeader_le32 v ct rest (by omega) (by omega)]
  rw [if_neg (by omega), if_neg (by omega)]

end SST.Proofs
