/-
L7, fidelity of the two-phase formulation: the literal interleaved loops of `flushMemstore` (C14's
`Mem.flushLoop`, parametric in the writer) and of `MergeCompact` (C08's iterator `mcNext`), run against the
byte-level writer `SstW`, end in exactly the writer state the collected call list produces.
-/
import SST.Proofs.StackFlush
namespace SST.Proofs.Stack
open SST SST.Stack Generated

def kvCall (p : Bytes × GoBytes) : Call := { key := p.1, value := p.2, fault := .none }

/-- `flushMemstore(m, includeTombstones = true)` against the byte-level writer = the run of the collected calls -/
theorem flushLoop_sstw (cfg : SstCfg) : ∀ (l : List (GoBytes × GoBytes)) (w : SstW),
    (∀ r ∈ (w.run cfg (l.map mkCall)).2, r = .ok) →
    Mem.flushLoop (sstWriteNext cfg) true w l = .ok (w.run cfg (l.map mkCall)).1
  | [], _, _ => rfl
  | (k, v) :: rest, w, h => by
    simp only [List.map_cons, SstW.run, List.mem_cons, forall_eq_or_imp, mkCall] at h ⊢
    obtain ⟨h1, h2⟩ := h
    have hw : sstWriteNext cfg w k v = .ok (w.writeNext cfg (k.getD []) v .none).1 := by
      unfold sstWriteNext
      generalize w.writeNext cfg (k.getD []) v .none = x at h1 ⊢
      obtain ⟨w', r⟩ := x
      simp only at h1
      subst h1
      rfl
    simp only [Mem.flushLoop, if_true, hw]
    exact flushLoop_sstw cfg rest _ h2

/-- the abstract order-checking writer of the Merge model and the byte-level writer agree on acceptance -/
structure SameLast (W : Merge.WState) (w : SstW) : Prop where
  noFault : W.failAt = []
  last : W.lastKey = w.lastKey

theorem writeNext_agree (cfg : SstCfg) (hcmp : cfg.cmp = bytesCmp) {W : Merge.WState} {w : SstW}
    (h : SameLast W w) (k v : GoBytes) (hok : (Merge.writeNext W k v).1 = none) :
    (w.writeNext cfg (k.getD []) v .none).2 = .ok ∧
    SameLast (Merge.writeNext W k v).2 (w.writeNext cfg (k.getD []) v .none).1 ∧
    (Merge.writeNext W k v).2.out = W.out ++ [(k.getD [], v)] := by
  unfold Merge.writeNext at hok ⊢
  unfold SstW.writeNext SstW.orderCheck
  rw [h.noFault] at hok ⊢
  simp only [List.contains_nil, Bool.false_eq_true, if_false] at hok ⊢
  rw [← h.last, hcmp]
  cases hl : W.lastKey with
  | none =>
    simp only [SstW.writeBody]
    exact ⟨trivial, ⟨rfl, rfl⟩, trivial⟩
  | some l =>
    rw [hl] at hok
    simp only at hok ⊢
    cases hc : bytesCmp l (k.getD []) with
    | lt =>
      simp only [SstW.writeBody]
      exact ⟨trivial, ⟨rfl, rfl⟩, trivial⟩
    | eq => rw [hc] at hok; cases hok
    | gt => rw [hc] at hok; cases hok

/-- THE LITERAL COMPACTION LOOP: whenever the Merge model's `MergeCompact` loop (abstract writer, no faults)
succeeds, the same iterator driving the byte-level writer succeeds, every `WriteNext` is accepted, and the
writer ends in the state the run of the abstract writer's new records produces -/
theorem compactLoop_eq (cfg : SstCfg) (hcmp : cfg.cmp = bytesCmp) (endErr : Nat → Option Err)
    (reduce : Merge.ReduceFn) : ∀ (fuel : Nat) (s : Merge.MCIter) (W : Merge.WState) (w : SstW),
    SameLast W w → (Merge.mergeCompactLoop endErr reduce fuel s W).1 = none →
    ∃ extra, (Merge.mergeCompactLoop endErr reduce fuel s W).2.out = W.out ++ extra ∧
      compactLoopSst cfg endErr reduce fuel s w = (none, (w.run cfg (extra.map kvCall)).1) ∧
      ∀ r ∈ (w.run cfg (extra.map kvCall)).2, r = .ok
  | 0, _, _, _, _, h => by simp [Merge.mergeCompactLoop] at h
  | fuel + 1, s, W, w, hs, h => by
    unfold Merge.mergeCompactLoop at h ⊢
    unfold compactLoopSst
    cases hn : Merge.mcNext endErr reduce s with
    | mk stp s' =>
      rw [hn] at h
      cases stp with
      | done =>
        refine ⟨[], by simp, rfl, ?_⟩
        intro r hr; simp [SstW.run] at hr
      | err e => simp at h
      | item k v =>
        simp only at h ⊢
        cases hw : Merge.writeNext W k v with
        | mk e W1 =>
          rw [hw] at h
          cases e with
          | some e => simp at h
          | none =>
            simp only at h ⊢
            have hag := writeNext_agree cfg hcmp hs k v (by rw [hw])
            rw [hw] at hag
            obtain ⟨a1, a2, a3⟩ := hag
            obtain ⟨extra, e1, e2, e3⟩ := compactLoop_eq cfg hcmp endErr reduce fuel s' W1 _ a2 h
            refine ⟨(k.getD [], v) :: extra, ?_, ?_, ?_⟩
            · rw [e1, a3]; simp
            · generalize hx : w.writeNext cfg (k.getD []) v .none = x at a1 e2 ⊢
              obtain ⟨w', r⟩ := x
              simp only at a1
              subst a1
              simp only [List.map_cons, SstW.run, kvCall, hx]
              exact e2
            · intro r hr
              simp only [List.map_cons, SstW.run, kvCall, List.mem_cons] at hr
              rcases hr with rfl | hr
              · exact a1
              · exact e3 r hr

end SST.Proofs.Stack
