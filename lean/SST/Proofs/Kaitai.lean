/-
Proofs for the Kaitai layer (C20).  The schema value `Generated.schema` is regenerated from
kaitai/recordio_v4.ksy on every run; every lemma below that mentions it is re-checked against the current
schema (a change of the field order, of `len_payload` or of the enum table breaks the build of this file).
-/
import SST.Spec.Kaitai
import SST.Proofs.RecordIO
import SST.Generated.Kaitai
namespace SST.Kaitai
open SST Generated SST.Proofs

/-! ## the vlq reader against Go's uvarint writer -/

theorem and128_fin : ∀ i : Fin 256, ((UInt8.ofNat i.val) &&& 128 != 0) = decide (i.val ≥ 128) := by
  decide +kernel

theorem and127_fin : ∀ i : Fin 256, ((UInt8.ofNat i.val) &&& 127).toNat = i.val % 128 := by
  decide +kernel

theorem and128 (b : UInt8) : (b &&& 128 != 0) = decide (b.toNat ≥ 128) := by
  have := and128_fin ⟨b.toNat, UInt8.toNat_lt b⟩
  simpa using this

theorem and127 (b : UInt8) : (b &&& 127).toNat = b.toNat % 128 := by
  have := and127_fin ⟨b.toNat, UInt8.toNat_lt b⟩
  simpa using this

/-- the group loop consumes exactly a uvarint, whatever its size (Go's `PutUvarint` clears the
continuation bit on the last byte only) -/
theorem vlqGroups_enc (n : Nat) : ∀ rest : Bytes, vlqGroups (uvarintEnc n ++ rest) = .ok (uvarintEnc n, rest) := by
  induction n using Nat.strongRecOn with
  | _ n ih =>
    intro rest
    by_cases h : n < 128
    · rw [uvarintEnc_lt n h]
      have hb : (UInt8.ofNat n).toNat = n := toNat_ofNat_lt n (by omega)
      have : ¬ (128 ≤ n) := by omega
      simp [vlqGroups, and128, hb, this]
    · rw [uvarintEnc_ge n h]
      have hb : (UInt8.ofNat (n % 128 + 128)).toNat = n % 128 + 128 := toNat_ofNat_lt _ (by omega)
      have hlt : n / 128 < n := Nat.div_lt_self (by omega) (by omega)
      have hge : 128 ≤ n % 128 + 128 := by omega
      simp only [List.cons_append, vlqGroups, and128, hb, hge, decide_true, if_true, ih (n / 128) hlt rest]

theorem vlqValueAux_enc (m : Nat) (n : Nat) : ∀ i, i + (uvarintEnc n).length ≤ m →
    vlqValueAux m (uvarintEnc n) i = n * 2 ^ (7 * i) := by
  induction n using Nat.strongRecOn with
  | _ n ih =>
    intro i hi
    by_cases h : n < 128
    · rw [uvarintEnc_lt n h] at hi ⊢
      have hb : (UInt8.ofNat n).toNat = n := toNat_ofNat_lt n (by omega)
      have him : ¬ (i ≥ m) := by simp at hi; omega
      simp only [vlqValueAux, him, if_false, and127, hb, Nat.shiftLeft_eq, Nat.mod_eq_of_lt h, Nat.add_zero]
    · rw [uvarintEnc_ge n h] at hi ⊢
      have hb : (UInt8.ofNat (n % 128 + 128)).toNat = n % 128 + 128 := toNat_ofNat_lt _ (by omega)
      have hlt : n / 128 < n := Nat.div_lt_self (by omega) (by omega)
      have him : ¬ (i ≥ m) := by simp at hi; omega
      have hi' : i + 1 + (uvarintEnc (n / 128)).length ≤ m := by simp at hi; omega
      simp only [vlqValueAux, him, if_false, and127, hb, Nat.shiftLeft_eq]
      rw [ih (n / 128) hlt (i + 1) hi']
      have e1 : (n % 128 + 128) % 128 = n % 128 := by omega
      have e2 : n % 128 + 128 * (n / 128) = n := Nat.mod_add_div n 128
      rw [e1, show 7 * (i + 1) = 7 * i + 7 by omega, Nat.pow_add]
      generalize 2 ^ (7 * i) = p
      generalize n / 128 = q at e2
      generalize n % 128 = r at e2
      subst e2
      grind

/-- a uvarint below 2^56 is read back by the Kaitai vlq reader (8 groups) -/
theorem readVlq_enc (n : Nat) (rest : Bytes) (hn : n < vlqLimit) :
    readVlq 8 (uvarintEnc n ++ rest) = .ok (n, rest) := by
  have hl : (uvarintEnc n).length ≤ 8 := uvarintEnc_len_le 7 n (by simpa [vlqLimit] using hn)
  have := vlqValueAux_enc 8 n 0 (by omega)
  simp [readVlq, vlqGroups_enc, vlqValue, this]

/-- the limit is sharp: 2^56 is written as 9 groups, the 9th is consumed and ignored -/
theorem uvarintEnc_two_pow_56 : uvarintEnc (2 ^ 56) = [0x80, 0x80, 0x80, 0x80, 0x80, 0x80, 0x80, 0x80, 0x01] := by
  simp [uvarintEnc]

theorem readVlq_truncates : readVlq 8 (uvarintEnc (2 ^ 56)) = .ok (0, []) := by
  rw [uvarintEnc_two_pow_56]; rfl

/-! ## stream primitives -/

theorem readBytes_append (p rest : Bytes) : readBytes p.length (p ++ rest) = .ok (p, rest) := by
  cases p with
  | nil => simp [readBytes]
  | cons a p =>
    have h1 : ¬ ((a :: p).length = 0) := by simp
    have h2 : ¬ ((a :: p ++ rest).length = 0) := by simp
    have h3 : ¬ ((a :: p ++ rest).length < (a :: p).length) := by simp
    rw [readBytes, if_neg h1, if_neg h2, if_neg h3, List.take_left' rfl, List.drop_left' rfl]

theorem le32Dec_le32' (n : Nat) (h : n < 2 ^ 32) : le32Dec (le32 n) = some n := by
  simp only [le32, le32Dec]
  rw [toNat_ofNat_lt _ (Nat.mod_lt _ (by omega)), toNat_ofNat_lt _ (Nat.mod_lt _ (by omega)),
    toNat_ofNat_lt _ (Nat.mod_lt _ (by omega)), toNat_ofNat_lt _ (Nat.mod_lt _ (by omega))]
  congr 1
  omega

theorem readU4le_le32 (n : Nat) (rest : Bytes) (h : n < 2 ^ 32) : readU4le (le32 n ++ rest) = .ok (n, rest) := by
  have := readBytes_append (le32 n) rest
  rw [show (le32 n).length = 4 from rfl] at this
  simp only [readU4le, this, bind, Except.bind, le32Dec_le32' n h, pure, Except.pure]

/-! ## the interpreter on the regenerated schema -/

/-- the record type of the current schema -/
def recTy : KType := (schema.types.lookup "record").getD default
def hdrTy : KType := (schema.types.lookup "file_header").getD default

def hdrEnv (v ct : Nat) : Env := [("version", .int v), ("compression_type", .int ct)]

def recEnv (nf : Bool) (u cl k : Nat) (p : Bytes) : Env :=
  [("magic", .bytes magicBytes), ("record_nil", .int (if nf then 1 else 0)), ("uncompressed_payload_len", .vlq u),
   ("compressed_payload_len", .vlq cl), ("crc32_checksum", .vlq k), ("payload", .bytes p)]

/-- what `len_payload` must evaluate to -/
def lenPayloadSpec (ct : Nat) (nf : Bool) (u cl : Nat) : Nat := if nf then 0 else if ct = 0 then u else cl

theorem recTy_seq : recTy.seq = [
    { id := "magic", kind := .contents magicBytes },
    { id := "record_nil", kind := .u1 },
    { id := "uncompressed_payload_len", kind := .vlq },
    { id := "compressed_payload_len", kind := .vlq },
    { id := "crc32_checksum", kind := .vlq },
    { id := "payload", kind := .sized (.inst "len_payload") }] := rfl

theorem schema_vlq : schema.vlqMaxGroups = 8 := rfl

/-- `len_payload` of the current schema computes the stored length -/
theorem lenPayload_eval (v ct : Nat) (nf : Bool) (u cl k : Nat) (m : Bytes) :
    evalNat schema "file_header" (hdrEnv v ct) recTy
      [("magic", .bytes m), ("record_nil", .int (if nf then 1 else 0)), ("uncompressed_payload_len", .vlq u),
       ("compressed_payload_len", .vlq cl), ("crc32_checksum", .vlq k)] (.inst "len_payload")
      = .ok (lenPayloadSpec ct nf u cl) := by
  have hi : recTy.instances.lookup "len_payload" = some
      (.ite (.eq (.field "record_nil") (.int 1)) (.int 0) (.ite (.eq (.rootField "file_header" "compression_type") (.enumLit "compression" "none")) (.vlqValue "uncompressed_payload_len") (.vlqValue "compressed_payload_len"))) := rfl
  have he : lookupEnum schema "compression" "none" = some 0 := rfl
  by_cases h0 : ct = 0
  · subst h0
    cases nf <;> simp [evalNat, hi, evalBase, he, hdrEnv, List.lookup, lenPayloadSpec]
  · have hb : (ct == 0) = false := by simp [h0]
    cases nf <;> simp [evalNat, hi, evalBase, he, hdrEnv, List.lookup, lenPayloadSpec, h0, hb]


theorem parseRecord_bytes (v ct : Nat) (nf : Bool) (u cl : Nat) (p rest : Bytes)
    (hu : u < vlqLimit) (hc : cl < vlqLimit) (hp : p.length = lenPayloadSpec ct nf u cl) :
    parseObj schema "file_header" (hdrEnv v ct) recTy (encHeader nf u cl ++ p ++ rest)
      = .ok (recEnv nf u cl (crc32c (headerBody nf u cl)).toNat p, rest) := by
  have hk : (crc32c (headerBody nf u cl)).toNat < vlqLimit := by
    have := UInt32.toNat_lt (crc32c (headerBody nf u cl))
    have : (2:Nat) ^ 32 < vlqLimit := by decide
    omega
  have hbytes : encHeader nf u cl ++ p ++ rest = magicBytes ++ ((if nf then 1 else 0) ::
      (uvarintEnc u ++ (uvarintEnc cl ++ (uvarintEnc (crc32c (headerBody nf u cl)).toNat ++ (p ++ rest))))) := by
    simp [encHeader, headerBody, magicBytes]
  rw [hbytes]
  generalize (crc32c (headerBody nf u cl)).toNat = k at hk ⊢
  have hrb : readBytes (lenPayloadSpec ct nf u cl) (p ++ rest) = .ok (p, rest) := by
    rw [← hp]; exact readBytes_append p rest
  simp only [parseObj, recTy_seq, parseSeq, parseField, readBytes_append, if_true, readU1, schema_vlq,
    readVlq_enc _ _ hu, readVlq_enc _ _ hc, readVlq_enc _ _ hk, List.nil_append, List.cons_append,
    ]
  have hnf : (if nf = true then (1 : UInt8) else 0).toNat = if nf = true then 1 else 0 := by cases nf <;> rfl
  simp only [hnf, lenPayload_eval, hrb, recEnv]

/-- relation between the header's compression code and the writer's compressor -/
def CodeMatches (ct : Nat) (c : Compression) : Prop := ct = 0 ↔ c = none

theorem mkRecord_recEnv (nf : Bool) (u cl k : Nat) (p : Bytes) :
    mkRecord (recEnv nf u cl k p) = .ok { recordNil := if nf then 1 else 0, ulen := u, clen := cl, crc := k, payload := p } := by
  simp [mkRecord, recEnv, List.lookup]

/-- one written record, followed by anything, is read as the expected record object -/
theorem parseRecord_enc (v ct : Nat) (c : Compression) (r : GoBytes) (rest : Bytes)
    (hm : CodeMatches ct c) (hf : KFitsRec c r) :
    ∃ env, parseObj schema "file_header" (hdrEnv v ct) recTy (encRecord c r ++ rest) = .ok (env, rest) ∧
      mkRecord env = .ok (expectedRec c r) := by
  cases r with
  | none =>
    refine ⟨_, ?_, mkRecord_recEnv true 0 (clenOf c []) _ []⟩
    have := parseRecord_bytes v ct true 0 (clenOf c []) [] rest (by decide) hf (by simp [lenPayloadSpec])
    simpa [encRecord] using this
  | some r =>
    refine ⟨_, ?_, mkRecord_recEnv false r.length (clenOf c r) _ (stored c r)⟩
    have hp : (stored c r).length = lenPayloadSpec ct false r.length (clenOf c r) := by
      cases c with
      | none => have : ct = 0 := hm.mpr rfl
                simp [stored, lenPayloadSpec, this]
      | some cc => have : ¬ ct = 0 := fun h => by have := hm.mp h; simp at this
                   simp [stored, lenPayloadSpec, clenOf, this]
    have := parseRecord_bytes v ct false r.length (clenOf c r) (stored c r) rest hf.1 hf.2 hp
    simpa [encRecord] using this

theorem parseRecords_enc (v ct : Nat) (c : Compression) (hm : CodeMatches ct c) (rs : List GoBytes) :
    ∀ fuel, (∀ r ∈ rs, KFitsRec c r) → (encAll c rs).length < fuel →
    parseRecords schema "file_header" (hdrEnv v ct) recTy fuel (encAll c rs) = .ok (rs.map (expectedRec c)) := by
  induction rs with
  | nil =>
    intro fuel _ hfuel
    cases fuel with
    | zero => simp at hfuel
    | succ f => simp [parseRecords]
  | cons r rs ih =>
    intro fuel hf hfuel
    cases fuel with
    | zero => simp at hfuel
    | succ f =>
      have hpos := encRecord_pos c r
      have hne : ¬ (encRecord c r ++ encAll c rs).isEmpty = true := by
        simp [List.isEmpty_iff]; intro h; rw [h] at hpos; simp at hpos
      obtain ⟨env, h1, h2⟩ := parseRecord_enc v ct c r (encAll c rs) hm (hf r (by simp))
      have hlen : (encAll c rs).length < f := by
        simp [encAll_cons] at hfuel; omega
      rw [encAll_cons, parseRecords, if_neg hne, h1]
      simp only [h2, ih f (fun r hr => hf r (by simp [hr])) hlen, List.map_cons]

theorem hdrTy_seq : hdrTy.seq = [
    { id := "version", kind := .u4le none },
    { id := "compression_type", kind := .u4le (some "compression") }] := rfl

theorem parseHeader_enc (v ct : Nat) (rest : Bytes) (hv : v < 2 ^ 32) (hc : ct < 2 ^ 32) :
    parseObj schema "file_header" [] hdrTy (fileHeader v ct ++ rest) = .ok (hdrEnv v ct, rest) := by
  simp only [parseObj, hdrTy_seq, parseSeq, parseField, fileHeader, List.append_assoc,
    readU4le_le32 _ _ hv, readU4le_le32 _ _ hc, List.nil_append, List.cons_append, hdrEnv]

theorem mkHdr_hdrEnv (v ct : Nat) : mkHdr (hdrEnv v ct) = .ok { version := v, compression := ct } := by
  simp [mkHdr, hdrEnv, List.lookup]

theorem schema_top : schema.top = [{ id := "file_header", type := "file_header", repeatEos := false },
    { id := "record", type := "record", repeatEos := true }] := rfl

theorem schema_types : schema.types.lookup "file_header" = some hdrTy ∧ schema.types.lookup "record" = some recTy :=
  ⟨rfl, rfl⟩

theorem kaitai_decodes (c : Compression) (v ct : Nat) (rs : List GoBytes)
    (hv : v < 2 ^ 32) (hc : ct < 2 ^ 32) (hm : CodeMatches ct c) (hf : ∀ r ∈ rs, KFitsRec c r) :
    kaitaiParse schema (fileHeader v ct ++ encAll c rs)
      = .ok ({ version := v, compression := ct }, rs.map (expectedRec c)) := by
  simp only [kaitaiParse, schema_top, schema_types.1, schema_types.2, Bool.false_or, Bool.not_true,
    parseHeader_enc v ct _ hv hc, mkHdr_hdrEnv,
    parseRecords_enc v ct c hm rs _ hf (Nat.lt_succ_self _)]
  simp


/-- the Kaitai reader against the native sequential reader (C04.seq_roundtrip) -/
theorem kaitai_agrees_native (c : Compression) (ct : Nat) (rs : List GoBytes)
    (hct : ct < 2 ^ 32) (hm : CodeMatches ct c) (hl : LawfulC c) (hf : ∀ r ∈ rs, KFitsRec c r) :
    ∃ hdr krs, kaitaiParse schema (fileHeader currentVersion ct ++ encAll c rs) = .ok (hdr, krs) ∧
      hdr.version = currentVersion ∧ hdr.compression = ct ∧
      krs.map KRecord.isNil = (readAll c (fileHeader currentVersion ct ++ encAll c rs)).1.map Option.isNone ∧
      krs.map KRecord.payload = (readAll c (fileHeader currentVersion ct ++ encAll c rs)).1.map
        (fun r => match r with | none => [] | some x => stored c x) := by
  refine ⟨_, _, kaitai_decodes c currentVersion ct rs (by decide) hct hm hf, rfl, rfl, ?_, ?_⟩
  · rw [seq_roundtrip c ct rs hl (fun r hr => (hf r hr).fits)]
    simp only [List.map_map]
    apply List.map_congr_left
    intro r _
    exact expectedRec_isNil c r
  · rw [seq_roundtrip c ct rs hl (fun r hr => (hf r hr).fits)]
    simp only [List.map_map]
    apply List.map_congr_left
    intro r _
    exact expectedRec_payload c r

/-! ## zero padding (direct-I/O images) -/

/-- what the Kaitai reader reports for a tail of k+1 zero bytes where a record should start -/
def padErr (k : Nat) : Err := if k + 1 < 3 then .unexpectedEof else .magic

theorem parseRecord_zeros (v ct k : Nat) :
    parseObj schema "file_header" (hdrEnv v ct) recTy (List.replicate (k + 1) 0) = .error (padErr k) := by
  match k with
  | 0 => simp [parseObj, recTy_seq, parseSeq, parseField, readBytes, magicBytes, padErr]
  | 1 => simp [parseObj, recTy_seq, parseSeq, parseField, readBytes, magicBytes, padErr, List.replicate]
  | k + 2 =>
    have h3 : ¬ (k + 1 + 1 + 1 < 3) := by omega
    simp [h3, parseObj, recTy_seq, parseSeq, parseField, readBytes, magicBytes, padErr, List.replicate]

theorem parseRecords_enc_pad (v ct : Nat) (c : Compression) (hm : CodeMatches ct c) (k : Nat) (rs : List GoBytes) :
    ∀ fuel, (∀ r ∈ rs, KFitsRec c r) → (encAll c rs).length < fuel →
    parseRecords schema "file_header" (hdrEnv v ct) recTy fuel (encAll c rs ++ List.replicate (k + 1) 0) = .error (padErr k) := by
  induction rs with
  | nil =>
    intro fuel _ hfuel
    cases fuel with
    | zero => simp at hfuel
    | succ f =>
      have hne : ¬ (List.replicate (k + 1) (0 : UInt8)).isEmpty = true := by simp [List.replicate]
      rw [encAll_nil, List.nil_append, parseRecords, if_neg hne, parseRecord_zeros]
  | cons r rs ih =>
    intro fuel hf hfuel
    cases fuel with
    | zero => simp at hfuel
    | succ f =>
      have hpos := encRecord_pos c r
      have hne : ¬ (encRecord c r ++ (encAll c rs ++ List.replicate (k + 1) 0)).isEmpty = true := by
        simp [List.isEmpty_iff]
      obtain ⟨env, h1, h2⟩ := parseRecord_enc v ct c r (encAll c rs ++ List.replicate (k + 1) 0) hm (hf r (by simp))
      have hlen : (encAll c rs).length < f := by
        simp [encAll_cons] at hfuel; omega
      rw [encAll_cons, List.append_assoc, parseRecords, if_neg hne, h1]
      simp only [h2, ih f (fun r hr => hf r (by simp [hr])) hlen]

theorem kaitai_rejects_padding (c : Compression) (v ct : Nat) (rs : List GoBytes) (k : Nat)
    (hv : v < 2 ^ 32) (hc : ct < 2 ^ 32) (hm : CodeMatches ct c) (hf : ∀ r ∈ rs, KFitsRec c r) :
    kaitaiParse schema (fileHeader v ct ++ encAll c rs ++ List.replicate (k + 1) 0) = .error (padErr k) := by
  rw [List.append_assoc]
  simp only [kaitaiParse, schema_top, schema_types.1, schema_types.2, Bool.false_or, Bool.not_true,
    parseHeader_enc v ct _ hv hc, mkHdr_hdrEnv,
    parseRecords_enc_pad v ct c hm k rs ((encAll c rs ++ List.replicate (k + 1) 0).length + 1) hf
      (by simp only [List.length_append]; omega)]
  simp

/-! ## facts decided over the regenerated tables -/

/-- every compression code the writer accepts (0 … `maxCompression`, from the Go constants) has a name in the
schema's `compression` enum -/
theorem codes_known : ∀ code, code < maxCompression + 1 →
    ((schema.enums.lookup "compression").getD []).lookup code ≠ none := by
  decide

/-- the checked-in generated Go reader agrees with the schema on everything the translator extracts -/
theorem go_reader_matches :
    schema.enums.lookup "compression" = some goReaderEnum ∧
    recTy.seq.map (·.id) = goReaderRecordFields ∧
    hdrTy.seq.map (·.id) = goReaderHeaderFields ∧
    recTy.seq.head? = some { id := "magic", kind := .contents goReaderMagic } ∧
    recTy.instances.lookup "len_payload" = some goReaderLenPayload ∧
    schema.vlqMaxGroups = goReaderVlqMaxGroups := by
  decide

end SST.Kaitai
