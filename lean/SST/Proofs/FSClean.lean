/-
L6-fs, the clean-up half of recovery (repairCompactions + reconstructSSTables) as a memoryless event loop:
every event keeps the disk well-formed, keeps what the big-step recovery computes, and lowers the measure.
-/
import SST.Proofs.FSBasic
namespace SST.Proofs.FS
open SST SST.DBM SST.FS SST.Proofs.DB

/-- the tables `phase1` + `phase2` leave (when `phase2` does not fail) -/
def normT (d : Disk) : List (Nat × TableDir) := (d.comps.foldl finishComp d.tables).filter (fun p => isComplete p.2)

/-- the disk `phase1` + `phase2` leave -/
def norm (d : Disk) : Disk := { tables := normT d, walDir := d.walDir, wal := d.wal, comps := [] }

theorem norm_congr {d d' : Disk} (h1 : normT d' = normT d) (h2 : d'.walDir = d.walDir) (h3 : d'.wal = d.wal) :
    norm d' = norm d := by
  unfold norm; rw [h1, h2, h3]

theorem effTables_eq (d : Disk) : effTables d = tblsOf (norm d).tables := by
  simp only [effTables, phase1, norm, normT, tblsOf_filter_complete]

/-! ## compaction directories -/

theorem foldl_finishComp_unflagged (cs : List CompDir) (ts : List (Nat × TableDir))
    (h : ∀ c ∈ cs, c.flag = none) : cs.foldl finishComp ts = ts := by
  induction cs generalizing ts with
  | nil => rfl
  | cons c cs ih =>
    rw [List.foldl_cons]
    have hc := h c List.mem_cons_self
    have : finishComp ts c = ts := by simp [finishComp, hc]
    rw [this]
    exact ih ts (fun c' hc' => h c' (List.mem_cons_of_mem _ hc'))

theorem isFlagged_iff (c : CompDir) : isFlagged c = true ↔ ∃ m, c.flag = some m := by
  unfold isFlagged; cases c.flag <;> simp

theorem not_isFlagged_iff (c : CompDir) : isFlagged c = false ↔ c.flag = none := by
  unfold isFlagged; cases c.flag <;> simp

/-- with at most one flagged directory the fold finishes that one, or nothing -/
theorem foldl_finishComp_one (cs : List CompDir) (ts : List (Nat × TableDir))
    (h : (cs.filter isFlagged).length ≤ 1) :
    (cs.foldl finishComp ts = ts ∧ ∀ c ∈ cs, c.flag = none) ∨
    (∃ c m, c ∈ cs ∧ c.flag = some m ∧ cs.foldl finishComp ts = insertT m.replacement c.out (rmInputs m ts)) := by
  induction cs generalizing ts with
  | nil => exact Or.inl ⟨rfl, fun c hc => by cases hc⟩
  | cons c cs ih =>
    rw [List.foldl_cons]
    cases hf : c.flag with
    | none =>
      have h1 : isFlagged c = false := (not_isFlagged_iff c).2 hf
      rw [List.filter_cons_of_neg (by simp [h1])] at h
      have h2 : finishComp ts c = ts := by simp [finishComp, hf]
      rw [h2]
      rcases ih ts h with (⟨e, hn⟩ | ⟨c', m, hc', hm, e⟩)
      · refine Or.inl ⟨e, ?_⟩
        intro x hx
        rcases List.mem_cons.1 hx with (hx | hx)
        · exact hx ▸ hf
        · exact hn x hx
      · exact Or.inr ⟨c', m, List.mem_cons_of_mem _ hc', hm, e⟩
    | some m =>
      have h1 : isFlagged c = true := (isFlagged_iff c).2 ⟨m, hf⟩
      rw [List.filter_cons_of_pos h1, List.length_cons] at h
      have h0 : cs.filter isFlagged = [] := List.eq_nil_of_length_eq_zero (by omega)
      have hall : ∀ x ∈ cs, x.flag = none := by
        intro x hx
        have := List.filter_eq_nil_iff.1 h0 x hx
        exact (not_isFlagged_iff x).1 (by simpa using this)
      rw [foldl_finishComp_unflagged cs _ hall]
      refine Or.inr ⟨c, m, List.mem_cons_self, hf, ?_⟩
      simp [finishComp, hf]

theorem flagged_unique {cs : List CompDir} (h : (cs.filter isFlagged).length ≤ 1) {a b : CompDir}
    (ha : a ∈ cs) (hb : b ∈ cs) (hfa : isFlagged a = true) (hfb : isFlagged b = true) : a = b := by
  have ha' : a ∈ cs.filter isFlagged := List.mem_filter.2 ⟨ha, hfa⟩
  have hb' : b ∈ cs.filter isFlagged := List.mem_filter.2 ⟨hb, hfb⟩
  match hl : cs.filter isFlagged, h with
  | [], _ => rw [hl] at ha'; cases ha'
  | [x], _ =>
    rw [hl] at ha' hb'
    simp only [List.mem_singleton] at ha' hb'
    rw [ha', hb']
  | _ :: _ :: _, h => simp at h

theorem coveredBy_iff (cs : List CompDir) (g : Nat) :
    coveredBy cs g = true ↔ ∃ c ∈ cs, ∃ m, c.flag = some m ∧ (g ∈ m.inputs ∨ g = m.replacement) := by
  unfold coveredBy
  rw [List.any_eq_true]
  constructor
  · rintro ⟨c, hc, h⟩
    refine ⟨c, hc, ?_⟩
    cases hf : c.flag with
    | none => simp [hf] at h
    | some m =>
      refine ⟨m, rfl, ?_⟩
      simpa [hf] using h
  · rintro ⟨c, hc, m, hf, h⟩
    refine ⟨c, hc, ?_⟩
    simpa [hf] using h

/-! ## `phase2 ∘ phase1` never fails on a well-formed disk, and yields `norm` -/

theorem phase1_no_partMeta (d : Disk) (h : DiskOk d) : ∀ p ∈ (phase1 d).tables, isPartMeta p.2 = false := by
  intro p hp
  simp only [phase1] at hp
  rcases foldl_finishComp_one d.comps d.tables h.oneFlag with (⟨e, hn⟩ | ⟨c, m, hc, hm, e⟩)
  · rw [e] at hp
    cases hpm : isPartMeta p.2 with
    | false => rfl
    | true =>
      obtain ⟨c, hc, m, hf, _⟩ := (coveredBy_iff _ _).1 (h.covered p hp hpm)
      rw [hn c hc] at hf; cases hf
  · rw [e] at hp
    rcases mem_insertT hp with (hp | hp)
    · cases hpm : isPartMeta p.2 with
      | false => rfl
      | true =>
        have hp' := List.mem_filter.1 hp
        obtain ⟨c', hc', m', hf', hcov⟩ := (coveredBy_iff _ _).1 (h.covered p hp'.1 hpm)
        have : c' = c := flagged_unique h.oneFlag hc' hc ((isFlagged_iff _).2 ⟨m', hf'⟩) ((isFlagged_iff _).2 ⟨m, hm⟩)
        subst this
        rw [hm] at hf'; cases hf'
        have h2 := hp'.2
        rcases hcov with (hcov | hcov)
        · simp [hcov] at h2
        · simp [hcov] at h2
    · subst hp
      have := h.flagOut c hc ((isFlagged_iff _).2 ⟨m, hm⟩)
      cases hout : c.out with
      | part b => rw [hout] at this; cases this
      | complete cells => rfl

theorem phase12_ok (d : Disk) (h : DiskOk d) : phase2 (phase1 d) = .ok (norm d) := by
  unfold phase2
  have : (phase1 d).tables.any (fun p => isPartMeta p.2) = false := by
    rw [List.any_eq_false]
    intro p hp
    simp [phase1_no_partMeta d h p hp]
  rw [this]
  rfl

/-! ## single clean-up events -/

/-- removing (a file of) an unflagged compaction directory -/
theorem unflagged_event_ok (d : Disk) (h : DiskOk d) (c : CompDir) (hc : c ∈ d.comps) (hf : c.flag = none)
    (e : Ev) (he : e = .compUnlinkPart c.id ∨ e = .compRmdir c.id) :
    DiskOk (applyEv d e) ∧ norm (applyEv d e) = norm d := by
  -- the directory is the only one with its name
  have huniq : ∀ x ∈ d.comps, x.id = c.id → x = c := by
    intro x hx hid
    have hp := h.compIds
    rw [List.pairwise_map] at hp
    apply Classical.byContradiction
    intro hne
    rcases List.mem_iff_append.1 hx with ⟨l1, l2, hl⟩
    rw [hl] at hp hc
    rw [List.pairwise_append] at hp
    rcases List.mem_append.1 hc with (hc1 | hc1)
    · exact hp.2.2 c hc1 x List.mem_cons_self hid.symm
    · rcases List.mem_cons.1 hc1 with (hc1 | hc1)
      · exact hne hc1.symm
      · exact (List.pairwise_cons.1 hp.2.1).1 c hc1 hid
  rcases he with (rfl | rfl)
  · -- compUnlinkPart
    have hcomps : (applyEv d (.compUnlinkPart c.id)).comps =
        d.comps.map (fun x => if x.id == c.id then { x with out := .part false, flag := none } else x) := rfl
    have hflagsame : ∀ x ∈ d.comps, (if x.id == c.id then ({ x with out := .part false, flag := none } : CompDir) else x).flag = x.flag := by
      intro x hx
      by_cases hid : x.id = c.id
      · have := huniq x hx hid; subst this; simp [hf]
      · simp [hid]
    have hfold : ∀ (cs : List CompDir) (ts : List (Nat × TableDir)), (∀ x ∈ cs, x ∈ d.comps) →
        (cs.map (fun x => if x.id == c.id then ({ x with out := .part false, flag := none } : CompDir) else x)).foldl finishComp ts =
          cs.foldl finishComp ts := by
      intro cs
      induction cs with
      | nil => intro ts _; rfl
      | cons x cs ih =>
        intro ts hsub
        rw [List.map_cons, List.foldl_cons, List.foldl_cons]
        have hx := hsub x List.mem_cons_self
        have : finishComp ts (if x.id == c.id then ({ x with out := .part false, flag := none } : CompDir) else x) = finishComp ts x := by
          by_cases hid : x.id = c.id
          · have := huniq x hx hid; subst this; simp [finishComp, hf]
          · simp [hid]
        rw [this]
        exact ih _ (fun y hy => hsub y (List.mem_cons_of_mem _ hy))
    refine ⟨?_, ?_⟩
    · refine { h with compIds := ?_, oneFlag := ?_, flagOut := ?_, covered := ?_ }
      · rw [hcomps, List.map_map]
        have : ((fun x : CompDir => x.id) ∘ fun x => if x.id == c.id then ({ x with out := .part false, flag := none } : CompDir) else x) = fun x => x.id := by
          funext x; by_cases hid : x.id = c.id <;> simp [hid]
        rw [this]; exact h.compIds
      · rw [hcomps, List.filter_map]
        rw [List.length_map]
        have : (d.comps.filter (isFlagged ∘ fun x => if x.id == c.id then ({ x with out := .part false, flag := none } : CompDir) else x)) = d.comps.filter isFlagged := by
          apply List.filter_congr
          intro x hx
          simp only [Function.comp, isFlagged, hflagsame x hx]
        rw [this]; exact h.oneFlag
      · intro x hx hfl
        rw [hcomps] at hx
        obtain ⟨y, hy, rfl⟩ := List.mem_map.1 hx
        by_cases hid : y.id = c.id
        · have := huniq y hy hid; subst this
          simp [isFlagged] at hfl
        · simp only [hid, beq_iff_eq, if_false] at hfl ⊢
          exact h.flagOut y hy hfl
      · intro p hp hpm
        have hcov := (coveredBy_iff _ _).1 (h.covered p hp hpm)
        obtain ⟨x, hx, m, hxm, hg⟩ := hcov
        apply (coveredBy_iff _ _).2
        refine ⟨_, List.mem_map.2 ⟨x, hx, rfl⟩, m, ?_, hg⟩
        rw [hflagsame x hx]; exact hxm
    · refine norm_congr ?_ rfl rfl
      unfold normT
      rw [hcomps, hfold d.comps _ (fun x hx => hx)]
      rfl
  · -- compRmdir
    have hcomps : (applyEv d (.compRmdir c.id)).comps = d.comps.filter (·.id != c.id) := rfl
    have hfold : ∀ (cs : List CompDir) (ts : List (Nat × TableDir)), (∀ x ∈ cs, x ∈ d.comps) →
        (cs.filter (·.id != c.id)).foldl finishComp ts = cs.foldl finishComp ts := by
      intro cs
      induction cs with
      | nil => intro ts _; rfl
      | cons x cs ih =>
        intro ts hsub
        have hx := hsub x List.mem_cons_self
        by_cases hid : x.id = c.id
        · have := huniq x hx hid; subst this
          rw [List.filter_cons_of_neg (by simp), List.foldl_cons]
          have : finishComp ts x = ts := by simp [finishComp, hf]
          rw [this]
          exact ih _ (fun y hy => hsub y (List.mem_cons_of_mem _ hy))
        · rw [List.filter_cons_of_pos (by simpa using hid), List.foldl_cons, List.foldl_cons]
          exact ih _ (fun y hy => hsub y (List.mem_cons_of_mem _ hy))
    refine ⟨?_, ?_⟩
    · refine { h with compIds := ?_, oneFlag := ?_, flagOut := ?_, covered := ?_ }
      · rw [hcomps]
        exact List.Pairwise.sublist (List.Sublist.map _ List.filter_sublist) h.compIds
      · rw [hcomps]
        refine Nat.le_trans ?_ h.oneFlag
        rw [List.filter_filter]
        apply List.Sublist.length_le
        rw [← List.filter_filter]
        -- filter by both ⊆ filter isFlagged
        have : (d.comps.filter (fun a => isFlagged a && (a.id != c.id))) = (d.comps.filter isFlagged).filter (fun a => a.id != c.id) := by
          rw [List.filter_filter]
          apply List.filter_congr; intro x _; exact Bool.and_comm _ _
        rw [List.filter_filter, this]
        exact List.filter_sublist
      · intro x hx hfl
        rw [hcomps] at hx
        exact h.flagOut x (List.mem_filter.1 hx).1 hfl
      · intro p hp hpm
        obtain ⟨x, hx, m, hxm, hg⟩ := (coveredBy_iff _ _).1 (h.covered p hp hpm)
        apply (coveredBy_iff _ _).2
        refine ⟨x, ?_, m, hxm, hg⟩
        rw [hcomps]
        refine List.mem_filter.2 ⟨hx, ?_⟩
        have : x.id ≠ c.id := by
          intro hid
          have := huniq x hx hid; subst this
          rw [hf] at hxm; cases hxm
        simpa using this
    · refine norm_congr ?_ rfl rfl
      unfold normT
      rw [hcomps, hfold d.comps _ (fun x hx => hx)]
      rfl

/-- with the single flagged directory `c`: whatever happens to the directory of one of its inputs / its replacement
path (short of removing it) changes nothing -/
theorem input_upd_ok (d : Disk) (h : DiskOk d) (c : CompDir) (m : CompMeta) (hc : d.comps = [c])
    (hf : c.flag = some m) (g : Nat) (hg : g ∈ m.inputs ∨ g = m.replacement) (f : TableDir → TableDir) :
    DiskOk { d with tables := updT g f d.tables } ∧ norm { d with tables := updT g f d.tables } = norm d := by
  have hq : (fun n : Nat => !(m.inputs.contains n || n == m.replacement)) g = false := by
    rcases hg with (hg | hg)
    · simp [hg]
    · simp [hg]
  have hcovg : coveredBy d.comps g = true := by
    apply (coveredBy_iff _ _).2
    exact ⟨c, by rw [hc]; exact List.mem_singleton.2 rfl, m, hf, hg⟩
  refine ⟨?_, ?_⟩
  · refine { h with tblSorted := ?_, covered := ?_ }
    · show ((updT g f d.tables).map (·.1)).Pairwise (· < ·)
      rw [keys_updT]; exact h.tblSorted
    · intro p hp hpm
      have hp : p ∈ updT g f d.tables := hp
      obtain ⟨q, hq', rfl⟩ := List.mem_map.1 hp
      by_cases hid : q.1 = g
      · have : (q.1 == g) = true := by simpa using hid
        simp only [this, if_true]
        show coveredBy d.comps q.1 = true
        rw [hid]; exact hcovg
      · have : (q.1 == g) = false := by simpa using hid
        simp only [this] at hpm ⊢
        exact h.covered q hq' hpm
  · refine norm_congr ?_ rfl rfl
    unfold normT
    show ((d.comps).foldl finishComp (updT g f d.tables)).filter _ = _
    rw [hc]
    simp only [List.foldl_cons, List.foldl_nil, finishComp, hf]
    unfold rmInputs
    rw [filter_updT (fun n => !(m.inputs.contains n || n == m.replacement)) g _ _ hq]

/-- with the single flagged directory `c`: an unlink or rmdir on one of its inputs / its replacement path -/
theorem input_event_ok (d : Disk) (h : DiskOk d) (c : CompDir) (m : CompMeta) (hc : d.comps = [c])
    (hf : c.flag = some m) (g : Nat) (hg : g ∈ m.inputs ∨ g = m.replacement)
    (e : Ev) (he : (∃ keep, e = .tblUnlinkPart g keep) ∨ e = .tblRmdir g ∨ (∃ j, e = .tblLoadable g j)) :
    DiskOk (applyEv d e) ∧ norm (applyEv d e) = norm d := by
  have hq : (fun n : Nat => !(m.inputs.contains n || n == m.replacement)) g = false := by
    rcases hg with (hg | hg)
    · simp [hg]
    · simp [hg]
  rcases he with (⟨keep, rfl⟩ | rfl | ⟨j, rfl⟩)
  · exact input_upd_ok d h c m hc hf g hg (TableDir.unlink keep)
  · have htab : (applyEv d (.tblRmdir g)).tables = eraseT g d.tables := rfl
    refine ⟨?_, ?_⟩
    · refine { h with tblSorted := ?_, covered := ?_ }
      · rw [htab]; exact eraseT_sorted _ _ h.tblSorted
      · intro p hp hpm
        rw [htab] at hp
        exact h.covered p (List.mem_filter.1 hp).1 hpm
    · refine norm_congr ?_ rfl rfl
      unfold normT
      rw [htab]
      show ((d.comps).foldl finishComp _).filter _ = _
      rw [hc]
      simp only [List.foldl_cons, List.foldl_nil, finishComp, hf]
      unfold rmInputs
      rw [filter_eraseT (fun n => !(m.inputs.contains n || n == m.replacement)) g _ hq]
  · exact input_upd_ok d h c m hc hf g hg (fun _ => TableDir.complete j)

/-- the rename that finishes the single flagged directory, once inputs and replacement path are gone -/
theorem rename_event_ok (d : Disk) (h : DiskOk d) (c : CompDir) (m : CompMeta) (hc : d.comps = [c])
    (hf : c.flag = some m) (hgone : ∀ p ∈ d.tables, p.1 ∉ m.inputs ∧ p.1 ≠ m.replacement) :
    DiskOk (applyEv d (.compRename c.id m.replacement)) ∧
      norm (applyEv d (.compRename c.id m.replacement)) = norm d := by
  have hl : lookupT m.replacement d.tables = none := lookupT_none.2 (fun p hp => (hgone p hp).2)
  have hfind : d.comps.find? (·.id == c.id) = some c := by rw [hc]; simp
  have hd' : applyEv d (.compRename c.id m.replacement) =
      { d with comps := [], tables := insertT m.replacement c.out d.tables } := by
    simp only [applyEv, hfind, hl, Option.isSome_none, Bool.false_eq_true, if_false]
    rw [hc]; simp [eraseC]
  rw [hd']
  have hout : isComplete c.out = true :=
    h.flagOut c (by rw [hc]; exact List.mem_singleton.2 rfl) ((isFlagged_iff _).2 ⟨m, hf⟩)
  refine ⟨?_, ?_⟩
  · refine { h with tblSorted := ?_, compIds := ?_, oneFlag := ?_, flagOut := ?_, covered := ?_ }
    · exact insertT_sorted _ _ _ h.tblSorted
    · simp
    · simp
    · intro x hx; cases hx
    · intro p hp hpm
      have hp0 : p ∈ insertT m.replacement c.out d.tables := hp
      rcases mem_insertT hp0 with (hp1 | hp1)
      · obtain ⟨x, hx, m', hxm, hg⟩ := (coveredBy_iff _ _).1 (h.covered p hp1 hpm)
        rw [hc, List.mem_singleton] at hx
        subst hx
        rw [hf] at hxm; cases hxm
        have := hgone p hp1
        rcases hg with (hg | hg)
        · exact absurd hg this.1
        · exact absurd hg this.2
      · subst hp1
        cases hco : c.out with
        | part b => rw [hco] at hout; cases hout
        | complete cells => rw [hco] at hpm; cases hpm
  · refine norm_congr ?_ rfl rfl
    unfold normT
    show (List.foldl finishComp (insertT m.replacement c.out d.tables) []).filter _ = _
    rw [hc]
    simp only [List.foldl_cons, List.foldl_nil, finishComp, hf]
    have : rmInputs m d.tables = d.tables := by
      unfold rmInputs
      rw [List.filter_eq_self]
      intro p hp
      have := hgone p hp
      simp [this.1, this.2]
    rw [this]

/-- removing an unfinished table directory (no compaction directories left) -/
theorem unfinished_event_ok (d : Disk) (h : DiskOk d) (hc : d.comps = []) (g : Nat)
    (hg : (g, TableDir.part false) ∈ d.tables) :
    DiskOk (applyEv d (.tblRmdir g)) ∧ norm (applyEv d (.tblRmdir g)) = norm d := by
  have htab : (applyEv d (.tblRmdir g)).tables = eraseT g d.tables := rfl
  refine ⟨?_, ?_⟩
  · refine { h with tblSorted := ?_, covered := ?_ }
    · rw [htab]; exact eraseT_sorted _ _ h.tblSorted
    · intro p hp hpm
      rw [htab] at hp
      exact h.covered p (List.mem_filter.1 hp).1 hpm
  · refine norm_congr ?_ rfl rfl
    unfold normT
    rw [htab]
    show ((d.comps).foldl finishComp _).filter _ = _
    rw [hc]
    simp only [List.foldl_nil]
    unfold eraseT
    rw [List.filter_filter]
    apply List.filter_congr
    intro p hp
    by_cases hpg : p.1 = g
    · have : lookupT g d.tables = some p.2 := lookupT_of_mem h.tblSorted (by rw [← hpg]; exact hp)
      rw [lookupT_of_mem h.tblSorted hg] at this
      have : p.2 = .part false := (Option.some.inj this).symm
      simp [this, isComplete]
    · simp [hpg]

/-! ## the step function -/

theorem nextInput_some {m : CompMeta} {ts : List (Nat × TableDir)} {g : Nat} {t : TableDir}
    (h : nextInput m ts = some (g, t)) : g ∈ m.inputs ∧ (g, t) ∈ ts := by
  unfold nextInput at h
  obtain ⟨g', hg', h2⟩ := List.exists_of_findSome?_eq_some h
  by_cases hr : (g' != m.replacement) = true
  · rw [if_pos hr] at h2
    obtain ⟨t', ht', h3⟩ := Option.map_eq_some_iff.1 h2
    cases h3
    exact ⟨hg', lookupT_some ht'⟩
  · rw [if_neg hr] at h2; cases h2

theorem nextInput_none {m : CompMeta} {ts : List (Nat × TableDir)} (h : nextInput m ts = none)
    (hr : lookupT m.replacement ts = none) : ∀ p ∈ ts, p.1 ∉ m.inputs ∧ p.1 ≠ m.replacement := by
  intro p hp
  have h2 := lookupT_none.1 hr p hp
  refine ⟨?_, h2⟩
  intro hin
  unfold nextInput at h
  have := List.findSome?_eq_none_iff.1 h p.1 hin
  have hne : (p.1 != m.replacement) = true := by simpa using h2
  rw [if_pos hne, Option.map_eq_none_iff] at this
  exact lookupT_none.1 this p hp rfl

theorem rmTblEv_cases (g : Nat) (t : TableDir) :
    (∃ keep, rmTblEv g t = .tblUnlinkPart g keep) ∨ rmTblEv g t = .tblRmdir g ∨ (∃ j, rmTblEv g t = .tblLoadable g j) := by
  cases t with
  | part b => cases b <;> simp [rmTblEv]
  | complete c => simp [rmTblEv]

/-- all compaction directories flagged + at most one flagged = at most one directory -/
theorem comps_all_flagged {d : Disk} (h : DiskOk d) (hall : d.comps.find? (fun c => !isFlagged c) = none)
    (c : CompDir) (rest : List CompDir) (hc : d.comps = c :: rest) : rest = [] ∧ ∃ m, c.flag = some m := by
  have hfl : ∀ x ∈ d.comps, isFlagged x = true := by
    intro x hx
    have := List.find?_eq_none.1 hall x hx
    simpa using this
  have h1 := h.oneFlag
  rw [List.filter_eq_self.2 hfl, hc, List.length_cons] at h1
  refine ⟨List.eq_nil_of_length_eq_zero (by omega), (isFlagged_iff c).1 (hfl c (by rw [hc]; exact List.mem_cons_self))⟩

/-- every event of the clean-up loop keeps the disk well-formed, leaves the WAL alone and does not change what
the uninterrupted clean-up would arrive at -/
theorem cleanStep_ok (d : Disk) (h : DiskOk d) (e : Ev) (he : cleanStep d = some e) :
    DiskOk (applyEv d e) ∧ norm (applyEv d e) = norm d := by
  unfold cleanStep at he
  split at he
  · rename_i c hfind
    have hc := List.mem_of_find?_eq_some hfind
    have hf : c.flag = none := (not_isFlagged_iff c).1 (by simpa using List.find?_some hfind)
    split at he <;> cases he
    · exact unflagged_event_ok d h c hc hf _ (Or.inr rfl)
    · exact unflagged_event_ok d h c hc hf _ (Or.inl rfl)
  · rename_i hall
    split at he
    · rename_i c rest hcs
      obtain ⟨hrest, m, hm⟩ := comps_all_flagged h hall c rest hcs
      subst hrest
      split at he
      · rename_i hn; rw [hm] at hn; cases hn
      · rename_i m' hm'
        rw [hm] at hm'; cases hm'
        split at he
        · rename_i g t hni
          cases he
          have := nextInput_some hni
          exact input_event_ok d h c m hcs hm g (Or.inl this.1) _ (rmTblEv_cases g t)
        · rename_i hni
          split at he
          · rename_i t hl
            cases he
            exact input_event_ok d h c m hcs hm _ (Or.inr rfl) _ (rmTblEv_cases _ t)
          · rename_i hl
            cases he
            exact rename_event_ok d h c m hcs hm (nextInput_none hni hl)
    · rename_i hcs
      split at he
      · rename_i g hfind
        cases he
        have := List.mem_of_find?_eq_some hfind
        exact unfinished_event_ok d h hcs g this
      · cases he

/-- when the loop has nothing left to do the disk is clean -/
theorem cleanStep_none (d : Disk) (h : DiskOk d) (he : cleanStep d = none) : norm d = d := by
  unfold cleanStep at he
  split at he
  · split at he <;> cases he
  · rename_i hall
    split at he
    · rename_i c rest hcs
      obtain ⟨hrest, m, hm⟩ := comps_all_flagged h hall c rest hcs
      split at he
      · rename_i hn; rw [hm] at hn; cases hn
      · split at he
        · cases he
        · split at he <;> cases he
    · rename_i hcs
      have hallc : ∀ p ∈ d.tables, isComplete p.2 = true := by
        intro p hp
        cases hpc : isComplete p.2 with
        | true => rfl
        | false =>
          exfalso
          have hex : (d.tables.find? (fun p => !isComplete p.2)).isSome = true := by
            rw [List.find?_isSome]; exact ⟨p, hp, by simp [hpc]⟩
          obtain ⟨q, hq⟩ := Option.isSome_iff_exists.1 hex
          have hqm := List.mem_of_find?_eq_some hq
          have hqc := List.find?_some hq
          obtain ⟨g, t⟩ := q
          cases t with
          | complete cells => simp [isComplete] at hqc
          | part b =>
            cases b with
            | false => rw [hq] at he; cases he
            | true =>
              have := h.covered _ hqm rfl
              rw [hcs] at this
              simp [coveredBy] at this
      unfold norm normT
      rw [hcs]
      simp only [List.foldl_nil]
      rw [List.filter_eq_self.2 hallc]
      cases d
      simp_all

/-! ## the measure -/

def sumT (ts : List (Nat × TableDir)) : Nat := (ts.map fun p => wT p.2).sum
def sumC (cs : List CompDir) : Nat := (cs.map fun c => wT c.out + 2).sum

theorem mu_eq (d : Disk) : mu d = sumT d.tables + sumC d.comps := rfl

theorem wT_pos (t : TableDir) : 0 < wT t := by
  cases t with
  | part b => cases b <;> simp [wT]
  | complete c => simp [wT]

theorem sumT_updT_le (g : Nat) (f : TableDir → TableDir) (ts : List (Nat × TableDir))
    (hf : ∀ t, wT (f t) ≤ wT t) : sumT (updT g f ts) ≤ sumT ts := by
  induction ts with
  | nil => exact Nat.le_refl _
  | cons p r ih =>
    have hc : updT g f (p :: r) = (if p.1 == g then (p.1, f p.2) else p) :: updT g f r := rfl
    rw [hc]
    simp only [sumT, List.map_cons, List.sum_cons] at ih ⊢
    by_cases hp : (p.1 == g) = true
    · rw [if_pos hp]; have := hf p.2; simp only; omega
    · rw [if_neg hp]; omega

theorem sumT_updT_lt (g : Nat) (f : TableDir → TableDir) (ts : List (Nat × TableDir))
    (hf : ∀ t, wT (f t) ≤ wT t) (t0 : TableDir) (hm : (g, t0) ∈ ts) (hlt : wT (f t0) < wT t0) :
    sumT (updT g f ts) < sumT ts := by
  induction ts with
  | nil => cases hm
  | cons p r ih =>
    have hc : updT g f (p :: r) = (if p.1 == g then (p.1, f p.2) else p) :: updT g f r := rfl
    rw [hc]
    have hle := sumT_updT_le g f r hf
    simp only [sumT, List.map_cons, List.sum_cons] at ih hle ⊢
    rcases List.mem_cons.1 hm with (hm | hm)
    · subst hm
      simp only [beq_self_eq_true, if_true]
      omega
    · have := ih hm
      by_cases hp : (p.1 == g) = true
      · rw [if_pos hp]; have := hf p.2; simp only; omega
      · rw [if_neg hp]; omega

theorem eraseT_cons (g : Nat) (p : Nat × TableDir) (r : List (Nat × TableDir)) :
    eraseT g (p :: r) = if p.1 = g then eraseT g r else p :: eraseT g r := by
  by_cases h : p.1 = g <;> simp [eraseT, List.filter_cons, h]

theorem sumT_cons (p : Nat × TableDir) (r : List (Nat × TableDir)) : sumT (p :: r) = wT p.2 + sumT r := by
  simp [sumT]

theorem sumT_eraseT_le (g : Nat) (ts : List (Nat × TableDir)) : sumT (eraseT g ts) ≤ sumT ts := by
  induction ts with
  | nil => exact Nat.le_refl _
  | cons q r ih =>
    rw [eraseT_cons]
    by_cases hq : q.1 = g
    · rw [if_pos hq, sumT_cons]; omega
    · rw [if_neg hq, sumT_cons, sumT_cons]; omega

theorem sumT_eraseT_lt (g : Nat) (ts : List (Nat × TableDir)) (t0 : TableDir) (hm : (g, t0) ∈ ts) :
    sumT (eraseT g ts) < sumT ts := by
  induction ts with
  | nil => cases hm
  | cons p r ih =>
    have hle := sumT_eraseT_le g r
    rw [eraseT_cons, sumT_cons]
    rcases List.mem_cons.1 hm with (hm | hm)
    · subst hm
      rw [if_pos rfl]
      have := wT_pos t0
      show sumT (eraseT g r) < wT t0 + sumT r
      omega
    · have := ih hm
      by_cases hq : p.1 = g
      · rw [if_pos hq]; omega
      · rw [if_neg hq, sumT_cons]; omega

theorem sumT_insertT_le (g : Nat) (t : TableDir) (ts : List (Nat × TableDir)) :
    sumT (insertT g t ts) ≤ sumT ts + wT t := by
  induction ts with
  | nil => simp [insertT, sumT]
  | cons p r ih =>
    simp only [insertT]
    split
    · simp only [sumT, List.map_cons, List.sum_cons]; omega
    · split
      · simp only [sumT, List.map_cons, List.sum_cons]; omega
      · simp only [sumT, List.map_cons, List.sum_cons] at ih ⊢; omega

theorem sumC_updC_lt (id : Nat) (f : CompDir → CompDir) (cs : List CompDir)
    (hf : ∀ c, wT (f c).out ≤ wT c.out) (c0 : CompDir) (hm : c0 ∈ cs) (hid : c0.id = id)
    (hlt : wT (f c0).out < wT c0.out) : sumC (updC id f cs) < sumC cs := by
  have hle : ∀ cs : List CompDir, sumC (updC id f cs) ≤ sumC cs := by
    intro cs
    induction cs with
    | nil => exact Nat.le_refl _
    | cons p r ih =>
      have hc : updC id f (p :: r) = (if p.id == id then f p else p) :: updC id f r := rfl
      rw [hc]
      simp only [sumC, List.map_cons, List.sum_cons] at ih ⊢
      by_cases hp : (p.id == id) = true
      · rw [if_pos hp]; have := hf p; omega
      · rw [if_neg hp]; omega
  induction cs with
  | nil => cases hm
  | cons p r ih =>
    have hc : updC id f (p :: r) = (if p.id == id then f p else p) :: updC id f r := rfl
    rw [hc]
    have hle' := hle r
    simp only [sumC, List.map_cons, List.sum_cons] at ih hle' ⊢
    rcases List.mem_cons.1 hm with (hm | hm)
    · subst hm
      have : (c0.id == id) = true := by simpa using hid
      rw [if_pos this]
      omega
    · have := ih hm
      by_cases hp : (p.id == id) = true
      · rw [if_pos hp]; have := hf p; omega
      · rw [if_neg hp]; omega

theorem eraseC_cons (id : Nat) (p : CompDir) (r : List CompDir) :
    eraseC id (p :: r) = if p.id = id then eraseC id r else p :: eraseC id r := by
  by_cases h : p.id = id <;> simp [eraseC, List.filter_cons, h]

theorem sumC_cons (p : CompDir) (r : List CompDir) : sumC (p :: r) = (wT p.out + 2) + sumC r := by
  simp [sumC]

theorem sumC_eraseC_le (id : Nat) (cs : List CompDir) : sumC (eraseC id cs) ≤ sumC cs := by
  induction cs with
  | nil => exact Nat.le_refl _
  | cons q r ih =>
    rw [eraseC_cons]
    by_cases hq : q.id = id
    · rw [if_pos hq, sumC_cons]; omega
    · rw [if_neg hq, sumC_cons, sumC_cons]; omega

theorem sumC_eraseC (cs : List CompDir) (c0 : CompDir) (hm : c0 ∈ cs) :
    sumC (eraseC c0.id cs) + (wT c0.out + 2) ≤ sumC cs := by
  induction cs with
  | nil => cases hm
  | cons p r ih =>
    have hle' := sumC_eraseC_le c0.id r
    rw [eraseC_cons, sumC_cons]
    rcases List.mem_cons.1 hm with (hm | hm)
    · subst hm
      rw [if_pos rfl]
      omega
    · have := ih hm
      by_cases hq : p.id = c0.id
      · rw [if_pos hq]; omega
      · rw [if_neg hq, sumC_cons]; omega

theorem wT_unlink_le (keep : Bool) (t : TableDir) : wT (t.unlink keep) ≤ wT t := by
  cases t with
  | part b => cases b <;> cases keep <;> simp [TableDir.unlink, wT]
  | complete c => cases keep <;> simp [TableDir.unlink, wT]

theorem rmTblEv_mu (d : Disk) (g : Nat) (t : TableDir) (hm : (g, t) ∈ d.tables) :
    mu (applyEv d (rmTblEv g t)) < mu d := by
  rw [mu_eq, mu_eq]
  cases t with
  | complete c =>
    have : sumT (updT g (TableDir.unlink true) d.tables) < sumT d.tables :=
      sumT_updT_lt g _ _ (wT_unlink_le true) _ hm (by simp [TableDir.unlink, wT])
    simp only [rmTblEv, applyEv]; omega
  | part b =>
    cases b with
    | true =>
      have : sumT (updT g (TableDir.unlink false) d.tables) < sumT d.tables :=
        sumT_updT_lt g _ _ (wT_unlink_le false) _ hm (by simp [TableDir.unlink, wT])
      simp only [rmTblEv, applyEv]; omega
    | false =>
      have := sumT_eraseT_lt g d.tables _ hm
      simp only [rmTblEv, applyEv]; omega

/-- every event of the clean-up loop lowers the measure (on any disk) -/
theorem cleanStep_mu (d : Disk) (e : Ev) (he : cleanStep d = some e) : mu (applyEv d e) < mu d := by
  unfold cleanStep at he
  split at he
  · rename_i c hfind
    have hc := List.mem_of_find?_eq_some hfind
    split at he <;> cases he
    · rename_i hout
      have := sumC_eraseC d.comps c hc
      rw [mu_eq, mu_eq]
      simp only [applyEv]; omega
    · rename_i hout
      have : sumC (updC c.id (fun c => { c with out := .part false, flag := none }) d.comps) < sumC d.comps := by
        apply sumC_updC_lt c.id _ _ _ c hc rfl
        · show wT (TableDir.part false) < wT c.out
          cases hco : c.out with
          | complete cells => simp [wT]
          | part b =>
            cases b with
            | true => simp [wT]
            | false => exact absurd hco (hout)
        · intro x; show 1 ≤ wT x.out
          exact wT_pos x.out
      rw [mu_eq, mu_eq]
      simp only [applyEv]; omega
  · split at he
    · rename_i c rest hcs
      split at he
      · cases he
      · rename_i m hm
        split at he
        · rename_i g t hni
          cases he
          exact rmTblEv_mu d g t (nextInput_some hni).2
        · split at he
          · rename_i t hl
            cases he
            exact rmTblEv_mu d _ t (lookupT_some hl)
          · rename_i hl
            cases he
            have hfind : d.comps.find? (·.id == c.id) = some c := by rw [hcs]; simp
            have h1 := sumC_eraseC d.comps c (by rw [hcs]; exact List.mem_cons_self)
            have h2 := sumT_insertT_le m.replacement c.out d.tables
            rw [mu_eq, mu_eq]
            simp only [applyEv, hfind, hl, Option.isSome_none, Bool.false_eq_true, if_false]
            omega
    · split at he
      · rename_i g hfind
        cases he
        have := sumT_eraseT_lt g d.tables _ (List.mem_of_find?_eq_some hfind)
        rw [mu_eq, mu_eq]
        simp only [applyEv]; omega
      · cases he

/-! ## the loop -/

theorem applyEvs_nil (d : Disk) : applyEvs d [] = d := rfl
theorem applyEvs_cons (d : Disk) (e : Ev) (es : List Ev) : applyEvs d (e :: es) = applyEvs (applyEv d e) es := rfl
theorem applyEvs_append (d : Disk) (a b : List Ev) : applyEvs d (a ++ b) = applyEvs (applyEvs d a) b := by
  simp [applyEvs, List.foldl_append]

/-- interrupted anywhere, the clean-up loop leaves a well-formed disk on which the clean-up arrives at the same result -/
theorem cleanRun_prefix (f : Nat) (d : Disk) (h : DiskOk d) (n : Nat) :
    DiskOk (applyEvs d ((cleanRun f d).take n)) ∧ norm (applyEvs d ((cleanRun f d).take n)) = norm d := by
  induction f generalizing d n with
  | zero => simp only [cleanRun, List.take_nil, applyEvs_nil]; exact ⟨h, trivial⟩
  | succ f ih =>
    simp only [cleanRun]
    cases he : cleanStep d with
    | none => simp only [List.take_nil, applyEvs_nil]; exact ⟨h, trivial⟩
    | some e =>
      cases n with
      | zero => exact ⟨h, rfl⟩
      | succ n =>
        simp only [List.take_succ_cons, applyEvs_cons]
        obtain ⟨h1, h2⟩ := cleanStep_ok d h e he
        obtain ⟨h3, h4⟩ := ih (applyEv d e) h1 n
        exact ⟨h3, h4.trans h2⟩

/-- run to completion, the loop produces exactly the disk of the big-step `phase1` + `phase2` -/
theorem cleanRun_full (f : Nat) (d : Disk) (h : DiskOk d) (hf : mu d ≤ f) : applyEvs d (cleanRun f d) = norm d := by
  induction f generalizing d with
  | zero =>
    cases he : cleanStep d with
    | none => exact (cleanStep_none d h he).symm
    | some e => have := cleanStep_mu d e he; omega
  | succ f ih =>
    simp only [cleanRun]
    cases he : cleanStep d with
    | none => exact (cleanStep_none d h he).symm
    | some e =>
      obtain ⟨h1, h2⟩ := cleanStep_ok d h e he
      have := cleanStep_mu d e he
      simp only [applyEvs_cons]
      rw [ih (applyEv d e) h1 (by omega), h2]

theorem cleanEvents_full (d : Disk) (h : DiskOk d) : applyEvs d (cleanEvents d) = norm d :=
  cleanRun_full _ d h (Nat.le_refl _)

theorem cleanEvents_prefix (d : Disk) (h : DiskOk d) (n : Nat) :
    DiskOk (applyEvs d ((cleanEvents d).take n)) ∧ norm (applyEvs d ((cleanEvents d).take n)) = norm d :=
  cleanRun_prefix _ d h n

/-! ## `RemoveAll` orders that unlink the metadata first (`detour`) -/

/-- which call the clean-up loop makes, and in which situation -/
theorem cleanStep_ctx (d : Disk) (h : DiskOk d) (e : Ev) (he : cleanStep d = some e) :
    (∃ c, c ∈ d.comps ∧ (e = .compUnlinkPart c.id ∨ e = .compRmdir c.id)) ∨
    (∃ c m, d.comps = [c] ∧ c.flag = some m ∧
      ((∃ g t, (g ∈ m.inputs ∨ g = m.replacement) ∧ (g, t) ∈ d.tables ∧ e = rmTblEv g t) ∨
        e = .compRename c.id m.replacement)) ∨
    (d.comps = [] ∧ ∃ g, (g, TableDir.part false) ∈ d.tables ∧ e = .tblRmdir g) := by
  unfold cleanStep at he
  split at he
  · rename_i c hfind
    have hc := List.mem_of_find?_eq_some hfind
    left
    split at he <;> cases he
    · exact ⟨c, hc, Or.inr rfl⟩
    · exact ⟨c, hc, Or.inl rfl⟩
  · rename_i hall
    split at he
    · rename_i c rest hcs
      obtain ⟨hrest, m, hm⟩ := comps_all_flagged h hall c rest hcs
      subst hrest
      right; left
      split at he
      · rename_i hn; rw [hm] at hn; cases hn
      · rename_i m' hm'
        rw [hm] at hm'; cases hm'
        refine ⟨c, m, hcs, hm, ?_⟩
        split at he
        · rename_i g t hni
          cases he
          have := nextInput_some hni
          exact Or.inl ⟨g, t, Or.inl this.1, this.2, rfl⟩
        · split at he
          · rename_i t hl
            cases he
            exact Or.inl ⟨_, t, Or.inr rfl, lookupT_some hl, rfl⟩
          · cases he
            exact Or.inr rfl
    · rename_i hcs
      right; right
      split at he
      · rename_i g hfind
        cases he
        exact ⟨hcs, g, List.mem_of_find?_eq_some hfind, rfl⟩
      · cases he

theorem updT_updT (g : Nat) (f1 f2 : TableDir → TableDir) (ts : List (Nat × TableDir)) :
    updT g f2 (updT g f1 ts) = updT g (f2 ∘ f1) ts := by
  unfold updT
  rw [List.map_map]
  apply List.map_congr_left
  intro p _
  by_cases hp : p.1 = g <;> simp [hp]

theorem updT_congr (g : Nat) (f f' : TableDir → TableDir) (ts : List (Nat × TableDir))
    (h : ∀ p ∈ ts, p.1 = g → f p.2 = f' p.2) : updT g f ts = updT g f' ts := by
  unfold updT
  apply List.map_congr_left
  intro p hp
  by_cases hg : p.1 = g
  · simp [hg, h p hp hg]
  · simp [hg]

theorem eraseT_updT' (g : Nat) (f : TableDir → TableDir) (ts : List (Nat × TableDir)) :
    eraseT g (updT g f ts) = eraseT g ts :=
  filter_updT (fun n => n != g) g f ts (by simp)

/-- entries with the same name are the same entry -/
theorem entry_unique {ts : List (Nat × TableDir)} (hs : (ts.map (·.1)).Pairwise (· < ·)) {g : Nat} {t : TableDir}
    (hm : (g, t) ∈ ts) : ∀ p ∈ ts, p.1 = g → p.2 = t := by
  intro p hp hpg
  have h1 := lookupT_of_mem hs hm
  have h2 : lookupT g ts = some p.2 := lookupT_of_mem hs (by rw [← hpg]; exact hp)
  rw [h1] at h2
  exact (Option.some.inj h2).symm

end SST.Proofs.FS
