/-
Proofs for SST/Model/CompDirBytes.lean, part 5: what a zero-padded cut of a flag with GENERATED names can read as —
the flag written, or metadata whose last path names no table (never a compaction of other tables).
-/
import SST.Proofs.CompDirBytesPad
import SST.Proofs.CompDirBytesNames
namespace SST.Proofs.CompDir
open SST SST.CompDir Generated

theorem zeroTailStr_ge (s : Bytes) (i : Nat) (h : s.length ≤ i) : zeroTailStr s i = s := by
  unfold zeroTailStr zeros
  rw [List.take_of_length_le h, Nat.sub_eq_zero_of_le h]; simp

theorem zeroTailStr_mem_zero (s : Bytes) (i : Nat) (h : i < s.length) : (0 : UInt8) ∈ zeroTailStr s i := by
  unfold zeroTailStr zeros
  apply List.mem_append_right
  rw [List.mem_replicate]
  exact ⟨by omega, rfl⟩

theorem tableName_no_zero (g : Nat) : (0 : UInt8) ∉ tableName g := by
  intro h
  unfold tableName at h
  rcases List.mem_append.mp h with h | h
  · revert h; decide
  · have := padZeros_isDigit 15 g 0 h
    unfold IsDigit at this
    have h0 : (0 : UInt8).toNat = 0 := rfl
    omega

theorem tableOfName_zeroTail (g i : Nat) (h : i < (tableName g).length) :
    tableOfName (zeroTailStr (tableName g) i) = none := by
  cases hq : tableOfName (zeroTailStr (tableName g) i) with
  | none => rfl
  | some g' =>
    have := tableOfName_some hq
    have hz := zeroTailStr_mem_zero (tableName g) i h
    rw [this] at hz
    exact absurd hz (tableName_no_zero g')

theorem dropLast_getLast? {α : Type} : ∀ (l : List α) (a : α), l.getLast? = some a → l.dropLast ++ [a] = l
  | [], a, h => by simp at h
  | [x], a, h => by simp at h; simp [h]
  | x :: y :: ys, a, h => by
    have h' : (y :: ys).getLast? = some a := by simpa [List.getLast?_cons_cons] using h
    have := dropLast_getLast? (y :: ys) a h'
    simp only [List.dropLast_cons_cons, List.cons_append]
    rw [this]

theorem mapM_append_none (f : Bytes → Option Nat) (xs : List Bytes) (b : Bytes) (h : f b = none) :
    (xs ++ [b]).mapM f = none := by
  induction xs with
  | nil => simp [List.mapM_cons, h]
  | cons x xs ih =>
    rw [List.cons_append, List.mapM_cons, ih]
    cases f x <;> rfl

/-- a zero-padded cut of the flag written for directory `id` and tables `cm` reads — if at all — as that flag, or as
metadata that names no table list: never as a finished compaction of OTHER tables -/
theorem flag_pad_generated (comps : Nat → Compression) (hc : comps 0 = none) (id : Nat) (cm : FS.CompMeta)
    (hf : (encCompMeta (rawOf id cm)).length < 2 ^ 64) (k : Nat) (hk : k < (flagBytes (rawOf id cm)).length) (z : Nat)
    (r : RawMeta) (hr : readFlag comps (some ((flagBytes (rawOf id cm)).take k ++ zeros z)) = some r) :
    r = rawOf id cm ∨ absMeta r = none := by
  have hm : MetaOk (rawOf id cm) := ⟨rawOf_valid id cm, hf⟩
  rcases flag_pad comps hc _ hm k hk z with h | ⟨i, h⟩
  · rw [h] at hr; cases hr
  · rw [h] at hr
    cases hr
    unfold zeroTail
    cases hl : (rawOf id cm).sstablePaths.getLast? with
    | some l =>
      simp only
      have hl' : (cm.inputs.map tableName).getLast? = some l := hl
      rw [List.getLast?_map] at hl'
      cases hg : cm.inputs.getLast? with
      | none => rw [hg] at hl'; cases hl'
      | some g =>
        rw [hg] at hl'
        simp only [Option.map_some, Option.some.injEq] at hl'
        subst hl'
        by_cases hi : (tableName g).length ≤ i
        · left
          rw [zeroTailStr_ge _ _ hi]
          have hd : (rawOf id cm).sstablePaths.dropLast ++ [tableName g] = (rawOf id cm).sstablePaths := by
            exact dropLast_getLast? _ _ hl
          rw [hd]
        · right
          unfold absMeta
          simp only
          rw [mapM_append_none _ _ _ (tableOfName_zeroTail g i (by omega))]
    | none =>
      simp only
      have hne : (rawOf id cm).replacementPath.length ≠ 0 := by
        show (tableName cm.replacement).length ≠ 0
        unfold tableName
        simp [tablePrefix]
      rw [if_pos hne]
      by_cases hi : (tableName cm.replacement).length ≤ i
      · left
        show { rawOf id cm with replacementPath := zeroTailStr (tableName cm.replacement) i } = rawOf id cm
        rw [zeroTailStr_ge _ _ hi]; rfl
      · right
        unfold absMeta
        simp only
        have : tableOfName (zeroTailStr (rawOf id cm).replacementPath i) = none :=
          tableOfName_zeroTail cm.replacement i (by omega)
        rw [this]
        cases List.mapM tableOfName (rawOf id cm).sstablePaths <;> rfl

end SST.Proofs.CompDir
