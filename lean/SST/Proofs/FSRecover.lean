/-
L6-fs: recovery as a whole — it never fails on a well-formed disk, it serves `logical`, its event sequence
produces the disk the big-step function computes, and interrupted anywhere it leaves a well-formed disk with the
same `logical` content (the core of C10, also used by C02 for the `reopen` step).
-/
import SST.Proofs.FSClean
namespace SST.Proofs.FS
open SST SST.DBM SST.FS SST.Proofs.DB

/-! ## segments of events with a property that holds at every boundary -/

/-- from any disk satisfying `P`, the property `Good` holds after every prefix of `es`, and `Q` at the end -/
def Seg (Good P : Disk → Prop) (es : List Ev) (Q : Disk → Prop) : Prop :=
  ∀ x, P x → (∀ n, Good (applyEvs x (es.take n))) ∧ Q (applyEvs x es)

theorem Seg.nil {Good P Q : Disk → Prop} (h : ∀ x, P x → Good x ∧ Q x) : Seg Good P [] Q := by
  intro x hx
  exact ⟨fun n => by simp only [List.take_nil, applyEvs_nil]; exact (h x hx).1, (h x hx).2⟩

theorem Seg.append {Good P Q R : Disk → Prop} {a b : List Ev} (h1 : Seg Good P a Q) (h2 : Seg Good Q b R) :
    Seg Good P (a ++ b) R := by
  intro x hx
  obtain ⟨g1, q1⟩ := h1 x hx
  obtain ⟨g2, r2⟩ := h2 _ q1
  refine ⟨?_, by rw [applyEvs_append]; exact r2⟩
  intro n
  rw [List.take_append, applyEvs_append]
  by_cases hn : n ≤ a.length
  · have : n - a.length = 0 := by omega
    rw [this, List.take_zero, applyEvs_nil]
    exact g1 n
  · rw [List.take_of_length_le (by omega)]
    exact g2 _

theorem Seg.cons {Good P Q R : Disk → Prop} {e : Ev} {es : List Ev}
    (h1 : ∀ x, P x → Good x ∧ Q (applyEv x e)) (h2 : Seg Good Q es R) : Seg Good P (e :: es) R := by
  intro x hx
  obtain ⟨g1, q1⟩ := h1 x hx
  obtain ⟨g2, r2⟩ := h2 _ q1
  refine ⟨?_, by rw [applyEvs_cons]; exact r2⟩
  intro n
  cases n with
  | zero => simp only [List.take_zero, applyEvs_nil]; exact g1
  | succ n => rw [List.take_succ_cons, applyEvs_cons]; exact g2 n

theorem Seg.weaken {Good P P' Q Q' : Disk → Prop} {es : List Ev} (h : Seg Good P es Q)
    (hp : ∀ x, P' x → P x) (hq : ∀ x, Q x → Q' x) : Seg Good P' es Q' := by
  intro x hx
  obtain ⟨g, q⟩ := h x (hp x hx)
  exact ⟨g, hq _ q⟩

theorem Seg.good_mono {Good Good' P Q : Disk → Prop} {es : List Ev} (h : Seg Good P es Q)
    (hg : ∀ x, Good x → Good' x) : Seg Good' P es Q := by
  intro x hx
  obtain ⟨g, q⟩ := h x hx
  exact ⟨fun n => hg _ (g n), q⟩

/-! ## reading a memstore over a table stack -/

/-- what a key reads as with memstore content `mem` over the tables `tbls` -/
def rd (mem : Layer) (tbls : List Tbl) (k : Key) : Option Bytes :=
  match mem.get k with
  | some (some v) => some v
  | some none => none
  | none => vis (tablesGet tbls k)

theorem logical_eq (d : Disk) (k : Key) : logical d k = rd (applyMuts [] (walMuts d.wal)) (effTables d) k := rfl

theorem effTables_nocomp (d : Disk) (h : d.comps = []) : effTables d = tblsOf d.tables := by
  simp [effTables, phase1, h]

theorem logical_of_norm {d d' : Disk} (h : norm d' = norm d) : logical d' = logical d := by
  funext k
  have hw0 : (norm d').wal = (norm d).wal := congrArg Disk.wal h
  have hw : d'.wal = d.wal := hw0
  rw [logical_eq, logical_eq, effTables_eq, effTables_eq, h, hw]

theorem rd_nil (tbls : List Tbl) (k : Key) : rd [] tbls k = vis (tablesGet tbls k) := rfl

/-- a table that holds the replay of `pre ++ suf`, with `suf` replayed again on top, reads like the replay of
`pre ++ suf` without that table: replaying a suffix of the log a second time changes nothing -/
theorem rd_flushed (tbls : List Tbl) (g : Nat) (pre suf : List Mutation) (hok : ∀ m ∈ pre, m.ok = true) (k : Key) :
    rd (applyMuts [] suf) (tbls ++ [{ gen := g, cells := applyMuts [] (pre ++ suf) }]) k =
      rd (applyMuts [] (pre ++ suf)) tbls k := by
  unfold rd
  rw [tablesGet_append, tablesGet_single, get_applyMuts_append]
  cases hs : Layer.get (applyMuts [] suf) k with
  | some x => cases x <;> rfl
  | none =>
    simp only [Option.none_or]
    cases hp : Layer.get (applyMuts [] pre) k with
    | none => simp
    | some x =>
      cases x with
      | none => simp [vis]
      | some v =>
        simp only [Option.some_or]
        exact vis_nonempty v (applyMuts_val_ok pre hok k v hp)

/-! ## recovery succeeds and serves `logical` -/

theorem walReadable_norm (d : Disk) : (norm d).wal = d.wal := rfl

theorem recover_eq (d : Disk) (h : DiskOk d) (o : Opts) : recover d o = phase3 (norm d) o := by
  unfold recover
  rw [phase12_ok d h]

theorem phase3_ok (d : Disk) (hr : walReadable d.wal = true) (o : Opts) : ∃ d' s, phase3 d o = .ok (d', s) := by
  unfold phase3
  rw [hr]
  simp only [Bool.not_true, Bool.false_eq_true, if_false]
  split <;> exact ⟨_, _, rfl⟩

/-- `Open` succeeds on every well-formed disk -/
theorem recover_ok (d : Disk) (h : DiskOk d) (o : Opts) : ∃ d' s, recover d o = .ok (d', s) := by
  rw [recover_eq d h]
  exact phase3_ok (norm d) h.walRead o

theorem abs_eq_rd (s : State) (hw : s.w = []) (k : Key) : abs s k = rd s.r s.tables k := by
  simp only [abs, memGet, rd, hw, layerGet_nil]
  rfl

theorem phase3_abs (d : Disk) (hc : d.comps = []) (o : Opts) (d' : Disk) (s : State)
    (h : phase3 d o = .ok (d', s)) : abs s = logical d := by
  funext k
  unfold phase3 at h
  split at h
  · cases h
  · simp only at h
    rw [logical_eq, effTables_nocomp d hc]
    split at h
    · rename_i hms
      cases h
      rw [abs_eq_rd _ rfl]
      have : walMuts d.wal = [] := by simpa using hms
      rw [this]
      rfl
    · cases h
      rw [abs_eq_rd _ rfl]
      simp only
      -- `rd mem (tbls ++ [mem]) = rd mem tbls`
      unfold rd
      rw [tablesGet_append, tablesGet_single]
      cases hm : Layer.get (applyMuts [] (walMuts d.wal)) k with
      | some x => cases x <;> rfl
      | none => simp

/-- the state `Open` returns reads exactly as `logical` says (no well-formedness needed) -/
theorem recover_abs (d : Disk) (o : Opts) (d' : Disk) (s : State) (h : recover d o = .ok (d', s)) :
    abs s = logical d := by
  unfold recover at h
  cases h2 : phase2 (phase1 d) with
  | error e => rw [h2] at h; cases h
  | ok d2 =>
    rw [h2] at h
    have hd2 : d2 = { phase1 d with tables := (phase1 d).tables.filter (fun p => isComplete p.2) } := by
      unfold phase2 at h2
      split at h2
      · cases h2
      · cases h2; rfl
    have hc : d2.comps = [] := by rw [hd2]; rfl
    rw [phase3_abs d2 hc o d' s h]
    funext k
    rw [logical_eq, logical_eq, effTables_nocomp d2 hc]
    have : tblsOf d2.tables = effTables d := by
      rw [hd2]; simp only [effTables, tblsOf_filter_complete]
    rw [this]
    have : d2.wal = d.wal := by rw [hd2]; rfl
    rw [this]

/-! ## phase 3 as events -/

/-- a clean disk: what `phase1` + `phase2` leave -/
structure Clean (d : Disk) : Prop where
  ok : DiskOk d
  nocomp : d.comps = []
  allc : ∀ p ∈ d.tables, isComplete p.2 = true

theorem norm_clean (d : Disk) (h : DiskOk d) : Clean (norm d) := by
  have hno := phase1_no_partMeta d h
  refine ⟨?_, rfl, ?_⟩
  · refine { tblSorted := ?_, walSorted := h.walSorted, compIds := by simp [norm], walDirOk := h.walDirOk,
             walRead := h.walRead, putsOk := h.putsOk, oneFlag := by simp [norm], flagOut := ?_, covered := ?_ }
    · show ((normT d).map (·.1)).Pairwise (· < ·)
      unfold normT
      apply filter_sorted
      rcases foldl_finishComp_one d.comps d.tables h.oneFlag with (⟨e, _⟩ | ⟨c, m, _, _, e⟩)
      · rw [e]; exact h.tblSorted
      · rw [e]; exact insertT_sorted _ _ _ (filter_sorted _ _ h.tblSorted)
    · intro c hc; cases hc
    · intro p hp hpm
      have : isComplete p.2 = true := (List.mem_filter.1 hp).2
      cases hp2 : p.2 with
      | part b => rw [hp2] at this; cases this
      | complete c => rw [hp2] at hpm; cases hpm
  · intro p hp
    exact (List.mem_filter.1 hp).2

theorem norm_of_clean {x : Disk} (h : Clean x) : norm x = x := by
  obtain ⟨t, wd, w, c⟩ := x
  have hc : c = [] := h.nocomp
  subst hc
  simp only [norm, normT, List.foldl_nil]
  rw [List.filter_eq_self.2 h.allc]

theorem keys_lt_of_clean {d : Disk} (h : Clean d) : ∀ p ∈ d.tables, p.1 < maxGen (tblsOf d.tables) + 1 := by
  intro p hp
  have hc := h.allc p hp
  obtain ⟨g, t⟩ := p
  cases t with
  | part b => cases hc
  | complete c =>
    have hm : ({ gen := g, cells := c } : Tbl) ∈ tblsOf d.tables := by
      unfold tblsOf
      rw [List.mem_filterMap]
      exact ⟨(g, .complete c), hp, rfl⟩
    have := le_maxGen _ _ hm
    show g < _
    simp only at this
    omega

theorem walReadable_suffix (a b : List WalFile) (h : walReadable (a ++ b) = true) : walReadable b = true := by
  induction a with
  | nil => exact h
  | cons x a ih =>
    cases hab : a ++ b with
    | nil =>
      have : b = [] := (List.append_eq_nil_iff.1 hab).2
      rw [this]; rfl
    | cons y r =>
      rw [List.cons_append, hab] at h
      simp only [walReadable, Bool.and_eq_true] at h
      rw [hab] at ih
      exact ih h.2

theorem diskOk_logical_congr {d d' : Disk} (ht : d'.tables = d.tables) (hw : d'.wal = d.wal) (hc : d'.comps = d.comps)
    (hwd : d'.walDir = false → d'.wal = []) (h : DiskOk d) : DiskOk d' ∧ logical d' = logical d := by
  refine ⟨?_, ?_⟩
  · exact { tblSorted := ht ▸ h.tblSorted, walSorted := hw ▸ h.walSorted, compIds := hc ▸ h.compIds,
            walDirOk := hwd, walRead := hw ▸ h.walRead, putsOk := hw ▸ h.putsOk, oneFlag := hc ▸ h.oneFlag,
            flagOut := hc ▸ h.flagOut, covered := by rw [ht, hc]; exact h.covered }
  · funext k
    simp only [logical, effTables, phase1, ht, hw, hc]

/-- the tables after the recovery flush -/
def tablesB (d : Disk) : List (Nat × TableDir) :=
  if (walMuts d.wal).isEmpty then d.tables
  else d.tables ++ [(maxGen (tblsOf d.tables) + 1, .complete (applyMuts [] (walMuts d.wal)))]

/-- the good intermediate disks of the WAL-clearing part: new table in place, a suffix of the log left -/
theorem flushed_good (d : Disk) (h : Clean d) (pre fs : List WalFile) (hw : d.wal = pre ++ fs) (wd : Bool)
    (hwd : wd = false → fs = []) :
    let x : Disk := { tables := tablesB d, walDir := wd, wal := fs, comps := [] }
    DiskOk x ∧ logical x = logical d := by
  intro x
  have hsortw : (fs.map (·.num)).Pairwise (· < ·) := by
    have := h.ok.walSorted
    rw [hw, List.map_append, List.pairwise_append] at this
    exact this.2.1
  have hputs : ∀ m ∈ walMuts d.wal, m.ok = true := h.ok.putsOk
  have hmuts : walMuts d.wal = walMuts pre ++ walMuts fs := by rw [hw, walMuts_append]
  refine ⟨?_, ?_⟩
  · refine { tblSorted := ?_, walSorted := hsortw, compIds := by simp [x], walDirOk := hwd,
             walRead := walReadable_suffix pre fs (hw ▸ h.ok.walRead), putsOk := ?_, oneFlag := by simp [x],
             flagOut := (by intro c hc; cases hc), covered := ?_ }
    · show ((tablesB d).map (·.1)).Pairwise (· < ·)
      unfold tablesB
      split
      · exact h.ok.tblSorted
      · rw [List.map_append, List.pairwise_append]
        refine ⟨h.ok.tblSorted, by simp, ?_⟩
        intro a ha b hb
        obtain ⟨p, hp, rfl⟩ := List.mem_map.1 ha
        simp only [List.map_cons, List.map_nil, List.mem_singleton] at hb
        subst hb
        exact keys_lt_of_clean h p hp
    · intro m hm
      apply hputs
      rw [hmuts]
      exact List.mem_append_right _ hm
    · intro p hp hpm
      have hp : p ∈ tablesB d := hp
      unfold tablesB at hp
      split at hp
      · have := h.allc p hp
        cases hp2 : p.2 with
        | part b => rw [hp2] at this; cases this
        | complete c => rw [hp2] at hpm; cases hpm
      · rcases List.mem_append.1 hp with (hp | hp)
        · have := h.allc p hp
          cases hp2 : p.2 with
          | part b => rw [hp2] at this; cases this
          | complete c => rw [hp2] at hpm; cases hpm
        · simp only [List.mem_singleton] at hp
          subst hp
          cases hpm
  · funext k
    rw [logical_eq, logical_eq, effTables_nocomp x rfl, effTables_nocomp d h.nocomp]
    show rd (applyMuts [] (walMuts fs)) (tblsOf (tablesB d)) k = _
    unfold tablesB
    split
    · rename_i he
      have he : walMuts d.wal = [] := by simpa using he
      have hfs : walMuts fs = [] := by
        rw [hmuts] at he
        exact (List.append_eq_nil_iff.1 he).2
      rw [he, hfs]
    · rw [tblsOf_append]
      have : tblsOf [(maxGen (tblsOf d.tables) + 1, TableDir.complete (applyMuts [] (walMuts d.wal)))] =
          [{ gen := maxGen (tblsOf d.tables) + 1, cells := applyMuts [] (walMuts d.wal) }] := rfl
      rw [this, hmuts]
      apply rd_flushed
      intro m hm
      apply hputs
      rw [hmuts]
      exact List.mem_append_left _ hm

theorem eraseW_head (f : WalFile) (fs : List WalFile) (h : ((f :: fs).map (·.num)).Pairwise (· < ·)) :
    eraseW f.num (f :: fs) = fs := by
  unfold eraseW
  rw [List.filter_cons_of_neg (by simp), List.filter_eq_self]
  intro x hx
  rw [List.map_cons, List.pairwise_cons] at h
  have := h.1 x.num (List.mem_map.2 ⟨x, hx, rfl⟩)
  simp; omega

/-- the good disks while phase 3 runs -/
def Good3 (d : Disk) (x : Disk) : Prop := DiskOk x ∧ logical x = logical d

theorem unlink_seg (d : Disk) (h : Clean d) (fs : List WalFile) :
    ∀ pre, d.wal = pre ++ fs →
    Seg (Good3 d) (fun x => x = { tables := tablesB d, walDir := true, wal := fs, comps := [] })
      (fs.map (fun f => Ev.walUnlink f.num))
      (fun x => x = { tables := tablesB d, walDir := true, wal := [], comps := [] }) := by
  induction fs with
  | nil =>
    intro pre hw
    apply Seg.nil
    intro x hx
    subst hx
    exact ⟨flushed_good d h pre [] hw true (by simp), rfl⟩
  | cons f fs ih =>
    intro pre hw
    rw [List.map_cons]
    refine Seg.cons ?_ (ih (pre ++ [f]) (by rw [hw]; simp))
    intro x hx
    subst hx
    refine ⟨flushed_good d h pre (f :: fs) hw true (by simp), ?_⟩
    have hs : ((f :: fs).map (·.num)).Pairwise (· < ·) := by
      have := h.ok.walSorted
      rw [hw, List.map_append, List.pairwise_append] at this
      exact this.2.1
    simp only [applyEv]
    rw [eraseW_head f fs hs]

theorem phase3_seg (d : Disk) (h : Clean d) (o : Opts) (d' : Disk) (s : State) (h3 : phase3 d o = .ok (d', s)) :
    Seg (Good3 d) (fun x => x = d) (phase3Events d) (fun x => x = d') := by
  have hread : walReadable d.wal = true := h.ok.walRead
  have hcomps := h.nocomp
  -- the disk phase 3 returns
  have hd' : d' = { tables := tablesB d, walDir := true, wal := freshWal, comps := [] } := by
    unfold phase3 at h3
    rw [hread] at h3
    simp only [Bool.not_true, Bool.false_eq_true, if_false] at h3
    unfold tablesB
    split at h3
    · rename_i he
      cases h3
      rw [if_pos he, hcomps]
    · rename_i he
      cases h3
      rw [if_neg he, hcomps, insertT_last _ _ _ (keys_lt_of_clean h)]
  unfold phase3Events
  rw [hread]
  simp only [Bool.not_true, Bool.false_eq_true, if_false]
  -- stage A: the WAL directory exists
  have hA : Seg (Good3 d) (fun x => x = d) (if d.walDir = true then [] else [Ev.walDirCreate])
      (fun x => x = { d with walDir := true }) := by
    split
    · rename_i hwd
      apply Seg.nil
      intro x hx; subst hx
      refine ⟨⟨h.ok, rfl⟩, ?_⟩
      cases x; simp_all
    · refine Seg.cons (Q := fun x => x = { d with walDir := true }) ?_ (Seg.nil ?_)
      · intro x hx; subst hx
        exact ⟨⟨h.ok, rfl⟩, rfl⟩
      · intro x hx; subst hx
        refine ⟨?_, rfl⟩
        exact diskOk_logical_congr rfl rfl rfl (by intro hf; cases hf) h.ok
  -- stage B: the recovery flush
  have hgoodB : ∀ t : TableDir,
      (t = .part false ∨ ∃ J, t = .complete J ∧ ∀ k, Layer.get J k ≠ none → Layer.get (applyMuts [] (walMuts d.wal)) k ≠ none) →
      Good3 d { d with walDir := true, tables := d.tables ++ [(maxGen (tblsOf d.tables) + 1, t)] } := by
    intro t ht
    have hpm : isPartMeta t = false := by
      rcases ht with (rfl | ⟨J, rfl, _⟩) <;> rfl
    refine ⟨?_, ?_⟩
    · refine { h.ok with tblSorted := ?_, walDirOk := (by intro hf; cases hf), covered := ?_ }
      · show ((d.tables ++ _).map (·.1)).Pairwise (· < ·)
        rw [List.map_append, List.pairwise_append]
        refine ⟨h.ok.tblSorted, by simp, ?_⟩
        intro a ha b hb
        obtain ⟨p, hp, rfl⟩ := List.mem_map.1 ha
        simp only [List.map_cons, List.map_nil, List.mem_singleton] at hb
        subst hb
        exact keys_lt_of_clean h p hp
      · intro p hp hpm'
        have hp : p ∈ d.tables ++ [(maxGen (tblsOf d.tables) + 1, t)] := hp
        rcases List.mem_append.1 hp with (hp | hp)
        · exact h.ok.covered p hp hpm'
        · simp only [List.mem_singleton] at hp
          subst hp
          rw [hpm] at hpm'; cases hpm'
    · funext k
      simp only [logical_eq, effTables, phase1, hcomps, List.foldl_nil]
      rw [tblsOf_append]
      rcases ht with (rfl | ⟨J, rfl, hJ⟩)
      · simp [tblsOf_cons_part, tblsOf_nil]
      · rw [tblsOf_cons_complete, tblsOf_nil]
        unfold rd
        rw [tablesGet_append, tablesGet_single]
        cases hm : Layer.get (applyMuts [] (walMuts d.wal)) k with
        | some x => cases x <;> rfl
        | none =>
          have : Layer.get J k = none := by
            cases hj : Layer.get J k with
            | none => rfl
            | some y => exact absurd hm (hJ k (by rw [hj]; simp))
          simp [this]
  have hB : Seg (Good3 d) (fun x => x = { d with walDir := true })
      (if (walMuts d.wal).isEmpty = true then []
        else [Ev.tblMkdir (maxGen (tblsOf d.tables) + 1), Ev.tblLoadable (maxGen (tblsOf d.tables) + 1) [],
              Ev.tblMetaCreate (maxGen (tblsOf d.tables) + 1), Ev.tblProgress (maxGen (tblsOf d.tables) + 1),
              Ev.tblComplete (maxGen (tblsOf d.tables) + 1) (applyMuts [] (walMuts d.wal))])
      (fun x => x = { tables := tablesB d, walDir := true, wal := d.wal, comps := [] }) := by
    split
    · rename_i he
      apply Seg.nil
      intro x hx; subst hx
      refine ⟨diskOk_logical_congr rfl rfl rfl (by intro hf; cases hf) h.ok, ?_⟩
      unfold tablesB
      rw [if_pos he, hcomps]
    · rename_i he
      have hins : insertT (maxGen (tblsOf d.tables) + 1) (.part false) d.tables =
          d.tables ++ [(maxGen (tblsOf d.tables) + 1, .part false)] := insertT_last _ _ _ (keys_lt_of_clean h)
      have habs : ∀ p ∈ d.tables, p.1 ≠ maxGen (tblsOf d.tables) + 1 := by
        intro p hp; have := keys_lt_of_clean h p hp; omega
      have hupd : ∀ (t t' : TableDir),
          updT (maxGen (tblsOf d.tables) + 1) (fun _ => t') (d.tables ++ [(maxGen (tblsOf d.tables) + 1, t)]) =
            d.tables ++ [(maxGen (tblsOf d.tables) + 1, t')] := by
        intro t t'
        rw [updT_append, updT_id_of_absent _ _ _ habs]
        simp [updT]
      have hpart := hgoodB (.part false) (Or.inl rfl)
      have hempty := hgoodB (.complete []) (Or.inr ⟨[], rfl, fun k hk => absurd (layerGet_nil k) hk⟩)
      refine Seg.cons (Q := fun x => x = { d with walDir := true, tables := d.tables ++ [(maxGen (tblsOf d.tables) + 1, .part false)] }) ?_
        (Seg.cons (Q := fun x => x = { d with walDir := true, tables := d.tables ++ [(maxGen (tblsOf d.tables) + 1, .complete [])] }) ?_
          (Seg.cons (Q := fun x => x = { d with walDir := true, tables := d.tables ++ [(maxGen (tblsOf d.tables) + 1, .part false)] }) ?_
            (Seg.cons (Q := fun x => x = { d with walDir := true, tables := d.tables ++ [(maxGen (tblsOf d.tables) + 1, .part false)] }) ?_
              (Seg.cons (Q := fun x => x = { tables := tablesB d, walDir := true, wal := d.wal, comps := [] }) ?_ (Seg.nil ?_)))))
      · intro x hx; subst hx
        refine ⟨diskOk_logical_congr rfl rfl rfl (by intro hf; cases hf) h.ok, ?_⟩
        simp only [applyEv]
        rw [hins]
      · intro x hx
        refine ⟨hx ▸ hpart, ?_⟩
        subst hx
        simp only [applyEv]
        rw [hupd]
      · intro x hx
        refine ⟨hx ▸ hempty, ?_⟩
        subst hx
        simp only [applyEv]
        rw [hupd]
      · intro x hx
        exact ⟨hx ▸ hpart, by subst hx; rfl⟩
      · intro x hx
        refine ⟨hx ▸ hpart, ?_⟩
        subst hx
        simp only [applyEv]
        rw [hupd]
        unfold tablesB
        rw [if_neg he, hcomps]
      · intro x hx; subst hx
        exact ⟨flushed_good d h [] d.wal rfl true (by simp), rfl⟩
  -- stage C: the log files go, oldest first
  have hC := unlink_seg d h d.wal [] rfl
  -- stage D: the directory is removed and re-created with a fresh file
  have hD : Seg (Good3 d) (fun x => x = { tables := tablesB d, walDir := true, wal := [], comps := [] })
      [Ev.walDirRemove, Ev.walDirCreate, Ev.walCreate 0, Ev.walHeader 0] (fun x => x = d') := by
    have hg : ∀ (wd : Bool) (fs : List WalFile), walMuts fs = [] → (fs.map (·.num)).Pairwise (· < ·) →
        walReadable fs = true → (wd = false → fs = []) →
        Good3 d { tables := tablesB d, walDir := wd, wal := fs, comps := [] } := by
      intro wd fs hm hs hr hwd
      obtain ⟨h1, h2⟩ := flushed_good d h d.wal [] (by simp) wd (by intro _; rfl)
      refine ⟨?_, ?_⟩
      · exact { h1 with walSorted := hs, walDirOk := hwd, walRead := hr, putsOk := by rw [hm]; intro m hm; cases hm }
      · rw [← h2]
        funext k
        simp only [logical, effTables, phase1, hm, walMuts_nil]
    refine Seg.cons (Q := fun x => x = { tables := tablesB d, walDir := false, wal := [], comps := [] }) ?_
      (Seg.cons (Q := fun x => x = { tables := tablesB d, walDir := true, wal := [], comps := [] }) ?_
        (Seg.cons (Q := fun x => x = { tables := tablesB d, walDir := true, wal := [{ num := 0, header := false }], comps := [] }) ?_
          (Seg.cons (Q := fun x => x = d') ?_ (Seg.nil ?_))))
    · intro x hx; subst hx
      exact ⟨hg true [] rfl (by simp) rfl (by simp), rfl⟩
    · intro x hx; subst hx
      exact ⟨hg false [] rfl (by simp) rfl (by simp), rfl⟩
    · intro x hx; subst hx
      exact ⟨hg true [] rfl (by simp) rfl (by simp), rfl⟩
    · intro x hx; subst hx
      refine ⟨hg true _ rfl (by simp) rfl (by simp), ?_⟩
      rw [hd']; rfl
    · intro x hx; subst hx
      refine ⟨?_, rfl⟩
      rw [hd']
      exact hg true _ rfl (by simp [freshWal]) rfl (by simp)
  exact Seg.append hA (Seg.append (Seg.append hB hC) hD)

/-! ## `RemoveAll` orders that unlink the metadata first -/

/-- the extra states of `detour` are good, and the detour ends where the plain sequence ends -/
theorem detour_run (junk : List (Nat × Layer)) (f : Nat) : ∀ (d : Disk), DiskOk d →
    applyEvs d (detour junk d (cleanRun f d)) = applyEvs d (cleanRun f d) ∧
    ∀ n, DiskOk (applyEvs d ((detour junk d (cleanRun f d)).take n)) ∧
      logical (applyEvs d ((detour junk d (cleanRun f d)).take n)) = logical d := by
  induction f with
  | zero =>
    intro d h
    refine ⟨rfl, fun n => ?_⟩
    simp only [cleanRun, detour, List.take_nil, applyEvs_nil]
    exact ⟨h, trivial⟩
  | succ f ih =>
    intro d h
    simp only [cleanRun]
    cases he : cleanStep d with
    | none =>
      refine ⟨rfl, fun n => ?_⟩
      simp only [detour, List.take_nil, applyEvs_nil]
      exact ⟨h, trivial⟩
    | some e =>
      obtain ⟨h1, h2⟩ := cleanStep_ok d h e he
      obtain ⟨ih1, ih2⟩ := ih (applyEv d e) h1
      have hl1 : logical (applyEv d e) = logical d := logical_of_norm h2
      -- the plain case: nothing inserted in front of `e`
      have hplain : ∀ pre : List Ev, pre = [] →
          applyEvs d (pre ++ e :: detour junk (applyEv d e) (cleanRun f (applyEv d e))) =
            applyEvs d (e :: cleanRun f (applyEv d e)) ∧
          ∀ n, DiskOk (applyEvs d ((pre ++ e :: detour junk (applyEv d e) (cleanRun f (applyEv d e))).take n)) ∧
            logical (applyEvs d ((pre ++ e :: detour junk (applyEv d e) (cleanRun f (applyEv d e))).take n)) = logical d := by
        intro pre hpre
        subst hpre
        simp only [List.nil_append, applyEvs_cons]
        refine ⟨ih1, fun n => ?_⟩
        cases n with
        | zero => simp only [List.take_zero, applyEvs_nil]; exact ⟨h, trivial⟩
        | succ n =>
          rw [List.take_succ_cons, applyEvs_cons]
          exact ⟨(ih2 n).1, (ih2 n).2.trans hl1⟩
      -- one state inserted: the directory is seen as a legacy table
      have hins : ∀ (g : Nat) (J : Layer), Good3 d (applyEv d (.tblLoadable g J)) →
          applyEv (applyEv d (.tblLoadable g J)) e = applyEv d e →
          applyEvs d ([Ev.tblLoadable g J] ++ e :: detour junk (applyEv d e) (cleanRun f (applyEv d e))) =
            applyEvs d (e :: cleanRun f (applyEv d e)) ∧
          ∀ n, DiskOk (applyEvs d (([Ev.tblLoadable g J] ++ e :: detour junk (applyEv d e) (cleanRun f (applyEv d e))).take n)) ∧
            logical (applyEvs d (([Ev.tblLoadable g J] ++ e :: detour junk (applyEv d e) (cleanRun f (applyEv d e))).take n)) = logical d := by
        intro g J hgood hback
        simp only [List.singleton_append, applyEvs_cons, hback]
        refine ⟨ih1, fun n => ?_⟩
        cases n with
        | zero => simp only [List.take_zero, applyEvs_nil]; exact ⟨h, trivial⟩
        | succ n =>
          rw [List.take_succ_cons, applyEvs_cons]
          cases n with
          | zero => simp only [List.take_zero, applyEvs_nil]; exact hgood
          | succ n =>
            rw [List.take_succ_cons, applyEvs_cons, hback]
            exact ⟨(ih2 n).1, (ih2 n).2.trans hl1⟩
      show applyEvs d (detour junk d (e :: cleanRun f (applyEv d e))) = _ ∧ _
      simp only [detour]
      rcases cleanStep_ctx d h e he with (⟨c, _, (rfl | rfl)⟩ | ⟨c, m, hcs, hm, hcase⟩ | ⟨hcs, g, hg, rfl⟩)
      · exact hplain _ rfl
      · exact hplain _ rfl
      · rcases hcase with (⟨g, t, hgin, hgt, rfl⟩ | rfl)
        · -- a table of the flagged compaction: whatever it is seen as, it is deleted again
          have hgoodJ : ∀ J, Good3 d (applyEv d (.tblLoadable g J)) := by
            intro J
            obtain ⟨a1, a2⟩ := input_event_ok d h c m hcs hm g hgin (.tblLoadable g J) (Or.inr (Or.inr ⟨J, rfl⟩))
            exact ⟨a1, logical_of_norm a2⟩
          cases t with
          | complete cells =>
            have hfor : detourFor junk (rmTblEv g (.complete cells)) = detourPre junk g := rfl
            rw [hfor]
            cases hj : lookupJ junk g with
            | none =>
              have hpre : detourPre junk g = [] := by unfold detourPre; rw [hj]
              rw [hpre]; exact hplain _ rfl
            | some j =>
              have hpre : detourPre junk g = [.tblLoadable g j] := by
                unfold detourPre; rw [hj]
              rw [hpre]
              refine hins g _ (hgoodJ _) ?_
              show ({ d with tables := updT g (TableDir.unlink true) (updT g (fun _ => .complete _) d.tables) } : Disk) =
                { d with tables := updT g (TableDir.unlink true) d.tables }
              rw [updT_updT]
              congr 1
              apply updT_congr
              intro p hp hpg
              rw [entry_unique h.tblSorted hgt p hp hpg]; rfl
          | part b =>
            cases b with
            | true => exact hplain _ rfl
            | false => exact hplain _ rfl
        · exact hplain _ rfl
      · -- an unfinished table: index.rio first, nothing on the way loads
        exact hplain _ rfl

/-! ## the whole recovery, interrupted anywhere -/

/-- the event sequence of `Open` produces the disk `recover` computes -/
theorem recover_events (d : Disk) (h : DiskOk d) (o : Opts) (d' : Disk) (s : State)
    (hr : recover d o = .ok (d', s)) (junk : List (Nat × Layer) := []) : applyEvs d (recoverEvents d junk) = d' := by
  rw [recover_eq d h] at hr
  unfold recoverEvents
  rw [phase12_ok d h, applyEvs_append]
  have := (detour_run junk (mu d) d h).1
  unfold cleanEvents
  rw [this]
  have hfull := cleanEvents_full d h
  unfold cleanEvents at hfull
  rw [hfull]
  exact (phase3_seg (norm d) (norm_clean d h) o d' s hr _ rfl).2

/-- after any prefix of the calls `Open` makes, the disk is well-formed and its recovery serves the same content -/
theorem recover_prefix (d : Disk) (h : DiskOk d) (n : Nat) (junk : List (Nat × Layer) := []) :
    DiskOk (applyEvs d ((recoverEvents d junk).take n)) ∧
      logical (applyEvs d ((recoverEvents d junk).take n)) = logical d := by
  obtain ⟨d', s, hr⟩ := recover_ok d h {}
  rw [recover_eq d h] at hr
  unfold recoverEvents
  rw [phase12_ok d h, List.take_append, applyEvs_append]
  obtain ⟨hd1, hd2⟩ := detour_run junk (mu d) d h
  have hfull := cleanEvents_full d h
  unfold cleanEvents at hfull ⊢
  by_cases hn : n ≤ (detour junk d (cleanRun (mu d) d)).length
  · have : n - (detour junk d (cleanRun (mu d) d)).length = 0 := by omega
    rw [this, List.take_zero, applyEvs_nil]
    exact hd2 n
  · rw [List.take_of_length_le (by omega), hd1, hfull]
    obtain ⟨h1, h2⟩ := (phase3_seg (norm d) (norm_clean d h) {} d' s hr _ rfl).1
      (n - (detour junk d (cleanRun (mu d) d)).length)
    refine ⟨h1, h2.trans (logical_of_norm ?_)⟩
    exact norm_of_clean (norm_clean d h)

/-- the disk a completed recovery leaves is well-formed, too -/
theorem recover_diskOk (d : Disk) (h : DiskOk d) (o : Opts) (d' : Disk) (s : State)
    (hr : recover d o = .ok (d', s)) : DiskOk d' ∧ logical d' = logical d := by
  have h1 := recover_prefix d h (recoverEvents d).length
  rw [List.take_length, recover_events d h o d' s hr] at h1
  exact h1

end SST.Proofs.FS
