/-
Proofs for C12 on the LEGACY recordio file versions 1, 2 and 3 (no header checksum): a file cut at any length
reads as exactly the records completely contained in what is left, then an error (`legacy_truncate_prefix`,
`legacy_truncate_readAt`).  The helper lemmas live in `SST.Proofs.Legacy.Dmg`.
-/
import SST.Proofs.RecordIOLegacy
namespace SST.Proofs.Legacy
namespace Dmg
open SST Generated SST.Legacy SST.Buf

/-! ## successful varint / header parses only look at the bytes they consume -/

theorem uvarintDec_ok_ext (bs : Bytes) (v n : Nat) (h : uvarintDec bs = .ok (v, n)) :
    1 ≤ n ∧ n ≤ bs.length ∧ ∀ t, uvarintDec (bs ++ t) = .ok (v, n) := by
  obtain ⟨a1, a2, a3⟩ := uvarintDecAux_ok_ext bs 0 0 0 v n h
  exact ⟨by omega, by omega, a3⟩

theorem readHeaderS2_ok_ext (s : Bytes) (h : RecHeader) (hok : readHeaderS2 s = .ok h) :
    h.hlen ≤ s.length ∧ ∀ t, readHeaderS2 (s ++ t) = .ok h := by
  unfold readHeaderS2 at hok
  cases h1 : uvarintDec s with
  | error e => rw [h1] at hok; cases hok
  | ok p1 =>
    obtain ⟨m, c1⟩ := p1
    rw [h1] at hok
    simp only [] at hok
    by_cases hm : m ≠ magicNumber
    · rw [if_pos hm] at hok; cases hok
    · rw [if_neg hm] at hok
      cases h2 : uvarintDec (s.drop c1) with
      | error e => rw [h2] at hok; cases hok
      | ok p2 =>
        obtain ⟨u, c2⟩ := p2
        rw [h2] at hok
        simp only [] at hok
        cases h3 : uvarintDec ((s.drop c1).drop c2) with
        | error e => rw [h3] at hok; cases hok
        | ok p3 =>
          obtain ⟨cl, c3⟩ := p3
          rw [h3] at hok
          simp only [] at hok
          cases hok
          obtain ⟨_, l1, e1⟩ := uvarintDec_ok_ext _ _ _ h1
          obtain ⟨_, l2, e2⟩ := uvarintDec_ok_ext _ _ _ h2
          obtain ⟨_, l3, e3⟩ := uvarintDec_ok_ext _ _ _ h3
          simp only [List.length_drop] at l2 l3
          refine ⟨by simp only []; omega, fun t => ?_⟩
          have d1 : (s ++ t).drop c1 = s.drop c1 ++ t := List.drop_append_of_le_length l1
          have d2 : (s.drop c1 ++ t).drop c2 = (s.drop c1).drop c2 ++ t :=
            List.drop_append_of_le_length (by simp only [List.length_drop]; omega)
          unfold readHeaderS2
          rw [e1 t]; simp only []; rw [if_neg hm, d1, e2 t]; simp only []; rw [d2, e3 t]

theorem readHeaderS3_ok_ext (s : Bytes) (h : RecHeader) (hok : readHeaderS3 s = .ok h) :
    h.hlen ≤ s.length ∧ ∀ t, readHeaderS3 (s ++ t) = .ok h := by
  unfold readHeaderS3 at hok
  cases h1 : uvarintDec s with
  | error e => rw [h1] at hok; cases hok
  | ok p1 =>
    obtain ⟨m, c1⟩ := p1
    rw [h1] at hok
    simp only [] at hok
    by_cases hm : m ≠ magicNumber
    · rw [if_pos hm] at hok; cases hok
    · rw [if_neg hm] at hok
      cases h2 : s.drop c1 with
      | nil => rw [h2] at hok; cases hok
      | cons nb rest =>
        rw [h2] at hok
        simp only [] at hok
        cases h3 : uvarintDec rest with
        | error e => rw [h3] at hok; cases hok
        | ok p2 =>
          obtain ⟨u, c2⟩ := p2
          rw [h3] at hok
          simp only [] at hok
          cases h4 : uvarintDec (rest.drop c2) with
          | error e => rw [h4] at hok; cases hok
          | ok p3 =>
            obtain ⟨cl, c3⟩ := p3
            rw [h4] at hok
            simp only [] at hok
            cases hok
            obtain ⟨_, l1, e1⟩ := uvarintDec_ok_ext _ _ _ h1
            obtain ⟨_, l2, e2⟩ := uvarintDec_ok_ext _ _ _ h3
            obtain ⟨_, l3, e3⟩ := uvarintDec_ok_ext _ _ _ h4
            have hlen := congrArg List.length h2
            simp only [List.length_drop, List.length_cons] at hlen l3
            refine ⟨by simp only []; omega, fun t => ?_⟩
            have d1 : (s ++ t).drop c1 = nb :: (rest ++ t) := by
              rw [List.drop_append_of_le_length l1, h2]; rfl
            have d2 : (rest ++ t).drop c2 = rest.drop c2 ++ t := List.drop_append_of_le_length l2
            unfold readHeaderS3
            rw [e1 t]; simp only []; rw [if_neg hm, d1]; simp only []; rw [e2 t]; simp only []
            rw [d2, e3 t]

/-! ## the readers on a written header -/

theorem le32Dec_le32_mod (n : Nat) : le32Dec (le32 n) = some (n % 4294967296) := by
  simp only [le32, le32Dec]
  rw [toNat_ofNat_lt _ (Nat.mod_lt _ (by decide)), toNat_ofNat_lt _ (Nat.mod_lt _ (by decide)),
    toNat_ofNat_lt _ (Nat.mod_lt _ (by decide)), toNat_ofNat_lt _ (Nat.mod_lt _ (by decide))]
  congr 1; omega

theorem le64_length (n : Nat) : (le64 n).length = 8 := rfl

theorem le64Dec_le64 (n : Nat) (h : n < 2 ^ 64) : le64Dec (le64 n) = some n := by
  unfold le64Dec le64
  rw [List.take_left' (le32_length n), List.drop_left' (le32_length n), le32Dec_le32_mod, le32Dec_le32_mod]
  simp only [Option.some.injEq]
  omega

theorem encHeaderV1_length (u cl : Nat) : (encHeaderV1 u cl).length = 20 := rfl

theorem readRecordHeaderV1_enc (u cl : Nat) (hu : u < 2 ^ 64) (hcl : cl < 2 ^ 64) :
    readRecordHeaderV1 (encHeaderV1 u cl) = .ok (u, cl) := by
  have t1 : (encHeaderV1 u cl).take 4 = le32 magicNumber := by
    unfold encHeaderV1; rw [List.append_assoc, List.take_left' (le32_length _)]
  have t2 : ((encHeaderV1 u cl).drop 4).take 8 = le64 u := by
    unfold encHeaderV1
    rw [List.append_assoc, List.drop_left' (le32_length _), List.take_left' (le64_length _)]
  have t3 : ((encHeaderV1 u cl).drop 12).take 8 = le64 cl := by
    unfold encHeaderV1
    rw [List.drop_left' (by rfl : (le32 magicNumber ++ le64 u).length = 12),
      List.take_of_length_le (by rw [le64_length]; omega)]
  unfold readRecordHeaderV1
  rw [if_neg (by rw [encHeaderV1_length]; decide), t1, t2, t3, le64Dec_le64 u hu, le64Dec_le64 cl hcl,
    le32Dec_le32 magicNumber (by decide)]
  simp

theorem readHeaderS2_enc (u cl : Nat) (S : Bytes) (hu : u < 2 ^ 64) (hcl : cl < 2 ^ 64) :
    readHeaderS2 (encHeaderV2 u cl ++ S) =
      .ok { ulen := u, clen := cl, isNil := false, hlen := (encHeaderV2 u cl).length } := by
  have hs : encHeaderV2 u cl ++ S = uvarintEnc magicNumber ++ (uvarintEnc u ++ (uvarintEnc cl ++ S)) := by
    unfold encHeaderV2; rw [uvarintEnc_magic]; simp only [List.append_assoc]
  have hlen : (encHeaderV2 u cl).length =
      (uvarintEnc magicNumber).length + (uvarintEnc u).length + (uvarintEnc cl).length := by
    unfold encHeaderV2; rw [uvarintEnc_magic]; simp only [List.length_append]
  unfold readHeaderS2
  rw [hs, uvarintDec_enc magicNumber _ (by decide)]
  simp only []
  rw [if_neg (by simp), List.drop_left, uvarintDec_enc u _ hu]
  simp only []
  rw [List.drop_left, uvarintDec_enc cl _ hcl]
  simp only [hlen]

theorem encHeaderV3_eq (nf : Bool) (u cl : Nat) (S : Bytes) :
    encHeaderV3 nf u cl ++ S =
      uvarintEnc magicNumber ++ ((if nf then 1 else 0) :: (uvarintEnc u ++ (uvarintEnc cl ++ S))) := by
  unfold encHeaderV3 headerBody; rw [uvarintEnc_magic]; simp only [List.append_assoc]; rfl

theorem encHeaderV3_length (nf : Bool) (u cl : Nat) : (encHeaderV3 nf u cl).length =
    (uvarintEnc magicNumber).length + 1 + (uvarintEnc u).length + (uvarintEnc cl).length := by
  unfold encHeaderV3 headerBody; rw [uvarintEnc_magic]; simp only [List.length_append, List.length_singleton]

theorem readHeaderS3_enc (nf : Bool) (u cl : Nat) (S : Bytes) (hu : u < 2 ^ 64) (hcl : cl < 2 ^ 64) :
    readHeaderS3 (encHeaderV3 nf u cl ++ S) =
      .ok { ulen := u, clen := cl, isNil := nf, hlen := (encHeaderV3 nf u cl).length } := by
  unfold readHeaderS3
  rw [encHeaderV3_eq, uvarintDec_enc magicNumber _ (by decide)]
  simp only []
  rw [if_neg (by simp), List.drop_left]
  simp only []
  rw [uvarintDec_enc u _ hu]
  simp only []
  rw [List.drop_left, uvarintDec_enc cl _ hcl]
  simp only [encHeaderV3_length]
  cases nf <;> rfl

/-! ## cut headers: the parse fails or has seen the whole header -/

theorem readHeaderS2_trunc (u cl : Nat) (S : Bytes) (j : Nat) (hu : u < 2 ^ 64) (hcl : cl < 2 ^ 64) :
    (∃ e, readHeaderS2 ((encHeaderV2 u cl ++ S).take j) = .error e) ∨
    (readHeaderS2 ((encHeaderV2 u cl ++ S).take j) =
        .ok { ulen := u, clen := cl, isNil := false, hlen := (encHeaderV2 u cl).length } ∧
      (encHeaderV2 u cl).length ≤ j) := by
  cases hr : readHeaderS2 ((encHeaderV2 u cl ++ S).take j) with
  | error e => exact Or.inl ⟨e, rfl⟩
  | ok h =>
    right
    obtain ⟨hl, hext⟩ := readHeaderS2_ok_ext _ h hr
    have h1 := hext ((encHeaderV2 u cl ++ S).drop j)
    rw [List.take_append_drop, readHeaderS2_enc u cl S hu hcl] at h1
    cases h1
    refine ⟨rfl, ?_⟩
    rw [List.length_take] at hl
    simp only [] at hl
    omega

theorem readHeaderS3_trunc (nf : Bool) (u cl : Nat) (S : Bytes) (j : Nat) (hu : u < 2 ^ 64) (hcl : cl < 2 ^ 64) :
    (∃ e, readHeaderS3 ((encHeaderV3 nf u cl ++ S).take j) = .error e) ∨
    (readHeaderS3 ((encHeaderV3 nf u cl ++ S).take j) =
        .ok { ulen := u, clen := cl, isNil := nf, hlen := (encHeaderV3 nf u cl).length } ∧
      (encHeaderV3 nf u cl).length ≤ j) := by
  cases hr : readHeaderS3 ((encHeaderV3 nf u cl ++ S).take j) with
  | error e => exact Or.inl ⟨e, rfl⟩
  | ok h =>
    right
    obtain ⟨hl, hext⟩ := readHeaderS3_ok_ext _ h hr
    have h1 := hext ((encHeaderV3 nf u cl ++ S).drop j)
    rw [List.take_append_drop, readHeaderS3_enc nf u cl S hu hcl] at h1
    cases h1
    refine ⟨rfl, ?_⟩
    rw [List.length_take] at hl
    simp only [] at hl
    omega

/-! ## cut records, sequential readers -/

/-- a failed header parse never turns into a record (the zero-tail rule only picks the error kind) -/
theorem readBodyS_error (c : Compression) (s : Bytes) (e : Err) :
    ∃ e', readBodyS c s (.error e) = .error e' := by
  unfold readBodyS
  split
  · split
    · split <;> exact ⟨_, rfl⟩
    · exact ⟨_, rfl⟩
  · exact ⟨_, rfl⟩
  · rename_i h; cases h

theorem specFull_of_le (s : Bytes) (n : Nat) (h : n ≤ s.length) :
    specFull s n = (s.take n, none, s.drop n) := by
  unfold specFull
  rw [if_pos h]

theorem expectedV1_enc (c : Compression) (r : Bytes) :
    expectedV1 c r.length (clenOf c r) = (stored c r).length := by
  cases c <;> rfl

/-! ## error kinds of a cut record: only EOF / unexpected EOF -/

theorem uvarintDec_prefix (bs t : Bytes) :
    uvarintDec bs = uvarintDec (bs ++ t) ∨ uvarintDec bs = .error .eof ∨
      uvarintDec bs = .error .unexpectedEof :=
  uvarintDecAux_prefix bs t 0 0 0

theorem readHeaderS2_ok_inv (s : Bytes) (h : RecHeader) (hok : readHeaderS2 s = .ok h) :
    ∃ c1 u c2 cl c3, uvarintDec s = .ok (magicNumber, c1) ∧ uvarintDec (s.drop c1) = .ok (u, c2) ∧
      uvarintDec ((s.drop c1).drop c2) = .ok (cl, c3) ∧
      h = { ulen := u, clen := cl, isNil := false, hlen := c1 + c2 + c3 } := by
  unfold readHeaderS2 at hok
  cases h1 : uvarintDec s with
  | error e => rw [h1] at hok; cases hok
  | ok p1 =>
    obtain ⟨m, c1⟩ := p1
    rw [h1] at hok
    simp only [] at hok
    by_cases hm : m ≠ magicNumber
    · rw [if_pos hm] at hok; cases hok
    · rw [if_neg hm] at hok
      have hm' : m = magicNumber := Decidable.not_not.mp hm
      subst hm'
      cases h2 : uvarintDec (s.drop c1) with
      | error e => rw [h2] at hok; cases hok
      | ok p2 =>
        obtain ⟨u, c2⟩ := p2
        rw [h2] at hok
        simp only [] at hok
        cases h3 : uvarintDec ((s.drop c1).drop c2) with
        | error e => rw [h3] at hok; cases hok
        | ok p3 =>
          obtain ⟨cl, c3⟩ := p3
          rw [h3] at hok
          simp only [] at hok
          cases hok
          exact ⟨c1, u, c2, cl, c3, rfl, h2, h3, rfl⟩

theorem readHeaderS2_err1 (s : Bytes) (e : Err) (h1 : uvarintDec s = .error e) :
    readHeaderS2 s = .error e := by
  unfold readHeaderS2; rw [h1]

theorem readHeaderS2_err2 (s : Bytes) (c1 : Nat) (e : Err) (h1 : uvarintDec s = .ok (magicNumber, c1))
    (h2 : uvarintDec (s.drop c1) = .error e) : readHeaderS2 s = .error e := by
  unfold readHeaderS2; rw [h1]; simp only []; rw [if_neg (by simp), h2]

theorem readHeaderS2_err3 (s : Bytes) (c1 u c2 : Nat) (e : Err) (h1 : uvarintDec s = .ok (magicNumber, c1))
    (h2 : uvarintDec (s.drop c1) = .ok (u, c2)) (h3 : uvarintDec ((s.drop c1).drop c2) = .error e) :
    readHeaderS2 s = .error e := by
  unfold readHeaderS2; rw [h1]; simp only []; rw [if_neg (by simp), h2]; simp only []; rw [h3]

theorem readHeaderS2_ok_of (s : Bytes) (c1 u c2 cl c3 : Nat) (h1 : uvarintDec s = .ok (magicNumber, c1))
    (h2 : uvarintDec (s.drop c1) = .ok (u, c2)) (h3 : uvarintDec ((s.drop c1).drop c2) = .ok (cl, c3)) :
    readHeaderS2 s = .ok { ulen := u, clen := cl, isNil := false, hlen := c1 + c2 + c3 } := by
  unfold readHeaderS2; rw [h1]; simp only []; rw [if_neg (by simp), h2]; simp only []; rw [h3]

/-- on a prefix of bytes that parse as a version 2 header, the parse succeeds identically or runs off the end -/
theorem readHeaderS2_prefix (s t : Bytes) (h : RecHeader) (hok : readHeaderS2 (s ++ t) = .ok h) :
    readHeaderS2 s = .ok h ∨ readHeaderS2 s = .error .eof ∨ readHeaderS2 s = .error .unexpectedEof := by
  obtain ⟨c1, u, c2, cl, c3, g1, g2, g3, rfl⟩ := readHeaderS2_ok_inv _ h hok
  rcases uvarintDec_prefix s t with k1 | k1 | k1
  case inr.inl => exact Or.inr (Or.inl (readHeaderS2_err1 s _ k1))
  case inr.inr => exact Or.inr (Or.inr (readHeaderS2_err1 s _ k1))
  rw [g1] at k1
  obtain ⟨_, l1, _⟩ := uvarintDec_ok_ext _ _ _ k1
  rw [List.drop_append_of_le_length l1] at g2 g3
  rcases uvarintDec_prefix (s.drop c1) t with k2 | k2 | k2
  case inr.inl => exact Or.inr (Or.inl (readHeaderS2_err2 s c1 _ k1 k2))
  case inr.inr => exact Or.inr (Or.inr (readHeaderS2_err2 s c1 _ k1 k2))
  rw [g2] at k2
  obtain ⟨_, l2, _⟩ := uvarintDec_ok_ext _ _ _ k2
  rw [List.drop_append_of_le_length l2] at g3
  rcases uvarintDec_prefix ((s.drop c1).drop c2) t with k3 | k3 | k3
  case inr.inl => exact Or.inr (Or.inl (readHeaderS2_err3 s c1 u c2 _ k1 k2 k3))
  case inr.inr => exact Or.inr (Or.inr (readHeaderS2_err3 s c1 u c2 _ k1 k2 k3))
  rw [g3] at k3
  exact Or.inl (readHeaderS2_ok_of s c1 u c2 cl c3 k1 k2 k3)

theorem readHeaderS3_ok_inv (s : Bytes) (h : RecHeader) (hok : readHeaderS3 s = .ok h) :
    ∃ c1 nb rest u c2 cl c3, uvarintDec s = .ok (magicNumber, c1) ∧ s.drop c1 = nb :: rest ∧
      uvarintDec rest = .ok (u, c2) ∧ uvarintDec (rest.drop c2) = .ok (cl, c3) ∧
      h = { ulen := u, clen := cl, isNil := nb == 1, hlen := c1 + 1 + c2 + c3 } := by
  unfold readHeaderS3 at hok
  cases h1 : uvarintDec s with
  | error e => rw [h1] at hok; cases hok
  | ok p1 =>
    obtain ⟨m, c1⟩ := p1
    rw [h1] at hok
    simp only [] at hok
    by_cases hm : m ≠ magicNumber
    · rw [if_pos hm] at hok; cases hok
    · rw [if_neg hm] at hok
      have hm' : m = magicNumber := Decidable.not_not.mp hm
      subst hm'
      cases h2 : s.drop c1 with
      | nil => rw [h2] at hok; cases hok
      | cons nb rest =>
        rw [h2] at hok
        simp only [] at hok
        cases h3 : uvarintDec rest with
        | error e => rw [h3] at hok; cases hok
        | ok p2 =>
          obtain ⟨u, c2⟩ := p2
          rw [h3] at hok
          simp only [] at hok
          cases h4 : uvarintDec (rest.drop c2) with
          | error e => rw [h4] at hok; cases hok
          | ok p3 =>
            obtain ⟨cl, c3⟩ := p3
            rw [h4] at hok
            simp only [] at hok
            cases hok
            exact ⟨c1, nb, rest, u, c2, cl, c3, rfl, h2, h3, h4, rfl⟩

theorem readHeaderS3_err1 (s : Bytes) (e : Err) (h1 : uvarintDec s = .error e) :
    readHeaderS3 s = .error e := by
  unfold readHeaderS3; rw [h1]

theorem readHeaderS3_err2 (s : Bytes) (c1 : Nat) (h1 : uvarintDec s = .ok (magicNumber, c1))
    (h2 : s.drop c1 = []) : readHeaderS3 s = .error .eof := by
  unfold readHeaderS3; rw [h1]; simp only []; rw [if_neg (by simp), h2]

theorem readHeaderS3_err3 (s : Bytes) (c1 : Nat) (nb : UInt8) (rest : Bytes) (e : Err)
    (h1 : uvarintDec s = .ok (magicNumber, c1)) (h2 : s.drop c1 = nb :: rest)
    (h3 : uvarintDec rest = .error e) : readHeaderS3 s = .error e := by
  unfold readHeaderS3; rw [h1]; simp only []; rw [if_neg (by simp), h2]; simp only []; rw [h3]

theorem readHeaderS3_err4 (s : Bytes) (c1 : Nat) (nb : UInt8) (rest : Bytes) (u c2 : Nat) (e : Err)
    (h1 : uvarintDec s = .ok (magicNumber, c1)) (h2 : s.drop c1 = nb :: rest)
    (h3 : uvarintDec rest = .ok (u, c2)) (h4 : uvarintDec (rest.drop c2) = .error e) :
    readHeaderS3 s = .error e := by
  unfold readHeaderS3; rw [h1]; simp only []; rw [if_neg (by simp), h2]; simp only []; rw [h3]
  simp only []; rw [h4]

theorem readHeaderS3_ok_of (s : Bytes) (c1 : Nat) (nb : UInt8) (rest : Bytes) (u c2 cl c3 : Nat)
    (h1 : uvarintDec s = .ok (magicNumber, c1)) (h2 : s.drop c1 = nb :: rest)
    (h3 : uvarintDec rest = .ok (u, c2)) (h4 : uvarintDec (rest.drop c2) = .ok (cl, c3)) :
    readHeaderS3 s = .ok { ulen := u, clen := cl, isNil := nb == 1, hlen := c1 + 1 + c2 + c3 } := by
  unfold readHeaderS3; rw [h1]; simp only []; rw [if_neg (by simp), h2]; simp only []; rw [h3]
  simp only []; rw [h4]

/-- the same for a version 3 header (a cut right before the nil flag is a plain EOF) -/
theorem readHeaderS3_prefix (s t : Bytes) (h : RecHeader) (hok : readHeaderS3 (s ++ t) = .ok h) :
    readHeaderS3 s = .ok h ∨ readHeaderS3 s = .error .eof ∨ readHeaderS3 s = .error .unexpectedEof := by
  obtain ⟨c1, nb, rest', u, c2, cl, c3, g1, g2, g3, g4, rfl⟩ := readHeaderS3_ok_inv _ h hok
  rcases uvarintDec_prefix s t with k1 | k1 | k1
  case inr.inl => exact Or.inr (Or.inl (readHeaderS3_err1 s _ k1))
  case inr.inr => exact Or.inr (Or.inr (readHeaderS3_err1 s _ k1))
  rw [g1] at k1
  obtain ⟨_, l1, _⟩ := uvarintDec_ok_ext _ _ _ k1
  rw [List.drop_append_of_le_length l1] at g2
  cases k2 : s.drop c1 with
  | nil => exact Or.inr (Or.inl (readHeaderS3_err2 s c1 k1 k2))
  | cons nb2 rest =>
    rw [k2, List.cons_append] at g2
    obtain ⟨rfl, rfl⟩ := List.cons.inj g2
    rcases uvarintDec_prefix rest t with k3 | k3 | k3
    case inr.inl => exact Or.inr (Or.inl (readHeaderS3_err3 s c1 _ _ _ k1 k2 k3))
    case inr.inr => exact Or.inr (Or.inr (readHeaderS3_err3 s c1 _ _ _ k1 k2 k3))
    rw [g3] at k3
    obtain ⟨_, l2, _⟩ := uvarintDec_ok_ext _ _ _ k3
    rw [List.drop_append_of_le_length l2] at g4
    rcases uvarintDec_prefix (rest.drop c2) t with k4 | k4 | k4
    case inr.inl => exact Or.inr (Or.inl (readHeaderS3_err4 s c1 _ _ u c2 _ k1 k2 k3 k4))
    case inr.inr => exact Or.inr (Or.inr (readHeaderS3_err4 s c1 _ _ u c2 _ k1 k2 k3 k4))
    rw [g4] at k4
    exact Or.inl (readHeaderS3_ok_of s c1 _ _ u c2 cl c3 k1 k2 k3 k4)

/-- a cut version 2 header: EOF (cut at a field boundary) or unexpected EOF (cut inside a varint) -/
theorem readHeaderS2_cut (u cl : Nat) (S : Bytes) (j : Nat) (hu : u < 2 ^ 64) (hcl : cl < 2 ^ 64)
    (hj : j < (encHeaderV2 u cl).length) :
    readHeaderS2 ((encHeaderV2 u cl ++ S).take j) = .error .eof ∨
    readHeaderS2 ((encHeaderV2 u cl ++ S).take j) = .error .unexpectedEof := by
  have hfull := readHeaderS2_enc u cl S hu hcl
  rw [← List.take_append_drop j (encHeaderV2 u cl ++ S)] at hfull
  rcases readHeaderS2_prefix _ _ _ hfull with h | h | h
  · have := (readHeaderS2_ok_ext _ _ h).1
    rw [List.length_take] at this
    simp only [] at this
    omega
  · exact Or.inl h
  · exact Or.inr h

theorem readHeaderS3_cut (nf : Bool) (u cl : Nat) (S : Bytes) (j : Nat) (hu : u < 2 ^ 64) (hcl : cl < 2 ^ 64)
    (hj : j < (encHeaderV3 nf u cl).length) :
    readHeaderS3 ((encHeaderV3 nf u cl ++ S).take j) = .error .eof ∨
    readHeaderS3 ((encHeaderV3 nf u cl ++ S).take j) = .error .unexpectedEof := by
  have hfull := readHeaderS3_enc nf u cl S hu hcl
  rw [← List.take_append_drop j (encHeaderV3 nf u cl ++ S)] at hfull
  rcases readHeaderS3_prefix _ _ _ hfull with h | h | h
  · have := (readHeaderS3_ok_ext _ _ h).1
    rw [List.length_take] at this
    simp only [] at this
    omega
  · exact Or.inl h
  · exact Or.inr h

theorem specFull_short_kind (s : Bytes) (n : Nat) (h : s.length < n) :
    ∃ d e t, (e = .eof ∨ e = .unexpectedEof) ∧ specFull s n = (d, some (.e e), t) := by
  unfold specFull
  rw [if_neg (by omega)]
  by_cases h0 : s.length = 0
  · rw [if_pos h0]; exact ⟨_, _, _, Or.inl rfl, rfl⟩
  · rw [if_neg h0]; exact ⟨_, _, _, Or.inr rfl, rfl⟩

theorem payloadS_short_kind (c : Compression) (t : Bytes) (hlen n : Nat) (h : t.length < n) :
    payloadS c t hlen n = .error .eof ∨ payloadS c t hlen n = .error .unexpectedEof := by
  obtain ⟨d, e, t', hk, hs⟩ := specFull_short_kind t n h
  unfold payloadS
  rw [hs]
  rcases hk with rfl | rfl
  · exact Or.inl rfl
  · exact Or.inr rfl

theorem readNextS1_trunc_kind (en : Bool) (c : Compression) (r : Bytes) (hf1 : r.length < 2 ^ 64)
    (hf2 : clenOf c r < 2 ^ 64) (m : Nat) (hm : m < (encRecordV1 c r).length) :
    readNextS1 en c ((encRecordV1 c r).take m) = .error .eof ∨
    readNextS1 en c ((encRecordV1 c r).take m) = .error .unexpectedEof := by
  unfold encRecordV1 at hm ⊢
  rw [List.length_append, encHeaderV1_length] at hm
  by_cases h20 : m < 20
  · obtain ⟨d, e, t', hk, hs⟩ := specFull_short_kind
      ((encHeaderV1 r.length (clenOf c r) ++ stored c r).take m) headerSizeV1
      (by rw [List.length_take, List.length_append, encHeaderV1_length]; simp only [headerSizeV1]; omega)
    unfold readNextS1
    rw [hs]
    rcases hk with rfl | rfl
    · exact Or.inl rfl
    · exact Or.inr rfl
  · have htake : (encHeaderV1 r.length (clenOf c r) ++ stored c r).take m =
        encHeaderV1 r.length (clenOf c r) ++ (stored c r).take (m - 20) := by
      rw [List.take_append, List.take_of_length_le (by rw [encHeaderV1_length]; omega), encHeaderV1_length]
    have hsf : specFull (encHeaderV1 r.length (clenOf c r) ++ (stored c r).take (m - 20)) headerSizeV1 =
        (encHeaderV1 r.length (clenOf c r), none, (stored c r).take (m - 20)) := by
      rw [specFull_of_le _ _ (by rw [List.length_append, encHeaderV1_length]; simp only [headerSizeV1]; omega)]
      have h20' : headerSizeV1 = 20 := rfl
      rw [h20', List.take_left' (encHeaderV1_length _ _), List.drop_left' (encHeaderV1_length _ _)]
    rw [htake]
    unfold readNextS1
    rw [hsf]
    simp only []
    rw [readRecordHeaderV1_enc _ _ hf1 hf2]
    simp only []
    rw [expectedV1_enc]
    obtain ⟨d, e, t', hk, hs⟩ := specFull_short_kind ((stored c r).take (m - 20)) (stored c r).length
      (by rw [List.length_take]; omega)
    rw [hs]
    rcases hk with rfl | rfl
    · exact Or.inl rfl
    · exact Or.inr rfl

theorem readNextS2_trunc_kind (c : Compression) (r : Bytes) (hf1 : r.length < 2 ^ 64)
    (hf2 : clenOf c r < 2 ^ 64) (m : Nat) (hm : m < (encRecordV2 c r).length) :
    readNextS2 c ((encRecordV2 c r).take m) = .error .eof ∨
    readNextS2 c ((encRecordV2 c r).take m) = .error .unexpectedEof := by
  unfold encRecordV2 at hm ⊢
  rw [List.length_append] at hm
  unfold readNextS2
  by_cases hj : m < (encHeaderV2 r.length (clenOf c r)).length
  · rcases readHeaderS2_cut r.length (clenOf c r) (stored c r) m hf1 hf2 hj with h | h <;> rw [h]
    · exact Or.inl rfl
    · exact Or.inr rfl
  · rcases readHeaderS2_trunc r.length (clenOf c r) (stored c r) m hf1 hf2 with ⟨e, h⟩ | ⟨hok, hle⟩
    · exfalso
      have hfull := readHeaderS2_enc r.length (clenOf c r) ((stored c r).take (m - (encHeaderV2 r.length (clenOf c r)).length)) hf1 hf2
      rw [List.take_append, List.take_of_length_le (by omega), hfull] at h
      cases h
    · rw [hok]
      unfold readBodyS
      simp only [Bool.false_eq_true, if_false]
      apply payloadS_short_kind
      rw [expectedLen_enc, List.length_drop, List.length_take, List.length_append]
      omega

theorem readNextS3_trunc_kind (c : Compression) (r : GoBytes) (hf : FitsL c r) (m : Nat)
    (hm : m < (encRecordV3 c r).length) :
    readNextS3 c ((encRecordV3 c r).take m) = .error .eof ∨
    readNextS3 c ((encRecordV3 c r).take m) = .error .unexpectedEof := by
  unfold readNextS3
  cases r with
  | none =>
    simp only [encRecordV3] at hm ⊢
    have hh := readHeaderS3_cut true 0 (clenOf c []) [] m (by decide) hf.2 hm
    rw [List.append_nil] at hh
    rcases hh with h | h <;> rw [h]
    · exact Or.inl rfl
    · exact Or.inr rfl
  | some r =>
    obtain ⟨hf1, hf2⟩ := hf
    simp only [encRecordV3, List.length_append] at hm ⊢
    by_cases hj : m < (encHeaderV3 false r.length (clenOf c r)).length
    · rcases readHeaderS3_cut false r.length (clenOf c r) (stored c r) m hf1 hf2 hj with h | h <;> rw [h]
      · exact Or.inl rfl
      · exact Or.inr rfl
    · rcases readHeaderS3_trunc false r.length (clenOf c r) (stored c r) m hf1 hf2 with ⟨e, h⟩ | ⟨hok, hle⟩
      · exfalso
        have hfull := readHeaderS3_enc false r.length (clenOf c r)
          ((stored c r).take (m - (encHeaderV3 false r.length (clenOf c r)).length)) hf1 hf2
        rw [List.take_append, List.take_of_length_le (by omega), hfull] at h
        cases h
      · rw [hok]
        unfold readBodyS
        simp only [Bool.false_eq_true, if_false]
        apply payloadS_short_kind
        rw [expectedLen_enc, List.length_drop, List.length_take, List.length_append]
        omega

theorem readNextL_v1 (en : Bool) (c : Compression) (s : Bytes) : readNextL en 1 c s = readNextS1 en c s := rfl
theorem readNextL_v2 (en : Bool) (c : Compression) (s : Bytes) : readNextL en 2 c s = readNextS2 c s := rfl
theorem readNextL_v3 (en : Bool) (c : Compression) (s : Bytes) : readNextL en 3 c s = readNextS3 c s := rfl
theorem encRecordL_v1 (c : Compression) (r : GoBytes) : encRecordL 1 c r = encRecordV1 c (r.getD []) := rfl
theorem encRecordL_v2 (c : Compression) (r : GoBytes) : encRecordL 2 c r = encRecordV2 c (r.getD []) := rfl
theorem encRecordL_v3 (c : Compression) (r : GoBytes) : encRecordL 3 c r = encRecordV3 c r := rfl
theorem readAtL_v1 (en : Bool) (c : Compression) (f : Bytes) (o : Nat) :
    readAtL en 1 c f o = readAtV1 en c f o := rfl
theorem readAtL_v2 (en : Bool) (c : Compression) (f : Bytes) (o : Nat) :
    readAtL en 2 c f o = readAtV2 c f o := rfl
theorem readAtL_v3 (en : Bool) (c : Compression) (f : Bytes) (o : Nat) :
    readAtL en 3 c f o = readAtV3 c f o := rfl

/-! ## random access on a cut file -/

theorem readAtV1_trunc (en : Bool) (c : Compression) (pre r : Bytes) (hf1 : r.length < 2 ^ 64)
    (hf2 : clenOf c r < 2 ^ 64) (m : Nat) (hm : m < (encRecordV1 c r).length) :
    ∃ e, readAtV1 en c (pre ++ (encRecordV1 c r).take m) pre.length = .error e := by
  have hlen : (pre ++ (encRecordV1 c r).take m).length = pre.length + m := by
    rw [List.length_append, List.length_take]; omega
  unfold encRecordV1 at hm hlen ⊢
  rw [List.length_append, encHeaderV1_length] at hm
  have h20' : headerSizeV1 = 20 := rfl
  unfold readAtV1
  rw [if_neg (by omega)]
  simp only [List.drop_left]
  by_cases h20 : m < 20
  · rw [if_pos (by rw [List.length_take, List.length_append, encHeaderV1_length, h20']; omega)]
    exact ⟨_, rfl⟩
  · have htake : (encHeaderV1 r.length (clenOf c r) ++ stored c r).take m =
        encHeaderV1 r.length (clenOf c r) ++ (stored c r).take (m - 20) := by
      rw [List.take_append, List.take_of_length_le (by rw [encHeaderV1_length]; omega), encHeaderV1_length]
    rw [htake, if_neg (by rw [List.length_append, encHeaderV1_length, h20']; omega), h20',
      List.take_left' (encHeaderV1_length _ _), List.drop_left' (encHeaderV1_length _ _),
      readRecordHeaderV1_enc _ _ hf1 hf2]
    simp only []
    rw [expectedV1_enc, if_pos (by rw [List.length_take]; omega)]
    exact ⟨_, rfl⟩

theorem readAtV2_trunc (c : Compression) (pre r : Bytes) (hf1 : r.length < 2 ^ 64)
    (hf2 : clenOf c r < 2 ^ 64) (m : Nat) (hm : m < (encRecordV2 c r).length) :
    ∃ e, readAtV2 c (pre ++ (encRecordV2 c r).take m) pre.length = .error e := by
  have hlen : (pre ++ (encRecordV2 c r).take m).length = pre.length + m := by
    rw [List.length_append, List.length_take]; omega
  unfold readAtV2
  rw [if_neg (by omega)]
  by_cases hm0 : m = 0
  · rw [if_pos (by omega)]; exact ⟨_, rfl⟩
  rw [if_neg (by omega)]
  unfold encRecordV2 at hm hlen ⊢
  rw [List.length_append] at hm
  simp only [List.drop_left, List.take_take, Legacy.readRecordHeaderV2]
  rcases readHeaderS2_trunc r.length (clenOf c r) (stored c r) (min headerWinV3 m) hf1 hf2 with
    ⟨e, h⟩ | ⟨hok, hle⟩
  · rw [h]; exact ⟨_, rfl⟩
  · rw [hok]
    simp only [readAtBody, expectedLen_enc, List.length_drop, List.length_take, List.length_append]
    rw [if_pos (by omega)]
    exact ⟨_, rfl⟩

theorem readAtV3_trunc (c : Compression) (pre : Bytes) (r : GoBytes) (hf : FitsL c r) (m : Nat)
    (hm : m < (encRecordV3 c r).length) :
    ∃ e, readAtV3 c (pre ++ (encRecordV3 c r).take m) pre.length = .error e := by
  have hlen : (pre ++ (encRecordV3 c r).take m).length = pre.length + m := by
    rw [List.length_append, List.length_take]; omega
  unfold readAtV3
  rw [if_neg (by omega)]
  by_cases hm0 : m = 0
  · rw [if_pos (by omega)]; exact ⟨_, rfl⟩
  rw [if_neg (by omega)]
  simp only [List.drop_left, List.take_take, Legacy.readRecordHeaderV3]
  cases r with
  | none =>
    simp only [encRecordV3] at hm ⊢
    have hh := readHeaderS3_trunc true 0 (clenOf c []) [] (min headerWinV3 m) (by decide) hf.2
    rw [List.append_nil] at hh
    rcases hh with ⟨e, h⟩ | ⟨_, hle⟩
    · rw [h]; exact ⟨_, rfl⟩
    · omega
  | some r =>
    obtain ⟨hf1, hf2⟩ := hf
    simp only [encRecordV3, List.length_append] at hm ⊢
    rcases readHeaderS3_trunc false r.length (clenOf c r) (stored c r) (min headerWinV3 m) hf1 hf2 with
      ⟨e, h⟩ | ⟨hok, hle⟩
    · rw [h]; exact ⟨_, rfl⟩
    · rw [hok]
      simp only [readAtBody, expectedLen_enc, List.length_drop, List.length_take, List.length_append,
        Bool.false_eq_true, if_false]
      rw [if_pos (by omega)]
      exact ⟨_, rfl⟩

end Dmg
open SST Generated SST.Legacy SST.Buf Dmg

/-- a PROPER prefix of one encoded legacy record never reads as a record: the reader fails with EOF or unexpected
EOF, nothing else — in particular never with the magic-number mismatch that triggers the zero-tail rule of
`readNextV2/V3` -/
theorem readNextL_trunc_kind (en : Bool) (v : Nat) (hv : IsLegacy v) (c : Compression) (r : GoBytes)
    (hf : FitsL c r) (m : Nat) (hm : m < (encRecordL v c r).length) :
    readNextL en v c ((encRecordL v c r).take m) = .error .eof ∨
    readNextL en v c ((encRecordL v c r).take m) = .error .unexpectedEof := by
  rcases hv with rfl | rfl | rfl
  · rw [encRecordL_v1] at hm ⊢; rw [readNextL_v1]
    exact readNextS1_trunc_kind en c _ hf.1 hf.2 m hm
  · rw [encRecordL_v2] at hm ⊢; rw [readNextL_v2]
    exact readNextS2_trunc_kind c _ hf.1 hf.2 m hm
  · rw [encRecordL_v3] at hm ⊢; rw [readNextL_v3]
    exact readNextS3_trunc_kind c r hf m hm

theorem readNextL_trunc (en : Bool) (v : Nat) (hv : IsLegacy v) (c : Compression) (r : GoBytes)
    (hf : FitsL c r) (m : Nat) (hm : m < (encRecordL v c r).length) :
    ∃ e, readNextL en v c ((encRecordL v c r).take m) = .error e := by
  rcases readNextL_trunc_kind en v hv c r hf m hm with h | h <;> exact ⟨_, h⟩

/-! ## whole files -/

namespace Dmg

theorem encAllL_nil (v : Nat) (c : Compression) : encAllL v c [] = [] := rfl

theorem encAllL_cons (v : Nat) (c : Compression) (r : GoBytes) (rs : List GoBytes) :
    encAllL v c (r :: rs) = encRecordL v c r ++ encAllL v c rs := by
  simp [encAllL]

theorem encAllL_append (v : Nat) (c : Compression) (xs ys : List GoBytes) :
    encAllL v c (xs ++ ys) = encAllL v c xs ++ encAllL v c ys := by
  simp [encAllL]

theorem length_le_encAllL (v : Nat) (c : Compression) (rs : List GoBytes) :
    rs.length ≤ (encAllL v c rs).length := by
  induction rs with
  | nil => simp
  | cons r rs ih =>
    have := encRecordL_pos v c r
    rw [encAllL_cons, List.length_append, List.length_cons]; omega

theorem wholeInAuxL_le_budget (v : Nat) (c : Compression) (rs : List GoBytes) :
    ∀ b, wholeInAuxL v c rs b ≤ b := by
  induction rs with
  | nil => intro b; simp [wholeInAuxL]
  | cons r rs ih =>
    intro b
    have := encRecordL_pos v c r
    simp only [wholeInAuxL]
    split
    · have := ih (b - (encRecordL v c r).length); omega
    · omega

theorem wholeInAuxL_le_length (v : Nat) (c : Compression) (rs : List GoBytes) :
    ∀ b, wholeInAuxL v c rs b ≤ rs.length := by
  induction rs with
  | nil => intro b; simp [wholeInAuxL]
  | cons r rs ih =>
    intro b
    simp only [wholeInAuxL, List.length_cons]
    split
    · have := ih (b - (encRecordL v c r).length); omega
    · omega

theorem readAllSL_trunc (en : Bool) (v : Nat) (hv : IsLegacy v) (c : Compression) (hl : LawfulC c)
    (rs : List GoBytes) :
    ∀ (b fuel : Nat), (∀ r ∈ rs, FitsL c r) → wholeInAuxL v c rs b < fuel →
      ∃ e, (e = .eof ∨ e = .unexpectedEof) ∧ readAllSL en v c fuel ((encAllL v c rs).take b) =
        ((rs.take (wholeInAuxL v c rs b)).map (backL en v c), e) := by
  induction rs with
  | nil =>
    intro b fuel _ hfu
    cases fuel with
    | zero => omega
    | succ f =>
      exact ⟨.eof, Or.inl rfl,
        by simp [readAllSL, readNextL_nil en v (isVersion_of_legacy hv) c, wholeInAuxL, encAllL_nil]⟩
  | cons r rs ih =>
    intro b fuel hf hfu
    cases fuel with
    | zero => omega
    | succ f =>
      simp only [wholeInAuxL] at hfu ⊢
      by_cases hb : (encRecordL v c r).length ≤ b
      · rw [if_pos hb] at hfu ⊢
        obtain ⟨e, hk, he⟩ :=
          ih (b - (encRecordL v c r).length) f (fun x hx => hf x (by simp [hx])) (by omega)
        refine ⟨e, hk, ?_⟩
        have h1 := readNextL_enc en v (isVersion_of_legacy hv) c r
          ((encAllL v c rs).take (b - (encRecordL v c r).length)) hl (hf r (by simp))
        rw [encAllL_cons, List.take_append, List.take_of_length_le hb]
        simp only [readAllSL, h1, List.drop_left, he]
        rw [Nat.add_comm 1, List.take_succ_cons, List.map_cons]
      · rw [if_neg hb]
        rw [encAllL_cons, List.take_append_of_le_length (by omega)]
        rcases readNextL_trunc_kind en v hv c r (hf r (by simp)) b (by omega) with he | he
        · exact ⟨.eof, Or.inl rfl, by simp [readAllSL, he]⟩
        · exact ⟨.unexpectedEof, Or.inr rfl, by simp [readAllSL, he]⟩

theorem openReadAllL_of_ok (en : Bool) (comps : Nat → Compression) (f : Bytes) (v ct : Nat)
    (h : parseFileHeader f = .ok (v, ct)) :
    openReadAllL en comps f = readAllSL en v (comps ct) (f.length + 1) (f.drop fileHeaderSize) := by
  unfold openReadAllL; rw [h]

theorem openReadAllL_of_error (en : Bool) (comps : Nat → Compression) (f : Bytes) (e : Err)
    (h : parseFileHeader f = .error e) : openReadAllL en comps f = ([], e) := by
  unfold openReadAllL; rw [h]

end Dmg

/-- C12 for the legacy file versions, sequential reader, with the error kind: a file cut at ANY length reads as
exactly the records completely contained in the remaining bytes (as the version hands them back), in order, then
EOF or unexpected EOF -/
theorem legacy_truncate_prefix_err (en : Bool) (comps : Nat → Compression) (v : Nat) (hv : IsLegacy v)
    (c : Compression) (ct : Nat) (rs : List GoBytes) (hl : LawfulC c) (hf : ∀ r ∈ rs, FitsL c r)
    (hc : comps ct = c) (hct : ct ≤ maxCompression) (n : Nat) :
    ∃ e, (e = .eof ∨ e = .unexpectedEof) ∧ openReadAllL en comps ((encFileL v c ct rs).take n) =
      ((rs.take (wholeInL v c rs n)).map (backL en v c), e) := by
  unfold encFileL
  by_cases hn : n < fileHeaderSize
  · have h0 : wholeInL v c rs n = 0 := by
      have := wholeInAuxL_le_budget v c rs (n - fileHeaderSize)
      unfold wholeInL; omega
    have hlen : ((fileHeader v ct ++ encAllL v c rs).take n).length < fileHeaderSize := by
      rw [List.length_take]; omega
    have hp : ∃ e, (e = .eof ∨ e = .unexpectedEof) ∧
        parseFileHeader ((fileHeader v ct ++ encAllL v c rs).take n) = .error e := by
      unfold parseFileHeader
      rw [if_pos hlen]
      split
      · exact ⟨_, Or.inl rfl, rfl⟩
      · exact ⟨_, Or.inr rfl, rfl⟩
    obtain ⟨e, hk, he⟩ := hp
    rw [openReadAllL_of_error en comps _ e he, h0]
    exact ⟨e, hk, rfl⟩
  · have h8 : fileHeaderSize = 8 := rfl
    have htake : (fileHeader v ct ++ encAllL v c rs).take n =
        fileHeader v ct ++ (encAllL v c rs).take (n - fileHeaderSize) := by
      rw [List.take_append, List.take_of_length_le (by rw [fileHeader_length]; omega), fileHeader_length, h8]
    have hparse := parse_fileHeaderL v ct ((encAllL v c rs).take (n - fileHeaderSize))
      (isVersion_of_legacy hv) hct
    have hd : (fileHeader v ct ++ (encAllL v c rs).take (n - fileHeaderSize)).drop fileHeaderSize
        = (encAllL v c rs).take (n - fileHeaderSize) := List.drop_left' (fileHeader_length _ _)
    rw [htake, openReadAllL_of_ok en comps _ v ct hparse, hc, hd]
    unfold wholeInL
    apply readAllSL_trunc en v hv c hl rs _ _ hf
    have h1 := wholeInAuxL_le_budget v c rs (n - fileHeaderSize)
    have h2 := wholeInAuxL_le_length v c rs (n - fileHeaderSize)
    have h3 := length_le_encAllL v c rs
    simp only [List.length_append, fileHeader_length, List.length_take]
    omega

/-- C12 for the legacy file versions, sequential reader: a file cut at ANY length reads as exactly the records
completely contained in the remaining bytes (as the version hands them back), in order, then an error -/
theorem legacy_truncate_prefix (en : Bool) (comps : Nat → Compression) (v : Nat) (hv : IsLegacy v)
    (c : Compression) (ct : Nat) (rs : List GoBytes) (hl : LawfulC c) (hf : ∀ r ∈ rs, FitsL c r)
    (hc : comps ct = c) (hct : ct ≤ maxCompression) (n : Nat) :
    ∃ e, openReadAllL en comps ((encFileL v c ct rs).take n) =
      ((rs.take (wholeInL v c rs n)).map (backL en v c), e) := by
  obtain ⟨e, _, he⟩ := legacy_truncate_prefix_err en comps v hv c ct rs hl hf hc hct n
  exact ⟨e, he⟩

/-- random access at the start of a record of which only a proper prefix is left -/
theorem readAtL_trunc (en : Bool) (v : Nat) (hv : IsLegacy v) (c : Compression) (pre : Bytes) (r : GoBytes)
    (hf : FitsL c r) (m : Nat) (hm : m < (encRecordL v c r).length) :
    ∃ e, readAtL en v c (pre ++ (encRecordL v c r).take m) pre.length = .error e := by
  rcases hv with rfl | rfl | rfl
  · rw [encRecordL_v1] at hm ⊢; rw [readAtL_v1]
    exact readAtV1_trunc en c pre _ hf.1 hf.2 m hm
  · rw [encRecordL_v2] at hm ⊢; rw [readAtL_v2]
    exact readAtV2_trunc c pre _ hf.1 hf.2 m hm
  · rw [encRecordL_v3] at hm ⊢; rw [readAtL_v3]
    exact readAtV3_trunc c pre r hf m hm

namespace Dmg

/-- a read that starts behind the end of the file is refused by every version -/
theorem readAtL_beyond (en : Bool) (v : Nat) (hv : IsLegacy v) (c : Compression) (f : Bytes) (off : Nat)
    (h : f.length < off) : readAtL en v c f off = .error .other := by
  rcases hv with rfl | rfl | rfl
  · rw [readAtL_v1]; unfold readAtV1; rw [if_pos h]
  · rw [readAtL_v2]; unfold readAtV2; rw [if_pos h]
  · rw [readAtL_v3]; unfold readAtV3; rw [if_pos h]

end Dmg

/-- C12 for the legacy file versions, random access: on a file cut at ANY length, record `k` is returned iff it is
completely contained in what is left -/
theorem legacy_truncate_readAt (en : Bool) (v : Nat) (hv : IsLegacy v) (c : Compression) (ct : Nat)
    (rs : List GoBytes) (k : Nat) (hk : k < rs.length) (hl : LawfulC c) (hf : ∀ r ∈ rs, FitsL c r) (n : Nat) :
    (offsetOfL v c rs (k + 1) ≤ n →
      readAtL en v c ((encFileL v c ct rs).take n) (offsetOfL v c rs k) = .ok (backL en v c rs[k])) ∧
    (n < offsetOfL v c rs (k + 1) →
      ∃ e, readAtL en v c ((encFileL v c ct rs).take n) (offsetOfL v c rs k) = .error e) := by
  have hsplit : rs = rs.take k ++ rs[k] :: rs.drop (k + 1) := by simp
  have hfile : encFileL v c ct rs =
      (fileHeader v ct ++ encAllL v c (rs.take k)) ++
        (encRecordL v c rs[k] ++ encAllL v c (rs.drop (k + 1))) := by
    have := congrArg (encAllL v c) hsplit
    rw [encAllL_append, encAllL_cons] at this
    unfold encFileL
    rw [this, List.append_assoc]
  have hoff : offsetOfL v c rs k = (fileHeader v ct ++ encAllL v c (rs.take k)).length := by
    simp [offsetOfL, fileHeader_length, fileHeaderSize]
  have hoff1 : offsetOfL v c rs (k + 1) = offsetOfL v c rs k + (encRecordL v c rs[k]).length := by
    have h1 : rs.take (k + 1) = rs.take k ++ [rs[k]] := by simp
    simp only [offsetOfL, h1, encAllL_append, List.length_append, encAllL_cons, encAllL_nil]
    simp; omega
  have hfit : FitsL c rs[k] := hf _ (by simp)
  generalize fileHeader v ct ++ encAllL v c (rs.take k) = pre at hfile hoff
  generalize encAllL v c (rs.drop (k + 1)) = tail at hfile
  rw [hfile, hoff1, hoff]
  constructor
  · intro hn
    have : (pre ++ (encRecordL v c rs[k] ++ tail)).take n =
        pre ++ (encRecordL v c rs[k] ++ tail.take (n - pre.length - (encRecordL v c rs[k]).length)) := by
      rw [List.take_append, List.take_of_length_le (by omega), List.take_append,
        List.take_of_length_le (by omega)]
    rw [this]
    exact readAtL_enc en v (isVersion_of_legacy hv) c _ _ _ hl hfit
  · intro hn
    by_cases hp : n < pre.length
    · exact ⟨.other, readAtL_beyond en v hv c _ _ (by rw [List.length_take]; omega)⟩
    · have : (pre ++ (encRecordL v c rs[k] ++ tail)).take n =
          pre ++ (encRecordL v c rs[k]).take (n - pre.length) := by
        rw [List.take_append, List.take_of_length_le (by omega),
          List.take_append_of_le_length (by omega)]
      rw [this]
      exact readAtL_trunc en v hv c pre _ hfit _ (by omega)

end SST.Proofs.Legacy
