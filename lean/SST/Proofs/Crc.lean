/-
Single-byte error detection of CRC-32C and CRC-64/ISO (table algorithm of SST/Model/Bytes.lean).
The only computed facts are that the top byte of the 256 table entries determines the table index.
-/
import SST.Model.Bytes
namespace SST.Proofs
open SST

/-! ## a fold whose step is injective in each argument detects a single changed element -/

theorem foldl_state_inj {σ : Type} (step : σ → UInt8 → σ)
    (hc : ∀ c c' b, step c b = step c' b → c = c') (t : Bytes) :
    ∀ s s', t.foldl step s = t.foldl step s' → s = s' := by
  induction t with
  | nil => intro s s' h; exact h
  | cons b t ih => intro s s' h; exact hc _ _ b (ih _ _ h)

theorem foldl_single_byte {σ : Type} (step : σ → UInt8 → σ)
    (hb : ∀ c b b', step c b = step c b' → b = b')
    (hc : ∀ c c' b, step c b = step c' b → c = c') (a : Bytes) :
    ∀ (i : Nat) (hi : i < a.length) (x : UInt8), x ≠ a[i] → ∀ s,
      (a.set i x).foldl step s ≠ a.foldl step s := by
  induction a with
  | nil => intro i hi; simp at hi
  | cons b t ih =>
    intro i hi x hx s
    cases i with
    | zero =>
      intro h
      exact hx (hb _ _ _ (foldl_state_inj step hc t _ _ h))
    | succ j => exact ih j (by simpa using hi) x hx (step s b)

/-! ## CRC-32C -/

def top32 (i : UInt8) : UInt8 := (crc32Tab i >>> 24).toUInt8

def invTop32Tab : List UInt8 := [
   0, 241, 226, 19, 196, 53, 38, 215, 136, 121, 106, 155, 76, 189, 174, 95, 16, 225, 242, 3, 212, 37, 54, 199, 152, 105, 122, 139, 92, 173, 190, 79,
   32, 209, 194, 51, 228, 21, 6, 247, 168, 89, 74, 187, 108, 157, 142, 127, 48, 193, 210, 35, 244, 5, 22, 231, 184, 73, 90, 171, 124, 141, 158, 111,
   177, 64, 83, 162, 117, 132, 151, 102, 57, 200, 219, 42, 253, 12, 31, 238, 161, 80, 67, 178, 101, 148, 135, 118, 41, 216, 203, 58, 237, 28, 15, 254,
   145, 96, 115, 130, 85, 164, 183, 70, 25, 232, 251, 10, 221, 44, 63, 206, 129, 112, 99, 146, 69, 180, 167, 86, 9, 248, 235, 26, 205, 60, 47, 222,
   98, 147, 128, 113, 166, 87, 68, 181, 234, 27, 8, 249, 46, 223, 204, 61, 114, 131, 144, 97, 182, 71, 84, 165, 250, 11, 24, 233, 62, 207, 220, 45,
   66, 179, 160, 81, 134, 119, 100, 149, 202, 59, 40, 217, 14, 255, 236, 29, 82, 163, 176, 65, 150, 103, 116, 133, 218, 43, 56, 201, 30, 239, 252, 13,
   211, 34, 49, 192, 23, 230, 245, 4, 91, 170, 185, 72, 159, 110, 125, 140, 195, 50, 33, 208, 7, 246, 229, 20, 75, 186, 169, 88, 143, 126, 109, 156,
   243, 2, 17, 224, 55, 198, 213, 36, 123, 138, 153, 104, 191, 78, 93, 172, 227, 18, 1, 240, 39, 214, 197, 52, 107, 154, 137, 120, 175, 94, 77, 188]

def invTop32 (y : UInt8) : UInt8 := invTop32Tab.getD y.toNat 0

theorem invTop32_fin : ∀ i : Fin 256, invTop32 (top32 (UInt8.ofNat i.val)) = UInt8.ofNat i.val := by
  decide +kernel

theorem invTop32_top32 (i : UInt8) : invTop32 (top32 i) = i := by
  have := invTop32_fin ⟨i.toNat, UInt8.toNat_lt i⟩
  simpa using this

theorem top32_inj (i j : UInt8) (h : top32 i = top32 j) : i = j := by
  rw [← invTop32_top32 i, ← invTop32_top32 j, h]

theorem UInt32.shr8_shr24 (c : UInt32) : (c >>> 8) >>> 24 = 0 := by
  apply UInt32.toNat_inj.mp
  have := UInt32.toNat_lt c
  simp only [UInt32.toNat_shiftRight, Nat.shiftRight_eq_div_pow]
  simp
  omega

theorem crc32Step_top (c : UInt32) (b : UInt8) :
    (crc32Step c b >>> 24).toUInt8 = top32 ((c ^^^ b.toUInt32).toUInt8) := by
  simp [crc32Step, top32, UInt32.shiftRight_xor, UInt32.shr8_shr24]

theorem crc32Step_inj_byte (c : UInt32) (b b' : UInt8) (h : crc32Step c b = crc32Step c b') : b = b' := by
  have h1 := congrArg (fun v : UInt32 => (v >>> 24).toUInt8) h
  simp only [crc32Step_top] at h1
  have h2 := top32_inj _ _ h1
  simpa [UInt32.toUInt8_xor] using h2

theorem UInt32.eq_of_low_high (c c' : UInt32) (h1 : c.toUInt8 = c'.toUInt8) (h2 : c >>> 8 = c' >>> 8) :
    c = c' := by
  apply UInt32.toNat_inj.mp
  have e1 := congrArg UInt8.toNat h1
  have e2 := congrArg UInt32.toNat h2
  simp only [UInt32.toNat_toUInt8, UInt32.toNat_shiftRight, Nat.shiftRight_eq_div_pow] at e1 e2
  simp at e2
  omega

theorem crc32Step_inj_state (c c' : UInt32) (b : UInt8) (h : crc32Step c b = crc32Step c' b) : c = c' := by
  have h1 := congrArg (fun v : UInt32 => (v >>> 24).toUInt8) h
  simp only [crc32Step_top] at h1
  have h2 := top32_inj _ _ h1
  have h3 : c.toUInt8 = c'.toUInt8 := by simpa [UInt32.toUInt8_xor] using h2
  have h4 : c >>> 8 = c' >>> 8 := by
    unfold crc32Step at h
    rw [h2] at h
    exact (UInt32.xor_right_inj _).mp h
  exact UInt32.eq_of_low_high c c' h3 h4

theorem crc32c_single_byte' (a : Bytes) (i : Nat) (hi : i < a.length) (x : UInt8) (hx : x ≠ a[i]) :
    crc32c (a.set i x) ≠ crc32c a := by
  intro h
  unfold crc32c at h
  exact foldl_single_byte crc32Step crc32Step_inj_byte crc32Step_inj_state a i hi x hx _
    ((UInt32.xor_left_inj _).mp h)

/-! ## CRC-64/ISO -/

def top64 (i : UInt8) : UInt8 := (crc64Tab i >>> 56).toUInt8

def invTop64Tab : List UInt8 := [
   0, 1, 3, 2, 7, 6, 4, 5, 14, 15, 13, 12, 9, 8, 10, 11, 28, 29, 31, 30, 27, 26, 24, 25, 18, 19, 17, 16, 21, 20, 22, 23,
   56, 57, 59, 58, 63, 62, 60, 61, 54, 55, 53, 52, 49, 48, 50, 51, 36, 37, 39, 38, 35, 34, 32, 33, 42, 43, 41, 40, 45, 44, 46, 47,
   113, 112, 114, 115, 118, 119, 117, 116, 127, 126, 124, 125, 120, 121, 123, 122, 109, 108, 110, 111, 106, 107, 105, 104, 99, 98, 96, 97, 100, 101, 103, 102,
   73, 72, 74, 75, 78, 79, 77, 76, 71, 70, 68, 69, 64, 65, 67, 66, 85, 84, 86, 87, 82, 83, 81, 80, 91, 90, 88, 89, 92, 93, 95, 94,
   227, 226, 224, 225, 228, 229, 231, 230, 237, 236, 238, 239, 234, 235, 233, 232, 255, 254, 252, 253, 248, 249, 251, 250, 241, 240, 242, 243, 246, 247, 245, 244,
   219, 218, 216, 217, 220, 221, 223, 222, 213, 212, 214, 215, 210, 211, 209, 208, 199, 198, 196, 197, 192, 193, 195, 194, 201, 200, 202, 203, 206, 207, 205, 204,
   146, 147, 145, 144, 149, 148, 150, 151, 156, 157, 159, 158, 155, 154, 152, 153, 142, 143, 141, 140, 137, 136, 138, 139, 128, 129, 131, 130, 135, 134, 132, 133,
   170, 171, 169, 168, 173, 172, 174, 175, 164, 165, 167, 166, 163, 162, 160, 161, 182, 183, 181, 180, 177, 176, 178, 179, 184, 185, 187, 186, 191, 190, 188, 189]

def invTop64 (y : UInt8) : UInt8 := invTop64Tab.getD y.toNat 0

theorem invTop64_fin : ∀ i : Fin 256, invTop64 (top64 (UInt8.ofNat i.val)) = UInt8.ofNat i.val := by
  decide +kernel

theorem invTop64_top64 (i : UInt8) : invTop64 (top64 i) = i := by
  have := invTop64_fin ⟨i.toNat, UInt8.toNat_lt i⟩
  simpa using this

theorem top64_inj (i j : UInt8) (h : top64 i = top64 j) : i = j := by
  rw [← invTop64_top64 i, ← invTop64_top64 j, h]

theorem UInt64.shr8_shr56 (c : UInt64) : (c >>> 8) >>> 56 = 0 := by
  apply UInt64.toNat_inj.mp
  have := UInt64.toNat_lt c
  simp only [UInt64.toNat_shiftRight, Nat.shiftRight_eq_div_pow]
  simp
  omega

theorem crc64Step_top (c : UInt64) (b : UInt8) :
    (crc64Step c b >>> 56).toUInt8 = top64 ((c ^^^ b.toUInt64).toUInt8) := by
  simp [crc64Step, top64, UInt64.shiftRight_xor, UInt64.shr8_shr56]

theorem crc64Step_inj_byte (c : UInt64) (b b' : UInt8) (h : crc64Step c b = crc64Step c b') : b = b' := by
  have h1 := congrArg (fun v : UInt64 => (v >>> 56).toUInt8) h
  simp only [crc64Step_top] at h1
  have h2 := top64_inj _ _ h1
  simpa [UInt64.toUInt8_xor] using h2

theorem UInt64.eq_of_low_high (c c' : UInt64) (h1 : c.toUInt8 = c'.toUInt8) (h2 : c >>> 8 = c' >>> 8) :
    c = c' := by
  apply UInt64.toNat_inj.mp
  have e1 := congrArg UInt8.toNat h1
  have e2 := congrArg UInt64.toNat h2
  simp only [UInt64.toNat_toUInt8, UInt64.toNat_shiftRight, Nat.shiftRight_eq_div_pow] at e1 e2
  simp at e2
  omega

theorem crc64Step_inj_state (c c' : UInt64) (b : UInt8) (h : crc64Step c b = crc64Step c' b) : c = c' := by
  have h1 := congrArg (fun v : UInt64 => (v >>> 56).toUInt8) h
  simp only [crc64Step_top] at h1
  have h2 := top64_inj _ _ h1
  have h3 : c.toUInt8 = c'.toUInt8 := by simpa [UInt64.toUInt8_xor] using h2
  have h4 : c >>> 8 = c' >>> 8 := by
    unfold crc64Step at h
    rw [h2] at h
    exact (UInt64.xor_right_inj _).mp h
  exact UInt64.eq_of_low_high c c' h3 h4

theorem crc64_single_byte' (a : Bytes) (i : Nat) (hi : i < a.length) (x : UInt8) (hx : x ≠ a[i]) :
    crc64iso (a.set i x) ≠ crc64iso a := by
  intro h
  unfold crc64iso at h
  exact foldl_single_byte crc64Step crc64Step_inj_byte crc64Step_inj_state a i hi x hx _
    ((UInt64.xor_left_inj _).mp h)

end SST.Proofs
