/-
Proofs for SST/Model/CompDirBytes.lean, part 3: directory names ↔ numbers.
-/
import SST.Proofs.CompDirBytesDefs
import SST.Proofs.Varint
namespace SST.Proofs.CompDir
open SST SST.CompDir Generated

/-! ## digits -/

/-- an ASCII decimal digit -/
def IsDigit (b : UInt8) : Prop := 48 ≤ b.toNat ∧ b.toNat ≤ 57

theorem digit_toNat (d : Nat) (h : d < 10) : (UInt8.ofNat (48 + d)).toNat = 48 + d :=
  toNat_ofNat_lt _ (by omega)

theorem isDigit_ofNat (d : Nat) (h : d < 10) : IsDigit (UInt8.ofNat (48 + d)) := by
  unfold IsDigit; rw [digit_toNat d h]; omega

theorem digitVal_of_isDigit {b : UInt8} (h : IsDigit b) : digitVal b = some (b.toNat - 48) := by
  unfold digitVal
  have h1 : (48 : UInt8) ≤ b := by rw [UInt8.le_iff_toNat_le]; exact h.1
  have h2 : b ≤ (57 : UInt8) := by rw [UInt8.le_iff_toNat_le]; exact h.2
  rw [if_pos ⟨h1, h2⟩]

theorem digitVal_ofNat (d : Nat) (h : d < 10) : digitVal (UInt8.ofNat (48 + d)) = some d := by
  rw [digitVal_of_isDigit (isDigit_ofNat d h), digit_toNat d h]; congr 1; omega

theorem digitVal_not_digit {b : UInt8} (h : ¬ IsDigit b) : digitVal b = none := by
  unfold digitVal
  rw [if_neg]
  intro hh
  apply h
  rw [UInt8.le_iff_toNat_le, UInt8.le_iff_toNat_le] at hh
  exact hh

theorem decDigits_lt (n : Nat) (h : n < 10) : decDigits n = [UInt8.ofNat (48 + n)] := by
  rw [decDigits, if_pos h]

theorem decDigits_ge (n : Nat) (h : ¬ n < 10) :
    decDigits n = decDigits (n / 10) ++ [UInt8.ofNat (48 + n % 10)] := by
  rw [decDigits, if_neg h]

theorem decDigits_ne_nil (n : Nat) : decDigits n ≠ [] := by
  by_cases h : n < 10
  · rw [decDigits_lt n h]; simp
  · rw [decDigits_ge n h]; simp

theorem decDigits_isDigit (n : Nat) : ∀ b ∈ decDigits n, IsDigit b := by
  induction n using Nat.strongRecOn with
  | _ n ih =>
    intro b hb
    by_cases h : n < 10
    · rw [decDigits_lt n h] at hb
      have : b = UInt8.ofNat (48 + n) := by simpa using hb
      rw [this]; exact isDigit_ofNat n h
    · rw [decDigits_ge n h, List.mem_append] at hb
      rcases hb with hb | hb
      · exact ih (n / 10) (by omega) b hb
      · have : b = UInt8.ofNat (48 + n % 10) := by simpa using hb
        rw [this]; exact isDigit_ofNat _ (by omega)

theorem padZeros_isDigit (k n : Nat) : ∀ b ∈ padZeros k (decDigits n), IsDigit b := by
  intro b hb
  unfold padZeros at hb
  rw [List.mem_append] at hb
  rcases hb with hb | hb
  · have : b = 48 := (List.mem_replicate.mp hb).2
    rw [this]; unfold IsDigit; decide
  · exact decDigits_isDigit n b hb

theorem padZeros_ne_nil (k n : Nat) : padZeros k (decDigits n) ≠ [] := by
  unfold padZeros
  intro h
  exact decDigits_ne_nil n (List.append_eq_nil_iff.mp h).2

/-! ## parsing -/

theorem parseDigits_append (a b : Bytes) : ∀ acc, parseDigits (a ++ b) acc = (parseDigits a acc).bind (parseDigits b) := by
  induction a with
  | nil => intro acc; simp [parseDigits]
  | cons d ds ih =>
    intro acc
    simp only [List.cons_append, parseDigits]
    cases digitVal d with
    | none => rfl
    | some v => exact ih _

theorem parseDigits_decDigits (n : Nat) : parseDigits (decDigits n) 0 = some n := by
  induction n using Nat.strongRecOn with
  | _ n ih =>
    by_cases h : n < 10
    · rw [decDigits_lt n h]
      simp only [parseDigits, digitVal_ofNat n h, Nat.zero_mul, Nat.zero_add]
    · rw [decDigits_ge n h, parseDigits_append, ih (n / 10) (by omega)]
      simp only [Option.bind_some, parseDigits, digitVal_ofNat (n % 10) (by omega)]
      congr 1; omega

theorem parseDigits_zeros (k : Nat) : parseDigits (List.replicate k 48) 0 = some 0 := by
  induction k with
  | zero => rfl
  | succ k ih =>
    rw [List.replicate_succ]
    have : digitVal 48 = some 0 := by decide
    simp only [parseDigits, this]
    exact ih

theorem parseNat_decDigits (n : Nat) : parseNat (decDigits n) = some n := by
  unfold parseNat
  have : (decDigits n).isEmpty = false := by
    cases h : decDigits n with
    | nil => exact absurd h (decDigits_ne_nil n)
    | cons _ _ => rfl
  rw [this]
  exact parseDigits_decDigits n

theorem parseNat_padZeros (k n : Nat) : parseNat (padZeros k (decDigits n)) = some n := by
  unfold parseNat
  have : (padZeros k (decDigits n)).isEmpty = false := by
    cases h : padZeros k (decDigits n) with
    | nil => exact absurd h (padZeros_ne_nil k n)
    | cons _ _ => rfl
  rw [this]
  unfold padZeros
  rw [parseDigits_append, parseDigits_zeros]
  exact parseDigits_decDigits n

/-! ## names -/

theorem tablePrefix_length : tablePrefix.length = 8 := rfl
theorem compPrefix_length : compPrefix.length = 18 := rfl

/-- `sstable_%015d` names table `g`, for every `g` (more than 15 digits included) -/
theorem tableOfName_tableName (g : Nat) : tableOfName (tableName g) = some g := by
  unfold tableOfName
  have h1 : (tableName g).take tablePrefix.length = tablePrefix := by
    unfold tableName; exact List.take_left' rfl
  have h2 : (tableName g).drop tablePrefix.length = padZeros 15 (decDigits g) := by
    unfold tableName; exact List.drop_left' rfl
  rw [if_pos h1, h2, parseNat_padZeros]
  simp

theorem compOfName_compName (id : Nat) : compOfName (compName id) = some id := by
  unfold compOfName
  have h1 : (compName id).take compPrefix.length = compPrefix := by
    unfold compName; exact List.take_left' rfl
  have h2 : (compName id).drop compPrefix.length = decDigits id := by
    unfold compName; exact List.drop_left' rfl
  rw [if_pos h1, h2, parseNat_decDigits]
  simp

theorem tableOfName_some {p : Bytes} {g : Nat} (h : tableOfName p = some g) : p = tableName g := by
  unfold tableOfName at h
  split at h
  · split at h
    · split at h
      · rename_i he
        cases h
        exact he.symm
      · cases h
    · cases h
  · cases h

theorem compOfName_some {p : Bytes} {id : Nat} (h : compOfName p = some id) : p = compName id := by
  unfold compOfName at h
  split at h
  · split at h
    · split at h
      · rename_i he
        cases h
        exact he.symm
      · cases h
    · cases h
  · cases h

theorem tableName_inj {g g' : Nat} (h : tableName g = tableName g') : g = g' := by
  have h1 := tableOfName_tableName g
  rw [h, tableOfName_tableName] at h1
  exact (Option.some.inj h1).symm

/-- the letter `c` is no digit: a name that goes on with "compaction…" after "sstable_" has no number there -/
theorem parseNat_c (rest : Bytes) : parseNat (0x63 :: rest) = none := by
  unfold parseNat
  have : digitVal 0x63 = none := by decide
  simp [parseDigits, this]

/-- a compaction directory is never taken for a table directory and vice versa -/
theorem tableOfName_compName (id : Nat) : tableOfName (compName id) = none := by
  unfold tableOfName
  have h2 : (compName id).drop tablePrefix.length =
      0x63 :: ([0x6f, 0x6d, 0x70, 0x61, 0x63, 0x74, 0x69, 0x6f, 0x6e] ++ decDigits id) := by
    unfold compName compPrefix
    rw [List.append_assoc]
    exact List.drop_left' rfl
  rw [h2, parseNat_c]
  split <;> rfl

theorem compOfName_tableName (g : Nat) : compOfName (tableName g) = none := by
  unfold compOfName
  rw [if_neg]
  intro h
  cases hx : padZeros 15 (decDigits g) with
  | nil => exact padZeros_ne_nil 15 g hx
  | cons x X =>
    have hd : IsDigit x := padZeros_isDigit 15 g x (by rw [hx]; exact List.mem_cons_self)
    unfold tableName at h
    rw [hx] at h
    have hx63 : x = 0x63 := by
      simp [compPrefix, tablePrefix] at h
      exact h.1
    rw [hx63] at hd
    revert hd
    unfold IsDigit
    decide

/-! ## the metadata -/

theorem mapM_tableOfName (gs : List Nat) : (gs.map tableName).mapM tableOfName = some gs := by
  induction gs with
  | nil => rfl
  | cons g gs ih =>
    rw [List.map_cons, List.mapM_cons, tableOfName_tableName, ih]
    rfl

/-- the flag written for abstract metadata `cm` in directory `id` reads back as `cm` -/
theorem absMeta_rawOf (id : Nat) (cm : FS.CompMeta) : absMeta (rawOf id cm) = some cm := by
  unfold absMeta rawOf
  simp only [mapM_tableOfName, tableOfName_tableName]

theorem utf8Valid_ascii : ∀ b : Bytes, (∀ c ∈ b, c < 0x80) → utf8Valid b = true := by
  intro b
  induction b with
  | nil => intro _; rfl
  | cons c rest ih =>
    intro h
    have hc : c < 0x80 := h c List.mem_cons_self
    unfold utf8Valid
    rw [if_pos hc]
    exact ih (fun x hx => h x (List.mem_cons_of_mem _ hx))

theorem isDigit_ascii {b : UInt8} (h : IsDigit b) : b < 0x80 := by
  rw [UInt8.lt_iff_toNat_lt]
  have : (0x80 : UInt8).toNat = 128 := rfl
  rw [this]
  exact Nat.lt_of_le_of_lt h.2 (by omega)

theorem tableName_ascii (g : Nat) : ∀ c ∈ tableName g, c < 0x80 := by
  intro c hc
  unfold tableName at hc
  rw [List.mem_append] at hc
  rcases hc with hc | hc
  · revert c; decide
  · exact isDigit_ascii (padZeros_isDigit 15 g c hc)

theorem compName_ascii (id : Nat) : ∀ c ∈ compName id, c < 0x80 := by
  intro c hc
  unfold compName at hc
  rw [List.mem_append] at hc
  rcases hc with hc | hc
  · revert c; decide
  · exact isDigit_ascii (decDigits_isDigit id c hc)

/-- generated names are ASCII: `proto.Marshal` accepts them -/
theorem rawOf_valid (id : Nat) (cm : FS.CompMeta) : (rawOf id cm).valid = true := by
  unfold RawMeta.valid rawOf
  simp only [Bool.and_eq_true, List.all_eq_true, List.mem_map]
  refine ⟨⟨utf8Valid_ascii _ (compName_ascii id), utf8Valid_ascii _ (tableName_ascii _)⟩, ?_⟩
  rintro x ⟨g, _, rfl⟩
  exact utf8Valid_ascii _ (tableName_ascii g)

end SST.Proofs.CompDir
