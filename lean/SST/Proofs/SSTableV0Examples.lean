/-
Concrete evaluations for the version-0 table reader (C03, legacy path): the repository's own version-0 test tables
(/repo/sstables/test_files/v0_compat) as byte literals, the reference layout `V0.filesOf` reproducing them byte for
byte, what the model reads from them, and the recorded limitation that a damaged value is served as genuine.
Everything here is closed and decided by kernel evaluation.
-/
import SST.Proofs.SSTableV0
namespace SST.Proofs.V0
open SST Generated SST.Legacy SST.V0 SST.Proofs.Sst

/-! ## the repository's files -/

/-- /repo/sstables/test_files/v0_compat/SimpleWriteHappyPathSSTableRecordIOV2/index.rio (99 bytes) -/
def repoV2Index : Bytes :=
  [0x02, 0x00, 0x00, 0x00, 0x00, 0x00, 0x00, 0x00, 0x91, 0x8d, 0x4c, 0x08, 0x00, 0x0a, 0x04, 0x00, 0x00, 0x00, 0x01, 0x10,
   0x08, 0x91, 0x8d, 0x4c, 0x08, 0x00, 0x0a, 0x04, 0x00, 0x00, 0x00, 0x02, 0x10, 0x15, 0x91, 0x8d, 0x4c, 0x08, 0x00, 0x0a,
   0x04, 0x00, 0x00, 0x00, 0x03, 0x10, 0x22, 0x91, 0x8d, 0x4c, 0x08, 0x00, 0x0a, 0x04, 0x00, 0x00, 0x00, 0x04, 0x10, 0x2f,
   0x91, 0x8d, 0x4c, 0x08, 0x00, 0x0a, 0x04, 0x00, 0x00, 0x00, 0x05, 0x10, 0x3c, 0x91, 0x8d, 0x4c, 0x08, 0x00, 0x0a, 0x04,
   0x00, 0x00, 0x00, 0x06, 0x10, 0x49, 0x91, 0x8d, 0x4c, 0x08, 0x00, 0x0a, 0x04, 0x00, 0x00, 0x00, 0x07, 0x10, 0x56]

/-- /repo/sstables/test_files/v0_compat/SimpleWriteHappyPathSSTableRecordIOV2/data.rio (99 bytes) -/
def repoV2Data : Bytes :=
  [0x02, 0x00, 0x00, 0x00, 0x02, 0x00, 0x00, 0x00, 0x91, 0x8d, 0x4c, 0x06, 0x08, 0x06, 0x14, 0x0a, 0x04, 0x00, 0x00, 0x00,
   0x02, 0x91, 0x8d, 0x4c, 0x06, 0x08, 0x06, 0x14, 0x0a, 0x04, 0x00, 0x00, 0x00, 0x03, 0x91, 0x8d, 0x4c, 0x06, 0x08, 0x06,
   0x14, 0x0a, 0x04, 0x00, 0x00, 0x00, 0x04, 0x91, 0x8d, 0x4c, 0x06, 0x08, 0x06, 0x14, 0x0a, 0x04, 0x00, 0x00, 0x00, 0x05,
   0x91, 0x8d, 0x4c, 0x06, 0x08, 0x06, 0x14, 0x0a, 0x04, 0x00, 0x00, 0x00, 0x06, 0x91, 0x8d, 0x4c, 0x06, 0x08, 0x06, 0x14,
   0x0a, 0x04, 0x00, 0x00, 0x00, 0x07, 0x91, 0x8d, 0x4c, 0x06, 0x08, 0x06, 0x14, 0x0a, 0x04, 0x00, 0x00, 0x00, 0x08]

/-- /repo/sstables/test_files/v0_compat/SimpleWriteHappyPathSSTableRecordIOV2/meta.pb.bin (14 bytes) -/
def repoV2Meta : Bytes :=
  [0x08, 0x07, 0x12, 0x04, 0x00, 0x00, 0x00, 0x01, 0x1a, 0x04, 0x00, 0x00, 0x00, 0x07]

/-- /repo/sstables/test_files/v0_compat/SimpleWriteHappyPathSSTable/index.rio (206 bytes) -/
def repoV1Index : Bytes :=
  [0x01, 0x00, 0x00, 0x00, 0x00, 0x00, 0x00, 0x00, 0x91, 0x06, 0x13, 0x00, 0x08, 0x00, 0x00, 0x00, 0x00, 0x00, 0x00, 0x00,
   0x00, 0x00, 0x00, 0x00, 0x00, 0x00, 0x00, 0x00, 0x0a, 0x04, 0x00, 0x00, 0x00, 0x01, 0x10, 0x08, 0x91, 0x06, 0x13, 0x00,
   0x08, 0x00, 0x00, 0x00, 0x00, 0x00, 0x00, 0x00, 0x00, 0x00, 0x00, 0x00, 0x00, 0x00, 0x00, 0x00, 0x0a, 0x04, 0x00, 0x00,
   0x00, 0x02, 0x10, 0x24, 0x91, 0x06, 0x13, 0x00, 0x08, 0x00, 0x00, 0x00, 0x00, 0x00, 0x00, 0x00, 0x00, 0x00, 0x00, 0x00,
   0x00, 0x00, 0x00, 0x00, 0x0a, 0x04, 0x00, 0x00, 0x00, 0x03, 0x10, 0x40, 0x91, 0x06, 0x13, 0x00, 0x08, 0x00, 0x00, 0x00,
   0x00, 0x00, 0x00, 0x00, 0x00, 0x00, 0x00, 0x00, 0x00, 0x00, 0x00, 0x00, 0x0a, 0x04, 0x00, 0x00, 0x00, 0x04, 0x10, 0x5c,
   0x91, 0x06, 0x13, 0x00, 0x08, 0x00, 0x00, 0x00, 0x00, 0x00, 0x00, 0x00, 0x00, 0x00, 0x00, 0x00, 0x00, 0x00, 0x00, 0x00,
   0x0a, 0x04, 0x00, 0x00, 0x00, 0x05, 0x10, 0x78, 0x91, 0x06, 0x13, 0x00, 0x09, 0x00, 0x00, 0x00, 0x00, 0x00, 0x00, 0x00,
   0x00, 0x00, 0x00, 0x00, 0x00, 0x00, 0x00, 0x00, 0x0a, 0x04, 0x00, 0x00, 0x00, 0x06, 0x10, 0x94, 0x01, 0x91, 0x06, 0x13,
   0x00, 0x09, 0x00, 0x00, 0x00, 0x00, 0x00, 0x00, 0x00, 0x00, 0x00, 0x00, 0x00, 0x00, 0x00, 0x00, 0x00, 0x0a, 0x04, 0x00,
   0x00, 0x00, 0x07, 0x10, 0xb0, 0x01]

/-- /repo/sstables/test_files/v0_compat/SimpleWriteHappyPathSSTable/data.rio (204 bytes) -/
def repoV1Data : Bytes :=
  [0x01, 0x00, 0x00, 0x00, 0x02, 0x00, 0x00, 0x00, 0x91, 0x06, 0x13, 0x00, 0x06, 0x00, 0x00, 0x00, 0x00, 0x00, 0x00, 0x00,
   0x08, 0x00, 0x00, 0x00, 0x00, 0x00, 0x00, 0x00, 0x06, 0x14, 0x0a, 0x04, 0x00, 0x00, 0x00, 0x02, 0x91, 0x06, 0x13, 0x00,
   0x06, 0x00, 0x00, 0x00, 0x00, 0x00, 0x00, 0x00, 0x08, 0x00, 0x00, 0x00, 0x00, 0x00, 0x00, 0x00, 0x06, 0x14, 0x0a, 0x04,
   0x00, 0x00, 0x00, 0x03, 0x91, 0x06, 0x13, 0x00, 0x06, 0x00, 0x00, 0x00, 0x00, 0x00, 0x00, 0x00, 0x08, 0x00, 0x00, 0x00,
   0x00, 0x00, 0x00, 0x00, 0x06, 0x14, 0x0a, 0x04, 0x00, 0x00, 0x00, 0x04, 0x91, 0x06, 0x13, 0x00, 0x06, 0x00, 0x00, 0x00,
   0x00, 0x00, 0x00, 0x00, 0x08, 0x00, 0x00, 0x00, 0x00, 0x00, 0x00, 0x00, 0x06, 0x14, 0x0a, 0x04, 0x00, 0x00, 0x00, 0x05,
   0x91, 0x06, 0x13, 0x00, 0x06, 0x00, 0x00, 0x00, 0x00, 0x00, 0x00, 0x00, 0x08, 0x00, 0x00, 0x00, 0x00, 0x00, 0x00, 0x00,
   0x06, 0x14, 0x0a, 0x04, 0x00, 0x00, 0x00, 0x06, 0x91, 0x06, 0x13, 0x00, 0x06, 0x00, 0x00, 0x00, 0x00, 0x00, 0x00, 0x00,
   0x08, 0x00, 0x00, 0x00, 0x00, 0x00, 0x00, 0x00, 0x06, 0x14, 0x0a, 0x04, 0x00, 0x00, 0x00, 0x07, 0x91, 0x06, 0x13, 0x00,
   0x06, 0x00, 0x00, 0x00, 0x00, 0x00, 0x00, 0x00, 0x08, 0x00, 0x00, 0x00, 0x00, 0x00, 0x00, 0x00, 0x06, 0x14, 0x0a, 0x04,
   0x00, 0x00, 0x00, 0x08]

/-- the seven pairs both tables hold: key `00 00 00 i` ↦ value `00 00 00 i+1`, i = 1..7 -/
def kvs7 : List KV :=
  [([0, 0, 0, 1], some [0, 0, 0, 2]), ([0, 0, 0, 2], some [0, 0, 0, 3]), ([0, 0, 0, 3], some [0, 0, 0, 4]),
   ([0, 0, 0, 4], some [0, 0, 0, 5]), ([0, 0, 0, 5], some [0, 0, 0, 6]), ([0, 0, 0, 6], some [0, 0, 0, 7]),
   ([0, 0, 0, 7], some [0, 0, 0, 8])]

/-- v0_compat/SimpleWriteHappyPathSSTable: recordio V1, index uncompressed, data snappy, NO metadata file -/
def repoV1 : Files := { index := repoV1Index, data := repoV1Data, metaf := none }

/-- v0_compat/SimpleWriteHappyPathSSTableRecordIOV2: recordio V2, index uncompressed, data snappy, metadata file
saying numRecords 7, minKey, maxKey and (by omission) version 0 -/
def repoV2 : Files := { index := repoV2Index, data := repoV2Data, metaf := some repoV2Meta }

def cfgV1 : Cfg := { iv := 1, ic := none, ict := 0, dv := 1, dc := some snappyLiteral, dct := 2 }
def cfgV2 : Cfg := { iv := 2, ic := none, ict := 0, dv := 2, dc := some snappyLiteral, dct := 2 }

/-- what meta.pb.bin of the recordio-V2 table says -/
def repoV2Md : Meta := { numRecords := 7, minKey := some [0, 0, 0, 1], maxKey := some [0, 0, 0, 7] }

theorem repo_v1_layout : filesOf cfgV1 kvs7 none = repoV1 := by decide +kernel

theorem repo_v2_layout : filesOf cfgV2 kvs7 (some repoV2Meta) = repoV2 := by decide +kernel

theorem repo_v2_meta : MetaV0 (some repoV2Meta) repoV2Md := ⟨by decide +kernel, rfl⟩

theorem repo_v1_reads :
    probeScanV0 evalComps repoV1 = some (.ok (kvs7.map normKV, .done)) ∧
    probeGetV0 evalComps {} repoV1 [0, 0, 0, 1] = some (.ok (some [0, 0, 0, 2])) ∧
    probeGetV0 evalComps {} repoV1 [0, 0, 0, 7] = some (.ok (some [0, 0, 0, 8])) ∧
    probeGetV0 evalComps { skipHashOnRead := false } repoV1 [0, 0, 0, 4] = some (.ok (some [0, 0, 0, 5])) ∧
    probeGetV0 evalComps {} repoV1 [0, 0, 0, 8] = some (.error .notFound) ∧
    probeGetV0 evalComps {} repoV1 [] = some (.error .notFound) ∧
    probeMetaV0 evalComps repoV1 = some (.ok {}) := by decide +kernel

theorem repo_v2_reads :
    probeScanV0 evalComps repoV2 = some (.ok (kvs7.map normKV, .done)) ∧
    probeGetV0 evalComps {} repoV2 [0, 0, 0, 1] = some (.ok (some [0, 0, 0, 2])) ∧
    probeGetV0 evalComps {} repoV2 [0, 0, 0, 7] = some (.ok (some [0, 0, 0, 8])) ∧
    probeGetV0 evalComps { skipHashOnRead := false } repoV2 [0, 0, 0, 4] = some (.ok (some [0, 0, 0, 5])) ∧
    probeGetV0 evalComps {} repoV2 [0, 0, 0, 8] = some (.error .notFound) ∧
    probeGetV0 evalComps {} repoV2 [] = some (.error .notFound) ∧
    probeMetaV0 evalComps repoV2 = some (.ok repoV2Md) := by decide +kernel

/-- a read on a version-0 table opened with the loader `k` (default options, no bloom filter); `none` = the table
does not open -/
def probeWithV0 {α : Type} (k : LoaderKind) (t : Files) (f : V0.Reader → Index → α) : Option α :=
  match openTableV0 evalComps k {} t none with
  | some (.ok (r, idx)) => some (f r idx)
  | _ => none

/-- the other loaders on the real files: skip list (some heights) and the 4-byte map -/
theorem repo_other_loaders :
    probeWithV0 (.skip [1, 3, 2]) repoV2 (fun r idx => (r.get idx [0, 0, 0, 5]).2) =
      some (some (.ok (some [0, 0, 0, 6]))) ∧
    probeWithV0 (.skip [1, 3, 2]) repoV2 (fun r idx => (r.scanRange idx [0, 0, 0, 2] [0, 0, 0, 3]).2) =
      some (.ok ([(some [0, 0, 0, 2], some [0, 0, 0, 3]), (some [0, 0, 0, 3], some [0, 0, 0, 4])], .done)) ∧
    probeWithV0 (.map 4) repoV1 (fun r idx => (r.get idx [0, 0, 0, 5]).2) =
      some (some (.ok (some [0, 0, 0, 6]))) ∧
    probeWithV0 (.map 4) repoV1 (fun r idx => (r.contains idx [0, 0, 0, 9]).2) = some (some (.ok false)) ∧
    probeWithV0 (.skip []) repoV1 (fun r idx => (r.scanFrom idx [0, 0, 0, 6]).2) =
      some (.ok ([(some [0, 0, 0, 6], some [0, 0, 0, 7]), (some [0, 0, 0, 7], some [0, 0, 0, 8])], .done)) := by
  decide +kernel

/-! ## the general theorems reach the real files: ANY lawful snappy that encodes the seven stored messages the way
the files show them (as one literal each) -/

/-- the compressor table of a reader whose snappy implementation is `sn` (code 2), everything else uncompressed -/
def compsWith (sn : Comp) : Nat → Compression := fun ct => if ct = 2 then some sn else none

/-- `sn` compresses the seven `DataEntry` messages of the test tables to the bytes found in the files -/
def AgreesOnRepo (sn : Comp) : Prop :=
  ∀ p ∈ kvs7, sn.enc (encDataEntry p.2) = snappyLiteral.enc (encDataEntry p.2)

theorem repo_v1_layout_snappy (sn : Comp) (h : AgreesOnRepo sn) : filesOf (withDc cfgV1 sn) kvs7 none = repoV1 := by
  rw [filesOf_congr_dc cfgV1 sn snappyLiteral kvs7 none h]
  exact repo_v1_layout

theorem repo_v2_layout_snappy (sn : Comp) (h : AgreesOnRepo sn) :
    filesOf (withDc cfgV2 sn) kvs7 (some repoV2Meta) = repoV2 := by
  rw [filesOf_congr_dc cfgV2 sn snappyLiteral kvs7 _ h]
  exact repo_v2_layout

theorem kvs7_strictAsc : StrictAsc bytesCmp kvs7 := by unfold StrictAsc; decide +kernel

theorem kvs7_norm : normKVs kvs7 = kvs7 := by decide +kernel

theorem repo_v1_fits : FitsV0 (withDc cfgV1 snappyLiteral) kvs7 := by
  unfold FitsV0; exact ⟨by decide +kernel, by decide +kernel⟩

theorem repo_v2_fits : FitsV0 (withDc cfgV2 snappyLiteral) kvs7 := by
  unfold FitsV0; exact ⟨by decide +kernel, by decide +kernel⟩

theorem repo_v1_reads_any_snappy (sn : Comp) (hl : sn.Lawful) (h : AgreesOnRepo sn) (o : ReadOpts)
    (bloom : Option (Bytes → Bool)) (hb : BloomOk bloom kvs7) :
    ∃ r idx, openTableV0 (compsWith sn) .slice o repoV1 bloom = some (.ok (r, idx)) ∧ r.md = {} ∧
      ReadsAsMapV0 (compsWith sn) (fun _ => True) r idx kvs7 := by
  have hc : CfgOk (compsWith sn) (withDc cfgV1 sn) :=
    ⟨rfl, rfl, hl, trivial, (by decide : (2 : Nat) ≤ maxCompression), (by decide : (0 : Nat) ≤ maxCompression),
      (by decide : 1 ≤ 1 ∧ 1 ≤ 4), (by decide : 1 ≤ 1 ∧ 1 ≤ 4)⟩
  have hf := fitsV0_congr_dc cfgV1 sn snappyLiteral kvs7 h repo_v1_fits
  have := table_reads_v0 (compsWith sn) (withDc cfgV1 sn) kvs7 none {} hc hf metaV0_none .slice o bloom hb _
    (slice_table_v0 (compsWith sn) (withDc cfgV1 sn) kvs7 hc hf kvs7_strictAsc)
  rw [repo_v1_layout_snappy sn h, kvs7_norm] at this
  exact this

theorem repo_v2_reads_any_snappy (sn : Comp) (hl : sn.Lawful) (h : AgreesOnRepo sn) (o : ReadOpts)
    (bloom : Option (Bytes → Bool)) (hb : BloomOk bloom kvs7) :
    ∃ r idx, openTableV0 (compsWith sn) .slice o repoV2 bloom = some (.ok (r, idx)) ∧ r.md = repoV2Md ∧
      ReadsAsMapV0 (compsWith sn) (fun _ => True) r idx kvs7 := by
  have hc : CfgOk (compsWith sn) (withDc cfgV2 sn) :=
    ⟨rfl, rfl, hl, trivial, (by decide : (2 : Nat) ≤ maxCompression), (by decide : (0 : Nat) ≤ maxCompression),
      (by decide : 1 ≤ 2 ∧ 2 ≤ 4), (by decide : 1 ≤ 2 ∧ 2 ≤ 4)⟩
  have hf := fitsV0_congr_dc cfgV2 sn snappyLiteral kvs7 h repo_v2_fits
  have := table_reads_v0 (compsWith sn) (withDc cfgV2 sn) kvs7 (some repoV2Meta) repoV2Md hc hf repo_v2_meta .slice o
    bloom hb _ (slice_table_v0 (compsWith sn) (withDc cfgV2 sn) kvs7 hc hf kvs7_strictAsc)
  rw [repo_v2_layout_snappy sn h, kvs7_norm] at this
  exact this

/-! ## small synthetic tables: mixed recordio versions, a lawful toy compressor, nil / empty values, the empty key -/

/-- a lawful compressor: one tag byte in front -/
def tagComp : Comp :=
  { enc := fun r => 7 :: r
    dec := fun s => match s with
      | 7 :: r => some r
      | _ => none }

theorem tagComp_lawful : tagComp.Lawful := fun _ => rfl

def toyComps : Nat → Compression := fun ct => if ct = 1 then some tagComp else none

/-- index.rio in recordio V3 with the toy compressor, data.rio in recordio V1 uncompressed -/
def toyCfgA : Cfg := { iv := 3, ic := some tagComp, ict := 1, dv := 1, dc := none, dct := 0 }

/-- index.rio in recordio V4 uncompressed, data.rio in recordio V3 with the toy compressor -/
def toyCfgB : Cfg := { iv := 4, ic := none, ict := 0, dv := 3, dc := some tagComp, dct := 1 }

/-- index.rio in recordio V2, data.rio in recordio V1 WITH a compressor (the `v1Result` case) -/
def toyCfgC : Cfg := { iv := 2, ic := none, ict := 0, dv := 1, dc := some tagComp, dct := 1 }

/-- the empty key with a nil value, an empty value, a value made of the record marker bytes -/
def toyKvs : List KV := [([], none), ([0x91], some []), ([0x91, 0x8d], some [0x91, 0x8d, 0x4c])]

theorem toyKvs_strictAsc : StrictAsc bytesCmp toyKvs := by unfold StrictAsc; decide +kernel

theorem toy_cfgOk : CfgOk toyComps toyCfgA ∧ CfgOk toyComps toyCfgB ∧ CfgOk toyComps toyCfgC :=
  ⟨⟨rfl, rfl, trivial, tagComp_lawful, by decide, by decide, by decide, by decide⟩,
   ⟨rfl, rfl, tagComp_lawful, trivial, by decide, by decide, by decide, by decide⟩,
   ⟨rfl, rfl, tagComp_lawful, trivial, by decide, by decide, by decide, by decide⟩⟩

theorem toy_fits : FitsV0 toyCfgA toyKvs ∧ FitsV0 toyCfgB toyKvs ∧ FitsV0 toyCfgC toyKvs := by
  unfold FitsV0
  exact ⟨⟨by decide +kernel, by decide +kernel⟩, ⟨by decide +kernel, by decide +kernel⟩,
    ⟨by decide +kernel, by decide +kernel⟩⟩

/-- evaluation of the model on the synthetic tables (what the general theorem predicts): the empty value comes
back nil, the empty key comes back nil in scans, a metadata file that claims nonsense is reported as it is -/
theorem toy_reads :
    normKVs toyKvs = [([], none), ([0x91], none), ([0x91, 0x8d], some [0x91, 0x8d, 0x4c])] ∧
    probeGetV0 toyComps {} (filesOf toyCfgA toyKvs none) [0x91] = some (.ok none) ∧
    probeGetV0 toyComps { skipHashOnRead := false } (filesOf toyCfgB toyKvs none) [0x91, 0x8d] =
      some (.ok (some [0x91, 0x8d, 0x4c])) ∧
    probeGetV0 toyComps {} (filesOf toyCfgC toyKvs none) [] = some (.ok none) ∧
    probeGetV0 toyComps {} (filesOf toyCfgC toyKvs none) [0x92] = some (.error .notFound) ∧
    probeScanV0 toyComps (filesOf toyCfgA toyKvs none) =
      some (.ok ([(none, none), (some [0x91], none), (some [0x91, 0x8d], some [0x91, 0x8d, 0x4c])], .done)) ∧
    probeScanV0 toyComps (filesOf toyCfgC toyKvs none) =
      some (.ok ([(none, none), (some [0x91], none), (some [0x91, 0x8d], some [0x91, 0x8d, 0x4c])], .done)) ∧
    probeMetaV0 toyComps (filesOf toyCfgB toyKvs (some (encMeta { numRecords := 1000, nullValues := 999 }))) =
      some (.ok { numRecords := 1000, nullValues := 999 }) := by decide +kernel

/-- the map loader's zero-padding collision (C03 `map_index_pad_collision`) is there for version-0 tables too:
with "a" and "a\0" stored, `Get("a")` through the 4-byte map returns the value of "a\0" -/
theorem v0_map_pad_collision :
    (match openTableV0 toyComps (.map 4) {} (filesOf toyCfgA [([97], some [1]), ([97, 0], some [2])] none) none with
     | some (.ok (r, idx)) => (r.get idx [97]).2
     | _ => none) = some (.ok (some [2])) ∧
    specGetRes (normKVs [([97], some [1]), ([97, 0], some [2])]) [97] = .ok (some [1]) := by decide +kernel

/-! ## a damaged value is served as genuine -/

def dmgCfg : Cfg := { iv := 2, ic := none, ict := 0, dv := 2, dc := none, dct := 0 }

def dmgKvs : List KV := [([1], some [10, 11]), ([2], some [20, 21])]

/-- byte 15 of data.rio is the first byte of the first value -/
theorem dmg_position : (filesOf dmgCfg dmgKvs none).data[15]? = some 10 := by decide +kernel

/-- the version-0 table of `dmgKvs` with the first value byte changed from 10 to 99 -/
def dmgFiles : Files :=
  { filesOf dmgCfg dmgKvs none with data := (filesOf dmgCfg dmgKvs none).data.set 15 99 }

/-- the same pairs in a CURRENT table, the same value byte changed (it sits at offset 19 there) -/
def dmgCur : Table := { writeTable plainCfg dmgKvs with data := (writeTable plainCfg dmgKvs).data.set 19 99 }

theorem dmg_cur_position : (writeTable plainCfg dmgKvs).data[19]? = some 10 := by decide +kernel

theorem v0_damage_served :
    probeGetV0 (fun _ => none) {} (filesOf dmgCfg dmgKvs none) [1] = some (.ok (some [10, 11])) ∧
    probeGetV0 (fun _ => none) {} dmgFiles [1] = some (.ok (some [99, 11])) ∧
    probeGetV0 (fun _ => none) { skipHashOnRead := false } dmgFiles [1] = some (.ok (some [99, 11])) ∧
    probeGetV0 (fun _ => none) { skipHashOnLoad := false, skipHashOnRead := false } dmgFiles [1] =
      some (.ok (some [99, 11])) ∧
    probeScanV0 (fun _ => none) dmgFiles =
      some (.ok ([(some [1], some [99, 11]), (some [2], some [20, 21])], .done)) := by decide +kernel

/-- the error `NewSSTableReader` fails with on a current table (`none` = it succeeds) -/
def curOpenErr (o : ReadOpts) (t : Table) : Option Err :=
  match openTable plainComps .slice o t none with
  | .ok _ => none
  | .error e => some e

def curGet (o : ReadOpts) (t : Table) (key : Bytes) : Option (Except Err GoBytes) :=
  match openTable plainComps .slice o t none with
  | .ok (r, idx) => (r.get idx key).2
  | .error _ => none

/-- contrast: the current format notices the same change — on load with the default options, on the read when
only reads are verified -/
theorem current_damage_detected :
    openTable plainComps .slice {} dmgCur none = .error .checksum ∧
    curOpenErr { skipHashOnLoad := true, skipHashOnRead := false } dmgCur = none ∧
    curGet { skipHashOnLoad := true, skipHashOnRead := false } dmgCur [1] = some (.error .checksum) := by
  refine ⟨?_, by decide +kernel, by decide +kernel⟩
  have h : curOpenErr {} dmgCur = some .checksum := by decide +kernel
  unfold curOpenErr at h
  cases h' : openTable plainComps .slice {} dmgCur none with
  | error e => rw [h'] at h; simp only [Option.some.injEq] at h; rw [h]
  | ok p => rw [h'] at h; cases h

end SST.Proofs.V0
