/-
SeekNext (MMapReader.SeekNext as coded: 4 KiB windows, marker scan, trial reads) finds the first
position at or after the start offset where a complete valid record starts.
-/
import SST.Spec.RecordIO
import SST.Proofs.RecordIO
import SST.Proofs.RecordIODamage
namespace SST.Proofs
open SST Generated

/-- the literal marker bytes stand at position `p` -/
def MarkerAt (file : Bytes) (p : Nat) : Prop := (file.drop p).take magicBytes.length = magicBytes

/-- a complete valid record starts at `p`: literal marker and a successful random-access read -/
def ValidAt (c : Compression) (file : Bytes) (p : Nat) : Prop :=
  MarkerAt file p ∧ ∃ r, readAt c file p = .ok r

/-- no position strictly inside a record of the file parses as a complete valid record
(a payload may legitimately embed one — nested recordio — then this hypothesis fails) -/
def NoPhantom (c : Compression) (ct : Nat) (rs : List GoBytes) : Prop :=
  ∀ p, ValidAt c (fileHeader currentVersion ct ++ encAll c rs) p → ∃ k, k < rs.length ∧ p = offsetOf c rs k

theorem take3_iff (l : Bytes) (a b d : UInt8) :
    l.take 3 = [a, b, d] ↔ l[0]? = some a ∧ l[1]? = some b ∧ l[2]? = some d := by
  match l with
  | [] => simp
  | [_] => simp
  | [_, _] => simp
  | x :: y :: z :: t => simp

theorem markerAt_iff (file : Bytes) (p : Nat) :
    MarkerAt file p ↔ file[p]? = some 0x91 ∧ file[p + 1]? = some 0x8d ∧ file[p + 2]? = some 0x4c := by
  unfold MarkerAt
  rw [show magicBytes.length = 3 from rfl, show magicBytes = [0x91, 0x8d, 0x4c] from rfl, take3_iff]
  simp only [List.getElem?_drop, Nat.add_zero]

theorem markerAt_len (file : Bytes) (p : Nat) (h : MarkerAt file p) : p + 3 ≤ file.length := by
  have h2 := ((markerAt_iff file p).mp h).2.2
  have := (List.getElem?_eq_some_iff.mp h2).1
  omega

theorem readAt_ok_len (c : Compression) (file : Bytes) (q : Nat) (r : GoBytes)
    (h : readAt c file q = .ok r) : q + 5 ≤ file.length := by
  unfold readAt at h
  by_cases h1 : q > file.length
  · rw [if_pos h1] at h; cases h
  rw [if_neg h1] at h
  by_cases h2 : q = file.length
  · rw [if_pos h2] at h; cases h
  rw [if_neg h2] at h
  simp only [] at h
  cases hr : readHeader (mmapWin (file.drop q)) with
  | error e => rw [hr] at h; cases h
  | ok hd =>
    have hl := (readHeader_ok_ext _ _ hr).1
    obtain ⟨c1, nb, rest, u, c2, cl, c3, ex, c4, g1, g2, g3, g4, g5, _, rfl⟩ := readHeader_ok_inv _ _ hr
    have a1 := (canonDec_ok_ext _ _ _ _ g1).1
    have a3 := (canonDec_ok_ext _ _ _ _ g3).1
    have a4 := (canonDec_ok_ext _ _ _ _ g4).1
    have a5 := (canonDec_ok_ext _ _ _ _ g5).1
    simp only [mmapWin, List.length_take, List.length_drop] at hl
    omega

/-- the window bytes are the file bytes -/
theorem win_getD (file : Bytes) (next j : Nat) (hj : j < ((file.drop next).take seekLen).length) :
    ((file.drop next).take seekLen).getD j 0 = file[next + j]?.getD 0 := by
  have : j < seekLen := by rw [List.length_take] at hj; omega
  rw [List.getD_eq_getElem?_getD, List.getElem?_take_of_lt this, List.getElem?_drop]

theorem matchMarker_eq (win : Bytes) (n i : Nat) : matchMarker win n i =
    if win.getD i 0 != 0x91 then (i, false) else if i + 1 ≥ n then (i + 1, true)
    else if win.getD (i + 1) 0 != 0x8d then (i + 1, false) else if i + 2 ≥ n then (i + 2, true)
    else if win.getD (i + 2) 0 != 0x4c then (i + 2, false) else if i + 3 ≥ n then (i + 3, true)
    else (i + 3, false) := rfl

theorem matchMarker_cases (win : Bytes) (n i : Nat) :
    (∃ ix, matchMarker win n i = (ix, true) ∧ n ≤ i + 3) ∨
    (matchMarker win n i = (i, false) ∧ win.getD i 0 ≠ 0x91) ∨
    (matchMarker win n i = (i + 1, false) ∧ i + 1 < n ∧ win.getD (i + 1) 0 ≠ 0x8d) ∨
    (matchMarker win n i = (i + 2, false) ∧ i + 2 < n ∧ win.getD (i + 2) 0 ≠ 0x4c) ∨
    (matchMarker win n i = (i + 3, false) ∧ i + 3 < n ∧
      win.getD i 0 = 0x91 ∧ win.getD (i + 1) 0 = 0x8d ∧ win.getD (i + 2) 0 = 0x4c) := by
  rw [matchMarker_eq]
  by_cases h0 : win.getD i 0 = 0x91
  · rw [if_neg (by simpa using h0)]
    by_cases e1 : i + 1 ≥ n
    · rw [if_pos e1]; exact Or.inl ⟨_, rfl, by omega⟩
    rw [if_neg e1]
    by_cases h1 : win.getD (i + 1) 0 = 0x8d
    · rw [if_neg (by simpa using h1)]
      by_cases e2 : i + 2 ≥ n
      · rw [if_pos e2]; exact Or.inl ⟨_, rfl, by omega⟩
      rw [if_neg e2]
      by_cases h2 : win.getD (i + 2) 0 = 0x4c
      · rw [if_neg (by simpa using h2)]
        by_cases e3 : i + 3 ≥ n
        · rw [if_pos e3]; exact Or.inl ⟨_, rfl, by omega⟩
        rw [if_neg e3]
        exact Or.inr (Or.inr (Or.inr (Or.inr ⟨rfl, by omega, h0, h1, h2⟩)))
      · rw [if_pos (by simpa using h2)]
        exact Or.inr (Or.inr (Or.inr (Or.inl ⟨rfl, by omega, h2⟩)))
    · rw [if_pos (by simpa using h1)]
      exact Or.inr (Or.inr (Or.inl ⟨rfl, by omega, h1⟩))
  · rw [if_pos (by simpa using h0)]
    exact Or.inr (Or.inl ⟨rfl, h0⟩)


def ScanPost (c : Compression) (file : Bytes) (lo next n : Nat) : ScanOut → Prop
  | .found p r => lo ≤ p ∧ MarkerAt file p ∧ readAt c file p = .ok r ∧
      ∀ q, lo ≤ q → q < p → ¬ ValidAt c file q
  | .fail _ => False
  | .advance i => i ≤ n ∧ n ≤ i + 3 ∧ ∀ q, lo ≤ q → q < next + i → ¬ ValidAt c file q

theorem scanWindow_spec (c : Compression) (file : Bytes) (lo next : Nat) (hlo : lo ≤ next) :
    ∀ (fuel i : Nat), i ≤ ((file.drop next).take seekLen).length →
      ((file.drop next).take seekLen).length + 1 ≤ fuel + i →
      (∀ q, lo ≤ q → q < next + i → ¬ ValidAt c file q) →
      ScanPost c file lo next ((file.drop next).take seekLen).length
        (scanWindow c file next ((file.drop next).take seekLen)
          ((file.drop next).take seekLen).length fuel i) := by
  generalize hwin : (file.drop next).take seekLen = win
  have hget : ∀ j, j < win.length → win.getD j 0 = file[next + j]?.getD 0 := by
    intro j hj; rw [← hwin] at hj ⊢; exact win_getD file next j hj
  intro fuel
  induction fuel with
  | zero => intro i hi hf _; omega
  | succ f ih =>
    intro i hi hf hinv
    unfold scanWindow
    by_cases hge : i ≥ win.length
    · rw [if_pos hge]; exact ⟨hi, by omega, hinv⟩
    rw [if_neg hge]
    have hnot : ∀ (j : Nat) (b : UInt8), j < win.length → win.getD j 0 = b → b ≠ 0x91 →
        ¬ ValidAt c file (next + j) := by
      intro j b hj hb hne hv
      have := ((markerAt_iff file (next + j)).mp hv.1).1
      rw [hget j hj, this] at hb
      exact hne hb.symm
    rcases matchMarker_cases win win.length i with ⟨ix, hm, hn⟩ | ⟨hm, hb⟩ | ⟨hm, hl, hb⟩ | ⟨hm, hl, hb⟩ |
        ⟨hm, hl, b0, b1, b2⟩
    · rw [hm]; simp only [if_true]
      exact ⟨hi, hn, hinv⟩
    · -- first byte differs
      rw [hm]
      simp only [Bool.false_eq_true, if_false, Nat.sub_self]
      rw [if_pos (by decide)]
      apply ih (i + 1) (by omega) (by omega)
      intro q h1 h2
      by_cases hq : q = next + i
      · subst hq
        intro hv
        have := ((markerAt_iff file (next + i)).mp hv.1).1
        rw [hget i (by omega), this] at hb
        exact hb rfl
      · exact hinv q h1 (by omega)
    · -- second byte differs
      rw [hm]
      simp only [Bool.false_eq_true, if_false]
      rw [if_pos (by rw [show magicBytes.length = 3 from rfl]; omega)]
      apply ih (i + 1) (by omega) (by omega)
      intro q h1 h2
      by_cases hq : q = next + i
      · subst hq
        intro hv
        have := ((markerAt_iff file (next + i)).mp hv.1).2.1
        rw [hget (i + 1) hl, ← Nat.add_assoc, this] at hb
        exact hb rfl
      · exact hinv q h1 (by omega)
    · -- third byte differs
      rw [hm]
      simp only [Bool.false_eq_true, if_false]
      rw [if_pos (by rw [show magicBytes.length = 3 from rfl]; omega)]
      apply ih (i + 1) (by omega) (by omega)
      intro q h1 h2
      by_cases hq : q = next + i
      · subst hq
        intro hv
        have := ((markerAt_iff file (next + i)).mp hv.1).2.2
        rw [hget (i + 2) hl, ← Nat.add_assoc, this] at hb
        exact hb rfl
      · exact hinv q h1 (by omega)
    · -- marker found: trial read
      rw [hm]
      simp only [Bool.false_eq_true, if_false]
      rw [if_neg (by rw [show magicBytes.length = 3 from rfl]; omega)]
      have hmark : MarkerAt file (next + i) := by
        rw [markerAt_iff]
        rw [hget i (by omega)] at b0
        rw [hget (i + 1) (by omega), ← Nat.add_assoc] at b1
        rw [hget (i + 2) (by omega), ← Nat.add_assoc] at b2
        have key : ∀ (o : Option UInt8) (v : UInt8), v ≠ 0 → o.getD 0 = v → o = some v := by
          intro o v hv h; cases o with
          | none => exact absurd h.symm hv
          | some x => exact congrArg some h
        exact ⟨key _ _ (by decide) b0, key _ _ (by decide) b1, key _ _ (by decide) b2⟩
      cases hr : readAt c file (next + i) with
      | ok r =>
        simp only []
        exact ⟨by omega, hmark, hr, hinv⟩
      | error e =>
        simp only []
        apply ih (i + 3) (by omega) (by omega)
        intro q h1 h2
        by_cases hq0 : q = next + i
        · subst hq0; intro hv; obtain ⟨r, hr'⟩ := hv.2; rw [hr] at hr'; cases hr'
        by_cases hq1 : q = next + (i + 1)
        · subst hq1; exact hnot (i + 1) _ (by omega) b1 (by decide)
        by_cases hq2 : q = next + (i + 2)
        · subst hq2; exact hnot (i + 2) _ (by omega) b2 (by decide)
        exact hinv q h1 (by omega)


def SeekPost (c : Compression) (file : Bytes) (off : Nat) : Except Err (Nat × GoBytes) → Prop
  | .ok (p, r) => off ≤ p ∧ MarkerAt file p ∧ readAt c file p = .ok r ∧
      ∀ q, off ≤ q → q < p → ¬ ValidAt c file q
  | .error e => e = .eof ∧ ∀ q, off ≤ q → ¬ ValidAt c file q

/-- fewer than 5 bytes left: nothing valid from here on -/
theorem no_valid_tail (c : Compression) (file : Bytes) (next : Nat) (h : file.length ≤ next + 3) :
    ∀ q, next ≤ q → ¬ ValidAt c file q := by
  intro q hq hv
  obtain ⟨r, hr⟩ := hv.2
  have := readAt_ok_len c file q r hr
  omega

theorem seekNextAux_spec (c : Compression) (file : Bytes) (off : Nat) :
    ∀ (fuel next : Nat), next ≤ file.length → file.length + 2 ≤ fuel + next → off ≤ next →
      (∀ q, off ≤ q → q < next → ¬ ValidAt c file q) →
      SeekPost c file off (seekNextAux c file fuel next) := by
  intro fuel
  induction fuel with
  | zero => intro next h1 h2; omega
  | succ f ih =>
    intro next hn hf hoff hinv
    unfold seekNextAux
    rw [if_neg (by omega)]
    simp only []
    have hlen : ((file.drop next).take seekLen).length = min seekLen (file.length - next) := by
      rw [List.length_take, List.length_drop]
    by_cases h0 : ((file.drop next).take seekLen).length = 0
    · rw [if_pos h0]
      refine ⟨rfl, ?_⟩
      have h4 : seekLen = 4096 := rfl
      intro q hq
      by_cases hq' : q < next
      · exact hinv q hq hq'
      · exact no_valid_tail c file next (by omega) q (by omega)
    rw [if_neg h0]
    have hs := scanWindow_spec c file off next hoff
      (((file.drop next).take seekLen).length + 1) 0 (Nat.zero_le _) (by omega)
      (fun q a b => hinv q a (by omega))
    generalize scanWindow c file next ((file.drop next).take seekLen)
      ((file.drop next).take seekLen).length (((file.drop next).take seekLen).length + 1) 0 = out at hs
    cases out with
    | found p r => exact hs
    | fail e => exact hs.elim
    | advance i =>
      obtain ⟨a1, a2, a3⟩ := hs
      simp only []
      by_cases hi0 : i = 0
      · rw [if_pos hi0]
        refine ⟨rfl, ?_⟩
        have h4 : seekLen = 4096 := rfl
        intro q hq
        by_cases hq' : q < next
        · exact hinv q hq hq'
        · exact no_valid_tail c file next (by omega) q (by omega)
      · rw [if_neg hi0]
        exact ih (next + i) (by omega) (by omega) (by omega) a3

theorem seekNext_spec' (c : Compression) (file : Bytes) (off : Nat) (hoff : off ≤ file.length) :
    SeekPost c file off (seekNext c file off) :=
  seekNextAux_spec c file off (file.length + 2) off hoff (by omega) (Nat.le_refl _)
    (fun q a b => by omega)

theorem seekNext_spec (c : Compression) (file : Bytes) (off : Nat) (hoff : off ≤ file.length) :
    match seekNext c file off with
    | .ok (p, r) => off ≤ p ∧ MarkerAt file p ∧ readAt c file p = .ok r ∧ ∀ q, off ≤ q → q < p → ¬ ValidAt c file q
    | .error e => e = .eof ∧ ∀ q, off ≤ q → ¬ ValidAt c file q := by
  have h := seekNext_spec' c file off hoff
  cases hr : seekNext c file off with
  | error e => rw [hr] at h; exact h
  | ok pr => obtain ⟨p, r⟩ := pr; rw [hr] at h; exact h


theorem offsetOf_succ (c : Compression) (rs : List GoBytes) (k : Nat) (hk : k < rs.length) :
    offsetOf c rs (k + 1) = offsetOf c rs k + (encRecord c rs[k]).length := by
  have h1 : rs.take (k + 1) = rs.take k ++ [rs[k]] := by simp
  simp only [offsetOf, h1, encAll_append, List.length_append, encAll_cons, encAll_nil]
  simp; omega

theorem offsetOf_lt (c : Compression) (rs : List GoBytes) (j : Nat) :
    ∀ k, j < k → k ≤ rs.length → offsetOf c rs j < offsetOf c rs k := by
  intro k
  induction k with
  | zero => intro h; omega
  | succ k ih =>
    intro hjk hk
    have hs := offsetOf_succ c rs k (by omega)
    have hp := encRecord_pos c rs[k]
    by_cases h : j = k
    · subst h; omega
    · have := ih (by omega) (by omega); omega

theorem encRecord_marker (c : Compression) (r : GoBytes) : ∃ X, encRecord c r = magicBytes ++ X := by
  cases r with
  | none => simp only [encRecord, encHeader, headerBody, List.append_assoc]; exact ⟨_, rfl⟩
  | some r => simp only [encRecord, encHeader, headerBody, List.append_assoc]; exact ⟨_, rfl⟩

theorem validAt_offset (c : Compression) (ct : Nat) (rs : List GoBytes) (k : Nat) (hk : k < rs.length)
    (hl : LawfulC c) (hf : ∀ r ∈ rs, FitsRec c r) :
    ValidAt c (fileHeader currentVersion ct ++ encAll c rs) (offsetOf c rs k) := by
  refine ⟨?_, _, readAt_offset c ct rs k hk hl hf⟩
  have hsplit : rs = rs.take k ++ rs[k] :: rs.drop (k + 1) := by simp
  have hfile : fileHeader currentVersion ct ++ encAll c rs =
      (fileHeader currentVersion ct ++ encAll c (rs.take k)) ++
        (encRecord c rs[k] ++ encAll c (rs.drop (k + 1))) := by
    have := congrArg (encAll c) hsplit
    rw [encAll_append, encAll_cons] at this
    rw [this, List.append_assoc]
  have hoff : offsetOf c rs k = (fileHeader currentVersion ct ++ encAll c (rs.take k)).length := by
    simp [offsetOf, fileHeader_length, fileHeaderSize]
  obtain ⟨X, hX⟩ := encRecord_marker c rs[k]
  unfold MarkerAt
  rw [hfile, hoff, List.drop_left, hX, List.append_assoc, List.take_left]

theorem seekNext_first_record (c : Compression) (ct : Nat) (rs : List GoBytes)
    (hl : LawfulC c) (hf : ∀ r ∈ rs, FitsRec c r) (hnp : NoPhantom c ct rs) (off : Nat)
    (hoff : off ≤ (fileHeader currentVersion ct ++ encAll c rs).length) :
    match seekNext c (fileHeader currentVersion ct ++ encAll c rs) off with
    | .ok (p, r) => ∃ k, ∃ hk : k < rs.length, p = offsetOf c rs k ∧ r = rs[k] ∧ off ≤ p ∧
        ∀ j, j < k → offsetOf c rs j < off
    | .error e => e = .eof ∧ ∀ k, k < rs.length → offsetOf c rs k < off := by
  have h := seekNext_spec' c _ off hoff
  cases hr : seekNext c (fileHeader currentVersion ct ++ encAll c rs) off with
  | error e =>
    rw [hr] at h
    obtain ⟨he, hno⟩ := h
    refine ⟨he, ?_⟩
    intro k hk
    rcases Nat.lt_or_ge (offsetOf c rs k) off with h' | h'
    · exact h'
    · exact absurd (validAt_offset c ct rs k hk hl hf) (hno _ h')
  | ok pr =>
    obtain ⟨p, r⟩ := pr
    rw [hr] at h
    obtain ⟨h1, h2, h3, h4⟩ := h
    obtain ⟨k, hk, rfl⟩ := hnp p ⟨h2, r, h3⟩
    refine ⟨k, hk, rfl, ?_, h1, ?_⟩
    · have := readAt_offset c ct rs k hk hl hf
      rw [h3] at this
      exact Except.ok.inj this
    · intro j hj
      rcases Nat.lt_or_ge (offsetOf c rs j) off with h' | h'
      · exact h'
      · exact absurd (validAt_offset c ct rs j (by omega) hl hf)
          (h4 _ h' (offsetOf_lt c rs j k hj (by omega)))

end SST.Proofs
