/-
Proofs for the direct-I/O writer path (SST/Model/RecordIODirect.lean).
-/
import SST.Model.RecordIODirect
import SST.Proofs.BufW
import SST.Proofs.RecordIO
namespace SST.Proofs.Direct
open SST Generated SST.Proofs

/-! ## byte arrays -/

theorem getD_overwrite (file : Bytes) (pos : Nat) (bs : Bytes) (j : Nat) (hpos : pos ≤ file.length) :
    (overwrite file pos bs).getD j 0 =
      if j < pos then file.getD j 0 else if j < pos + bs.length then bs.getD (j - pos) 0
      else file.getD j 0 := by
  have hl : (file.take pos).length = pos := by rw [List.length_take]; omega
  simp only [overwrite, List.getD_eq_getElem?_getD]
  by_cases h1 : j < pos
  · rw [if_pos h1, List.append_assoc, List.getElem?_append_left (by omega), List.getElem?_take_of_lt h1]
  · rw [if_neg h1, List.append_assoc, List.getElem?_append_right (by omega), hl]
    by_cases h2 : j < pos + bs.length
    · rw [if_pos h2, List.getElem?_append_left (by omega)]
    · rw [if_neg h2, List.getElem?_append_right (by omega), List.getElem?_drop]
      congr 2; omega

theorem length_overwrite (file : Bytes) (pos : Nat) (bs : Bytes) (hpos : pos ≤ file.length) :
    (overwrite file pos bs).length = max file.length (pos + bs.length) := by
  simp only [overwrite, List.length_append, List.length_take, List.length_drop]; omega

theorem take_overwrite (file : Bytes) (pos : Nat) (bs : Bytes) (hpos : pos ≤ file.length) :
    (overwrite file pos bs).take (pos + bs.length) = file.take pos ++ bs := by
  rw [overwrite]
  exact List.take_left' (by rw [List.length_append, List.length_take]; omega)

theorem drop_eq_replicate (l : Bytes) (m : Nat) (h : ∀ j, m ≤ j → l.getD j 0 = 0) :
    l.drop m = List.replicate (l.length - m) 0 := by
  apply List.ext_getElem
  · simp
  · intro i h1 h2
    have := h (m + i) (by omega)
    rw [List.getD_eq_getElem?_getD, List.getElem?_eq_getElem (by simp at h1; omega)] at this
    simp only [List.getElem_drop, List.getElem_replicate]
    simpa using this

/-! ## one buffered write / flush against the file -/

theorem bufWrite_eq (d : DWState) (p : Bytes) :
    d.bufWrite p =
      { d with w := (d.w.write p).1,
               file := (applyChunks d.file d.pos d.events (d.w.write p).2).1,
               pos := (applyChunks d.file d.pos d.events (d.w.write p).2).2.1,
               events := (applyChunks d.file d.pos d.events (d.w.write p).2).2.2 } := rfl

theorem bufFlush_eq (d : DWState) :
    d.bufFlush =
      { d with w := d.w.flush.1,
               file := (applyChunks d.file d.pos d.events d.w.flush.2).1,
               pos := (applyChunks d.file d.pos d.events d.w.flush.2).2.1,
               events := (applyChunks d.file d.pos d.events d.w.flush.2).2.2 } := rfl

/-- the events are all block aligned: offset a multiple of `n`, length `n` -/
def EventsAligned (n : Nat) (evs : List (Nat × Nat)) : Prop := ∀ e ∈ evs, e.1 % n = 0 ∧ e.2 = n

/-- the buffered writer is the aligned one of size `n` and not over-full -/
structure BufOk (n : Nat) (w : BufW) : Prop where
  size : w.size = n
  aligned : w.aligned = true
  le : w.buf.length ≤ n

/-- no seek so far: the file is a sequence of whole blocks and the file offset is at its end -/
structure Blocks (n : Nat) (d : DWState) : Prop where
  pos : d.pos % n = 0
  len : d.file.length = d.pos
  evs : EventsAligned n d.events

structure StepPost (n : Nat) (d d' : DWState) (p : Bytes) : Prop where
  buf : BufOk n d'.w
  adv : d'.pos + d'.w.buf.length = d.pos + d.w.buf.length + p.length
  inb : d'.pos ≤ d'.file.length
  data : d'.file.take d'.pos ++ d'.w.buf = d.file.take d.pos ++ d.w.buf ++ p
  far : ∀ j, d.pos + d.w.buf.length + p.length ≤ j → d'.file.getD j 0 = d.file.getD j 0
  cur : d'.cur = d.cur
  largest : d'.largest = d.largest
  blocks : Blocks n d → Blocks n d'

theorem bufWrite_spec (n : Nat) (d : DWState) (p : Bytes) (hw : BufOk n d.w) (hp : p.length ≤ n)
    (hpos : d.pos ≤ d.file.length) : StepPost n d (d.bufWrite p) p := by
  obtain ⟨hs, ha, hb⟩ := hw
  rw [bufWrite_eq, write_eq]
  have hav : d.w.avail = n - d.w.buf.length := by rw [BufW.avail, hs]
  by_cases h1 : p.length ≤ d.w.avail
  · rw [if_pos h1]
    simp only [applyChunks]
    exact ⟨⟨hs, ha, by simp only [List.length_append]; omega⟩, by simp only [List.length_append]; omega,
      hpos, by simp only [List.append_assoc], fun _ _ => rfl, rfl, rfl, fun h => ⟨h.1, h.2, h.3⟩⟩
  · rw [if_neg h1]
    by_cases h2 : d.w.buf = []
    · exfalso; rw [h2] at hav; simp at hav; omega
    · rw [if_neg h2]
      have hr : ¬ (p.drop d.w.avail).length > d.w.size := by rw [List.length_drop, hs]; omega
      simp only [if_neg hr, applyChunks]
      have hch : chunkOf { d.w with buf := d.w.buf ++ p.take d.w.avail } = d.w.buf ++ p.take d.w.avail := by
        simp only [chunkOf, ha, if_true, hs, List.length_append, List.length_take]
        rw [show n - (d.w.buf.length + min d.w.avail p.length) = 0 by omega]
        simp
      have hcl : (d.w.buf ++ p.take d.w.avail).length = n := by
        simp only [List.length_append, List.length_take]; omega
      rw [hch, hcl]
      refine ⟨⟨hs, ha, by simp only [List.length_drop]; omega⟩, by simp only [List.length_drop]; omega,
        by simp only []; rw [length_overwrite _ _ _ hpos, hcl]; omega, ?_, ?_, rfl, rfl, ?_⟩
      · simp only []
        rw [← hcl, take_overwrite _ _ _ hpos]
        simp only [List.append_assoc, List.take_append_drop]
      · intro j hj
        simp only []
        rw [getD_overwrite _ _ _ _ hpos, if_neg (by omega), if_neg (by omega)]
      · intro hbk
        obtain ⟨b1, b2, b3⟩ := hbk
        refine ⟨by simp only []; rw [Nat.add_mod_right]; exact b1,
          by simp only []; rw [length_overwrite _ _ _ hpos, hcl]; omega, ?_⟩
        intro e he
        simp only [List.mem_append, List.mem_singleton] at he
        rcases he with he | he
        · exact b3 e he
        · subst he; exact ⟨b1, rfl⟩

structure FlushPost (n : Nat) (d d' : DWState) : Prop where
  buf : BufOk n d'.w
  empty : d'.w.buf = []
  reach : d.pos + d.w.buf.length ≤ d'.file.length
  data : d'.file.take (d.pos + d.w.buf.length) = d.file.take d.pos ++ d.w.buf
  zero : ∀ j, d.pos + d.w.buf.length ≤ j → d.file.getD j 0 = 0 → d'.file.getD j 0 = 0
  cur : d'.cur = d.cur
  largest : d'.largest = d.largest
  blocks : Blocks n d → EventsAligned n d'.events ∧
    d'.file = d.file ++ (if d.w.buf = [] then [] else d.w.buf ++ List.replicate (n - d.w.buf.length) 0)

theorem bufFlush_spec (n : Nat) (d : DWState) (hw : BufOk n d.w) (hpos : d.pos ≤ d.file.length) :
    FlushPost n d d.bufFlush := by
  obtain ⟨hs, ha, hb⟩ := hw
  rw [bufFlush_eq]
  obtain ⟨⟨size, al, buf⟩, file, pos, cur, largest, events⟩ := d
  simp only [] at hs ha hb hpos ⊢
  subst hs ha
  by_cases h0 : buf = []
  · subst h0
    rw [flush_empty _ rfl]
    simp only [applyChunks]
    exact ⟨⟨rfl, rfl, by simp⟩, rfl, by simpa using hpos, by simp, fun _ _ h => h, rfl, rfl,
      fun h => ⟨h.3, by simp⟩⟩
  · rw [flush_ne _ h0]
    simp only [applyChunks, chunkOf, if_true]
    have hs : size = size := rfl
    have ha : true = true := rfl
    generalize hn : size = n at hb ⊢
    have hcl : (buf ++ List.replicate (n - buf.length) 0).length = n := by
      simp only [List.length_append, List.length_replicate]; omega
    rw [hcl]
    refine ⟨⟨rfl, rfl, by simp⟩, rfl, by simp only []; rw [length_overwrite _ _ _ hpos, hcl]; omega,
      ?_, ?_, rfl, rfl, ?_⟩
    · simp only []
      have : (overwrite file pos (buf ++ List.replicate (n - buf.length) 0)).take
          (pos + buf.length) =
          ((overwrite file pos (buf ++ List.replicate (n - buf.length) 0)).take
            (pos + (buf ++ List.replicate (n - buf.length) 0).length)).take
              (pos + buf.length) := by
        rw [List.take_take, hcl]; congr 1; omega
      rw [this, take_overwrite _ _ _ hpos, ← List.append_assoc]
      exact List.take_left' (by rw [List.length_append, List.length_take]; omega)
    · intro j hj hz
      simp only [] at hj hz ⊢
      rw [getD_overwrite _ _ _ _ hpos, if_neg (by omega), hcl]
      by_cases h2 : j < pos + n
      · rw [if_pos h2, List.getD_eq_getElem?_getD, List.getElem?_append_right (by omega)]
        rw [List.getElem?_replicate]
        split <;> rfl
      · rw [if_neg h2]; exact hz
    · intro hbk
      obtain ⟨b1, b2, b3⟩ := hbk
      simp only [] at b1 b2 b3
      refine ⟨?_, ?_⟩
      · intro e he
        simp only [List.mem_append, List.mem_singleton] at he
        rcases he with he | he
        · exact b3 e he
        · subst he; exact ⟨b1, rfl⟩
      · simp only [if_neg h0]
        rw [overwrite, ← b2, List.take_length, List.drop_of_length_le (by omega), List.append_nil]

/-! ## the writer invariant -/

/-- file up to the file offset, then the buffer, is the header and the surviving records; beyond
everything ever written the file holds zeros only -/
structure DInv (c : Compression) (ct n : Nat) (rs : List GoBytes) (d : DWState) : Prop where
  buf : BufOk n d.w
  cur : d.cur = fileHeaderSize + (encAll c rs).length
  adv : d.pos + d.w.buf.length = d.cur
  inb : d.pos ≤ d.file.length
  data : d.file.take d.pos ++ d.w.buf = fileHeader currentVersion ct ++ encAll c rs
  zero : ∀ j, max d.largest d.cur ≤ j → d.file.getD j 0 = 0

/-- no seek so far -/
structure NInv (n : Nat) (d : DWState) : Prop where
  blocks : Blocks n d
  nolarger : d.largest ≤ d.cur

def initState (n : Nat) : DWState :=
  { w := BufW.init n true, file := [], pos := 0, cur := fileHeaderSize, largest := fileHeaderSize,
    events := [] }

theorem open_eq (n ct : Nat) : DWState.open n ct = (initState n).bufWrite (fileHeader currentVersion ct) :=
  rfl

theorem DInv_open (c : Compression) (ct n : Nat) (hn : fileHeaderSize ≤ n) :
    DInv c ct n [] (DWState.open n ct) ∧ NInv n (DWState.open n ct) := by
  have hw : BufOk n (initState n).w := ⟨rfl, rfl, by simp [initState, BufW.init]⟩
  have sp := bufWrite_spec n (initState n) (fileHeader currentVersion ct) hw
    (by rw [fileHeader_length]; exact hn) (Nat.le_refl _)
  rw [open_eq]
  obtain ⟨s1, s2, s3, s4, s5, s6, s7, s8⟩ := sp
  have h8 : fileHeaderSize = 8 := rfl
  have i1 : (initState n).pos = 0 := rfl
  have i2 : (initState n).w.buf = [] := rfl
  have i3 : (initState n).file = [] := rfl
  have i4 : (initState n).cur = fileHeaderSize := rfl
  have i5 : (initState n).largest = fileHeaderSize := rfl
  simp only [i1, i2, i3, List.length_nil, fileHeader_length, Nat.add_zero, Nat.zero_add, List.take_nil,
    List.nil_append, List.getD_nil] at s2 s4 s5
  refine ⟨⟨s1, by rw [s6, i4]; simp, by rw [s6, i4, h8]; exact s2, s3, by simpa using s4, ?_⟩, ?_⟩
  · intro j hj
    rw [s6, s7, i4, i5] at hj
    exact s5 j (by omega)
  · refine ⟨s8 ⟨by rw [i1]; simp, by rw [i3, i1]; rfl, by intro e he; simp [initState] at he⟩, ?_⟩
    rw [s6, s7, i4, i5]; exact Nat.le_refl _

theorem write_none_eq (c : Compression) (d : DWState) :
    (d.write c none).1 =
      { d.bufWrite (encHeader true 0 (clenOf c [])) with
        cur := d.cur + (encHeader true 0 (clenOf c [])).length } := rfl

theorem write_some_eq (c : Compression) (d : DWState) (p : Bytes) :
    (d.write c (some p)).1 =
      { (d.bufWrite (encHeader false p.length (clenOf c p))).bufWrite (stored c p) with
        cur := d.cur + (encHeader false p.length (clenOf c p)).length + (stored c p).length,
        largest := max d.largest
          (d.cur + (encHeader false p.length (clenOf c p)).length + (stored c p).length) } := rfl

theorem write_off (c : Compression) (d : DWState) (r : GoBytes) : (d.write c r).2 = d.cur := by
  cases r <;> rfl

theorem write_cur' (c : Compression) (d : DWState) (r : GoBytes) :
    (d.write c r).1.cur = d.cur + (encRecord c r).length := by
  cases r with
  | none => rfl
  | some p => rw [write_some_eq]; simp only [encRecord, List.length_append]; omega

theorem DInv_write (c : Compression) (ct n : Nat) (rs : List GoBytes) (d : DWState) (r : GoBytes)
    (h : DInv c ct n rs d) (hfit : RecFitsBuf c n r) :
    DInv c ct n (rs ++ [r]) (d.write c r).1 ∧ (NInv n d → NInv n (d.write c r).1) := by
  obtain ⟨h1, h2, h3, h4, h5, h6⟩ := h
  cases r with
  | none =>
    have sp := bufWrite_spec n d (encHeader true 0 (clenOf c [])) h1 hfit h4
    obtain ⟨s1, s2, s3, s4, s5, s6, s7, s8⟩ := sp
    rw [write_none_eq]
    refine ⟨⟨s1, ?_, ?_, s3, ?_, ?_⟩, ?_⟩
    · simp only [encAll_append, encAll_cons, encAll_nil, encRecord, List.length_append, List.append_nil]
      omega
    · simp only []; omega
    · simp only []
      rw [s4, h5, encAll_append]; simp [encRecord]
    · intro j hj
      simp only [] at hj
      rw [s7] at hj
      rw [s5 j (by omega)]
      exact h6 j (by omega)
    · intro hn
      exact ⟨⟨(s8 hn.1).1, (s8 hn.1).2, (s8 hn.1).3⟩, by
        simp only []; rw [s7]; have := hn.2; omega⟩
  | some p =>
    obtain ⟨f1, f2⟩ := hfit
    have sp := bufWrite_spec n d (encHeader false p.length (clenOf c p)) h1 f1 h4
    obtain ⟨s1, s2, s3, s4, s5, s6, s7, s8⟩ := sp
    have sp' := bufWrite_spec n (d.bufWrite (encHeader false p.length (clenOf c p))) (stored c p) s1 f2 s3
    obtain ⟨t1, t2, t3, t4, t5, t6, t7, t8⟩ := sp'
    rw [write_some_eq]
    refine ⟨⟨t1, ?_, ?_, t3, ?_, ?_⟩, ?_⟩
    · simp only [encAll_append, encAll_cons, encAll_nil, encRecord, List.length_append, List.append_nil]
      omega
    · simp only []; omega
    · simp only []
      rw [t4, s4, h5, encAll_append]; simp [encRecord]
    · intro j hj
      simp only [] at hj
      rw [t5 j (by omega), s5 j (by omega)]
      exact h6 j (by omega)
    · intro hn
      exact ⟨⟨(t8 (s8 hn.1)).1, (t8 (s8 hn.1)).2, (t8 (s8 hn.1)).3⟩, by
        simp only []; have := hn.2; omega⟩

theorem DInv_seek (c : Compression) (ct n : Nat) (rs : List GoBytes) (d : DWState) (k : Nat)
    (h : DInv c ct n rs d) :
    ∃ d', d.seek (offsetOf c rs k) = .ok d' ∧ DInv c ct n (rs.take k) d' := by
  obtain ⟨h1, h2, h3, h4, h5, h6⟩ := h
  have hle := encAll_take_le c rs k
  have ha : ¬ offsetOf c rs k < fileHeaderSize := by simp [offsetOf]
  have hb : ¬ offsetOf c rs k > d.cur := by simp only [offsetOf, h2]; omega
  obtain ⟨s1, s2, s3, s4, s5, s6, s7, _⟩ := bufFlush_spec n d h1 h4
  generalize ho : offsetOf c rs k = o at ha hb
  refine ⟨{ d.bufFlush with pos := o, largest := max d.largest d.cur, cur := o },
    by simp [DWState.seek, ha, hb], ?_⟩
  subst ho
  refine ⟨s1, rfl, by simp only []; rw [s2]; rfl, by simp only []; omega, ?_, ?_⟩
  · simp only []
    rw [s2, List.append_nil]
    have hmin : offsetOf c rs k = min (offsetOf c rs k) (d.pos + d.w.buf.length) := by omega
    have hsp : encAll c rs = encAll c (rs.take k) ++ encAll c (rs.drop k) := by
      rw [← encAll_append, List.take_append_drop]
    rw [hmin, ← List.take_take, s4, h5, hsp, ← List.append_assoc]
    apply List.take_left'
    simp [offsetOf, fileHeader_length, fileHeaderSize]
  · intro j hj
    simp only [] at hj
    exact s5 j (by omega) (h6 j (by omega))

theorem DInv_close (c : Compression) (ct n : Nat) (rs : List GoBytes) (d : DWState)
    (h : DInv c ct n rs d) :
    (∃ k, d.close = fileHeader currentVersion ct ++ encAll c rs ++ List.replicate k 0) ∧
    (NInv n d → d.close = fileHeader currentVersion ct ++ encAll c rs ++
        List.replicate ((n - d.cur % n) % n) 0 ∧ EventsAligned n d.closeEvents) := by
  obtain ⟨h1, h2, h3, h4, h5, h6⟩ := h
  obtain ⟨s1, s2, s3, s4, s5, s6, s7, s8⟩ := bufFlush_spec n d h1 h4
  rw [h3, h5] at s4
  rw [h3] at s3 s5
  constructor
  · unfold DWState.close
    simp only []
    split
    · exact ⟨0, by rw [s4]; simp⟩
    · rename_i hl
      refine ⟨d.bufFlush.file.length - d.cur, ?_⟩
      rw [← s4, ← drop_eq_replicate d.bufFlush.file d.cur
        (fun j hj => s5 j hj (h6 j (by omega))), List.take_append_drop]
  · intro hn
    obtain ⟨⟨b1, b2, b3⟩, hl⟩ := hn
    obtain ⟨e1, e2⟩ := s8 ⟨b1, b2, b3⟩
    refine ⟨?_, e1⟩
    unfold DWState.close
    simp only []
    rw [if_neg (by omega), e2]
    have hf : d.file = d.file.take d.pos := by rw [← b2, List.take_length]
    have hbn := h1.le
    by_cases h0 : d.w.buf = []
    · rw [if_pos h0, List.append_nil]
      rw [h0] at h5 h3
      simp only [List.append_nil, List.length_nil, Nat.add_zero] at h5 h3
      rw [hf, h5, ← h3, b1]
      by_cases hn0 : n = 0
      · subst hn0; simp
      · rw [Nat.sub_zero, Nat.mod_self]; simp
    · rw [if_neg h0]
      have hpos : 0 < d.w.buf.length := List.length_pos_iff.mpr h0
      have hmod : d.cur % n = d.w.buf.length % n := by
        rw [← h3, Nat.add_mod, b1, Nat.zero_add, Nat.mod_mod]
      have hk : (n - d.cur % n) % n = n - d.w.buf.length := by
        rw [hmod]
        by_cases hfull : d.w.buf.length = n
        · rw [hfull, Nat.mod_self, Nat.sub_zero, Nat.mod_self, Nat.sub_self]
        · rw [Nat.mod_eq_of_lt (show d.w.buf.length < n by omega),
            Nat.mod_eq_of_lt (show n - d.w.buf.length < n by omega)]
      rw [hk, ← List.append_assoc, ← h5]
      conv => lhs; rw [hf]

/-! ## whole programs -/

/-- every single write of the abstract program fits the buffer -/
def AOpFitsBuf (c : Compression) (n : Nat) : AOp → Prop
  | .write r => RecFitsBuf c n r
  | .cut _ => True

theorem runDirect_write_fst (c : Compression) (d : DWState) (r : GoBytes) (ops : List WOp) :
    (runDirect c d (.write r :: ops)).1 = (runDirect c (d.write c r).1 ops).1 := rfl

theorem runDirect_write_snd (c : Compression) (d : DWState) (r : GoBytes) (ops : List WOp) :
    (runDirect c d (.write r :: ops)).2 = d.cur :: (runDirect c (d.write c r).1 ops).2 := by
  have : (runDirect c d (.write r :: ops)).2 = (d.write c r).2 :: (runDirect c (d.write c r).1 ops).2 := rfl
  rw [this, write_off]

theorem DInv_run (c : Compression) (ct n : Nat) (ops : List AOp) :
    ∀ (rs : List GoBytes) (d : DWState), DInv c ct n rs d → CutsOk rs ops →
      (∀ op ∈ ops, AOpFitsBuf c n op) →
      DInv c ct n (survivors rs ops) (runDirect c d (concretize c rs ops)).1 := by
  induction ops with
  | nil => intro rs d h _ _; exact h
  | cons op ops ih =>
    intro rs d h hc hfit
    cases op with
    | write r =>
      simp only [concretize, survivors, runDirect_write_fst]
      exact ih _ _ (DInv_write c ct n rs d r h (hfit (.write r) (by simp))).1 hc
        (fun op hop => hfit op (by simp [hop]))
    | cut k =>
      obtain ⟨d', hs, hi⟩ := DInv_seek c ct n rs d k h
      simp only [concretize, survivors, runDirect, hs]
      exact ih _ _ hi hc.2 (fun op hop => hfit op (by simp [hop]))

theorem DInv_run_writes (c : Compression) (ct n : Nat) (ws : List GoBytes) :
    ∀ (rs : List GoBytes) (d : DWState), DInv c ct n rs d → NInv n d → (∀ r ∈ ws, RecFitsBuf c n r) →
      DInv c ct n (rs ++ ws) (runDirect c d (ws.map WOp.write)).1 ∧
      NInv n (runDirect c d (ws.map WOp.write)).1 := by
  induction ws with
  | nil => intro rs d h hn _; simpa using ⟨h, hn⟩
  | cons r ws ih =>
    intro rs d h hn hfit
    obtain ⟨a1, a2⟩ := DInv_write c ct n rs d r h (hfit r (by simp))
    have := ih (rs ++ [r]) _ a1 (a2 hn) (fun x hx => hfit x (by simp [hx]))
    rw [List.map_cons, runDirect_write_fst]
    simpa using this

theorem runDirect_offsets (c : Compression) (ws : List GoBytes) :
    ∀ (pre : List GoBytes) (d : DWState), d.cur = fileHeaderSize + (encAll c pre).length →
      (runDirect c d (ws.map WOp.write)).2 =
        (List.range ws.length).map (fun i => offsetOf c (pre ++ ws) (pre.length + i)) := by
  induction ws with
  | nil => intro pre d _; simp [runDirect]
  | cons r ws ih =>
    intro pre d hd
    have h' : (d.write c r).1.cur = fileHeaderSize + (encAll c (pre ++ [r])).length := by
      rw [write_cur', hd, encAll_append]; simp; omega
    have := ih (pre ++ [r]) _ h'
    rw [List.map_cons, runDirect_write_snd, this, List.length_cons, List.range_succ_eq_map,
      List.map_cons, List.map_map]
    congr 1
    · simp [offsetOf, hd]
    · apply List.map_congr_left
      intro i _
      simp only [Function.comp, List.append_assoc, List.singleton_append, List.length_append,
        List.length_singleton]
      congr 1; omega

/-! ## reading a file with a zero tail -/

theorem readAllS_zero_tail (c : Compression) (hl : LawfulC c) (k : Nat) (rs : List GoBytes) :
    ∀ fuel, (∀ r ∈ rs, FitsRec c r) → rs.length < fuel →
      readAllS c fuel (encAll c rs ++ List.replicate k 0) = (rs, .eof) := by
  induction rs with
  | nil =>
    intro fuel _ hfu
    cases fuel with
    | zero => omega
    | succ f => simp [readAllS, zero_tail_is_eof]
  | cons r rs ih =>
    intro fuel hf hfu
    cases fuel with
    | zero => omega
    | succ f =>
      have h1 := readNextS_enc c r (encAll c rs ++ List.replicate k 0) hl (hf r (by simp))
      have h2 := ih f (fun x hx => hf x (by simp [hx])) (by simpa using hfu)
      simp [readAllS, h1, h2]

theorem readAll_zero_tail (c : Compression) (ct : Nat) (rs : List GoBytes) (k : Nat)
    (hl : LawfulC c) (hf : ∀ r ∈ rs, FitsRec c r) :
    readAll c (fileHeader currentVersion ct ++ encAll c rs ++ List.replicate k 0) = (rs, .eof) := by
  have hd : (fileHeader currentVersion ct ++ encAll c rs ++ List.replicate k 0).drop fileHeaderSize =
      encAll c rs ++ List.replicate k 0 := by
    rw [List.append_assoc]; exact List.drop_left' (fileHeader_length _ _)
  unfold readAll
  rw [hd]
  apply readAllS_zero_tail c hl k rs _ hf
  have := length_le_encAll c rs
  simp only [List.length_append, fileHeader_length]; omega

theorem readAt_zero_tail (c : Compression) (ct : Nat) (rs : List GoBytes) (z : Nat) (k : Nat)
    (hk : k < rs.length) (hl : LawfulC c) (hf : ∀ r ∈ rs, FitsRec c r) :
    readAt c (fileHeader currentVersion ct ++ encAll c rs ++ List.replicate z 0) (offsetOf c rs k) =
      .ok rs[k] := by
  have hsplit : rs = rs.take k ++ rs[k] :: rs.drop (k + 1) := by simp
  have hfile : fileHeader currentVersion ct ++ encAll c rs ++ List.replicate z 0 =
      (fileHeader currentVersion ct ++ encAll c (rs.take k)) ++
        (encRecord c rs[k] ++ (encAll c (rs.drop (k + 1)) ++ List.replicate z 0)) := by
    have := congrArg (encAll c) hsplit
    rw [encAll_append, encAll_cons] at this
    rw [this]; simp only [List.append_assoc]
  have hoff : offsetOf c rs k = (fileHeader currentVersion ct ++ encAll c (rs.take k)).length := by
    simp [offsetOf, fileHeader_length, fileHeaderSize]
  rw [hfile, hoff]
  exact readAt_enc c _ _ _ hl (hf _ (by simp))

/-- the size precondition in terms of the payload only: record headers are at most 36 bytes -/
theorem recFitsBuf_of_fits (c : Compression) (n : Nat) (r : GoBytes) (hf : FitsRec c r)
    (hn : recordHeaderMax ≤ n) (hp : ∀ p, r = some p → (stored c p).length ≤ n) : RecFitsBuf c n r := by
  cases r with
  | none => exact Nat.le_trans (encHeader_length_le true 0 _ (by decide) hf) hn
  | some p => exact ⟨Nat.le_trans (encHeader_length_le false _ _ hf.1 hf.2) hn, hp p rfl⟩

/-! ## the statements -/

theorem direct_close_exact (c : Compression) (ct n : Nat) (rs : List GoBytes)
    (hn : fileHeaderSize ≤ n) (hfit : ∀ r ∈ rs, RecFitsBuf c n r) :
    let run := runDirect c (DWState.open n ct) (rs.map WOp.write)
    let len := fileHeaderSize + (encAll c rs).length
    run.1.close = fileHeader currentVersion ct ++ encAll c rs ++ List.replicate ((n - len % n) % n) 0 ∧
    run.1.cur = len ∧
    run.2 = (List.range rs.length).map (offsetOf c rs) ∧
    EventsAligned n run.1.closeEvents := by
  obtain ⟨i0, n0⟩ := DInv_open c ct n hn
  obtain ⟨i1, n1⟩ := DInv_run_writes c ct n rs [] _ i0 n0 hfit
  rw [List.nil_append] at i1
  obtain ⟨e1, e2⟩ := (DInv_close c ct n rs _ i1).2 n1
  have hoffs := runDirect_offsets c rs [] (DWState.open n ct) (by simp [i0.cur])
  refine ⟨?_, i1.cur, by simpa using hoffs, e2⟩
  rw [e1, i1.cur]

theorem direct_close_exact_seeks (c : Compression) (ct n : Nat) (ops : List AOp)
    (hn : fileHeaderSize ≤ n) (hc : CutsOk [] ops) (hfit : ∀ op ∈ ops, AOpFitsBuf c n op) :
    let d := (runDirect c (DWState.open n ct) (concretize c [] ops)).1
    (∃ k, d.close = fileHeader currentVersion ct ++ encAll c (survivors [] ops) ++ List.replicate k 0) ∧
    d.cur = fileHeaderSize + (encAll c (survivors [] ops)).length := by
  obtain ⟨i0, _⟩ := DInv_open c ct n hn
  have i1 := DInv_run c ct n ops [] _ i0 hc hfit
  exact ⟨(DInv_close c ct n _ _ i1).1, i1.cur⟩

end SST.Proofs.Direct
