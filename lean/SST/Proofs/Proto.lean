/-
Round trips of the protobuf wire encoding of the two messages in the sstable files:
`decIndexEntry ∘ encIndexEntry` and `decMeta ∘ encMeta` (up to nil/empty normalisation of keys).
-/
import SST.Model.Proto
import SST.Proofs.Varint
namespace SST.Proofs.Pb
open SST

/-- all numeric fields fit their wire types, key lengths fit 64 bits -/
def MetaFits (m : Meta) : Prop :=
  m.numRecords < 2^64 ∧ (m.minKey.getD []).length < 2^64 ∧ (m.maxKey.getD []).length < 2^64 ∧
  m.dataBytes < 2^64 ∧ m.indexBytes < 2^64 ∧ m.totalBytes < 2^64 ∧ m.version < 2^32 ∧
  m.skippedRecords < 2^64 ∧ m.nullValues < 2^64

/-! ## basic facts -/

theorem encLen_pos (n : Nat) : 0 < (uvarintEnc n).length :=
  List.length_pos_iff.mpr (uvarintEnc_ne_nil n)

theorem pbVarint_enc (n : Nat) (rest : Bytes) (hn : n < 2 ^ 64) :
    pbVarint (uvarintEnc n ++ rest) = .ok (n, (uvarintEnc n).length) := by
  simp [pbVarint, uvarintDec_enc n rest hn]

/-- the fields a varint / bytes field contributes to the decoded list -/
def optV (num v : Nat) : PbFields := if v = 0 then [] else [(num, .varint v)]
def optB (num : Nat) (b : Bytes) : PbFields := if b.length = 0 then [] else [(num, .bytes b)]

/-! ## one decoder iteration per present field -/

theorem aux_nil (sch : Nat → Option PbKind) (fuel : Nat) (acc : PbFields) (hf : 0 < fuel) :
    pbDecodeAux sch fuel [] acc = (acc, none) := by
  cases fuel with
  | zero => omega
  | succ f => simp [pbDecodeAux]

theorem aux_u64 (sch : Nat → Option PbKind) (num v : Nat) (rest : Bytes) (acc : PbFields) (fuel : Nat)
    (hs : sch num = some .u64) (h1 : 1 ≤ num) (h2 : num ≤ 536870911) (hv : v < 2 ^ 64) :
    pbDecodeAux sch (fuel + 1) (pbTag num 0 ++ uvarintEnc v ++ rest) acc =
      pbDecodeAux sch fuel rest (acc ++ [(num, .varint v)]) := by
  have ht : (num * 8 + 0) / 8 = num := by omega
  have hw : (num * 8 + 0) % 8 = 0 := by omega
  have htag : num * 8 + 0 < 2 ^ 64 := by omega
  have hne : ¬ ((pbTag num 0 ++ uvarintEnc v ++ rest).length = 0) := by
    have := encLen_pos v
    simp only [List.length_append]; omega
  rw [pbDecodeAux]
  simp only [hne, if_false]
  simp only [pbTag, List.append_assoc]
  rw [pbVarint_enc _ _ htag]
  simp only [ht, hw, hs, List.drop_left]
  rw [pbVarint_enc _ _ hv]
  have h3' : ¬ (num = 0 ∨ 536870911 < num) := by omega
  simp [h3']

theorem aux_u32 (sch : Nat → Option PbKind) (num v : Nat) (rest : Bytes) (acc : PbFields) (fuel : Nat)
    (hs : sch num = some .u32) (h1 : 1 ≤ num) (h2 : num ≤ 536870911) (hv : v < 2 ^ 32) :
    pbDecodeAux sch (fuel + 1) (pbTag num 0 ++ uvarintEnc v ++ rest) acc =
      pbDecodeAux sch fuel rest (acc ++ [(num, .varint v)]) := by
  have ht : (num * 8 + 0) / 8 = num := by omega
  have hw : (num * 8 + 0) % 8 = 0 := by omega
  have htag : num * 8 + 0 < 2 ^ 64 := by omega
  have hv' : v < 2 ^ 64 := by omega
  have hmod : v % 4294967296 = v := by omega
  have hne : ¬ ((pbTag num 0 ++ uvarintEnc v ++ rest).length = 0) := by
    have := encLen_pos v
    simp only [List.length_append]; omega
  rw [pbDecodeAux]
  simp only [hne, if_false]
  simp only [pbTag, List.append_assoc]
  rw [pbVarint_enc _ _ htag]
  simp only [ht, hw, hs, List.drop_left]
  rw [pbVarint_enc _ _ hv']
  have h3' : ¬ (num = 0 ∨ 536870911 < num) := by omega
  simp [h3', hmod]

theorem aux_bytes (sch : Nat → Option PbKind) (num : Nat) (b rest : Bytes) (acc : PbFields) (fuel : Nat)
    (hs : sch num = some .bytes) (h1 : 1 ≤ num) (h2 : num ≤ 536870911) (hb : b.length < 2 ^ 64) :
    pbDecodeAux sch (fuel + 1) (pbTag num 2 ++ uvarintEnc b.length ++ b ++ rest) acc =
      pbDecodeAux sch fuel rest (acc ++ [(num, .bytes b)]) := by
  have ht : (num * 8 + 2) / 8 = num := by omega
  have hw : (num * 8 + 2) % 8 = 2 := by omega
  have htag : num * 8 + 2 < 2 ^ 64 := by omega
  have hne : ¬ ((pbTag num 2 ++ uvarintEnc b.length ++ b ++ rest).length = 0) := by
    have := encLen_pos b.length
    simp only [List.length_append]; omega
  rw [pbDecodeAux]
  simp only [hne, if_false]
  simp only [pbTag, List.append_assoc]
  rw [pbVarint_enc _ _ htag]
  simp only [ht, hw, hs, List.drop_left]
  rw [pbVarint_enc _ _ hb]
  have h4 : ¬ (b.length > (uvarintEnc b.length ++ (b ++ rest)).length - (uvarintEnc b.length).length) := by
    simp only [List.length_append]; omega
  have h5 : List.drop ((uvarintEnc b.length).length + b.length) (uvarintEnc b.length ++ (b ++ rest)) = rest := by
    rw [← List.drop_drop, List.drop_left, List.drop_left]
  have h6 : List.take b.length (List.drop (uvarintEnc b.length).length (uvarintEnc b.length ++ (b ++ rest))) = b := by
    rw [List.drop_left, List.take_left]
  have h3' : ¬ (num = 0 ∨ 536870911 < num) := by omega
  have h4' : ¬ (b.length + rest.length < b.length) := by omega
  simp [h3', h4', h5]

/-! ## fuel-independent form -/

/-- with enough fuel, decoding `b` on top of `acc` yields `r` -/
def Dec (sch : Nat → Option PbKind) (b : Bytes) (acc : PbFields) (r : PbFields × Option Err) : Prop :=
  ∀ fuel, b.length < fuel → pbDecodeAux sch fuel b acc = r

theorem dec_nil (sch : Nat → Option PbKind) (acc : PbFields) : Dec sch [] acc (acc, none) :=
  fun fuel hf => aux_nil sch fuel acc (by simpa using hf)

theorem dec_u64 {sch : Nat → Option PbKind} {num v : Nat} {rest : Bytes} {acc : PbFields}
    {r : PbFields × Option Err}
    (hs : sch num = some .u64) (h1 : 1 ≤ num) (h2 : num ≤ 536870911) (hv : v < 2 ^ 64)
    (h : Dec sch rest (acc ++ optV num v) r) : Dec sch (pbVarintField num v ++ rest) acc r := by
  intro fuel hf
  by_cases h0 : v = 0
  · simp only [pbVarintField, optV, h0, if_true, List.nil_append, List.append_nil] at hf h ⊢
    exact h fuel hf
  · simp only [pbVarintField, optV, h0, if_false] at hf h ⊢
    cases fuel with
    | zero => omega
    | succ f =>
      rw [aux_u64 sch num v rest acc f hs h1 h2 hv]
      apply h
      have := encLen_pos v
      simp only [List.length_append] at hf; omega

theorem dec_u32 {sch : Nat → Option PbKind} {num v : Nat} {rest : Bytes} {acc : PbFields}
    {r : PbFields × Option Err}
    (hs : sch num = some .u32) (h1 : 1 ≤ num) (h2 : num ≤ 536870911) (hv : v < 2 ^ 32)
    (h : Dec sch rest (acc ++ optV num v) r) : Dec sch (pbVarintField num v ++ rest) acc r := by
  intro fuel hf
  by_cases h0 : v = 0
  · simp only [pbVarintField, optV, h0, if_true, List.nil_append, List.append_nil] at hf h ⊢
    exact h fuel hf
  · simp only [pbVarintField, optV, h0, if_false] at hf h ⊢
    cases fuel with
    | zero => omega
    | succ f =>
      rw [aux_u32 sch num v rest acc f hs h1 h2 hv]
      apply h
      have := encLen_pos v
      simp only [List.length_append] at hf; omega

theorem dec_bytes {sch : Nat → Option PbKind} {num : Nat} {b rest : Bytes} {acc : PbFields}
    {r : PbFields × Option Err}
    (hs : sch num = some .bytes) (h1 : 1 ≤ num) (h2 : num ≤ 536870911) (hb : b.length < 2 ^ 64)
    (h : Dec sch rest (acc ++ optB num b) r) : Dec sch (pbBytesField num b ++ rest) acc r := by
  intro fuel hf
  by_cases h0 : b.length = 0
  · simp only [pbBytesField, optB, h0, if_true, List.nil_append, List.append_nil] at hf h ⊢
    exact h fuel hf
  · simp only [pbBytesField, optB, h0, if_false] at hf h ⊢
    cases fuel with
    | zero => omega
    | succ f =>
      rw [aux_bytes sch num b rest acc f hs h1 h2 hb]
      apply h
      have := encLen_pos b.length
      simp only [List.length_append] at hf; omega

theorem dec_pbDecode {sch : Nat → Option PbKind} {b : Bytes} {r : PbFields × Option Err}
    (h : Dec sch b [] r) : pbDecode sch b = r := h _ (Nat.lt_succ_self _)

/-! ## reading the fields back -/

theorem find_optV (num v k : Nat) :
    (optV num v).reverse.find? (·.1 == k) = if num = k ∧ v ≠ 0 then some (num, .varint v) else none := by
  by_cases h0 : v = 0 <;> by_cases hk : num = k <;> simp [optV, h0, hk]

theorem find_optB (num : Nat) (b : Bytes) (k : Nat) :
    (optB num b).reverse.find? (·.1 == k) =
      if num = k ∧ b.length ≠ 0 then some (num, .bytes b) else none := by
  by_cases h0 : b.length = 0 <;> by_cases hk : num = k <;> simp [optB, h0, hk]

/-! ## IndexEntry -/

def indexFields (key : Bytes) (off sum : Nat) : PbFields :=
  [] ++ optB 1 key ++ optV 2 off ++ optV 3 sum

theorem dec_encIndexEntry (key : Bytes) (off sum : Nat)
    (hk : key.length < 2^64) (ho : off < 2^64) (hs : sum < 2^64) :
    Dec indexEntrySchema (encIndexEntry key off sum) [] (indexFields key off sum, none) := by
  have e : encIndexEntry key off sum =
      pbBytesField 1 key ++ (pbVarintField 2 off ++ (pbVarintField 3 sum ++ [])) := by
    simp [encIndexEntry]
  rw [e]
  apply dec_bytes rfl (by omega) (by omega) hk
  apply dec_u64 rfl (by omega) (by omega) ho
  apply dec_u64 rfl (by omega) (by omega) hs
  exact dec_nil _ _

theorem decIndexEntry_enc (key : Bytes) (off sum : Nat)
    (hk : key.length < 2^64) (ho : off < 2^64) (hs : sum < 2^64) :
    decIndexEntry (encIndexEntry key off sum) =
      ({ key := normKey key, valueOffset := off, checksum := sum }, none) := by
  have g1 : pbGetBytes (indexFields key off sum) 1 = normKey key := by
    simp only [pbGetBytes, indexFields, List.reverse_append, List.find?_append, find_optV, find_optB]
    by_cases h : key.length = 0 <;> simp [h, normKey]
  have g2 : pbGetVarint (indexFields key off sum) 2 = off := by
    simp only [pbGetVarint, indexFields, List.reverse_append, List.find?_append, find_optV, find_optB]
    by_cases h : off = 0 <;> simp [h]
  have g3 : pbGetVarint (indexFields key off sum) 3 = sum := by
    simp only [pbGetVarint, indexFields, List.reverse_append, List.find?_append, find_optV, find_optB]
    by_cases h : sum = 0 <;> simp [h]
  simp only [decIndexEntry, dec_pbDecode (dec_encIndexEntry key off sum hk ho hs), indexEntryOf, g1, g2, g3]

/-! ## MetaData -/

def metaFields (m : Meta) : PbFields :=
  [] ++ optV 1 m.numRecords ++ optB 2 (m.minKey.getD []) ++ optB 3 (m.maxKey.getD []) ++
  optV 4 m.dataBytes ++ optV 5 m.indexBytes ++ optV 6 m.totalBytes ++
  optV 7 m.version ++ optV 8 m.skippedRecords ++ optV 9 m.nullValues

theorem dec_encMeta (m : Meta) (h : MetaFits m) :
    Dec metaSchema (encMeta m) [] (metaFields m, none) := by
  obtain ⟨h1, h2, h3, h4, h5, h6, h7, h8, h9⟩ := h
  have e : encMeta m =
      pbVarintField 1 m.numRecords ++ (pbBytesField 2 (m.minKey.getD []) ++ (pbBytesField 3 (m.maxKey.getD []) ++
      (pbVarintField 4 m.dataBytes ++ (pbVarintField 5 m.indexBytes ++ (pbVarintField 6 m.totalBytes ++
      (pbVarintField 7 m.version ++ (pbVarintField 8 m.skippedRecords ++ (pbVarintField 9 m.nullValues ++ [])))))))) := by
    simp [encMeta]
  rw [e]
  apply dec_u64 rfl (by omega) (by omega) h1
  apply dec_bytes rfl (by omega) (by omega) h2
  apply dec_bytes rfl (by omega) (by omega) h3
  apply dec_u64 rfl (by omega) (by omega) h4
  apply dec_u64 rfl (by omega) (by omega) h5
  apply dec_u64 rfl (by omega) (by omega) h6
  apply dec_u32 rfl (by omega) (by omega) h7
  apply dec_u64 rfl (by omega) (by omega) h8
  apply dec_u64 rfl (by omega) (by omega) h9
  exact dec_nil _ _

theorem decMeta_enc (m : Meta) (h : MetaFits m) : decMeta (encMeta m) = .ok m.norm := by
  have g1 : pbGetVarint (metaFields m) 1 = m.numRecords := by
    simp only [pbGetVarint, metaFields, List.reverse_append, List.find?_append, find_optV, find_optB]
    by_cases h : m.numRecords = 0 <;> simp [h]
  have g2 : pbGetBytes (metaFields m) 2 = normKey (m.minKey.getD []) := by
    simp only [pbGetBytes, metaFields, List.reverse_append, List.find?_append, find_optV, find_optB]
    by_cases h : (m.minKey.getD []).length = 0 <;> simp [h, normKey]
  have g3 : pbGetBytes (metaFields m) 3 = normKey (m.maxKey.getD []) := by
    simp only [pbGetBytes, metaFields, List.reverse_append, List.find?_append, find_optV, find_optB]
    by_cases h : (m.maxKey.getD []).length = 0 <;> simp [h, normKey]
  have g4 : pbGetVarint (metaFields m) 4 = m.dataBytes := by
    simp only [pbGetVarint, metaFields, List.reverse_append, List.find?_append, find_optV, find_optB]
    by_cases h : m.dataBytes = 0 <;> simp [h]
  have g5 : pbGetVarint (metaFields m) 5 = m.indexBytes := by
    simp only [pbGetVarint, metaFields, List.reverse_append, List.find?_append, find_optV, find_optB]
    by_cases h : m.indexBytes = 0 <;> simp [h]
  have g6 : pbGetVarint (metaFields m) 6 = m.totalBytes := by
    simp only [pbGetVarint, metaFields, List.reverse_append, List.find?_append, find_optV, find_optB]
    by_cases h : m.totalBytes = 0 <;> simp [h]
  have g7 : pbGetVarint (metaFields m) 7 = m.version := by
    simp only [pbGetVarint, metaFields, List.reverse_append, List.find?_append, find_optV, find_optB]
    by_cases h : m.version = 0 <;> simp [h]
  have g8 : pbGetVarint (metaFields m) 8 = m.skippedRecords := by
    simp only [pbGetVarint, metaFields, List.reverse_append, List.find?_append, find_optV, find_optB]
    by_cases h : m.skippedRecords = 0 <;> simp [h]
  have g9 : pbGetVarint (metaFields m) 9 = m.nullValues := by
    simp only [pbGetVarint, metaFields, List.reverse_append, List.find?_append, find_optV, find_optB]
    by_cases h : m.nullValues = 0 <;> simp [h]
  simp only [decMeta, dec_pbDecode (dec_encMeta m h), metaOfFields, g1, g2, g3, g4, g5, g6, g7, g8, g9,
    Meta.norm, normGo]

end SST.Proofs.Pb
