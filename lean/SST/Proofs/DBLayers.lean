/-
Helper lemmas for L6 (SimpleDB as a map): layers, table stacks, the merge of a run of tables.
-/
import SST.Spec.DB
namespace SST.Proofs.DB
open SST SST.DBM

/-! ## layers -/

theorem layerGet_nil (k : Key) : Layer.get [] k = none := rfl

theorem layerGet_cons (p : Key × GoBytes) (l : Layer) (k : Key) :
    Layer.get (p :: l) k = if p.1 = k then some p.2 else Layer.get l k := by
  by_cases h : p.1 = k <;> simp [Layer.get, h]

theorem layerGet_filter_ne (l : Layer) (k k' : Key) (h : k' ≠ k) :
    Layer.get (l.filter (fun p => p.1 != k)) k' = Layer.get l k' := by
  induction l with
  | nil => rfl
  | cons p l ih =>
    by_cases hp : p.1 = k
    · have : ¬ k = k' := fun e => h e.symm
      simp [hp, layerGet_cons, this, ih]
    · simp [hp, layerGet_cons, ih]

theorem layerGet_set (l : Layer) (k k' : Key) (v : GoBytes) :
    Layer.get (Layer.set l k v) k' = if k' = k then some v else Layer.get l k' := by
  unfold Layer.set
  rw [layerGet_cons]
  by_cases h : k' = k
  · simp [h]
  · have : ¬ k = k' := fun e => h e.symm
    simp [h, this, layerGet_filter_ne l k k' h]

theorem layerGet_some_mem (l : Layer) (k : Key) (v : GoBytes) (h : Layer.get l k = some v) :
    k ∈ l.map (·.1) := by
  induction l with
  | nil => simp [layerGet_nil] at h
  | cons p l ih =>
    rw [layerGet_cons] at h
    by_cases hp : p.1 = k
    · simp [hp]
    · simp [hp] at h
      simp [ih h]

/-- a list of bindings produced key by key: the binding of `k` is the one its own key produced -/
theorem layerGet_filterMap (h : Key → Option GoBytes) (keys : List Key) (k : Key) :
    Layer.get (keys.filterMap fun k' => (h k').map fun v => (k', v)) k =
      if k ∈ keys then h k else none := by
  induction keys with
  | nil => simp [layerGet_nil]
  | cons k' ks ih =>
    rw [List.filterMap_cons]
    by_cases hk : k' = k
    · subst hk
      cases hh : h k' with
      | none => simp [ih, hh]
      | some v => simp [layerGet_cons]
    · have hk' : ¬ k = k' := fun e => hk e.symm
      cases hh : h k' with
      | none => simp [ih, hk']
      | some v => simp [layerGet_cons, hk, hk', ih]

/-! ## table stacks -/

theorem tablesGet_cons (t : Tbl) (ts : List Tbl) (k : Key) :
    tablesGet (t :: ts) k = (tablesGet ts k).or (Layer.get t.cells k) := by
  simp only [tablesGet]
  cases tablesGet ts k <;> simp

theorem tablesGet_append (xs ys : List Tbl) (k : Key) :
    tablesGet (xs ++ ys) k = (tablesGet ys k).or (tablesGet xs k) := by
  induction xs with
  | nil => simp [tablesGet]
  | cons t xs ih => simp [tablesGet_cons, ih, Option.or_assoc]

theorem tablesGet_single (t : Tbl) (k : Key) : tablesGet [t] k = Layer.get t.cells k := by
  simp [tablesGet]

theorem tablesGet_some_mem (ts : List Tbl) (k : Key) (v : GoBytes) (h : tablesGet ts k = some v) :
    k ∈ keysOf ts := by
  unfold keysOf
  rw [List.mem_eraseDups]
  induction ts generalizing v with
  | nil => simp [tablesGet] at h
  | cons t ts ih =>
    rw [tablesGet_cons] at h
    rw [List.flatMap_cons, List.mem_append]
    cases hts : tablesGet ts k with
    | some v' => exact Or.inr (ih _ hts)
    | none =>
      rw [hts, Option.none_or] at h
      exact Or.inl (layerGet_some_mem _ _ _ h)

/-! ## the merge of a run -/

/-- what `mergeRun` stores for a key, from what the run reads as -/
def mergeVal (drop : Bool) : Option GoBytes → Option GoBytes
  | none => none
  | some none => if drop then none else some (some [])
  | some (some v) => if v.isEmpty then (if drop then none else some (some [])) else some (some v)

theorem mergeRun_get (run : List Tbl) (drop : Bool) (k : Key) :
    Layer.get (mergeRun run drop) k = mergeVal drop (tablesGet run k) := by
  have hf : mergeRun run drop = (keysOf run).filterMap
      fun k' => (mergeVal drop (tablesGet run k')).map fun v => (k', v) := by
    unfold mergeRun
    congr 1
    funext k'
    cases tablesGet run k' with
    | none => rfl
    | some x =>
      cases x with
      | none => cases drop <;> rfl
      | some v => cases drop <;> by_cases hv : v.isEmpty <;> simp [mergeVal, hv]
  rw [hf, layerGet_filterMap]
  split
  · rfl
  · next hn =>
    cases hts : tablesGet run k with
    | none => rfl
    | some v => exact absurd (tablesGet_some_mem _ _ _ hts) hn

theorem vis_mergeVal_keep (p x q : Option GoBytes) :
    vis (p.or ((mergeVal false x).or q)) = vis (p.or (x.or q)) := by
  cases p with
  | some _ => rfl
  | none =>
    cases x with
    | none => rfl
    | some x =>
      cases x with
      | none => simp [mergeVal, vis]
      | some v => by_cases hv : v.isEmpty <;> simp [mergeVal, hv, vis]

theorem vis_mergeVal_drop (p x : Option GoBytes) :
    vis (p.or ((mergeVal true x).or none)) = vis (p.or (x.or none)) := by
  cases p with
  | some _ => rfl
  | none =>
    cases x with
    | none => rfl
    | some x =>
      cases x with
      | none => simp [mergeVal, vis]
      | some v => by_cases hv : v.isEmpty <;> simp [mergeVal, hv, vis]

/-- replacing a run of tables by its merge changes no key's visible value; tombstones may only be dropped when
nothing older is left -/
theorem vis_tablesGet_merge (pre sel post : List Tbl) (g : Nat) (drop : Bool) (hd : drop = true → pre = [])
    (k : Key) :
    vis (tablesGet (pre ++ [{ gen := g, cells := mergeRun sel drop }] ++ post) k) =
      vis (tablesGet (pre ++ sel ++ post) k) := by
  simp only [tablesGet_append, tablesGet_single, mergeRun_get]
  cases drop with
  | false => exact vis_mergeVal_keep _ _ _
  | true =>
    rw [hd rfl]
    exact vis_mergeVal_drop _ _

end SST.Proofs.DB
