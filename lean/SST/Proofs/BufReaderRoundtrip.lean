/-
C04's sequential round trip, restated for the real reader stack: a written file read through the buffered stack
(any capacity ≥ 1, any non-stalling schedule) yields exactly the records, then end-of-file.
-/
import SST.Proofs.BufReaderRun
import SST.Proofs.RecordIODamage
namespace SST.Buf
open SST Generated

theorem skipsFit_reads (v : Nat) (cmp : Compression) (maxOff : Nat) (file : Bytes) :
    ∀ (ops : List ROp), (∀ o ∈ ops, o = .read) → ∀ pos, skipsFit v cmp maxOff file pos ops = true := by
  intro ops
  induction ops with
  | nil => intro _ _; rfl
  | cons o ops ih =>
    intro h pos
    have ho : o = .read := h o (by simp)
    subst ho
    simp only [skipsFit]
    split
    · exact ih (fun o ho => h o (by simp [ho])) _
    · rfl

theorem readNextSV_four (c : Compression) (s : Bytes) : readNextSV 4 c s = readNextS c s := by
  simp [readNextSV]

theorem streamRun_reads (c : Compression) (hl : LawfulC c) : ∀ (rs : List GoBytes) (pre : Bytes),
    (∀ r ∈ rs, FitsRec c r) →
    streamRun 4 c (pre ++ encAll c rs) pre.length (List.replicate rs.length .read ++ [.read])
      = rs.map .record ++ [.fail (.e .eof)] := by
  intro rs
  induction rs with
  | nil =>
    intro pre _
    have h0 := Proofs.zero_tail_is_eof c 0
    simp only [List.replicate_zero] at h0
    simp [streamRun, readNextSV_four, encAll, h0]
  | cons r rs ih =>
    intro pre hf
    have h1 := Proofs.readNextS_enc c r (encAll c rs) hl (hf r (by simp))
    have hd : (pre ++ encAll c (r :: rs)).drop pre.length = encRecord c r ++ encAll c rs := by
      rw [List.drop_left']; · simp [encAll]
      rfl
    have hfile : pre ++ encAll c (r :: rs) = (pre ++ encRecord c r) ++ encAll c rs := by simp [encAll]
    have hlen : pre.length + (encRecord c r).length = (pre ++ encRecord c r).length := by simp
    have := ih (pre ++ encRecord c r) (fun x hx => hf x (by simp [hx]))
    simp only [List.length_cons, List.replicate_succ, List.cons_append, streamRun, readNextSV_four, hd, h1,
      List.map_cons]
    rw [hlen, hfile, this]

end SST.Buf
