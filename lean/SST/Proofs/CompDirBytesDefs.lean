/-
Shared definitions for the proofs about SST/Model/CompDirBytes.lean (hypotheses and the shape of a zero-padded misread).
-/
import SST.Model.CompDirBytes
namespace SST.Proofs.CompDir
open SST SST.CompDir Generated

/-- what `saveCompactionMetadata` can write at all: `proto.Marshal` accepts the strings (valid UTF-8) and the record
length fits the 64-bit header field -/
structure MetaOk (m : RawMeta) : Prop where
  valid : m.valid = true
  fits : (encCompMeta m).length < 2 ^ 64

def zeros (z : Nat) : Bytes := List.replicate z 0

/-- a string whose tail from position `i` on reads as NUL bytes -/
def zeroTailStr (s : Bytes) (i : Nat) : Bytes := s.take i ++ zeros (s.length - i)

/-- the metadata with the tail of its LAST WRITTEN string (the last path; without paths the replacement path; without
that the write path) replaced by NUL bytes from position `i` on -/
def zeroTail (m : RawMeta) (i : Nat) : RawMeta :=
  match m.sstablePaths.getLast? with
  | some l => { m with sstablePaths := m.sstablePaths.dropLast ++ [zeroTailStr l i] }
  | none =>
    if m.replacementPath.length ≠ 0 then { m with replacementPath := zeroTailStr m.replacementPath i }
    else { m with writePath := zeroTailStr m.writePath i }

/-- the state of compaction directory `id` after `k` events of `compEvs` on a disk that did not have it -/
def compState (id : Nat) (cells : DBM.Layer) (cm : FS.CompMeta) : Nat → Option FS.CompDir
  | 0 => none
  | 1 | 2 => some { id := id }
  | 3 | 4 => some { id := id, out := .complete cells }
  | _ => some { id := id, out := .complete cells, flag := some cm }

def lookupC (id : Nat) (cs : List FS.CompDir) : Option FS.CompDir := cs.find? (·.id == id)

end SST.Proofs.CompDir
