/-
Proofs for SST/Model/TableDirBytes.lean, part 3: the byte-level images against the abstract events of L6-fs
(`FS.flushEvs`, `FS.rmAll`), and the clean-up sequences.
-/
import SST.Proofs.TableDirBytesClass
namespace SST.Proofs.TblDir
open SST SST.TblDir Generated SST.Proofs SST.Proofs.Sst SST.FS

/-! ## one table directory on the abstract disk -/

theorem lookupT_insertT_self (g : Nat) (t : TableDir) :
    ∀ ts : List (Nat × TableDir), lookupT g ts = none → lookupT g (insertT g t ts) = some t := by
  intro ts
  induction ts with
  | nil => intro _; simp [insertT, lookupT]
  | cons p r ih =>
    intro h
    have hp : (p.1 == g) = false := by
      cases hb : p.1 == g with
      | false => rfl
      | true => simp [lookupT, List.find?, hb] at h
    have hne : g ≠ p.1 := by intro he; rw [he] at hp; simp at hp
    have hr : lookupT g r = none := by simpa [lookupT, List.find?, hp] using h
    unfold insertT
    by_cases hlt : g < p.1
    · rw [if_pos hlt]; simp [lookupT]
    · rw [if_neg hlt, if_neg hne]
      have := ih hr
      simpa [lookupT, List.find?, hp] using this

theorem lookupT_updT (g : Nat) (f : TableDir → TableDir) :
    ∀ ts : List (Nat × TableDir), lookupT g (updT g f ts) = (lookupT g ts).map f := by
  intro ts
  unfold lookupT updT
  rw [List.find?_map]
  have hcomp : ((fun x : Nat × TableDir => x.1 == g) ∘ fun p => if p.1 == g then (p.1, f p.2) else p) =
      fun x => x.1 == g := by
    funext p
    simp only [Function.comp]
    split <;> rfl
  rw [hcomp]
  cases hf : ts.find? (fun x => x.1 == g) with
  | none => rfl
  | some p =>
    have hp : (p.1 == g) = true := by
      have := List.find?_some hf
      exact this
    have hpe : p.1 = g := by simpa using hp
    simp [hpe]

theorem lookupT_eraseT_self (g : Nat) (ts : List (Nat × TableDir)) : lookupT g (eraseT g ts) = none := by
  unfold lookupT eraseT
  rw [Option.map_eq_none_iff, List.find?_eq_none]
  intro p hp
  have := (List.mem_filter.mp hp).2
  simpa using this

/-- the directory's abstract state after `k` of the writer's events -/
def evState (cells : DBM.Layer) : Nat → Option TableDir
  | 0 => none
  | 1 => some (.part false)
  | 2 => some (.complete [])
  | 3 => some (.part false)
  | 4 => some (.part false)
  | _ => some (.complete cells)

theorem tableEvs_state (g : Nat) (cells : DBM.Layer) (d : Disk) (hd : lookupT g d.tables = none) (k : Nat) :
    lookupT g (applyEvs d ((tableEvs g cells).take k)).tables = evState cells k := by
  have h1 := lookupT_insertT_self g (.part false) d.tables hd
  match k with
  | 0 => simpa [applyEvs, evState] using hd
  | 1 => simpa [applyEvs, tableEvs, applyEv, evState] using h1
  | 2 => simp [applyEvs, tableEvs, applyEv, evState, lookupT_updT, h1]
  | 3 => simp [applyEvs, tableEvs, applyEv, evState, lookupT_updT, h1]
  | 4 => simp [applyEvs, tableEvs, applyEv, evState, lookupT_updT, h1]
  | k + 5 => simp [applyEvs, tableEvs, applyEv, evState, lookupT_updT, h1]

/-- the directory's abstract state after `k` events of `FS.rmAll g (some junk)` -/
def rmState (cells junk : DBM.Layer) : Nat → Option TableDir
  | 0 => some (.complete cells)
  | 1 => some (.complete junk)
  | 2 => some (.part true)
  | 3 => some (.part false)
  | _ => none

theorem rmAll_state (g : Nat) (cells junk : DBM.Layer) (d : Disk) (hd : lookupT g d.tables = some (.complete cells))
    (k : Nat) : lookupT g (applyEvs d ((FS.rmAll g (some junk)).take k)).tables = rmState cells junk k := by
  match k with
  | 0 => simpa [applyEvs, rmState] using hd
  | 1 => simp [applyEvs, FS.rmAll, applyEv, rmState, lookupT_updT, hd]
  | 2 => simp [applyEvs, FS.rmAll, applyEv, rmState, lookupT_updT, hd, TableDir.unlink]
  | 3 => simp [applyEvs, FS.rmAll, applyEv, rmState, lookupT_updT, hd, TableDir.unlink]
  | k + 4 => simp [applyEvs, FS.rmAll, applyEv, rmState, lookupT_eraseT_self]

theorem evIdx_mono (len : Nat) {n n' : Nat} (h : n ≤ n') : evIdx len n ≤ evIdx len n' := by
  unfold evIdx
  repeat' split
  all_goals omega

/-! ## a writer run against `tableEvs` -/

theorem toLayer_vals (kvs : List KV) : Served.toLayer (kvs.map fun p => (p.1, Cell.val p.2)) = kvs := by
  unfold Served.toLayer
  rw [List.map_map]
  conv => rhs; rw [← List.map_id kvs]
  apply List.map_congr_left
  intro p _; rfl

theorem abstractOf_dir (P : Params) (img : DirImage) (c : ClassX) (hd : img.dir = true) (hc : classifyX P img = c) :
    abstractOf P img = some c.toTableDir := by
  unfold abstractOf classify; rw [if_pos hd, hc]

/-- the filter file the writer wrote reads back (the law of the external `bloomfilter.ReadFile`; as coded in the
library it never fails at all) -/
def BloomReads (P : Params) (ch : Chunking) : Prop := ∃ f, P.readBloom ch.bloom.flatten = some f

theorem readFilter_of (P : Params) (ch : Chunking) (hb : BloomReads P ch) :
    ∃ bf, readFilter P (some ch.bloom.flatten) = .ok bf := by
  obtain ⟨f, hf⟩ := hb
  exact ⟨some f, by simp [readFilter, hf]⟩

theorem writer_prefix (P : Params) (cfg : SstCfg) (ch : Chunking) (kvs : List KV) (h : Hyp P cfg kvs)
    (hb : BloomReads P ch) (n : Nat) :
    abstractOf P (applyCalls {} ((flushCalls cfg ch kvs).take n)) =
      evState kvs (evIdx (flushCalls cfg ch kvs).length n) := by
  obtain ⟨p1, p2, _, p4⟩ := prefix_image cfg ch kvs n
  have hlen := flushCalls_length cfg ch kvs
  obtain ⟨_, _, _, _, hdct, hict⟩ := h.comps
  by_cases h6 : n ≤ 6
  · rw [p1 h6]
    have hn : n = 0 ∨ n = 1 ∨ n = 2 ∨ n = 3 ∨ n = 4 ∨ n = 5 ∨ n = 6 := by omega
    rcases hn with rfl | rfl | rfl | rfl | rfl | rfl | rfl
    · rfl
    · rw [abstractOf_dir P _ (.part false) (by simp [openCalls, applyCall])
        (classifyX_nometa_missing P _ (by simp [openCalls, applyCall]) (.inl (by simp [openCalls, applyCall])))]
      rfl
    · rw [abstractOf_dir P _ (.part false) (by simp [openCalls, applyCall, DirImage.get, DirImage.set])
        (classifyX_nometa_missing P _ (by simp [openCalls, applyCall, DirImage.get, DirImage.set])
          (.inr (by simp [openCalls, applyCall, DirImage.get, DirImage.set])))]
      rfl
    · rw [abstractOf_dir P _ (.part false) (by simp [openCalls, applyCall, DirImage.get, DirImage.set])
        (classifyX_nometa_missing P _ (by simp [openCalls, applyCall, DirImage.get, DirImage.set])
          (.inr (by simp [openCalls, applyCall, DirImage.get, DirImage.set])))]
      rfl
    · rw [abstractOf_dir P _ (.part false) (by simp [openCalls, applyCall, DirImage.get, DirImage.set])
        (classifyX_data_empty P _ (by simp [openCalls, applyCall, DirImage.get, DirImage.set])
          (by simp [openCalls, applyCall, DirImage.get, DirImage.set]))]
      rfl
    · rw [abstractOf_dir P _ (.complete []) (by simp [openCalls, applyCall, DirImage.get, DirImage.set])
        (classifyX_headers P cfg hdct hict _ (by simp [openCalls, applyCall, DirImage.get, DirImage.set])
          (by simp [openCalls, applyCall, DirImage.get, DirImage.set])
          (by simp [openCalls, applyCall, DirImage.get, DirImage.set])
          (by simp [openCalls, applyCall, DirImage.get, DirImage.set]))]
      rfl
    · rw [abstractOf_dir P _ (.part false) (by simp [openCalls, applyCall, DirImage.get, DirImage.set])
        (classifyX_emptyMeta P _ (by simp [openCalls, applyCall, DirImage.get, DirImage.set]))]
      have : evIdx (flushCalls cfg ch kvs).length 6 = 3 := by
        unfold evIdx
        rw [if_neg (by omega), if_neg (by omega), if_neg (by omega), if_pos (by omega), if_pos rfl]
      rw [this]; rfl
  · by_cases hlt : n + 1 < (flushCalls cfg ch kvs).length
    · obtain ⟨hd, hm⟩ := p2 (by omega) hlt
      rw [abstractOf_dir P _ (.part false) hd (classifyX_emptyMeta P _ hm)]
      have : evIdx (flushCalls cfg ch kvs).length n = 4 := by
        unfold evIdx
        rw [if_neg (by omega), if_neg (by omega), if_neg (by omega), if_pos hlt, if_neg (by omega)]
      rw [this]; rfl
    · have hfin := p4 (by omega)
      obtain ⟨bf, hbf⟩ := readFilter_of P ch hb
      have hT := h.table
      have hcl := classifyX_full h (finalImg cfg ch kvs) bf (by simp [finalImg, preMetaImg, hT])
        (by simp [finalImg, preMetaImg, hT]) (by simp [finalImg, preMetaImg, hT]) (by simpa [finalImg, preMetaImg] using hbf)
      rw [hfin, abstractOf_dir P _ _ (by simp [finalImg, preMetaImg]) hcl]
      have : evIdx (flushCalls cfg ch kvs).length n = 5 := by
        unfold evIdx
        rw [if_neg (by omega), if_neg (by omega), if_neg (by omega), if_neg hlt]
      rw [this]
      simp [ClassX.toTableDir, toLayer_vals, evState]

/-! ## clean-up calls -/

def IsRm : FsCall → Prop
  | .unlink _ => True
  | .rmdir => True
  | _ => False

theorem removeAll_isRm (order : List File) : ∀ c ∈ removeAllCalls order, IsRm c := by
  intro c hc
  simp only [removeAllCalls, List.mem_append, List.mem_map, List.mem_singleton] at hc
  rcases hc with ⟨f, _, rfl⟩ | rfl <;> trivial

/-- gone, or without index.rio and without written metadata -/
def Dead (img : DirImage) : Prop := img.dir = false ∨ (img.index = none ∧ isUnfinishedTable img = true)

theorem dead_step (img : DirImage) (c : FsCall) (hc : IsRm c) (h : Dead img) : Dead (applyCall img c) := by
  cases c with
  | mkdir => exact absurd hc (by simp [IsRm])
  | create f t => exact absurd hc (by simp [IsRm])
  | write f bs => exact absurd hc (by simp [IsRm])
  | close f => exact absurd hc (by simp [IsRm])
  | rmdir =>
    simp only [applyCall]
    split
    · exact .inl rfl
    · exact h
  | unlink f =>
    simp only [applyCall]
    cases hd : img.dir with
    | false => simpa [hd] using h
    | true =>
      rcases h with h | ⟨h1, h2⟩
      · rw [hd] at h; cases h
      · refine .inr ?_
        simp only [if_true]
        cases f <;> simp_all [DirImage.set, isUnfinishedTable]

theorem dead_steps : ∀ (cs : List FsCall) (img : DirImage), (∀ c ∈ cs, IsRm c) → Dead img → Dead (applyCalls img cs) := by
  intro cs
  induction cs with
  | nil => intro img _ h; exact h
  | cons c cs ih =>
    intro img hc h
    exact ih _ (fun x hx => hc x (by simp [hx])) (dead_step img c (hc c (by simp)) h)

theorem dead_abstract (P : Params) (img : DirImage) (h : Dead img) :
    abstractOf P img = none ∨ abstractOf P img = some (.part false) := by
  unfold abstractOf
  cases hd : img.dir with
  | false => exact .inl (by simp)
  | true =>
    rcases h with h | ⟨h1, h2⟩
    · rw [hd] at h; cases h
    · refine .inr ?_
      simp only [if_true, classify, classifyX_noindex_unfinished P img h1 h2]
      rfl

theorem classify_partFalse_iff (P : Params) (img : DirImage) :
    classify P img = .part false ↔ classifyX P img = .part false := by
  unfold classify
  cases classifyX P img with
  | part m => cases m <;> simp [ClassX.toTableDir]
  | complete s => simp [ClassX.toTableDir]

/-- `removeUnfinishedTable` on ANY directory that recovery classifies as unfinished -/
theorem unfinished_removal (P : Params) (img : DirImage) (hd : img.dir = true) (hp : classify P img = .part false)
    (order : List File) (k : Nat) :
    abstractOf P (applyCalls img ((removeUnfinishedCalls order).take k)) = none ∨
    abstractOf P (applyCalls img ((removeUnfinishedCalls order).take k)) = some (.part false) := by
  match k with
  | 0 =>
    refine .inr ?_
    simp [abstractOf, hd, hp]
  | k + 1 =>
    have hu := unfinished_of_partFalse P img ((classify_partFalse_iff P img).mp hp)
    have h0 : Dead (applyCall img (.unlink .index)) := by
      refine .inr ?_
      simp only [applyCall, hd, if_true]
      simpa [DirImage.set, isUnfinishedTable] using hu
    simp only [removeUnfinishedCalls, List.take_succ_cons, applyCalls_cons]
    exact dead_abstract P _ (dead_steps _ _ (fun c hc => removeAll_isRm order c (List.mem_of_mem_take hc)) h0)

/-- unlinking the files in `order` removes every file named in it -/
theorem unlinks_get (order : List File) :
    ∀ (img : DirImage), img.dir = true →
      (applyCalls img (order.map .unlink)).dir = true ∧
      ∀ f, (applyCalls img (order.map .unlink)).get f = if f ∈ order then none else img.get f := by
  induction order with
  | nil => intro img hd; exact ⟨hd, fun f => by simp⟩
  | cons g r ih =>
    intro img hd
    have hstep : applyCall img (.unlink g) = img.set g none := by simp [applyCall, hd]
    obtain ⟨h1, h2⟩ := ih (img.set g none) (by simp [hd])
    rw [List.map_cons, applyCalls_cons, hstep]
    refine ⟨h1, fun f => ?_⟩
    rw [h2 f]
    by_cases hfr : f ∈ r
    · simp [hfr]
    · by_cases hfg : f = g
      · subst hfg; simp
      · rw [if_neg hfr, get_set_other _ _ _ _ hfg, if_neg (by simp [hfg, hfr])]

/-- a clean-up that names every remaining file removes the directory -/
theorem removeAll_gone (img : DirImage) (hd : img.dir = true) (order : List File)
    (hall : ∀ f, img.get f ≠ none → f ∈ order) : (applyCalls img (removeAllCalls order)).dir = false := by
  unfold removeAllCalls
  rw [applyCalls_append]
  obtain ⟨h1, h2⟩ := unlinks_get order img hd
  have hnone : ∀ f, (applyCalls img (order.map .unlink)).get f = none := by
    intro f
    rw [h2 f]
    by_cases hf : f ∈ order
    · rw [if_pos hf]
    · rw [if_neg hf]
      exact Classical.byContradiction fun hne => hf (hall f hne)
  have hi := hnone .index
  have hda := hnone .data
  have hm := hnone .metaf
  have hbl := hnone .bloom
  simp only [DirImage.get] at hi hda hm hbl
  simp [applyCall, h1, hi, hda, hm, hbl]

/-! ## removing the files of a complete table -/

/-- some of the files of the table of `kvs` -/
def SubOf (cfg : SstCfg) (kvs : List KV) (B : Bytes) (img : DirImage) : Prop :=
  (img.index = none ∨ img.index = some (tableOf cfg kvs).index) ∧
  (img.data = none ∨ img.data = some (tableOf cfg kvs).data) ∧
  (img.metaf = none ∨ img.metaf = some (tableOf cfg kvs).metaf) ∧
  (img.bloom = none ∨ img.bloom = some B)

theorem sub_step (cfg : SstCfg) (kvs : List KV) (B : Bytes) (img : DirImage) (c : FsCall) (hc : IsRm c)
    (h : SubOf cfg kvs B img) : SubOf cfg kvs B (applyCall img c) := by
  cases c with
  | mkdir => exact absurd hc (by simp [IsRm])
  | create f t => exact absurd hc (by simp [IsRm])
  | write f bs => exact absurd hc (by simp [IsRm])
  | close f => exact absurd hc (by simp [IsRm])
  | rmdir =>
    simp only [applyCall]
    split
    · exact ⟨.inl rfl, .inl rfl, .inl rfl, .inl rfl⟩
    · exact h
  | unlink f =>
    simp only [applyCall]
    split
    · obtain ⟨h1, h2, h3, h4⟩ := h
      cases f
      · exact ⟨.inl rfl, h2, h3, h4⟩
      · exact ⟨h1, .inl rfl, h3, h4⟩
      · exact ⟨h1, h2, .inl rfl, h4⟩
      · exact ⟨h1, h2, h3, .inl rfl⟩
    · exact h

theorem sub_steps (cfg : SstCfg) (kvs : List KV) (B : Bytes) :
    ∀ (cs : List FsCall) (img : DirImage), (∀ c ∈ cs, IsRm c) → SubOf cfg kvs B img →
      SubOf cfg kvs B (applyCalls img cs) := by
  intro cs
  induction cs with
  | nil => intro img _ h; exact h
  | cons c cs ih =>
    intro img hc h
    exact ih _ (fun x hx => hc x (by simp [hx])) (sub_step cfg kvs B img c (hc c (by simp)) h)

theorem rmIdx_le (img : DirImage) : rmIdx img ≤ 4 := by
  unfold rmIdx; repeat' split
  all_goals omega

theorem rmIdx_step (img : DirImage) (c : FsCall) (hc : IsRm c) : rmIdx img ≤ rmIdx (applyCall img c) := by
  cases c with
  | mkdir => exact absurd hc (by simp [IsRm])
  | create f t => exact absurd hc (by simp [IsRm])
  | write f bs => exact absurd hc (by simp [IsRm])
  | close f => exact absurd hc (by simp [IsRm])
  | rmdir =>
    simp only [applyCall]
    split
    · have := rmIdx_le img
      show rmIdx img ≤ 4
      exact this
    · exact Nat.le_refl _
  | unlink f =>
    simp only [applyCall]
    split
    · rename_i hd
      cases f <;> cases hi : img.index <;> cases hda : img.data <;> cases hm : img.metaf <;>
        simp [rmIdx, DirImage.set, hd, hi, hda, hm]
    · exact Nat.le_refl _

theorem rmIdx_steps : ∀ (cs : List FsCall) (img : DirImage), (∀ c ∈ cs, IsRm c) →
    rmIdx img ≤ rmIdx (applyCalls img cs) := by
  intro cs
  induction cs with
  | nil => intro img _; exact Nat.le_refl _
  | cons c cs ih =>
    intro img hc
    exact Nat.le_trans (rmIdx_step img c (hc c (by simp))) (ih _ (fun x hx => hc x (by simp [hx])))

/-- the classification of a directory holding some of the files of a complete table -/
theorem classify_sub {P : Params} {cfg : SstCfg} {kvs : List KV} (h : Hyp P cfg kvs) (B : Bytes)
    (hB : ∃ f, P.readBloom B = some f) (img : DirImage) (hs : SubOf cfg kvs B img) :
    abstractOf P img = rmState kvs (junkOf kvs).toLayer (rmIdx img) := by
  cases hd : img.dir with
  | false => simp [abstractOf, rmIdx, hd, rmState]
  | true =>
    obtain ⟨h1, h2, h3, h4⟩ := hs
    have hbf : ∃ bf, readFilter P img.bloom = .ok bf := by
      rcases h4 with h4 | h4
      · exact ⟨none, by rw [h4]; rfl⟩
      · obtain ⟨f, hf⟩ := hB
        exact ⟨some f, by rw [h4]; simp [readFilter, hf]⟩
    obtain ⟨bf, hbf⟩ := hbf
    rcases h3 with hm | hm
    · -- no metadata file
      rcases h1 with hi | hi
      · rw [abstractOf_dir P img _ hd (classifyX_nometa_missing P img hm (.inl hi))]
        simp [rmIdx, hd, hm, hi, rmState, ClassX.toTableDir]
      · rcases h2 with hda | hda
        · rw [abstractOf_dir P img _ hd (classifyX_nometa_missing P img hm (.inr hda))]
          simp [rmIdx, hd, hm, hi, hda, rmState, ClassX.toTableDir]
        · rw [abstractOf_dir P img _ hd (classifyX_legacy h img bf hi hda hm hbf)]
          simp [rmIdx, hd, hm, hi, hda, rmState, ClassX.toTableDir]
    · rcases h1 with hi | hi
      · rw [abstractOf_dir P img _ hd (classifyX_halfRemoved h img hm (.inl hi))]
        simp [rmIdx, hd, hm, hi, rmState, ClassX.toTableDir]
      · rcases h2 with hda | hda
        · rw [abstractOf_dir P img _ hd (classifyX_halfRemoved h img hm (.inr hda))]
          simp [rmIdx, hd, hm, hi, hda, rmState, ClassX.toTableDir]
        · rw [abstractOf_dir P img _ hd (classifyX_full h img bf hi hda hm hbf)]
          simp [rmIdx, hd, hm, hi, hda, rmState, ClassX.toTableDir, toLayer_vals]

theorem finalImg_sub {P : Params} {cfg : SstCfg} {kvs : List KV} (h : Hyp P cfg kvs) (ch : Chunking) :
    SubOf cfg kvs ch.bloom.flatten (finalImg cfg ch kvs) := by
  have hT := h.table
  exact ⟨.inr (by simp [finalImg, preMetaImg, hT]), .inr (by simp [finalImg, preMetaImg, hT]),
    .inr (by simp [finalImg, preMetaImg, hT]), .inr (by simp [finalImg, preMetaImg])⟩

theorem complete_removal {P : Params} {cfg : SstCfg} {kvs : List KV} (h : Hyp P cfg kvs) (ch : Chunking)
    (hb : BloomReads P ch) (order : List File) (k : Nat) :
    let img := applyCalls (finalImg cfg ch kvs) ((removeAllCalls order).take k)
    abstractOf P img = rmState kvs (junkOf kvs).toLayer (rmIdx img) :=
  classify_sub h _ hb _
    (sub_steps cfg kvs _ _ _ (fun c hc => removeAll_isRm order c (List.mem_of_mem_take hc)) (finalImg_sub h ch))

theorem complete_removal_mono (img0 : DirImage) (order : List File) {k k' : Nat} (hk : k ≤ k') :
    rmIdx (applyCalls img0 ((removeAllCalls order).take k)) ≤
      rmIdx (applyCalls img0 ((removeAllCalls order).take k')) := by
  have hsplit : (removeAllCalls order).take k' =
      (removeAllCalls order).take k ++ ((removeAllCalls order).drop k).take (k' - k) := by
    have : k' = k + (k' - k) := by omega
    conv => lhs; rw [this, List.take_add]
  rw [hsplit, applyCalls_append]
  exact rmIdx_steps _ _ (fun c hc => removeAll_isRm order c (List.mem_of_mem_drop (List.mem_of_mem_take hc)))

/-! ## corollaries about a writer run -/

/-- before the metadata write: the legacy-table window is exactly "5 calls done" -/
theorem writer_window (P : Params) (cfg : SstCfg) (ch : Chunking) (kvs : List KV) (h : Hyp P cfg kvs)
    (hb : BloomReads P ch) (n : Nat) (hn : n + 1 < (flushCalls cfg ch kvs).length) :
    abstractOf P (applyCalls {} ((flushCalls cfg ch kvs).take n)) =
      if n = 0 then none else if n = 5 then some (.complete []) else some (.part false) := by
  rw [writer_prefix P cfg ch kvs h hb n]
  unfold evIdx
  by_cases h0 : n = 0
  · subst h0; rfl
  · rw [if_neg h0, if_neg h0]
    by_cases h5 : n < 5
    · rw [if_pos h5, if_neg (by omega)]; rfl
    · rw [if_neg h5]
      by_cases h55 : n = 5
      · rw [if_pos h55, if_pos h55]; rfl
      · rw [if_neg h55, if_neg h55, if_pos hn]; split <;> rfl

/-- from the metadata write on: the complete table -/
theorem writer_final (P : Params) (cfg : SstCfg) (ch : Chunking) (kvs : List KV) (h : Hyp P cfg kvs)
    (hb : BloomReads P ch) (n : Nat) (hn : (flushCalls cfg ch kvs).length ≤ n + 1) :
    abstractOf P (applyCalls {} ((flushCalls cfg ch kvs).take n)) = some (.complete kvs) := by
  rw [writer_prefix P cfg ch kvs h hb n]
  have hlen := flushCalls_length cfg ch kvs
  unfold evIdx
  rw [if_neg (by omega), if_neg (by omega), if_neg (by omega), if_neg (by omega)]
  rfl

/-- what the complete directory serves, with the `Get` answers as they are: no failing `Get`, nil ≠ empty -/
theorem final_served (P : Params) (cfg : SstCfg) (ch : Chunking) (kvs : List KV) (h : Hyp P cfg kvs)
    (hb : BloomReads P ch) :
    classifyX P (applyCalls {} (flushCalls cfg ch kvs)) = .complete (kvs.map fun p => (p.1, .val p.2)) := by
  obtain ⟨_, _, _, p4⟩ := prefix_image cfg ch kvs (flushCalls cfg ch kvs).length
  rw [List.take_length] at p4
  rw [p4 (by omega)]
  obtain ⟨bf, hbf⟩ := readFilter_of P ch hb
  have hT := h.table
  exact classifyX_full h (finalImg cfg ch kvs) bf (by simp [finalImg, preMetaImg, hT])
    (by simp [finalImg, preMetaImg, hT]) (by simp [finalImg, preMetaImg, hT]) (by simpa [finalImg, preMetaImg] using hbf)

theorem final_image (cfg : SstCfg) (ch : Chunking) (kvs : List KV) :
    applyCalls {} (flushCalls cfg ch kvs) = finalImg cfg ch kvs := by
  obtain ⟨_, _, _, p4⟩ := prefix_image cfg ch kvs (flushCalls cfg ch kvs).length
  rw [List.take_length] at p4
  exact p4 (by omega)

theorem abstractOf_some (P : Params) (img : DirImage) (t : TableDir) (h : abstractOf P img = some t) :
    img.dir = true ∧ classify P img = t := by
  unfold abstractOf at h
  split at h
  · rename_i hd; exact ⟨hd, Option.some.inj h⟩
  · cases h

/-- `removeUnfinishedTable` on every image of a writer run that recovery discards -/
theorem unfinished_removal_reachable (P : Params) (cfg : SstCfg) (ch : Chunking) (kvs : List KV) (h : Hyp P cfg kvs)
    (hb : BloomReads P ch) (n : Nat) (hn : n + 1 < (flushCalls cfg ch kvs).length) (h0 : n ≠ 0) (h5 : n ≠ 5)
    (order : List File) (k : Nat) :
    let img := applyCalls (applyCalls {} ((flushCalls cfg ch kvs).take n)) ((removeUnfinishedCalls order).take k)
    abstractOf P img = none ∨ abstractOf P img = some (.part false) := by
  have hw := writer_window P cfg ch kvs h hb n hn
  rw [if_neg h0, if_neg h5] at hw
  obtain ⟨hd, hc⟩ := abstractOf_some P _ _ hw
  exact unfinished_removal P _ hd hc order k

/-- BEFORE commit d2bdde6 (plain `RemoveAll`): the image with complete index.rio / data.rio and the still empty
metadata file, the metadata file unlinked first — the directory now LOADS, as a legacy table -/
theorem prefix_removal_legacy (P : Params) (cfg : SstCfg) (ch : Chunking) (kvs : List KV) (h : Hyp P cfg kvs)
    (hb : BloomReads P ch) (order : List File) :
    abstractOf P (applyCalls (applyCalls {} ((flushCalls cfg ch kvs).take ((flushCalls cfg ch kvs).length - 2)))
      ((removeUnfinishedCallsPreFix (.metaf :: order)).take 1)) = some (.complete (junkOf kvs).toLayer) := by
  have hlen := flushCalls_length cfg ch kvs
  obtain ⟨_, _, p3, _⟩ := prefix_image cfg ch kvs ((flushCalls cfg ch kvs).length - 2)
  rw [p3 (by omega)]
  obtain ⟨bf, hbf⟩ := readFilter_of P ch hb
  have hT := h.table
  have hstep : applyCalls (preMetaImg cfg ch kvs) ((removeUnfinishedCallsPreFix (.metaf :: order)).take 1) =
      { preMetaImg cfg ch kvs with metaf := none } := by
    simp [removeUnfinishedCallsPreFix, removeAllCalls, applyCall, preMetaImg, DirImage.set]
  rw [hstep]
  rw [abstractOf_dir P _ _ (by simp [preMetaImg]) (classifyX_legacy h _ bf (by simp [preMetaImg, hT])
    (by simp [preMetaImg, hT]) rfl (by simpa [preMetaImg] using hbf))]
  rfl

/-- the reachable image the counterexample starts from is discarded as it is (metadata file empty) -/
theorem preMeta_discarded (P : Params) (cfg : SstCfg) (ch : Chunking) (kvs : List KV) :
    abstractOf P (preMetaImg cfg ch kvs) = some (.part false) := by
  rw [abstractOf_dir P _ _ (by simp [preMetaImg]) (classifyX_emptyMeta P _ (by simp [preMetaImg]))]
  rfl

end SST.Proofs.TblDir
