/-
Pointer-level skip list: `Insert` (the pointer surgery) preserves the representation relation and is
`SkipList.insert` on the abstract image.
-/
import SST.Proofs.SkipListPtrFind
namespace SST.SkipListPtr
open SST SST.Proofs

variable {K V : Type}

/-! ### The abstraction function on well-formed structures -/

theorem walk_of_seg {arena : List (PNode K V)} {l : Nat} :
    ∀ (T : List (Nat × SNode K V)) (fuel : Nat) (p : Option Nat), T.length ≤ fuel →
      (∀ e ∈ T, ∃ n : PNode K V, arena[e.1]? = some n ∧ e.2 = toS n) →
      Seg arena l p (T.map (·.1)) none → walk arena l fuel p = T := by
  intro T
  induction T with
  | nil =>
    intro fuel p _ _ hs
    have : p = none := hs
    subst this
    cases fuel <;> rfl
  | cons e T ih =>
    intro fuel p hf hn hs
    obtain ⟨hp, n, hget, r, hr, hs'⟩ := hs
    subst hp
    cases fuel with
    | zero => simp at hf
    | succ f =>
      obtain ⟨n', hget', he⟩ := hn e List.mem_cons_self
      have : n' = n := by rw [hget] at hget'; exact (Option.some.inj hget').symm
      subst this
      have hf' : T.length ≤ f := by simpa using hf
      simp only [walk, hget, hr, Option.join_some]
      rw [ih f r hf' (fun e' he' => hn e' (List.mem_cons_of_mem _ he')) hs', ← he]

theorem levelList_of_rep {cmp : K → K → Ordering} {pl : PList K V} {order : List (Nat × SNode K V)}
    (hrep : Rep cmp pl order) {l : Nat} (hl : l < pl.maxHeight) :
    levelList pl l = order.filter (lvl l) := by
  obtain ⟨p, hp, hs⟩ := hrep.chain l hl
  unfold levelList
  rw [hp, Option.join_some]
  apply walk_of_seg
  · rw [hrep.size]; exact List.length_filter_le _ _
  · intro e he; exact hrep.node e ((List.mem_filter.1 he).1)
  · exact hs

theorem filter_lvl0 {cmp : K → K → Ordering} {pl : PList K V} {order : List (Nat × SNode K V)}
    (hrep : Rep cmp pl order) : order.filter (lvl 0) = order := by
  rw [List.filter_eq_self]
  intro e he
  have := (hrep.hts e he).1
  simp [lvl]; omega

theorem abs_of_rep {cmp : K → K → Ordering} {pl : PList K V} {order : List (Nat × SNode K V)}
    (hrep : Rep cmp pl order) :
    abs pl = { nodes := order.map (·.2), maxHeight := pl.maxHeight } := by
  unfold abs
  rw [levelList_of_rep hrep (by have := hrep.mh; omega), filter_lvl0 hrep]

/-- on a well-formed structure the level-`l` chain holds exactly the abstract nodes of height > `l` -/
theorem levelList_abs {cmp : K → K → Ordering} {pl : PList K V} (hwf : WF cmp pl) {l : Nat}
    (hl : l < pl.maxHeight) :
    (levelList pl l).map (·.2) = (abs pl).nodes.filter fun n => l < n.height := by
  obtain ⟨order, hrep⟩ := hwf
  rw [levelList_of_rep hrep hl, abs_of_rep hrep]
  simp only [List.filter_map]
  rfl

/-! ### The link loop -/

theorem seg_append_arena {arena extra : List (PNode K V)} {l : Nat} {L : List Nat} {p q : Option Nat}
    (h : Seg arena l p L q) : Seg (arena ++ extra) l p L q :=
  seg_frame L p q (fun i _ n hn => ⟨n, by
    rw [List.getElem?_append_left (List.getElem?_eq_some_iff.1 hn).1]; exact hn, rfl⟩) h

/-- state of the structure after the levels `< i` have been linked -/
structure LinkInv (pl : PList K V) (order order' : List (Nat × SNode K V)) (i : Nat)
    (plc : PList K V) : Prop where
  mh : plc.maxHeight = pl.maxHeight
  size : plc.size = pl.size
  headLen : plc.head.length = pl.head.length
  node : ∀ e ∈ order', ∃ n : PNode K V, plc.arena[e.1]? = some n ∧ e.2 = toS n
  chain : ∀ l, l < pl.maxHeight → ∃ p, plc.head[l]? = some p ∧
    Seg plc.arena l p (if l < i then idxAt order' l else idxAt order l) none

theorem idxAt_nodup {cmp : K → K → Ordering} {pl : PList K V} {order : List (Nat × SNode K V)}
    (hrep : Rep cmp pl order) (l : Nat) : (idxAt order l).Nodup :=
  List.Nodup.sublist (List.Sublist.map _ List.filter_sublist) hrep.nodup

theorem idxAt_lt {cmp : K → K → Ordering} {pl : PList K V} {order : List (Nat × SNode K V)}
    (hrep : Rep cmp pl order) (l : Nat) : ∀ i ∈ idxAt order l, i < pl.arena.length := by
  intro i hi
  obtain ⟨e, he, rfl⟩ := List.mem_map.1 hi
  obtain ⟨n, hn, _⟩ := hrep.node e ((List.mem_filter.1 he).1)
  exact (List.getElem?_eq_some_iff.1 hn).1

theorem linkLoop_spec {cmp : K → K → Ordering} {pl : PList K V}
    {order o1 o2 : List (Nat × SNode K V)} {k : K} {v : V} {h : Nat}
    (hrep : Rep cmp pl order) (ho : order = o1 ++ o2) (hh : h ≤ pl.maxHeight)
    {pt : List (Option Ref)} (hpt : ∀ l, l < pl.maxHeight → pt[l]? = some (some (predRef o1 l))) :
    ∀ (n i : Nat) (plc : PList K V), i + n = h →
      LinkInv pl order (o1 ++ (pl.arena.length, ⟨k, v, h⟩) :: o2) i plc →
      ∃ pl2, linkLoop pt pl.arena.length n i plc = some pl2 ∧
        LinkInv pl order (o1 ++ (pl.arena.length, ⟨k, v, h⟩) :: o2) h pl2 := by
  intro n
  induction n with
  | zero =>
    intro i plc hi hinv
    have : i = h := by omega
    subst this
    exact ⟨plc, rfl, hinv⟩
  | succ n ih =>
    intro i plc hi hinv
    have hih : i < h := by omega
    have hil : i < pl.maxHeight := by omega
    -- the level-`i` chain is still the old one
    obtain ⟨p, hp, hs⟩ := hinv.chain i hil
    rw [if_neg (Nat.lt_irrefl i), ho, idxAt_append] at hs
    have hnd : (idxAt o1 i ++ idxAt o2 i).Nodup := by
      rw [← idxAt_append, ← ho]; exact idxAt_nodup hrep i
    have hfresh : pl.arena.length ∉ idxAt o1 i ++ idxAt o2 i := by
      rw [← idxAt_append, ← ho]
      intro hm
      exact Nat.lt_irrefl _ (idxAt_lt hrep i _ hm)
    obtain ⟨nx, hnx, hnxs⟩ := hinv.node (pl.arena.length, ⟨k, v, h⟩) (by simp)
    have hnxl : i < nx.next.length := by
      have : (toS nx).height = h := by rw [← hnxs]
      simp only [toS] at this
      omega
    obtain ⟨pl', hlink, hupd, p', hp', hs'⟩ :=
      linkLevel_spec hp hs hnd hfresh hnx hnxl (hpt i hil)
    simp only [linkLoop, hlink]
    apply ih (i + 1) pl' (by omega)
    refine ⟨hupd.mh.trans hinv.mh, hupd.size.trans hinv.size, hupd.headLen.trans hinv.headLen, ?_, ?_⟩
    · intro e he
      obtain ⟨n0, hn0, hs0⟩ := hinv.node e he
      obtain ⟨n', hn', hk, hv, hlen, _⟩ := hupd.node e.1 n0 hn0
      refine ⟨n', hn', ?_⟩
      rw [hs0]; simp only [toS, hk, hv, hlen]
    · intro l hl
      by_cases hli : l = i
      · subst hli
        refine ⟨p', hp', ?_⟩
        rw [if_pos (Nat.lt_succ_self l), idxAt_append]
        have : idxAt ((pl.arena.length, (⟨k, v, h⟩ : SNode K V)) :: o2) l
            = pl.arena.length :: idxAt o2 l := by
          simp [idxAt, lvl, hih]
        rw [this]; exact hs'
      · obtain ⟨q, hq, hsq⟩ := hinv.chain l hl
        refine ⟨q, (hupd.head l hli).trans hq, ?_⟩
        have hcond : (l < i + 1) = (l < i) := by
          apply propext; constructor <;> intro <;> omega
        simp only [hcond]
        exact hupd.seg hli hsq

/-! ### `Insert` -/

/-- `Insert` on a well-formed structure, with `order = o1 ++ o2` split at the new key: a panic exactly
when the first entry of `o2` compares equal; otherwise the new node (allocated at the end of the
arena) is spliced between `o1` and `o2` on each of its `h` levels and the result is well-formed. -/
theorem insert_rep {cmp : K → K → Ordering} {pl : PList K V}
    {order o1 o2 : List (Nat × SNode K V)} {k : K} (v : V) {h : Nat}
    (hrep : Rep cmp pl order) (ho : order = o1 ++ o2)
    (hlo : ∀ e ∈ o1, cmp k e.2.key = .gt) (hge : ∀ e ∈ o2, cmp k e.2.key ≠ .gt)
    (h1 : 1 ≤ h) (hh : h ≤ pl.maxHeight) :
    (∀ e t, o2 = e :: t → cmp k e.2.key = .eq → insert cmp pl k v h = none) ∧
    ((∀ e t, o2 = e :: t → cmp k e.2.key ≠ .eq) →
      Sorted cmp ((o1 ++ (pl.arena.length, ⟨k, v, h⟩) :: o2).map (·.2)) →
      ∃ pl', insert cmp pl k v h = some pl' ∧ pl'.maxHeight = pl.maxHeight ∧
        Rep cmp pl' (o1 ++ (pl.arena.length, ⟨k, v, h⟩) :: o2)) := by
  obtain ⟨pt', hfind, hrel⟩ := findGE_spec hrep ho hlo hge
    (some (List.replicate pl.maxHeight none)) (by intro t ht; cases ht; simp)
  obtain ⟨t', rfl, hlen, hslots, _⟩ := hrel.2 _ rfl
  have hnotgt : ¬ h > pl.maxHeight := by omega
  constructor
  · intro e t ho2 heq
    obtain ⟨n, hn, hs⟩ := hrep.node e (by rw [ho, ho2]; simp)
    have hkey : n.key = e.2.key := by rw [hs]; rfl
    simp [insert, hfind, ho2, hn, hkey, heq]
  · intro hnodup hsorted
    -- the structure with the freshly allocated node
    let pl1 : PList K V :=
      { pl with arena := pl.arena ++ [⟨k, v, List.replicate h none⟩], maxHeight := pl.maxHeight }
    have hinv0 : LinkInv pl order (o1 ++ (pl.arena.length, ⟨k, v, h⟩) :: o2) 0 pl1 := by
      refine ⟨rfl, rfl, rfl, ?_, ?_⟩
      · intro e he
        rcases List.mem_append.1 he with he | he
        · obtain ⟨n, hn, hs⟩ := hrep.node e (by rw [ho]; exact List.mem_append_left _ he)
          refine ⟨n, ?_, hs⟩
          show (pl.arena ++ _)[e.1]? = some n
          rw [List.getElem?_append_left (List.getElem?_eq_some_iff.1 hn).1]; exact hn
        · rcases List.mem_cons.1 he with rfl | he
          · refine ⟨⟨k, v, List.replicate h none⟩, ?_, by simp [toS]⟩
            show (pl.arena ++ _)[pl.arena.length]? = _
            simp
          · obtain ⟨n, hn, hs⟩ := hrep.node e (by rw [ho]; exact List.mem_append_right _ he)
            refine ⟨n, ?_, hs⟩
            show (pl.arena ++ _)[e.1]? = some n
            rw [List.getElem?_append_left (List.getElem?_eq_some_iff.1 hn).1]; exact hn
      · intro l hl
        obtain ⟨p, hp, hs⟩ := hrep.chain l hl
        exact ⟨p, hp, by rw [if_neg (Nat.not_lt_zero l)]; exact seg_append_arena hs⟩
    obtain ⟨pl2, hloop, hinv⟩ := linkLoop_spec (k := k) (v := v) hrep ho hh
      (fun l hl => hslots l hl) h 0 pl1 (by omega) hinv0
    refine ⟨{ pl2 with size := pl2.size + 1 }, ?_, hinv.mh, ?_⟩
    · simp only [insert, hfind, hnotgt, if_false]
      simp only [pl1] at hloop
      simp only [hloop]
      cases ho2 : o2 with
      | nil => rfl
      | cons e t =>
        obtain ⟨n, hn, hs⟩ := hrep.node e (by rw [ho, ho2]; simp)
        have hkey : n.key = e.2.key := by rw [hs]; rfl
        have hne := hnodup e t ho2
        have hb : (cmp k e.2.key == Ordering.eq) = false := by simpa using hne
        simp [hn, hkey, hb]
    · have hnew : ∀ l, idxAt (o1 ++ (pl.arena.length, (⟨k, v, h⟩ : SNode K V)) :: o2) l
          = if l < h then idxAt o1 l ++ pl.arena.length :: idxAt o2 l else idxAt order l := by
        intro l
        by_cases hl : l < h
        · simp [idxAt, lvl, hl, List.filter_append]
        · simp [idxAt, lvl, hl, List.filter_append, ho]
      refine ⟨?_, hinv.node, ?_, ?_, ?_, ?_, ?_, hsorted⟩
      · -- addresses stay distinct: the new one is fresh
        have hnd := hrep.nodup
        rw [ho, List.map_append, List.nodup_append] at hnd
        have hfresh : ∀ e ∈ order, e.1 ≠ pl.arena.length := by
          intro e he
          obtain ⟨n, hn, _⟩ := hrep.node e he
          exact Nat.ne_of_lt (List.getElem?_eq_some_iff.1 hn).1
        rw [List.map_append, List.map_cons, List.nodup_append, List.nodup_cons]
        refine ⟨hnd.1, ⟨?_, hnd.2.1⟩, ?_⟩
        · intro hm
          obtain ⟨e, he, hee⟩ := List.mem_map.1 hm
          exact hfresh e (by rw [ho]; exact List.mem_append_right _ he) hee
        · intro a ha b hb
          rcases List.mem_cons.1 hb with rfl | hb
          · obtain ⟨e, he, hee⟩ := List.mem_map.1 ha
            rw [← hee]
            exact hfresh e (by rw [ho]; exact List.mem_append_left _ he)
          · exact hnd.2.2 a ha b hb
      · show pl2.head.length = pl2.maxHeight
        rw [hinv.headLen, hinv.mh]; exact hrep.headLen
      · show 1 ≤ pl2.maxHeight
        rw [hinv.mh]; exact hrep.mh
      · intro e he
        show 1 ≤ e.2.height ∧ e.2.height ≤ pl2.maxHeight
        rw [hinv.mh]
        rcases List.mem_append.1 he with he | he
        · exact hrep.hts e (by rw [ho]; exact List.mem_append_left _ he)
        · rcases List.mem_cons.1 he with rfl | he
          · exact ⟨h1, hh⟩
          · exact hrep.hts e (by rw [ho]; exact List.mem_append_right _ he)
      · intro l hl
        have hl' : l < pl.maxHeight := by rw [← hinv.mh]; exact hl
        obtain ⟨p, hp, hs⟩ := hinv.chain l hl'
        refine ⟨p, hp, ?_⟩
        show Seg pl2.arena l p _ none
        by_cases hlh : l < h
        · rw [if_pos hlh] at hs; exact hs
        · rw [if_neg hlh] at hs
          rw [hnew l, if_neg hlh]; exact hs
      · show pl2.size + 1 = _
        rw [hinv.size, hrep.size, ho]; simp; omega

end SST.SkipListPtr
