/-
Helper lemmas and proofs for L1 (recordio).  The property theorems in SST/Props/C04.lean are thin
wrappers around the statements proved here.
-/
import SST.Spec.RecordIO
import SST.Proofs.Varint
namespace SST.Proofs
open SST Generated

theorem uvarintEnc_magic : uvarintEnc magicNumber = magicBytes := by
  rw [magicNumber, uvarintEnc_ge 0x130691 (by decide), uvarintEnc_ge (0x130691 / 128) (by decide),
    uvarintEnc_lt (0x130691 / 128 / 128) (by decide)]
  decide

theorem uvarintEnc_len_le (k : Nat) : ∀ n, n < 2 ^ (7 * (k + 1)) → (uvarintEnc n).length ≤ k + 1 := by
  induction k with
  | zero =>
    intro n hn
    rw [uvarintEnc_lt n (by simpa using hn)]; simp
  | succ k ih =>
    intro n hn
    by_cases h : n < 128
    · rw [uvarintEnc_lt n h]; simp
    · rw [uvarintEnc_ge n h]
      have : n / 128 < 2 ^ (7 * (k + 1)) := by
        apply Nat.div_lt_of_lt_mul
        have : 2 ^ (7 * (k + 1 + 1)) = 128 * 2 ^ (7 * (k + 1)) := by
          rw [show 7 * (k + 1 + 1) = 7 + 7 * (k + 1) by omega, Nat.pow_add]
        omega
      have := ih _ this
      simp; omega

theorem uvarintEnc_len64 (n : Nat) (h : n < 2 ^ 64) : (uvarintEnc n).length ≤ 10 :=
  uvarintEnc_len_le 9 n (by have : (2:Nat) ^ 64 ≤ 2 ^ (7 * (9 + 1)) := by decide
                            omega)

theorem uvarintEnc_len32 (n : Nat) (h : n < 2 ^ 32) : (uvarintEnc n).length ≤ 5 :=
  uvarintEnc_len_le 4 n (by have : (2:Nat) ^ 32 ≤ 2 ^ (7 * (4 + 1)) := by decide
                            omega)

theorem uvarintEnc_len_pos (n : Nat) : 0 < (uvarintEnc n).length :=
  List.length_pos_iff.mpr (uvarintEnc_ne_nil n)

theorem headerBody_length (nf : Bool) (u c : Nat) :
    (headerBody nf u c).length = 4 + (uvarintEnc u).length + (uvarintEnc c).length := by
  simp [headerBody, magicBytes]; omega

theorem encHeader_length (nf : Bool) (u c : Nat) :
    (encHeader nf u c).length = 4 + (uvarintEnc u).length + (uvarintEnc c).length
      + (uvarintEnc (crc32c (headerBody nf u c)).toNat).length := by
  simp [encHeader, headerBody_length]

theorem encHeader_length_le (nf : Bool) (u c : Nat) (hu : u < 2 ^ 64) (hc : c < 2 ^ 64) :
    (encHeader nf u c).length ≤ recordHeaderMax := by
  have h1 := uvarintEnc_len64 u hu
  have h2 := uvarintEnc_len64 c hc
  have h3 := uvarintEnc_len32 (crc32c (headerBody nf u c)).toNat (UInt32.toNat_lt _)
  rw [encHeader_length, recordHeaderMax]; omega

theorem encHeader_pos (nf : Bool) (u c : Nat) : 0 < (encHeader nf u c).length := by
  rw [encHeader_length]; omega

theorem canonDec_eq (w : Win) (bs : Bytes) :
    canonDec w bs = match w.map (uvarintDec bs) with
      | .error e => .error e
      | .ok (v, n) => if n > 1 ∧ bs.getD (n - 1) 0 = 0 then .error .nonCanonical else .ok (v, n) := by
  unfold canonDec
  cases h : w.map (uvarintDec bs) with
  | error e => rfl
  | ok p =>
    obtain ⟨v, n⟩ := p
    simp only [bind, Except.bind]
    split <;> rfl

theorem uvarintEnc_last_ne_zero (n : Nat) : 1 ≤ n →
    (uvarintEnc n).getD ((uvarintEnc n).length - 1) 0 ≠ 0 := by
  induction n using Nat.strongRecOn with
  | _ n ih =>
    intro h1
    by_cases h : n < 128
    · rw [uvarintEnc_lt n h]
      simp only [List.length_singleton, Nat.sub_self, List.getD_cons_zero]
      intro h0
      have := congrArg UInt8.toNat h0
      rw [toNat_ofNat_lt n (by omega)] at this
      simp at this; omega
    · rw [uvarintEnc_ge n h]
      have ih' := ih (n / 128) (Nat.div_lt_self (by omega) (by omega)) (by omega)
      have hp := List.length_pos_iff.mpr (uvarintEnc_ne_nil (n / 128))
      obtain ⟨k, hk⟩ : ∃ k, (uvarintEnc (n / 128)).length = k + 1 := ⟨_, (Nat.sub_add_cancel hp).symm⟩
      rw [hk] at ih'
      simp only [List.length_cons, hk, Nat.add_sub_cancel, List.getD_cons_succ] at ih' ⊢
      exact ih'

theorem canonDec_enc (w : Win) (n : Nat) (rest : Bytes) (hn : n < 2 ^ 64) :
    canonDec w (uvarintEnc n ++ rest) = .ok (n, (uvarintEnc n).length) := by
  rw [canonDec_eq, uvarintDec_enc n rest hn]
  simp only [Win.map]
  rw [if_neg]
  rintro ⟨hlen, h0⟩
  have hn1 : 1 ≤ n := by
    rcases Nat.lt_or_ge n 1 with h | h
    · rw [uvarintEnc_lt n (by omega)] at hlen; simp at hlen
    · exact h
  rw [List.getD_eq_getElem?_getD, List.getElem?_append_left (by omega),
    ← List.getD_eq_getElem?_getD] at h0
  exact uvarintEnc_last_ne_zero n hn1 h0

theorem readHeader_eq (w : Win) : readHeader w =
    match canonDec w w.bytes with
    | .error e => .error e
    | .ok (m, c1) =>
      if m ≠ magicNumber then .error .magic else
      match w.bytes.drop c1 with
      | [] => .error w.end0
      | nb :: rest =>
        match canonDec w rest with
        | .error e => .error e
        | .ok (u, c2) =>
          match canonDec w (rest.drop c2) with
          | .error e => .error e
          | .ok (cl, c3) =>
            match canonDec w ((rest.drop c2).drop c3) with
            | .error e => .error e
            | .ok (ex, c4) =>
              if (crc32c (w.bytes.take (c1 + 1 + c2 + c3))).toNat ≠ ex then .error .headerCrc
              else .ok { ulen := u, clen := cl, isNil := nb == 1, hlen := c1 + 1 + c2 + c3 + c4 } := by
  unfold readHeader
  cases canonDec w w.bytes with
  | error e => rfl
  | ok p1 =>
    obtain ⟨m, c1⟩ := p1
    simp only [bind, Except.bind]
    by_cases hm : m ≠ magicNumber
    · rw [if_pos hm, if_pos hm]; rfl
    · rw [if_neg hm, if_neg hm]
      cases w.bytes.drop c1 with
      | nil => rfl
      | cons nb rest =>
        simp only []
        cases canonDec w rest with
        | error e => rfl
        | ok p2 =>
          obtain ⟨u, c2⟩ := p2
          simp only []
          cases canonDec w (rest.drop c2) with
          | error e => rfl
          | ok p3 =>
            obtain ⟨cl, c3⟩ := p3
            simp only []
            cases canonDec w ((rest.drop c2).drop c3) with
            | error e => rfl
            | ok p4 =>
              obtain ⟨ex, c4⟩ := p4
              simp only []
              split <;> rfl

theorem readHeader_enc (w : Win) (nf : Bool) (u c : Nat) (t : Bytes) (hu : u < 2 ^ 64) (hc : c < 2 ^ 64)
    (hw : w.bytes = encHeader nf u c ++ t) :
    readHeader w = .ok { ulen := u, clen := c, isNil := nf, hlen := (encHeader nf u c).length } := by
  have hcrc : (crc32c (headerBody nf u c)).toNat < 2 ^ 64 := by
    have := UInt32.toNat_lt (crc32c (headerBody nf u c)); omega
  have hm : magicNumber < 2 ^ 64 := by decide
  have hw' : w.bytes = uvarintEnc magicNumber ++ ((if nf then 1 else 0) :: (uvarintEnc u ++ (uvarintEnc c ++
      (uvarintEnc (crc32c (headerBody nf u c)).toNat ++ t)))) := by
    rw [hw, encHeader, headerBody, uvarintEnc_magic]; simp
  have hlen : (uvarintEnc magicNumber).length = 3 := by rw [uvarintEnc_magic]; rfl
  have htake : w.bytes.take (3 + 1 + (uvarintEnc u).length + (uvarintEnc c).length) = headerBody nf u c := by
    rw [hw, encHeader, List.append_assoc, List.take_left']
    rw [headerBody_length]
  rw [readHeader_eq]
  rw [hw'] at htake ⊢
  have hd : ∀ (l : Bytes), (uvarintEnc magicNumber ++ l).drop 3 = l := by
    intro l; rw [← hlen, List.drop_left]
  simp only [canonDec_enc w _ _ hm, hlen, ne_eq, not_true_eq_false, if_false, hd]
  simp only [canonDec_enc w _ _ hu, List.drop_left, canonDec_enc w _ _ hc, canonDec_enc w _ _ hcrc, htake,
    not_true_eq_false, if_false]
  rw [encHeader_length]
  cases nf <;> simp <;> omega

theorem fileWin_bytes (h x : Bytes) (hh : h.length ≤ recordHeaderMax) :
    ∃ t, (fileWin (h ++ x)).bytes = h ++ t := by
  unfold fileWin
  split
  · exact ⟨x.take (recordHeaderMax - h.length), by simp [List.take_append, List.take_of_length_le hh]⟩
  · exact ⟨x, rfl⟩

theorem mmapWin_bytes (h x : Bytes) (hh : h.length ≤ recordHeaderMax) :
    ∃ t, (mmapWin (h ++ x)).bytes = h ++ t :=
  ⟨x.take (recordHeaderMax - h.length), by simp [mmapWin, List.take_append, List.take_of_length_le hh]⟩

theorem readHeader_fileWin (nf : Bool) (u c : Nat) (x : Bytes) (hu : u < 2 ^ 64) (hc : c < 2 ^ 64) :
    readHeader (fileWin (encHeader nf u c ++ x)) =
      .ok { ulen := u, clen := c, isNil := nf, hlen := (encHeader nf u c).length } := by
  obtain ⟨t, ht⟩ := fileWin_bytes (encHeader nf u c) x (encHeader_length_le nf u c hu hc)
  exact readHeader_enc _ nf u c t hu hc ht

theorem readHeader_mmapWin (nf : Bool) (u c : Nat) (x : Bytes) (hu : u < 2 ^ 64) (hc : c < 2 ^ 64) :
    readHeader (mmapWin (encHeader nf u c ++ x)) =
      .ok { ulen := u, clen := c, isNil := nf, hlen := (encHeader nf u c).length } := by
  obtain ⟨t, ht⟩ := mmapWin_bytes (encHeader nf u c) x (encHeader_length_le nf u c hu hc)
  exact readHeader_enc _ nf u c t hu hc ht

/-- decoding the stored payload gives the record back -/
theorem decodePayload_stored (c : Compression) (r : Bytes) (hl : LawfulC c) :
    decodePayload c (stored c r) = .ok r := by
  cases c with
  | none => rfl
  | some cc => simp [decodePayload, stored, hl r]

theorem expectedLen_enc (c : Compression) (nf : Bool) (r : Bytes) (hl : Nat) :
    expectedLen c { ulen := r.length, clen := clenOf c r, isNil := nf, hlen := hl } = (stored c r).length := by
  cases c <;> rfl

theorem encRecord_pos (c : Compression) (r : GoBytes) : 0 < (encRecord c r).length := by
  cases r with
  | none => exact encHeader_pos _ _ _
  | some r => simp only [encRecord, List.length_append]; have := encHeader_pos false r.length (clenOf c r); omega

theorem readNextS_enc (c : Compression) (r : GoBytes) (rest : Bytes)
    (hl : LawfulC c) (hf : FitsRec c r) :
    readNextS c (encRecord c r ++ rest) = .ok (r, (encRecord c r).length) := by
  cases r with
  | none =>
    simp only [encRecord, readNextS, readHeader_fileWin true 0 _ rest (by decide) hf]
    simp
  | some r =>
    obtain ⟨h1, h2⟩ := hf
    simp only [encRecord, readNextS, List.append_assoc, readHeader_fileWin false r.length _ _ h1 h2,
      expectedLen_enc, List.drop_left]
    by_cases h0 : (stored c r).length = 0
    · have : stored c r = [] := List.eq_nil_of_length_eq_zero h0
      have hd := decodePayload_stored c r hl
      rw [this] at hd
      simp [hd, this, Except.map]
    · have hd := decodePayload_stored c r hl
      simp [h0, hd, Except.map]

theorem skipNextS_enc (c : Compression) (r : GoBytes) (rest : Bytes) (hf : FitsRec c r) :
    skipNextS c (encRecord c r ++ rest) = .ok (encRecord c r).length := by
  cases r with
  | none =>
    simp only [encRecord, skipNextS, readHeader_fileWin true 0 _ rest (by decide) hf]
    simp
  | some r =>
    obtain ⟨h1, h2⟩ := hf
    simp only [encRecord, skipNextS, List.append_assoc, readHeader_fileWin false r.length _ _ h1 h2,
      expectedLen_enc]
    simp

theorem skip_eq_read_discard (c : Compression) (r : GoBytes) (rest : Bytes)
    (hl : LawfulC c) (hf : FitsRec c r) :
    skipNextS c (encRecord c r ++ rest) = .ok (encRecord c r).length ∧
    readNextS c (encRecord c r ++ rest) = .ok (r, (encRecord c r).length) :=
  ⟨skipNextS_enc c r rest hf, readNextS_enc c r rest hl hf⟩


theorem uvarintDec_zero (l : Bytes) : uvarintDec (0 :: l) = .ok (0, 1) := by
  simp [uvarintDec, uvarintDecAux]

theorem readHeader_zero (w : Win) (l : Bytes) (hw : w.bytes = 0 :: l) : readHeader w = .error .magic := by
  rw [readHeader_eq, hw, canonDec_eq, uvarintDec_zero]
  simp [Win.map, magicNumber]

theorem fileWin_zero (n : Nat) : ∃ l, (fileWin (List.replicate (n + 1) 0)).bytes = 0 :: l := by
  unfold fileWin
  split
  · exact ⟨List.replicate (min 35 n) 0, by simp [recordHeaderMax, List.replicate_succ, List.take_replicate]⟩
  · exact ⟨_, rfl⟩

theorem zero_tail_is_eof (c : Compression) (n : Nat) :
    readNextS c (List.replicate n 0) = .error .eof := by
  cases n with
  | zero =>
    simp [readNextS, fileWin, recordHeaderMax, readHeader_eq, canonDec_eq, uvarintDec, uvarintDecAux, Win.map]
  | succ n =>
    obtain ⟨l, hl⟩ := fileWin_zero n
    unfold readNextS
    rw [readHeader_zero _ l hl, hl, uvarintDec_zero]
    simp


@[simp] theorem encAll_nil (c : Compression) : encAll c [] = [] := rfl

@[simp] theorem encAll_cons (c : Compression) (r : GoBytes) (rs : List GoBytes) :
    encAll c (r :: rs) = encRecord c r ++ encAll c rs := rfl

theorem encAll_append (c : Compression) (xs ys : List GoBytes) :
    encAll c (xs ++ ys) = encAll c xs ++ encAll c ys := by
  simp [encAll]

theorem fileHeader_length (v ct : Nat) : (fileHeader v ct).length = 8 := rfl

theorem length_le_encAll (c : Compression) (rs : List GoBytes) : rs.length ≤ (encAll c rs).length := by
  induction rs with
  | nil => simp
  | cons r rs ih =>
    have := encRecord_pos c r
    simp only [encAll_cons, List.length_cons, List.length_append]; omega

theorem readAllS_enc (c : Compression) (hl : LawfulC c) (rs : List GoBytes) :
    ∀ fuel, (∀ r ∈ rs, FitsRec c r) → rs.length < fuel → readAllS c fuel (encAll c rs) = (rs, .eof) := by
  induction rs with
  | nil =>
    intro fuel _ hfu
    cases fuel with
    | zero => omega
    | succ f =>
      have := zero_tail_is_eof c 0
      simp only [List.replicate_zero] at this
      simp [readAllS, this]
  | cons r rs ih =>
    intro fuel hf hfu
    cases fuel with
    | zero => omega
    | succ f =>
      have h1 := readNextS_enc c r (encAll c rs) hl (hf r (by simp))
      have h2 := ih f (fun x hx => hf x (by simp [hx])) (by simpa using hfu)
      simp [readAllS, h1, h2]

theorem seq_roundtrip (c : Compression) (ct : Nat) (rs : List GoBytes)
    (hl : LawfulC c) (hf : ∀ r ∈ rs, FitsRec c r) :
    readAll c (fileHeader currentVersion ct ++ encAll c rs) = (rs, .eof) := by
  have hd : (fileHeader currentVersion ct ++ encAll c rs).drop fileHeaderSize = encAll c rs :=
    List.drop_left' (fileHeader_length _ _)
  unfold readAll
  rw [hd]
  apply readAllS_enc c hl rs _ hf
  have := length_le_encAll c rs
  simp only [List.length_append, fileHeader_length]; omega


theorem readAt_enc (c : Compression) (pre : Bytes) (r : GoBytes) (rest : Bytes)
    (hl : LawfulC c) (hf : FitsRec c r) :
    readAt c (pre ++ (encRecord c r ++ rest)) pre.length = .ok r := by
  have hpos := encRecord_pos c r
  have h1 : ¬ pre.length > (pre ++ (encRecord c r ++ rest)).length := by simp
  have h2 : ¬ pre.length = (pre ++ (encRecord c r ++ rest)).length := by
    simp only [List.length_append]; omega
  unfold readAt
  simp only [h1, h2, if_false, List.drop_left]
  cases r with
  | none =>
    simp only [encRecord, readHeader_mmapWin true 0 _ rest (by decide) hf]
    simp
  | some r =>
    obtain ⟨hf1, hf2⟩ := hf
    have hd := decodePayload_stored c r hl
    simp only [encRecord, List.append_assoc, readHeader_mmapWin false r.length _ _ hf1 hf2,
      expectedLen_enc, List.drop_left]
    simp [hd, Except.map]
    rw [if_neg (by omega), if_neg (by omega)]

theorem readAt_offset (c : Compression) (ct : Nat) (rs : List GoBytes) (k : Nat) (hk : k < rs.length)
    (hl : LawfulC c) (hf : ∀ r ∈ rs, FitsRec c r) :
    readAt c (fileHeader currentVersion ct ++ encAll c rs) (offsetOf c rs k) = .ok rs[k] := by
  have hsplit : rs = rs.take k ++ rs[k] :: rs.drop (k + 1) := by simp
  have hfile : fileHeader currentVersion ct ++ encAll c rs =
      (fileHeader currentVersion ct ++ encAll c (rs.take k)) ++
        (encRecord c rs[k] ++ encAll c (rs.drop (k + 1))) := by
    have := congrArg (encAll c) hsplit
    rw [encAll_append, encAll_cons] at this
    rw [this, List.append_assoc]
  have hoff : offsetOf c rs k = (fileHeader currentVersion ct ++ encAll c (rs.take k)).length := by
    simp [offsetOf, fileHeader_length, fileHeaderSize]
  rw [hfile, hoff]
  exact readAt_enc c _ _ _ hl (hf _ (by simp))


theorem runWriter_write_snd (c : Compression) (w : WState) (r : GoBytes) (ops : List WOp) :
    (runWriter c w (.write r :: ops)).2 = w.cur :: (runWriter c (w.write c r).1 ops).2 := rfl

theorem runWriter_write_fst (c : Compression) (w : WState) (r : GoBytes) (ops : List WOp) :
    (runWriter c w (.write r :: ops)).1 = (runWriter c (w.write c r).1 ops).1 := rfl

theorem write_cur (c : Compression) (w : WState) (r : GoBytes) :
    (w.write c r).1.cur = w.cur + (encRecord c r).length := rfl

theorem runWriter_writes (c : Compression) (rs : List GoBytes) :
    ∀ (pre : List GoBytes) (w : WState), w.cur = fileHeaderSize + (encAll c pre).length →
      (runWriter c w (rs.map WOp.write)).2 =
        (List.range rs.length).map (fun i => offsetOf c (pre ++ rs) (pre.length + i)) := by
  induction rs with
  | nil => intro pre w _; simp [runWriter]
  | cons r rs ih =>
    intro pre w hw
    have h' : (w.write c r).1.cur = fileHeaderSize + (encAll c (pre ++ [r])).length := by
      rw [write_cur, hw, encAll_append]; simp; omega
    have := ih (pre ++ [r]) _ h'
    rw [List.map_cons, runWriter_write_snd, this, List.length_cons, List.range_succ_eq_map,
      List.map_cons, List.map_map]
    congr 1
    · simp [offsetOf, hw]
    · apply List.map_congr_left
      intro i _
      simp only [Function.comp, List.append_assoc, List.singleton_append, List.length_append,
        List.length_singleton]
      congr 1; omega

theorem write_offsets (c : Compression) (ct : Nat) (rs : List GoBytes) :
    (runWriter c (WState.init ct) (rs.map WOp.write)).2 = (List.range rs.length).map (offsetOf c rs) := by
  have := runWriter_writes c rs [] (WState.init ct) (by simp [WState.init])
  simpa using this


/-- writer invariant: the first `cur` bytes of the file are the header and the surviving records -/
structure WInv (c : Compression) (ct : Nat) (rs : List GoBytes) (w : WState) : Prop where
  cur : w.cur = fileHeaderSize + (encAll c rs).length
  pre : w.file.take w.cur = fileHeader currentVersion ct ++ encAll c rs
  le : w.cur ≤ w.file.length
  big : w.file.length ≤ max w.largest w.cur

theorem WInv_init (c : Compression) (ct : Nat) : WInv c ct [] (WState.init ct) := by
  constructor
  · simp [WState.init]
  · exact List.take_of_length_le (by simp [WState.init, fileHeader_length, fileHeaderSize])
  · simp [WState.init, fileHeader_length, fileHeaderSize]
  · simp [WState.init, fileHeader_length, fileHeaderSize]

theorem WInv_write (c : Compression) (ct : Nat) (rs : List GoBytes) (w : WState) (r : GoBytes)
    (h : WInv c ct rs w) : WInv c ct (rs ++ [r]) (w.write c r).1 := by
  obtain ⟨h1, h2, h3, h4⟩ := h
  have hlt : (w.file.take w.cur).length = w.cur := by simp [List.length_take]; omega
  have hflen : (overwrite w.file w.cur (encRecord c r)).length =
      max w.file.length (w.cur + (encRecord c r).length) := by
    simp only [overwrite, List.length_append, hlt, List.length_drop]; omega
  constructor
  · rw [write_cur, h1, encAll_append]; simp; omega
  · show (overwrite w.file w.cur (encRecord c r)).take (w.cur + (encRecord c r).length) = _
    rw [overwrite, List.take_left' (by rw [List.length_append, hlt]), h2, encAll_append]
    simp
  · show w.cur + (encRecord c r).length ≤ (overwrite w.file w.cur (encRecord c r)).length
    rw [hflen]; omega
  · show (overwrite w.file w.cur (encRecord c r)).length ≤
      max (if r.isNone then w.largest else max w.largest (w.cur + (encRecord c r).length))
        (w.cur + (encRecord c r).length)
    rw [hflen]; split <;> omega

theorem encAll_take_le (c : Compression) (rs : List GoBytes) (k : Nat) :
    (encAll c (rs.take k)).length ≤ (encAll c rs).length := by
  have := congrArg (fun l => (encAll c l).length) (List.take_append_drop k rs)
  simp only [encAll_append, List.length_append] at this
  omega

theorem WInv_seek (c : Compression) (ct : Nat) (rs : List GoBytes) (w : WState) (k : Nat)
    (h : WInv c ct rs w) :
    ∃ w', w.seek (offsetOf c rs k) = .ok w' ∧ WInv c ct (rs.take k) w' := by
  obtain ⟨h1, h2, h3, h4⟩ := h
  have hle := encAll_take_le c rs k
  have ha : ¬ offsetOf c rs k < fileHeaderSize := by simp [offsetOf]
  have hb : ¬ offsetOf c rs k > w.cur := by simp only [offsetOf, h1]; omega
  refine ⟨{ w with largest := max w.largest w.cur, cur := offsetOf c rs k }, by simp [WState.seek, ha, hb], ?_⟩
  constructor
  · rfl
  · show w.file.take (offsetOf c rs k) = _
    have hmin : offsetOf c rs k = min (offsetOf c rs k) w.cur := by omega
    have hsp : encAll c rs = encAll c (rs.take k) ++ encAll c (rs.drop k) := by
      rw [← encAll_append, List.take_append_drop]
    rw [hmin, ← List.take_take, h2, hsp, ← List.append_assoc]
    apply List.take_left'
    simp [offsetOf, fileHeader_length, fileHeaderSize]
  · show offsetOf c rs k ≤ w.file.length
    omega
  · show w.file.length ≤ max (max w.largest w.cur) (offsetOf c rs k)
    omega

theorem WInv_run (c : Compression) (ct : Nat) (ops : List AOp) :
    ∀ (rs : List GoBytes) (w : WState), WInv c ct rs w → CutsOk rs ops →
      WInv c ct (survivors rs ops) (runWriter c w (concretize c rs ops)).1 := by
  induction ops with
  | nil => intro rs w h _; exact h
  | cons op ops ih =>
    intro rs w h hc
    cases op with
    | write r =>
      simp only [concretize, survivors, runWriter_write_fst]
      exact ih _ _ (WInv_write c ct rs w r h) hc
    | cut k =>
      obtain ⟨w', hs, hi⟩ := WInv_seek c ct rs w k h
      simp only [concretize, survivors, runWriter, hs]
      exact ih _ _ hi hc.2

theorem WInv_close (c : Compression) (ct : Nat) (rs : List GoBytes) (w : WState) (h : WInv c ct rs w) :
    w.close = fileHeader currentVersion ct ++ encAll c rs ∧ w.cur = w.close.length := by
  obtain ⟨h1, h2, h3, h4⟩ := h
  have hc : w.close = w.file.take w.cur := by
    unfold WState.close
    split
    · rfl
    · rw [List.take_of_length_le]; omega
  rw [hc, h2]
  refine ⟨rfl, ?_⟩
  rw [← h2, List.length_take]; omega

theorem close_exact (c : Compression) (ct : Nat) (ops : List AOp) (hc : CutsOk [] ops) :
    let w := (runWriter c (WState.init ct) (concretize c [] ops)).1
    w.close = fileHeader currentVersion ct ++ encAll c (survivors [] ops) ∧ w.cur = w.close.length :=
  WInv_close c ct _ _ (WInv_run c ct ops [] _ (WInv_init c ct) hc)

end SST.Proofs
