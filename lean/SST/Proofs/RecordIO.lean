/-
Helper lemmas and proofs for L1 (recordio).  The property theorems in SST/Props/C04.lean are thin
wrappers around the statements proved here.
-/
import SST.Spec.RecordIO
import SST.Proofs.Varint
namespace SST.Proofs
open SST Generated

theorem close_exact (c : Compression) (ct : Nat) (ops : List AOp) (hc : CutsOk [] ops) :
    let w := (runWriter c (WState.init ct) (concretize c [] ops)).1
    w.close = fileHeader currentVersion ct ++ encAll c (survivors [] ops) ∧ w.cur = w.close.length := by
  sorry

theorem write_offsets (c : Compression) (ct : Nat) (rs : List GoBytes) :
    (runWriter c (WState.init ct) (rs.map WOp.write)).2 = (List.range rs.length).map (offsetOf c rs) := by
  sorry

theorem seq_roundtrip (c : Compression) (ct : Nat) (rs : List GoBytes)
    (hl : LawfulC c) (hf : ∀ r ∈ rs, FitsRec c r) :
    readAll c (fileHeader currentVersion ct ++ encAll c rs) = (rs, .eof) := by
  sorry

theorem readAt_offset (c : Compression) (ct : Nat) (rs : List GoBytes) (k : Nat) (hk : k < rs.length)
    (hl : LawfulC c) (hf : ∀ r ∈ rs, FitsRec c r) :
    readAt c (fileHeader currentVersion ct ++ encAll c rs) (offsetOf c rs k) = .ok rs[k] := by
  sorry

theorem skip_eq_read_discard (c : Compression) (r : GoBytes) (rest : Bytes)
    (hl : LawfulC c) (hf : FitsRec c r) :
    skipNextS c (encRecord c r ++ rest) = .ok (encRecord c r).length ∧
    readNextS c (encRecord c r ++ rest) = .ok (r, (encRecord c r).length) := by
  sorry

theorem zero_tail_is_eof (c : Compression) (n : Nat) :
    readNextS c (List.replicate n 0) = .error .eof := by
  sorry

end SST.Proofs
