/-
L6, compaction for an arbitrary per-table selection (`DBM.compactStepSel`, SST/Spec/DBSel.lean): the shape of a
cycle, reads preserved in EVERY state, what the merged table holds, and the selection quirk of all-zero
(version-0, metadata file missing) table metadata in `Stack.candidateMd`.
-/
import SST.Spec.DBSel
import SST.Proofs.DB
import SST.Model.Stack
import SST.Model.TableDirBytes
namespace SST.Proofs.DB
open SST SST.DBM

/-! ## `compactStep` is the instance `raw := rawOf s sizes` -/

theorem compactStep_eq_sel (s : State) (sizes : List Nat) :
    compactStep s sizes = compactStepSel s (rawOf s sizes) := rfl

/-! ## the shape of one cycle -/

/-- the full description of one cycle for an arbitrary `raw`: nothing happens (and nothing is reported as
selected), or the tables whose flood-filled flag is set are exactly a gap-free run `t0 :: sel'` — more tables
than the threshold — which is replaced by its merge under the number of `t0`; the reported numbers are those of
the run -/
theorem compactStepSel_full (s : State) (raw : List Bool) :
    compactStepSel s raw = (s, []) ∨
    ∃ pre t0 sel' post, s.tables = pre ++ (t0 :: sel') ++ post ∧
      (∀ i, i < s.tables.length →
        ((floodFill raw).getD i false = true ↔ pre.length ≤ i ∧ i < pre.length + (sel'.length + 1))) ∧
      s.opts.threshold < ((sel'.length + 1 : Nat) : Int) ∧
      compactStepSel s raw = ({ s with tables :=
        pre ++ [{ gen := t0.gen, cells := mergeRun (t0 :: sel') (pre.length == 0) }] ++ post },
        (t0 :: sel').map (·.gen)) := by
  unfold compactStepSel
  extract_lets flags idx sel
  have hcont : Contiguous flags := floodFill_contiguous _
  have hflags : flags = floodFill raw := rfl
  have hidx : idx = (List.range s.tables.length).filter (fun i => flags.getD i false) := rfl
  have hsel : sel = idx.filterMap (fun i => s.tables[i]?) := rfl
  clear_value sel idx flags
  by_cases hth : (idx.length : Int) ≤ s.opts.threshold
  · left; rw [if_pos hth]
  · simp only [if_neg hth]
    cases idx with
    | nil => left; rfl
    | cons first rest =>
      have hpw : (first :: rest).Pairwise (· < ·) := by
        rw [hidx]; exact List.Pairwise.sublist List.filter_sublist List.pairwise_lt_range
      have hmem : ∀ x, x ∈ first :: rest ↔ x < s.tables.length ∧ flags.getD x false = true := by
        intro x; rw [hidx, List.mem_filter, List.mem_range]
      have hr := eq_range'_of_closed rest first hpw (by
        intro x y z hx hz hxy hyz
        rw [hmem] at hx hz ⊢
        exact ⟨by omega, hcont x y z hxy hyz hx.2 hz.2⟩)
      have hlast : first + rest.length < s.tables.length := by
        have : first + rest.length ∈ first :: rest := by rw [hr, List.mem_range'_1]; omega
        exact ((hmem _).1 this).1
      obtain ⟨pre, mid, post, htab, hpl, hml⟩ := split_interval s.tables first (rest.length + 1) (by omega)
      subst hpl
      have hsel' : sel = mid := by
        rw [hsel, hr, htab, ← hml]; exact filterMap_getElem?_mid pre mid post
      subst hsel'
      cases sel with
      | nil => simp at hml
      | cons t0 sel' =>
        right
        have hrl : rest.length = sel'.length := by simpa using hml.symm
        refine ⟨pre, t0, sel', post, htab, ?_, ?_, ?_⟩
        · intro i hi
          have := hmem i
          rw [hr, List.mem_range'_1, hrl, hflags] at this
          constructor
          · intro hf
            have := this.2 ⟨hi, hf⟩
            omega
          · intro hb
            exact (this.1 (by omega)).2
        · have : ((pre.length :: rest).length : Int) = ((sel'.length + 1 : Nat) : Int) := by
            rw [List.length_cons, hrl]
          rw [← this]
          omega
        · rw [hrl] at hr
          exact congrArg (fun T => (({ s with tables := T } : State), (t0 :: sel').map (·.gen)))
            (reflect_interval' pre t0 sel' post _ s.tables (pre.length :: rest) htab hr)

/-- `compactStep_spec` for an arbitrary selection -/
theorem compactStepSel_spec (s : State) (raw : List Bool) :
    (compactStepSel s raw).1 = s ∨
    ∃ pre t0 sel' post, s.tables = pre ++ (t0 :: sel') ++ post ∧
      (compactStepSel s raw).1 = { s with tables :=
        pre ++ [{ gen := t0.gen, cells := mergeRun (t0 :: sel') (pre.length == 0) }] ++ post } := by
  rcases compactStepSel_full s raw with (h | ⟨pre, t0, sel', post, htab, _, _, h⟩)
  · left; rw [h]
  · right; exact ⟨pre, t0, sel', post, htab, by rw [h]⟩

/-- a table that is a raw candidate is flood-filled -/
theorem raw_le_floodFill (raw : List Bool) (i : Nat) (h : raw.getD i false = true) :
    (floodFill raw).getD i false = true := by
  rw [floodFill_getD]; exact Or.inl h

/-- one cycle with an arbitrary selection only replaces the table list, by one that reads the same everywhere and
whose table numbers are a sub-sequence of the old ones -/
theorem compactStepSel_tables (s : State) (raw : List Bool) :
    ∃ T, (compactStepSel s raw).1 = { s with tables := T } ∧
      (∀ k, vis (tablesGet T k) = vis (tablesGet s.tables k)) ∧
      (GensOk s → GensOk { s with tables := T }) := by
  rcases compactStepSel_spec s raw with (h | ⟨pre, t0, sel', post, htab, h⟩)
  · exact ⟨s.tables, by rw [h], fun _ => rfl, fun hg => hg⟩
  · refine ⟨_, h, ?_, ?_⟩
    · intro k
      rw [htab]
      exact vis_tablesGet_merge pre (t0 :: sel') post t0.gen (pre.length == 0)
        (by intro hd; exact List.eq_nil_of_length_eq_zero (by simpa using hd)) k
    · rintro ⟨hp, hm⟩
      rw [htab] at hp hm
      constructor
      · refine List.Pairwise.sublist ?_ hp
        simp
      · intro t ht
        simp only [List.mem_append, List.mem_cons, List.not_mem_nil, or_false] at ht
        rcases ht with ((ht | ht) | ht)
        · exact hm t (by simp [ht])
        · subst ht; exact hm t0 (by simp)
        · exact hm t (by simp [ht])

/-! ## reads -/

theorem get_congr (s s' : State) (k : Key) (hm : memGet s' k = memGet s k)
    (hv : vis (tablesGet s'.tables k) = vis (tablesGet s.tables k)) (ho : s'.isOpen = s.isOpen)
    (hc : s'.closed = s.closed) : get s' k = get s k := by
  rw [get_eq, get_eq, hm, hv, ho, hc]

theorem abs_congr (s s' : State) (k : Key) (hm : memGet s' k = memGet s k)
    (hv : vis (tablesGet s'.tables k) = vis (tablesGet s.tables k)) : abs s' k = abs s k := by
  unfold abs
  rw [hm, hv]

/-- in EVERY state (reachable or not), for every selection and every key: a cycle changes neither the result of
`Get` nor the abstract map -/
theorem compactSel_preserves_reads (s : State) (raw : List Bool) (k : Key) :
    get (compactStepSel s raw).1 k = get s k ∧ abs (compactStepSel s raw).1 k = abs s k := by
  obtain ⟨T, e, hv, _⟩ := compactStepSel_tables s raw
  rw [e]
  exact ⟨get_congr s _ k rfl (hv k) rfl rfl, abs_congr s _ k rfl (hv k)⟩

/-- the invariant of reachable states survives a cycle with an arbitrary selection, and so do the flags -/
theorem compactSel_inv (s : State) (h : Inv s) (raw : List Bool) :
    Inv (compactStepSel s raw).1 ∧ (compactStepSel s raw).1.isOpen = s.isOpen ∧
      (compactStepSel s raw).1.closed = s.closed ∧ (compactStepSel s raw).1.w = s.w ∧
      (compactStepSel s raw).1.r = s.r ∧ (compactStepSel s raw).1.gen = s.gen ∧
      (compactStepSel s raw).1.opts = s.opts := by
  obtain ⟨T, e, hv, hg⟩ := compactStepSel_tables s raw
  rw [e]
  refine ⟨?_, rfl, rfl, rfl, rfl, rfl, rfl⟩
  exact {
    wOk := h.wOk
    rOk := h.rOk
    cov := by
      intro hp k v hk
      show vis (tablesGet T k) = _
      rw [hv k]
      exact h.cov hp k v hk
    idle := h.idle
    gens := hg h.gens }

/-! ## what the merged table holds -/

theorem tablesGet_none_of_forall (ts : List Tbl) (k : Key) (h : ∀ u ∈ ts, Layer.get u.cells k = none) :
    tablesGet ts k = none := by
  induction ts with
  | nil => rfl
  | cons t ts ih =>
    rw [tablesGet_cons, ih (fun u hu => h u (List.mem_cons_of_mem _ hu)), h t (by simp)]
    rfl

/-- the newest binding of a key inside a run: the table `t` binds it and no newer table of the run does -/
theorem tablesGet_newest (older : List Tbl) (t : Tbl) (newer : List Tbl) (k : Key) (v : GoBytes)
    (ht : Layer.get t.cells k = some v) (hn : ∀ u ∈ newer, Layer.get u.cells k = none) :
    tablesGet (older ++ t :: newer) k = some v := by
  rw [tablesGet_append, tablesGet_cons, tablesGet_none_of_forall newer k hn, ht]
  rfl

/-- for a table `t` of the merged run and a key bound in `t` and in no newer table of the run, the merged table
binds the key to `t`'s value: as it is when it is a non-empty value; a tombstone or an empty value is dropped
(`drop = true`: the run starts at the oldest table) or carried as an EMPTY value (`drop = false`) -/
theorem mergeRun_newest (older : List Tbl) (t : Tbl) (newer : List Tbl) (drop : Bool) (k : Key) (v : GoBytes)
    (ht : Layer.get t.cells k = some v) (hn : ∀ u ∈ newer, Layer.get u.cells k = none) :
    Layer.get (mergeRun (older ++ t :: newer) drop) k = mergeVal drop (some v) := by
  rw [mergeRun_get, tablesGet_newest older t newer k v ht hn]

theorem mergeVal_value (drop : Bool) (v : Bytes) (hv : v ≠ []) :
    mergeVal drop (some (some v)) = some (some v) := by
  cases v with
  | nil => exact absurd rfl hv
  | cons _ _ => rfl

/-- … in particular a non-empty value always reaches the merged table, whatever `drop` is -/
theorem mergeRun_newest_value (older : List Tbl) (t : Tbl) (newer : List Tbl) (drop : Bool) (k : Key) (v : Bytes)
    (hv : v ≠ []) (ht : Layer.get t.cells k = some (some v))
    (hn : ∀ u ∈ newer, Layer.get u.cells k = none) :
    Layer.get (mergeRun (older ++ t :: newer) drop) k = some (some v) := by
  rw [mergeRun_newest older t newer drop k (some v) ht hn, mergeVal_value drop v hv]

/-- when a cycle does something, the table that takes the place of the selected run `t0 :: sel'` holds, for every
key, the newest binding inside the run (`mergeVal` says what becomes of tombstones and empty values); and for any
table `t` of the run and a key bound in `t` and in no newer table of the run that is `t`'s value -/
theorem compactSel_records_reach_merged (s : State) (raw : List Bool) :
    compactStepSel s raw = (s, []) ∨
    ∃ pre t0 sel' post merged, s.tables = pre ++ (t0 :: sel') ++ post ∧
      (compactStepSel s raw).1 = { s with tables := pre ++ [merged] ++ post } ∧
      (compactStepSel s raw).2 = (t0 :: sel').map (·.gen) ∧
      merged.gen = t0.gen ∧
      (∀ k, Layer.get merged.cells k = mergeVal (pre.length == 0) (tablesGet (t0 :: sel') k)) ∧
      (∀ older t newer, t0 :: sel' = older ++ t :: newer → ∀ k v, Layer.get t.cells k = some v →
        (∀ u ∈ newer, Layer.get u.cells k = none) →
        Layer.get merged.cells k = mergeVal (pre.length == 0) (some v)) ∧
      (∀ older t newer, t0 :: sel' = older ++ t :: newer → ∀ k v, v ≠ [] →
        Layer.get t.cells k = some (some v) → (∀ u ∈ newer, Layer.get u.cells k = none) →
        Layer.get merged.cells k = some (some v)) := by
  rcases compactStepSel_full s raw with (h | ⟨pre, t0, sel', post, htab, _, _, h⟩)
  · left; exact h
  · right
    refine ⟨pre, t0, sel', post, { gen := t0.gen, cells := mergeRun (t0 :: sel') (pre.length == 0) }, htab,
      by rw [h], by rw [h], rfl, ?_, ?_, ?_⟩
    · intro k; exact mergeRun_get _ _ k
    · intro older t newer e k v ht hn
      show Layer.get (mergeRun (t0 :: sel') (pre.length == 0)) k = _
      rw [e]; exact mergeRun_newest older t newer _ k v ht hn
    · intro older t newer e k v hv ht hn
      show Layer.get (mergeRun (t0 :: sel') (pre.length == 0)) k = _
      rw [e]; exact mergeRun_newest_value older t newer _ k v hv ht hn

/-- the legacy table is the OLDEST selected table and the oldest table of the database (`pre = []`, tombstones
dropped): a non-empty value of a key that no newer selected table rebinds is in the merged table -/
theorem mergeRun_oldest_value (t0 : Tbl) (sel' : List Tbl) (k : Key) (v : Bytes) (hv : v ≠ [])
    (ht : Layer.get t0.cells k = some (some v)) (hn : ∀ u ∈ sel', Layer.get u.cells k = none) :
    Layer.get (mergeRun (t0 :: sel') true) k = some (some v) :=
  mergeRun_newest_value [] t0 sel' true k v hv ht hn

/-- … a tombstone or empty value of the oldest table that no newer selected table rebinds is dropped -/
theorem mergeRun_oldest_tombstone (t0 : Tbl) (sel' : List Tbl) (k : Key) (v : GoBytes)
    (hv : v = none ∨ v = some []) (ht : Layer.get t0.cells k = some v)
    (hn : ∀ u ∈ sel', Layer.get u.cells k = none) :
    Layer.get (mergeRun (t0 :: sel') true) k = none := by
  have h := mergeRun_newest [] t0 sel' true k v ht hn
  rw [List.nil_append] at h
  rw [h]
  rcases hv with (rfl | rfl) <;> rfl

/-- the same when table 0 of the database is flagged in `raw` (e.g. the legacy table, selected by its all-zero
metadata): if the cycle does anything, table 0 is the first of the merged run, its number is kept and every
non-empty value of it that the rest of the run does not rebind is bound in the table that replaces the run -/
theorem compactSel_oldest_flagged (s : State) (raw : List Bool) (h0 : raw.getD 0 false = true) :
    compactStepSel s raw = (s, []) ∨
    ∃ t0 sel' post merged, s.tables = (t0 :: sel') ++ post ∧
      (compactStepSel s raw).1 = { s with tables := merged :: post } ∧
      (compactStepSel s raw).2 = (t0 :: sel').map (·.gen) ∧
      merged.gen = t0.gen ∧
      (∀ k, Layer.get merged.cells k = mergeVal true (tablesGet (t0 :: sel') k)) ∧
      (∀ k v, v ≠ [] → Layer.get t0.cells k = some (some v) → (∀ u ∈ sel', Layer.get u.cells k = none) →
        Layer.get merged.cells k = some (some v)) := by
  rcases compactStepSel_full s raw with (h | ⟨pre, t0, sel', post, htab, hfl, _, h⟩)
  · left; exact h
  · right
    have hpre : pre = [] := by
      have hlen : 0 < s.tables.length := by rw [htab]; simp; omega
      have := (hfl 0 hlen).1 (raw_le_floodFill raw 0 h0)
      exact List.eq_nil_of_length_eq_zero (by omega)
    subst hpre
    refine ⟨t0, sel', post, { gen := t0.gen, cells := mergeRun (t0 :: sel') true }, by simpa using htab,
      by rw [h]; rfl, by rw [h], rfl, ?_, ?_⟩
    · intro k; exact mergeRun_get _ _ k
    · intro k v hv ht hn
      exact mergeRun_oldest_value t0 sel' k v hv ht hn

/-! ## the metadata quirk: all-zero (version-0, no metadata file) metadata in `Stack.candidateMd` -/

/-- a table whose metadata report 0 records and 0 bytes is a candidate exactly through the size limit -/
theorem v0_selected_by_size_never_by_ratio (o : DBM.Opts) (md : Meta) (h0 : md.totalBytes = 0)
    (hn : md.numRecords = 0) : Stack.candidateMd o md = decide (0 < o.maxSize) := by
  unfold Stack.candidateMd
  rw [h0, hn]
  simp

/-- the ratio disjunct is `false` for every ratio when the metadata report 0 records -/
theorem v0_never_ratio_candidate (o : DBM.Opts) (md : Meta) (hn : md.numRecords = 0) :
    (decide (md.numRecords > 0) && decide (md.nullValues * o.ratioDen ≥ o.ratioNum * md.numRecords)) = false := by
  rw [hn]
  simp

theorem v0_size_candidate_iff (o : DBM.Opts) (md : Meta) (h0 : md.totalBytes = 0) (hn : md.numRecords = 0) :
    Stack.candidateMd o md = true ↔ 0 < o.maxSize := by
  rw [v0_selected_by_size_never_by_ratio o md h0 hn, decide_eq_true_iff]

theorem v0_default_meta (o : DBM.Opts) : Stack.candidateMd o ({} : Meta) = decide (0 < o.maxSize) :=
  v0_selected_by_size_never_by_ratio o {} rfl rfl

theorem readMeta_none : TblDir.readMeta none = .ok {} := rfl

/-- version-0 metadata file present: it has counts but no sizes -/
theorem v0_meta_with_counts (o : DBM.Opts) (md : Meta) (h0 : md.totalBytes = 0) (hz : md.nullValues = 0)
    (hn : md.numRecords > 0) :
    Stack.candidateMd o md = (decide (0 < o.maxSize) || decide (o.ratioNum = 0)) := by
  unfold Stack.candidateMd
  rw [h0, hz]
  have h1 : decide (md.numRecords > 0) = true := decide_eq_true hn
  have h2 : decide (0 * o.ratioDen ≥ o.ratioNum * md.numRecords) = decide (o.ratioNum = 0) := by
    apply decide_eq_decide.2
    rw [Nat.zero_mul]
    constructor
    · intro h
      have h3 : o.ratioNum * md.numRecords = 0 := Nat.le_zero.1 h
      rcases Nat.mul_eq_zero.1 h3 with (h4 | h4)
      · exact h4
      · omega
    · intro h; rw [h, Nat.zero_mul]; exact Nat.le_refl 0
  rw [h1, h2, Bool.true_and]

/-- selection on all-zero metadata is what the layer model computes for an EMPTY table of size 0 -/
theorem candidate_zero_meta_matches_layer_model (o : DBM.Opts) (g : Nat) :
    Stack.candidateMd o {} = DBM.candidate o { gen := g, cells := [] } 0 := by
  rw [v0_default_meta]
  unfold DBM.candidate
  simp [numRecords]

end SST.Proofs.DB
