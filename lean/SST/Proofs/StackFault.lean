/-
L7 with I/O faults (C11, system half): lemmas.  A fault attached to a `WriteNext` call makes the byte-level
writer answer something else than `ok` (C15 `call_results`), a consumed read fault makes `MergeCompact` fail
(C11 merger half), a `Close` error stops before the table is loaded; a successful generalised step hit no
fault and is the fault-free step.
-/
import SST.Model.StackFault
import SST.Proofs.StackSim
import SST.Props.C11
namespace SST.Proofs.Stack
open SST SST.Stack SST.DBM Generated

/-! ## attaching faults -/

theorem attachFaults_nil (cs : List Call) : attachFaults cs [] = cs := by
  cases cs <;> rfl

theorem attachFaults_hit : ∀ (cs : List Call) (fs : List Fault) (i : Nat), i < cs.length →
    fs.getD i .none ≠ .none → ∃ c ∈ attachFaults cs fs, c.fault ≠ .none
  | [], _, _, h, _ => by simp at h
  | c :: cs, [], i, _, hf => by simp at hf
  | c :: cs, f :: fs, 0, _, hf => ⟨{ c with fault := f }, by simp [attachFaults], by simpa using hf⟩
  | c :: cs, f :: fs, i + 1, h, hf => by
    obtain ⟨c', hc, hne⟩ := attachFaults_hit cs fs i (by simpa using h) (by simpa using hf)
    exact ⟨c', by simp [attachFaults, hc], hne⟩

theorem attachFaults_id : ∀ (cs : List Call) (fs : List Fault),
    (∀ c ∈ attachFaults cs fs, c.fault = .none) → (∀ c ∈ cs, c.fault = .none) → attachFaults cs fs = cs
  | [], _, _, _ => rfl
  | c :: cs, [], _, _ => rfl
  | c :: cs, f :: fs, h, hc => by
    simp only [attachFaults, List.mem_cons, forall_eq_or_imp] at h hc ⊢
    have hf : f = .none := h.1
    have hcf := hc.1
    rw [attachFaults_id cs fs h.2 hc.2]
    congr 1
    cases c
    simp only at hcf
    simp [hf, hcf]

/-! ## a faulty call is never answered `ok` -/

theorem specRes_fault (cmp : Bytes → Bytes → Ordering) (acc : List KV) (c : Call) (hf : c.fault ≠ .none) :
    specRes cmp acc c ≠ .ok := by
  unfold specRes
  cases acc.getLast? with
  | none => simp [hf]
  | some l =>
    simp only
    generalize cmp l.1 c.key = o
    cases o <;> simp [hf]

theorem specResults_fault (cmp : Bytes → Bytes → Ordering) : ∀ (cs : List Call) (acc : List KV),
    (∃ c ∈ cs, c.fault ≠ .none) → ∃ r ∈ specResults cmp acc cs, r ≠ .ok
  | [], _, h => by obtain ⟨_, hc, _⟩ := h; cases hc
  | c :: cs, acc, h => by
    obtain ⟨c', hc', hne⟩ := h
    simp only [specResults, List.mem_cons, exists_eq_or_imp]
    rcases List.mem_cons.mp hc' with rfl | hm
    · exact Or.inl (specRes_fault cmp acc c' hne)
    · exact Or.inr (specResults_fault cmp cs _ ⟨c', hm, hne⟩)

theorem find_ne_ok_some (rs : List WRes) (h : ∃ r ∈ rs, r ≠ .ok) : ∃ r, rs.find? (· ≠ .ok) = some r := by
  cases hf : rs.find? (· ≠ .ok) with
  | some r => exact ⟨r, rfl⟩
  | none =>
    rw [List.find?_eq_none] at hf
    obtain ⟨r, hr, hne⟩ := h
    exact absurd (by simpa using hne) (hf r hr)

theorem run_fault_not_ok (cfg : SstCfg) (cs : List Call) (h : ∃ c ∈ cs, c.fault ≠ .none) :
    ∃ r, ((SstW.open cfg).run cfg cs).2.find? (· ≠ .ok) = some r := by
  apply find_ne_ok_some
  rw [C15.call_results]
  exact specResults_fault cfg.cmp cs [] h

theorem run_ok_no_fault (cfg : SstCfg) (cs : List Call)
    (h : ((SstW.open cfg).run cfg cs).2.find? (· ≠ .ok) = none) : ∀ c ∈ cs, c.fault = .none := by
  intro c hc
  cases hf : c.fault with
  | none => rfl
  | data =>
    obtain ⟨r, hr⟩ := run_fault_not_ok cfg cs ⟨c, hc, by rw [hf]; intro e; cases e⟩
    rw [h] at hr; cases hr
  | index =>
    obtain ⟨r, hr⟩ := run_fault_not_ok cfg cs ⟨c, hc, by rw [hf]; intro e; cases e⟩
    rw [h] at hr; cases hr

/-! ## `writeAndOpenF` -/

theorem wF_write_fault (P : Params) (gen : Nat) (calls : List Call) (faults : List Fault) (cf : CloseFault)
    (onW : WRes → Fail) (onC : List CloseErr → FailF) (onO : Err → Fail)
    (h : ∃ i, i < calls.length ∧ faults.getD i .none ≠ .none) :
    ∃ f, writeAndOpenF P gen calls faults cf onW onC onO = .error f := by
  obtain ⟨i, hi, hf⟩ := h
  obtain ⟨r, hr⟩ := run_fault_not_ok P.cfg _ (attachFaults_hit calls faults i hi hf)
  unfold writeAndOpenF
  rw [hr]
  exact ⟨_, rfl⟩

theorem wF_close_fault (P : Params) (gen : Nat) (calls : List Call) (faults : List Fault) (cf : CloseFault)
    (onW : WRes → Fail) (onC : List CloseErr → FailF) (onO : Err → Fail) (h : closeErrs cf ≠ []) :
    ∃ f, writeAndOpenF P gen calls faults cf onW onC onO = .error f := by
  unfold writeAndOpenF
  cases ((SstW.open P.cfg).run P.cfg (attachFaults calls faults)).2.find? (· ≠ .ok) with
  | some r => exact ⟨_, rfl⟩
  | none =>
    cases hc : closeErrs cf with
    | nil => exact absurd hc h
    | cons e es => exact ⟨_, rfl⟩

/-- success: no fault was attached to any call, `Close` returned nil, and the fault-free operation gives the
same table -/
theorem wF_ok (P : Params) (gen : Nat) (calls : List Call) (faults : List Fault) (cf : CloseFault)
    (onW : WRes → Fail) (onC : List CloseErr → FailF) (onO : Err → Fail) (t : LiveTbl)
    (hcalls : ∀ c ∈ calls, c.fault = .none)
    (h : writeAndOpenF P gen calls faults cf onW onC onO = .ok t) :
    closeErrs cf = [] ∧ attachFaults calls faults = calls ∧ writeAndOpen P gen calls onW onO = .ok t := by
  unfold writeAndOpenF at h
  cases hf : ((SstW.open P.cfg).run P.cfg (attachFaults calls faults)).2.find? (· ≠ .ok) with
  | some r => rw [hf] at h; cases h
  | none =>
    rw [hf] at h
    simp only at h
    cases hc : closeErrs cf with
    | cons e es => rw [hc] at h; cases h
    | nil =>
      rw [hc] at h
      simp only at h
      have hid := attachFaults_id calls faults (run_ok_no_fault P.cfg _ hf) hcalls
      rw [hid] at h
      refine ⟨rfl, hid, ?_⟩
      cases hw : writeAndOpen P gen calls onW onO with
      | error f => rw [hw] at h; cases h
      | ok t' => rw [hw] at h; cases h; rfl

theorem closeErrs_none : closeErrs {} = [] := rfl

theorem wF_nofault (P : Params) (gen : Nat) (calls : List Call)
    (onW : WRes → Fail) (onC : List CloseErr → FailF) (onO : Err → Fail) :
    writeAndOpenF P gen calls [] {} onW onC onO = liftFail (writeAndOpen P gen calls onW onO) := by
  unfold writeAndOpenF
  rw [attachFaults_nil, closeErrs_none]
  cases hf : ((SstW.open P.cfg).run P.cfg calls).2.find? (· ≠ .ok) with
  | none => rfl
  | some r =>
    simp only
    unfold writeAndOpen
    simp only [hf]
    rfl

theorem mkCall_fault (calls : List (GoBytes × GoBytes)) : ∀ c ∈ calls.map mkCall, c.fault = .none := by
  intro c hc
  obtain ⟨_, _, rfl⟩ := List.mem_map.mp hc
  rfl

theorem kvCall_fault (out : List (Bytes × GoBytes)) :
    ∀ c ∈ out.map (fun p => ({ key := p.1, value := p.2, fault := .none } : Call)), c.fault = .none := by
  intro c hc
  obtain ⟨_, _, rfl⟩ := List.mem_map.mp hc
  rfl

/-! ## flush -/

theorem flushF_fault (P : Params) (ff : FlushFaults) (c : Stack.State)
    (hp : c.flushPending = true) (hn : c.r.sl.size ≠ 0)
    (hit : (∃ i, i < ((Mem.flushCalls c.r true).getD []).length ∧ ff.writes.getD i .none ≠ .none) ∨
      closeErrs ff.close ≠ []) :
    ∃ f, flushStepF P ff c = .error f := by
  unfold flushStepF
  simp only [hp, Bool.not_true, Bool.false_eq_true, if_false, hn, newWriter]
  cases hc : Mem.flushCalls c.r true with
  | none => exact ⟨_, rfl⟩
  | some calls =>
    simp only
    have : ∃ f, writeAndOpenF P (c.gen + 1) (calls.map mkCall) ff.writes ff.close .flushWrite .flushClose
        .flushOpen = .error f := by
      rcases hit with ⟨i, hi, hf⟩ | hcl
      · rw [hc] at hi
        exact wF_write_fault _ _ _ _ _ _ _ _ ⟨i, by simpa using hi, hf⟩
      · exact wF_close_fault _ _ _ _ _ _ _ _ hcl
    obtain ⟨f, hf⟩ := this
    rw [hf]
    exact ⟨f, rfl⟩

theorem flushF_ok (P : Params) (ff : FlushFaults) (c c' : Stack.State) (h : flushStepF P ff c = .ok c') :
    Stack.flushStep P c = .ok c' := by
  unfold flushStepF at h
  unfold Stack.flushStep
  by_cases hp : (!c.flushPending) = true
  · simp only [hp, if_true] at h ⊢; cases h; rfl
  · simp only [hp, Bool.false_eq_true, if_false] at h ⊢
    by_cases hz : c.r.sl.size = 0
    · simp only [hz, if_true] at h ⊢; cases h; rfl
    · simp only [hz, if_false] at h ⊢
      cases hw : newWriter c.r.sl.size with
      | error f => rw [hw] at h; cases h
      | ok u =>
        rw [hw] at h
        simp only at h ⊢
        cases hc : Mem.flushCalls c.r true with
        | none => rw [hc] at h; cases h
        | some calls =>
          rw [hc] at h
          simp only at h ⊢
          cases hwo : writeAndOpenF P (c.gen + 1) (calls.map mkCall) ff.writes ff.close .flushWrite .flushClose
              .flushOpen with
          | error f => rw [hwo] at h; cases h
          | ok t =>
            rw [hwo] at h
            obtain ⟨_, _, h3⟩ := wF_ok _ _ _ _ _ _ _ _ t (mkCall_fault calls) hwo
            rw [h3]
            cases h; rfl

theorem flushF_nofault (P : Params) (c : Stack.State) : flushStepF P {} c = liftFail (Stack.flushStep P c) := by
  unfold flushStepF Stack.flushStep
  by_cases hp : (!c.flushPending) = true
  · simp only [hp, if_true]; rfl
  · simp only [hp, Bool.false_eq_true, if_false]
    by_cases hz : c.r.sl.size = 0
    · simp only [hz, if_true]; rfl
    · simp only [hz, if_false]
      cases newWriter c.r.sl.size with
      | error f => rfl
      | ok u =>
        simp only
        cases Mem.flushCalls c.r true with
        | none => rfl
        | some calls =>
          simp only [wF_nofault]
          cases writeAndOpen P (c.gen + 1) (calls.map mkCall) .flushWrite .flushOpen <;> rfl

/-! ## compaction: the plan -/

theorem attachReads_nil : ∀ scans : List ScanRes, attachReads scans [] = scans.map scanInput
  | [] => rfl
  | sr :: srs => by simp only [attachReads, List.map_cons, attachReads_nil srs]

theorem scanInput_items (sr : ScanRes) : (scanInput sr).items = sr.1 := by
  unfold scanInput
  cases sr.2 <;> rfl

theorem attachReads_items : ∀ (scans : List ScanRes) (reads : List (Option Nat)),
    (attachReads scans reads).map FInput.items = scans.map (·.1)
  | [], _ => rfl
  | sr :: srs, [] => by
    simp only [attachReads, List.map_cons, scanInput_items, attachReads_items srs []]
  | sr :: srs, r :: rs => by
    simp only [attachReads, List.map_cons, attachReads_items srs rs]
    congr 1
    cases r
    · exact scanInput_items sr
    · rfl

/-- the factored plan with no read faults is `compactPlan` -/
theorem compactPlanF_nil (P : Params) (c : Stack.State) : compactPlanF P [] c = compactPlan P c := by
  unfold compactPlanF compactSel compactPlan planOf reducerOf
  simp only [attachReads_nil]
  generalize DBM.floodFill (c.tables.map fun t => candidateMd c.opts t.rd.md) = flags
  generalize (List.range c.tables.length).filter (fun i => flags.getD i false) = idx
  by_cases hC : (idx.isEmpty || decide ((idx.length : Int) ≤ c.opts.threshold)) = true
  · simp only [hC, if_true]
  · simp only [hC, Bool.false_eq_true, if_false]
    cases idx with
    | nil => rfl
    | cons first rest =>
      simp only
      generalize (first :: rest).filterMap (fun i => c.tables[i]?) = sel
      cases sel with
      | nil => rfl
      | cons t0 sel' =>
        simp only
        generalize newWriter _ = nw
        cases nw with
        | error f => rfl
        | ok u =>
          simp only
          generalize scanAll P (t0 :: sel') = sc
          cases sc with
          | error e => rfl
          | ok scans =>
            simp only
            generalize Merge.mergeCompact (scans.map scanInput) {} _ = mc
            obtain ⟨e, wr⟩ := mc
            cases e <;> rfl

/-- a consumed read fault makes the merge, hence the plan, fail (C11 merger half) -/
theorem planOf_read_fault (reads : List (Option Nat)) (si : SelInfo)
    (h : ∃ i ∈ attachReads si.scans reads, i.endErr ≠ none) : ∃ f, planOf reads si = .error f := by
  have := (C11.mergeCompact_fault_reported (attachReads si.scans reads) {} (reducerOf si.dropTombstones)).1 h
  unfold planOf
  generalize Merge.mergeCompact (attachReads si.scans reads) {} (reducerOf si.dropTombstones) = mc at this ⊢
  obtain ⟨e, wr⟩ := mc
  cases e with
  | none => exact absurd rfl this
  | some e => exact ⟨_, rfl⟩

/-- a plan that succeeds under read faults consumed none of them and is the fault-free plan -/
theorem planOf_ok_eq (reads : List (Option Nat)) (si : SelInfo) (plF pl : Plan)
    (hF : planOf reads si = .ok plF) (h0 : planOf [] si = .ok pl) : plF = pl := by
  unfold planOf at hF h0
  have key : ∀ (rd : List (Option Nat)) (p : Plan),
      (match Merge.mergeCompact (attachReads si.scans rd) {} (reducerOf si.dropTombstones) with
        | (some e, _) => (Except.error (Fail.compactMerge e) : Except Fail Plan)
        | (none, wr) => .ok { first := si.first, idx := si.idx, gens := si.gens, gen := si.gen, out := wr.out })
        = .ok p →
      p = { first := si.first, idx := si.idx, gens := si.gens, gen := si.gen,
            out := Merge.recordsOf (Merge.compactOf (reducerOf si.dropTombstones)
              (PQ.drain Merge.goCmp (si.scans.map (·.1)))) } := by
    intro rd p hp
    have hs := Proofs.Merge.mergeCompact_success (attachReads si.scans rd) {} (reducerOf si.dropTombstones)
    generalize Merge.mergeCompact (attachReads si.scans rd) {} (reducerOf si.dropTombstones) = mc at hp hs
    obtain ⟨e, wr⟩ := mc
    cases e with
    | some e => cases hp
    | none =>
      obtain ⟨_, hout, _⟩ := hs rfl
      simp only at hp hout
      cases hp
      rw [hout]
      simp only [List.nil_append, Merge.mergedOf, attachReads_items]
  rw [key reads plF hF, key [] pl h0]

end SST.Proofs.Stack
